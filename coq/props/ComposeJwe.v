(* ComposeJwe — composition layer, JWE side.  Only statements; proofs are in
   proofs/ComposeJwe.v (step 1), ComposeJweEq.v, ComposeJwePipe.v, ComposeJweC18.v,
   ComposeJweJwt.v; translations in model/ComposeJweDefs.v (and ComposeDefs.v).

   The JWE pipeline model (model/JweBase.v, JweCrypto.v, JweMsg.v, JweKeys.v; subject of
   C02 / C04 / C08) re-models functions of joserfc that C05 / C06 / C14 / C15 / C17 / C18
   model on their own, and takes two of them as oracle fields (o_check_header: C15,
   o_inflate / o_deflate: C17).
     Part 1  the copies are equal, for all inputs, up to the stated translation
     Part 2  the per-property characterisations as theorems about the JWE entry points
     Part 3  C09's transport contract for the JWE transport, from C04's wire round trip
   Where two models differ the statement carries the side condition and a [*_differs]
   theorem exhibits the excluded input. *)
From Coq Require Import String List NArith ZArith Bool Lia.
From Model Require Import Base PyVal TableTypes ComposeDefs.
From Model Require Import JweKeys ComposeJweDefs.
From Model Require C05Model C06Model C06Spec C14KeySet C14Spec C15Registry C15Spec C17Zip C18Model C09Jwt C09Spec.
From Gen Require Import Tables.
From Proofs Require C04Proofs C04Multi.
From Proofs Require Import ComposeJwe.
From Proofs Require ComposeJweEq ComposeJwePipe ComposeJweC18 ComposeJweJwt.
Import ListNotations.
Open Scope N_scope.

(* ================================================================== *)
(* Part 1 — equalities                                                  *)
(* ================================================================== *)

(* ---- JWERegistry.get_alg / get_enc / get_zip : JweMsg.v vs C05Model.v ---- *)
(* the JWE pipeline model is the process state after the drafts are registered (w0_drafts) *)
Theorem compose_jwe_eq_gates : forall g v,
  get_alg g v = C05Model.jwe_get_alg C05Model.w0_drafts (allowed_pv (g_allowed g)) v /\
  get_enc g v = C05Model.jwe_get_enc C05Model.w0_drafts (allowed_pv (g_allowed g)) v /\
  get_zip g v = C05Model.jwe_get_zip C05Model.w0_drafts (allowed_pv (g_allowed g)) v.
Proof.
  exact (fun g v => conj (ComposeJweEq.jwe_get_alg_eq g v)
                         (conj (ComposeJweEq.jwe_get_enc_eq g v) (ComposeJweEq.jwe_get_zip_eq g v))).
Qed.

(* registry selection of jwe.py (`if algorithms:` overrides registry=; default registry otherwise) *)
Theorem compose_jwe_eq_registry_selection : forall algs reg,
  C05Model.jwe_select C05Model.w0_drafts (allowed_pv algs) (option_map allowed_pv reg)
  = allowed_pv (jwe_sel algs reg).
Proof. exact ComposeJweEq.jwe_select_eq. Qed.

Theorem compose_jwe_eq_gates_selected : forall algs reg v vall,
  let g := {| g_allowed := jwe_sel algs reg; g_verify_all := vall |} in
  let sel := C05Model.jwe_select C05Model.w0_drafts (allowed_pv algs) (option_map allowed_pv reg) in
  get_alg g v = C05Model.jwe_get_alg C05Model.w0_drafts sel v /\
  get_enc g v = C05Model.jwe_get_enc C05Model.w0_drafts sel v /\
  get_zip g v = C05Model.jwe_get_zip C05Model.w0_drafts sel v.
Proof. exact ComposeJweEq.jwe_select_gate_eq. Qed.

(* the standard tables (state after import, w0): whatever its gate accepts, the drafts
   state accepts with the same row; both recommended lists are the same list *)
Theorem compose_jwe_gates_standard_to_drafts : forall a n,
  (forall m, C05Model.jwe_get_alg C05Model.w0 (C05Model.pv_of_allowed a) (PStr n) = Ok m ->
             C05Model.jwe_get_alg C05Model.w0_drafts (C05Model.pv_of_allowed a) (PStr n) = Ok m) /\
  (forall m, C05Model.jwe_get_enc C05Model.w0 (C05Model.pv_of_allowed a) (PStr n) = Ok m ->
             C05Model.jwe_get_enc C05Model.w0_drafts (C05Model.pv_of_allowed a) (PStr n) = Ok m) /\
  (forall m, C05Model.jwe_get_zip C05Model.w0 (C05Model.pv_of_allowed a) (PStr n) = Ok m ->
             C05Model.jwe_get_zip C05Model.w0_drafts (C05Model.pv_of_allowed a) (PStr n) = Ok m).
Proof. exact ComposeJweEq.jwe_gate_standard_to_drafts. Qed.

Example compose_jwe_ex_gates :
  (exists a, get_alg {| g_allowed := None; g_verify_all := false |} (PStr (asc "dir")) = Ok a) /\
  get_alg {| g_allowed := None; g_verify_all := false |} (PStr (asc "RSA1_5")) = Err (EJose UnsupportedAlgorithmError) /\
  (exists a, get_alg {| g_allowed := jwe_sel (Some [asc "RSA1_5"]) (Some None); g_verify_all := false |}
               (PStr (asc "RSA1_5")) = Ok a) /\
  (exists m, C05Model.jwe_get_enc C05Model.w0 (C05Model.pv_of_allowed None) (PStr (asc "A128GCM")) = Ok m).
Proof.
  split; [eexists; vm_compute; reflexivity|]. split; [vm_compute; reflexivity|].
  split; eexists; vm_compute; reflexivity.
Qed.

(* (step 1) the same gate against C17's copy of get_zip *)
Theorem compose_jwe_eq_get_zip : forall verify_all allowed n,
  runit (get_zip {| g_allowed := option_map (map asc) allowed; g_verify_all := verify_all |} (PStr (asc n)))
  = C17Zip.get_zip allowed n.
Proof. exact get_zip_eq. Qed.

Example compose_jwe_ex_get_zip :
  C17Zip.get_zip None "DEF" = Ok tt /\
  C17Zip.get_zip (Some ["A128GCM"%string]) "DEF" = Err (EJose UnsupportedAlgorithmError) /\
  runit (get_zip {| g_allowed := None; g_verify_all := false |} (PStr (asc "GZ"))) = Err (EJose UnsupportedAlgorithmError).
Proof. repeat split; vm_compute; reflexivity. Qed.

(* ---- Recipient.headers(): JweCrypto.v vs C15 merge_parts vs C14 headers ---- *)
(* protected < unprotected (JSON only) < per-recipient; members that are dicts or absent *)
Theorem compose_jwe_headers_merge : forall s prot u h,
  headers s prot (optd u) (optd h) = Ok (C15Registry.merge_parts (ser_parts s prot u h)).
Proof. exact ComposeJweEq.headers_merge. Qed.

(* C14's carrier: equal for JSON; for compact C14 reads the protected dict itself, JweCrypto a
   copy made by update(): equal for dicts with unique member names *)
Theorem compose_jwe_guest_headers : forall s prot u h,
  (s = Compact -> h = None /\ keys_unique (dkeys prot) = true) ->
  C14KeySet.headers (guest_of s prot u h) = C15Registry.merge_parts (ser_parts s prot u h).
Proof. exact ComposeJweEq.guest_headers. Qed.

Example compose_jwe_ex_headers :
  headers General [(s_ "enc", PStr (asc "A128GCM")); (s_ "kid", PStr (asc "p"))]
          (PDict [(s_ "kid", PStr (asc "u"))]) (PDict [(s_ "kid", PStr (asc "r")); (s_ "alg", PStr (asc "dir"))])
  = Ok [(s_ "enc", PStr (asc "A128GCM")); (s_ "kid", PStr (asc "r")); (s_ "alg", PStr (asc "dir"))].
Proof. vm_compute. reflexivity. Qed.

(* ---- KeySet.get_by_kid / guess_key / _guess_sender_key : JweKeys.v vs C14KeySet.v ---- *)
(* [kk_of mat use]: a C14 key as the JWE key resolution sees it (kid member = C14's kid) *)
Theorem compose_jwe_eq_get_by_kid : forall mat use ks kid,
  JweKeys.get_by_kid (map (kk_of mat use) ks) kid = rmap (kk_of mat use) (C14KeySet.get_by_kid ks kid).
Proof. exact ComposeJweEq.jwe_get_by_kid_eq. Qed.

Theorem compose_jwe_eq_guess_key : forall mat use tbl ch src x idx s prot u h,
  (s = Compact -> h = None /\ keys_unique (dkeys prot) = true) ->
  ksrc0_of mat use src = Some x ->
  JweKeys.guess_key (KPlain x) idx (headers s prot (optd u) (optd h)) =
  rmap (fun kg => kk_of mat use (fst kg))
       (C14KeySet.guess_key tbl ch (C14KeySet.KFDirect src) (guest_of s prot u h) false).
Proof. exact ComposeJweEq.jwe_guess_key_eq. Qed.

(* C14 resolves the sender key, JweKeys additionally applies check_use("enc") to it *)
Theorem compose_jwe_eq_guess_sender : forall mat use tbl ch sk s prot u h,
  (s = Compact -> h = None /\ keys_unique (dkeys prot) = true) ->
  guess_sender (ComposeJweEq.sksrc0_of mat use sk) (headers s prot (optd u) (optd h)) =
  do k <- rmap (fun kg => kk_of mat use (fst kg))
               (C14KeySet.guess_sender_key tbl ch sk (guest_of s prot u h) false);
  do _ <- check_use_enc k; Ok k.
Proof. exact ComposeJweEq.jwe_guess_sender_eq. Qed.

Theorem compose_jwe_eq_sender_given : forall mat use o,
  JweKeys.sender_given (option_map (ComposeJweEq.sksrc0_of mat use) o)
  = option_map (ComposeJweEq.sksrc0_of mat use) (C14KeySet.sender_given o).
Proof. exact ComposeJweEq.jwe_sender_given_eq. Qed.

(* ---- key gates : JweKeys.v / JweCrypto.v vs C06Model.v ---- *)
(* [krel k use k6]: same type, curve, private flag, oct size; the JWE model has no key_ops / alg *)
Theorem compose_jwe_eq_check_use : forall kk k6,
  (C06Model.k_use k6 = Some (kk_use kk) -> check_use_enc kk = C06Model.check_use "enc" k6) /\
  (C06Model.k_use k6 = None -> kk_use kk = PNone -> check_use_enc kk = C06Model.check_use "enc" k6).
Proof. exact (fun kk k6 => conj (ComposeJweEq.jwe_check_use_eq kk k6) (ComposeJweEq.jwe_check_use_eq_absent kk k6)). Qed.

Theorem compose_jwe_eq_check_key_type : forall a k use k6, krel k use k6 ->
  JweCrypto.check_key_type a k = C06Model.jwe_check_key_type a k6.
Proof. exact ComposeJweEq.jwe_check_key_type_eq. Qed.

Theorem compose_jwe_eq_check_op_key : forall a k use k6 sz, krel k use k6 ->
  C06Model.k_kty k6 = C06Model.KOct -> ea_key_size a = Some sz ->
  JweCrypto.check_op_key (key_size_of a) (k_id k) = C06Model.check_op_key a (C06Model.native_of k6 false).
Proof. exact ComposeJweEq.jwe_check_op_key_eq. Qed.

(* without a declared key size the two differ on the empty key; /repo compares
   len(op_key)*8 != None, which is always true: C06 is right, JweCrypto.key_size_of (None -> 0)
   is wrong there.  Unreachable: every wrapping / RSA row of /repo declares a size *)
Theorem compose_jwe_check_op_key_differs :
  let a := {| ea_name := "X"; ea_family := "AESKW"; ea_direct := false; ea_tag_aware := false;
              ea_key_types := ["oct"%string]; ea_key_size := None; ea_recommended := false; ea_more := [];
              ea_wrap := ""; ea_hash := ""; ea_p2c := 0; ea_pad := "" |} in
  JweCrypto.check_op_key (key_size_of a) [] = Ok tt /\
  C06Model.check_op_key a (C06Model.NBytes 0) = Err (EJose InvalidKeyLengthError) /\
  forallb (fun r => if String.eqb (ea_family r) "AESKW" || String.eqb (ea_family r) "AESGCMKW"
                       || String.eqb (ea_family r) "PBES2" || String.eqb (ea_family r) "RSA"
                    then match ea_key_size r with Some _ => true | None => false end else true)
          jwe_alg_table_drafts = true.
Proof. exact ComposeJweEq.jwe_check_op_key_differs. Qed.

Theorem compose_jwe_eq_rsa_size : forall a priv bits sz, ea_key_size a = Some sz ->
  (if bits <? key_size_of a then Err (EJose InvalidKeyLengthError) else Ok tt) =
  C06Model.rsa_size_gate a (C06Model.NRsa priv bits).
Proof. exact ComposeJweEq.jwe_rsa_size_eq. Qed.

Theorem compose_jwe_eq_check_enc_1pu : forall a e, JweCrypto.check_enc_1pu a e = C06Model.check_enc_1pu a e.
Proof. exact ComposeJweEq.jwe_check_enc_1pu_eq. Qed.

(* exchange_derive_key: JweCrypto.exchange = its curve gate, then the ECDH primitive; the gate is
   C06's exchange_derive_key for the key types that have the method *)
Theorem compose_jwe_eq_exchange_gate : forall O self us s6 other uo o6,
  krel self us s6 -> krel other uo o6 ->
  C06Model.k_kty s6 = C06Model.KEc \/ C06Model.k_kty s6 = C06Model.KOkp ->
  exchange O self other =
    (if exch_gate self other then o_ecdh O (k_id self) (k_id other) else Err (EJose InvalidExchangeKeyError)) /\
  C06Model.exchange_derive_key s6 o6 =
    (if exch_gate self other then Ok tt else Err (EJose InvalidExchangeKeyError)).
Proof.
  exact (fun O self us s6 other uo o6 RS RO KS =>
           conj (ComposeJweEq.exchange_unfold O self other)
                (ComposeJweEq.jwe_exchange_gate_eq self us s6 other uo o6 RS RO KS)).
Qed.

(* an oct / RSA key object has no exchange_derive_key: AttributeError in C06 (and /repo),
   InvalidExchangeKeyError in JweCrypto.exchange; unreachable (check_key_type comes first) *)
Theorem compose_jwe_exchange_differs : forall O,
  let self := {| k_kty := s_ "oct"; k_crv := []; k_priv := true; k_id := [1] |} in
  let s6 := {| C06Model.k_kty := C06Model.KOct; C06Model.k_crv := ""; C06Model.k_bits := 8;
               C06Model.k_priv := true; C06Model.k_use := None; C06Model.k_ops := None; C06Model.k_alg := None |} in
  exchange O self self = Err (EJose InvalidExchangeKeyError) /\
  C06Model.exchange_derive_key s6 s6 = Err EAttr.
Proof. exact ComposeJweEq.jwe_exchange_differs. Qed.

Example compose_jwe_ex_krel :
  krel {| k_kty := s_ "oct"; k_crv := []; k_priv := true; k_id := [1; 2] |} (PStr (s_ "enc"))
       {| C06Model.k_kty := C06Model.KOct; C06Model.k_crv := ""; C06Model.k_bits := 16;
          C06Model.k_priv := true; C06Model.k_use := Some (PStr (s_ "enc")); C06Model.k_ops := None;
          C06Model.k_alg := None |}.
Proof. constructor; try reflexivity. Qed.

(* ---- the zip step : JweMsg.v vs C17Zip.v ---- *)
Section ComposeJweZip.
  Variable O : oracles.
  Variable zdec : C17Zip.zoracle.
  Variable zcomp : bytes -> bytes.
  Hypothesis inflate_is_c17 : forall x, o_inflate O x = C17Zip.decompress zdec x.
  Hypothesis deflate_is_zlib : forall m, o_deflate O m = Ok (zcomp m).

  (* (step 1) decrypt side *)
  Theorem compose_jwe_unzip_c17 : forall g prot m,
    unzip O g prot m =
    if dmem prot (s_ "zip") then do _ <- get_zip g (hget prot "zip"); C17Zip.decompress zdec m else Ok m.
  Proof. exact (unzip_c17 O zdec inflate_is_c17). Qed.

  Theorem compose_jwe_unzip_c17_named : forall verify_all allowed prot n m,
    dget prot (s_ "zip") = Some (PStr (asc n)) ->
    unzip O {| g_allowed := option_map (map asc) allowed; g_verify_all := verify_all |} prot m =
    match C17Zip.get_zip allowed n with
    | Ok _ => C17Zip.decompress zdec m
    | Err e => Err e
    end.
  Proof. exact (unzip_c17_named O zdec inflate_is_c17). Qed.

  (* encrypt side: data = zlib.compress(s); return data[2:-4] *)
  Theorem compose_jwe_zip_compress_c17 : forall m, zip_compress O m = Ok (C17Zip.compress zcomp m).
  Proof. exact (ComposeJweEq.zip_compress_c17 O zcomp deflate_is_zlib). Qed.

  Theorem compose_jwe_zip_plain_c17 : forall g prot m,
    zip_plain O g prot m =
    if dmem prot (s_ "zip") then do _ <- get_zip g (hget prot "zip"); Ok (C17Zip.compress zcomp m) else Ok m.
  Proof. exact (ComposeJweEq.zip_plain_c17 O zcomp deflate_is_zlib). Qed.
End ComposeJweZip.

Example compose_jwe_ex_zip_member : dget [(s_ "zip", PStr (asc "DEF"))] (s_ "zip") = Some (PStr (asc "DEF")).
Proof. reflexivity. Qed.

(* ---- C18: the row predicates and table lookups are the same ---- *)
Theorem compose_c18_eq_predicates : forall a f n,
  C18Model.fam a f = fam_is (ea_family a) f /\
  C18Model.is_agreement a = JweCrypto.is_agreement a /\
  C18Model.find_alg jwe_alg_table_drafts n = JweMsg.find_alg (asc n) /\
  C18Model.find_enc jwe_enc_table_drafts n = JweMsg.find_enc (asc n).
Proof.
  exact (fun a f n => conj (ComposeJweC18.fam_eq a f) (conj (ComposeJweC18.is_agreement_eq a)
                      (conj (ComposeJweC18.find_alg_eq n) (ComposeJweC18.find_enc_eq n)))).
Qed.

(* ================================================================== *)
(* Part 2 — the characterisations, on the JWE entry points              *)
(* ================================================================== *)
Section ComposeJwePipeline.
  Variable O : oracles.

  Notation loop_ok := (ComposeJwePipe.loop_ok O).
  Notation pre_ok := (ComposeJwePipe.pre_ok O).

  (* what every accepting decryption / producing run did (no hypothesis on O) *)
  Theorem compose_jwe_decrypt_inv : forall g o m,
    perform_decrypt O g o = Ok m ->
    exists encv e cek aad msg,
      hitem (j_prot o) "enc" = Ok encv /\ get_enc g encv = Ok e /\ check_iv e (j_iv o) = Ok tt /\
      recip_loop O g e o (j_recips o) [] = Ok [cek] /\ lenN cek * 8 = ee_cek_size e /\
      enc_decrypt O e (j_ct o) (j_tag o) cek (j_iv o) aad = Ok msg /\
      unzip O g (j_prot o) msg = Ok m /\
      Forall (loop_ok g o) (j_recips o).
  Proof. exact (ComposeJwePipe.perform_decrypt_inv O). Qed.

  Theorem compose_jwe_encrypt_inv : forall g o d x,
    perform_encrypt O g o d = Ok x ->
    exists encv e m,
      hitem (e_prot o) "enc" = Ok encv /\ get_enc g encv = Ok e /\
      zip_plain O g (x_prot x) (e_plain o) = Ok m /\
      x_iv x = d_civ d /\
      enc_encrypt O e m (x_cek x) (x_iv x) (x_aadseg x) = Ok (x_ct x, x_tag x) /\
      Forall (pre_ok g (e_ser o) (e_unprot o)) (e_recips o).
  Proof. exact (ComposeJwePipe.perform_encrypt_inv O). Qed.

  (* the entry points of jwe.py with key resolution: what was attached to each recipient *)
  Theorem compose_jwe_decrypt_compact_k_inv : forall g value src ssrc m o,
    decrypt_compact_k O g value src ssrc = Ok (m, o) ->
    exists o0, extract_compact O value {| k_kty := []; k_crv := []; k_priv := false; k_id := [] |} None = Ok o0 /\
      ComposeJwePipe.attached o0 src ssrc 0 (j_recips o0) (j_recips o) /\ o = set_recips o0 (j_recips o) /\
      perform_decrypt O g o = Ok m.
  Proof. exact (ComposeJwePipe.decrypt_compact_k_inv O). Qed.

  Theorem compose_jwe_decrypt_json_k_inv : forall g data src ssrc m o,
    decrypt_json_k O g data src ssrc = Ok (m, o) ->
    exists o0, extract_json O data [] {| k_kty := []; k_crv := []; k_priv := false; k_id := [] |} None = Ok o0 /\
      ComposeJwePipe.attached o0 src ssrc 0 (j_recips o0) (j_recips o) /\ o = set_recips o0 (j_recips o) /\
      perform_decrypt O g o = Ok m.
  Proof. exact (ComposeJwePipe.decrypt_json_k_inv O). Qed.

  (* ---- C15 ---- *)
  Section C15.
    Variable tbl : list jwe_alg_row.
    Variable recommended : list string.
    Variable allowed : option (list string).
    Variable reg : list hparam.
    Variable strict : bool.
    Hypothesis check_header_is_c15 : forall hs cm,
      o_check_header O (PDict hs) cm = C15Registry.jwe_check_header tbl recommended allowed reg strict hs cm.
    Notation hok := (C15Spec.header_ok_jwe tbl recommended allowed reg strict).

    (* (step 1) *)
    Theorem compose_c15_jwe_decrypt : forall g o m,
      perform_decrypt O g o = Ok m ->
      Forall (recipient_ok tbl recommended allowed reg strict o) (j_recips o).
    Proof. exact (perform_decrypt_checked O tbl recommended allowed reg strict check_header_is_c15). Qed.

    (* every recipient's merged header in C15's merge order, consuming side (check_more = true) *)
    Theorem compose_c15_jwe_decrypt_merged : forall g o m u,
      perform_decrypt O g o = Ok m -> j_unprot o = optd u ->
      Forall (fun r => forall h, r_header r = optd h ->
                hok (C15Registry.merge_parts (ser_parts (j_ser o) (j_prot o) u h)) true = true) (j_recips o).
    Proof. exact (ComposeJwePipe.c15_decrypt_merged O tbl recommended allowed reg strict check_header_is_c15). Qed.

    (* producing side (check_more = false): every recipient, with the protected header as it is
       when that recipient is processed *)
    Theorem compose_c15_jwe_encrypt : forall g o d x,
      perform_encrypt O g o d = Ok x ->
      Forall (fun r => exists prot hs, headers (e_ser o) prot (e_unprot o) (r_header r) = Ok hs /\
                                       hok hs false = true) (e_recips o).
    Proof. exact (ComposeJwePipe.c15_encrypt O tbl recommended allowed reg strict check_header_is_c15). Qed.
  End C15.

  (* ---- C05: enc, every recipient's alg, and zip are registered names of the effective
          allow-list ---- *)
  Theorem compose_c05_jwe_decrypt : forall g o m,
    perform_decrypt O g o = Ok m ->
    (exists n e, hitem (j_prot o) "enc" = Ok (PStr n) /\
                 C05Model.find_row ee_name jwe_enc_table_drafts n = Some e /\ ComposeJwePipe.listed g n) /\
    Forall (fun r => exists hs, headers (j_ser o) (j_prot o) (j_unprot o) (r_header r) = Ok hs /\
                                ComposeJwePipe.alg_listed g hs) (j_recips o) /\
    (dmem (j_prot o) (s_ "zip") = true ->
     exists n z, hget (j_prot o) "zip" = PStr n /\
                 C05Model.find_row ez_name jwe_zip_table_drafts n = Some z /\ ComposeJwePipe.listed g n).
  Proof. exact (ComposeJwePipe.c05_decrypt O). Qed.

  Theorem compose_c05_jwe_encrypt : forall g o d x,
    perform_encrypt O g o d = Ok x ->
    (exists n e, hitem (e_prot o) "enc" = Ok (PStr n) /\
                 C05Model.find_row ee_name jwe_enc_table_drafts n = Some e /\ ComposeJwePipe.listed g n) /\
    Forall (fun r => exists prot hs, headers (e_ser o) prot (e_unprot o) (r_header r) = Ok hs /\
                                     ComposeJwePipe.alg_listed g hs) (e_recips o) /\
    (dmem (x_prot x) (s_ "zip") = true ->
     exists n z, hget (x_prot x) "zip" = PStr n /\
                 C05Model.find_row ez_name jwe_zip_table_drafts n = Some z /\ ComposeJwePipe.listed g n).
  Proof. exact (ComposeJwePipe.c05_encrypt O). Qed.

  (* ---- C17: with "zip" in the protected header the plaintext is bounded ---- *)
  Theorem compose_c17_decrypt_bound : forall zdec,
    (forall x, o_inflate O x = C17Zip.decompress zdec x) ->
    forall g o m, perform_decrypt O g o = Ok m -> dmem (j_prot o) (s_ "zip") = true ->
    C17Zip.blen m <= 256000.
  Proof. exact (ComposeJwePipe.c17_decrypt_bound O). Qed.

  (* ---- C06: every CEK-yielding path of decrypt_recipient passed the key-type gate; an accepted
          decryption recovered its CEK from some recipient ---- *)
  Theorem compose_c06_jwe_key_type_gate : forall a e hs r tag cek use k6,
    krel (r_key r) use k6 -> decrypt_recipient O a e hs r tag = Ok cek ->
    C06Model.jwe_check_key_type a k6 = Ok tt.
  Proof. exact (ComposeJwePipe.c06_key_type_gate O). Qed.

  Theorem compose_jwe_cek_from_some_recipient : forall g e o rs ceks out,
    recip_loop O g e o rs ceks = Ok out -> ceks = [] -> out <> [] ->
    exists r hs a cek, In r rs /\ ComposeJwePipe.hs_of o r = Ok hs /\
      decrypt_recipient O a e hs r (j_tag o) = Ok cek /\
      (exists algv, hitem hs "alg" = Ok algv /\ get_alg g algv = Ok a).
  Proof. exact (ComposeJwePipe.recip_loop_some O). Qed.
End ComposeJwePipeline.

(* no allow-list given: only the literals of the property text are usable *)
Theorem compose_c05_jwe_default : forall g n,
  g_allowed g = None \/ g_allowed g = Some [] -> ComposeJwePipe.listed g n ->
  In n (map asc ["RSA-OAEP"; "A128KW"; "A256KW"; "dir"; "ECDH-ES"; "ECDH-ES+A128KW"; "ECDH-ES+A256KW";
                 "A128CBC-HS256"; "A192CBC-HS384"; "A256CBC-HS512"; "A128GCM"; "A192GCM"; "A256GCM"; "DEF"]%string).
Proof. exact ComposeJwePipe.listed_default. Qed.

Example compose_c05_jwe_ex_listed :
  ComposeJwePipe.listed {| g_allowed := None; g_verify_all := false |} (asc "dir") /\
  ComposeJwePipe.listed {| g_allowed := Some [asc "RSA1_5"]; g_verify_all := false |} (asc "RSA1_5").
Proof. split; vm_compute; auto 20. Qed.

(* ---- C14: a key attached from a key set is the one C14's Spec names (first key with the
        merged header's kid; single-key shortcut only without kid); sender key by "skid" ---- *)
Theorem compose_c14_jwe_named : forall mat use ks idx hs k,
  guess_key (KPlain (KSet (map (kk_of mat use) ks))) idx hs = Ok k ->
  exists h k14, hs = Ok h /\ k = kk_of mat use k14 /\
    C14KeySet.get_by_kid ks (C14KeySet.hget h C14KeySet.s_kid) = Ok k14 /\
    ((C14KeySet.hget h C14KeySet.s_kid = PNone /\ ks = [k14]) \/
     C14Spec.first_with ks (C14KeySet.hget h C14KeySet.s_kid) k14).
Proof. exact ComposeJwePipe.c14_named. Qed.

Theorem compose_c14_jwe_sender_named : forall mat use ks hs sk,
  guess_sender (KSet (map (kk_of mat use) ks)) hs = Ok sk ->
  exists h k14, hs = Ok h /\ sk = kk_of mat use k14 /\
    py_truth (C14KeySet.hget h C14KeySet.s_skid) = true /\
    C14Spec.first_with ks (C14KeySet.hget h C14KeySet.s_skid) k14.
Proof. exact ComposeJwePipe.c14_sender_named. Qed.

(* ---- C06: the declared use of every attached recipient / sender key passed C06's gate
        ([attached] records check_use_enc = Ok tt for each of them) ---- *)
Theorem compose_c06_jwe_use_gate : forall k k6, C06Model.k_use k6 = Some (kk_use k) ->
  check_use_enc k = Ok tt -> C06Model.check_use "enc" k6 = Ok tt.
Proof. exact ComposeJwePipe.c06_use_gate. Qed.

Example compose_c14_jwe_ex_named :
  let mat := fun _ : C14KeySet.key => {| k_kty := s_ "oct"; k_crv := []; k_priv := true; k_id := [1] |} in
  let use := fun _ : C14KeySet.key => PNone in
  let ks := [C14KeySet.mkKey (Some (asc "a")) "oct" 1 []; C14KeySet.mkKey (Some (asc "b")) "oct" 2 []] in
  exists k, guess_key (KPlain (KSet (map (kk_of mat use) ks))) 0 (Ok [(s_ "kid", PStr (asc "b"))]) = Ok k /\
            kk_kid k = PStr (asc "b") /\ check_use_enc k = Ok tt.
Proof. cbv zeta. eexists. split; [vm_compute; reflexivity|]. split; reflexivity. Qed.

(* ---- C18: draw sites and sizes ---- *)
(* a draw of the size C18 gives (ee_iv_size / 8, ee_cek_size / 8 octets) meets the size premise of
   C04's round trip (and of Part 3) *)
Theorem compose_c18_sizes_fit : forall e (iv cek : bytes),
  In e jwe_enc_table_drafts ->
  lenN iv = ee_iv_size e / 8 -> lenN cek = ee_cek_size e / 8 ->
  lenN iv * 8 = ee_iv_size e /\ lenN cek * 8 = ee_cek_size e.
Proof. exact ComposeJweC18.c18_sizes_fit. Qed.

(* one compact recipient: the JWE model consumes its random inputs exactly at C18's sites
   (c18_iv, c18_cek, c18_gcmkw_iv, c18_pbes2: same conditions on the same row) and puts them where
   C18 says the draws end up *)
Theorem compose_c18_draw_sites : forall O g w p r d x,
  r_header r = PNone -> perform_encrypt O g (jwe_eobj w p r) d = Ok x ->
  exists e hs n a,
    (exists encn, hitem w "enc" = Ok (PStr encn) /\ JweMsg.find_enc encn = Some e) /\
    headers Compact w PNone PNone = Ok hs /\ hitem hs "alg" = Ok (PStr n) /\ JweMsg.find_alg n = Some a /\
    x_iv x = d_civ d /\
    (ea_direct a = false -> x_cek x = d_cek d) /\
    (C18Model.is_agreement a = false -> ea_direct a = false -> C18Model.fam a "AESGCMKW" = true ->
       dget (x_prot x) (s_ "iv") = Some (PStr (b64e (d_kwiv (ComposeJweC18.rdraw_of d))))) /\
    (C18Model.is_agreement a = false -> ea_direct a = false -> C18Model.fam a "PBES2" = true ->
       (dget w (s_ "p2s") = None ->
          dget (x_prot x) (s_ "p2s") = Some (PStr (b64e (d_p2s (ComposeJweC18.rdraw_of d))))) /\
       (forall v, dget w (s_ "p2s") = Some v -> dget (x_prot x) (s_ "p2s") = Some v)) /\
    (C18Model.is_agreement a = false -> ea_direct a = false ->
       C18Model.fam a "AESGCMKW" = false -> C18Model.fam a "PBES2" = false -> x_prot x = w).
Proof. exact ComposeJweC18.jwe_draw_sites. Qed.

Example compose_c18_ex_sizes :
  exists e, In e jwe_enc_table_drafts /\ ee_name e = "A128GCM"%string /\ ee_iv_size e / 8 = 12 /\ ee_cek_size e / 8 = 16.
Proof. eexists. split; [right; right; right; left; reflexivity|]. repeat split. Qed.

(* ================================================================== *)
(* Part 3 — C09 over the JWE transport                                  *)
(* ================================================================== *)
(* jwe_tenc = encrypt_compact + the protected-header dict after the call (x_prot);
   jwe_tdec = decrypt_compact + .headers(), .plaintext *)
Section ComposeJweJwt.
  Variable O : oracles.
  Variable g : registry.
  Hypothesis C : C04Proofs.contracts O.
  (* the premises of c04_compact_wire_rt about the oracle record: the consuming-side header check
     accepts, GCM tags are octets, json.loads inverts json.dumps *)
  Hypothesis CH : forall hs, o_check_header O (PDict hs) true = Ok tt.
  Hypothesis BT : forall k iv a m c t, o_gcm_enc O k iv a m = Ok (c, t) -> bytes_ok t = true.
  Hypothesis JL : forall v t a, o_dumps O v = Ok t -> ascii_enc t = Ok a -> o_loads O a = Ok v.

  (* what perform_encrypt writes into the protected header are NEW members when the header
     carried no epk / iv / tag ([fresh]); p2s / p2c are only written when absent *)
  Theorem compose_jwe_x_prot_extends : forall w p r d x,
    r_header r = PNone -> ComposeJweJwt.fresh w ->
    perform_encrypt O g (jwe_eobj w p r) d = Ok x -> extends w (x_prot x).
  Proof. exact (ComposeJweJwt.x_prot_extends O g). Qed.

  (* C09's [transport_rt] at (w, p): [rt_side] = the premises of C04's compact wire round trip
     (unique member names, recip_ok, IV / CEK inputs of the sizes of enc, produced segments are
     octets and the final header still names alg and enc) *)
  Theorem compose_c09_transport_rt_jwe : forall w p r d tok w',
    ComposeJweJwt.rt_side O g w p r d -> ComposeJweJwt.fresh w ->
    jwe_tenc O g r d w p = (Ok tok, w') ->
    jwe_tdec O g (r_key r) (r_sender r) tok = Ok (w', p) /\ extends w w'.
  Proof. exact (ComposeJweJwt.jwe_transport_rt_at O g C CH BT JL). Qed.

  Variable json_dumps : pv -> res bytes.
  Variable json_loads : bytes -> res pv.
  Hypothesis claims_json_rt : forall v b, C09Spec.json_ok v = true -> json_dumps v = Ok b -> json_loads b = Ok v.

  (* jwt.decode (jwt.encode h c key) with a JWE registry, over the JWE model *)
  Theorem compose_c09_rt_jwe : forall r d h c tok,
    keys_unique (dkeys h) = true -> C09Spec.claims_ok c = true ->
    ComposeJweJwt.fresh (C09Jwt.typ_default h) ->
    (forall p, json_dumps (PDict (match C09Jwt.claims_pv (fst (C09Jwt.convert_keys TablesC09.nd_keys c)) with
                                  | Some dd => dd | None => [] end)) = Ok p ->
               ComposeJweJwt.rt_side O g (C09Jwt.typ_default h) p r d) ->
    C09Jwt.eo_result (C09Jwt.encode json_dumps (jwe_tenc O g r d) h c) = Ok tok ->
    exists dd extra,
      C09Jwt.claims_pv (C09Jwt.eo_claims (C09Jwt.encode json_dumps (jwe_tenc O g r d) h c)) = Some dd /\
      C09Jwt.decode json_loads (jwe_tdec O g (r_key r) (r_sender r)) tok
        = Ok (C09Spec.spec_header h ++ extra, PDict dd) /\
      (forall k, dmem (C09Spec.spec_header h) k = true -> dmem extra k = false).
  Proof. exact (ComposeJweJwt.jwt_rt_jwe O g C CH BT JL json_dumps json_loads claims_json_rt). Qed.
End ComposeJweJwt.

(* the [fresh] side condition is needed: a header that already carries "epk" (or "iv" / "tag")
   has that member OVERWRITTEN IN PLACE by add_header, so the dict after the call is not
   "w followed by new members" (C09's transport_rt); /repo does the same (checked:
   jwt.encode({"alg":"ECDH-ES","epk":{..},"enc":..}) decodes to header order typ, alg, epk, enc) *)
Theorem compose_jwe_overwrite_not_extension :
  let w := [(s_ "alg", PStr (asc "ECDH-ES")); (s_ "epk", PDict []); (s_ "enc", PStr (asc "A128GCM"))] in
  ~ ComposeJweJwt.fresh w /\
  ~ extends w (dset w (s_ "epk") (PDict [(s_ "kty", PStr (asc "EC"))])) /\
  ComposeJweJwt.fresh [(s_ "alg", PStr (asc "ECDH-ES")); (s_ "enc", PStr (asc "A128GCM"))] /\
  extends [(s_ "alg", PStr (asc "ECDH-ES")); (s_ "enc", PStr (asc "A128GCM"))]
          (dset [(s_ "alg", PStr (asc "ECDH-ES")); (s_ "enc", PStr (asc "A128GCM"))] (s_ "epk") (PDict [])).
Proof.
  cbv zeta. split; [intros (E & _); vm_compute in E; discriminate|].
  split; [intros (extra & E & _); vm_compute in E; inversion E|].
  split; [repeat split|]. apply ComposeJweJwt.extends_dset. reflexivity.
Qed.

Print Assumptions compose_jwe_eq_gates.
Print Assumptions compose_jwe_eq_registry_selection.
Print Assumptions compose_jwe_eq_gates_selected.
Print Assumptions compose_jwe_gates_standard_to_drafts.
Print Assumptions compose_jwe_eq_get_zip.
Print Assumptions compose_jwe_headers_merge.
Print Assumptions compose_jwe_guest_headers.
Print Assumptions compose_jwe_eq_get_by_kid.
Print Assumptions compose_jwe_eq_guess_key.
Print Assumptions compose_jwe_eq_guess_sender.
Print Assumptions compose_jwe_eq_sender_given.
Print Assumptions compose_jwe_eq_check_use.
Print Assumptions compose_jwe_eq_check_key_type.
Print Assumptions compose_jwe_eq_check_op_key.
Print Assumptions compose_jwe_check_op_key_differs.
Print Assumptions compose_jwe_eq_rsa_size.
Print Assumptions compose_jwe_eq_check_enc_1pu.
Print Assumptions compose_jwe_eq_exchange_gate.
Print Assumptions compose_jwe_exchange_differs.
Print Assumptions compose_jwe_unzip_c17.
Print Assumptions compose_jwe_unzip_c17_named.
Print Assumptions compose_jwe_zip_compress_c17.
Print Assumptions compose_jwe_zip_plain_c17.
Print Assumptions compose_c18_eq_predicates.
Print Assumptions compose_jwe_decrypt_inv.
Print Assumptions compose_jwe_encrypt_inv.
Print Assumptions compose_jwe_decrypt_compact_k_inv.
Print Assumptions compose_jwe_decrypt_json_k_inv.
Print Assumptions compose_c15_jwe_decrypt.
Print Assumptions compose_c15_jwe_decrypt_merged.
Print Assumptions compose_c15_jwe_encrypt.
Print Assumptions compose_c05_jwe_decrypt.
Print Assumptions compose_c05_jwe_encrypt.
Print Assumptions compose_c05_jwe_default.
Print Assumptions compose_c17_decrypt_bound.
Print Assumptions compose_c06_jwe_key_type_gate.
Print Assumptions compose_jwe_cek_from_some_recipient.
Print Assumptions compose_c14_jwe_named.
Print Assumptions compose_c14_jwe_sender_named.
Print Assumptions compose_c06_jwe_use_gate.
Print Assumptions compose_c18_sizes_fit.
Print Assumptions compose_c18_draw_sites.
Print Assumptions compose_jwe_x_prot_extends.
Print Assumptions compose_c09_transport_rt_jwe.
Print Assumptions compose_c09_rt_jwe.
Print Assumptions compose_jwe_overwrite_not_extension.

(* ================================================================== *)
(* Part 4 — end to end: jwt.decode over the JWE pipeline                 *)
(* ================================================================== *)
From Proofs Require ComposeJweSound.

Section ComposeJwtJweSound.
  Variable O : oracles.
  Variable g : registry.
  Variable tbl : list jwe_alg_row.
  Variable recommended : list string.
  Variable allowed : option (list string).
  Variable reg : list hparam.
  Variable strict : bool.
  Hypothesis check_header_is_c15 : forall hs cm,
    o_check_header O (PDict hs) cm = C15Registry.jwe_check_header tbl recommended allowed reg strict hs cm.
  Variable zdec : C17Zip.zoracle.
  Hypothesis inflate_is_c17 : forall x, o_inflate O x = C17Zip.decompress zdec x.
  Variable json_loads : bytes -> res pv.

  Notation accepted := (ComposeJweSound.jwe_accepted O g tbl recommended allowed reg strict zdec).

  (* [jwe_accepted k sender tok h m]: tok parsed to ob with protected header h; perform_decrypt
     gave m; the AEAD accepted ciphertext / tag / AAD under a CEK of the size of enc (C02); the zip
     step is decided by the PROTECTED header only and is C17's decompress; |m| <= 256000 with zip
     (C17); enc, every recipient's alg and zip are registered names of the effective allow-list
     (C05); every recipient's merged header satisfies C15's spec; the CEK came from a recipient
     whose key passed the key-type gate (C06) *)
  Theorem compose_jwt_decode_jwe_sound : forall k sender tok h v,
    C09Jwt.decode json_loads (jwe_tdec O g k sender) tok = Ok (h, v) ->
    is_dict v = true /\ exists m, accepted k sender tok h m /\ json_loads m = Ok v.
  Proof.
    exact (ComposeJweSound.jwt_decode_jwe_sound O g tbl recommended allowed reg strict
             check_header_is_c15 zdec inflate_is_c17 json_loads).
  Qed.

  Theorem compose_jwe_tdec_accepted : forall k sender tok h m,
    jwe_tdec O g k sender tok = Ok (h, m) -> accepted k sender tok h m.
  Proof.
    exact (ComposeJweSound.jwe_tdec_accepted O g tbl recommended allowed reg strict
             check_header_is_c15 zdec inflate_is_c17).
  Qed.

  Theorem compose_jwt_decode_jwe_forged : forall k sender tok e,
    decrypt_compact O g tok k sender = Err e ->
    C09Jwt.decode json_loads (jwe_tdec O g k sender) tok = Err e.
  Proof. exact (ComposeJweSound.jwt_decode_jwe_forged O g json_loads). Qed.
End ComposeJwtJweSound.

(* non-vacuity of the forged direction: a token that is not five segments is refused *)
Example compose_ex_jwt_decode_jwe_forged : forall O g k sender,
  decrypt_compact O g (asc "a.b.c") k sender = Err EValue.
Proof. reflexivity. Qed.

Print Assumptions compose_jwt_decode_jwe_sound.
Print Assumptions compose_jwe_tdec_accepted.
Print Assumptions compose_jwt_decode_jwe_forged.

(* ================================================================== *)
(* Part 5 — C06's jwe_suitable on the key-management step (partial)     *)
(* ================================================================== *)
From Proofs Require C06Proofs ComposeJweC06.

(* PARTIAL.  Consuming side (decrypt_recipient), families dir / A*KW / A*GCMKW only: a
   CEK-yielding key-management step is an accepting run of C06's jwe_run (EDecCompact, key given
   directly, standard primitives) on the related key, so C06's theorem gives jwe_suitable (key type
   oct, exact size, declared use, unwrapKey allowed, private material).
   Missing: PBES2, RSA*, ECDH-ES(+KW), ECDH-1PU (need the simulation of their decrypt_cek / dec_auk
   branches, incl. the epk-import relation); the producing side (encrypt_cek / pre_loop);
   in (b) the error CLASS and "before the primitive is consulted" (only failure is derived). *)
Theorem compose_c06_jwe_suitable_kw_partial : forall O alg enc a e hs r tag cek use k6 ek,
  JweMsg.find_alg (asc alg) = Some a -> JweMsg.find_enc (asc enc) = Some e ->
  ea_key_types a = ["oct"%string] ->
  (ea_family a = "dir"%string \/
   ((ea_family a = "AESKW"%string \/ ea_family a = "AESGCMKW"%string) /\ exists sz, ea_key_size a = Some sz)) ->
  krel (r_key r) use k6 -> C06Spec.key_wf k6 ->
  C06Model.check_use "enc" k6 = Ok tt ->
  decrypt_recipient O a e hs r tag = Ok cek ->
  C06Spec.jwe_suitable alg false (C06Proofs.cek_of enc) k6 None ek.
Proof. exact ComposeJweC06.jwe_suitable_kw_decrypt. Qed.

Theorem compose_c06_jwe_unsuitable_kw_fails_partial : forall O alg enc a e hs r tag use k6 ek,
  JweMsg.find_alg (asc alg) = Some a -> JweMsg.find_enc (asc enc) = Some e ->
  ea_key_types a = ["oct"%string] ->
  (ea_family a = "dir"%string \/
   ((ea_family a = "AESKW"%string \/ ea_family a = "AESGCMKW"%string) /\ exists sz, ea_key_size a = Some sz)) ->
  krel (r_key r) use k6 -> C06Spec.key_wf k6 ->
  C06Model.check_use "enc" k6 = Ok tt ->
  ~ C06Spec.jwe_suitable alg false (C06Proofs.cek_of enc) k6 None ek ->
  exists x, decrypt_recipient O a e hs r tag = Err x.
Proof. exact ComposeJweC06.jwe_unsuitable_kw_decrypt_fails. Qed.

(* the side conditions on the row hold for every dir / A*KW / A*GCMKW row of /repo *)
Theorem compose_c06_jwe_kw_rows :
  forallb (fun r => if String.eqb (ea_family r) "dir" || String.eqb (ea_family r) "AESKW"
                       || String.eqb (ea_family r) "AESGCMKW"
                    then match ea_key_types r with [t] => String.eqb t "oct" | _ => false end
                         && (String.eqb (ea_family r) "dir" ||
                             match ea_key_size r with Some _ => true | None => false end)
                    else true) jwe_alg_table_drafts = true.
Proof. exact ComposeJweC06.kw_rows_table. Qed.

Example compose_c06_jwe_ex_kw :
  exists a e, JweMsg.find_alg (asc "A128KW") = Some a /\ JweMsg.find_enc (asc "A128GCM") = Some e /\
    ea_key_types a = ["oct"%string] /\ ea_family a = "AESKW"%string /\ ea_key_size a = Some 128.
Proof. eexists. eexists. split; [vm_compute; reflexivity|]. split; [vm_compute; reflexivity|]. repeat split. Qed.

Print Assumptions compose_c06_jwe_suitable_kw_partial.
Print Assumptions compose_c06_jwe_unsuitable_kw_fails_partial.
Print Assumptions compose_c06_jwe_kw_rows.
