(* C09 — JWT encode/decode is faithful and yields only JSON-object claims.
   Only statements here; proofs live in proofs/C09Calendar.v, C09Dict.v, C09Proofs.v.

   Subject: the model model/C09Jwt.v of joserfc.jwt.encode / decode and
   joserfc.rfc7519.claims.convert_claims (with calendar.timegm o utctimetuple
   transcribed), for ALL headers, claims and tokens.  The JWS / JWE transport and
   the JSON codec are Section variables; their contracts are the two Hypotheses
   below (the transport one is what C03 / C04 establish for the JWS / JWE
   models).  Both are checked on every recorded call of the real functions by
   harness/props/c09.py. *)
From Model Require Import Base PyVal C09Jwt C09Spec.
From Gen Require Import TablesC09.
From Proofs Require Import C09Calendar C09Dict C09Proofs.
Open Scope Z_scope.

(* ---------- table ties (expected literals transcribed from the property text) ---------- *)
Theorem c09_table_default_typ : default_header = [(asc "typ", PStr (asc "JWT"))].
Proof. exact default_header_is. Qed.

Theorem c09_table_numericdate_claims :
  forall k, str_mem k nd_keys = str_mem k [asc "exp"; asc "nbf"; asc "iat"].
Proof. exact nd_keys_is. Qed.

(* ---------- NumericDate: calendar.timegm(dt.utctimetuple()) ---------- *)
(* the model's leap rule is the Gregorian one *)
Theorem c09_leap_rule : forall y, is_leap y = leap_spec y.
Proof. exact leap_same. Qed.

(* day 0 is 1970-01-01 and every calendar day (month ends, year ends, leap days,
   century rules, any year) adds exactly one *)
Theorem c09_day_epoch : day_number 1970 1 1 = 0.
Proof. exact day_number_epoch. Qed.

Theorem c09_day_successor : forall y m d, valid_date y m d ->
  let '(y', m', d') := next_day y m d in
  day_number y' m' d' = day_number y m d + 1 /\ valid_date y' m' d'.
Proof. exact day_number_next. Qed.

(* second 0 is 1970-01-01T00:00:00 and every wall-clock second adds exactly one *)
Theorem c09_seconds_epoch : forall us off, local_secs (mkdt 1970 1 1 0 0 0 us off) = 0.
Proof. exact local_secs_epoch. Qed.

Theorem c09_seconds_successor : forall t, dt_valid t ->
  local_secs (dt_next_second t) = local_secs t + 1 /\ dt_valid (dt_next_second t) /\
  dt_off (dt_next_second t) = dt_off t /\ dt_us (dt_next_second t) = dt_us t.
Proof. exact local_secs_next. Qed.

(* these two facts determine the function: any other counter with the successor
   law that agrees at one reading agrees at every later reading *)
Theorem c09_seconds_unique : forall f : dtime -> Z,
  (forall t, dt_valid t -> f (dt_next_second t) = f t + 1) ->
  forall t n, dt_valid t -> f t = local_secs t -> f (dt_plus n t) = local_secs (dt_plus n t).
Proof. exact local_secs_unique. Qed.

(* c09_numericdate: a datetime becomes floor(UTC seconds since the epoch);
   microseconds are dropped downwards; naive values are read as UTC *)
Theorem c09_numericdate : forall t n, dt_valid t -> numericdate t = Ok n ->
  n * 1000000 <= exact_us local_secs t < (n + 1) * 1000000.
Proof. exact numericdate_floor. Qed.

Theorem c09_numericdate_naive_is_utc : forall t, dt_valid t -> 1 <= dt_y t <= 9999 ->
  numericdate (dt_with_off t (Some 0)) = numericdate (dt_with_off t None) /\
  numericdate (dt_with_off t None) = Ok (local_secs t).
Proof. exact numericdate_naive_utc. Qed.

(* the same instant read on a clock n seconds further east (offset + n, wall
   clock + n seconds across any minute/hour/day/month/year boundary) gives the
   same NumericDate (or the same OverflowError) *)
Theorem c09_numericdate_same_instant : forall n t, dt_valid t ->
  numericdate (dt_east n t) = numericdate t /\ dt_valid (dt_east n t).
Proof. exact numericdate_same_instant. Qed.

Theorem c09_numericdate_total : forall t o, dt_valid t -> dt_off t = Some o ->
  min_secs <= local_secs t - o <= max_secs -> numericdate t = Ok (local_secs t - o).
Proof. exact numericdate_aware. Qed.

Theorem c09_numericdate_only_overflow : forall t e,
  numericdate t = Err e -> e = EOverflow /\ dt_off t <> None.
Proof. exact numericdate_only_overflow. Qed.

Example c09_numericdate_instances :
  numericdate (mkdt 2024 2 29 23 30 0 999999 (Some (-3600))) = Ok 1709253000 /\
  numericdate (mkdt 2024 3 1 0 30 0 0 (Some 0)) = Ok 1709253000 /\
  numericdate (mkdt 2024 3 1 6 15 0 5 (Some 20700)) = Ok 1709253000 /\
  numericdate (mkdt 2024 3 1 0 30 0 0 None) = Ok 1709253000 /\
  numericdate (mkdt 1969 12 31 23 59 59 500000 None) = Ok (-1) /\
  numericdate (mkdt 2100 3 1 0 0 0 0 None) = Ok 4107542400 /\
  numericdate (mkdt 1 1 1 0 0 0 0 (Some 3600)) = Err EOverflow /\
  dt_east 3600 (mkdt 2024 2 29 23 30 0 5 (Some (-3600))) = mkdt 2024 3 1 0 30 0 5 (Some 0).
Proof. exact numericdate_instances. Qed.

Example c09_dt_valid_instance : dt_valid (mkdt 2024 2 29 23 30 0 999999 (Some (-3600))).
Proof. exact dt_valid_instance. Qed.

Section C09.
  Variable json_dumps : pv -> res bytes.
  Variable json_loads : bytes -> res pv.
  Variable transport_encode : hdr -> bytes -> res bytes * hdr.
  Variable transport_decode : bytes -> res (hdr * bytes).
  Notation enc := (encode json_dumps transport_encode).
  Notation dec := (decode json_loads transport_decode).

  (* ---- facts that need no contract ---- *)

  (* encoding does not alter the caller's header: the merged header is a new
     dict, and only that one is handed to the transport (which may write kid,
     epk, p2s ... into it: eo_work) *)
  Theorem c09_header_unchanged : forall h c, eo_header (enc h c) = h.
  Proof. exact (encode_header_unchanged json_dumps transport_encode). Qed.

  (* ... whereas the caller's claims dict IS updated in place (datetime
     exp / iat / nbf are replaced by their NumericDate), also when encoding fails *)
  Theorem c09_claims_converted_in_place : forall h c,
    eo_claims (enc h c) = fst (convert_keys nd_keys c).
  Proof. exact (encode_claims_after json_dumps transport_encode). Qed.

  (* integrity first: a decoded token was accepted by the transport, whose
     header is returned; a transport error is returned unchanged and the
     payload parser has no influence on it *)
  Theorem c09_integrity_first : forall tok h v,
    dec tok = Ok (h, v) ->
    exists p, transport_decode tok = Ok (h, p) /\ json_loads p = Ok v /\ is_dict v = true.
  Proof. exact (decode_ok_transport json_loads transport_decode). Qed.

  Theorem c09_integrity_error_wins : forall tok e,
    transport_decode tok = Err e -> dec tok = Err e.
  Proof. exact (decode_transport_error json_loads transport_decode). Qed.

  (* only objects: *)
  Theorem c09_object_only : forall tok h v, dec tok = Ok (h, v) -> is_dict v = true.
  Proof. exact (decode_object_only json_loads transport_decode). Qed.

  Theorem c09_decode_iff : forall tok h v,
    dec tok = Ok (h, v) <->
    exists p, transport_decode tok = Ok (h, p) /\ json_loads p = Ok v /\ is_dict v = true.
  Proof. exact (decode_ok_iff json_loads transport_decode). Qed.

  (* an authenticated payload that is not JSON (json.loads raises ValueError,
     TypeError or RecursionError) or JSON but not an object is InvalidPayloadError *)
  Theorem c09_invalid_payload : forall tok h p,
    transport_decode tok = Ok (h, p) ->
    (json_loads p = Err EValue \/ json_loads p = Err EType \/ json_loads p = Err ERuntime \/
     exists v, json_loads p = Ok v /\ is_dict v = false) ->
    dec tok = Err (EJose InvalidPayloadError).
  Proof. exact (decode_invalid_payload json_loads transport_decode). Qed.

  Theorem c09_decode_errors : forall tok e, dec tok = Err e ->
    transport_decode tok = Err e \/
    (exists h p, transport_decode tok = Ok (h, p) /\
       (e = EJose InvalidPayloadError \/ (json_loads p = Err e /\ is_payload_error e = false))).
  Proof. exact (decode_error_classes json_loads transport_decode). Qed.

  (* the claims are not serialized / the transport is not reached when the
     conversion fails; the caller's header is still untouched *)
  Theorem c09_encode_error : forall h c e,
    snd (convert_claims json_dumps c) = Err e ->
    enc h c = mkeo (Err e) h (typ_default h) (fst (convert_keys nd_keys c)).
  Proof. exact (encode_err_before_transport json_dumps transport_encode). Qed.

  (* ---- contracts of the external parts ---- *)
  (* json.loads inverts json.dumps(ensure_ascii=False) + UTF-8 on JSON values *)
  Hypothesis json_rt : forall v b, json_ok v = true -> json_dumps v = Ok b -> json_loads b = Ok v.
  (* C03 / C04: what the transport produced, it accepts, returning the payload
     and the header it was given plus the members it added itself *)
  Hypothesis transport_rt : forall w p tok w',
    transport_encode w p = (Ok tok, w') ->
    transport_decode tok = Ok (w', p) /\
    exists extra, w' = w ++ extra /\ forall k, dmem w k = true -> dmem extra k = false.

  (* c09_typ: the header of the produced token is {"typ": "JWT"} overridden by
     the caller's members (typ first, explicit typ wins, every caller member
     kept), followed by what the transport added *)
  Theorem c09_typ : forall h c tok,
    keys_unique (dkeys h) = true -> eo_result (enc h c) = Ok tok ->
    exists p extra,
      transport_decode tok = Ok (spec_header h ++ extra, p) /\
      eo_work (enc h c) = spec_header h ++ extra /\
      (forall k, dmem (spec_header h) k = true -> dmem extra k = false) /\
      dget (spec_header h ++ extra) lit_typ =
        Some (match dget h lit_typ with Some v => v | None => lit_JWT end) /\
      (forall k v, dget h k = Some v -> dget (spec_header h ++ extra) k = Some v).
  Proof. exact (encode_token_header json_dumps transport_encode transport_decode transport_rt). Qed.

  (* c09_rt: decoding what was encoded returns the typ-defaulted header (plus
     transport members) and exactly the converted claims *)
  Theorem c09_rt : forall h c tok,
    keys_unique (dkeys h) = true -> claims_ok c = true -> eo_result (enc h c) = Ok tok ->
    exists d extra,
      claims_pv (eo_claims (enc h c)) = Some d /\
      dec tok = Ok (spec_header h ++ extra, PDict d) /\
      (forall k, dmem (spec_header h) k = true -> dmem extra k = false).
  Proof.
    exact (encode_decode_rt json_dumps json_loads transport_encode transport_decode
             json_rt transport_rt).
  Qed.
End C09.

(* the converted claims, member by member: same names in the same order; every
   value unchanged except datetime exp / nbf / iat -> NumericDate *)
Theorem c09_rt_claims : forall json_dumps transport_encode h c tok d,
  eo_result (encode json_dumps transport_encode h c) = Ok tok ->
  claims_pv (eo_claims (encode json_dumps transport_encode h c)) = Some d ->
  dkeys d = dkeys c /\
  forall k, dget d k =
    match dget c k with Some x => spec_claim [asc "exp"; asc "nbf"; asc "iat"] k x | None => None end.
Proof. exact encode_claims_members. Qed.

Theorem c09_typ_default_is_spec : forall h, keys_unique (dkeys h) = true -> typ_default h = spec_header h.
Proof. exact typ_default_spec. Qed.

(* ---------- the public functions with ALL their optional arguments ----------
   jwt_encode h c (key, algorithms, registry) encoder_cls and
   jwt_decode tok (key, algorithms, registry) decoder_cls: the encoder / decoder
   classes select the JSON functions (ANY functions: nothing is assumed about a
   caller-supplied JSONDecoder / JSONEncoder subclass), isinstance(registry,
   JWERegistry) selects the transport, which receives key, algorithms and
   registry unchanged. *)

(* only objects, for every decoder function whatsoever - including decoders that return
   a list, a string, a number or None for an object payload or anything for a non-object
   payload - for every choice of key, algorithms, registry and both transports *)
Theorem c09_object_only_any_decoder :
  forall (json_loads : option N -> bytes -> res pv)
         (jws_decode jwe_decode : bytes -> targs -> res (hdr * bytes))
         tok a decoder_cls h v,
    jwt_decode json_loads jws_decode jwe_decode tok a decoder_cls = Ok (h, v) -> is_dict v = true.
Proof. exact api_object_only. Qed.

Theorem c09_decode_iff_any_options :
  forall json_loads jws_decode jwe_decode tok a decoder_cls h v,
    jwt_decode json_loads jws_decode jwe_decode tok a decoder_cls = Ok (h, v) <->
    exists p, (if reg_is_jwe (ta_reg a) then jwe_decode tok a else jws_decode tok a) = Ok (h, p) /\
              json_loads decoder_cls p = Ok v /\ is_dict v = true.
Proof. exact api_decode_iff. Qed.

Theorem c09_invalid_payload_any_options :
  forall json_loads jws_decode jwe_decode tok a decoder_cls h p,
    (if reg_is_jwe (ta_reg a) then jwe_decode tok a else jws_decode tok a) = Ok (h, p) ->
    (json_loads decoder_cls p = Err EValue \/ json_loads decoder_cls p = Err EType \/
     json_loads decoder_cls p = Err ERuntime \/
     exists v, json_loads decoder_cls p = Ok v /\ is_dict v = false) ->
    jwt_decode json_loads jws_decode jwe_decode tok a decoder_cls = Err (EJose InvalidPayloadError).
Proof. exact api_invalid_payload. Qed.

Theorem c09_integrity_first_any_options :
  forall json_loads jws_decode jwe_decode tok a decoder_cls e,
    (if reg_is_jwe (ta_reg a) then jwe_decode tok a else jws_decode tok a) = Err e ->
    jwt_decode json_loads jws_decode jwe_decode tok a decoder_cls = Err e.
Proof. exact api_transport_error. Qed.

Theorem c09_header_unchanged_any_options :
  forall json_dumps jws_encode jwe_encode h c a encoder_cls,
    eo_header (jwt_encode json_dumps jws_encode jwe_encode h c a encoder_cls) = h.
Proof. exact api_header_unchanged. Qed.

Theorem c09_rt_any_options :
  forall json_dumps json_loads jws_encode jwe_encode jws_decode jwe_decode
         h c a encoder_cls decoder_cls tok dd,
    (forall c' d' b, claims_pv c' = Some d' -> json_ok (PDict d') = true ->
       json_dumps encoder_cls c' = Ok b -> json_loads decoder_cls b = Ok (PDict d')) ->
    (forall w p t w', select_encode jws_encode jwe_encode a w p = (Ok t, w') ->
       select_decode jws_decode jwe_decode a t = Ok (w', p) /\
       exists extra, w' = w ++ extra /\ forall k, dmem w k = true -> dmem extra k = false) ->
    keys_unique (dkeys h) = true -> claims_ok c = true ->
    eo_result (jwt_encode json_dumps jws_encode jwe_encode h c a encoder_cls) = Ok tok ->
    claims_pv (eo_claims (jwt_encode json_dumps jws_encode jwe_encode h c a encoder_cls)) = Some dd ->
    exists extra,
      jwt_decode json_loads jws_decode jwe_decode tok a decoder_cls = Ok (spec_header h ++ extra, PDict dd) /\
      (forall k, dmem (spec_header h) k = true -> dmem extra k = false).
Proof. exact api_rt. Qed.

(* jwt.encode without encoder_cls (the [encode] of the Section above) is the instance
   of the general function whose codec refuses datetime / foreign objects with TypeError *)
Theorem c09_default_encoder_is_instance : forall jd te h c,
  encode jd te h c = encode_g (lift_dumps jd) te h c.
Proof. exact encode_is_g. Qed.

(* non-vacuity of c09_object_only_any_decoder's subject: a decoder (an object_hook that
   returns the member list) turning an object payload into a list is InvalidPayloadError *)
Example c09_hostile_decoder_instance :
  jwt_decode (fun _ _ => Ok (PList [PStr (asc "sub"); PStr (asc "admin")]))
             (fun t _ => Ok (toy_hdr, toy_payload)) (fun _ _ => Err EValue)
             toy_token (mkta 1 None None) (Some 5%N) = Err (EJose InvalidPayloadError) /\
  jwt_decode (fun _ _ => Ok (PDict [(asc "sub", PStr (asc "a"))]))
             (fun _ _ => Err EValue) (fun t _ => Ok (toy_hdr, toy_payload))
             toy_token (mkta 1 None (Some (true, 2%N))) None = Ok (toy_hdr, PDict [(asc "sub", PStr (asc "a"))]).
Proof. exact hostile_decoder_instance. Qed.

(* c09_decode_header_is_wire_header: the header jwt.decode returns is the JSON object of the
   token's protected segment, for every key form (key, key set with one or several keys,
   callable), every algorithms / registry / decoder_cls choice and both transports - GIVEN that
   the transport functions hand back the parsed protected header of an accepted token (the
   contract; the harness checks it on every recorded call: wire_contract in C09Cases.v).
   In particular no kid can appear that the token does not carry. *)
Theorem c09_decode_header_is_wire_header :
  forall (json_loads : option N -> bytes -> res pv)
         (jws_decode jwe_decode : bytes -> targs -> res (hdr * bytes))
         (wire_header : bytes -> option hdr),
    (forall tok a h p, jws_decode tok a = Ok (h, p) -> wire_header tok = Some h) ->
    (forall tok a h p, jwe_decode tok a = Ok (h, p) -> wire_header tok = Some h) ->
    forall tok a decoder_cls h v,
      jwt_decode json_loads jws_decode jwe_decode tok a decoder_cls = Ok (h, v) ->
      wire_header tok = Some h.
Proof. exact api_decode_header_is_wire. Qed.

(* non-vacuity: the toy transport hands back the header that the toy token carries *)
Example c09_wire_header_instance :
  (forall tok (a : targs) h p, (fun t (_ : targs) => toy_tdec t) tok a = Ok (h, p) ->
     (fun t => if beqb t toy_token then Some toy_hdr else None) tok = Some h) /\
  jwt_decode (fun _ => toy_loads) (fun t _ => toy_tdec t) (fun t _ => toy_tdec t)
             toy_token (mkta 1 None None) None = Ok (toy_hdr, PDict []).
Proof. exact wire_header_instance. Qed.

(* c09_jwe_header_kept: over the JWE transport, for EVERY claims set (hence every plaintext,
   compressible or not) and every encoder, the protected header of the produced token is the
   given header with the typ default (typ first, explicit typ wins) followed only by members
   with new names: every member the caller gave (zip, cty, kid, crit, apu/apv, p2c ...) is in
   the token with its value - GIVEN that encrypt_compact keeps the dict it is handed (the
   contract; checked on every recorded call: header_kept_contract in C09Cases.v). *)
Theorem c09_jwe_header_kept :
  forall (json_dumps : option N -> claims -> res bytes)
         (jws_encode jwe_encode : hdr -> bytes -> targs -> res bytes * hdr)
         (jwe_decode : bytes -> targs -> res (hdr * bytes)) (a : targs),
    reg_is_jwe (ta_reg a) = true ->
    (forall w p tok w', jwe_encode w p a = (Ok tok, w') ->
       jwe_decode tok a = Ok (w', p) /\
       exists extra, w' = w ++ extra /\ forall k, dmem w k = true -> dmem extra k = false) ->
    forall h c encoder_cls tok,
      keys_unique (dkeys h) = true ->
      eo_result (jwt_encode json_dumps jws_encode jwe_encode h c a encoder_cls) = Ok tok ->
      exists p extra,
        jwe_decode tok a = Ok (spec_header h ++ extra, p) /\
        eo_work (jwt_encode json_dumps jws_encode jwe_encode h c a encoder_cls) = spec_header h ++ extra /\
        (forall k, dmem (spec_header h) k = true -> dmem extra k = false) /\
        dget (spec_header h ++ extra) lit_typ =
          Some (match dget h lit_typ with Some v => v | None => lit_JWT end) /\
        (forall k v, dget h k = Some v -> dget (spec_header h ++ extra) k = Some v).
Proof. exact api_jwe_header_kept. Qed.

Example c09_jwe_header_kept_instance :
  spec_header [(asc "alg", PStr (asc "dir")); (asc "enc", PStr (asc "A128GCM")); (asc "zip", PStr (asc "DEF"))] =
    [(asc "typ", PStr (asc "JWT")); (asc "alg", PStr (asc "dir")); (asc "enc", PStr (asc "A128GCM")); (asc "zip", PStr (asc "DEF"))] /\
  reg_is_jwe (ta_reg (mkta 1 None (Some (true, 1%N)))) = true.
Proof. exact jwe_header_kept_instance. Qed.

(* c09_forged_token_never_decodes: jwt.decode returns only after the integrity check of the
   transport passed, whatever decoder_cls / key form / algorithms / registry: if the selected
   transport rejects every token of a class (forged: changed in an authenticated octet,
   wrong-length tag or signature, presented with another key ...), jwt.decode raises the
   transport's error for every such token and never returns claims.  The transport's verdict
   on every forged token of the tamper stream is compared with this contract
   (forged_contract in C09Cases.v). *)
Theorem c09_forged_token_never_decodes :
  forall (json_loads : option N -> bytes -> res pv)
         (jws_decode jwe_decode : bytes -> targs -> res (hdr * bytes))
         (forged : bytes -> targs -> Prop),
    (forall tok a, forged tok a -> exists e, jws_decode tok a = Err e) ->
    (forall tok a, forged tok a -> exists e, jwe_decode tok a = Err e) ->
    forall tok a decoder_cls, forged tok a ->
      exists e, jwt_decode json_loads jws_decode jwe_decode tok a decoder_cls = Err e /\
                (if reg_is_jwe (ta_reg a) then jwe_decode tok a else jws_decode tok a) = Err e.
Proof. exact api_forged_never_decodes. Qed.

Example c09_forged_instance :
  jwt_decode (fun _ => toy_loads) (fun t _ => toy_tdec t) (fun t _ => toy_tdec t)
             (asc "e30.e30.AA") (mkta 1 None None) None = Err (EJose BadSignatureError).
Proof. exact forged_instance. Qed.

(* integrity first, stated against the payload parser: with a failing transport
   no parser is consulted *)
Theorem c09_integrity_independent_of_payload : forall jl1 jl2 td tok e,
  td tok = Err e -> decode jl1 td tok = decode jl2 td tok.
Proof. exact decode_independent_of_parser. Qed.

(* non-vacuity: a transport and a JSON codec that satisfy both contracts and on
   which encode succeeds and decode returns the token *)
Example c09_contracts_satisfiable :
  (forall v b, json_ok v = true -> toy_dumps v = Ok b -> toy_loads b = Ok v) /\
  (forall w p tok w', toy_tenc w p = (Ok tok, w') ->
     toy_tdec tok = Ok (w', p) /\
     exists extra, w' = w ++ extra /\ forall k, dmem w k = true -> dmem extra k = false) /\
  eo_result (encode toy_dumps toy_tenc [(asc "alg", PStr (asc "none"))] []) = Ok toy_token /\
  decode toy_loads toy_tdec toy_token = Ok (toy_hdr, PDict []).
Proof. exact toy_all. Qed.

(* non-vacuity of the remaining implications, on concrete data *)
Example c09_typ_instances :
  spec_header [(asc "alg", PStr (asc "HS256")); (asc "kid", PStr (asc "k1"))] =
    [(asc "typ", PStr (asc "JWT")); (asc "alg", PStr (asc "HS256")); (asc "kid", PStr (asc "k1"))] /\
  typ_default [(asc "alg", PStr (asc "HS256")); (asc "typ", PStr (asc "at+jwt")); (asc "kid", PStr (asc "k1"))] =
    [(asc "typ", PStr (asc "at+jwt")); (asc "alg", PStr (asc "HS256")); (asc "kid", PStr (asc "k1"))] /\
  claims_ok [(asc "exp", CDt (mkdt 2024 3 1 6 15 0 5 (Some 20700))); (asc "sub", CV (PStr (asc "a")))] = true /\
  convert_keys nd_keys [(asc "exp", CDt (mkdt 2024 3 1 6 15 0 5 (Some 20700))); (asc "x", CDt (mkdt 2024 3 1 0 0 0 0 None))]
    = ([(asc "exp", CV (PInt 1709253000)); (asc "x", CDt (mkdt 2024 3 1 0 0 0 0 None))], None).
Proof. exact header_claims_instances. Qed.

Print Assumptions c09_table_default_typ.
Print Assumptions c09_table_numericdate_claims.
Print Assumptions c09_leap_rule.
Print Assumptions c09_day_epoch.
Print Assumptions c09_day_successor.
Print Assumptions c09_seconds_epoch.
Print Assumptions c09_seconds_successor.
Print Assumptions c09_seconds_unique.
Print Assumptions c09_numericdate.
Print Assumptions c09_numericdate_naive_is_utc.
Print Assumptions c09_numericdate_same_instant.
Print Assumptions c09_numericdate_total.
Print Assumptions c09_numericdate_only_overflow.
Print Assumptions c09_header_unchanged.
Print Assumptions c09_claims_converted_in_place.
Print Assumptions c09_integrity_first.
Print Assumptions c09_integrity_error_wins.
Print Assumptions c09_object_only.
Print Assumptions c09_decode_iff.
Print Assumptions c09_invalid_payload.
Print Assumptions c09_decode_errors.
Print Assumptions c09_encode_error.
Print Assumptions c09_typ.
Print Assumptions c09_rt.
Print Assumptions c09_rt_claims.
Print Assumptions c09_typ_default_is_spec.
Print Assumptions c09_integrity_independent_of_payload.
Print Assumptions c09_object_only_any_decoder.
Print Assumptions c09_decode_iff_any_options.
Print Assumptions c09_invalid_payload_any_options.
Print Assumptions c09_integrity_first_any_options.
Print Assumptions c09_header_unchanged_any_options.
Print Assumptions c09_rt_any_options.
Print Assumptions c09_default_encoder_is_instance.
Print Assumptions c09_decode_header_is_wire_header.
Print Assumptions c09_jwe_header_kept.
Print Assumptions c09_forged_token_never_decodes.
Print Assumptions c09_contracts_satisfiable.
