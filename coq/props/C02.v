(* C02 — JWE decryption returns only authenticated plaintext.
   Statements only; proofs in proofs/C02Proofs.v.  The subject is the Gallina
   transcription of joserfc's decryption pipeline (model/JweBase.v, JweCrypto.v,
   JweMsg.v) over an arbitrary record [O : oracles] of external primitives; the
   tie to /repo is the differential run of harness/props/c02.py
   (model/JweCases.v), where O is the finite table recorded from the real run. *)
From Coq Require Import Lia.
From Model Require Import JweBase JweCrypto JweMsg JweKeys JweCases C02Examples C02KeyExamples.
From Gen Require Import Tables.
From Proofs Require Import C02Proofs C02Keys.
Open Scope N_scope.

(* ---- 1. soundness: what an accepted token implies (all serializations) ----
   [authentic O g o m] (proofs/C02Proofs.v) unfolds to: the "enc" row e is the
   registry's; 8*|iv| = iv_size; the recipient loop produced exactly ONE CEK,
   yielded by at least one recipient, and by EVERY recipient when
   verify_all_recipients is set; 8*|cek| = cek_size; AAD = dec_aad o;
   enc_decrypt e ct tag cek iv AAD = Ok msg; plaintext = unzip? msg. *)
Theorem c02_sound_compact : forall O g value k sender m o,
  decrypt_compact O g value k sender = Ok (m, o) ->
  extract_compact O value k sender = Ok o /\ authentic O g o m.
Proof. exact decrypt_compact_sound. Qed.

Theorem c02_sound_json : forall O g data keys dflt sender m o,
  decrypt_json O g data keys dflt sender = Ok (m, o) ->
  extract_json O data keys dflt sender = Ok o /\ authentic O g o m.
Proof. exact decrypt_json_sound. Qed.

Theorem c02_sound : forall O g o m,
  perform_decrypt O g o = Ok m ->
  exists encv e cek aad msg,
    hitem (j_prot o) "enc" = Ok encv /\ get_enc g encv = Ok e /\
    lenN (j_iv o) * 8 = ee_iv_size e /\
    recip_loop O g e o (j_recips o) [] = Ok [cek] /\
    (exists r, In r (j_recips o) /\ yields O g e o r cek) /\
    (g_verify_all g = true -> forall r, In r (j_recips o) -> yields O g e o r cek) /\
    lenN cek * 8 = ee_cek_size e /\
    dec_aad O o = Ok aad /\
    enc_decrypt O e (j_ct o) (j_tag o) cek (j_iv o) aad = Ok msg /\
    unzip O g (j_prot o) msg = Ok m.
Proof. exact perform_decrypt_sound. Qed.

(* ---- 1b. soundness WITH key resolution (model/JweKeys.v: guess_key over Key / KeySet / callable, "kid" of the
   MERGED header, KeySet.get_by_kid, check_use("enc"), _guess_sender_key / "skid"):
   [resolved o src ssrc n r] = the n-th recipient's key is guess_key(src) on ITS merged header, passed
   check_use("enc"), and its sender key (when a sender source is given and non-empty) is the one found by
   "skid" (KeySet) or the Key itself, also use-checked ---- *)
Theorem c02_sound_keys_compact : forall O g value src ssrc m o,
  decrypt_compact_k O g value src ssrc = Ok (m, o) ->
  authentic O g o m /\
  (forall n r, nth_error (j_recips o) n = Some r -> resolved o src ssrc n r) /\
  exists hseg rest, split_dot value = hseg :: rest /\ dec_aad O o = Ok hseg.
Proof. exact decrypt_compact_k_sound. Qed.

Theorem c02_sound_keys_json : forall O g data src ssrc m o,
  decrypt_json_k O g data src ssrc = Ok (m, o) ->
  authentic O g o m /\
  (forall n r, nth_error (j_recips o) n = Some r -> resolved o src ssrc n r) /\
  exists b64p, seg_bytes data "protected" = Ok b64p /\
               dec_aad O o = Ok (aad_of (j_ser o) b64p (j_aad o)).
Proof. exact decrypt_json_k_sound. Qed.

(* a KeySet yields a MEMBER that carries the kid of the merged header (or its only member when there is no kid) *)
Theorem c02_key_by_kid : forall ks idx hs h k,
  hs = Ok h -> guess_key (KPlain (KSet ks)) idx hs = Ok k ->
  In k ks /\ (py_eq (kk_kid k) (hget h "kid") = true \/ (hget h "kid" = PNone /\ ks = [k])).
Proof. exact guess_key_keyset_kid. Qed.

Theorem c02_kid_unknown : forall ks kid,
  (forall k, In k ks -> py_eq (kk_kid k) kid = false) -> (kid <> PNone \/ length ks <> 1%nat) ->
  get_by_kid ks kid = Err (EJose InvalidKeyIdError).
Proof. exact get_by_kid_unknown. Qed.

(* a key declared for another use than "enc" is refused (recipient and sender keys alike) *)
Theorem c02_use_checked : forall k,
  (check_use_enc k = Ok tt -> py_truth (kk_use k) = false \/ py_eq (kk_use k) (PStr (s_ "enc")) = true) /\
  (py_truth (kk_use k) = true -> py_eq (kk_use k) (PStr (s_ "enc")) = false ->
   check_use_enc k = Err (EJose UnsupportedKeyUseError)).
Proof. exact use_checked. Qed.

(* ---- 1c. the registry the entry points select (algorithms= / registry= / neither / both): with NO registry
   argument the effective verify_all_recipients is True for EVERY algorithms= value (constructor default and
   default_registry, both read from gen/Tables.v); with algorithms= it is True whatever registry= is; False can
   only come from the caller's own registry.  Consequence: without a caller's registry every recipient must
   yield the CEK. ---- *)
Theorem c02_verify_all_default : forall algorithms, g_verify_all (jwe_sel algorithms None) = true.
Proof. exact verify_all_default. Qed.

Theorem c02_verify_all_algorithms : forall a l reg, g_verify_all (jwe_sel (Some (a :: l)) reg) = true.
Proof. exact verify_all_algorithms. Qed.

Theorem c02_verify_all_false_only_by_caller : forall algorithms reg,
  g_verify_all (jwe_sel algorithms reg) = false -> exists r, reg = Some r /\ g_verify_all r = false.
Proof. exact verify_all_false_only_by_caller. Qed.

Theorem c02_default_all_recipients_yield : forall O algorithms o m,
  perform_decrypt O (jwe_sel algorithms None) o = Ok m ->
  exists e cek, forall r, In r (j_recips o) -> yields O (jwe_sel algorithms None) e o r cek.
Proof. exact sel_all_recipients_yield. Qed.

(* non-vacuity on recorded runs: kid "right" in the per-recipient header wins over kid "decoy" in the shared
   unprotected header and selects the second member of the KeySet; use=sig and an unknown kid are refused *)
Example c02_keys_nonvacuous :
  map jwe_check [ex_keyset_kid; ex_keyset_use_sig; ex_keyset_unknown_kid] = [true; true; true] /\
  (match jwe_run ex_keyset_kid with OD (Ok _) => true | _ => false end) = true /\
  (match jwe_run ex_keyset_use_sig with OD (Err (EJose UnsupportedKeyUseError)) => true | _ => false end) = true /\
  (match jwe_run ex_keyset_unknown_kid with OD (Err (EJose InvalidKeyIdError)) => true | _ => false end) = true.
Proof. vm_compute. repeat split. Qed.

(* non-vacuity: recorded real runs are accepted by the model (compact dir+CBC-HS,
   flattened A128KW+GCM with aad, compact ECDH-ES, general JSON with 2 recipients) *)
Example c02_sound_nonvacuous :
  map jwe_check [ex_dir_cbc; ex_flat_kw_gcm; ex_es_gcm; ex_general_2] = [true; true; true; true] /\
  (match jwe_run ex_dir_cbc with OD (Ok _) => true | _ => false end) = true /\
  (match jwe_run ex_general_2 with OD (Ok _) => true | _ => false end) = true.
Proof. vm_compute. repeat split. Qed.

(* ---- 2. the AAD is the RECEIVED protected segment, in every serialization ---- *)
Theorem c02_aad_is_received_compact : forall O value k sender o,
  extract_compact O value k sender = Ok o ->
  exists hseg rest, split_dot value = hseg :: rest /\ dec_aad O o = Ok hseg.
Proof. exact compact_aad_is_received. Qed.

(* flattened and general JSON, with and without (or with an empty) aad member *)
Theorem c02_aad_is_received : forall O data keys dflt sender o,
  extract_json O data keys dflt sender = Ok o ->
  exists b64p,
    seg_bytes data "protected" = Ok b64p /\
    j_ser o <> Compact /\
    dec_aad O o = Ok (aad_of (j_ser o) b64p (j_aad o)) /\
    (match j_aad o with
     | Some (x :: l) => exists ab, seg_bytes data "aad" = Ok ab /\ b64d ab = Ok (x :: l) /\
                                   dec_aad O o = Ok (b64p ++ [46] ++ b64e (x :: l))
     | _ => dec_aad O o = Ok b64p
     end).
Proof. exact json_aad_is_received. Qed.

Example c02_aad_nonvacuous :
  match ex_flat_kw_gcm with
  | CDecJson t g d ks s _ =>
      match extract_json (table_oracles t) d ks nokey s with
      | Ok o => match j_aad o, dec_aad (table_oracles t) o, seg_bytes d "protected" with
                | Some [120; 121], Ok a, Ok p => beqb a (p ++ [46] ++ b64e [120; 121])
                | _, _, _ => false
                end
      | Err _ => false
      end
  | _ => false
  end = true.
Proof. vm_compute. reflexivity. Qed.

(* ---- 3. CBC-HS: full-length tag comparison BEFORE the block cipher ---- *)
(* a tag different from the computed one is rejected whatever the CBC oracle is,
   i.e. the verdict never depends on a CBC query *)
Theorem c02_cbc_tag_first : forall O f e ct tag cek iv aad ctag,
  cbchs_hmac O e ct aad iv (cbchs_hkey e cek) = Ok ctag -> ctag <> tag ->
  cbchs_decrypt (with_cbc_dec O f) e ct tag cek iv aad = Err (EJose DecodeError).
Proof. exact cbchs_wrong_tag_any_cipher. Qed.

(* any other length - shorter (every proper prefix), longer, empty - is rejected *)
Theorem c02_cbc_tag_length : forall O e ct tag cek iv aad ctag,
  cbchs_hmac O e ct aad iv (cbchs_hkey e cek) = Ok ctag ->
  length tag <> length ctag ->
  cbchs_decrypt O e ct tag cek iv aad = Err (EJose DecodeError).
Proof. exact cbchs_other_length_rejected. Qed.

(* acceptance: the tag IS the truncated MAC over aad ++ iv ++ ct ++ AL, and only then CBC runs *)
Theorem c02_cbc_accept : forall O e ct tag cek iv aad m,
  cbchs_decrypt O e ct tag cek iv aad = Ok m ->
  cbchs_hmac O e ct aad iv (cbchs_hkey e cek) = Ok tag /\
  exists data, o_cbc_dec O (cbchs_ekey e cek) iv ct = Ok data /\ pkcs7_unpad data = Ok m.
Proof. exact cbchs_accept_tag. Qed.

Example c02_cbc_nonvacuous :
  (match jwe_run ex_dir_cbc_badtag with OD (Err (EJose DecodeError)) => true | _ => false end) = true /\
  jwe_check ex_dir_cbc_badtag = true.
Proof. vm_compute. split; reflexivity. Qed.

(* ---- 4. direct modes: non-empty encrypted key ---- *)
Theorem c02_direct_ek_empty : forall O a e hs r tag x l,
  ea_direct a = true -> r_ek r = Some (x :: l) ->
  decrypt_recipient O a e hs r tag = Err (EJose InvalidEncryptedKeyError).
Proof. exact direct_ek_nonempty. Qed.

(* the direct-mode rows of the table are exactly dir, ECDH-ES, ECDH-1PU *)
Example c02_direct_rows :
  map ea_name (filter ea_direct jwe_alg_table_drafts) = ["dir"; "ECDH-ES"; "ECDH-1PU"]%string.
Proof. vm_compute. reflexivity. Qed.

(* ---- 5. IV size ---- *)
Theorem c02_iv_size : forall O g o encv e,
  hitem (j_prot o) "enc" = Ok encv -> get_enc g encv = Ok e ->
  lenN (j_iv o) * 8 <> ee_iv_size e ->
  perform_decrypt O g o = Err EValue.
Proof. exact iv_size_rejected. Qed.

(* non-vacuity: the recorded token with its IV cut by one octet is refused with ValueError by the model *)
Example c02_iv_size_nonvacuous :
  match ex_dir_cbc with
  | CDecCompact t g v k s _ =>
      match extract_compact (table_oracles t) v k s with
      | Ok o =>
          let o' := {| j_ser := j_ser o; j_prot := j_prot o; j_unprot := j_unprot o; j_aad := j_aad o;
                       j_b64prot := j_b64prot o; j_iv := removelast (j_iv o); j_ct := j_ct o; j_tag := j_tag o;
                       j_recips := j_recips o |} in
          match perform_decrypt (table_oracles t) g o' with Err EValue => true | _ => false end
      | Err _ => false
      end
  | _ => false
  end = true.
Proof. vm_compute. reflexivity. Qed.

(* ---- 5b. "zip" only from the PROTECTED header (RFC 7516 4.1.3: it MUST be integrity protected): without it there
   the returned plaintext IS the AEAD output, whatever "zip" (or anything else) the shared unprotected header or the
   per-recipient headers carry; with it there, the inflate of the AEAD output ---- *)
Theorem c02_zip_only_protected : forall O g o m,
  perform_decrypt O g o = Ok m -> dmem (j_prot o) (s_ "zip") = false ->
  exists e cek aad, dec_aad O o = Ok aad /\ enc_decrypt O e (j_ct o) (j_tag o) cek (j_iv o) aad = Ok m.
Proof. exact zip_only_protected. Qed.

Theorem c02_zip_protected : forall O g o m,
  perform_decrypt O g o = Ok m -> dmem (j_prot o) (s_ "zip") = true ->
  exists e cek aad msg, enc_decrypt O e (j_ct o) (j_tag o) cek (j_iv o) aad = Ok msg /\ o_inflate O msg = Ok m.
Proof. exact zip_protected. Qed.

(* ---- 6. epk: validating import, curve gate, then ECDH ---- *)
Theorem c02_epk : forall O a e hs r tag k,
  dec_auk O a e hs r tag = Ok k ->
  exists epk ze,
    dmem hs (asc "epk") = true /\
    o_import O (k_kty (r_key r)) (hget hs "epk") = Ok epk /\
    k_priv (r_key r) = true /\ k_crv (r_key r) = k_crv epk /\
    o_ecdh O (k_id (r_key r)) (k_id epk) = Ok ze /\
    (fam_is (ea_family a) "ECDH1PU" = true ->
       exists sk zs, r_sender r = Some sk /\ k_crv (r_key r) = k_crv sk /\
                     o_ecdh O (k_id (r_key r)) (k_id sk) = Ok zs /\
                     derive_key_for_concat_kdf O (ze ++ zs) hs (ee_cek_size e) (ea_key_size a) tag = Ok k).
Proof. exact dec_auk_epk. Qed.

(* non-vacuity: the recorded ECDH-ES token reaches dec_auk = Ok in the model *)
Example c02_epk_nonvacuous :
  match ex_es_gcm with
  | CDecCompact t g v k s _ =>
      match extract_compact (table_oracles t) v k s with
      | Ok o =>
          match j_recips o, find_alg (asc "ECDH-ES"), find_enc (asc "A128GCM"),
                headers Compact (j_prot o) PNone PNone with
          | r :: _, Some a, Some e, Ok hs =>
              match dec_auk (table_oracles t) a e hs r None with Ok _ => true | Err _ => false end
          | _, _, _, _ => false
          end
      | Err _ => false
      end
  | _ => false
  end = true.
Proof. vm_compute. reflexivity. Qed.

Theorem c02_epk_import_fails : forall O a e hs r tag ex,
  fam_is (ea_family a) "ECDH1PU" = false ->
  o_import O (k_kty (r_key r)) (hget hs "epk") = Err ex ->
  exists ex', dec_auk O a e hs r tag = Err ex'.
Proof. exact dec_auk_import_fails. Qed.

Theorem c02_epk_curve_mismatch : forall O self other,
  k_crv self <> k_crv other -> exchange O self other = Err (EJose InvalidExchangeKeyError).
Proof. exact exchange_curve_mismatch. Qed.

(* ---- 7. tamper family (explicit ideal-AEAD / ideal-wrap premises) ---- *)
Theorem c02_tamper_compact : forall O g
  (Produced : jwe_enc_row -> bytes -> bytes -> bytes -> bytes -> bytes -> Prop),
  (forall e cek iv aad ct tag m, enc_decrypt O e ct tag cek iv aad = Ok m -> Produced e cek iv aad ct tag) ->
  forall value k sender m o,
  decrypt_compact O g value k sender = Ok (m, o) ->
  exists hseg rest e cek,
    split_dot value = hseg :: rest /\
    (exists r, In r (j_recips o) /\ yields O g e o r cek) /\
    Produced e cek (j_iv o) hseg (j_ct o) (j_tag o).
Proof. exact tamper_compact. Qed.

Theorem c02_tamper_json : forall O g
  (Produced : jwe_enc_row -> bytes -> bytes -> bytes -> bytes -> bytes -> Prop),
  (forall e cek iv aad ct tag m, enc_decrypt O e ct tag cek iv aad = Ok m -> Produced e cek iv aad ct tag) ->
  forall data keys dflt sender m o,
  decrypt_json O g data keys dflt sender = Ok (m, o) ->
  exists b64p e cek,
    seg_bytes data "protected" = Ok b64p /\
    (exists r, In r (j_recips o) /\ yields O g e o r cek) /\
    Produced e cek (j_iv o) (aad_of (j_ser o) b64p (j_aad o)) (j_ct o) (j_tag o).
Proof. exact tamper_json. Qed.

(* "parses to the same members, different octets": rejected *)
Theorem c02_respelled_header_rejected : forall O
  (Produced : jwe_enc_row -> bytes -> bytes -> bytes -> bytes -> bytes -> Prop),
  (forall e cek iv aad ct tag m, enc_decrypt O e ct tag cek iv aad = Ok m -> Produced e cek iv aad ct tag) ->
  (forall e cek iv a a' ct tag, Produced e cek iv a ct tag -> Produced e cek iv a' ct tag -> a = a') ->
  forall e cek iv ct tag a a' m,
  Produced e cek iv a ct tag -> a' <> a -> enc_decrypt O e ct tag cek iv a' <> Ok m.
Proof. exact respelled_header_rejected. Qed.

(* the ideal-primitive premises are satisfiable (trivially, by the full relation): the theorems are not
   vacuous; their strength is exactly the strength of the [Produced] / [Wrapped] one plugs in *)
Example c02_tamper_premise_satisfiable : forall O,
  exists Produced : jwe_enc_row -> bytes -> bytes -> bytes -> bytes -> bytes -> Prop,
    forall e cek iv aad ct tag m, enc_decrypt O e ct tag cek iv aad = Ok m -> Produced e cek iv aad ct tag.
Proof. intro O. exists (fun _ _ _ _ _ _ => True). intros. exact I. Qed.

Theorem c02_tamper_ek_aeskw : forall O (Wrapped : bytes -> bytes -> bytes -> Prop),
  (forall kek ek c, o_kw_unwrap O kek ek = Ok (Some c) -> Wrapped kek ek c) ->
  forall a hs r c,
  fam_is (ea_family a) "AESKW" = true ->
  decrypt_cek O a hs r = Ok c ->
  exists ek, r_ek r = Some ek /\ Wrapped (k_id (r_key r)) ek c.
Proof. exact tamper_ek_aeskw. Qed.

Print Assumptions c02_sound_compact.
Print Assumptions c02_sound_json.
Print Assumptions c02_sound.
Print Assumptions c02_sound_keys_compact.
Print Assumptions c02_sound_keys_json.
Print Assumptions c02_key_by_kid.
Print Assumptions c02_kid_unknown.
Print Assumptions c02_use_checked.
Print Assumptions c02_verify_all_default.
Print Assumptions c02_verify_all_algorithms.
Print Assumptions c02_verify_all_false_only_by_caller.
Print Assumptions c02_default_all_recipients_yield.
Print Assumptions c02_aad_is_received_compact.
Print Assumptions c02_aad_is_received.
Print Assumptions c02_cbc_tag_first.
Print Assumptions c02_cbc_tag_length.
Print Assumptions c02_cbc_accept.
Print Assumptions c02_direct_ek_empty.
Print Assumptions c02_iv_size.
Print Assumptions c02_zip_only_protected.
Print Assumptions c02_zip_protected.
Print Assumptions c02_epk.
Print Assumptions c02_epk_import_fails.
Print Assumptions c02_epk_curve_mismatch.
Print Assumptions c02_tamper_compact.
Print Assumptions c02_tamper_json.
Print Assumptions c02_respelled_header_rejected.
Print Assumptions c02_tamper_ek_aeskw.
