(* C05 — only caller-allowed algorithms are ever used; default is the recommended set.
   Only statements here; proofs live in proofs/C05Proofs.v.  The subject is the
   Impl model model/C05Model.v (JWSRegistry.get_alg, JWERegistry._check_algorithm /
   get_alg / get_enc / get_zip, construct_registry and the registry selection of
   every entry point, register, NoneAlgModel) over the tables of Gen.Tables
   (regenerated from /repo on every run).  [w0] is the process state after import.

   Reading of "explicit list".  The statement says "with no explicit list exactly
   the recommended set is usable ... with an explicit list or registry exactly the
   listed, supported names are".  Two readings for algorithms=[] :
     (A) literal: an empty list lists nothing, so nothing is usable
         ([effective_strict]);
     (B) the library's documented falsy-default convention: `if algorithms:` /
         `if self.allowed:` treat [] like None, "no list given" ([effective]).
   The code implements (B).  The Spec below uses (B); c05_empty_list_is_default
   proves that this is what the model does, c05_empty_list_strict_reading_witness
   records the instance on which (A) and (B) differ.  The two readings coincide
   for every other allow-list (c05_readings_coincide). *)
From Model Require Import Base PyVal TableTypes C05Model.
From Gen Require Import Tables.
From Proofs Require Import C05Proofs.
Open Scope N_scope.

(* ---- default = the recommended set of the property text (literals transcribed
        from the statement, compared as sets with what Tables.v makes usable) ---- *)
Theorem c05_default_sets :
  (forall n, (exists m, jws_get_alg w0 (jws_select w0 PNone None) (PStr n) = Ok m) <->
             In n (map nm ["HS256"; "RS256"; "ES256"]%string)) /\
  (forall n, (exists m, jwe_get_alg w0 (jwe_select w0 PNone None) (PStr n) = Ok m) <->
             In n (map nm ["RSA-OAEP"; "A128KW"; "A256KW"; "dir"; "ECDH-ES";
                           "ECDH-ES+A128KW"; "ECDH-ES+A256KW"]%string)) /\
  (forall n, (exists m, jwe_get_enc w0 (jwe_select w0 PNone None) (PStr n) = Ok m) <->
             In n (map nm ["A128CBC-HS256"; "A192CBC-HS384"; "A256CBC-HS512";
                           "A128GCM"; "A192GCM"; "A256GCM"]%string)) /\
  (forall n, (exists m, jwe_get_zip w0 (jwe_select w0 PNone None) (PStr n) = Ok m) <->
             In n (map nm ["DEF"]%string)) /\
  jws_entry_select w0 (K7797 true) PNone None = jws_select w0 PNone None /\
  w_jws_def w0 = PNone /\ w_jwe_def w0 = PNone /\ jws_default_allowed = None.
Proof. exact default_sets_full. Qed.

(* ---- the same after register_ecdh_1pu(); register_chaha20_poly1305() (tables
        *_drafts of Gen.Tables): the draft algorithms are registered but NOT
        recommended, so with no list the usable names are STILL exactly the literals
        of the property text; every draft alg / enc (ECDH-1PU*, C20P, XC20P) is
        refused by the default registry, a bare registry and an empty list, and
        accepted when an explicit list names it ---- *)
Theorem c05_default_sets_drafts :
  (forall n, (exists m, jws_get_alg w0_drafts (jws_select w0_drafts PNone None) (PStr n) = Ok m) <->
             In n (map nm ["HS256"; "RS256"; "ES256"]%string)) /\
  (forall n, (exists m, jwe_get_alg w0_drafts (jwe_select w0_drafts PNone None) (PStr n) = Ok m) <->
             In n (map nm ["RSA-OAEP"; "A128KW"; "A256KW"; "dir"; "ECDH-ES";
                           "ECDH-ES+A128KW"; "ECDH-ES+A256KW"]%string)) /\
  (forall n, (exists m, jwe_get_enc w0_drafts (jwe_select w0_drafts PNone None) (PStr n) = Ok m) <->
             In n (map nm ["A128CBC-HS256"; "A192CBC-HS384"; "A256CBC-HS512";
                           "A128GCM"; "A192GCM"; "A256GCM"]%string)) /\
  (forall n, (exists m, jwe_get_zip w0_drafts (jwe_select w0_drafts PNone None) (PStr n) = Ok m) <->
             In n (map nm ["DEF"]%string)) /\
  w_jws_def w0_drafts = PNone /\ w_jwe_def w0_drafts = PNone /\ jws_default_allowed_drafts = None.
Proof. exact default_sets_drafts. Qed.

Theorem c05_drafts_only_explicit :
  forallb (fun n => match jwe_get_alg w0_drafts PNone (pname n), jwe_get_alg w0_drafts (PList []) (pname n),
                          jwe_get_alg w0_drafts (w_jwe_def w0_drafts) (pname n),
                          jwe_get_alg w0_drafts (PList [pname n]) (pname n) with
                    | Err (EJose UnsupportedAlgorithmError), Err (EJose UnsupportedAlgorithmError),
                      Err (EJose UnsupportedAlgorithmError), Ok _ => true
                    | _, _, _, _ => false end) draft_alg_names = true /\
  forallb (fun n => match jwe_get_enc w0_drafts PNone (pname n), jwe_get_enc w0_drafts (PList []) (pname n),
                          jwe_get_enc w0_drafts (w_jwe_def w0_drafts) (pname n),
                          jwe_get_enc w0_drafts (PList [pname n]) (pname n) with
                    | Err (EJose UnsupportedAlgorithmError), Err (EJose UnsupportedAlgorithmError),
                      Err (EJose UnsupportedAlgorithmError), Ok _ => true
                    | _, _, _, _ => false end) draft_enc_names = true /\
  draft_alg_names <> [] /\ draft_enc_names <> [] /\
  skipn (length jws_alg_table) jws_alg_table_drafts = [] /\
  skipn (length jwe_zip_table) jwe_zip_table_drafts = [].
Proof. exact drafts_only_explicit. Qed.

(* ---- the gate: for every world, every well-typed allow-list (None or a list of
        arbitrary values) and every string name, get_* succeeds exactly on the
        supported names of the effective allow-list, returning the registered row ---- *)
Theorem c05_gate : forall w a n,
  (forall m, jws_get_alg w (pv_of_allowed a) (PStr n) = Ok m <->
     (find_row ja_name (w_jws w) n = Some m /\ In (PStr n) (effective a (w_jws_rec w)))) /\
  (forall m, jwe_get_alg w (pv_of_allowed a) (PStr n) = Ok m <->
     (find_row ea_name (w_alg w) n = Some m /\ In (PStr n) (effective a (w_jwe_rec w)))) /\
  (forall m, jwe_get_enc w (pv_of_allowed a) (PStr n) = Ok m <->
     (find_row ee_name (w_enc w) n = Some m /\ In (PStr n) (effective a (w_jwe_rec w)))) /\
  (forall m, jwe_get_zip w (pv_of_allowed a) (PStr n) = Ok m <->
     (find_row ez_name (w_zip w) n = Some m /\ In (PStr n) (effective a (w_jwe_rec w)))).
Proof. exact gate_all_four. Qed.

(* find_row is the dict lookup: Some m iff the name is registered, m carries that name *)
Theorem c05_gate_lookup : forall w s,
  (forall m, find_row ja_name (w_jws w) s = Some m -> nm (ja_name m) = s /\ In m (w_jws w)) /\
  (forall m, find_row ea_name (w_alg w) s = Some m -> nm (ea_name m) = s /\ In m (w_alg w)) /\
  (forall m, find_row ee_name (w_enc w) s = Some m -> nm (ee_name m) = s /\ In m (w_enc w)) /\
  (forall m, find_row ez_name (w_zip w) s = Some m -> nm (ez_name m) = s /\ In m (w_zip w)) /\
  (In s (row_names ja_name (w_jws w)) <-> exists m, find_row ja_name (w_jws w) s = Some m) /\
  (In s (row_names ea_name (w_alg w)) <-> exists m, find_row ea_name (w_alg w) s = Some m) /\
  (In s (row_names ee_name (w_enc w)) <-> exists m, find_row ee_name (w_enc w) s = Some m) /\
  (In s (row_names ez_name (w_zip w)) <-> exists m, find_row ez_name (w_zip w) s = Some m).
Proof. exact row_lookup_four. Qed.

(* every other string name: the unsupported-algorithm error, nothing else *)
Theorem c05_gate_else : forall w a n,
  ((exists m, jws_get_alg w (pv_of_allowed a) (PStr n) = Ok m) \/
   jws_get_alg w (pv_of_allowed a) (PStr n) = Err (EJose UnsupportedAlgorithmError)) /\
  ((exists m, jwe_get_alg w (pv_of_allowed a) (PStr n) = Ok m) \/
   jwe_get_alg w (pv_of_allowed a) (PStr n) = Err (EJose UnsupportedAlgorithmError)) /\
  ((exists m, jwe_get_enc w (pv_of_allowed a) (PStr n) = Ok m) \/
   jwe_get_enc w (pv_of_allowed a) (PStr n) = Err (EJose UnsupportedAlgorithmError)) /\
  ((exists m, jwe_get_zip w (pv_of_allowed a) (PStr n) = Ok m) \/
   jwe_get_zip w (pv_of_allowed a) (PStr n) = Err (EJose UnsupportedAlgorithmError)).
Proof. exact gate_else_four. Qed.

(* names that are not strings (None, numbers, bytes, lists, dicts ...) never pass,
   whatever the allow-list value is: the unsupported-algorithm error *)
Theorem c05_gate_nonstring : forall w allowed name, is_str name = false ->
  jws_get_alg w allowed name = Err (EJose UnsupportedAlgorithmError) /\
  jwe_get_alg w allowed name = Err (EJose UnsupportedAlgorithmError) /\
  jwe_get_enc w allowed name = Err (EJose UnsupportedAlgorithmError) /\
  jwe_get_zip w allowed name = Err (EJose UnsupportedAlgorithmError).
Proof. exact gate_nonstr_four. Qed.

(* even for an ill-typed allow-list value (a str, a dict, a number ...) only
   supported string names pass *)
Theorem c05_gate_supported_any : forall w allowed name,
  (forall m, jws_get_alg w allowed name = Ok m -> exists s, name = PStr s /\ find_row ja_name (w_jws w) s = Some m) /\
  (forall m, jwe_get_alg w allowed name = Ok m -> exists s, name = PStr s /\ find_row ea_name (w_alg w) s = Some m) /\
  (forall m, jwe_get_enc w allowed name = Ok m -> exists s, name = PStr s /\ find_row ee_name (w_enc w) s = Some m) /\
  (forall m, jwe_get_zip w allowed name = Ok m -> exists s, name = PStr s /\ find_row ez_name (w_zip w) s = Some m).
Proof. exact gate_supported_four. Qed.

(* ---- entry points: with algorithms = a (None or a list), registry = r (absent,
        or a registry whose allowed is None or a list), the gates of a JWS call
        (compact, flattened, general JSON with one alg per member; rfc7797 with or
        without "b64"; jwt) all pass exactly when every member's alg is a supported
        string listed by the allow-list the caller designated ---- *)
Theorem c05_entry_jws : forall w k a r algs rows, w_jws_def w = PNone ->
  jws_entry w k (pv_of_allowed a) (opt_pv r) algs = Ok rows <->
  Forall2 (fun n row => exists s, n = PStr s /\ find_row ja_name (w_jws w) s = Some row /\
                                  In n (effective (spec_jws_choice a r) (w_jws_rec w))) algs rows.
Proof. exact jws_entry_iff. Qed.

Theorem c05_entry_jws_else : forall w k a r algs, w_jws_def w = PNone ->
  Forall (fun n => is_str n = true) algs ->
  (exists rows, jws_entry w k (pv_of_allowed a) (opt_pv r) algs = Ok rows) \/
  jws_entry w k (pv_of_allowed a) (opt_pv r) algs = Err (EJose UnsupportedAlgorithmError).
Proof. exact jws_entry_class. Qed.

(* JWE: enc, every recipient's alg and (when present) zip *)
Theorem c05_entry_jwe : forall w a r enc algs zip e rs z, w_jwe_def w = PNone ->
  jwe_entry w (pv_of_allowed a) (opt_pv r) enc algs zip = Ok (e, rs, z) <->
  (jwe_enc_ok w (spec_jwe_choice a r) enc e /\
   Forall2 (jwe_alg_ok w (spec_jwe_choice a r)) algs rs /\
   jwe_zip_ok w (spec_jwe_choice a r) zip z).
Proof. exact jwe_entry_iff. Qed.

Theorem c05_entry_jwe_else : forall w a r enc algs zip, w_jwe_def w = PNone ->
  is_str enc = true -> Forall (fun n => is_str n = true) algs ->
  match zip with Some z => is_str z = true | None => True end ->
  (exists t, jwe_entry w (pv_of_allowed a) (opt_pv r) enc algs zip = Ok t) \/
  jwe_entry w (pv_of_allowed a) (opt_pv r) enc algs zip = Err (EJose UnsupportedAlgorithmError).
Proof. exact jwe_entry_class. Qed.

(* ---- before any cryptographic result: whatever the cryptographic stages
        compute, an operation returns a result only if all its gates passed ---- *)
Theorem c05_before_crypto :
  (forall X (crypto : list jws_alg_row -> res X) w k a r algs x,
     jws_op X crypto w k a r algs = Ok x -> exists rows, jws_entry w k a r algs = Ok rows /\ crypto rows = Ok x) /\
  (forall K X km ce w a r enc algs zip x,
     jwe_encrypt_op K X km ce w a r enc algs zip = Ok x -> exists t, jwe_entry w a r enc algs zip = Ok t) /\
  (forall K M X km cd dz w a r enc algs zip x,
     jwe_decrypt_op K M X km cd dz w a r enc algs zip = Ok x -> exists t, jwe_entry w a r enc algs zip = Ok t) /\
  (forall crypto w k a r algs,
     jws_verify_op crypto w k a r algs = Ok tt ->
     exists rows, jws_entry w k a r algs = Ok rows /\ forallb (alg_verify crypto) rows = true).
Proof. exact before_crypto. Qed.

(* ---- the gates do not see the message.  Only the cryptographic stages receive the
        plaintext / payload / aad; whatever they compute (two messages = two content
        stages), and as long as key management does not fail first, a refusing gate
        is the failure of the whole operation with the gate's error: the allow-list
        verdict of encrypt / decrypt / sign is a function of (header names,
        algorithms=, registry=) only.  The model's API calls (CallJwe ...) carry no
        message argument; the harness checks the implementation against them with
        empty / one-octet / ordinary plaintexts, payloads, aad and claims. ---- *)
Theorem c05_gate_independent_of_message :
  (forall K X km (ce1 ce2 : jwe_enc_row -> K -> option jwe_zip_row -> res X) w a r enc algs zip e,
     (forall en rs, exists k, km en rs = Ok k) ->
     jwe_entry w a r enc algs zip = Err e ->
     jwe_encrypt_op K X km ce1 w a r enc algs zip = Err e /\
     jwe_encrypt_op K X km ce2 w a r enc algs zip = Err e) /\
  (forall K X km (ce1 ce2 : jwe_enc_row -> K -> option jwe_zip_row -> res X) w a r enc algs zip x,
     jwe_encrypt_op K X km ce1 w a r enc algs zip = Ok x ->
     exists t, jwe_entry w a r enc algs zip = Ok t /\
               (forall e, jwe_encrypt_op K X km ce2 w a r enc algs zip <> Err e \/
                          jwe_entry w a r enc algs zip <> Err e)) /\
  (forall X (c1 c2 : list jws_alg_row -> res X) w k a r algs e,
     jws_entry w k a r algs = Err e ->
     jws_op X c1 w k a r algs = Err e /\ jws_op X c2 w k a r algs = Err e).
Proof. exact gate_independent_of_message. Qed.

Theorem c05_gate_failure_is_op_failure :
  (forall X crypto w k a r algs e,
     jws_entry w k a r algs = Err e -> jws_op X crypto w k a r algs = Err e) /\
  (forall K X km ce w a r enc algs zip e,
     (forall en rs, exists k, km en rs = Ok k) ->
     jwe_entry w a r enc algs zip = Err e -> jwe_encrypt_op K X km ce w a r enc algs zip = Err e) /\
  (forall K M X km cd dz w a r enc algs zip e,
     (forall en rs, exists k, km en rs = Ok k) -> (forall en k, exists m, cd en k = Ok m) ->
     jwe_entry w a r enc algs zip = Err e -> jwe_decrypt_op K M X km cd dz w a r enc algs zip = Err e).
Proof. exact gate_failure_is_op_failure. Qed.

Example c05_gate_message_instance :
  fst (step w0 (CallJwe PNone RAbsent (pname "A128GCM") [pname "dir"] (Some (pname "BOGUS")))) = VUnit unsupported /\
  fst (step w0 (CallJwe (PList [pname "dir"; pname "A128GCM"]) RAbsent (pname "A128GCM") [pname "dir"] (Some (pname "DEF")))) = VUnit unsupported /\
  fst (step w0 (CallJwe PNone (RFresh RcJwe (PList [pname "dir"; pname "A128GCM"])) (pname "A128GCM") [pname "dir"] (Some (pname "DEF")))) = VUnit unsupported /\
  fst (step w0 (CallJwe PNone RAbsent (pname "A128GCM") [pname "dir"] (Some (pname "DEF")))) = VUnit (Ok tt).
Proof. exact gate_message_instance. Qed.

(* ---- none: whatever the real signature checks say and whatever allow-list or
        registry is given (even one naming "none"), a JWS one of whose members
        has alg "none" never verifies ---- *)
Theorem c05_none :
  (forall crypto k a r algs, In (pname "none") algs -> jws_verify_op crypto w0 k a r algs <> Ok tt) /\
  (forall crypto r, is_none_row r = true -> alg_verify crypto r = false) /\
  (forall msg sig, none_verify msg sig = false).
Proof. exact none_full. Qed.

(* ---- histories.  The world holds the class tables, the two default registries and
        every registry object the caller created (w_regs); a call is a function
        world -> args -> verdict * world whose registry= argument is absent, an
        object built for the call, or a reference into w_regs.
        c05_history: after ANY history without registrations (constructions of new
        registries and calls with per-call algorithms= overrides on shared registry
        objects included) a call whose registry references exist in w gives the
        verdict it gives in w, the class tables and default registries are the
        same, and every registry object of w is still in place, unchanged.
        c05_history_plain: without constructions the whole state is unchanged.
        c05_history_effects_only: in general the state depends on the history only
        through its registrations and constructions. ---- *)
Theorem c05_history : forall h c w,
  no_registration h = true -> refs_ok w c = true ->
  fst (step (run h w) c) = fst (step w c) /\
  same_tables w (run h w) /\
  (forall i o, nth_error (w_regs w) i = Some o -> nth_error (w_regs (run h w)) i = Some o).
Proof. exact history_full. Qed.

Theorem c05_history_plain : forall h c w,
  forallb is_plain h = true ->
  run h w = w /\ step (run h w) c = step w c /\ verdicts h w = map (fun c => fst (step w c)) h.
Proof. exact history_plain. Qed.

Theorem c05_history_effects_only : forall h c w,
  step (run h w) c = step (run (filter is_effect h) w) c.
Proof. exact history_registers. Qed.

(* the registry passed in (any registry object of the caller) is returned unchanged by
   every call, by every history; calls other than a construction leave the whole
   collection of registry objects as it is *)
Theorem c05_registry_arg_unchanged :
  (forall w c i o, nth_error (w_regs w) i = Some o -> nth_error (w_regs (snd (step w c))) i = Some o) /\
  (forall h w i o, nth_error (w_regs w) i = Some o -> nth_error (w_regs (run h w)) i = Some o) /\
  (forall w c, is_new c = false -> w_regs (snd (step w c)) = w_regs w).
Proof. exact registry_arg_unchanged. Qed.

(* non-vacuity: a shared JWERegistry(algorithms=[A128KW, A128GCM]) is used with a
   one-off algorithms=[A192KW, A128GCM] (A192KW accepted for that call), afterwards
   the registry alone accepts A128KW and refuses A192KW, and is unchanged *)
Example c05_shared_registry_instance :
  let h := [CallNewReg reg_a128;
            CallJwe (PList [pname "A192KW"; pname "A128GCM"]) (RRef 0) (pname "A128GCM") [pname "A192KW"] None;
            CallJwe PNone (RRef 0) (pname "A128GCM") [pname "A128KW"] None;
            CallJwe PNone (RRef 0) (pname "A128GCM") [pname "A192KW"] None] in
  verdicts h w0 = [VUnit (Ok tt); VUnit (Ok tt); VUnit (Ok tt); VUnit unsupported] /\
  w_regs (run h w0) = [reg_a128].
Proof. exact shared_registry_instance. Qed.

(* ---- rfc7797 entry points (and every JWS entry point) keep the caller's registry:
        `registry is None` => JWSRegistry(algorithms=algorithms) when the header has
        "b64", construct_registry(algorithms) otherwise; any registry object the
        caller passes - base class jws.JWSRegistry, the rfc7797 subclass, a subclass
        of either, built for the call or long-lived - decides the gate with ITS
        allowed attribute, for signing and verification, with or without "b64",
        whatever algorithms= says ---- *)
Theorem c05_7797_registry_kept :
  (forall w k algorithms r, jws_entry_select w k algorithms (Some r) = r) /\
  (forall w algorithms, jws_entry_select w (K7797 true) algorithms None = algorithms) /\
  (forall w algorithms, jws_entry_select w (K7797 false) algorithms None = construct_registry w algorithms) /\
  (forall w k algorithms c allowed algs,
     fst (step w (CallJwsSign k algorithms (RFresh c allowed) algs)) =
     VUnit (runit (gate_all (jws_member_gate w allowed) algs))) /\
  (forall w k algorithms c allowed algs,
     fst (step w (CallJwsVerify k algorithms (RFresh c allowed) algs)) =
     VUnit (do ok <- jws_verify_members good_sig w allowed algs;
            if ok then Ok tt else Err (EJose BadSignatureError))) /\
  (forall w k algorithms i o algs, nth_error (w_regs w) i = Some o ->
     fst (step w (CallJwsSign k algorithms (RRef i) algs)) =
     VUnit (runit (gate_all (jws_member_gate w (ro_allowed o)) algs)) /\
     fst (step w (CallJwsVerify k algorithms (RRef i) algs)) =
     VUnit (do ok <- jws_verify_members good_sig w (ro_allowed o) algs;
            if ok then Ok tt else Err (EJose BadSignatureError))).
Proof. exact registry_kept_7797. Qed.

Example c05_7797_registry_kept_instance :
  fst (step w0 (CallJwsSign (K7797 true) PNone (RFresh RcJws (PList [pname "HS512"])) [pname "HS256"])) = VUnit unsupported /\
  fst (step w0 (CallJwsSign (K7797 true) PNone (RFresh RcJws (PList [pname "HS512"])) [pname "HS512"])) = VUnit (Ok tt) /\
  fst (step w0 (CallJwsVerify (K7797 true) PNone (RFresh RcJws (PList [pname "HS512"])) [pname "HS512"])) = VUnit (Ok tt) /\
  fst (step w0 (CallJwsSign (K7797 true) (PList [pname "HS256"]) (RFresh RcJwsSub (PList [pname "HS512"])) [pname "HS256"])) = VUnit unsupported /\
  fst (step w0 (CallJwsSign (K7797 true) PNone RAbsent [pname "HS256"])) = VUnit (Ok tt) /\
  fst (step w0 (CallJwsSign (K7797 true) PNone RAbsent [pname "HS512"])) = VUnit unsupported.
Proof. exact registry_kept_7797_instance. Qed.

(* ---- both algorithms= and registry= given (the property text does not order them):
        JWS entry points use the registry and ignore the list, JWE entry points use
        the non-empty list and ignore the registry; witnesses on w0 ---- *)
Theorem c05_both_given :
  (forall w k a r, jws_entry_select w k a (Some r) = r) /\
  (forall w a r, py_truth a = true -> jwe_select w a r = a) /\
  (exists rows, jws_entry w0 KPlain (PList [pname "HS256"]) (Some (PList [pname "HS384"])) [pname "HS384"] = Ok rows) /\
  runit (jwe_entry w0 (PList [pname "A192KW"; pname "A128GCM"]) (Some (PList [pname "A128KW"; pname "A128GCM"]))
           (pname "A128GCM") [pname "A128KW"] None) = Err (EJose UnsupportedAlgorithmError).
Proof. exact both_given. Qed.

(* ---- the empty list ---- *)
Theorem c05_empty_list_is_default : forall w name no_registry, no_registry = @None pv ->
  jws_get_alg w (PList []) name = jws_get_alg w PNone name /\
  jwe_get_alg w (PList []) name = jwe_get_alg w PNone name /\
  jwe_get_enc w (PList []) name = jwe_get_enc w PNone name /\
  jwe_get_zip w (PList []) name = jwe_get_zip w PNone name /\
  jws_select w (PList []) no_registry = jws_select w PNone no_registry /\
  jwe_select w (PList []) no_registry = jwe_select w PNone no_registry.
Proof. exact empty_list_is_default. Qed.

Theorem c05_readings_coincide : forall a rec, a <> Some [] -> effective_strict a rec = effective a rec.
Proof. exact effective_strict_same. Qed.

Example c05_empty_list_strict_reading_witness :
  (exists m, jws_entry w0 KPlain (PList []) None [pname "HS256"] = Ok [m]) /\
  ~ In (pname "HS256") (effective_strict (Some []) (w_jws_rec w0)).
Proof. exact empty_list_strict_witness. Qed.

(* ---- finite facts tying the model's constants to Gen.Tables ---- *)
Theorem c05_tables_consistent :
  jws_recommended = flagged ja_name ja_recommended jws_alg_table /\
  jwe_recommended = (flagged ea_name ea_recommended jwe_alg_table ++
                     flagged ee_name ee_recommended jwe_enc_table ++
                     flagged ez_name ez_recommended jwe_zip_table)%list /\
  keys_unique (row_names ja_name jws_alg_table) = true /\
  keys_unique (row_names ea_name jwe_alg_table) = true /\
  keys_unique (row_names ee_name jwe_enc_table) = true /\
  keys_unique (row_names ez_name jwe_zip_table) = true /\
  map ja_name (filter is_none_row jws_alg_table) = ["none"%string] /\
  map (fun h => (hp_name h, hp_kind h)) (firstn 3 jwe_header_registry) =
    [("enc", VStr); ("zip", VStr); ("alg", VStr)]%string /\
  existsb (fun h => String.eqb (hp_name h) "alg" &&
                    match hp_kind h with VStr => true | _ => false end) jws_header_registry = true.
Proof. exact tables_consistent. Qed.

(* the model of `register`, run on the rows in table order from the empty state,
   yields the state after import; run on the draft rows it yields the state the
   tables extractor sees after register_ecdh_1pu(); register_chaha20_poly1305() *)
Theorem c05_import_state : run import_calls w_empty = w0.
Proof. exact import_state. Qed.

Theorem c05_drafts_state :
  let w := run drafts_calls w0 in
  w_jws w = w_jws w0_drafts /\ w_alg w = w_alg w0_drafts /\ w_enc w = w_enc w0_drafts /\
  w_zip w = w_zip w0_drafts /\ w_jws_rec w = w_jws_rec w0_drafts /\
  set_eqb (map nm (w_jwe_rec w)) (map nm (w_jwe_rec w0_drafts)) = true /\
  w_jws_def w = w_jws_def w0_drafts /\ w_jwe_def w = w_jwe_def w0_drafts.
Proof. exact drafts_state. Qed.

(* ---- non-vacuity ---- *)
(* the exception of c05_history is real: a registration changes a verdict *)
Example c05_register_matters :
  fst (step w0 (CallJwsDefGet (pname "HS384"))) = VName unsupported /\
  fst (step (run [CallRegJws hs384_flagged] w0) (CallJwsDefGet (pname "HS384"))) = VName (Ok (nm "HS384")).
Proof. exact register_matters. Qed.

(* instances meeting the hypotheses / both sides of the characterisations:
   "none" passes the gate when listed (and is the NoneAlgModel row); a supported
   but unlisted name, an unknown listed name, a list and a number
   as name are refused; a JWE call passes with alg, enc and zip listed and
   fails when zip is not; verification with "none" allowed is a BadSignatureError
   while a genuine HS512 token verifies *)
Example c05_instances :
  (exists m, jws_get_alg w0 (PList [pname "none"; pname "XX"]) (pname "none") = Ok m /\ is_none_row m = true) /\
  jws_get_alg w0 (PList [pname "HS384"]) (pname "HS256") = Err (EJose UnsupportedAlgorithmError) /\
  jws_get_alg w0 (PList [pname "XX"]) (pname "XX") = Err (EJose UnsupportedAlgorithmError) /\
  jws_get_alg w0 PNone (PList [pname "HS256"]) = Err (EJose UnsupportedAlgorithmError) /\
  jws_get_alg w0 PNone (PInt 1) = Err (EJose UnsupportedAlgorithmError) /\
  (exists t, jwe_entry w0 (PList [pname "A128GCMKW"; pname "A128GCM"; pname "DEF"]) (Some PNone)
               (pname "A128GCM") [pname "A128GCMKW"] (Some (pname "DEF")) = Ok t) /\
  runit (jwe_entry w0 PNone (Some (PList [pname "A128GCMKW"; pname "A128GCM"]))
               (pname "A128GCM") [pname "A128GCMKW"] (Some (pname "DEF"))) = Err (EJose UnsupportedAlgorithmError) /\
  jws_verify_op good_sig w0 KPlain (PList [pname "none"]) None [pname "none"] = Err (EJose BadSignatureError) /\
  jws_verify_op good_sig w0 KPlain (PList [pname "HS512"]) None [pname "HS512"] = Ok tt.
Proof. exact instances. Qed.

Print Assumptions c05_default_sets.
Print Assumptions c05_default_sets_drafts.
Print Assumptions c05_drafts_only_explicit.
Print Assumptions c05_gate.
Print Assumptions c05_gate_lookup.
Print Assumptions c05_gate_else.
Print Assumptions c05_gate_nonstring.
Print Assumptions c05_gate_supported_any.
Print Assumptions c05_entry_jws.
Print Assumptions c05_entry_jws_else.
Print Assumptions c05_entry_jwe.
Print Assumptions c05_entry_jwe_else.
Print Assumptions c05_before_crypto.
Print Assumptions c05_gate_independent_of_message.
Print Assumptions c05_gate_failure_is_op_failure.
Print Assumptions c05_none.
Print Assumptions c05_history.
Print Assumptions c05_history_plain.
Print Assumptions c05_history_effects_only.
Print Assumptions c05_registry_arg_unchanged.
Print Assumptions c05_7797_registry_kept.
Print Assumptions c05_both_given.
Print Assumptions c05_empty_list_is_default.
Print Assumptions c05_readings_coincide.
Print Assumptions c05_tables_consistent.
Print Assumptions c05_import_state.
Print Assumptions c05_drafts_state.
