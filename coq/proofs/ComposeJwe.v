(* ComposeJwe.v — START of the composition layer for the JWE side.
   The JWE pipeline model (model/Jwe*.v) does not re-model the zip step and the
   header check: it takes them as oracle fields [o_inflate] / [o_check_header]
   ("C17 / C15 own their inside").  Here the fields are tied to the C17 and C15
   models: for every oracle record whose fields ARE those models,
     - the zip step of _perform_decrypt is C17's decompress behind the same
       get_zip gate (JweMsg.get_zip = C17Zip.get_zip up to the name translation);
     - every recipient that _perform_decrypt got past satisfies C15's header_ok_jwe. *)
From Coq Require Import String List NArith Bool.
From Model Require Import Base PyVal TableTypes.
From Model Require Import JweMsg.
From Model Require C17Zip C15Registry C15Spec.
From Gen Require Import Tables.
From Proofs Require JwsProofs C15Proofs ComposeJwsC06.
Import ListNotations.
Open Scope N_scope.

Definition runit {A} (r : res A) : res unit := match r with Ok _ => Ok tt | Err e => Err e end.

Lemma str_mem_asc n l : PyVal.str_mem (asc n) (map asc l) = C17Zip.str_mem n l.
Proof.
  unfold C17Zip.str_mem. induction l as [|a l IH]; [reflexivity|].
  cbn [map PyVal.str_mem existsb]. rewrite IH, ComposeJwsC06.str_eqb_asc, String.eqb_sym. reflexivity.
Qed.

Lemma zip_tables_same : jwe_zip_table_drafts = jwe_zip_table.
Proof. reflexivity. Qed.

Lemma zip_recommended_same :
  forallb (fun r => Bool.eqb (in_strs (asc (ez_name r)) jwe_recommended_drafts)
                             (C17Zip.str_mem (ez_name r) jwe_recommended)) jwe_zip_table = true.
Proof. vm_compute. reflexivity. Qed.

Lemma find_zip_spec n :
  match find_zip (asc n) with
  | Some r => ez_name r = n /\ In r jwe_zip_table /\ C17Zip.str_mem n (map ez_name jwe_zip_table) = true
  | None => C17Zip.str_mem n (map ez_name jwe_zip_table) = false
  end.
Proof.
  unfold find_zip, C17Zip.str_mem. rewrite zip_tables_same.
  induction jwe_zip_table as [|r t IH]; [reflexivity|].
  cbn [find map existsb]. rewrite ComposeJwsC06.str_eqb_asc, (String.eqb_sym n).
  destruct (String.eqb (ez_name r) n) eqn:E.
  - apply String.eqb_eq in E. split; [exact E|]. split; [left; reflexivity|reflexivity].
  - cbn [orb]. destruct (find _ t) as [r'|].
    + destruct IH as (A & B & C). split; [exact A|]. split; [right; exact B|exact C].
    + exact IH.
Qed.

(* JWERegistry.get_zip: the JWE pipeline model vs C17's model (names: code points vs
   Coq strings; allow-list likewise) *)
Theorem get_zip_eq verify_all allowed n :
  runit (get_zip {| g_allowed := option_map (map asc) allowed; g_verify_all := verify_all |} (PStr (asc n)))
  = C17Zip.get_zip allowed n.
Proof.
  unfold get_zip, C17Zip.get_zip, name_of. cbn [bind].
  pose proof (find_zip_spec n) as S.
  destruct (find_zip (asc n)) as [r|].
  - destruct S as (NM & I & M). rewrite M. cbn [negb].
    unfold check_allowed. cbn [g_allowed].
    destruct allowed as [[|a l]|]; cbn [option_map map].
    + pose proof zip_recommended_same as F. rewrite forallb_forall in F. specialize (F r I).
      apply Bool.eqb_prop in F. rewrite NM in F. rewrite F.
      destruct (C17Zip.str_mem n jwe_recommended); reflexivity.
    + change (asc a :: map asc l) with (map asc (a :: l)). rewrite str_mem_asc.
      destruct (C17Zip.str_mem n (a :: l)); reflexivity.
    + pose proof zip_recommended_same as F. rewrite forallb_forall in F. specialize (F r I).
      apply Bool.eqb_prop in F. rewrite NM in F. rewrite F.
      destruct (C17Zip.str_mem n jwe_recommended); reflexivity.
  - rewrite S. reflexivity.
Qed.

Section JweCompose.
  Variable O : oracles.

  (* ---- zip step ---- *)
  Variable zdec : C17Zip.zoracle.
  Hypothesis inflate_is_c17 : forall x, o_inflate O x = C17Zip.decompress zdec x.

  Theorem unzip_c17 g prot m :
    unzip O g prot m =
    if dmem prot (s_ "zip") then do _ <- get_zip g (hget prot "zip"); C17Zip.decompress zdec m else Ok m.
  Proof. unfold unzip. destruct (dmem prot (s_ "zip")); [|reflexivity]. rewrite inflate_is_c17. reflexivity. Qed.

  (* with a str "zip" member: C17's tail of _perform_decrypt after the content decryption *)
  Theorem unzip_c17_named verify_all allowed prot n m :
    dget prot (s_ "zip") = Some (PStr (asc n)) ->
    unzip O {| g_allowed := option_map (map asc) allowed; g_verify_all := verify_all |} prot m =
    match C17Zip.get_zip allowed n with
    | Ok _ => C17Zip.decompress zdec m
    | Err e => Err e
    end.
  Proof.
    intro G. rewrite unzip_c17. unfold dmem, hget. change (asc "zip") with (s_ "zip"). rewrite G.
    rewrite <- (get_zip_eq verify_all allowed n).
    destruct (get_zip _ (PStr (asc n))); reflexivity.
  Qed.

  (* ---- header check ---- *)
  Variable tbl : list jwe_alg_row.
  Variable recommended : list string.
  Variable allowed : option (list string).
  Variable reg : list hparam.
  Variable strict : bool.
  Hypothesis check_header_is_c15 : forall hs cm,
    o_check_header O (PDict hs) cm = C15Registry.jwe_check_header tbl recommended allowed reg strict hs cm.

  Definition recipient_ok (o : jobj) (r : recip) : Prop :=
    exists hs, headers (j_ser o) (j_prot o) (j_unprot o) (r_header r) = Ok hs /\
               C15Spec.header_ok_jwe tbl recommended allowed reg strict hs true = true.

  Lemma recip_loop_checked g e o : forall rs ceks out,
    recip_loop O g e o rs ceks = Ok out -> Forall (recipient_ok o) rs.
  Proof.
    induction rs as [|r rest IH]; intros ceks out H; [constructor|].
    cbn [recip_loop] in H.
    apply JwsProofs.bind_ok in H. destruct H as (hs & HS & H).
    apply JwsProofs.bind_ok in H. destruct H as (u & CH & H). destruct u.
    apply JwsProofs.bind_ok in H. destruct H as (algv & _ & H).
    apply JwsProofs.bind_ok in H. destruct H as (a & _ & H).
    constructor.
    - exists hs. split; [exact HS|]. rewrite check_header_is_c15 in CH.
      exact (proj1 (C15Proofs.jwe_iff _ _ _ _ _ _ _) CH).
    - destruct (decrypt_recipient O a e hs r (j_tag o)) as [cek|x].
      + exact (IH _ _ H).
      + destruct (catchable x); [|discriminate]. destruct (g_verify_all g); [discriminate|]. exact (IH _ _ H).
  Qed.

  Theorem perform_decrypt_checked g o m :
    perform_decrypt O g o = Ok m -> Forall (recipient_ok o) (j_recips o).
  Proof.
    unfold perform_decrypt. intro H.
    assert (H' : perform_decrypt_inner O g o = Ok m).
    { destruct (perform_decrypt_inner O g o) as [x|e]; [exact H|].
      destruct e as [c| | | | | | | | | |]; try discriminate. destruct c; discriminate. }
    clear H. unfold perform_decrypt_inner in H'.
    apply JwsProofs.bind_ok in H'. destruct H' as (u & _ & H).
    apply JwsProofs.bind_ok in H. destruct H as (encv & _ & H).
    apply JwsProofs.bind_ok in H. destruct H as (e & _ & H).
    apply JwsProofs.bind_ok in H. destruct H as (u2 & _ & H).
    apply JwsProofs.bind_ok in H. destruct H as (ceks & RL & H).
    exact (recip_loop_checked _ _ _ _ _ _ RL).
  Qed.
End JweCompose.
