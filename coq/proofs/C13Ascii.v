(* C13Ascii.v — json.dumps(ensure_ascii=True) only produces ASCII, for every value. *)
From Coq Require Import Lia ZifyBool.
From Model Require Import Base PyVal B64 IntCodec TableTypes C13Json C13Thumb.
From Proofs Require Import IntCodecProofs C13Proofs.
Open Scope N_scope.

Lemma hexdig_ascii v : v < 16 -> (hexdig v <? 128) = true.
Proof. unfold hexdig. intro H. destruct (v <? 10) eqn:E; lia. Qed.

Lemma u4_ascii c : ascii_str (u4 c) = true.
Proof.
  unfold u4, ascii_str. cbn [forallb].
  rewrite !hexdig_ascii; try (apply N.mod_lt; lia). reflexivity.
Qed.

Lemma esc_char_ascii c : ascii_str (esc_char c) = true.
Proof.
  unfold esc_char.
  destruct (c =? 34); [reflexivity|]. destruct (c =? 92); [reflexivity|].
  destruct (c =? 10); [reflexivity|]. destruct (c =? 13); [reflexivity|].
  destruct (c =? 9); [reflexivity|]. destruct (c =? 8); [reflexivity|].
  destruct (c =? 12); [reflexivity|].
  destruct ((32 <=? c) && (c <=? 126)) eqn:E.
  - unfold ascii_str. cbn [forallb]. lia.
  - destruct (c <? 65536); [apply u4_ascii|].
    cbv zeta. rewrite ascii_app, !u4_ascii. reflexivity.
Qed.

Lemma jstr_ascii s : ascii_str (jstr s) = true.
Proof.
  unfold jstr. change (ascii_str (34 :: flat_map esc_char s ++ [34])) with (ascii_str (flat_map esc_char s ++ [34])).
  rewrite ascii_app. cbn. rewrite andb_true_r.
  induction s as [|c s IH]; [reflexivity|].
  cbn [flat_map]. rewrite ascii_app, esc_char_ascii, IH. reflexivity.
Qed.

Lemma dec_N_ascii n : ascii_str (dec_N n) = true.
Proof.
  unfold dec_N. pose proof (digits_Forall 10 n ltac:(lia)) as F.
  destruct (digits 10 n) as [|d l] eqn:E; [reflexivity|].
  unfold ascii_str. apply forallb_forall. intros x HI.
  apply in_map_iff in HI. destruct HI as [y [Ey HI]]. subst x.
  rewrite Forall_forall in F. specialize (F y HI). lia.
Qed.

Lemma dec_Z_ascii z : ascii_str (dec_Z z) = true.
Proof.
  unfold dec_Z. destruct (z <? 0)%Z; [|apply dec_N_ascii].
  change (ascii_str (45 :: dec_N (Z.abs_N z))) with (ascii_str (dec_N (Z.abs_N z))). apply dec_N_ascii.
Qed.

Fixpoint jdumps_ascii (v : pv) {struct v} : forall s, jdumps v = Ok s -> ascii_str s = true.
Proof.
  destruct v as [| b | z | f | s0 | s0 | l | d]; intros s H.
  - inversion H. reflexivity.
  - inversion H. destruct b; reflexivity.
  - inversion H. apply dec_Z_ascii.
  - discriminate.
  - inversion H. apply jstr_ascii.
  - discriminate.
  - cbn [jdumps] in H.
    match type of H with bind (?go l true) _ = _ => set (G := go) in H end.
    assert (A : forall l' first body, Forall (fun x => forall s, jdumps x = Ok s -> ascii_str s = true) l' ->
                                 G l' first = Ok body -> ascii_str body = true).
    { induction l' as [|x r IHr]; intros first body Hx Hg; simpl in Hg.
      - inversion Hg. reflexivity.
      - destruct (jdumps x) as [a|] eqn:Ea; [|discriminate]. cbn [bind] in Hg.
        destruct (G r false) as [b|] eqn:Eb; [|discriminate]. cbn [bind] in Hg.
        inversion Hg. rewrite !ascii_app.
        inversion Hx as [|? ? Hx1 Hx2]; subst.
        rewrite (Hx1 a Ea).
        rewrite (IHr false b Hx2 Eb).
        destruct first; reflexivity. }
    destruct (G l true) as [body|] eqn:Eg; [|discriminate]. cbn [bind] in H. inversion H.
    change (ascii_str (91 :: body ++ [93])) with (ascii_str (body ++ [93])).
    rewrite ascii_app. erewrite A; [reflexivity | | exact Eg].
    clear -jdumps_ascii. induction l as [|x r IHr]; constructor; [exact (jdumps_ascii x) | exact IHr].
  - cbn [jdumps] in H.
    match type of H with bind (?go d true) _ = _ => set (G := go) in H end.
    assert (A : forall d' first body, Forall (fun kx => forall s, jdumps (snd kx) = Ok s -> ascii_str s = true) d' ->
                                 G d' first = Ok body -> ascii_str body = true).
    { induction d' as [|[k x] r IHr]; intros first body Hx Hg; simpl in Hg.
      - inversion Hg. reflexivity.
      - destruct (jdumps x) as [a|] eqn:Ea; [|discriminate]. cbn [bind] in Hg.
        destruct (G r false) as [b|] eqn:Eb; [|discriminate]. cbn [bind] in Hg.
        inversion Hg. rewrite !ascii_app.
        change (34 :: (flat_map esc_char k ++ [34]) ++ 58 :: a ++ b) with (jstr k ++ 58 :: a ++ b). rewrite ascii_app.
        change (ascii_str (58 :: a ++ b)) with (ascii_str (a ++ b)). rewrite ascii_app.
        rewrite jstr_ascii.
        inversion Hx as [|? ? Hx1 Hx2]; subst.
        rewrite (Hx1 a Ea).
        rewrite (IHr false b Hx2 Eb).
        destruct first; reflexivity. }
    destruct (G d true) as [body|] eqn:Eg; [|discriminate]. cbn [bind] in H. inversion H.
    change (ascii_str (123 :: body ++ [125])) with (ascii_str (body ++ [125])).
    rewrite ascii_app. erewrite A; [reflexivity | | exact Eg].
    clear -jdumps_ascii. induction d as [|[k x] r IHr]; constructor; [exact (jdumps_ascii x) | exact IHr].
Qed.

(* the JSON text is pure ASCII, so its UTF-8 encoding is the text itself and
   never fails *)
Theorem jdumps_utf8 v s : jdumps v = Ok s -> utf8 s = Ok s.
Proof. intro H. apply utf8_ascii. exact (jdumps_ascii v s H). Qed.

Section WithHash.
  Variable hashnew : str -> bytes -> res bytes.
  Theorem thumbprint_hashes_json_text d fields dg :
    thumbprint hashnew d fields dg =
    do data <- build_data d (sort_fields fields) [];
    do js <- jdumps (PDict data);
    do h <- hashnew dg js;
    Ok (b64e h).
  Proof.
    unfold thumbprint. destruct (build_data d (sort_fields fields) []) as [data|]; [|reflexivity].
    cbn [bind]. destruct (jdumps (PDict data)) as [js|] eqn:E; [|reflexivity].
    cbn [bind]. rewrite (jdumps_utf8 _ _ E). reflexivity.
  Qed.
End WithHash.
