(* C09Calendar.v — calendar.timegm / datetime._ymd2ord (model) against the
   successor characterisation of the proleptic Gregorian calendar (C09Spec). *)
From Coq Require Import Lia ZifyBool.
From Model Require Import Base PyVal C09Jwt C09Spec.
Open Scope Z_scope.

Lemma leap_same y : is_leap y = leap_spec y.
Proof.
  unfold is_leap, leap_spec.
  destruct (y mod 400 =? 0) eqn:A; destruct (y mod 100 =? 0) eqn:B; destruct (y mod 4 =? 0) eqn:C; simpl; try reflexivity;
  exfalso; Z.div_mod_to_equations; lia.
Qed.

Lemma day_number_epoch : day_number 1970 1 1 = 0.
Proof. vm_compute. reflexivity. Qed.

Lemma month_cases m : 1 <= m <= 12 -> m=1\/m=2\/m=3\/m=4\/m=5\/m=6\/m=7\/m=8\/m=9\/m=10\/m=11\/m=12.
Proof. lia. Qed.

Lemma dby_succ y : days_before_year (y + 1) = days_before_year y + (if leap_spec y then 366 else 365).
Proof.
  unfold days_before_year, leap_spec. replace (y + 1 - 1) with y by lia.
  destruct (y mod 400 =? 0) eqn:A; [|destruct (y mod 100 =? 0) eqn:B; [|destruct (y mod 4 =? 0) eqn:C]];
  Z.div_mod_to_equations; lia.
Qed.

Lemma day_number_next y m d : valid_date y m d ->
  let '(y', m', d') := next_day y m d in
  day_number y' m' d' = day_number y m d + 1 /\ valid_date y' m' d'.
Proof.
  intros [Hm Hd]. unfold next_day.
  destruct (d <? days_in_month y m) eqn:E.
  - split; [unfold day_number; lia | split; [lia|lia]].
  - assert (d = days_in_month y m) by lia. clear E.
    destruct (m <? 12) eqn:E2.
    + split.
      * unfold day_number, ymd2ord, days_before_month. rewrite !leap_same.
        apply month_cases in Hm.
        destruct Hm as [-> | [-> | [-> | [-> | [-> | [-> | [-> | [-> | [-> | [-> | [-> | ->]]]]]]]]]]]; try discriminate;
        subst d; unfold days_in_month; simpl; destruct (leap_spec y); simpl; lia.
      * unfold valid_date, days_in_month. split; [lia|].
        destruct (m + 1 =? 2); [destruct (leap_spec y)|destruct ((m + 1 =? 4) || (m + 1 =? 6) || (m + 1 =? 9) || (m + 1 =? 11))]; lia.
    + assert (m = 12) by lia. subst m. split.
      * unfold day_number, ymd2ord. rewrite dby_succ.
        unfold days_before_month. rewrite !leap_same. subst d. unfold days_in_month. simpl.
        destruct (leap_spec y); simpl; lia.
      * unfold valid_date, days_in_month; simpl. lia.
Qed.

Lemma local_secs_epoch us off : local_secs (mkdt 1970 1 1 0 0 0 us off) = 0.
Proof. vm_compute. reflexivity. Qed.

Lemma local_secs_next t : dt_valid t ->
  local_secs (dt_next_second t) = local_secs t + 1 /\ dt_valid (dt_next_second t) /\
  dt_off (dt_next_second t) = dt_off t /\ dt_us (dt_next_second t) = dt_us t.
Proof.
  destruct t as [y mo d h mi s us off]. unfold dt_valid, local_secs, dt_next_second.
  cbn [dt_y dt_mo dt_d dt_h dt_mi dt_s dt_us dt_off].
  intros (Hd & Hh & Hmi & Hs & Hus).
  pose proof Hd as [Hd1 Hd2].
  destruct (s <? 59) eqn:E1;
    [cbn [dt_y dt_mo dt_d dt_h dt_mi dt_s dt_us dt_off]; unfold timegm; repeat split; try lia|].
  destruct (mi <? 59) eqn:E2;
    [cbn [dt_y dt_mo dt_d dt_h dt_mi dt_s dt_us dt_off]; unfold timegm; repeat split; try lia|].
  destruct (h <? 23) eqn:E3;
    [cbn [dt_y dt_mo dt_d dt_h dt_mi dt_s dt_us dt_off]; unfold timegm; repeat split; try lia|].
  pose proof (day_number_next y mo d Hd) as N.
  destruct (next_day y mo d) as [[y' mo'] d']. destruct N as [N V].
  cbn [dt_y dt_mo dt_d dt_h dt_mi dt_s dt_us dt_off]. unfold timegm.
  repeat split; try lia; apply V.
Qed.

Lemma dt_plus_spec n t : dt_valid t ->
  local_secs (dt_plus n t) = local_secs t + Z.of_nat n /\ dt_valid (dt_plus n t) /\
  dt_off (dt_plus n t) = dt_off t /\ dt_us (dt_plus n t) = dt_us t.
Proof.
  intro V. induction n as [|n IH].
  - cbn [dt_plus]. split; [lia|]. split; [exact V|]. split; reflexivity.
  - destruct IH as (A & B & C & D). cbn [dt_plus].
    destruct (local_secs_next _ B) as (A' & B' & C' & D').
    split; [rewrite A', A; lia|]. split; [exact B'|]. split; congruence.
Qed.

Lemma local_secs_with_off t o : local_secs (dt_with_off t o) = local_secs t.
Proof. unfold local_secs, dt_with_off. cbn [dt_y dt_mo dt_d dt_h dt_mi dt_s dt_us dt_off]. reflexivity. Qed.

Lemma numericdate_east n t : dt_valid t -> numericdate (dt_east n t) = numericdate t.
Proof.
  intro V. unfold dt_east. destruct (dt_off t) as [o|] eqn:E; [|reflexivity].
  destruct (dt_plus_spec n t V) as (A & _).
  unfold numericdate. rewrite local_secs_with_off, E.
  unfold dt_with_off at 1. cbn [dt_y dt_mo dt_d dt_h dt_mi dt_s dt_us dt_off].
  rewrite A. replace (local_secs t + Z.of_nat n - (o + Z.of_nat n)) with (local_secs t - o) by lia.
  reflexivity.
Qed.

Lemma dt_east_valid n t : dt_valid t -> dt_valid (dt_east n t).
Proof.
  intro V. unfold dt_east. destruct (dt_off t); [|exact V].
  destruct (dt_plus_spec n t V) as (_ & B & _). exact B.
Qed.

Lemma numericdate_floor t n : dt_valid t -> numericdate t = Ok n ->
  n * 1000000 <= exact_us local_secs t < (n + 1) * 1000000.
Proof.
  intros (_ & _ & _ & _ & Hus). unfold numericdate, exact_us.
  destruct (dt_off t) as [o|].
  - destruct ((local_secs t - o <? min_secs) || (max_secs <? local_secs t - o)); [discriminate|].
    intro H; injection H as <-. lia.
  - intro H; injection H as <-. lia.
Qed.

(* any function that is 0 at the epoch reading and grows by one per wall-clock
   second agrees with local_secs on every reading reachable from a common point *)
Lemma local_secs_unique (f : dtime -> Z) :
  (forall t, dt_valid t -> f (dt_next_second t) = f t + 1) ->
  forall t n, dt_valid t -> f t = local_secs t -> f (dt_plus n t) = local_secs (dt_plus n t).
Proof.
  intros F t n V E. induction n as [|n IH]; [exact E|].
  destruct (dt_plus_spec n t V) as (_ & B & _).
  cbn [dt_plus]. rewrite (F _ B), IH. destruct (local_secs_next _ B) as (A' & _). lia.
Qed.

Definition dbm_fn (m : Z) : Z :=
  match m with 1 => 0 | 2 => 31 | 3 => 59 | 4 => 90 | 5 => 120 | 6 => 151 | 7 => 181
             | 8 => 212 | 9 => 243 | 10 => 273 | 11 => 304 | 12 => 334 | _ => 0 end.
Lemma dbm_eq m : 1 <= m <= 12 -> nth (Z.to_nat (m - 1)) dbm_table 0 = dbm_fn m.
Proof.
  intro H. apply month_cases in H.
  destruct H as [-> | [-> | [-> | [-> | [-> | [-> | [-> | [-> | [-> | [-> | [-> | ->]]]]]]]]]]]; vm_compute; reflexivity.
Qed.

(* valid readings of years 1..9999 are inside the datetime range *)
Lemma dby_mono a b : a <= b -> days_before_year a <= days_before_year b.
Proof. unfold days_before_year. intros. Z.div_mod_to_equations. lia. Qed.

Lemma local_secs_range t : dt_valid t -> 1 <= dt_y t <= 9999 ->
  min_secs <= local_secs t <= max_secs.
Proof.
  destruct t as [y mo d h mi s us off]. unfold dt_valid, valid_date; simpl.
  intros ((Hm & Hd) & Hh & Hmi & Hs & _) Hy.
  assert (L1 : days_before_year 1 <= days_before_year y) by (apply dby_mono; lia).
  assert (L2 : days_before_year y <= days_before_year 9999) by (apply dby_mono; lia).
  assert (L3 : days_before_year (y+1) <= days_before_year 10000) by (apply dby_mono; lia).
  rewrite dby_succ in L3.
  assert (E1 : days_before_year 1 = 0) by (vm_compute; reflexivity).
  assert (E2 : days_before_year 9999 = 3651694) by (vm_compute; reflexivity).
  assert (E3 : days_before_year 10000 = 3652059) by (vm_compute; reflexivity).
  assert (E4 : min_secs = -62135596800) by (vm_compute; reflexivity).
  assert (E5 : max_secs = 253402300799) by (vm_compute; reflexivity).
  assert (E6 : epoch_ord = 719163) by (vm_compute; reflexivity).
  rewrite E1 in L1. rewrite E2 in L2. rewrite E3 in L3. rewrite E4, E5.
  unfold local_secs. cbn [dt_y dt_mo dt_d dt_h dt_mi dt_s].
  unfold timegm, day_number, ymd2ord. rewrite E6.
  unfold days_before_month. rewrite leap_same, (dbm_eq mo Hm).
  apply month_cases in Hm.
  unfold days_in_month in Hd.
  destruct Hm as [-> | [-> | [-> | [-> | [-> | [-> | [-> | [-> | [-> | [-> | [-> | ->]]]]]]]]]]];
  cbn in Hd |- *; destruct (leap_spec y); cbn in Hd |- *; lia.
Qed.

Lemma numericdate_naive t : dt_off t = None -> numericdate t = Ok (local_secs t).
Proof. unfold numericdate. intros ->. reflexivity. Qed.

Lemma numericdate_aware t o : dt_valid t -> dt_off t = Some o ->
  min_secs <= local_secs t - o <= max_secs -> numericdate t = Ok (local_secs t - o).
Proof.
  unfold numericdate. intros _ -> R.
  destruct ((local_secs t - o <? min_secs) || (max_secs <? local_secs t - o)) eqn:E; [lia|reflexivity].
Qed.

Lemma numericdate_utc t : dt_valid t -> 1 <= dt_y t <= 9999 ->
  numericdate (dt_with_off t (Some 0)) = numericdate (dt_with_off t None).
Proof.
  intros V Y. pose proof (local_secs_range t V Y).
  unfold numericdate. rewrite !local_secs_with_off. unfold dt_with_off. cbn [dt_y dt_mo dt_d dt_h dt_mi dt_s dt_us dt_off].
  replace (local_secs t - 0) with (local_secs t) by lia.
  destruct ((local_secs t <? min_secs) || (max_secs <? local_secs t)) eqn:E; [lia|reflexivity].
Qed.

Lemma numericdate_only_overflow t e : numericdate t = Err e -> e = EOverflow /\ dt_off t <> None.
Proof.
  unfold numericdate. destruct (dt_off t) as [o|]; [|discriminate].
  destruct ((local_secs t - o <? min_secs) || (max_secs <? local_secs t - o)); [|discriminate].
  intro H; injection H as <-. split; [reflexivity|discriminate].
Qed.

Lemma numericdate_naive_utc t : dt_valid t -> 1 <= dt_y t <= 9999 ->
  numericdate (dt_with_off t (Some 0)) = numericdate (dt_with_off t None) /\
  numericdate (dt_with_off t None) = Ok (local_secs t).
Proof.
  intros V Y. split; [exact (numericdate_utc t V Y)|].
  rewrite numericdate_naive; [|reflexivity]. rewrite local_secs_with_off. reflexivity.
Qed.

Lemma numericdate_same_instant n t : dt_valid t ->
  numericdate (dt_east n t) = numericdate t /\ dt_valid (dt_east n t).
Proof. intro V. split; [exact (numericdate_east n t V) | exact (dt_east_valid n t V)]. Qed.

Lemma numericdate_instances :
  numericdate (mkdt 2024 2 29 23 30 0 999999 (Some (-3600))) = Ok 1709253000 /\
  numericdate (mkdt 2024 3 1 0 30 0 0 (Some 0)) = Ok 1709253000 /\
  numericdate (mkdt 2024 3 1 6 15 0 5 (Some 20700)) = Ok 1709253000 /\
  numericdate (mkdt 2024 3 1 0 30 0 0 None) = Ok 1709253000 /\
  numericdate (mkdt 1969 12 31 23 59 59 500000 None) = Ok (-1) /\
  numericdate (mkdt 2100 3 1 0 0 0 0 None) = Ok 4107542400 /\
  numericdate (mkdt 1 1 1 0 0 0 0 (Some 3600)) = Err EOverflow /\
  dt_east 3600 (mkdt 2024 2 29 23 30 0 5 (Some (-3600))) = mkdt 2024 3 1 0 30 0 5 (Some 0).
Proof. vm_compute. repeat split; reflexivity. Qed.

Lemma dt_valid_instance : dt_valid (mkdt 2024 2 29 23 30 0 999999 (Some (-3600))).
Proof. unfold dt_valid, valid_date. vm_compute. repeat split; discriminate. Qed.
