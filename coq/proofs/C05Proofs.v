(* C05Proofs.v — lemmas about the allow-list gate model (model/C05Model.v). *)
From Coq Require Import Lia.
From Model Require Import Base PyVal TableTypes C05Model.
From Gen Require Import Tables.
Open Scope N_scope.

(* ---------- Python membership on strings ---------- *)
Lemma py_eq_str_r : forall y n, py_eq y (PStr n) = true <-> y = PStr n.
Proof.
  intros y n. destruct y; simpl; split; intro H; try discriminate; try (inversion H; fail).
  - apply str_eqb_eq in H. subst. reflexivity.
  - inversion H. apply str_eqb_refl.
Qed.

Lemma list_contains_In : forall l n, list_contains l (PStr n) = true <-> In (PStr n) l.
Proof.
  intros l n. unfold list_contains. rewrite existsb_exists. split.
  - intros [y [Hy E]]. apply py_eq_str_r in E. subst. exact Hy.
  - intro H. exists (PStr n). split; [exact H | apply py_eq_str_r; reflexivity].
Qed.

Lemma dmem_keys : forall ks n, dmem (map (fun k : str => (k, PNone)) ks) n = str_mem n ks.
Proof.
  intros ks n. unfold dmem. induction ks as [|k ks IH]; simpl.
  - reflexivity.
  - destruct (str_eqb k n); simpl; [reflexivity | exact IH].
Qed.

Lemma py_in_keys_str : forall ks n, py_in (PStr n) (keys_dict ks) = Ok (str_mem n ks).
Proof. intros. unfold keys_dict. simpl. rewrite dmem_keys. reflexivity. Qed.


(* ---------- find_row ---------- *)
Section Rows.
  Context {R : Type} (f : R -> string).

  Lemma find_row_mem : forall tbl s,
    str_mem s (row_names f tbl) = match find_row f tbl s with Some _ => true | None => false end.
  Proof.
    induction tbl as [|r t IH]; intro s; simpl.
    - reflexivity.
    - destruct (str_eqb (nm (f r)) s); simpl; [reflexivity | apply IH].
  Qed.

  Lemma find_row_sound : forall tbl s r, find_row f tbl s = Some r -> nm (f r) = s /\ In r tbl.
  Proof.
    induction tbl as [|x t IH]; intros s r H; simpl in H.
    - discriminate.
    - destruct (str_eqb (nm (f x)) s) eqn:E.
      + inversion H; subst. apply str_eqb_eq in E. split; [exact E | left; reflexivity].
      + destruct (IH _ _ H) as [A B]. split; [exact A | right; exact B].
  Qed.

  Lemma find_row_none : forall tbl s, find_row f tbl s = None <-> ~ In s (row_names f tbl).
  Proof.
    intros tbl s. rewrite <- str_mem_In, find_row_mem.
    destruct (find_row f tbl s); split; intro H; try reflexivity; try discriminate.
    exfalso. apply H. reflexivity.
  Qed.

  Lemma find_row_some : forall tbl s, In s (row_names f tbl) <-> exists r, find_row f tbl s = Some r.
  Proof.
    intros tbl s. rewrite <- str_mem_In, find_row_mem.
    destruct (find_row f tbl s) as [r|]; split; intro H; try reflexivity; try discriminate.
    - exists r. reflexivity.
    - destruct H as [r H]. discriminate.
  Qed.

  (* ---------- the gate on string names, well-typed allow-lists ---------- *)
  Lemma check_algorithm_str : forall a rec keys n,
    check_algorithm (pv_of_allowed a) rec keys (PStr n) =
    if str_mem n keys && list_contains (effective a rec) (PStr n) then Ok tt else unsupported.
  Proof.
    intros a rec keys n. unfold check_algorithm. simpl is_str. simpl negb. cbv iota.
    rewrite py_in_keys_str. simpl bind.
    destruct (str_mem n keys); simpl; [|reflexivity].
    destruct a as [[|x l]|]; simpl;
      match goal with |- (if ?b then _ else _) = _ => destruct b; reflexivity end.
  Qed.

  Lemma get_row_str : forall tbl a rec n,
    get_row f tbl (pv_of_allowed a) rec (PStr n) =
    match find_row f tbl n with
    | Some r => if list_contains (effective a rec) (PStr n) then Ok r else unsupported
    | None => unsupported
    end.
  Proof.
    intros tbl a rec n. unfold get_row. rewrite check_algorithm_str, find_row_mem.
    destruct (find_row f tbl n) as [r|]; simpl; [|reflexivity].
    destruct (list_contains (effective a rec) (PStr n)); reflexivity.
  Qed.

  (* characterisation: exactly the supported names of the effective allow-list *)
  Lemma get_row_iff : forall tbl a rec n m,
    get_row f tbl (pv_of_allowed a) rec (PStr n) = Ok m <->
    (find_row f tbl n = Some m /\ In (PStr n) (effective a rec)).
  Proof.
    intros tbl a rec n m. rewrite get_row_str, <- list_contains_In.
    destruct (find_row f tbl n) as [r|]; [destruct (list_contains (effective a rec) (PStr n))|];
      split; intro H; try discriminate; try (destruct H; discriminate).
    - inversion H; subst. split; reflexivity.
    - destruct H as [H1 _]. inversion H1; reflexivity.
  Qed.

  Lemma get_row_else : forall tbl a rec n,
    (exists m, get_row f tbl (pv_of_allowed a) rec (PStr n) = Ok m) \/
    get_row f tbl (pv_of_allowed a) rec (PStr n) = unsupported.
  Proof.
    intros. rewrite get_row_str. destruct (find_row f tbl n) as [r|]; [|right; reflexivity].
    destruct (list_contains (effective a rec) (PStr n)); [left; exists r; reflexivity | right; reflexivity].
  Qed.

  (* whatever the allow-list value is (even ill-typed): only supported names pass *)
  Lemma get_row_supported : forall tbl allowed rec name m,
    get_row f tbl allowed rec name = Ok m ->
    exists s, name = PStr s /\ find_row f tbl s = Some m.
  Proof.
    intros tbl allowed rec name m H. unfold get_row in H.
    destruct (check_algorithm allowed rec (row_names f tbl) name); simpl in H; [|discriminate].
    destruct name; try discriminate.
    destruct (find_row f tbl s) eqn:E; [|discriminate]. inversion H; subst.
    exists s. split; [reflexivity | exact E].
  Qed.

  (* names that are not strings never pass: the unsupported-algorithm error *)
  Lemma get_row_nonstr : forall tbl allowed rec name, is_str name = false ->
    get_row f tbl allowed rec name = unsupported.
  Proof.
    intros tbl allowed rec name H. unfold get_row, check_algorithm. rewrite H. reflexivity.
  Qed.

  (* an empty list and None select the same branch *)
  Lemma get_row_empty_list : forall tbl rec name,
    get_row f tbl (PList []) rec name = get_row f tbl PNone rec name.
  Proof. reflexivity. Qed.

  (* the literal ("strict") reading coincides except for the empty list *)
  Lemma effective_strict_same : forall a rec, a <> Some [] -> effective_strict a rec = effective a rec.
  Proof. intros [[|x l]|] rec H; try reflexivity. exfalso; apply H; reflexivity. Qed.
End Rows.

(* ---------- gate_all ---------- *)
Lemma gate_all_iff : forall {R} (g : pv -> res R) names rows,
  gate_all g names = Ok rows <-> Forall2 (fun n r => g n = Ok r) names rows.
Proof.
  intros R g. induction names as [|n t IH]; intros rows; simpl.
  - split; intro H; [inversion H; constructor | inversion H; reflexivity].
  - split; intro H.
    + destruct (g n) as [r|e] eqn:E; simpl in H; [|discriminate].
      destruct (gate_all g t) as [rs|e] eqn:E2; simpl in H; [|discriminate].
      inversion H; subst. constructor; [exact E | apply IH; reflexivity].
    + inversion H as [|n' r t' rs Hn Ht]; subst. rewrite Hn. simpl.
      apply IH in Ht. rewrite Ht. reflexivity.
Qed.

Lemma gate_all_ext : forall {R} (g h : pv -> res R) names,
  (forall n, g n = h n) -> gate_all g names = gate_all h names.
Proof.
  intros R g h names E. induction names as [|n t IH]; simpl; [reflexivity|].
  rewrite E, IH. reflexivity.
Qed.

Lemma Forall2_imp : forall {A B} (P Q : A -> B -> Prop),
  (forall a b, P a b -> Q a b) -> forall l m, Forall2 P l m -> Forall2 Q l m.
Proof. intros A B P Q H l m F. induction F; constructor; auto. Qed.

Lemma Forall2_In_l : forall {A B} (P : A -> B -> Prop) l m x,
  Forall2 P l m -> In x l -> exists y, In y m /\ P x y.
Proof.
  intros A B P l m x H. induction H as [|a b l m Hab H IH]; intro I.
  - destruct I.
  - destruct I as [I|I].
    + subst. exists b. split; [left; reflexivity | exact Hab].
    + destruct (IH I) as [y [Hy Py]]. exists y. split; [right; exact Hy | exact Py].
Qed.

(* ---------- registry selection against the Spec ---------- *)
Definition opt_pv (r : option (option (list pv))) : option pv := option_map pv_of_allowed r.

Lemma jws_gate_select : forall w k a r n, w_jws_def w = PNone ->
  jws_get_alg w (jws_entry_select w k (pv_of_allowed a) (opt_pv r)) n =
  jws_get_alg w (pv_of_allowed (spec_jws_choice a r)) n.
Proof.
  intros w k a r n D. unfold jws_entry_select, jws_select, construct_registry, spec_jws_choice, opt_pv.
  destruct r as [x|]; simpl.
  - destruct k as [|[|]]; reflexivity.
  - rewrite D. destruct k as [|[|]]; destruct a as [[|y l]|]; reflexivity.
Qed.

Lemma jwe_select_spec : forall w a r, w_jwe_def w = PNone ->
  jwe_select w (pv_of_allowed a) (opt_pv r) = pv_of_allowed (spec_jwe_choice a r).
Proof.
  intros w a r D. unfold jwe_select, spec_jwe_choice, opt_pv.
  destruct a as [[|y l]|]; simpl; try reflexivity; destruct r as [x|]; simpl; try reflexivity; exact D.
Qed.

(* ---------- entry points ---------- *)
Definition jws_name_ok (w : world) (eff : option (list pv)) (n : pv) (row : jws_alg_row) : Prop :=
  exists s, n = PStr s /\ find_row ja_name (w_jws w) s = Some row /\
            In n (effective eff (w_jws_rec w)).

Lemma jws_member_gate_iff : forall w eff n row,
  jws_member_gate w (pv_of_allowed eff) n = Ok row <-> jws_name_ok w eff n row.
Proof.
  intros w eff n row. unfold jws_member_gate, jws_name_ok, hdr_str, jws_get_alg. split.
  - intro H. destruct n; simpl in H; try discriminate.
    apply get_row_iff in H. exists s. split; [reflexivity | exact H].
  - intros [s [E H]]. subst. simpl. apply get_row_iff. exact H.
Qed.

Lemma jws_entry_iff : forall w k a r algs rows, w_jws_def w = PNone ->
  jws_entry w k (pv_of_allowed a) (opt_pv r) algs = Ok rows <->
  Forall2 (jws_name_ok w (spec_jws_choice a r)) algs rows.
Proof.
  intros w k a r algs rows D. unfold jws_entry.
  rewrite (gate_all_ext _ (jws_member_gate w (pv_of_allowed (spec_jws_choice a r)))).
  - rewrite gate_all_iff. split; intro H; (eapply Forall2_imp; [|exact H]);
      intros x y; apply jws_member_gate_iff.
  - intro n. unfold jws_member_gate. destruct (hdr_str n); simpl; [|reflexivity].
    apply jws_gate_select. exact D.
Qed.

Lemma gate_all_class : forall {R} (g : pv -> res R) names,
  (forall n, In n names -> (exists r, g n = Ok r) \/ g n = unsupported) ->
  (exists rows, gate_all g names = Ok rows) \/ gate_all g names = unsupported.
Proof.
  intros R g. induction names as [|n t IH]; intro H; simpl.
  - left. exists []. reflexivity.
  - destruct (H n (or_introl eq_refl)) as [[r E]|E]; rewrite E; simpl; [|right; reflexivity].
    destruct IH as [[rs E2]|E2]; [intros; apply H; right; assumption | |]; rewrite E2; simpl.
    + left. exists (r :: rs). reflexivity.
    + right. reflexivity.
Qed.

Lemma jws_entry_class : forall w k a r algs, w_jws_def w = PNone ->
  Forall (fun n => is_str n = true) algs ->
  (exists rows, jws_entry w k (pv_of_allowed a) (opt_pv r) algs = Ok rows) \/
  jws_entry w k (pv_of_allowed a) (opt_pv r) algs = unsupported.
Proof.
  intros w k a r algs D F. unfold jws_entry. apply gate_all_class.
  intros n I. rewrite Forall_forall in F. specialize (F n I).
  destruct n; try discriminate. unfold jws_member_gate. simpl.
  rewrite jws_gate_select by exact D. apply get_row_else.
Qed.

Definition jwe_alg_ok (w : world) (eff : option (list pv)) (n : pv) (row : jwe_alg_row) : Prop :=
  exists s, n = PStr s /\ find_row ea_name (w_alg w) s = Some row /\
            In n (effective eff (w_jwe_rec w)).
Definition jwe_enc_ok (w : world) (eff : option (list pv)) (n : pv) (row : jwe_enc_row) : Prop :=
  exists s, n = PStr s /\ find_row ee_name (w_enc w) s = Some row /\
            In n (effective eff (w_jwe_rec w)).
Definition jwe_zip_ok (w : world) (eff : option (list pv)) (z : option pv) (row : option jwe_zip_row) : Prop :=
  match z, row with
  | None, None => True
  | Some n, Some r => exists s, n = PStr s /\ find_row ez_name (w_zip w) s = Some r /\
                                In n (effective eff (w_jwe_rec w))
  | _, _ => False
  end.

Lemma jwe_enc_gate_iff : forall w eff n row,
  jwe_get_enc w (pv_of_allowed eff) n = Ok row <-> jwe_enc_ok w eff n row.
Proof.
  intros w eff n row. unfold jwe_enc_ok, jwe_get_enc. split.
  - intro H. destruct (get_row_supported _ _ _ _ _ _ H) as [s [E _]]. subst.
    apply get_row_iff in H. exists s. split; [reflexivity | exact H].
  - intros [s [E H]]. subst. apply get_row_iff. exact H.
Qed.

Lemma jwe_zip_gate_iff : forall w eff z row,
  jwe_zip_gate w (pv_of_allowed eff) z = Ok row <-> jwe_zip_ok w eff z row.
Proof.
  intros w eff z row. unfold jwe_zip_gate, jwe_zip_ok, jwe_get_zip.
  destruct z as [n|]; destruct row as [r|]; split; intro H; try discriminate; try tauto;
    try reflexivity.
  - destruct (get_row ez_name (w_zip w) (pv_of_allowed eff) (w_jwe_rec w) n) as [x|e] eqn:E;
      simpl in H; [|discriminate]. inversion H; subst.
    destruct (get_row_supported _ _ _ _ _ _ E) as [s [E1 _]]. subst.
    apply get_row_iff in E. exists s. split; [reflexivity | exact E].
  - destruct H as [s [E H]]. subst. apply get_row_iff in H. rewrite H. reflexivity.
  - destruct (get_row ez_name (w_zip w) (pv_of_allowed eff) (w_jwe_rec w) n); simpl in H; discriminate.
Qed.

Lemma jwe_recipient_gate_iff : forall w eff enc zip n row,
  is_str enc = true -> match zip with Some z => is_str z = true | None => True end ->
  (jwe_recipient_gate w (pv_of_allowed eff) enc zip n = Ok row <-> jwe_alg_ok w eff n row).
Proof.
  intros w eff enc zip n row He Hz. unfold jwe_recipient_gate, hdr_str, jwe_alg_ok, jwe_get_alg.
  rewrite He. simpl. assert (Z : match zip with Some z => if is_str z then Ok tt else Err EValue | None => Ok tt end = Ok tt).
  { destruct zip as [z|]; [rewrite Hz|]; reflexivity. }
  rewrite Z. simpl. split.
  - intro H. destruct n; simpl in H; try discriminate.
    apply get_row_iff in H. exists s. split; [reflexivity | exact H].
  - intros [s [E H]]. subst. simpl. apply get_row_iff. exact H.
Qed.

Lemma jwe_entry_iff : forall w a r enc algs zip e rs z, w_jwe_def w = PNone ->
  jwe_entry w (pv_of_allowed a) (opt_pv r) enc algs zip = Ok (e, rs, z) <->
  (jwe_enc_ok w (spec_jwe_choice a r) enc e /\
   Forall2 (jwe_alg_ok w (spec_jwe_choice a r)) algs rs /\
   jwe_zip_ok w (spec_jwe_choice a r) zip z).
Proof.
  intros w a r enc algs zip e rs z D. unfold jwe_entry.
  rewrite jwe_select_spec by exact D. set (eff := spec_jwe_choice a r).
  split.
  - intro H.
    destruct (jwe_get_enc w (pv_of_allowed eff) enc) as [e'|x] eqn:E1; simpl in H; [|discriminate].
    destruct (gate_all (jwe_recipient_gate w (pv_of_allowed eff) enc zip) algs) as [rs'|x] eqn:E2;
      simpl in H; [|discriminate].
    destruct (jwe_zip_gate w (pv_of_allowed eff) zip) as [z'|x] eqn:E3; simpl in H; [|discriminate].
    inversion H; subst.
    apply jwe_enc_gate_iff in E1. apply jwe_zip_gate_iff in E3.
    split; [exact E1 | split; [|exact E3]].
    assert (He : is_str enc = true) by (destruct E1 as [s [E _]]; subst; reflexivity).
    assert (Hz : match zip with Some z0 => is_str z0 = true | None => True end).
    { destruct zip as [z0|]; [|exact I]. destruct z as [r0|]; simpl in E3; [|contradiction].
      destruct E3 as [s [E _]]. subst. reflexivity. }
    apply gate_all_iff in E2. eapply Forall2_imp; [|exact E2].
    intros x y. apply jwe_recipient_gate_iff; assumption.
  - intros [E1 [E2 E3]].
    assert (He : is_str enc = true) by (destruct E1 as [s [E _]]; subst; reflexivity).
    assert (Hz : match zip with Some z0 => is_str z0 = true | None => True end).
    { destruct zip as [z0|]; [|exact I]. destruct z as [r0|]; simpl in E3; [|contradiction].
      destruct E3 as [s [E _]]. subst. reflexivity. }
    apply jwe_enc_gate_iff in E1. rewrite E1. simpl.
    assert (G : gate_all (jwe_recipient_gate w (pv_of_allowed eff) enc zip) algs = Ok rs).
    { apply gate_all_iff. eapply Forall2_imp; [|exact E2].
      intros x y. apply jwe_recipient_gate_iff; assumption. }
    rewrite G. simpl. apply jwe_zip_gate_iff in E3. rewrite E3. reflexivity.
Qed.

Lemma jwe_entry_class : forall w a r enc algs zip, w_jwe_def w = PNone ->
  is_str enc = true -> Forall (fun n => is_str n = true) algs ->
  match zip with Some z => is_str z = true | None => True end ->
  (exists t, jwe_entry w (pv_of_allowed a) (opt_pv r) enc algs zip = Ok t) \/
  jwe_entry w (pv_of_allowed a) (opt_pv r) enc algs zip = unsupported.
Proof.
  intros w a r enc algs zip D He Fa Hz. unfold jwe_entry.
  rewrite jwe_select_spec by exact D. set (eff := spec_jwe_choice a r).
  destruct enc as [| | | |se| | |]; try discriminate.
  unfold jwe_get_enc.
  destruct (get_row_else ee_name (w_enc w) eff (w_jwe_rec w) se) as [[m E]|E]; rewrite E; simpl;
    [|right; reflexivity].
  assert (G : (exists rows, gate_all (jwe_recipient_gate w (pv_of_allowed eff) (PStr se) zip) algs = Ok rows) \/
              gate_all (jwe_recipient_gate w (pv_of_allowed eff) (PStr se) zip) algs = unsupported).
  { apply gate_all_class. intros n I. rewrite Forall_forall in Fa. specialize (Fa n I).
    destruct n; try discriminate. unfold jwe_recipient_gate, hdr_str. simpl.
    assert (Z : match zip with Some z => if is_str z then Ok tt else Err EValue | None => Ok tt end = Ok tt).
    { destruct zip as [z|]; [rewrite Hz|]; reflexivity. }
    rewrite Z. simpl. unfold jwe_get_alg. apply get_row_else. }
  destruct G as [[rows G]|G]; rewrite G; simpl; [|right; reflexivity].
  destruct zip as [z|]; simpl.
  - destruct z; try discriminate. unfold jwe_get_zip.
    destruct (get_row_else ez_name (w_zip w) eff (w_jwe_rec w) s) as [[mz E2]|E2]; rewrite E2; simpl.
    + left. eexists. reflexivity.
    + right. reflexivity.
  - left. eexists. reflexivity.
Qed.

(* ---------- gates come before any cryptographic result ---------- *)
Lemma bind_ok : forall {A B} (m : res A) (k : A -> res B) y,
  bind m k = Ok y -> exists x, m = Ok x /\ k x = Ok y.
Proof. intros A B [x|e] k y H; simpl in H; [exists x; auto | discriminate]. Qed.

Lemma jws_op_gated : forall X (crypto : list jws_alg_row -> res X) w k a r algs x,
  jws_op X crypto w k a r algs = Ok x ->
  exists rows, jws_entry w k a r algs = Ok rows /\ crypto rows = Ok x.
Proof. intros. unfold jws_op in H. apply bind_ok in H. exact H. Qed.

Lemma jwe_encrypt_op_gated : forall K X km ce w a r enc algs zip x,
  jwe_encrypt_op K X km ce w a r enc algs zip = Ok x ->
  exists t, jwe_entry w a r enc algs zip = Ok t.
Proof.
  intros K X km ce w a r enc algs zip x H. unfold jwe_encrypt_op in H. unfold jwe_entry.
  apply bind_ok in H. destruct H as [e [E1 H]]. rewrite E1. simpl.
  apply bind_ok in H. destruct H as [rs [E2 H]]. rewrite E2. simpl.
  apply bind_ok in H. destruct H as [k [_ H]].
  apply bind_ok in H. destruct H as [z [E3 _]]. rewrite E3. simpl.
  eexists. reflexivity.
Qed.

Lemma jwe_decrypt_op_gated : forall K M X km cd dz w a r enc algs zip x,
  jwe_decrypt_op K M X km cd dz w a r enc algs zip = Ok x ->
  exists t, jwe_entry w a r enc algs zip = Ok t.
Proof.
  intros K M X km cd dz w a r enc algs zip x H. unfold jwe_decrypt_op in H. unfold jwe_entry.
  apply bind_ok in H. destruct H as [e [E1 H]]. rewrite E1. simpl.
  apply bind_ok in H. destruct H as [rs [E2 H]]. rewrite E2. simpl.
  apply bind_ok in H. destruct H as [k [_ H]].
  apply bind_ok in H. destruct H as [m [_ H]].
  apply bind_ok in H. destruct H as [z [E3 _]]. rewrite E3. simpl.
  eexists. reflexivity.
Qed.

(* ---------- none ---------- *)
Lemma alg_verify_none : forall crypto r, is_none_row r = true -> alg_verify crypto r = false.
Proof. intros crypto r H. unfold alg_verify. rewrite H. reflexivity. Qed.

Lemma none_row_w0 : forall m, find_row ja_name (w_jws w0) (nm "none") = Some m -> is_none_row m = true.
Proof.
  intros m H. vm_compute in H. inversion H. reflexivity.
Qed.

Lemma none_members : forall crypto sel algs,
  In (pname "none") algs -> jws_verify_members crypto w0 sel algs <> Ok true.
Proof.
  intros crypto sel. induction algs as [|n t IH]; intros I H; [destruct I|].
  simpl in H. apply bind_ok in H. destruct H as [row [G H]].
  destruct (alg_verify crypto row) eqn:V; [|discriminate].
  destruct I as [I|I]; [|exact (IH I H)].
  subst n. unfold jws_member_gate in G. simpl in G.
  apply get_row_supported in G. destruct G as [s [Es F]]. inversion Es; subst s.
  apply none_row_w0 in F. rewrite (alg_verify_none crypto row F) in V. discriminate.
Qed.

Lemma none_never_verifies : forall crypto k a r algs,
  In (pname "none") algs -> jws_verify_op crypto w0 k a r algs <> Ok tt.
Proof.
  intros crypto k a r algs I H. unfold jws_verify_op in H.
  apply bind_ok in H. destruct H as [ok [E H]].
  destruct ok; [|discriminate]. exact (none_members _ _ _ I E).
Qed.

(* a verification that succeeds passed every gate *)
Lemma verify_members_gated : forall crypto w sel algs,
  jws_verify_members crypto w sel algs = Ok true ->
  exists rows, gate_all (jws_member_gate w sel) algs = Ok rows /\ forallb (alg_verify crypto) rows = true.
Proof.
  intros crypto w sel. induction algs as [|n t IH]; intro H; simpl in *.
  - exists []. split; reflexivity.
  - apply bind_ok in H. destruct H as [row [G H]]. rewrite G. simpl.
    destruct (alg_verify crypto row) eqn:V; [|discriminate].
    destruct (IH H) as [rows [E F]]. rewrite E. simpl.
    exists (row :: rows). split; [reflexivity | simpl; rewrite V; exact F].
Qed.

Lemma verify_op_gated : forall crypto w k a r algs,
  jws_verify_op crypto w k a r algs = Ok tt ->
  exists rows, jws_entry w k a r algs = Ok rows /\ forallb (alg_verify crypto) rows = true.
Proof.
  intros crypto w k a r algs H. unfold jws_verify_op in H.
  apply bind_ok in H. destruct H as [ok [E H]]. destruct ok; [|discriminate].
  apply verify_members_gated in E. exact E.
Qed.

(* ---------- histories ---------- *)
Lemma step_frozen : forall w c, is_plain c = true -> snd (step w c) = w.
Proof. intros w c H. destruct c; simpl in *; try reflexivity; discriminate. Qed.

(* no call whatsoever changes a registry object of the caller *)
Lemma step_regs_kept : forall w c i o,
  nth_error (w_regs w) i = Some o -> nth_error (w_regs (snd (step w c))) i = Some o.
Proof.
  intros w c i o H. destruct c; simpl; try exact H.
  rewrite nth_error_app1; [exact H|]. apply nth_error_Some. rewrite H. discriminate.
Qed.

Lemma step_regs_plain : forall w c, is_new c = false -> w_regs (snd (step w c)) = w_regs w.
Proof. intros w c H. destruct c; simpl in *; try reflexivity; discriminate. Qed.

Lemma same_tables_refl : forall w, same_tables w w.
Proof. intro w. unfold same_tables. repeat split. Qed.
Lemma same_tables_trans : forall a b c, same_tables a b -> same_tables b c -> same_tables a c.
Proof.
  unfold same_tables. intros a b c H1 H2.
  destruct H1 as (A1&A2&A3&A4&A5&A6&A7&A8). destruct H2 as (B1&B2&B3&B4&B5&B6&B7&B8).
  repeat split; congruence.
Qed.

Lemma step_same_tables : forall w c, is_register c = false -> same_tables w (snd (step w c)).
Proof.
  intros w c H. destruct c; simpl in *; try discriminate; try apply same_tables_refl.
  unfold same_tables. simpl. repeat split.
Qed.

Definition no_registration (h : list call) : bool := forallb (fun c => negb (is_register c)) h.

Lemma run_cons : forall c t w, run (c :: t) w = run t (snd (step w c)).
Proof. reflexivity. Qed.

Lemma run_regs_kept : forall h w i o,
  nth_error (w_regs w) i = Some o -> nth_error (w_regs (run h w)) i = Some o.
Proof.
  induction h as [|c t IH]; intros w i o H; [exact H|].
  rewrite run_cons. apply IH. apply step_regs_kept. exact H.
Qed.

Lemma run_same_tables : forall h w, no_registration h = true -> same_tables w (run h w).
Proof.
  induction h as [|c t IH]; intros w H; [apply same_tables_refl|].
  simpl in H. apply andb_true_iff in H. destruct H as [H1 H2].
  rewrite run_cons. eapply same_tables_trans; [|apply IH; exact H2].
  apply step_same_tables. destruct (is_register c); [discriminate | reflexivity].
Qed.

(* the verdict of a call is a function of the class tables, the default registries
   and the registry objects the call refers to *)
Lemma ext_simple : forall w w', same_tables w w' ->
  (forall a n, jws_get_alg w' a n = jws_get_alg w a n) /\
  (forall l a n, jwe_get w' l a n = jwe_get w l a n) /\
  (forall k a r algs, jws_entry w' k a r algs = jws_entry w k a r algs) /\
  (forall a r e algs z, jwe_entry w' a r e algs z = jwe_entry w a r e algs z) /\
  (forall k a r, jws_entry_select w' k a r = jws_entry_select w k a r) /\
  (forall sel n, jws_member_gate w' sel n = jws_member_gate w sel n) /\
  w_jws_def w' = w_jws_def w /\ w_jwe_def w' = w_jwe_def w.
Proof.
  intros w w' T. destruct w as [g a1 a2 a3 a4 a5 a6 a7 a8]. destruct w' as [g' b1 b2 b3 b4 b5 b6 b7 b8].
  unfold same_tables in T. simpl in T. destruct T as (E1&E2&E3&E4&E5&E6&E7&E8). subst.
  split; [reflexivity|]. split; [reflexivity|]. split; [reflexivity|]. split; [reflexivity|].
  split; [reflexivity|]. split; [reflexivity|]. split; reflexivity.
Qed.

Lemma verify_op_ext : forall crypto w w' k a r algs, same_tables w w' ->
  jws_verify_op crypto w' k a r algs = jws_verify_op crypto w k a r algs.
Proof.
  intros crypto w w' k a r algs T. destruct (ext_simple w w' T) as (_&_&_&_&S&G&_&_).
  unfold jws_verify_op. rewrite S.
  assert (V : forall sel, jws_verify_members crypto w' sel algs = jws_verify_members crypto w sel algs).
  { intro sel. induction algs as [|n t IH]; simpl; [reflexivity|]. rewrite G, IH. reflexivity. }
  rewrite V. reflexivity.
Qed.

Lemma jwt_verdict_ext : forall w w' v a r alg enc zip, same_tables w w' ->
  jwt_verdict w' v a r alg enc zip = jwt_verdict w v a r alg enc zip.
Proof.
  intros w w' v a r alg enc zip T. destruct (ext_simple w w' T) as (_&_&J&E&_&_&_&_).
  unfold jwt_verdict, jwt_entry. destruct r; destruct v;
    rewrite ?(verify_op_ext good_sig w w') by exact T; rewrite ?J; try reflexivity;
    destruct enc; try reflexivity; rewrite E; reflexivity.
Qed.

Lemma verdict_ext : forall w w' c,
  same_tables w w' ->
  (forall i o, nth_error (w_regs w) i = Some o -> nth_error (w_regs w') i = Some o) ->
  refs_ok w c = true ->
  fst (step w' c) = fst (step w c).
Proof.
  intros w w' c T R K. destruct (ext_simple w w' T) as (GA&GE&J&E&_&_&D1&D2).
  assert (Q : forall i, Nat.ltb i (length (w_regs w)) = true -> nth_error (w_regs w') i = nth_error (w_regs w) i).
  { intros i L. apply PeanoNat.Nat.ltb_lt in L. destruct (nth_error (w_regs w) i) as [o|] eqn:Eo.
    - apply R. exact Eo.
    - apply nth_error_None in Eo. lia. }
  assert (RS : forall r, sel_ok w r = true -> resolve w' r = resolve w r).
  { intros r L. destruct r as [|cc aa|i]; try reflexivity. simpl in *. rewrite (Q _ L). reflexivity. }
  destruct c; simpl in K; simpl; try reflexivity.
  - rewrite GA. reflexivity.
  - rewrite GA, D1. reflexivity.
  - rewrite GE. reflexivity.
  - rewrite GE, D2. reflexivity.
  - rewrite (Q _ K). destruct (nth_error (w_regs w) i) as [o|]; [|reflexivity].
    destruct g; [rewrite GA | rewrite GE]; reflexivity.
  - unfold with_reg. rewrite (RS _ K). destruct (resolve w registry); simpl; [rewrite J|]; reflexivity.
  - unfold with_reg. rewrite (RS _ K). destruct (resolve w registry); simpl; [|reflexivity].
    rewrite (verify_op_ext good_sig w w') by exact T. reflexivity.
  - unfold with_reg. rewrite (RS _ K). destruct (resolve w registry); simpl; [rewrite E|]; reflexivity.
  - unfold with_reg. rewrite (RS _ K). destruct (resolve w registry); simpl; [|reflexivity].
    rewrite (jwt_verdict_ext w w') by exact T. reflexivity.
Qed.

Lemma history_independent : forall h c w,
  no_registration h = true -> refs_ok w c = true ->
  fst (step (run h w) c) = fst (step w c).
Proof.
  intros h c w H K. apply verdict_ext; [apply run_same_tables; exact H | | exact K].
  intros i o E. apply run_regs_kept. exact E.
Qed.

Definition is_effect (c : call) : bool := is_register c || is_new c.

Lemma run_effects_only : forall h w, run h w = run (filter is_effect h) w.
Proof.
  induction h as [|c t IH]; intro w; [reflexivity|].
  simpl filter. destruct (is_effect c) eqn:E.
  - rewrite !run_cons. apply IH.
  - rewrite run_cons, step_frozen; [apply IH|].
    unfold is_effect in E. unfold is_plain. apply orb_false_iff in E. destruct E as [E1 E2].
    rewrite E1, E2. reflexivity.
Qed.

Lemma run_frozen : forall h w, forallb is_plain h = true -> run h w = w.
Proof.
  intros h w H. rewrite run_effects_only.
  assert (F : filter is_effect h = []).
  { induction h as [|c t IH]; [reflexivity|]. simpl in *.
    apply andb_true_iff in H. destruct H as [H1 H2].
    unfold is_plain in H1. apply andb_true_iff in H1. destruct H1 as [A B].
    unfold is_effect. destruct (is_register c); [discriminate|]. destruct (is_new c); [discriminate|].
    simpl. apply IH. exact H2. }
  rewrite F. reflexivity.
Qed.

Lemma history_registers : forall h c w,
  step (run h w) c = step (run (filter is_effect h) w) c.
Proof. intros. rewrite run_effects_only. reflexivity. Qed.

Lemma verdicts_frozen : forall h w, forallb is_plain h = true ->
  verdicts h w = map (fun c => fst (step w c)) h.
Proof.
  induction h as [|c t IH]; intros w H; [reflexivity|]. simpl in *.
  apply andb_true_iff in H. destruct H as [H1 H2].
  rewrite step_frozen by exact H1. rewrite IH by exact H2. reflexivity.
Qed.

(* ---------- finite facts about Gen.Tables ---------- *)
Definition set_eqb (a b : list str) : bool :=
  forallb (fun x => str_mem x b) a && forallb (fun x => str_mem x a) b.

Lemma set_eqb_mem : forall a b, set_eqb a b = true -> forall n, str_mem n a = str_mem n b.
Proof.
  intros a b H n. unfold set_eqb in H. apply andb_true_iff in H. destruct H as [H1 H2].
  rewrite forallb_forall in H1, H2.
  destruct (str_mem n a) eqn:A; destruct (str_mem n b) eqn:B; try reflexivity.
  - apply str_mem_In in A. apply H1 in A. congruence.
  - apply str_mem_In in B. apply H2 in B. congruence.
Qed.

Lemma str_mem_filter : forall n keys l,
  str_mem n keys && str_mem n l = str_mem n (filter (fun s => str_mem s keys) l).
Proof.
  intros n keys l. induction l as [|x l IH]; simpl.
  - apply andb_false_r.
  - destruct (str_mem x keys) eqn:K; simpl.
    + destruct (str_eqb x n) eqn:E; simpl.
      * apply str_eqb_eq in E. subst. rewrite K. reflexivity.
      * exact IH.
    + destruct (str_eqb x n) eqn:E; simpl.
      * apply str_eqb_eq in E. subst. rewrite <- IH, K. reflexivity.
      * exact IH.
Qed.

Lemma list_contains_pnames : forall l n,
  list_contains (map pname l) (PStr n) = str_mem n (map nm l).
Proof.
  intros l n. unfold list_contains. induction l as [|x l IH]; simpl; [reflexivity|].
  rewrite IH. reflexivity.
Qed.

(* usable with the default (no list): supported and recommended *)
Lemma default_usable : forall {R} (f : R -> string) tbl rec lit,
  set_eqb (filter (fun s => str_mem s (row_names f tbl)) (map nm rec)) (map nm lit) = true ->
  forall n, (exists m, get_row f tbl PNone rec (PStr n) = Ok m) <-> In n (map nm lit).
Proof.
  intros R f tbl rec lit H n.
  rewrite <- str_mem_In, <- (set_eqb_mem _ _ H n), <- str_mem_filter, find_row_mem.
  change PNone with (pv_of_allowed None). rewrite get_row_str. simpl effective.
  rewrite list_contains_pnames.
  destruct (find_row f tbl n) as [r|]; simpl.
  - destruct (str_mem n (map nm rec)); split; intro Q; try discriminate; try reflexivity.
    + exists r. reflexivity.
    + destruct Q as [m Q]. discriminate.
  - split; intro Q; [destruct Q as [m Q]|]; discriminate.
Qed.

Definition jws_lit : list string := ["HS256"; "RS256"; "ES256"]%string.
Definition jwe_alg_lit : list string :=
  ["RSA-OAEP"; "A128KW"; "A256KW"; "dir"; "ECDH-ES"; "ECDH-ES+A128KW"; "ECDH-ES+A256KW"]%string.
Definition jwe_enc_lit : list string :=
  ["A128CBC-HS256"; "A192CBC-HS384"; "A256CBC-HS512"; "A128GCM"; "A192GCM"; "A256GCM"]%string.
Definition jwe_zip_lit : list string := ["DEF"]%string.

Lemma default_sel_jws : jws_select w0 PNone None = PNone /\ jws_entry_select w0 (K7797 true) PNone None = PNone.
Proof. vm_compute. split; reflexivity. Qed.
Lemma default_sel_jwe : jwe_select w0 PNone None = PNone.
Proof. vm_compute. reflexivity. Qed.
Lemma w0_defaults : w_jws_def w0 = PNone /\ w_jwe_def w0 = PNone /\ jws_default_allowed = None.
Proof. vm_compute. repeat split; reflexivity. Qed.

Lemma default_jws : forall n,
  (exists m, jws_get_alg w0 (jws_select w0 PNone None) (PStr n) = Ok m) <-> In n (map nm jws_lit).
Proof.
  rewrite (proj1 default_sel_jws). unfold jws_get_alg. apply default_usable. vm_compute. reflexivity.
Qed.
Lemma default_jwe_alg : forall n,
  (exists m, jwe_get_alg w0 (jwe_select w0 PNone None) (PStr n) = Ok m) <-> In n (map nm jwe_alg_lit).
Proof.
  rewrite default_sel_jwe. unfold jwe_get_alg. apply default_usable. vm_compute. reflexivity.
Qed.
Lemma default_jwe_enc : forall n,
  (exists m, jwe_get_enc w0 (jwe_select w0 PNone None) (PStr n) = Ok m) <-> In n (map nm jwe_enc_lit).
Proof.
  rewrite default_sel_jwe. unfold jwe_get_enc. apply default_usable. vm_compute. reflexivity.
Qed.
Lemma default_jwe_zip : forall n,
  (exists m, jwe_get_zip w0 (jwe_select w0 PNone None) (PStr n) = Ok m) <-> In n (map nm jwe_zip_lit).
Proof.
  rewrite default_sel_jwe. unfold jwe_get_zip. apply default_usable. vm_compute. reflexivity.
Qed.

(* the recommended lists are the flagged rows, in registration order; names are unique;
   the header registry validates enc, zip, alg (in this order) as strings *)
Definition flagged {R} (f : R -> string) (g : R -> bool) (tbl : list R) : list string :=
  map f (filter g tbl).
Lemma tables_consistent :
  jws_recommended = flagged ja_name ja_recommended jws_alg_table /\
  jwe_recommended = (flagged ea_name ea_recommended jwe_alg_table ++
                     flagged ee_name ee_recommended jwe_enc_table ++
                     flagged ez_name ez_recommended jwe_zip_table)%list /\
  keys_unique (row_names ja_name jws_alg_table) = true /\
  keys_unique (row_names ea_name jwe_alg_table) = true /\
  keys_unique (row_names ee_name jwe_enc_table) = true /\
  keys_unique (row_names ez_name jwe_zip_table) = true /\
  map ja_name (filter is_none_row jws_alg_table) = ["none"%string] /\
  map (fun h => (hp_name h, hp_kind h)) (firstn 3 jwe_header_registry) =
    [("enc", VStr); ("zip", VStr); ("alg", VStr)]%string /\
  existsb (fun h => String.eqb (hp_name h) "alg" &&
                    match hp_kind h with VStr => true | _ => false end) jws_header_registry = true.
Proof. vm_compute. repeat split; reflexivity. Qed.

(* import-time registration reproduces the tables *)
Definition import_calls : list call :=
  (map CallRegJws jws_alg_table ++ map CallRegAlg jwe_alg_table ++
   map CallRegEnc jwe_enc_table ++ map CallRegZip jwe_zip_table)%list.
Lemma import_state : run import_calls w_empty = w0.
Proof. vm_compute. reflexivity. Qed.

Definition drafts_calls : list call :=
  (map CallRegJws (skipn (length jws_alg_table) jws_alg_table_drafts) ++
   map CallRegAlg (skipn (length jwe_alg_table) jwe_alg_table_drafts) ++
   map CallRegEnc (skipn (length jwe_enc_table) jwe_enc_table_drafts) ++
   map CallRegZip (skipn (length jwe_zip_table) jwe_zip_table_drafts))%list.
(* the jwe recommended list is compared as a set: the draft modules register
   algs and encs interleaved *)
Lemma drafts_state :
  let w := run drafts_calls w0 in
  w_jws w = w_jws w0_drafts /\ w_alg w = w_alg w0_drafts /\ w_enc w = w_enc w0_drafts /\
  w_zip w = w_zip w0_drafts /\ w_jws_rec w = w_jws_rec w0_drafts /\
  set_eqb (map nm (w_jwe_rec w)) (map nm (w_jwe_rec w0_drafts)) = true /\
  w_jws_def w = w_jws_def w0_drafts /\ w_jwe_def w = w_jwe_def w0_drafts.
Proof. vm_compute. repeat split; reflexivity. Qed.

(* non-vacuity of the history theorem: a registration does change verdicts *)
Definition hs384_flagged : jws_alg_row :=
  {| ja_name := "HS384"; ja_family := "HMAC"; ja_key_type := "oct"; ja_recommended := true;
     ja_hash := "sha384"; ja_curve := ""; ja_pad := "" |}.
Lemma register_matters :
  fst (step w0 (CallJwsDefGet (pname "HS384"))) = VName unsupported /\
  fst (step (run [CallRegJws hs384_flagged] w0) (CallJwsDefGet (pname "HS384"))) = VName (Ok (nm "HS384")).
Proof. vm_compute. split; reflexivity. Qed.

(* ---------- statements in the shape used by props/C05.v ---------- *)
Lemma gate_all_four : forall w a n,
  (forall m, jws_get_alg w (pv_of_allowed a) (PStr n) = Ok m <->
     (find_row ja_name (w_jws w) n = Some m /\ In (PStr n) (effective a (w_jws_rec w)))) /\
  (forall m, jwe_get_alg w (pv_of_allowed a) (PStr n) = Ok m <->
     (find_row ea_name (w_alg w) n = Some m /\ In (PStr n) (effective a (w_jwe_rec w)))) /\
  (forall m, jwe_get_enc w (pv_of_allowed a) (PStr n) = Ok m <->
     (find_row ee_name (w_enc w) n = Some m /\ In (PStr n) (effective a (w_jwe_rec w)))) /\
  (forall m, jwe_get_zip w (pv_of_allowed a) (PStr n) = Ok m <->
     (find_row ez_name (w_zip w) n = Some m /\ In (PStr n) (effective a (w_jwe_rec w)))).
Proof. intros. split; [|split; [|split]]; intro m; apply get_row_iff. Qed.

Lemma gate_else_four : forall w a n,
  ((exists m, jws_get_alg w (pv_of_allowed a) (PStr n) = Ok m) \/
   jws_get_alg w (pv_of_allowed a) (PStr n) = Err (EJose UnsupportedAlgorithmError)) /\
  ((exists m, jwe_get_alg w (pv_of_allowed a) (PStr n) = Ok m) \/
   jwe_get_alg w (pv_of_allowed a) (PStr n) = Err (EJose UnsupportedAlgorithmError)) /\
  ((exists m, jwe_get_enc w (pv_of_allowed a) (PStr n) = Ok m) \/
   jwe_get_enc w (pv_of_allowed a) (PStr n) = Err (EJose UnsupportedAlgorithmError)) /\
  ((exists m, jwe_get_zip w (pv_of_allowed a) (PStr n) = Ok m) \/
   jwe_get_zip w (pv_of_allowed a) (PStr n) = Err (EJose UnsupportedAlgorithmError)).
Proof. intros. repeat split; apply get_row_else. Qed.

Lemma row_lookup_four : forall w s,
  (forall m, find_row ja_name (w_jws w) s = Some m -> nm (ja_name m) = s /\ In m (w_jws w)) /\
  (forall m, find_row ea_name (w_alg w) s = Some m -> nm (ea_name m) = s /\ In m (w_alg w)) /\
  (forall m, find_row ee_name (w_enc w) s = Some m -> nm (ee_name m) = s /\ In m (w_enc w)) /\
  (forall m, find_row ez_name (w_zip w) s = Some m -> nm (ez_name m) = s /\ In m (w_zip w)) /\
  (In s (row_names ja_name (w_jws w)) <-> exists m, find_row ja_name (w_jws w) s = Some m) /\
  (In s (row_names ea_name (w_alg w)) <-> exists m, find_row ea_name (w_alg w) s = Some m) /\
  (In s (row_names ee_name (w_enc w)) <-> exists m, find_row ee_name (w_enc w) s = Some m) /\
  (In s (row_names ez_name (w_zip w)) <-> exists m, find_row ez_name (w_zip w) s = Some m).
Proof.
  intros. repeat split; try (intros; eapply find_row_sound; eassumption);
    try (apply find_row_some); try (intro H; apply find_row_some; exact H).
Qed.

Lemma gate_nonstr_four : forall w allowed name, is_str name = false ->
  jws_get_alg w allowed name = Err (EJose UnsupportedAlgorithmError) /\
  jwe_get_alg w allowed name = Err (EJose UnsupportedAlgorithmError) /\
  jwe_get_enc w allowed name = Err (EJose UnsupportedAlgorithmError) /\
  jwe_get_zip w allowed name = Err (EJose UnsupportedAlgorithmError).
Proof. intros. repeat split; apply get_row_nonstr; assumption. Qed.

Lemma gate_supported_four : forall w allowed name,
  (forall m, jws_get_alg w allowed name = Ok m -> exists s, name = PStr s /\ find_row ja_name (w_jws w) s = Some m) /\
  (forall m, jwe_get_alg w allowed name = Ok m -> exists s, name = PStr s /\ find_row ea_name (w_alg w) s = Some m) /\
  (forall m, jwe_get_enc w allowed name = Ok m -> exists s, name = PStr s /\ find_row ee_name (w_enc w) s = Some m) /\
  (forall m, jwe_get_zip w allowed name = Ok m -> exists s, name = PStr s /\ find_row ez_name (w_zip w) s = Some m).
Proof. intros. repeat split; intros m H; eapply get_row_supported; exact H. Qed.

Lemma empty_list_is_default : forall w name algorithms_absent_registry,
  algorithms_absent_registry = @None pv ->
  jws_get_alg w (PList []) name = jws_get_alg w PNone name /\
  jwe_get_alg w (PList []) name = jwe_get_alg w PNone name /\
  jwe_get_enc w (PList []) name = jwe_get_enc w PNone name /\
  jwe_get_zip w (PList []) name = jwe_get_zip w PNone name /\
  jws_select w (PList []) algorithms_absent_registry = jws_select w PNone algorithms_absent_registry /\
  jwe_select w (PList []) algorithms_absent_registry = jwe_select w PNone algorithms_absent_registry.
Proof. intros w name r E. subst. repeat split. Qed.

(* under the literal reading an empty list would have to refuse HS256; the model accepts it *)
Lemma empty_list_strict_witness :
  (exists m, jws_entry w0 KPlain (PList []) None [pname "HS256"] = Ok [m]) /\
  ~ In (pname "HS256") (effective_strict (Some []) (w_jws_rec w0)).
Proof. split; [eexists; vm_compute; reflexivity | intros []]. Qed.

Lemma history_full : forall h c w,
  no_registration h = true -> refs_ok w c = true ->
  fst (step (run h w) c) = fst (step w c) /\
  same_tables w (run h w) /\
  (forall i o, nth_error (w_regs w) i = Some o -> nth_error (w_regs (run h w)) i = Some o).
Proof.
  intros h c w H K. split; [apply history_independent; assumption|].
  split; [apply run_same_tables; exact H | intros i o E; apply run_regs_kept; exact E].
Qed.

Lemma history_plain : forall h c w,
  forallb is_plain h = true ->
  run h w = w /\ step (run h w) c = step w c /\ verdicts h w = map (fun c => fst (step w c)) h.
Proof.
  intros h c w H. split; [apply run_frozen; exact H|].
  split; [rewrite run_frozen by exact H; reflexivity | apply verdicts_frozen; exact H].
Qed.

Lemma registry_arg_unchanged :
  (forall w c i o, nth_error (w_regs w) i = Some o -> nth_error (w_regs (snd (step w c))) i = Some o) /\
  (forall h w i o, nth_error (w_regs w) i = Some o -> nth_error (w_regs (run h w)) i = Some o) /\
  (forall w c, is_new c = false -> w_regs (snd (step w c)) = w_regs w).
Proof. split; [exact step_regs_kept | split; [exact run_regs_kept | exact step_regs_plain]]. Qed.

(* non-vacuity: a shared registry really decides the verdict of the calls that use it,
   an `algorithms=` override of one JWE call does not stick to it *)
Definition reg_a128 : regobj :=
  {| ro_cls := RcJwe; ro_allowed := PList [pname "A128KW"; pname "A128GCM"]; ro_strict := true;
     ro_verify_all := true; ro_extra_headers := [] |}.
Lemma shared_registry_instance :
  let h := [CallNewReg reg_a128;
            CallJwe (PList [pname "A192KW"; pname "A128GCM"]) (RRef 0) (pname "A128GCM") [pname "A192KW"] None;
            CallJwe PNone (RRef 0) (pname "A128GCM") [pname "A128KW"] None;
            CallJwe PNone (RRef 0) (pname "A128GCM") [pname "A192KW"] None] in
  verdicts h w0 = [VUnit (Ok tt); VUnit (Ok tt); VUnit (Ok tt); VUnit unsupported] /\
  w_regs (run h w0) = [reg_a128].
Proof. vm_compute. split; reflexivity. Qed.

Lemma before_crypto :
  (forall X (crypto : list jws_alg_row -> res X) w k a r algs x,
     jws_op X crypto w k a r algs = Ok x -> exists rows, jws_entry w k a r algs = Ok rows /\ crypto rows = Ok x) /\
  (forall K X km ce w a r enc algs zip x,
     jwe_encrypt_op K X km ce w a r enc algs zip = Ok x -> exists t, jwe_entry w a r enc algs zip = Ok t) /\
  (forall K M X km cd dz w a r enc algs zip x,
     jwe_decrypt_op K M X km cd dz w a r enc algs zip = Ok x -> exists t, jwe_entry w a r enc algs zip = Ok t) /\
  (forall crypto w k a r algs,
     jws_verify_op crypto w k a r algs = Ok tt ->
     exists rows, jws_entry w k a r algs = Ok rows /\ forallb (alg_verify crypto) rows = true).
Proof.
  split; [exact jws_op_gated | split; [exact jwe_encrypt_op_gated | split; [exact jwe_decrypt_op_gated | exact verify_op_gated]]].
Qed.

Lemma none_full :
  (forall crypto k a r algs, In (pname "none") algs -> jws_verify_op crypto w0 k a r algs <> Ok tt) /\
  (forall crypto r, is_none_row r = true -> alg_verify crypto r = false) /\
  (forall msg sig, none_verify msg sig = false).
Proof.
  split; [exact none_never_verifies | split; [exact alg_verify_none | reflexivity]].
Qed.

Lemma default_sets_full :
  (forall n, (exists m, jws_get_alg w0 (jws_select w0 PNone None) (PStr n) = Ok m) <-> In n (map nm jws_lit)) /\
  (forall n, (exists m, jwe_get_alg w0 (jwe_select w0 PNone None) (PStr n) = Ok m) <-> In n (map nm jwe_alg_lit)) /\
  (forall n, (exists m, jwe_get_enc w0 (jwe_select w0 PNone None) (PStr n) = Ok m) <-> In n (map nm jwe_enc_lit)) /\
  (forall n, (exists m, jwe_get_zip w0 (jwe_select w0 PNone None) (PStr n) = Ok m) <-> In n (map nm jwe_zip_lit)) /\
  jws_entry_select w0 (K7797 true) PNone None = jws_select w0 PNone None /\
  w_jws_def w0 = PNone /\ w_jwe_def w0 = PNone /\ jws_default_allowed = None.
Proof.
  split; [exact default_jws|]. split; [exact default_jwe_alg|]. split; [exact default_jwe_enc|].
  split; [exact default_jwe_zip|]. vm_compute. repeat split; reflexivity.
Qed.

(* non-vacuity instances *)
Lemma instances :
  (exists m, jws_get_alg w0 (PList [pname "none"; pname "XX"]) (pname "none") = Ok m /\ is_none_row m = true) /\
  jws_get_alg w0 (PList [pname "HS384"]) (pname "HS256") = Err (EJose UnsupportedAlgorithmError) /\
  jws_get_alg w0 (PList [pname "XX"]) (pname "XX") = Err (EJose UnsupportedAlgorithmError) /\
  jws_get_alg w0 PNone (PList [pname "HS256"]) = Err (EJose UnsupportedAlgorithmError) /\
  jws_get_alg w0 PNone (PInt 1) = Err (EJose UnsupportedAlgorithmError) /\
  (exists t, jwe_entry w0 (PList [pname "A128GCMKW"; pname "A128GCM"; pname "DEF"]) (Some PNone)
               (pname "A128GCM") [pname "A128GCMKW"] (Some (pname "DEF")) = Ok t) /\
  runit (jwe_entry w0 PNone (Some (PList [pname "A128GCMKW"; pname "A128GCM"]))
               (pname "A128GCM") [pname "A128GCMKW"] (Some (pname "DEF"))) = Err (EJose UnsupportedAlgorithmError) /\
  jws_verify_op good_sig w0 KPlain (PList [pname "none"]) None [pname "none"] = Err (EJose BadSignatureError) /\
  jws_verify_op good_sig w0 KPlain (PList [pname "HS512"]) None [pname "HS512"] = Ok tt.
Proof. vm_compute. repeat split; try reflexivity; eexists; split; reflexivity || reflexivity. Qed.

(* both algorithms= and registry= given: JWS uses the registry (the list is ignored),
   JWE uses the non-empty list (the registry is ignored) *)
Lemma both_given :
  (forall w k a r, jws_entry_select w k a (Some r) = r) /\
  (forall w a r, py_truth a = true -> jwe_select w a r = a) /\
  (exists rows, jws_entry w0 KPlain (PList [pname "HS256"]) (Some (PList [pname "HS384"])) [pname "HS384"] = Ok rows) /\
  runit (jwe_entry w0 (PList [pname "A192KW"; pname "A128GCM"]) (Some (PList [pname "A128KW"; pname "A128GCM"]))
           (pname "A128GCM") [pname "A128KW"] None) = Err (EJose UnsupportedAlgorithmError).
Proof.
  split; [intros w k a r; destruct k as [|[|]]; reflexivity|].
  split; [intros w a r H; unfold jwe_select; rewrite H; reflexivity|].
  split; [eexists; vm_compute; reflexivity | vm_compute; reflexivity].
Qed.

(* ---------- after register_ecdh_1pu(); register_chaha20_poly1305() ---------- *)
(* the draft algorithms are registered but not recommended: with no list the usable
   names are still exactly the literals of the property text *)
Lemma default_sets_drafts :
  (forall n, (exists m, jws_get_alg w0_drafts (jws_select w0_drafts PNone None) (PStr n) = Ok m) <-> In n (map nm jws_lit)) /\
  (forall n, (exists m, jwe_get_alg w0_drafts (jwe_select w0_drafts PNone None) (PStr n) = Ok m) <-> In n (map nm jwe_alg_lit)) /\
  (forall n, (exists m, jwe_get_enc w0_drafts (jwe_select w0_drafts PNone None) (PStr n) = Ok m) <-> In n (map nm jwe_enc_lit)) /\
  (forall n, (exists m, jwe_get_zip w0_drafts (jwe_select w0_drafts PNone None) (PStr n) = Ok m) <-> In n (map nm jwe_zip_lit)) /\
  w_jws_def w0_drafts = PNone /\ w_jwe_def w0_drafts = PNone /\ jws_default_allowed_drafts = None.
Proof.
  assert (S1 : jws_select w0_drafts PNone None = PNone) by (vm_compute; reflexivity).
  assert (S2 : jwe_select w0_drafts PNone None = PNone) by (vm_compute; reflexivity).
  rewrite S1, S2.
  split; [unfold jws_get_alg; apply default_usable; vm_compute; reflexivity|].
  split; [unfold jwe_get_alg; apply default_usable; vm_compute; reflexivity|].
  split; [unfold jwe_get_enc; apply default_usable; vm_compute; reflexivity|].
  split; [unfold jwe_get_zip; apply default_usable; vm_compute; reflexivity|].
  vm_compute. repeat split; reflexivity.
Qed.

(* the names the draft modules add (rows of the drafts tables beyond the import-time ones) *)
Definition draft_alg_names : list string := map ea_name (skipn (length jwe_alg_table) jwe_alg_table_drafts).
Definition draft_enc_names : list string := map ee_name (skipn (length jwe_enc_table) jwe_enc_table_drafts).

(* every draft alg / enc is refused without a list (default registry, bare registry,
   empty list) and accepted when an explicit list names it; the sets are not empty *)
Lemma drafts_only_explicit :
  forallb (fun n => match jwe_get_alg w0_drafts PNone (pname n), jwe_get_alg w0_drafts (PList []) (pname n),
                          jwe_get_alg w0_drafts (w_jwe_def w0_drafts) (pname n),
                          jwe_get_alg w0_drafts (PList [pname n]) (pname n) with
                    | Err (EJose UnsupportedAlgorithmError), Err (EJose UnsupportedAlgorithmError),
                      Err (EJose UnsupportedAlgorithmError), Ok _ => true
                    | _, _, _, _ => false end) draft_alg_names = true /\
  forallb (fun n => match jwe_get_enc w0_drafts PNone (pname n), jwe_get_enc w0_drafts (PList []) (pname n),
                          jwe_get_enc w0_drafts (w_jwe_def w0_drafts) (pname n),
                          jwe_get_enc w0_drafts (PList [pname n]) (pname n) with
                    | Err (EJose UnsupportedAlgorithmError), Err (EJose UnsupportedAlgorithmError),
                      Err (EJose UnsupportedAlgorithmError), Ok _ => true
                    | _, _, _, _ => false end) draft_enc_names = true /\
  draft_alg_names <> [] /\ draft_enc_names <> [] /\
  skipn (length jws_alg_table) jws_alg_table_drafts = [] /\
  skipn (length jwe_zip_table) jwe_zip_table_drafts = [].
Proof. vm_compute. repeat split; try reflexivity; discriminate. Qed.

(* ---------- rfc7797 (and every JWS entry point): the caller's registry is kept ---------- *)
(* registry selection of rfc7797.serialize_compact / deserialize_compact / serialize_json /
   deserialize_json, with or without "b64" in the header, and of the jws.* functions:
   `registry is None` => built from algorithms (b64 present) / construct_registry(algorithms);
   otherwise the caller's object, whatever its class (base class, rfc7797 subclass, a
   subclass of either) and whatever algorithms= says *)
Lemma registry_kept_7797 :
  (forall w k algorithms r, jws_entry_select w k algorithms (Some r) = r) /\
  (forall w algorithms, jws_entry_select w (K7797 true) algorithms None = algorithms) /\
  (forall w algorithms, jws_entry_select w (K7797 false) algorithms None = construct_registry w algorithms) /\
  (forall w k algorithms c allowed algs,
     fst (step w (CallJwsSign k algorithms (RFresh c allowed) algs)) =
     VUnit (runit (gate_all (jws_member_gate w allowed) algs))) /\
  (forall w k algorithms c allowed algs,
     fst (step w (CallJwsVerify k algorithms (RFresh c allowed) algs)) =
     VUnit (do ok <- jws_verify_members good_sig w allowed algs;
            if ok then Ok tt else Err (EJose BadSignatureError))) /\
  (forall w k algorithms i o algs, nth_error (w_regs w) i = Some o ->
     fst (step w (CallJwsSign k algorithms (RRef i) algs)) =
     VUnit (runit (gate_all (jws_member_gate w (ro_allowed o)) algs)) /\
     fst (step w (CallJwsVerify k algorithms (RRef i) algs)) =
     VUnit (do ok <- jws_verify_members good_sig w (ro_allowed o) algs;
            if ok then Ok tt else Err (EJose BadSignatureError))).
Proof.
  split; [intros w k a r; destruct k as [|[|]]; reflexivity|].
  split; [reflexivity|]. split; [reflexivity|].
  split; [intros w k a c al algs; destruct k as [|[|]]; reflexivity|].
  split; [intros w k a c al algs; destruct k as [|[|]]; reflexivity|].
  intros w k a i o algs H. simpl. unfold with_reg, resolve. rewrite H. simpl.
  split; destruct k as [|[|]]; reflexivity.
Qed.

(* instance: a base-class registry listing only HS512, header with "b64", no algorithms=:
   HS256 (recommended, not listed) is refused, HS512 signs and verifies; the same with a
   subclass object and with an algorithms= that would have allowed HS256 *)
Lemma registry_kept_7797_instance :
  fst (step w0 (CallJwsSign (K7797 true) PNone (RFresh RcJws (PList [pname "HS512"])) [pname "HS256"])) = VUnit unsupported /\
  fst (step w0 (CallJwsSign (K7797 true) PNone (RFresh RcJws (PList [pname "HS512"])) [pname "HS512"])) = VUnit (Ok tt) /\
  fst (step w0 (CallJwsVerify (K7797 true) PNone (RFresh RcJws (PList [pname "HS512"])) [pname "HS512"])) = VUnit (Ok tt) /\
  fst (step w0 (CallJwsSign (K7797 true) (PList [pname "HS256"]) (RFresh RcJwsSub (PList [pname "HS512"])) [pname "HS256"])) = VUnit unsupported /\
  fst (step w0 (CallJwsSign (K7797 true) PNone RAbsent [pname "HS256"])) = VUnit (Ok tt) /\
  fst (step w0 (CallJwsSign (K7797 true) PNone RAbsent [pname "HS512"])) = VUnit unsupported.
Proof. vm_compute. repeat split; reflexivity. Qed.

(* ---------- the gates do not see the message ---------- *)
(* The only stages that receive the plaintext / payload / aad are the cryptographic ones
   (content_enc, content_dec, decompress, jws_crypto).  Whatever they are, and whatever the
   key management stage returns as long as it does not fail first, a failing gate is the
   failure of the whole operation, with the gate's error: the allow-list verdict of
   encrypt / decrypt / sign is a function of (header names, algorithms, registry) only. *)
Lemma gate_failure_is_op_failure :
  (forall X crypto w k a r algs e,
     jws_entry w k a r algs = Err e -> jws_op X crypto w k a r algs = Err e) /\
  (forall K X km ce w a r enc algs zip e,
     (forall en rs, exists k, km en rs = Ok k) ->
     jwe_entry w a r enc algs zip = Err e -> jwe_encrypt_op K X km ce w a r enc algs zip = Err e) /\
  (forall K M X km cd dz w a r enc algs zip e,
     (forall en rs, exists k, km en rs = Ok k) -> (forall en k, exists m, cd en k = Ok m) ->
     jwe_entry w a r enc algs zip = Err e -> jwe_decrypt_op K M X km cd dz w a r enc algs zip = Err e).
Proof.
  split; [intros X crypto w k a r algs e H; unfold jws_op; rewrite H; reflexivity|].
  split.
  - intros K X km ce w a r enc algs zip e T H. unfold jwe_entry in H. unfold jwe_encrypt_op.
    destruct (jwe_get_enc w (jwe_select w a r) enc) as [en|x]; simpl in *; [|inversion H; reflexivity].
    destruct (gate_all (jwe_recipient_gate w (jwe_select w a r) enc zip) algs) as [rs|x]; simpl in *; [|inversion H; reflexivity].
    destruct (T en rs) as [k Ek]. rewrite Ek. simpl.
    destruct (jwe_zip_gate w (jwe_select w a r) zip) as [z|x]; simpl in *; [discriminate | inversion H; reflexivity].
  - intros K M X km cd dz w a r enc algs zip e T1 T2 H. unfold jwe_entry in H. unfold jwe_decrypt_op.
    destruct (jwe_get_enc w (jwe_select w a r) enc) as [en|x]; simpl in *; [|inversion H; reflexivity].
    destruct (gate_all (jwe_recipient_gate w (jwe_select w a r) enc zip) algs) as [rs|x]; simpl in *; [|inversion H; reflexivity].
    destruct (T1 en rs) as [k Ek]. rewrite Ek. simpl.
    destruct (T2 en k) as [m Em]. rewrite Em. simpl.
    destruct (jwe_zip_gate w (jwe_select w a r) zip) as [z|x]; simpl in *; [discriminate | inversion H; reflexivity].
Qed.

(* two messages = two content stages: same outcome whenever a gate refuses; and an
   operation succeeds on one message only if the gates pass (for every message) *)
Lemma gate_independent_of_message :
  (forall K X km (ce1 ce2 : jwe_enc_row -> K -> option jwe_zip_row -> res X) w a r enc algs zip e,
     (forall en rs, exists k, km en rs = Ok k) ->
     jwe_entry w a r enc algs zip = Err e ->
     jwe_encrypt_op K X km ce1 w a r enc algs zip = Err e /\
     jwe_encrypt_op K X km ce2 w a r enc algs zip = Err e) /\
  (forall K X km (ce1 ce2 : jwe_enc_row -> K -> option jwe_zip_row -> res X) w a r enc algs zip x,
     jwe_encrypt_op K X km ce1 w a r enc algs zip = Ok x ->
     exists t, jwe_entry w a r enc algs zip = Ok t /\
               (forall e, jwe_encrypt_op K X km ce2 w a r enc algs zip <> Err e \/
                          jwe_entry w a r enc algs zip <> Err e)) /\
  (forall X (c1 c2 : list jws_alg_row -> res X) w k a r algs e,
     jws_entry w k a r algs = Err e ->
     jws_op X c1 w k a r algs = Err e /\ jws_op X c2 w k a r algs = Err e).
Proof.
  destruct gate_failure_is_op_failure as (J & E & D).
  split.
  - intros. split; apply E; assumption.
  - split.
    + intros K X km ce1 ce2 w a r enc algs zip x H.
      destruct (jwe_encrypt_op_gated _ _ _ _ _ _ _ _ _ _ _ H) as [t Ht].
      exists t. split; [exact Ht|]. intro e. right. rewrite Ht. discriminate.
    + intros. split; apply J; assumption.
Qed.

(* instance: an unknown zip ("BOGUS") and a known but unlisted one (DEF) are refused by the
   model call, which has no message argument at all *)
Lemma gate_message_instance :
  fst (step w0 (CallJwe PNone RAbsent (pname "A128GCM") [pname "dir"] (Some (pname "BOGUS")))) = VUnit unsupported /\
  fst (step w0 (CallJwe (PList [pname "dir"; pname "A128GCM"]) RAbsent (pname "A128GCM") [pname "dir"] (Some (pname "DEF")))) = VUnit unsupported /\
  fst (step w0 (CallJwe PNone (RFresh RcJwe (PList [pname "dir"; pname "A128GCM"])) (pname "A128GCM") [pname "dir"] (Some (pname "DEF")))) = VUnit unsupported /\
  fst (step w0 (CallJwe PNone RAbsent (pname "A128GCM") [pname "dir"] (Some (pname "DEF")))) = VUnit (Ok tt).
Proof. vm_compute. repeat split; reflexivity. Qed.
