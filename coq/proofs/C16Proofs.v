(* C16Proofs.v — "exception-class type system" for the consume front-ends of
   model/C16Model.v: one lemma per model function bounding the classes it can
   raise, composed at the entry points. *)
From Coq Require Import String List ZArith NArith Bool Lia.
From Model Require Import Base PyVal TableTypes B64 C16Model.
From Gen Require Import Tables.
From Proofs Require Import B64Proofs.
Import ListNotations.
Open Scope N_scope.

Definition safe {A} (m : res A) : Prop :=
  match m with Err e => allowed_exn e = true | Ok _ => True end.

Lemma safe_ok {A} (a : A) : safe (Ok a). Proof. exact I. Qed.
Lemma safe_value {A} : safe (@Err A EValue). Proof. reflexivity. Qed.
Lemma safe_jose {A} c : safe (@Err A (EJose c)). Proof. reflexivity. Qed.
#[export] Hint Resolve safe_ok safe_value safe_jose : c16.

Lemma safe_bind {A B} (m : res A) (f : A -> res B) :
  safe m -> (forall a, m = Ok a -> safe (f a)) -> safe (bind m f).
Proof. destruct m; simpl; auto. Qed.

Lemma safe_map_exn {A} (f : exn -> exn) (m : res A) :
  (forall e, m = Err e -> allowed_exn (f e) = true) -> safe (map_exn f m).
Proof. destruct m; simpl; auto. Qed.

Lemma bind_ok {A B} (m : res A) (f : A -> res B) b :
  bind m f = Ok b -> exists a, m = Ok a /\ f a = Ok b.
Proof. destruct m; simpl; [eauto | discriminate]. Qed.

Ltac inv_bind H :=
  let a := fresh "a" in let Ha := fresh "Ha" in
  apply bind_ok in H; destruct H as [a [Ha H]].

(* only-EValue bound *)
Definition only_value {A} (m : res A) : Prop := forall e, m = Err e -> e = EValue.
Lemma only_value_safe {A} (m : res A) : only_value m -> safe m.
Proof. unfold only_value, safe. destruct m; auto. intro H. rewrite (H e eq_refl). reflexivity. Qed.

Lemma b64d_only s : only_value (b64d s).
Proof. intros e H. eapply b64d_err_class; eauto. Qed.
Lemma b64d_safe s : safe (b64d s).
Proof. apply only_value_safe, b64d_only. Qed.
#[export] Hint Resolve b64d_safe : c16.

Lemma encode_utf8_only s : only_value (encode_utf8 s).
Proof.
  induction s as [|c r IH]; intros e H; simpl in H; [discriminate|].
  destruct (utf8_cp c); [|congruence].
  destruct (encode_utf8 r) eqn:E; [discriminate|]. inversion H; subst. apply IH. reflexivity.
Qed.
Lemma encode_ascii_only s : only_value (encode_ascii s).
Proof. intros e H. unfold encode_ascii in H. destruct (forallb _ s); congruence. Qed.

Lemma to_bytes_str_only a s : only_value (to_bytes a (PStr s)).
Proof. destruct a; simpl; [apply encode_ascii_only | apply encode_utf8_only]. Qed.
Lemma to_bytes_str_safe a s : safe (to_bytes a (PStr s)).
Proof. apply only_value_safe, to_bytes_str_only. Qed.
#[export] Hint Resolve to_bytes_str_safe : c16.

Lemma catch_safe {A} c (m : res A) :
  (forall e, m = Err e -> allowed_exn e = true \/ e = EType) -> safe (catch_type_value c m).
Proof.
  intro H. unfold catch_type_value. apply safe_map_exn. intros e E.
  destruct (H e E) as [X | X]; [destruct e; simpl in *; congruence | subst; reflexivity].
Qed.

(* ---------------- dict facts ---------------- *)
Lemma py_in_dict k d : py_in (PStr k) (PDict d) = Ok (dmem d k).
Proof. reflexivity. Qed.
Lemma getitem_dict_mem d k : dmem d k = true -> exists v, py_getitem_str (PDict d) k = Ok v /\ dget d k = Some v.
Proof. unfold dmem. simpl. destruct (dget d k); [eauto | discriminate]. Qed.
Lemma get_dict d k : exists v, py_get_str (PDict d) k = Ok v /\
   (dget d k = Some v \/ (dget d k = None /\ v = PNone)).
Proof. simpl. destruct (dget d k); eauto. Qed.

(* ---------------- registry.py ---------------- *)
Lemma validate_kind_only k v : kind_known k = true -> only_value (validate_kind k v).
Proof.
  intros K e H. destruct k; simpl in *; try discriminate;
    repeat match type of H with
           | context [match ?x with _ => _ end] => destruct x; try congruence
           | context [if ?c then _ else _] => destruct c; try congruence
           end; try congruence.
Qed.

Lemma vrh_safe reg d cr : hreg_wf reg = true -> only_value (validate_registry_header reg (PDict d) cr).
Proof.
  induction reg as [|p r IH]; intros W e H; simpl in *; [discriminate|].
  apply andb_true_iff in W. destruct W as [W1 W2].
  destruct (cr && hp_required p && negb (dmem d (SK (hp_name p)))); [congruence|].
  destruct (dmem d (SK (hp_name p))) eqn:M.
  - destruct (getitem_dict_mem _ _ M) as [v [G _]]. simpl in G. rewrite G in H. simpl in H.
    destruct (validate_kind (hp_kind p) v) eqn:V; simpl in H.
    + eapply IH; eauto.
    + inversion H; subst. eapply validate_kind_only; eauto.
  - simpl in H. eapply IH; eauto.
Qed.

(* what a successful validation says about one member *)
Lemma vrh_member reg d cr name kind req :
  validate_registry_header reg (PDict d) cr = Ok tt ->
  In {| hp_name := name; hp_kind := kind; hp_required := req |} reg ->
  match dget d (SK name) with
  | Some v => validate_kind kind v = Ok tt
  | None => cr && req = false
  end.
Proof.
  induction reg as [|p r IH]; intros H I; [destruct I|].
  simpl in H.
  destruct (cr && hp_required p && negb (dmem d (SK (hp_name p)))) eqn:C; [discriminate|].
  destruct (dmem d (SK (hp_name p))) eqn:M.
  - destruct (getitem_dict_mem _ _ M) as [v [G D]]. simpl in G. rewrite G in H. simpl in H.
    destruct (validate_kind (hp_kind p) v) as [[]|] eqn:V; simpl in H; [|discriminate].
    destruct I as [I | I].
    + subst p. cbn [hp_name hp_kind hp_required] in *. rewrite D. exact V.
    + apply IH; assumption.
  - simpl in H. destruct I as [I | I].
    + subst p. cbn [hp_name hp_kind hp_required] in *.
      unfold dmem in M. destruct (dget d (SK name)); [discriminate|].
      simpl in C. rewrite andb_true_r in C. exact C.
    + apply IH; assumption.
Qed.

Lemma requires_str_In reg name : hreg_requires_str reg name = true ->
  In {| hp_name := name; hp_kind := VStr; hp_required := true |} reg.
Proof.
  unfold hreg_requires_str. intro H. apply existsb_exists in H. destruct H as [p [I H]].
  apply andb_true_iff in H. destruct H as [H K]. apply andb_true_iff in H. destruct H as [N R].
  apply String.eqb_eq in N. destruct p as [n k r]. simpl in *. subst.
  destruct k; try discriminate. exact I.
Qed.

Lemma vrh_required_str reg d name :
  validate_registry_header reg (PDict d) true = Ok tt -> hreg_requires_str reg name = true ->
  exists s, dget d (SK name) = Some (PStr s).
Proof.
  intros H R. apply requires_str_In in R. pose proof (vrh_member _ _ _ _ _ _ H R) as M.
  destruct (dget d (SK name)) as [v|]; [|discriminate].
  simpl in M. destruct v; simpl in M; try discriminate. eauto.
Qed.

Lemma crit_loop_safe l d : forallb is_str l = true -> only_value (crit_loop l (PDict d)).
Proof.
  induction l as [|k r IH]; intros F e H; simpl in *; [discriminate|].
  apply andb_true_iff in F. destruct F as [F1 F2]. destruct k; try discriminate. simpl in H.
  destruct (dmem d s); [eapply IH; eauto | congruence].
Qed.

Lemma check_crit_only g d : g_crit g = true -> only_value (check_crit_header g (PDict d)).
Proof.
  intros G e H. unfold check_crit_header in H. rewrite py_in_dict in H. cbn [bind] in H.
  destruct (dmem d (SK "crit")) eqn:M; [|discriminate].
  destruct (getitem_dict_mem _ _ M) as [c [Gc _]]. rewrite Gc in H. cbn [bind] in H. rewrite G in H.
  destruct c; cbn [validate_kind bind] in H; try congruence.
  destruct (forallb is_str l) eqn:F; cbn [bind py_iter] in H; [|congruence].
  eapply crit_loop_safe; eauto.
Qed.

Lemma check_supported_only reg d : only_value (check_supported_header reg (PDict d)).
Proof. intros e H. simpl in H. destruct (forallb _ _); congruence. Qed.

Lemma safe_b64_only d : only_value (safe_b64_header (PDict d)).
Proof.
  intros e H. unfold safe_b64_header in H. cbn [bind py_get_str] in H.
  destruct (dget d (SK "crit")) as [c|]; cbn [bind] in H; [|congruence].
  destruct c; try congruence. destruct (list_contains l (PS "b64")); congruence.
Qed.

Lemma only_bind {A B} (m : res A) (f : A -> res B) :
  only_value m -> (forall a, m = Ok a -> only_value (f a)) -> only_value (bind m f).
Proof. intros H1 H2 e H. destruct m; simpl in H; [eapply H2; eauto | inversion H; subst; apply H1; reflexivity]. Qed.

Lemma jws_check_header_only g reg d :
  g_crit g = true -> hreg_wf (jr_hreg reg) = true -> only_value (jws_check_header g reg (PDict d)).
Proof.
  intros G W. unfold jws_check_header.
  apply only_bind.
  { destruct (jr_7797 reg); [|intros e H; discriminate].
    rewrite py_in_dict. cbn [bind]. destruct (dmem d (SK "b64")); [apply safe_b64_only | intros e H; discriminate]. }
  intros _ _. apply only_bind; [apply check_crit_only; assumption|].
  intros _ _. apply only_bind; [apply vrh_safe; assumption|].
  intros _ _. destruct (jr_strict reg); [apply check_supported_only | intros e H; discriminate].
Qed.

Lemma jws_check_header_alg g reg d :
  jws_reg_wf reg = true -> jws_check_header g reg (PDict d) = Ok tt ->
  exists s, dget d (SK "alg") = Some (PStr s).
Proof.
  intros W H. apply andb_true_iff in W. destruct W as [_ R].
  unfold jws_check_header in H. inv_bind H. inv_bind H. inv_bind H.
  destruct a1. eapply vrh_required_str; eauto.
Qed.

(* ---------------- algorithm lookup ---------------- *)
Lemma existsb_find {A} (nm : A -> string) (tbl : list A) s :
  existsb (fun n => str_eqb (SK n) s) (map nm tbl) = true ->
  exists r, find (fun r => str_eqb (SK (nm r)) s) tbl = Some r.
Proof.
  induction tbl as [|x t IH]; simpl; [discriminate|].
  destruct (str_eqb (SK (nm x)) s); simpl; eauto.
Qed.

Definition unsupported_or_ok {A} (m : res A) : Prop :=
  forall e, m = Err e -> e = EJose UnsupportedAlgorithmError.

Lemma jws_get_alg_spec g reg name :
  (g_algstr_jws g = true \/ is_str name = true) ->
  match jws_get_alg g reg name with
  | Ok row => In row jws_alg_table
  | Err e => e = EJose UnsupportedAlgorithmError
  end.
Proof.
  intro H. unfold jws_get_alg.
  destruct (is_str name) eqn:IS.
  - destruct name; try discriminate. rewrite andb_false_r. cbn [name_in_table bind].
    destruct (existsb (fun n => str_eqb (SK n) s) (map ja_name jws_alg_table)) eqn:E; cbn [negb]; [|reflexivity].
    destruct (allowed_name _ _ _); [|reflexivity].
    destruct (existsb_find ja_name jws_alg_table s E) as [r F]. unfold find_jws_alg. rewrite F.
    apply find_some in F. tauto.
  - destruct H as [H|H]; [|congruence]. rewrite H. reflexivity.
Qed.

(* ---------------- keys ---------------- *)
Lemma get_by_kid_safe g ks kid : g_kid_repr g = true -> safe (get_by_kid g ks kid).
Proof.
  intro K.
  assert (NF : safe (if g_kid_repr g && negb (match kid with PNone | PStr _ => true | _ => false end)
                     then @Err key (EJose InvalidKeyIdError)
                     else do _ <- py_format kid; Err (EJose InvalidKeyIdError))).
  { rewrite K. destruct kid; cbn [andb negb]; try reflexivity; unfold py_format; cbn; reflexivity. }
  assert (X : safe (match find (fun k => py_eq (k_kid k) kid) ks with
                    | Some k => Ok k
                    | None => if g_kid_repr g && negb (match kid with PNone | PStr _ => true | _ => false end)
                              then Err (EJose InvalidKeyIdError)
                              else do _ <- py_format kid; Err (EJose InvalidKeyIdError) end)).
  { destruct (find _ ks); [exact I | exact NF]. }
  unfold get_by_kid. destruct kid; try exact X.
  destruct ks as [|k0 [|k2 r]]; try exact X. exact I.
Qed.

Lemma guess_key_safe g ka d : g_kid_repr g = true -> safe (guess_key g ka (Ok (PDict d))).
Proof.
  intro K. unfold guess_key. destruct (norm_key ka); cbn [bind py_get_str]; try exact I; try reflexivity.
  destruct (dget d (SK "kid")); cbn [bind]; apply get_by_kid_safe; exact K.
Qed.

Lemma check_use_safe k u : safe (check_use k u).
Proof. unfold check_use. destruct (_ && _); simpl; auto. Qed.
Lemma jws_check_key_type_safe r k : safe (jws_check_key_type r k).
Proof. unfold jws_check_key_type. destruct (_ =? _)%string; simpl; auto. Qed.
#[export] Hint Resolve check_use_safe jws_check_key_type_safe : c16.

(* ================================================================== *)
(* primitives with their exception contract                            *)
(* ================================================================== *)
Section WithPrims.
Variable P : prims.

(* json.loads(bytes): JSONDecodeError / UnicodeDecodeError (ValueError) or RecursionError *)
Hypothesis H_json : forall b e, p_json_loads P b = Err e -> e = EValue \/ e = ERuntime.
(* alg.verify with a key of the algorithm's key type (and an Ed* curve for EdDSA):
   returns a bool or raises UnsupportedKeyOperationError / ValueError *)
Hypothesis H_verify : forall row k m s,
  In row jws_alg_table -> k_kty k = ja_key_type row ->
  (ja_family row = "EdDSA"%string -> ed_curve k = true) ->
  safe (p_jws_verify P (ja_name row) k m s).
(* enc.decrypt: DecodeError (tag) or ValueError (pyca) *)
Hypothesis H_enc : forall n ct tag cek iv aad, safe (p_enc_decrypt P n ct tag cek iv aad).
(* zlib: zlib.error on a corrupt stream, ExceededSizeError on a too long one *)
Hypothesis H_inflate : forall b e, p_inflate P b = Err e -> e = EZlib \/ e = EJose ExceededSizeError.
(* op_key.decrypt / aes_key_unwrap / AES-GCM unwrap with their except clauses: DecodeError or ValueError *)
Hypothesis H_rsa : forall a k ek, safe (p_rsa_decrypt P a k ek).
Hypothesis H_aes : forall kek ek, safe (p_aes_unwrap P kek ek).
Hypothesis H_gcm : forall k iv tag ek, safe (p_gcm_unwrap P k iv tag ek).
(* PBKDF2HMAC(iterations=c): OverflowError for c < 0 or c >= 2^64, a backend panic for
   2^31 <= c < 2^64, ValueError for 0; derives otherwise *)
Hypothesis H_pbkdf2 : forall a k s c, (1 <= c <= 2147483647)%Z -> safe (p_pbkdf2 P a k s c).
(* binding.import_*_key of a validated JWK whose crv is registered: ValueError only *)
Hypothesis H_import : forall kty d priv, safe (p_import_epk P kty d priv).
(* the pyca exchange after the type and curve checks: ValueError at most (low-order X25519/X448 points) *)
Hypothesis H_ecdh : forall k e, safe (p_ecdh P k e).
Hypothesis H_kdf : forall s f n, safe (p_concat_kdf P s f n).

Lemma json_b64decode_only g text :
  g_rec_header g = true -> is_str text = true \/ (exists b, text = PBytes b) ->
  only_value (json_b64decode g P text).
Proof.
  intros G T. unfold json_b64decode. apply only_bind.
  { destruct T as [T | [b T]]; [destruct text; try discriminate; apply to_bytes_str_only | subst; intros e H; discriminate]. }
  intros b _. apply only_bind; [apply b64d_only|]. intros raw _ e H.
  destruct (p_json_loads P raw) as [v|e0] eqn:J; [discriminate|].
  destruct (H_json _ _ J); subst; [congruence | rewrite G in H; congruence].
Qed.

Lemma decode_header_spec g seg :
  g_rec_header g = true -> g_dict_jws_compact g = true ->
  match decode_header g P seg with Ok p => is_dict p = true | Err e => allowed_exn e = true end.
Proof.
  intros G1 G2. unfold decode_header, catch_type_value, map_exn.
  destruct (json_b64decode g P (PBytes seg)) as [p|e] eqn:J; cbn [bind].
  - rewrite G2. destruct p; cbn [is_dict negb andb bind]; try reflexivity.
    rewrite py_in_dict. cbn [bind]. destruct (dmem d (SK "alg")); reflexivity.
  - rewrite (json_b64decode_only g _ G1 (or_intror (ex_intro _ seg eq_refl)) e J). reflexivity.
Qed.

Lemma catch_b64d_safe s : safe (catch_type_value DecodeError (b64d s)).
Proof. apply catch_safe. intros e H. rewrite (b64d_only _ _ H). left. reflexivity. Qed.

Lemma jws_extract_compact_spec g value :
  g_rec_header g = true -> g_dict_jws_compact g = true ->
  match jws_extract_compact g P value with
  | Ok o => is_dict (cs_protected o) = true
  | Err e => allowed_exn e = true
  end.
Proof.
  intros G1 G2. unfold jws_extract_compact.
  destruct (split_dot value) as [|hs [|ps [|ss [|x r]]]]; try reflexivity.
  pose proof (decode_header_spec g hs G1 G2) as D.
  destruct (decode_header g P hs) as [p|e]; cbn [bind]; [|exact D].
  pose proof (catch_b64d_safe ps) as C.
  destruct (catch_type_value DecodeError (b64d ps)); cbn [bind]; [exact D | exact C].
Qed.

Lemma jws_alg_verify_safe g row k m s :
  g_eddsa g = true -> In row jws_alg_table -> k_kty k = ja_key_type row ->
  safe (jws_alg_verify g P row k m s).
Proof.
  intros G I K. unfold jws_alg_verify.
  destruct (String.eqb (ja_family row) "EdDSA" && negb (ed_curve k)) eqn:E.
  - rewrite G. reflexivity.
  - apply H_verify; auto. intro F. rewrite F in E. rewrite String.eqb_refl in E. simpl in E.
    destruct (ed_curve k); [reflexivity | discriminate].
Qed.

Lemma jws_validate_safe g reg ka d si ss :
  g_kid_repr g = true -> g_crit g = true -> g_eddsa g = true -> jws_reg_wf reg = true ->
  safe (jws_validate g P reg ka true (PDict d) si ss).
Proof.
  intros K G1 G2 W. unfold jws_validate.
  pose proof W as W'. apply andb_true_iff in W'. destruct W' as [W1 _].
  apply safe_bind; [apply only_value_safe, jws_check_header_only; assumption|].
  intros [] Hc. apply safe_bind; [apply guess_key_safe; exact K|]. intros k _.
  apply safe_bind; [apply check_use_safe|]. intros _ _.
  destruct (jws_check_header_alg _ _ _ W Hc) as [s Ds].
  assert (Ga : py_getitem_str (PDict d) (SK "alg") = Ok (PStr s)) by (cbn [py_getitem_str]; rewrite Ds; reflexivity).
  rewrite Ga. cbn [bind].
  pose proof (jws_get_alg_spec g reg (PStr s) (or_intror eq_refl)) as A.
  destruct (jws_get_alg g reg (PStr s)) as [row|e]; cbn [bind]; [|subst; reflexivity].
  unfold jws_check_key_type. destruct (String.eqb (k_kty k) (ja_key_type row)) eqn:KT; cbn [bind]; [|reflexivity].
  apply String.eqb_eq in KT.
  apply safe_bind; [apply b64d_safe|]. intros sig _. apply jws_alg_verify_safe; assumption.
Qed.

Definition needs_jws_compact (g : guards) : bool :=
  g_rec_header g && g_dict_jws_compact g && g_crit g && g_eddsa g.

Lemma cinput_bytes_safe v : safe (cinput_bytes v).
Proof. destruct v; simpl; [exact I | apply only_value_safe, encode_utf8_only]. Qed.

Lemma jws_deserialize_compact_b_spec g reg ka value :
  g_kid_repr g = true -> needs_jws_compact g = true -> jws_reg_wf reg = true ->
  safe (jws_deserialize_compact_b g P reg ka value).
Proof.
  intros K N W. unfold needs_jws_compact in N. repeat (apply andb_true_iff in N; destruct N as [N ?]).
  unfold jws_deserialize_compact_b.
  pose proof (jws_extract_compact_spec g value N H1) as E.
  destruct (jws_extract_compact g P value) as [o|e]; cbn [bind]; [|exact E].
  destruct (cs_protected o) as [| | | | | |l|d] eqn:Pr; try discriminate.
  apply safe_bind; [apply jws_validate_safe; assumption|].
  intros [] _; [exact I | reflexivity].
Qed.

Theorem jws_deserialize_compact_safe g reg ka v :
  g_kid_repr g = true -> needs_jws_compact g = true -> jws_reg_wf reg = true ->
  safe (jws_deserialize_compact g P reg ka v).
Proof.
  intros K N W. unfold jws_deserialize_compact. apply safe_bind; [apply cinput_bytes_safe|].
  intros b _. apply jws_deserialize_compact_b_spec; assumption.
Qed.

(* the two public steps of deserialize_compact used separately: validate_compact on whatever
   extract_compact returned *)
Lemma jws_extract_then_validate_safe g reg ka value :
  g_kid_repr g = true -> needs_jws_compact g = true -> jws_reg_wf reg = true ->
  match jws_extract_compact g P value with
  | Ok o => safe (jws_validate g P reg ka true (cs_protected o) (cs_hseg o ++ 46 :: cs_pseg o) (cs_sseg o))
  | Err e => allowed_exn e = true
  end.
Proof.
  intros K N W. unfold needs_jws_compact in N. repeat (apply andb_true_iff in N; destruct N as [N ?]).
  pose proof (jws_extract_compact_spec g value N H1) as E.
  destruct (jws_extract_compact g P value) as [o|e]; [|exact E].
  destruct (cs_protected o) as [| | | | | |l|d] eqn:Pr; try discriminate.
  apply jws_validate_safe; assumption.
Qed.

Lemma decode_claims_safe g payload : g_rec_claims g = true -> safe (decode_claims g P payload).
Proof.
  intro G. unfold decode_claims. destruct (p_json_loads P payload) as [c|e] eqn:J.
  - destruct (is_dict c); [exact I | reflexivity].
  - destruct (H_json _ _ J); subst; [reflexivity | rewrite G; reflexivity].
Qed.

Theorem jwt_decode_jws_safe g reg ka v :
  g_kid_repr g = true -> needs_jws_compact g = true -> g_rec_claims g = true -> jws_reg_wf reg = true ->
  safe (jwt_decode_jws g P reg ka v).
Proof.
  intros K N G W. unfold jwt_decode_jws. apply safe_bind; [apply cinput_bytes_safe|]. intros b _.
  apply safe_bind; [apply jws_deserialize_compact_b_spec; assumption|]. intros o _.
  apply safe_bind; [apply decode_claims_safe; assumption|]. intros c _. exact I.
Qed.

Definition needs_7797_compact (g : guards) : bool := needs_jws_compact g && g_kt7797 g.

Theorem r7797_deserialize_compact_safe g reg0 reg7 ka v :
  g_kid_repr g = true -> needs_7797_compact g = true -> jws_reg_wf reg0 = true -> jws_reg_wf reg7 = true ->
  safe (r7797_deserialize_compact g P reg0 reg7 ka v).
Proof.
  intros KR N W0 W7. apply andb_true_iff in N. destruct N as [N K].
  pose proof N as N'. unfold needs_jws_compact in N'. repeat (apply andb_true_iff in N'; destruct N' as [N' ?]).
  unfold r7797_deserialize_compact. apply safe_bind; [apply cinput_bytes_safe|]. intros value _.
  destruct (split_dot value) as [|hs [|ps [|ss [|x r]]]]; try reflexivity.
  pose proof (decode_header_spec g hs N' H1) as D.
  destruct (decode_header g P hs) as [p|e]; cbn [bind]; [|exact D].
  destruct p as [| | | | | |l|d]; try discriminate.
  rewrite py_in_dict. cbn [bind].
  destruct (dmem d (SK "b64")) eqn:M; cbn [negb].
  2:{ apply jws_deserialize_compact_b_spec; assumption. }
  destruct (getitem_dict_mem _ _ M) as [b [Gb _]]. rewrite Gb. cbn [bind].
  destruct (is_true b); [apply jws_deserialize_compact_b_spec; assumption|].
  rewrite K. apply safe_bind; [apply jws_validate_safe; assumption|].
  intros [] _; [exact I | reflexivity].
Qed.


(* ---------------- JWS JSON serialization ---------------- *)
Definition hdr_ok (v : pv) : bool := match v with PNone | PDict _ => true | _ => false end.

Lemma update_if_truthy_ok rv v : hdr_ok v = true -> exists d, update_if_truthy rv v = Ok d.
Proof.
  destruct v; try discriminate; intros _; unfold update_if_truthy; cbn [py_truth]; eauto.
  destruct d; cbn [py_update]; eauto.
Qed.

Lemma member_headers_dict p h : hdr_ok p = true -> hdr_ok h = true ->
  exists d, member_headers p h = Ok (PDict d).
Proof.
  intros A B. unfold member_headers.
  destruct (update_if_truthy_ok [] p A) as [d1 E1]. rewrite E1. cbn [bind].
  destruct (update_if_truthy_ok d1 h B) as [d2 E2]. rewrite E2. cbn [bind]. eauto.
Qed.

Lemma opt_is_get d k p v : opt_is d k p = true -> dget d (SK k) = Some v -> p v = true.
Proof. unfold opt_is. intros H E. rewrite E in H. exact H. Qed.
Lemma req_is_get d k p : req_is d k p = true -> exists v, dget d (SK k) = Some v /\ p v = true.
Proof. unfold req_is. destruct (dget d (SK k)); [eauto | discriminate]. Qed.

Lemma getitem_of_dget d k v : dget d k = Some v -> py_getitem_str (PDict d) k = Ok v.
Proof. intro E. cbn [py_getitem_str]. rewrite E. reflexivity. Qed.
Lemma dmem_of_dget {A} (d : list (str * A)) k v : dget d k = Some v -> dmem d k = true.
Proof. unfold dmem. intro E. rewrite E. reflexivity. Qed.

Lemma opt_member_spec d k p :
  opt_is d k p = true ->
  exists v, opt_member (PDict d) k = Ok v /\ (if dmem d (SK k) then p v = true else v = PNone).
Proof.
  intro O. unfold opt_member. rewrite py_in_dict. cbn [bind].
  destruct (dmem d (SK k)) eqn:M; [|eauto].
  destruct (getitem_dict_mem _ _ M) as [v [G D]]. rewrite G. exists v. split; [reflexivity|].
  eapply opt_is_get; eauto.
Qed.

Lemma is_dict_hdr_ok v : is_dict v = true -> hdr_ok v = true.
Proof. destruct v; auto. Qed.

Lemma signature_to_member_spec g sig :
  g_rec_header g = true -> g_dict_jws_json g = true -> jws_sig_shape sig = true ->
  match signature_to_member g P sig with
  | Ok m => hdr_ok (fst m) = true /\ hdr_ok (snd m) = true
  | Err e => allowed_exn e = true
  end.
Proof.
  intros G1 G2 Sh. destruct sig; try discriminate. cbn [jws_sig_shape] in Sh.
  apply andb_true_iff in Sh. destruct Sh as [Sh Oh]. apply andb_true_iff in Sh. destruct Sh as [_ Op].
  unfold signature_to_member. rewrite py_in_dict. cbn [bind].
  assert (X : match (if dmem d (SK "protected")
                     then do seg <- py_getitem_str (PDict d) (SK "protected");
                          do p <- json_b64decode g P seg;
                          if g_dict_jws_json g && negb (is_dict p) then Err (EJose DecodeError) else Ok p
                     else Ok PNone) with
              | Ok p => hdr_ok p = true | Err e => allowed_exn e = true end).
  { destruct (dmem d (SK "protected")) eqn:M; [|reflexivity].
    destruct (getitem_dict_mem _ _ M) as [seg [Gs Ds]]. rewrite Gs. cbn [bind].
    pose proof (opt_is_get _ _ _ _ Op Ds) as IS.
    pose proof (json_b64decode_only g seg G1 (or_introl IS)) as J.
    destruct (json_b64decode g P seg) as [p|e]; cbn [bind]; [|rewrite (J e eq_refl); reflexivity].
    rewrite G2. destruct (is_dict p) eqn:D; cbn [negb andb]; [apply is_dict_hdr_ok; exact D | reflexivity]. }
  destruct (if dmem d (SK "protected") then _ else _) as [p|e]; cbn [bind]; [|exact X].
  destruct (opt_member_spec d "header" is_dict Oh) as [h [Eh Ph]]. rewrite Eh. cbn [bind fst snd].
  split; [exact X|]. destruct (dmem d (SK "header")); [apply is_dict_hdr_ok; exact Ph | subst; reflexivity].
Qed.

Lemma str_utf8_only v : is_str v = true -> only_value (str_utf8 v).
Proof. destruct v; try discriminate. intros _. apply encode_utf8_only. Qed.

Lemma verify_signature_safe g reg ka p h sig pseg :
  g_kid_repr g = true -> g_crit g = true -> g_eddsa g = true -> jws_reg_wf reg = true ->
  hdr_ok p = true -> hdr_ok h = true -> jws_sig_shape sig = true ->
  safe (verify_signature g P reg ka (p, h) sig pseg).
Proof.
  intros K G1 G2 W A B Sh. unfold verify_signature. cbn [fst snd].
  destruct (member_headers_dict p h A B) as [d E]. rewrite E. cbn [bind].
  pose proof W as W'. apply andb_true_iff in W'. destruct W' as [W1 _].
  apply safe_bind; [apply only_value_safe, jws_check_header_only; assumption|].
  intros [] Hc.
  destruct (jws_check_header_alg _ _ _ W Hc) as [s Ds].
  rewrite (getitem_of_dget _ _ _ Ds). cbn [bind].
  pose proof (jws_get_alg_spec g reg (PStr s) (or_intror eq_refl)) as Al.
  destruct (jws_get_alg g reg (PStr s)) as [row|e]; cbn [bind]; [|subst; reflexivity].
  apply safe_bind; [apply guess_key_safe; exact K|]. intros k _.
  apply safe_bind; [apply check_use_safe|]. intros _ _.
  unfold jws_check_key_type. destruct (String.eqb (k_kty k) (ja_key_type row)) eqn:KT; cbn [bind]; [|reflexivity].
  apply String.eqb_eq in KT.
  destruct sig as [| | | | | |l|sd]; try discriminate. cbn [jws_sig_shape] in Sh.
  apply andb_true_iff in Sh. destruct Sh as [Sh _]. apply andb_true_iff in Sh. destruct Sh as [Rs Op].
  rewrite py_in_dict. cbn [bind].
  apply safe_bind.
  { destruct (dmem sd (SK "protected")) eqn:M; [|exact I].
    destruct (getitem_dict_mem _ _ M) as [seg [Gs Dsg]]. rewrite Gs. cbn [bind].
    apply only_value_safe, str_utf8_only. eapply opt_is_get; eauto. }
  intros protseg _.
  destruct (req_is_get _ _ _ Rs) as [sv [Dsv ISv]]. rewrite (getitem_of_dget _ _ _ Dsv). cbn [bind].
  apply safe_bind; [apply only_value_safe, str_utf8_only; exact ISv|]. intros sb _.
  apply safe_bind; [apply b64d_safe|]. intros sigb _.
  apply jws_alg_verify_safe; assumption.
Qed.

Definition member_ok (ms : (pv * pv) * pv) : Prop :=
  hdr_ok (fst (fst ms)) = true /\ hdr_ok (snd (fst ms)) = true /\ jws_sig_shape (snd ms) = true.

Lemma verify_all_safe g reg ka pseg l :
  g_kid_repr g = true -> g_crit g = true -> g_eddsa g = true -> jws_reg_wf reg = true ->
  Forall member_ok l -> safe (verify_all g P reg ka pseg l).
Proof.
  intros K G1 G2 W F. induction F as [|[[p h] s] l [A [B C]] F IH]; [exact I|].
  cbn [verify_all]. apply safe_bind; [apply verify_signature_safe; assumption|].
  intros [] _; [exact IH | exact I].
Qed.

Lemma mapM_members g l :
  g_rec_header g = true -> g_dict_jws_json g = true -> forallb jws_sig_shape l = true ->
  match mapM (signature_to_member g P) l with
  | Ok ms => Forall member_ok (combine ms l)
  | Err e => allowed_exn e = true
  end.
Proof.
  intros G1 G2. induction l as [|x r IH]; intro F; [constructor|].
  cbn [forallb] in F. apply andb_true_iff in F. destruct F as [Fx Fr].
  cbn [mapM]. pose proof (signature_to_member_spec g x G1 G2 Fx) as Sx.
  destruct (signature_to_member g P x) as [m|e]; cbn [bind]; [|exact Sx].
  specialize (IH Fr). destruct (mapM (signature_to_member g P) r) as [ms|e]; cbn [bind]; [|exact IH].
  cbn [combine]. constructor; [|exact IH]. destruct Sx as [S1 S2]. repeat split; assumption.
Qed.

Lemma json_payload_safe d : req_is d "payload" is_str = true -> safe (json_payload (PDict d)).
Proof.
  intro R. unfold json_payload. destruct (req_is_get _ _ _ R) as [v [D IS]].
  rewrite (getitem_of_dget _ _ _ D). cbn [bind].
  apply safe_bind; [apply only_value_safe, str_utf8_only; exact IS|]. intros pseg _.
  apply safe_bind; [apply catch_b64d_safe|]. intros payload _. exact I.
Qed.

(* the _sig dict rebuilt from a flattened serialization has the signature shape again *)
Lemma flat_sig_spec d :
  jws_sig_shape (PDict d) = true ->
  exists sg, flat_sig (PDict d) = Ok sg /\ jws_sig_shape sg = true.
Proof.
  intro Sh. cbn [jws_sig_shape] in Sh.
  apply andb_true_iff in Sh. destruct Sh as [Sh Oh]. apply andb_true_iff in Sh. destruct Sh as [Rs Op].
  unfold flat_sig. destruct (req_is_get _ _ _ Rs) as [sv [Dsv ISv]]. rewrite (getitem_of_dget _ _ _ Dsv). cbn [bind].
  destruct (opt_member_spec d "protected" is_str Op) as [p [Ep Pp]]. rewrite Ep. cbn [bind].
  destruct (opt_member_spec d "header" is_dict Oh) as [h [Eh Ph]]. rewrite Eh. cbn [bind].
  rewrite !py_in_dict. cbn [bind]. eexists. split; [reflexivity|].
  destruct sv; try discriminate.
  destruct (dmem d (SK "protected")) eqn:Mp; destruct (dmem d (SK "header")) eqn:Mh;
    unfold jws_sig_shape, req_is, opt_is; cbn; try rewrite Pp; try rewrite Ph; reflexivity.
Qed.

Definition needs_jws_json (g : guards) : bool :=
  g_rec_header g && g_dict_jws_json g && g_crit g && g_eddsa g.

Theorem jws_deserialize_json_safe g reg ka value :
  g_kid_repr g = true -> needs_jws_json g = true -> jws_reg_wf reg = true -> jws_documented_shape value = true ->
  safe (jws_deserialize_json g P reg ka value).
Proof.
  intros K N W Sh. unfold needs_jws_json in N. repeat (apply andb_true_iff in N; destruct N as [N ?]).
  destruct value as [| | | | | |l0|d]; try discriminate. cbn [jws_documented_shape] in Sh.
  apply andb_true_iff in Sh. destruct Sh as [Rp Rest].
  unfold jws_deserialize_json. rewrite py_in_dict. cbn [bind].
  destruct (dmem d (SK "signatures")) eqn:M.
  - apply safe_bind; [apply json_payload_safe; exact Rp|]. intros pp _.
    destruct (req_is_get _ _ _ Rest) as [sv [Dsv Ls]]. rewrite (getitem_of_dget _ _ _ Dsv). cbn [bind].
    destruct sv as [| | | | | |l|sd]; try discriminate. cbn [list_of] in Ls. cbn [py_iter bind].
    pose proof (mapM_members g l N H1 Ls) as MM.
    destruct (mapM (signature_to_member g P) l) as [ms|e]; cbn [bind]; [|exact MM].
    destruct l as [|x r]; [reflexivity|].
    apply safe_bind; [apply verify_all_safe; assumption|]. intros [] _; [exact I | reflexivity].
  - apply safe_bind; [apply json_payload_safe; exact Rp|]. intros pp _.
    destruct (flat_sig_spec d Rest) as [sg [E Sg]]. rewrite E. cbn [bind].
    pose proof (signature_to_member_spec g sg N H1 Sg) as Sm.
    destruct (signature_to_member g P sg) as [[p h]|e]; cbn [bind]; [|exact Sm].
    cbn [fst snd] in Sm. destruct Sm as [S1 S2].
    apply safe_bind; [apply verify_signature_safe; assumption|]. intros [] _; [exact I | reflexivity].
Qed.

Definition needs_7797_json (g : guards) : bool := needs_jws_json g && g_dict_7797_json g.

Theorem r7797_deserialize_json_safe g reg0 reg7 ka value :
  g_kid_repr g = true -> needs_7797_json g = true -> jws_reg_wf reg0 = true -> jws_reg_wf reg7 = true ->
  jws_documented_shape value = true ->
  safe (r7797_deserialize_json g P reg0 reg7 ka value).
Proof.
  intros K N W0 W7 Sh. apply andb_true_iff in N. destruct N as [N G7].
  pose proof N as N'. unfold needs_jws_json in N'. repeat (apply andb_true_iff in N'; destruct N' as [N' ?]).
  destruct value as [| | | | | |l0|d] eqn:EV; try discriminate. rewrite <- EV in *.
  assert (J0 : forall reg, jws_reg_wf reg = true -> safe (jws_deserialize_json g P reg ka value))
    by (intros; apply jws_deserialize_json_safe; assumption).
  rewrite EV in Sh |- *. cbn [jws_documented_shape] in Sh.
  apply andb_true_iff in Sh. destruct Sh as [Rp Rest].
  unfold r7797_deserialize_json. rewrite py_in_dict. cbn [bind].
  destruct (dmem d (SK "signatures")) eqn:M; [rewrite <- EV; apply J0; assumption|].
  pose proof Rest as Rest'. cbn [jws_sig_shape] in Rest'.
  apply andb_true_iff in Rest'. destruct Rest' as [Sh Oh]. apply andb_true_iff in Sh. destruct Sh as [Rs Op].
  rewrite py_in_dict. cbn [bind].
  assert (X : match (if dmem d (SK "protected")
                     then do seg <- py_getitem_str (PDict d) (SK "protected");
                          do segb <- to_bytes false seg;
                          do p <- json_b64decode g P (PBytes segb);
                          if g_dict_7797_json g && negb (is_dict p) then Err (EJose DecodeError) else Ok p
                     else Ok PNone) with
              | Ok p => hdr_ok p = true | Err e => allowed_exn e = true end).
  { destruct (dmem d (SK "protected")) eqn:Mp; [|reflexivity].
    destruct (getitem_dict_mem _ _ Mp) as [seg [Gs Ds]]. rewrite Gs. cbn [bind].
    pose proof (opt_is_get _ _ _ _ Op Ds) as IS. destruct seg; try discriminate.
    pose proof (to_bytes_str_only false s) as TB.
    destruct (to_bytes false (PStr s)) as [segb|e]; cbn [bind]; [|rewrite (TB e eq_refl); reflexivity].
    pose proof (json_b64decode_only g (PBytes segb) N' (or_intror (ex_intro _ segb eq_refl))) as J.
    destruct (json_b64decode g P (PBytes segb)) as [p|e]; cbn [bind]; [|rewrite (J e eq_refl); reflexivity].
    rewrite G7. destruct (is_dict p) eqn:D; cbn [negb andb]; [apply is_dict_hdr_ok; exact D | reflexivity]. }
  destruct (if dmem d (SK "protected") then _ else _) as [p|e]; cbn [bind]; [|exact X].
  assert (Hh : exists h, py_get_str (PDict d) (SK "header") = Ok h /\ hdr_ok h = true).
  { cbn [py_get_str]. destruct (dget d (SK "header")) as [h|] eqn:Dh; [|eauto].
    exists h. split; [reflexivity|]. apply is_dict_hdr_ok. eapply opt_is_get; eauto. }
  destruct Hh as [h [Eh Hh]]. rewrite Eh. cbn [bind].
  apply safe_bind.
  { unfold check_unprotected_header. destruct h as [| | | | | |hl|hd0]; try discriminate.
    - cbn [py_truth]. rewrite andb_false_r. exact I.
    - destruct (dmem d (SK "protected") && py_truth (PDict hd0)); [|exact I].
      rewrite py_in_dict. cbn [bind]. destruct (dmem hd0 (SK "b64")); [reflexivity | exact I]. }
  intros _ _.
  destruct (member_headers_dict p h X Hh) as [hd Ehd]. rewrite Ehd. cbn [bind].
  rewrite py_in_dict. cbn [bind].
  destruct (dmem hd (SK "b64")) eqn:Mb; cbn [negb]; [|rewrite <- EV; apply J0; assumption].
  destruct (req_is_get _ _ _ Rp) as [pv_ [Dp ISp]]. rewrite (getitem_of_dget _ _ _ Dp). cbn [bind].
  destruct pv_; try discriminate.
  apply safe_bind; [apply to_bytes_str_safe|]. intros payload _.
  destruct (flat_sig_spec d Rest) as [sg [E Sg]]. rewrite E. cbn [bind].
  destruct (getitem_dict_mem _ _ Mb) as [b [Gb _]]. rewrite Gb. cbn [bind].
  destruct (is_true b); [rewrite <- EV; apply J0; assumption|].
  apply safe_bind; [apply verify_signature_safe; assumption|]. intros [] _; [exact I | reflexivity].
Qed.

(* ---------------- JWE: registry ---------------- *)
Lemma jwe_check_algorithm_spec g reg names name :
  g_algstr_jwe g = true ->
  match jwe_check_algorithm g reg names name with
  | Ok _ => exists s, name = PStr s /\ existsb (fun n => str_eqb (SK n) s) names = true
  | Err e => e = EJose UnsupportedAlgorithmError
  end.
Proof.
  intro G. unfold jwe_check_algorithm. rewrite G.
  destruct name; cbn [is_str negb andb]; try reflexivity.
  cbn [name_in_table bind].
  destruct (existsb (fun n => str_eqb (SK n) s) names) eqn:E; cbn [negb]; [|reflexivity].
  destruct (allowed_name _ _ _); [eauto | reflexivity].
Qed.

Lemma jwe_get_spec {A} g reg (nm : A -> string) (tbl : list A) name :
  g_algstr_jwe g = true ->
  match (do _ <- jwe_check_algorithm g reg (map nm tbl) name; find_by_name nm tbl name) with
  | Ok row => In row tbl
  | Err e => e = EJose UnsupportedAlgorithmError
  end.
Proof.
  intro G. pose proof (jwe_check_algorithm_spec g reg (map nm tbl) name G) as C.
  destruct (jwe_check_algorithm g reg (map nm tbl) name) as [u|e]; cbn [bind]; [|exact C].
  destruct C as [s [Es Ex]]. subst name. unfold find_by_name.
  destruct (existsb_find nm tbl s Ex) as [r F]. rewrite F. apply find_some in F. tauto.
Qed.

Lemma jwe_get_alg_spec g reg name : g_algstr_jwe g = true ->
  match jwe_get_alg g reg name with Ok row => In row (alg_tbl reg) | Err e => e = EJose UnsupportedAlgorithmError end.
Proof. apply jwe_get_spec. Qed.
Lemma jwe_get_enc_safe g reg name : g_algstr_jwe g = true -> safe (jwe_get_enc g reg name).
Proof.
  intro G. pose proof (jwe_get_spec g reg ee_name (enc_tbl reg) name G) as X. unfold jwe_get_enc.
  destruct (do _ <- _; _); [exact I | subst; reflexivity].
Qed.
Lemma jwe_get_zip_safe g reg name : g_algstr_jwe g = true -> safe (jwe_get_zip g reg name).
Proof.
  intro G. pose proof (jwe_get_spec g reg ez_name (zip_tbl reg) name G) as X. unfold jwe_get_zip.
  destruct (do _ <- _; _); [exact I | subst; reflexivity].
Qed.

(* table facts about the registered key-management algorithms *)
Definition has_param (l : list hparam) (name : string) (is_kind : vkind -> bool) (req : bool) : bool :=
  existsb (fun p => String.eqb (hp_name p) name && is_kind (hp_kind p) && Bool.eqb (hp_required p) req) l.
Definition is_VStr k := match k with VStr => true | _ => false end.
Definition is_VInt k := match k with VInt => true | _ => false end.
Definition is_VJwk k := match k with VJwk => true | _ => false end.

Definition agreement_params (r : jwe_alg_row) : bool :=
  has_param (ea_more r) "epk" is_VJwk true && has_param (ea_more r) "apu" is_VStr false
  && has_param (ea_more r) "apv" is_VStr false.

Definition row_ok (r : jwe_alg_row) : bool :=
  known_family (ea_family r) && hreg_wf (ea_more r) &&
  (* only ECDH-1PU is tag aware (other agreement algorithms raise NotImplementedError there) *)
  (negb (ea_tag_aware r) || String.eqb (ea_family r) "ECDH1PU") &&
  (if String.eqb (ea_family r) "ECDHES" then agreement_params r
   else if String.eqb (ea_family r) "ECDH1PU"
   then agreement_params r && forallb (fun t => String.eqb t "EC" || String.eqb t "OKP") (ea_key_types r)
   else if String.eqb (ea_family r) "PBES2"
   then has_param (ea_more r) "p2s" is_VStr true && has_param (ea_more r) "p2c" is_VInt true
   else if String.eqb (ea_family r) "AESGCMKW"
   then has_param (ea_more r) "iv" is_VStr true && has_param (ea_more r) "tag" is_VStr true
   else true).

Lemma jwe_table_ok : forallb row_ok jwe_alg_table = true /\ forallb row_ok jwe_alg_table_drafts = true.
Proof. vm_compute. auto. Qed.

Lemma row_ok_In reg r : In r (alg_tbl reg) -> row_ok r = true.
Proof.
  intro I. destruct jwe_table_ok as [T1 T2]. unfold alg_tbl in I.
  destruct (er_drafts reg); [rewrite forallb_forall in T2; apply T2 | rewrite forallb_forall in T1; apply T1]; exact I.
Qed.

Lemma has_param_In l name is_kind req :
  has_param l name is_kind req = true ->
  exists k, In {| hp_name := name; hp_kind := k; hp_required := req |} l /\ is_kind k = true.
Proof.
  unfold has_param. intro H. apply existsb_exists in H. destruct H as [p [I H]].
  apply andb_true_iff in H. destruct H as [H R]. apply andb_true_iff in H. destruct H as [N K].
  apply String.eqb_eq in N. apply Bool.eqb_prop in R. destruct p as [n k r]. simpl in *. subst. eauto.
Qed.

Lemma validated_opt_str more d cr name :
  validate_registry_header more (PDict d) cr = Ok tt -> has_param more name is_VStr false = true ->
  exists v, py_get_str (PDict d) (SK name) = Ok v /\ (v = PNone \/ is_str v = true).
Proof.
  intros V H. destruct (has_param_In _ _ _ _ H) as [k [I K]]. destruct k; try discriminate.
  pose proof (vrh_member _ _ _ _ _ _ V I) as M. cbn [py_get_str].
  destruct (dget d (SK name)) as [v|]; [|eauto].
  exists v. split; [reflexivity|]. right. cbn [validate_kind] in M. destruct (is_str v); [reflexivity | discriminate].
Qed.

Lemma validated_req more d name is_kind :
  validate_registry_header more (PDict d) true = Ok tt -> has_param more name is_kind true = true ->
  exists k v, is_kind k = true /\ dget d (SK name) = Some v /\ validate_kind k v = Ok tt.
Proof.
  intros V H. destruct (has_param_In _ _ _ _ H) as [k [I K]].
  pose proof (vrh_member _ _ _ _ _ _ V I) as M.
  destruct (dget d (SK name)) as [v|]; [eauto | discriminate].
Qed.

Lemma jwe_check_header_spec g reg d :
  g_crit g = true -> g_algstr_jwe g = true -> jwe_reg_wf reg = true ->
  match jwe_check_header g reg (PDict d) true with
  | Ok _ => exists s row, dget d (SK "alg") = Some (PStr s) /\ jwe_get_alg g reg (PStr s) = Ok row /\
                          In row (alg_tbl reg) /\
                          validate_registry_header (ea_more row) (PDict d) true = Ok tt
  | Err e => allowed_exn e = true
  end.
Proof.
  intros G1 G2 W. apply andb_true_iff in W. destruct W as [W1 W2].
  unfold jwe_check_header.
  pose proof (check_crit_only g d G1) as C.
  destruct (check_crit_header g (PDict d)) as [u|e]; cbn [bind]; [|rewrite (C e eq_refl); reflexivity].
  pose proof (vrh_safe (er_hreg reg) d true W1) as V.
  destruct (validate_registry_header (er_hreg reg) (PDict d) true) as [[]|e] eqn:EV; cbn [bind];
    [|rewrite (V e eq_refl); reflexivity].
  destruct (vrh_required_str _ _ _ EV W2) as [s Ds]. rewrite (getitem_of_dget _ _ _ Ds). cbn [bind].
  pose proof (jwe_get_alg_spec g reg (PStr s) G2) as A.
  destruct (jwe_get_alg g reg (PStr s)) as [row|e] eqn:EA; cbn [bind]; [|subst; reflexivity].
  pose proof (row_ok_In reg row A) as RO. unfold row_ok in RO.
  apply andb_true_iff in RO. destruct RO as [RO _]. apply andb_true_iff in RO. destruct RO as [RO _].
  apply andb_true_iff in RO. destruct RO as [_ WM].
  destruct (ea_more row) as [|m0 mr] eqn:EM.
  - assert (X : safe (if er_strict reg then check_supported_header (er_hreg reg) (PDict d) else Ok tt)).
    { destruct (er_strict reg); [apply only_value_safe, check_supported_only | exact I]. }
    destruct (if er_strict reg then _ else _) as [[]|e]; [|exact X].
    exists s, row. rewrite EM. repeat split; auto.
  - pose proof (vrh_safe (m0 :: mr) d true WM) as V2.
    destruct (validate_registry_header (m0 :: mr) (PDict d) true) as [[]|e] eqn:EV2; cbn [bind];
      [|rewrite (V2 e eq_refl); reflexivity].
    assert (X : safe (if er_strict reg then check_supported_header (er_hreg reg ++ m0 :: mr) (PDict d) else Ok tt)).
    { destruct (er_strict reg); [apply only_value_safe, check_supported_only | exact I]. }
    destruct (if er_strict reg then _ else _) as [[]|e]; [|exact X].
    exists s, row. rewrite EM. repeat split; auto.
Qed.

(* ---------------- JWE: embedded key import ---------------- *)
Lemma choice_mem_str cs v : choice_mem cs v = true -> exists c, In c cs /\ v = PStr (asc c).
Proof.
  unfold choice_mem. intro H. apply existsb_exists in H. destruct H as [c [I E]].
  exists c. split; [exact I|]. destruct v; try discriminate. cbn [py_eq] in E.
  apply str_eqb_eq in E. subst. reflexivity.
Qed.

Lemma jwk_regs_wf :
  hreg_wf (map kp_as_h jwk_parameter_registry) = true /\
  hreg_wf (map kp_as_h value_registry_EC) = true /\ hreg_wf (map kp_as_h value_registry_OKP) = true.
Proof. vm_compute. auto. Qed.

Definition use_choices_ok : bool :=
  existsb (fun p => String.eqb (hp_name p) "use" &&
                    match choices_of (hp_kind p) with
                    | Some cs => forallb (fun c => existsb (fun q => String.eqb (fst q) c) use_key_ops_registry) cs
                    | None => false
                    end) (map kp_as_h jwk_parameter_registry) &&
  forallb (fun p => if String.eqb (hp_name p) "use" || String.eqb (hp_name p) "key_ops"
                    then match choices_of (hp_kind p) with Some _ => true | None => false end else true)
          (map kp_as_h jwk_parameter_registry) &&
  existsb (fun p => String.eqb (hp_name p) "key_ops") (map kp_as_h jwk_parameter_registry).
Lemma use_choices_fact : use_choices_ok = true.
Proof. vm_compute. reflexivity. Qed.

Lemma find_use_some us cs :
  forallb (fun c => existsb (fun q => String.eqb (fst q) c) use_key_ops_registry) cs = true ->
  choice_mem cs (PStr us) = true ->
  exists p, find (fun p : string * list string => str_eqb (SK (fst p)) us) use_key_ops_registry = Some p.
Proof.
  intros F C. destruct (choice_mem_str _ _ C) as [c [I E]]. inversion E; subst.
  rewrite forallb_forall in F. specialize (F c I). apply existsb_exists in F. destruct F as [q [Iq Eq]].
  apply String.eqb_eq in Eq. subst c.
  destruct (find (fun p : string * list string => str_eqb (asc (fst p)) (asc (fst q))) use_key_ops_registry) eqn:Fd; [eauto|].
  pose proof (find_none _ _ Fd q Iq) as N. cbn beta in N. rewrite str_eqb_refl in N. discriminate.
Qed.

Lemma ops_loop_only l ops : only_value (ops_loop l ops).
Proof. induction l as [|o r IH]; intros e H; cbn [ops_loop] in H; [discriminate|]. destruct (choice_mem ops o); [eapply IH; eauto | congruence]. Qed.

Lemma choice_valid_str k cs s :
  choices_of k = Some cs -> validate_kind k (PStr s) = Ok tt -> choice_mem cs (PStr s) = true.
Proof.
  intros C V. destruct k; try discriminate; inversion C; subst; cbn [validate_kind] in V;
    destruct (choice_mem cs (PStr s)); congruence.
Qed.

Lemma choice_valid_iter k cs v :
  choices_of k = Some cs -> validate_kind k v = Ok tt -> exists l, py_iter v = Ok l.
Proof.
  intros C V. destruct k; try discriminate; inversion C; subst; cbn [validate_kind] in V;
    destruct v; try discriminate; cbn [py_iter]; eauto;
    match type of V with context [choice_mem ?c ?x] => destruct (choice_mem c x) eqn:CM; [|discriminate] end;
    destruct (choice_mem_str _ _ CM) as [c [_ Ec]]; discriminate.
Qed.

Lemma validate_use_ops_only g d :
  g_use_str g = true ->
  validate_registry_header (map kp_as_h jwk_parameter_registry) (PDict d) true = Ok tt ->
  only_value (validate_use_ops g (PDict d)).
Proof.
  intros G V e H. unfold validate_use_ops in H. rewrite !py_in_dict in H. cbn [bind] in H.
  destruct (dmem d (SK "use")) eqn:Mu; destruct (dmem d (SK "key_ops")) eqn:Mk; cbn [andb] in H; try discriminate.
  destruct (getitem_dict_mem _ _ Mu) as [u [Gu Du]]. rewrite Gu in H. cbn [bind] in H. rewrite G in H.
  destruct u; cbn [is_str negb andb] in H; try congruence.
  pose proof use_choices_fact as UF. unfold use_choices_ok in UF.
  apply andb_true_iff in UF. destruct UF as [UF KO]. apply andb_true_iff in UF. destruct UF as [U1 U2].
  apply existsb_exists in U1. destruct U1 as [pu [Iu U1]]. apply andb_true_iff in U1. destruct U1 as [Nu Ku].
  apply String.eqb_eq in Nu. destruct pu as [nu ku ru]. cbn [hp_name hp_kind] in *. subst nu.
  destruct (choices_of ku) as [cs|] eqn:Cu; [|discriminate].
  pose proof (vrh_member _ _ _ _ _ _ V Iu) as M. rewrite Du in M.
  pose proof (choice_valid_str _ _ _ Cu M) as CM.
  destruct (find_use_some s cs Ku CM) as [[un ops] F]. rewrite F in H.
  destruct (getitem_dict_mem _ _ Mk) as [ko [Gk Dk]]. rewrite Gk in H. cbn [bind] in H.
  apply existsb_exists in KO. destruct KO as [pk [Ik Nk]]. apply String.eqb_eq in Nk.
  rewrite forallb_forall in U2. pose proof (U2 pk Ik) as Kk. destruct pk as [nk kk rk]. cbn [hp_name hp_kind] in *. subst nk.
  rewrite String.eqb_refl, orb_true_r in Kk. destruct (choices_of kk) as [cs2|] eqn:Ck; [|discriminate].
  pose proof (vrh_member _ _ _ _ _ _ V Ik) as M2. rewrite Dk in M2.
  destruct (choice_valid_iter _ _ _ Ck M2) as [l El]. rewrite El in H. cbn [bind] in H.
  eapply ops_loop_only; eauto.
Qed.

Lemma validate_dict_key_only g vreg d :
  g_use_str g = true -> hreg_wf (map kp_as_h vreg) = true -> only_value (validate_dict_key g vreg (PDict d)).
Proof.
  intros G W e H. unfold validate_dict_key in H. destruct jwk_regs_wf as [W0 _].
  pose proof (vrh_safe _ d true W0) as V1.
  destruct (validate_registry_header (map kp_as_h jwk_parameter_registry) (PDict d) true) as [[]|e1] eqn:E1;
    cbn [bind] in H; [|inversion H; subst; apply V1; reflexivity].
  pose proof (vrh_safe _ d true W) as V2.
  destruct (validate_registry_header (map kp_as_h vreg) (PDict d) true) as [[]|e2] eqn:E2;
    cbn [bind] in H; [|inversion H; subst; apply V2; reflexivity].
  eapply validate_use_ops_only; eauto.
Qed.

(* the imported key has the recipient key's type *)
Lemma import_epk_spec g rk epk :
  g_use_str g = true -> g_crv_ec g = true -> g_crv_okp g = true -> is_dict epk = true ->
  match import_epk g P rk epk with Ok k => k_kty k = k_kty rk | Err e => allowed_exn e = true end.
Proof.
  intros G1 G2 G3 D. destruct epk; try discriminate. unfold import_epk.
  destruct jwk_regs_wf as [_ [WE WO]].
  set (vreg := if String.eqb (k_kty rk) "EC" then value_registry_EC else value_registry_OKP).
  assert (WV : hreg_wf (map kp_as_h vreg) = true) by (unfold vreg; destruct (String.eqb (k_kty rk) "EC"); assumption).
  pose proof (validate_dict_key_only g vreg d G1 WV) as VD.
  destruct (validate_dict_key g vreg (PDict d)) as [[]|e] eqn:Hv; cbn [bind]; [|rewrite (VD e eq_refl); reflexivity].
  unfold validate_dict_key in Hv. inv_bind Hv. inv_bind Hv. destruct a, a0.
  assert (Hc : exists s, dget d (SK "crv") = Some (PStr s)).
  { eapply vrh_required_str; [exact Ha0|]. unfold vreg. destruct (String.eqb (k_kty rk) "EC"); vm_compute; reflexivity. }
  destruct Hc as [s Ds]. rewrite (getitem_of_dget _ _ _ Ds). cbn [bind].
  destruct (negb _) eqn:Kn.
  - destruct (String.eqb (k_kty rk) "EC"); [rewrite G2 | rewrite G3]; reflexivity.
  - pose proof (H_import (k_kty rk) d (dmem d (SK "d"))) as HI.
    destruct (p_import_epk P (k_kty rk) d (dmem d (SK "d"))) as [[]|e]; cbn [bind]; [|exact HI].
    pose proof (validate_dict_key_only g vreg (dset d (SK "kty") (PStr (SK (k_kty rk)))) G1 WV) as VD2.
    destruct (validate_dict_key g vreg (PDict (dset d (SK "kty") (PStr (SK (k_kty rk)))))) as [[]|e]; cbn [bind];
      [reflexivity | rewrite (VD2 e eq_refl); reflexivity].
Qed.

(* ---------------- JWE: derive_key ---------------- *)
Lemma u32be_len_safe s b : s = PNone \/ is_str s = true \/ (exists x, s = PBytes x) -> safe (u32be_len_input s b).
Proof.
  intros [E | [E | [x E]]]; [subst; exact I| |].
  - destruct s; try discriminate. unfold u32be_len_input.
    destruct (negb (py_truth (PStr s))); [exact I|].
    apply safe_bind; [|intros; exact I].
    destruct b; [apply safe_bind; [apply to_bytes_str_safe | intros; apply b64d_safe] | apply to_bytes_str_safe].
  - subst. unfold u32be_len_input. destruct (negb (py_truth (PBytes x))); [exact I|].
    apply safe_bind; [|intros; exact I].
    destruct b; [cbn [to_bytes bind]; apply b64d_safe | exact I].
Qed.

Lemma derive_key_safe shared d cek ks more sa se tag :
  validate_registry_header more (PDict d) true = Ok tt ->
  has_param more "apu" is_VStr false = true -> has_param more "apv" is_VStr false = true ->
  dget d (SK "alg") = Some (PStr sa) -> dget d (SK "enc") = Some (PStr se) ->
  safe (derive_key_for_concat_kdf P shared (PDict d) cek ks tag).
Proof.
  intros V Hu Hv Da De. unfold derive_key_for_concat_kdf.
  destruct (validated_opt_str _ _ _ _ V Hu) as [u [Eu Pu]]. rewrite Eu. cbn [bind].
  apply safe_bind; [apply u32be_len_safe; tauto|]. intros apu _.
  destruct (validated_opt_str _ _ _ _ V Hv) as [v [Ev Pv]]. rewrite Ev. cbn [bind].
  apply safe_bind; [apply u32be_len_safe; tauto|]. intros apv _.
  assert (X : exists sx, py_getitem_str (PDict d) (SK match ks with Some _ => "alg" | None => "enc" end) = Ok (PStr sx)).
  { destruct ks; [exists sa; apply getitem_of_dget; exact Da | exists se; apply getitem_of_dget; exact De]. }
  destruct X as [sx Ex]. rewrite Ex. cbn [bind].
  apply safe_bind; [apply u32be_len_safe; right; left; reflexivity|]. intros alg_id _.
  apply safe_bind; [|intros; apply H_kdf].
  destruct tag as [[|x y]|]; exact I.
Qed.

Lemma key_type_in_safe k l : safe (key_type_in k l).
Proof. unfold key_type_in. destruct (existsb _ l); [exact I | reflexivity]. Qed.
Lemma get_op_key_safe k op : safe (get_op_key k op).
Proof. unfold get_op_key. destruct (existsb _ _); [reflexivity | exact I]. Qed.
Lemma check_op_key_safe sz k : safe (check_op_key sz k).
Proof. unfold check_op_key. destruct sz; [destruct (_ =? _); [exact I | reflexivity] | exact I]. Qed.
Lemma unwrap_cek_safe sz ek kek : safe (unwrap_cek P sz ek kek).
Proof. unfold unwrap_cek. apply safe_bind; [apply check_op_key_safe|]. intros. apply H_aes. Qed.

Lemma exchange_safe g self other :
  g_exchange_type g = true -> safe (exchange_derive_key g P self other).
Proof.
  intro G. unfold exchange_derive_key. rewrite G. cbn [andb].
  destruct (String.eqb (k_kty self) "EC").
  - destruct (String.eqb (k_kty other) "EC"); cbn [negb]; [|reflexivity].
    apply safe_bind; [apply get_op_key_safe|]. intros _ _.
    destruct (negb (k_private self)); [reflexivity|].
    destruct (String.eqb (k_crv self) (k_crv other)); [apply H_ecdh | reflexivity].
  - apply safe_bind; [apply get_op_key_safe|]. intros _ _.
    destruct (_ || _); [apply H_ecdh | reflexivity].
Qed.

Definition needs_km (g : guards) : bool :=
  g_use_str g && g_crv_ec g && g_crv_okp g && g_p2c g && g_1pu_sender g && g_exchange_type g && g_1pu_keytype g.

Lemma decrypt_agreed_safe g alg enc d r sa se :
  needs_km g = true -> agreement_params alg = true ->
  validate_registry_header (ea_more alg) (PDict d) true = Ok tt ->
  dget d (SK "alg") = Some (PStr sa) -> dget d (SK "enc") = Some (PStr se) ->
  safe (decrypt_agreed_upon_key g P alg enc (PDict d) r).
Proof.
  intros N AP V Da De. unfold needs_km in N. repeat (apply andb_true_iff in N; destruct N as [N ?]).
  unfold agreement_params in AP. apply andb_true_iff in AP. destruct AP as [AP Hv].
  apply andb_true_iff in AP. destruct AP as [He Hu].
  destruct (validated_req _ _ _ _ V He) as [k [epk [Kk [Depk Vk]]]]. destruct k; try discriminate.
  unfold decrypt_agreed_upon_key. rewrite py_in_dict. cbn [bind].
  rewrite (dmem_of_dget _ _ _ Depk). cbn [assert_ bind].
  apply safe_bind; [apply key_type_in_safe|]. intros _ _.
  rewrite (getitem_of_dget _ _ _ Depk). cbn [bind].
  cbn [validate_kind] in Vk. destruct (is_dict epk) eqn:ID; [|discriminate].
  pose proof (import_epk_spec g (rc_key r) epk N H4 H3 ID) as IE.
  destruct (import_epk g P (rc_key r) epk) as [ek|e]; cbn [bind]; [|exact IE].
  apply safe_bind; [apply exchange_safe; assumption|]. intros shared _.
  eapply derive_key_safe; eauto.
Qed.

Lemma decrypt_agreed_1pu_safe g alg enc d r sa se tag :
  needs_km g = true -> agreement_params alg = true ->
  forallb (fun t => String.eqb t "EC" || String.eqb t "OKP") (ea_key_types alg) = true ->
  validate_registry_header (ea_more alg) (PDict d) true = Ok tt ->
  dget d (SK "alg") = Some (PStr sa) -> dget d (SK "enc") = Some (PStr se) ->
  safe (decrypt_agreed_upon_key_1pu g P alg enc (PDict d) r tag).
Proof.
  intros N AP KT V Da De. pose proof N as N'. unfold needs_km in N'. repeat (apply andb_true_iff in N'; destruct N' as [N' ?]).
  unfold agreement_params in AP. apply andb_true_iff in AP. destruct AP as [AP Hv].
  apply andb_true_iff in AP. destruct AP as [He Hu].
  destruct (validated_req _ _ _ _ V He) as [k [epk [Kk [Depk Vk]]]]. destruct k; try discriminate.
  unfold decrypt_agreed_upon_key_1pu.
  destruct (negb (ea_direct alg) && negb (String.eqb (ee_family enc) "CBCHS")); [reflexivity|].
  rewrite py_in_dict. cbn [bind]. rewrite (dmem_of_dget _ _ _ Depk). cbn [assert_ bind].
  destruct (rc_sender r) as [sk|]; [|rewrite H1; reflexivity].
  rewrite H. unfold key_type_in.
  destruct (existsb (String.eqb (k_kty (rc_key r))) (ea_key_types alg)) eqn:EX; cbn [bind]; [|reflexivity].
  apply existsb_exists in EX. destruct EX as [t [It Et]]. apply String.eqb_eq in Et.
  rewrite forallb_forall in KT. specialize (KT t It). rewrite <- Et in KT.
  assert (X : negb (String.eqb (k_kty (rc_key r)) "EC") && negb (String.eqb (k_kty (rc_key r)) "OKP") = false).
  { destruct (String.eqb (k_kty (rc_key r)) "EC"); [reflexivity|]. cbn in KT. rewrite KT. reflexivity. }
  rewrite X.
  rewrite (getitem_of_dget _ _ _ Depk). cbn [bind].
  cbn [validate_kind] in Vk. destruct (is_dict epk) eqn:ID; [|discriminate].
  pose proof (import_epk_spec g (rc_key r) epk N' H4 H3 ID) as IE.
  destruct (import_epk g P (rc_key r) epk) as [ek|e]; cbn [bind]; [|exact IE].
  apply safe_bind; [apply exchange_safe; assumption|]. intros s1 _.
  apply safe_bind; [apply exchange_safe; assumption|]. intros s2 _.
  eapply derive_key_safe; eauto.
Qed.

Lemma pbes2_safe g alg d r ek :
  g_p2c g = true ->
  has_param (ea_more alg) "p2s" is_VStr true = true -> has_param (ea_more alg) "p2c" is_VInt true = true ->
  validate_registry_header (ea_more alg) (PDict d) true = Ok tt -> rc_ek r = Some ek ->
  safe (pbes2_decrypt_cek g P alg (PDict d) r).
Proof.
  intros G Hs Hc V EK.
  destruct (validated_req _ _ _ _ V Hs) as [k1 [p2s [K1 [D1 V1]]]]. destruct k1; try discriminate.
  destruct (validated_req _ _ _ _ V Hc) as [k2 [p2c [K2 [D2 V2]]]]. destruct k2; try discriminate.
  unfold pbes2_decrypt_cek. rewrite !py_in_dict. cbn [bind].
  rewrite (dmem_of_dget _ _ _ D1). cbn [assert_ bind]. rewrite (dmem_of_dget _ _ _ D2). cbn [assert_ bind].
  rewrite (getitem_of_dget _ _ _ D1). cbn [bind].
  cbn [validate_kind] in V1. destruct p2s; try discriminate.
  apply safe_bind; [apply to_bytes_str_safe|]. intros p2sb _.
  apply safe_bind; [apply b64d_safe|]. intros salt _.
  rewrite (getitem_of_dget _ _ _ D2). cbn [bind].
  apply safe_bind; [apply key_type_in_safe|]. intros _ _.
  apply safe_bind; [apply get_op_key_safe|]. intros _ _.
  cbn [validate_kind] in V2. destruct p2c; try discriminate.
  apply safe_bind.
  { rewrite G. cbn [andb]. destruct ((1 <=? z)%Z && (z <=? 2147483647)%Z) eqn:R; cbn [negb]; [|reflexivity].
    apply H_pbkdf2. apply andb_true_iff in R. destruct R as [R1 R2]. apply Z.leb_le in R1. apply Z.leb_le in R2. lia. }
  intros kek _. unfold ek_or_assert. rewrite EK. cbn [bind]. apply unwrap_cek_safe.
Qed.

Lemma gcmkw_safe alg d r ek :
  has_param (ea_more alg) "iv" is_VStr true = true -> has_param (ea_more alg) "tag" is_VStr true = true ->
  validate_registry_header (ea_more alg) (PDict d) true = Ok tt -> rc_ek r = Some ek ->
  safe (gcmkw_decrypt_cek P alg (PDict d) r).
Proof.
  intros Hi Ht V EK.
  destruct (validated_req _ _ _ _ V Hi) as [k1 [iv [K1 [D1 V1]]]]. destruct k1; try discriminate.
  destruct (validated_req _ _ _ _ V Ht) as [k2 [tg [K2 [D2 V2]]]]. destruct k2; try discriminate.
  unfold gcmkw_decrypt_cek.
  apply safe_bind; [apply key_type_in_safe|]. intros _ _.
  apply safe_bind; [apply get_op_key_safe|]. intros _ _.
  apply safe_bind; [apply check_op_key_safe|]. intros _ _.
  rewrite !py_in_dict. cbn [bind].
  rewrite (dmem_of_dget _ _ _ D1). cbn [assert_ bind]. rewrite (dmem_of_dget _ _ _ D2). cbn [assert_ bind].
  rewrite (getitem_of_dget _ _ _ D1). cbn [bind].
  cbn [validate_kind] in V1, V2. destruct iv; try discriminate. destruct tg; try discriminate.
  apply safe_bind; [apply to_bytes_str_safe|]. intros ivb _.
  apply safe_bind; [apply b64d_safe|]. intros ivd _.
  rewrite (getitem_of_dget _ _ _ D2). cbn [bind].
  apply safe_bind; [apply to_bytes_str_safe|]. intros tgb _.
  apply safe_bind; [apply b64d_safe|]. intros tgd _.
  unfold ek_or_assert. rewrite EK. cbn [bind]. apply H_gcm.
Qed.

Lemma decrypt_recipient_safe g reg alg enc d r ek sa se tag :
  needs_km g = true -> In alg (alg_tbl reg) ->
  validate_registry_header (ea_more alg) (PDict d) true = Ok tt -> rc_ek r = Some ek ->
  dget d (SK "alg") = Some (PStr sa) -> dget d (SK "enc") = Some (PStr se) ->
  safe (decrypt_recipient g P alg enc (PDict d) r tag).
Proof.
  intros N IA V EK Da De. pose proof (row_ok_In reg alg IA) as RO.
  unfold row_ok in RO. apply andb_true_iff in RO. destruct RO as [RO FAM].
  apply andb_true_iff in RO. destruct RO as [RO TA]. apply andb_true_iff in RO. destruct RO as [KF _].
  pose proof N as N'. unfold needs_km in N'. repeat (apply andb_true_iff in N'; destruct N' as [N' ?]).
  unfold decrypt_recipient. rewrite KF. cbn [negb].
  destruct (String.eqb (ea_family alg) "ECDHES") eqn:F1.
  { cbn [orb]. destruct (ea_direct alg).
    - rewrite EK. destruct ek; [|reflexivity]. eapply decrypt_agreed_safe; eauto.
    - assert (F1p : String.eqb (ea_family alg) "ECDH1PU" = false).
      { apply String.eqb_eq in F1. rewrite F1. reflexivity. }
      rewrite F1p in TA. rewrite orb_false_r in TA. apply negb_true_iff in TA. rewrite TA.
      apply safe_bind; [eapply decrypt_agreed_safe; eauto|]. intros auk _.
      unfold ek_or_assert. rewrite EK. cbn [bind]. apply unwrap_cek_safe. }
  destruct (String.eqb (ea_family alg) "ECDH1PU") eqn:F2.
  { cbn [orb]. apply andb_true_iff in FAM. destruct FAM as [AP KT]. destruct (ea_direct alg).
    - rewrite EK. destruct ek; [|reflexivity]. eapply decrypt_agreed_1pu_safe; eauto.
    - apply safe_bind.
      { destruct (ea_tag_aware alg); [eapply decrypt_agreed_1pu_safe; eauto|].
        (* not tag aware: ECDHESAlgModel path is not used by this family, the generic method *)
        unfold decrypt_agreed_upon_key. rewrite py_in_dict. cbn [bind].
        unfold agreement_params in AP. apply andb_true_iff in AP. destruct AP as [AP Hv].
        apply andb_true_iff in AP. destruct AP as [He Hu].
        destruct (validated_req _ _ _ _ V He) as [k [epk [Kk [Depk Vk]]]]. destruct k; try discriminate.
        rewrite (dmem_of_dget _ _ _ Depk). cbn [assert_ bind].
        apply safe_bind; [apply key_type_in_safe|]. intros _ _.
        rewrite (getitem_of_dget _ _ _ Depk). cbn [bind].
        cbn [validate_kind] in Vk. destruct (is_dict epk) eqn:ID; [|discriminate].
        pose proof (import_epk_spec g (rc_key r) epk N' H4 H3 ID) as IE.
        destruct (import_epk g P (rc_key r) epk) as [ekk|e]; cbn [bind]; [|exact IE].
        apply safe_bind; [apply exchange_safe; assumption|]. intros shared _.
        eapply derive_key_safe; eauto. }
      intros auk _. unfold ek_or_assert. rewrite EK. cbn [bind]. apply unwrap_cek_safe. }
  cbn [orb].
  destruct (ea_direct alg).
  - rewrite EK. destruct ek; [|reflexivity].
    apply safe_bind; [apply key_type_in_safe|]. intros _ _. destruct (_ =? _); [exact I | reflexivity].
  - destruct (String.eqb (ea_family alg) "PBES2") eqn:F3.
    + apply andb_true_iff in FAM. destruct FAM. eapply pbes2_safe; eauto.
    + destruct (String.eqb (ea_family alg) "AESGCMKW") eqn:F4.
      * apply andb_true_iff in FAM. destruct FAM. eapply gcmkw_safe; eauto.
      * destruct (String.eqb (ea_family alg) "AESKW").
        -- apply safe_bind; [apply key_type_in_safe|]. intros _ _.
           apply safe_bind; [apply get_op_key_safe|]. intros _ _.
           unfold ek_or_assert. rewrite EK. cbn [bind]. apply unwrap_cek_safe.
        -- apply safe_bind; [apply key_type_in_safe|]. intros _ _.
           apply safe_bind; [apply get_op_key_safe|]. intros _ _.
           unfold ek_or_assert. rewrite EK. cbn [bind]. apply H_rsa.
Qed.

(* ---------------- JWE: message.py ---------------- *)
Lemma recipient_headers_dict json pd u h :
  hdr_ok u = true -> hdr_ok h = true -> exists d, recipient_headers json (PDict pd) u h = Ok (PDict d).
Proof.
  intros A B. unfold recipient_headers. cbn [py_update bind].
  assert (X : exists b, (if json then update_if_truthy (dupdate [] pd) u else Ok (dupdate [] pd)) = Ok b).
  { destruct json; [apply update_if_truthy_ok; exact A | eauto]. }
  destruct X as [b Eb]. rewrite Eb. cbn [bind].
  destruct (update_if_truthy_ok b h B) as [c Ec]. rewrite Ec. cbn [bind]. eauto.
Qed.

Definition rec_ok (r : recipient) : Prop := hdr_ok (rc_header r) = true /\ exists ek, rc_ek r = Some ek.

Definition needs_jwe_core (g : guards) : bool :=
  g_crit g && g_enc_present g && g_algstr_jwe g && g_zlib g && needs_km g.

Definition jwe_reg_wf2 (r : jwe_reg) : bool := jwe_reg_wf r && hreg_requires_str (er_hreg r) "enc".

Lemma jwe_check_header_enc g reg d :
  jwe_reg_wf2 reg = true -> jwe_check_header g reg (PDict d) true = Ok tt ->
  exists s, dget d (SK "enc") = Some (PStr s).
Proof.
  intros W H. apply andb_true_iff in W. destruct W as [_ R].
  unfold jwe_check_header in H. inv_bind H. inv_bind H. destruct a0. eapply vrh_required_str; eauto.
Qed.

Lemma recipients_loop_safe g reg o enc l ceks pd :
  needs_jwe_core g = true -> jwe_reg_wf2 reg = true ->
  jo_protected o = PDict pd -> hdr_ok (jo_unprotected o) = true -> Forall rec_ok l ->
  safe (recipients_loop g P reg o enc l ceks).
Proof.
  intros N W Pr U F. pose proof W as W2. apply andb_true_iff in W2. destruct W2 as [W1 _].
  unfold needs_jwe_core in N. repeat (apply andb_true_iff in N; destruct N as [N ?]).
  revert ceks. induction F as [|r rest [Hh [ek EK]] F IH]; intro ceks; [exact I|].
  cbn [recipients_loop]. rewrite Pr.
  destruct (recipient_headers_dict (jo_json o) pd (jo_unprotected o) (rc_header r) U Hh) as [d Ed].
  rewrite Ed. cbn [bind].
  pose proof (jwe_check_header_spec g reg d N H1 W1) as C.
  destruct (jwe_check_header g reg (PDict d) true) as [[]|e] eqn:EC; cbn [bind]; [|exact C].
  destruct C as [sa [row [Da [GA [IA V]]]]].
  destruct (jwe_check_header_enc g reg d W EC) as [se De].
  rewrite (getitem_of_dget _ _ _ Da). cbn [bind]. rewrite GA. cbn [bind].
  pose proof (decrypt_recipient_safe g reg row enc d r ek sa se (jo_tag o) H IA V EK Da De) as DR.
  destruct (decrypt_recipient g P row enc (PDict d) r (jo_tag o)) as [cek|e]; [apply IH|].
  destruct e; try exact DR; try discriminate DR.
  destruct (er_verify_all reg); [exact DR | apply IH].
Qed.

(* the unpadding step returns or raises ValueError, for EVERY octet string (incl. the empty one) *)
Lemma pkcs7_unpad_total data : (exists x, pkcs7_unpad data = Ok x) \/ pkcs7_unpad data = Err EValue.
Proof.
  unfold pkcs7_unpad. destruct (_ || _); [right; reflexivity|].
  destruct (_ || _); [right; reflexivity|]. destruct (forallb _ _); [left; eauto | right; reflexivity].
Qed.
Lemma pkcs7_unpad_empty : pkcs7_unpad [] = Err EValue.
Proof. reflexivity. Qed.
Lemma pkcs7_unpad_safe data : safe (pkcs7_unpad data).
Proof. destruct (pkcs7_unpad_total data) as [[x E] | E]; rewrite E; [exact I | reflexivity]. Qed.
(* a well-formed padding is removed *)
Lemma pkcs7_unpad_example :
  pkcs7_unpad [1;2;3;4;5;6;7;8;9;10;11;12;13;3;3;3] = Ok [1;2;3;4;5;6;7;8;9;10;11;12;13] /\
  pkcs7_unpad (repeat 16 16) = Ok [] /\ pkcs7_unpad (repeat 0 16) = Err EValue /\ pkcs7_unpad (repeat 17 16) = Err EValue /\
  pkcs7_unpad [1;2;3;4;5;6;7;8;9;10;11;12;13;3;2;3] = Err EValue /\ pkcs7_unpad [1] = Err EValue.
Proof. vm_compute. auto 10. Qed.

Lemma enc_decrypt_safe enc ct tag cek iv aad : safe (enc_decrypt P enc ct tag cek iv aad).
Proof.
  unfold enc_decrypt. apply safe_bind; [apply H_enc|]. intros raw _.
  destruct (String.eqb (ee_family enc) "CBCHS"); [apply pkcs7_unpad_safe | exact I].
Qed.

Lemma perform_decrypt_safe g reg o pd :
  needs_jwe_core g = true -> jwe_reg_wf2 reg = true ->
  jo_protected o = PDict pd -> hdr_ok (jo_unprotected o) = true -> Forall rec_ok (jo_recipients o) ->
  safe (perform_decrypt g P reg o).
Proof.
  intros N W Pr U F. unfold perform_decrypt. apply safe_map_exn. intros e E.
  assert (X : safe (perform_decrypt_inner g P reg o)).
  { clear e E. pose proof N as N'. unfold needs_jwe_core in N'. repeat (apply andb_true_iff in N'; destruct N' as [N' ?]).
    unfold perform_decrypt_inner. rewrite H2, Pr. rewrite py_in_dict. cbn [bind].
    destruct (dmem pd (SK "enc")) eqn:Me; cbn [negb]; [|reflexivity].
    destruct (getitem_dict_mem _ _ Me) as [ev [Ge _]]. rewrite Ge. cbn [bind].
    apply safe_bind; [apply jwe_get_enc_safe; assumption|]. intros enc _.
    apply safe_bind; [destruct (_ =? _); [exact I | reflexivity]|]. intros _ _.
    apply safe_bind; [eapply recipients_loop_safe; eauto|]. intros ceks _.
    destruct ceks as [|cek [|c2 cr]]; try reflexivity.
    destruct (negb _); [reflexivity|].
    apply safe_bind; [apply enc_decrypt_safe|]. intros msg _.
    rewrite py_in_dict. cbn [bind].
    destruct (dmem pd (SK "zip")) eqn:Mz; [|exact I].
    destruct (getitem_dict_mem _ _ Mz) as [zv [Gz _]]. rewrite Gz. cbn [bind].
    apply safe_bind; [apply jwe_get_zip_safe; assumption|]. intros _ _.
    destruct (p_inflate P msg) as [pt|ei] eqn:EI; [exact I|].
    destruct (H_inflate _ _ EI); subst; [rewrite H0; reflexivity | reflexivity]. }
  rewrite E in X. cbn [safe] in X. destruct e; try discriminate X; try reflexivity.
  destruct c; reflexivity.
Qed.

Lemma guess_sender_key_safe g sa d : g_kid_repr g = true -> safe (guess_sender_key g sa (Ok (PDict d))).
Proof.
  intro K. destruct sa as [|k|[|k0 ks]]; cbn [guess_sender_key]; try exact I.
  - apply safe_bind; [apply check_use_safe|]. intros; exact I.
  - cbn [bind py_get_str]. set (ks' := k0 :: ks).
    assert (X : forall skid, safe (if py_truth skid then do k <- get_by_kid g ks' skid; do _ <- check_use k "enc"; Ok (Some k) else Err EValue)).
    { intro skid. destruct (py_truth skid); [|reflexivity]. apply safe_bind; [apply get_by_kid_safe; exact K|]. intros k _.
      apply safe_bind; [apply check_use_safe|]. intros; exact I. }
    destruct (dget d (SK "skid")); cbn [bind]; apply X.
Qed.

Definition needs_jwe_compact (g : guards) : bool := needs_jwe_core g && g_rec_header g && g_dict_jwe_compact g.

Lemma jwe_decrypt_compact_b_safe g reg ka sa value :
  g_kid_repr g = true -> needs_jwe_compact g = true -> jwe_reg_wf2 reg = true ->
  safe (jwe_decrypt_compact_b g P reg ka sa value).
Proof.
  intros K N W. apply andb_true_iff in N. destruct N as [N Gd]. apply andb_true_iff in N. destruct N as [N Gr].
  unfold jwe_decrypt_compact_b.
  destruct (split_dot value) as [|hs [|eks [|ivs [|cts [|tgs [|x r]]]]]]; try reflexivity.
  assert (X : match catch_type_value DecodeError
             (do p <- json_b64decode g P (PBytes hs);
              do _ <- (if g_dict_jwe_compact g && negb (is_dict p) then Err EValue else Ok tt);
              do a <- py_in (PS "alg") p;
              if negb a then Err (EJose MissingAlgorithmError) else
              do e <- py_in (PS "enc") p;
              if negb e then Err (EJose MissingEncryptionError) else Ok p) with
              | Ok p => is_dict p = true | Err e => allowed_exn e = true end).
  { unfold catch_type_value, map_exn.
    destruct (json_b64decode g P (PBytes hs)) as [p|e] eqn:J; cbn [bind].
    - rewrite Gd. destruct p; cbn [is_dict negb andb bind]; try reflexivity.
      rewrite !py_in_dict. cbn [bind]. destruct (dmem d (SK "alg")); cbn [negb]; [|reflexivity].
      cbn [bind]. destruct (dmem d (SK "enc")); reflexivity.
    - rewrite (json_b64decode_only g _ Gr (or_intror (ex_intro _ hs eq_refl)) e J). reflexivity. }
  destruct (catch_type_value DecodeError _) as [p|e]; cbn [bind]; [|exact X].
  destruct p as [| | | | | |l|pd]; try discriminate.
  apply safe_bind; [apply b64d_safe|]. intros iv _.
  apply safe_bind; [apply b64d_safe|]. intros ct _.
  apply safe_bind; [apply b64d_safe|]. intros tag _.
  apply safe_bind; [apply b64d_safe|]. intros ek _.
  destruct (recipient_headers_dict false pd PNone PNone eq_refl eq_refl) as [hd Eh]. rewrite Eh.
  apply safe_bind; [apply guess_key_safe; exact K|]. intros k _.
  apply safe_bind; [apply check_use_safe|]. intros _ _.
  apply safe_bind; [apply guess_sender_key_safe; exact K|]. intros sk _.
  apply safe_bind; [|intros; exact I].
  apply perform_decrypt_safe with (pd := pd); [exact N | exact W | reflexivity | reflexivity |].
  constructor; [|constructor]. split; [reflexivity | eexists; reflexivity].
Qed.

Theorem jwe_decrypt_compact_safe g reg ka sa v :
  g_kid_repr g = true -> needs_jwe_compact g = true -> jwe_reg_wf2 reg = true -> safe (jwe_decrypt_compact g P reg ka sa v).
Proof.
  intros K N W. unfold jwe_decrypt_compact. apply safe_bind; [apply cinput_bytes_safe|].
  intros b _. apply jwe_decrypt_compact_b_safe; assumption.
Qed.

Theorem jwt_decode_jwe_safe g reg ka v :
  g_kid_repr g = true -> needs_jwe_compact g = true -> g_rec_claims g = true -> jwe_reg_wf2 reg = true ->
  safe (jwt_decode_jwe g P reg ka v).
Proof.
  intros K N G W. unfold jwt_decode_jwe. apply safe_bind; [apply cinput_bytes_safe|]. intros b _.
  apply safe_bind; [apply jwe_decrypt_compact_b_safe; assumption|]. intros r _.
  apply safe_bind; [apply decode_claims_safe; assumption|]. intros c _. exact I.
Qed.

(* ---------------- JWE JSON serialization ---------------- *)
Lemma seg_of_safe d k v : dget d (SK k) = Some v -> is_str v = true -> safe (seg_of (PDict d) k).
Proof.
  intros D IS. unfold seg_of. rewrite (getitem_of_dget _ _ _ D). cbn [bind]. destruct v; try discriminate.
  apply safe_bind; [apply to_bytes_str_safe|]. intros b _.
  apply safe_bind; [apply b64d_safe|]. intros x _. exact I.
Qed.

Lemma seg_of_req d k : req_is d k is_str = true -> safe (seg_of (PDict d) k).
Proof. intro R. destruct (req_is_get _ _ _ R) as [v [D IS]]. eapply seg_of_safe; eauto. Qed.

Definition rl_ok (x : pv * option bytes) : Prop := hdr_ok (fst x) = true /\ exists b, snd x = Some b.

Lemma extract_recipient_spec g item :
  g_ek_default g = true -> jwe_recipient_shape item = true ->
  match extract_recipient g item with Ok x => rl_ok x | Err e => allowed_exn e = true end.
Proof.
  intros G Sh. destruct item as [| | | | | |l|d]; try discriminate. cbn [jwe_recipient_shape] in Sh.
  apply andb_true_iff in Sh. destruct Sh as [Oh Oe].
  unfold extract_recipient.
  assert (Hh : exists h, py_get_str (PDict d) (SK "header") = Ok h /\ hdr_ok h = true).
  { cbn [py_get_str]. destruct (dget d (SK "header")) as [h|] eqn:Dh; [|eauto].
    exists h. split; [reflexivity|]. apply is_dict_hdr_ok. eapply opt_is_get; eauto. }
  destruct Hh as [h [Eh Hh]]. rewrite Eh. cbn [bind]. rewrite py_in_dict. cbn [bind].
  destruct (dmem d (SK "encrypted_key")) eqn:M.
  - destruct (getitem_dict_mem _ _ M) as [v [Gv Dv]]. rewrite Gv. cbn [bind].
    pose proof (opt_is_get _ _ _ _ Oe Dv) as IS. destruct v; try discriminate.
    pose proof (to_bytes_str_safe false s) as T.
    destruct (to_bytes false (PStr s)) as [b|e]; cbn [bind]; [|exact T].
    pose proof (b64d_safe b) as B. destruct (b64d b) as [ek|e]; cbn [bind]; [|exact B].
    split; [exact Hh | eexists; reflexivity].
  - rewrite G. split; [exact Hh | eexists; reflexivity].
Qed.

Lemma mapM_recipients g items :
  g_ek_default g = true -> forallb jwe_recipient_shape items = true ->
  match mapM (extract_recipient g) items with Ok rl => Forall rl_ok rl | Err e => allowed_exn e = true end.
Proof.
  intro G. induction items as [|x r IH]; intro F; [constructor|].
  cbn [forallb] in F. apply andb_true_iff in F. destruct F as [Fx Fr]. cbn [mapM].
  pose proof (extract_recipient_spec g x G Fx) as Sx.
  destruct (extract_recipient g x) as [y|e]; cbn [bind]; [|exact Sx].
  specialize (IH Fr). destruct (mapM (extract_recipient g) r) as [t|e]; cbn [bind]; [|exact IH].
  constructor; assumption.
Qed.

Lemma attach_keys_spec g ka sa pd u rl :
  g_kid_repr g = true -> hdr_ok u = true -> Forall rl_ok rl ->
  match attach_keys g true ka sa (PDict pd) u rl with Ok recs => Forall rec_ok recs | Err e => allowed_exn e = true end.
Proof.
  intros K U F. induction F as [|[h ek] r [Hh [b Eb]] F IH]; [constructor|].
  cbn [attach_keys]. cbn [fst snd] in Hh, Eb.
  destruct (recipient_headers_dict true pd u h U Hh) as [d Ed]. rewrite Ed.
  pose proof (guess_key_safe g ka d K) as GK. destruct (guess_key g ka (Ok (PDict d))) as [k|e]; cbn [bind]; [|exact GK].
  pose proof (check_use_safe k "enc") as CU. destruct (check_use k "enc") as [[]|e]; cbn [bind]; [|exact CU].
  pose proof (guess_sender_key_safe g sa d K) as GS. destruct (guess_sender_key g sa (Ok (PDict d))) as [sk|e]; cbn [bind]; [|exact GS].
  destruct (attach_keys g true ka sa (PDict pd) u r) as [t|e]; cbn [bind]; [|exact IH].
  constructor; [|exact IH]. split; [exact Hh | subst; eexists; reflexivity].
Qed.

Definition needs_jwe_json (g : guards) : bool :=
  needs_jwe_core g && g_rec_header g && g_dict_jwe_json g && g_ek_default g.

Theorem jwe_decrypt_json_safe g reg ka sa data :
  g_kid_repr g = true -> needs_jwe_json g = true -> jwe_reg_wf2 reg = true -> jwe_documented_shape data = true ->
  safe (jwe_decrypt_json g P reg ka sa data).
Proof.
  intros K N W Sh. apply andb_true_iff in N. destruct N as [N Ge]. apply andb_true_iff in N. destruct N as [N Gd].
  apply andb_true_iff in N. destruct N as [N Gr].
  destruct data as [| | | | | |l0|d]; try discriminate. cbn [jwe_documented_shape] in Sh.
  repeat (apply andb_true_iff in Sh; destruct Sh as [Sh ?]).
  unfold jwe_decrypt_json. rewrite py_in_dict. cbn [bind].
  destruct (req_is_get _ _ _ Sh) as [pseg0 [Dp ISp]]. rewrite (getitem_of_dget _ _ _ Dp). cbn [bind].
  pose proof (json_b64decode_only g pseg0 Gr (or_introl ISp)) as J.
  destruct (json_b64decode g P pseg0) as [p|e]; cbn [bind]; [|rewrite (J e eq_refl); reflexivity].
  rewrite Gd. destruct p as [| | | | | |pl|pd]; cbn [is_dict negb andb bind]; try reflexivity.
  assert (Hu : exists u, py_get_str (PDict d) (SK "unprotected") = Ok u /\ hdr_ok u = true).
  { cbn [py_get_str]. destruct (dget d (SK "unprotected")) as [u|] eqn:Du; [|eauto].
    exists u. split; [reflexivity|]. apply is_dict_hdr_ok. eapply opt_is_get; eauto. }
  destruct Hu as [u [Eu Hu]]. rewrite Eu. cbn [bind].
  destruct pseg0; try discriminate.
  apply safe_bind; [apply to_bytes_str_safe|]. intros pseg _.
  apply safe_bind; [apply seg_of_req; assumption|]. intros iv _.
  apply safe_bind; [apply seg_of_req; assumption|]. intros ct _.
  apply safe_bind; [apply seg_of_req; assumption|]. intros tag _.
  rewrite py_in_dict. cbn [bind].
  apply safe_bind.
  { destruct (dmem d (SK "aad")) eqn:Ma; [|exact I].
    destruct (getitem_dict_mem _ _ Ma) as [av [_ Da]].
    apply safe_bind; [eapply seg_of_safe; [exact Da | eapply opt_is_get; eauto]|]. intros a _. exact I. }
  intros aad _.
  assert (X : match (if dmem d (SK "recipients")
                     then do rs <- py_getitem_str (PDict d) (SK "recipients"); py_iter rs
                     else Ok [PDict d]) with
              | Ok items => forallb jwe_recipient_shape items = true
              | Err e => allowed_exn e = true end).
  { destruct (dmem d (SK "recipients")) eqn:Mr.
    - destruct (req_is_get _ _ _ H) as [rs [Dr Lr]]. rewrite (getitem_of_dget _ _ _ Dr). cbn [bind].
      destruct rs; try discriminate. cbn [py_iter]. exact Lr.
    - cbn [forallb]. rewrite H. reflexivity. }
  clear H.
  destruct (if dmem d (SK "recipients") then _ else _) as [items|e]; cbn [bind]; [|exact X].
  pose proof (mapM_recipients g items Ge X) as MR.
  destruct (mapM (extract_recipient g) items) as [rl|e]; cbn [bind]; [|exact MR].
  pose proof (attach_keys_spec g ka sa pd u rl K Hu MR) as AK.
  destruct (attach_keys g true ka sa (PDict pd) u rl) as [recs|e]; cbn [bind]; [|exact AK].
  apply perform_decrypt_safe with (pd := pd); [exact N | exact W | reflexivity | exact Hu | exact AK].
Qed.

End WithPrims.
