(* C16Proofs.v — "exception-class type system" for the consume front-ends of
   model/C16Model.v: one lemma per model function bounding the classes it can
   raise, composed at the entry points. *)
From Coq Require Import String List ZArith NArith Bool Lia.
From Model Require Import Base PyVal TableTypes B64 C16Model.
From Gen Require Import Tables.
From Proofs Require Import B64Proofs.
Import ListNotations.
Open Scope N_scope.

Definition safe {A} (m : res A) : Prop :=
  match m with Err e => allowed_exn e = true | Ok _ => True end.

Lemma safe_ok {A} (a : A) : safe (Ok a). Proof. exact I. Qed.
Lemma safe_value {A} : safe (@Err A EValue). Proof. reflexivity. Qed.
Lemma safe_jose {A} c : safe (@Err A (EJose c)). Proof. reflexivity. Qed.
#[export] Hint Resolve safe_ok safe_value safe_jose : c16.

Lemma safe_bind {A B} (m : res A) (f : A -> res B) :
  safe m -> (forall a, m = Ok a -> safe (f a)) -> safe (bind m f).
Proof. destruct m; simpl; auto. Qed.

Lemma safe_map_exn {A} (f : exn -> exn) (m : res A) :
  (forall e, m = Err e -> allowed_exn (f e) = true) -> safe (map_exn f m).
Proof. destruct m; simpl; auto. Qed.

Lemma bind_ok {A B} (m : res A) (f : A -> res B) b :
  bind m f = Ok b -> exists a, m = Ok a /\ f a = Ok b.
Proof. destruct m; simpl; [eauto | discriminate]. Qed.

Ltac inv_bind H :=
  let a := fresh "a" in let Ha := fresh "Ha" in
  apply bind_ok in H; destruct H as [a [Ha H]].

(* only-EValue bound *)
Definition only_value {A} (m : res A) : Prop := forall e, m = Err e -> e = EValue.
Lemma only_value_safe {A} (m : res A) : only_value m -> safe m.
Proof. unfold only_value, safe. destruct m; auto. intro H. rewrite (H e eq_refl). reflexivity. Qed.

Lemma b64d_only s : only_value (b64d s).
Proof. intros e H. eapply b64d_err_class; eauto. Qed.
Lemma b64d_safe s : safe (b64d s).
Proof. apply only_value_safe, b64d_only. Qed.
#[export] Hint Resolve b64d_safe : c16.

Lemma encode_utf8_only s : only_value (encode_utf8 s).
Proof.
  induction s as [|c r IH]; intros e H; simpl in H; [discriminate|].
  destruct (utf8_cp c); [|congruence].
  destruct (encode_utf8 r) eqn:E; [discriminate|]. inversion H; subst. apply IH. reflexivity.
Qed.
Lemma encode_ascii_only s : only_value (encode_ascii s).
Proof. intros e H. unfold encode_ascii in H. destruct (forallb _ s); congruence. Qed.

Lemma to_bytes_str_only a s : only_value (to_bytes a (PStr s)).
Proof. destruct a; simpl; [apply encode_ascii_only | apply encode_utf8_only]. Qed.
Lemma to_bytes_str_safe a s : safe (to_bytes a (PStr s)).
Proof. apply only_value_safe, to_bytes_str_only. Qed.
#[export] Hint Resolve to_bytes_str_safe : c16.

Lemma catch_safe {A} c (m : res A) :
  (forall e, m = Err e -> allowed_exn e = true \/ e = EType) -> safe (catch_type_value c m).
Proof.
  intro H. unfold catch_type_value. apply safe_map_exn. intros e E.
  destruct (H e E) as [X | X]; [destruct e; simpl in *; congruence | subst; reflexivity].
Qed.

(* ---------------- dict facts ---------------- *)
Lemma py_in_dict k d : py_in (PStr k) (PDict d) = Ok (dmem d k).
Proof. reflexivity. Qed.
Lemma getitem_dict_mem d k : dmem d k = true -> exists v, py_getitem_str (PDict d) k = Ok v /\ dget d k = Some v.
Proof. unfold dmem. simpl. destruct (dget d k); [eauto | discriminate]. Qed.
Lemma get_dict d k : exists v, py_get_str (PDict d) k = Ok v /\
   (dget d k = Some v \/ (dget d k = None /\ v = PNone)).
Proof. simpl. destruct (dget d k); eauto. Qed.

(* ---------------- registry.py ---------------- *)
Lemma validate_kind_only k v : kind_known k = true -> only_value (validate_kind k v).
Proof.
  intros K e H. destruct k; simpl in *; try discriminate;
    repeat match type of H with
           | context [match ?x with _ => _ end] => destruct x; try congruence
           | context [if ?c then _ else _] => destruct c; try congruence
           end; try congruence.
Qed.

Lemma vrh_safe reg d cr : hreg_wf reg = true -> only_value (validate_registry_header reg (PDict d) cr).
Proof.
  induction reg as [|p r IH]; intros W e H; simpl in *; [discriminate|].
  apply andb_true_iff in W. destruct W as [W1 W2].
  destruct (cr && hp_required p && negb (dmem d (SK (hp_name p)))); [congruence|].
  destruct (dmem d (SK (hp_name p))) eqn:M.
  - destruct (getitem_dict_mem _ _ M) as [v [G _]]. simpl in G. rewrite G in H. simpl in H.
    destruct (validate_kind (hp_kind p) v) eqn:V; simpl in H.
    + eapply IH; eauto.
    + inversion H; subst. eapply validate_kind_only; eauto.
  - simpl in H. eapply IH; eauto.
Qed.

(* what a successful validation says about one member *)
Lemma vrh_member reg d cr name kind req :
  validate_registry_header reg (PDict d) cr = Ok tt ->
  In {| hp_name := name; hp_kind := kind; hp_required := req |} reg ->
  match dget d (SK name) with
  | Some v => validate_kind kind v = Ok tt
  | None => cr && req = false
  end.
Proof.
  induction reg as [|p r IH]; intros H I; [destruct I|].
  simpl in H.
  destruct (cr && hp_required p && negb (dmem d (SK (hp_name p)))) eqn:C; [discriminate|].
  destruct (dmem d (SK (hp_name p))) eqn:M.
  - destruct (getitem_dict_mem _ _ M) as [v [G D]]. simpl in G. rewrite G in H. simpl in H.
    destruct (validate_kind (hp_kind p) v) as [[]|] eqn:V; simpl in H; [|discriminate].
    destruct I as [I | I].
    + subst p. cbn [hp_name hp_kind hp_required] in *. rewrite D. exact V.
    + apply IH; assumption.
  - simpl in H. destruct I as [I | I].
    + subst p. cbn [hp_name hp_kind hp_required] in *.
      unfold dmem in M. destruct (dget d (SK name)); [discriminate|].
      simpl in C. rewrite andb_true_r in C. exact C.
    + apply IH; assumption.
Qed.

Lemma requires_str_In reg name : hreg_requires_str reg name = true ->
  In {| hp_name := name; hp_kind := VStr; hp_required := true |} reg.
Proof.
  unfold hreg_requires_str. intro H. apply existsb_exists in H. destruct H as [p [I H]].
  apply andb_true_iff in H. destruct H as [H K]. apply andb_true_iff in H. destruct H as [N R].
  apply String.eqb_eq in N. destruct p as [n k r]. simpl in *. subst.
  destruct k; try discriminate. exact I.
Qed.

Lemma vrh_required_str reg d name :
  validate_registry_header reg (PDict d) true = Ok tt -> hreg_requires_str reg name = true ->
  exists s, dget d (SK name) = Some (PStr s).
Proof.
  intros H R. apply requires_str_In in R. pose proof (vrh_member _ _ _ _ _ _ H R) as M.
  destruct (dget d (SK name)) as [v|]; [|discriminate].
  simpl in M. destruct v; simpl in M; try discriminate. eauto.
Qed.

Lemma crit_loop_safe l d : forallb is_str l = true -> only_value (crit_loop l (PDict d)).
Proof.
  induction l as [|k r IH]; intros F e H; simpl in *; [discriminate|].
  apply andb_true_iff in F. destruct F as [F1 F2]. destruct k; try discriminate. simpl in H.
  destruct (dmem d s); [eapply IH; eauto | congruence].
Qed.

Lemma check_crit_only g d : g_crit g = true -> only_value (check_crit_header g (PDict d)).
Proof.
  intros G e H. unfold check_crit_header in H. rewrite py_in_dict in H. cbn [bind] in H.
  destruct (dmem d (SK "crit")) eqn:M; [|discriminate].
  destruct (getitem_dict_mem _ _ M) as [c [Gc _]]. rewrite Gc in H. cbn [bind] in H. rewrite G in H.
  destruct c; cbn [validate_kind bind] in H; try congruence.
  destruct (forallb is_str l) eqn:F; cbn [bind py_iter] in H; [|congruence].
  eapply crit_loop_safe; eauto.
Qed.

Lemma check_supported_only reg d : only_value (check_supported_header reg (PDict d)).
Proof. intros e H. simpl in H. destruct (forallb _ _); congruence. Qed.

Lemma safe_b64_only d : only_value (safe_b64_header (PDict d)).
Proof.
  intros e H. unfold safe_b64_header in H. cbn [bind py_get_str] in H.
  destruct (dget d (SK "crit")) as [c|]; cbn [bind] in H; [|congruence].
  destruct c; try congruence. destruct (list_contains l (PS "b64")); congruence.
Qed.

Lemma only_bind {A B} (m : res A) (f : A -> res B) :
  only_value m -> (forall a, m = Ok a -> only_value (f a)) -> only_value (bind m f).
Proof. intros H1 H2 e H. destruct m; simpl in H; [eapply H2; eauto | inversion H; subst; apply H1; reflexivity]. Qed.

Lemma jws_check_header_only g reg d :
  g_crit g = true -> hreg_wf (jr_hreg reg) = true -> only_value (jws_check_header g reg (PDict d)).
Proof.
  intros G W. unfold jws_check_header.
  apply only_bind.
  { destruct (jr_7797 reg); [|intros e H; discriminate].
    rewrite py_in_dict. cbn [bind]. destruct (dmem d (SK "b64")); [apply safe_b64_only | intros e H; discriminate]. }
  intros _ _. apply only_bind; [apply check_crit_only; assumption|].
  intros _ _. apply only_bind; [apply vrh_safe; assumption|].
  intros _ _. destruct (jr_strict reg); [apply check_supported_only | intros e H; discriminate].
Qed.

Lemma jws_check_header_alg g reg d :
  jws_reg_wf reg = true -> jws_check_header g reg (PDict d) = Ok tt ->
  exists s, dget d (SK "alg") = Some (PStr s).
Proof.
  intros W H. apply andb_true_iff in W. destruct W as [_ R].
  unfold jws_check_header in H. inv_bind H. inv_bind H. inv_bind H.
  destruct a1. eapply vrh_required_str; eauto.
Qed.

(* ---------------- algorithm lookup ---------------- *)
Lemma existsb_find {A} (nm : A -> string) (tbl : list A) s :
  existsb (fun n => str_eqb (SK n) s) (map nm tbl) = true ->
  exists r, find (fun r => str_eqb (SK (nm r)) s) tbl = Some r.
Proof.
  induction tbl as [|x t IH]; simpl; [discriminate|].
  destruct (str_eqb (SK (nm x)) s); simpl; eauto.
Qed.

Definition unsupported_or_ok {A} (m : res A) : Prop :=
  forall e, m = Err e -> e = EJose UnsupportedAlgorithmError.

Lemma jws_get_alg_spec g reg name :
  (g_algstr_jws g = true \/ is_str name = true) ->
  match jws_get_alg g reg name with
  | Ok row => In row jws_alg_table
  | Err e => e = EJose UnsupportedAlgorithmError
  end.
Proof.
  intro H. unfold jws_get_alg.
  destruct (is_str name) eqn:IS.
  - destruct name; try discriminate. rewrite andb_false_r. cbn [name_in_table bind].
    destruct (existsb (fun n => str_eqb (SK n) s) (map ja_name jws_alg_table)) eqn:E; cbn [negb]; [|reflexivity].
    destruct (allowed_name _ _ _); [|reflexivity].
    destruct (existsb_find ja_name jws_alg_table s E) as [r F]. unfold find_jws_alg. rewrite F.
    apply find_some in F. tauto.
  - destruct H as [H|H]; [|congruence]. rewrite H. reflexivity.
Qed.

(* ---------------- keys ---------------- *)
Lemma get_by_kid_safe ks kid : safe (get_by_kid ks kid).
Proof.
  assert (X : safe (match find (fun k => py_eq (k_kid k) kid) ks with
                    | Some k => Ok k | None => Err (EJose InvalidKeyIdError) end)).
  { destruct (find _ ks); simpl; auto. }
  unfold get_by_kid. destruct kid; try exact X.
  destruct ks as [|k0 [|k2 r]]; try exact X. exact I.
Qed.

Lemma guess_key_safe ka d : safe (guess_key ka (Ok (PDict d))).
Proof.
  destruct ka; cbn [guess_key bind py_get_str]; auto. exact I.
  destruct (dget d (SK "kid")); cbn [bind]; apply get_by_kid_safe.
Qed.

Lemma check_use_safe k u : safe (check_use k u).
Proof. unfold check_use. destruct (_ && _); simpl; auto. Qed.
Lemma jws_check_key_type_safe r k : safe (jws_check_key_type r k).
Proof. unfold jws_check_key_type. destruct (_ =? _)%string; simpl; auto. Qed.
#[export] Hint Resolve get_by_kid_safe guess_key_safe check_use_safe jws_check_key_type_safe : c16.

(* ================================================================== *)
(* primitives with their exception contract                            *)
(* ================================================================== *)
Section WithPrims.
Variable P : prims.

(* json.loads(bytes): JSONDecodeError / UnicodeDecodeError (ValueError) or RecursionError *)
Hypothesis H_json : forall b e, p_json_loads P b = Err e -> e = EValue \/ e = ERuntime.
(* alg.verify with a key of the algorithm's key type (and an Ed* curve for EdDSA):
   returns a bool or raises UnsupportedKeyOperationError / ValueError *)
Hypothesis H_verify : forall row k m s,
  In row jws_alg_table -> k_kty k = ja_key_type row ->
  (ja_family row = "EdDSA"%string -> ed_curve k = true) ->
  safe (p_jws_verify P (ja_name row) k m s).
(* enc.decrypt: DecodeError (tag) or ValueError (pyca) *)
Hypothesis H_enc : forall n ct tag cek iv aad, safe (p_enc_decrypt P n ct tag cek iv aad).
(* zlib: zlib.error on a corrupt stream, ExceededSizeError on a too long one *)
Hypothesis H_inflate : forall b e, p_inflate P b = Err e -> e = EZlib \/ e = EJose ExceededSizeError.
Hypothesis H_dir : forall n k, safe (p_dir_cek P n k).
Hypothesis H_decrypt_cek : forall a k ek, safe (p_decrypt_cek P a k ek).
Hypothesis H_gcmkw : forall a k iv tag ek, safe (p_gcmkw P a k iv tag ek).
(* PBKDF2HMAC(iterations=c): OverflowError for c < 0 or c >= 2^64, a backend panic for
   2^31 <= c < 2^64, ValueError for 0; derives otherwise *)
Hypothesis H_pbkdf2 : forall a k s c, (1 <= c <= 2147483647)%Z -> safe (p_pbkdf2 P a k s c).
Hypothesis H_unwrap : forall a ek kek, safe (p_unwrap P a ek kek).
(* binding.import_*_key of a validated JWK whose crv is registered: ValueError only *)
Hypothesis H_import : forall kty d priv, safe (p_import_epk P kty d priv).
Hypothesis H_exchange : forall k e, safe (p_exchange P k e).
Hypothesis H_kdf : forall s f n, safe (p_concat_kdf P s f n).

Lemma json_b64decode_only g text :
  g_rec_header g = true -> is_str text = true \/ (exists b, text = PBytes b) ->
  only_value (json_b64decode g P text).
Proof.
  intros G T. unfold json_b64decode. apply only_bind.
  { destruct T as [T | [b T]]; [destruct text; try discriminate; apply to_bytes_str_only | subst; intros e H; discriminate]. }
  intros b _. apply only_bind; [apply b64d_only|]. intros raw _ e H.
  destruct (p_json_loads P raw) as [v|e0] eqn:J; [discriminate|].
  destruct (H_json _ _ J); subst; [congruence | rewrite G in H; congruence].
Qed.

Lemma decode_header_spec g seg :
  g_rec_header g = true -> g_dict_jws_compact g = true ->
  match decode_header g P seg with Ok p => is_dict p = true | Err e => allowed_exn e = true end.
Proof.
  intros G1 G2. unfold decode_header, catch_type_value, map_exn.
  destruct (json_b64decode g P (PBytes seg)) as [p|e] eqn:J; cbn [bind].
  - rewrite G2. destruct p; cbn [is_dict negb andb bind]; try reflexivity.
    rewrite py_in_dict. cbn [bind]. destruct (dmem d (SK "alg")); reflexivity.
  - rewrite (json_b64decode_only g _ G1 (or_intror (ex_intro _ seg eq_refl)) e J). reflexivity.
Qed.

Lemma catch_b64d_safe s : safe (catch_type_value DecodeError (b64d s)).
Proof. apply catch_safe. intros e H. rewrite (b64d_only _ _ H). left. reflexivity. Qed.

Lemma jws_extract_compact_spec g value :
  g_rec_header g = true -> g_dict_jws_compact g = true ->
  match jws_extract_compact g P value with
  | Ok o => is_dict (cs_protected o) = true
  | Err e => allowed_exn e = true
  end.
Proof.
  intros G1 G2. unfold jws_extract_compact.
  destruct (split_dot value) as [|hs [|ps [|ss [|x r]]]]; try reflexivity.
  pose proof (decode_header_spec g hs G1 G2) as D.
  destruct (decode_header g P hs) as [p|e]; cbn [bind]; [|exact D].
  pose proof (catch_b64d_safe ps) as C.
  destruct (catch_type_value DecodeError (b64d ps)); cbn [bind]; [exact D | exact C].
Qed.

Lemma jws_alg_verify_safe g row k m s :
  g_eddsa g = true -> In row jws_alg_table -> k_kty k = ja_key_type row ->
  safe (jws_alg_verify g P row k m s).
Proof.
  intros G I K. unfold jws_alg_verify.
  destruct (String.eqb (ja_family row) "EdDSA" && negb (ed_curve k)) eqn:E.
  - rewrite G. reflexivity.
  - apply H_verify; auto. intro F. rewrite F in E. rewrite String.eqb_refl in E. simpl in E.
    destruct (ed_curve k); [reflexivity | discriminate].
Qed.

Lemma jws_validate_safe g reg ka d si ss :
  g_crit g = true -> g_eddsa g = true -> jws_reg_wf reg = true ->
  safe (jws_validate g P reg ka true (PDict d) si ss).
Proof.
  intros G1 G2 W. unfold jws_validate.
  pose proof W as W'. apply andb_true_iff in W'. destruct W' as [W1 _].
  apply safe_bind; [apply only_value_safe, jws_check_header_only; assumption|].
  intros [] Hc. apply safe_bind; [apply guess_key_safe|]. intros k _.
  apply safe_bind; [apply check_use_safe|]. intros _ _.
  destruct (jws_check_header_alg _ _ _ W Hc) as [s Ds].
  assert (Ga : py_getitem_str (PDict d) (SK "alg") = Ok (PStr s)) by (cbn [py_getitem_str]; rewrite Ds; reflexivity).
  rewrite Ga. cbn [bind].
  pose proof (jws_get_alg_spec g reg (PStr s) (or_intror eq_refl)) as A.
  destruct (jws_get_alg g reg (PStr s)) as [row|e]; cbn [bind]; [|subst; reflexivity].
  unfold jws_check_key_type. destruct (String.eqb (k_kty k) (ja_key_type row)) eqn:KT; cbn [bind]; [|reflexivity].
  apply String.eqb_eq in KT.
  apply safe_bind; [apply b64d_safe|]. intros sig _. apply jws_alg_verify_safe; assumption.
Qed.

Definition needs_jws_compact (g : guards) : bool :=
  g_rec_header g && g_dict_jws_compact g && g_crit g && g_eddsa g.

Lemma cinput_bytes_safe v : safe (cinput_bytes v).
Proof. destruct v; simpl; [exact I | apply only_value_safe, encode_utf8_only]. Qed.

Lemma jws_deserialize_compact_b_spec g reg ka value :
  needs_jws_compact g = true -> jws_reg_wf reg = true ->
  safe (jws_deserialize_compact_b g P reg ka value).
Proof.
  intros N W. unfold needs_jws_compact in N. repeat (apply andb_true_iff in N; destruct N as [N ?]).
  unfold jws_deserialize_compact_b.
  pose proof (jws_extract_compact_spec g value N H1) as E.
  destruct (jws_extract_compact g P value) as [o|e]; cbn [bind]; [|exact E].
  destruct (cs_protected o) as [| | | | | |l|d] eqn:Pr; try discriminate.
  apply safe_bind; [apply jws_validate_safe; assumption|].
  intros [] _; [exact I | reflexivity].
Qed.

Theorem jws_deserialize_compact_safe g reg ka v :
  needs_jws_compact g = true -> jws_reg_wf reg = true ->
  safe (jws_deserialize_compact g P reg ka v).
Proof.
  intros N W. unfold jws_deserialize_compact. apply safe_bind; [apply cinput_bytes_safe|].
  intros b _. apply jws_deserialize_compact_b_spec; assumption.
Qed.

Lemma decode_claims_safe g payload : g_rec_claims g = true -> safe (decode_claims g P payload).
Proof.
  intro G. unfold decode_claims. destruct (p_json_loads P payload) as [c|e] eqn:J.
  - destruct (is_dict c); [exact I | reflexivity].
  - destruct (H_json _ _ J); subst; [reflexivity | rewrite G; reflexivity].
Qed.

Theorem jwt_decode_jws_safe g reg ka v :
  needs_jws_compact g = true -> g_rec_claims g = true -> jws_reg_wf reg = true ->
  safe (jwt_decode_jws g P reg ka v).
Proof.
  intros N G W. unfold jwt_decode_jws. apply safe_bind; [apply cinput_bytes_safe|]. intros b _.
  apply safe_bind; [apply jws_deserialize_compact_b_spec; assumption|]. intros o _.
  apply safe_bind; [apply decode_claims_safe; assumption|]. intros c _. exact I.
Qed.

Definition needs_7797_compact (g : guards) : bool := needs_jws_compact g && g_kt7797 g.

Theorem r7797_deserialize_compact_safe g reg0 reg7 ka v :
  needs_7797_compact g = true -> jws_reg_wf reg0 = true -> jws_reg_wf reg7 = true ->
  safe (r7797_deserialize_compact g P reg0 reg7 ka v).
Proof.
  intros N W0 W7. apply andb_true_iff in N. destruct N as [N K].
  pose proof N as N'. unfold needs_jws_compact in N'. repeat (apply andb_true_iff in N'; destruct N' as [N' ?]).
  unfold r7797_deserialize_compact. apply safe_bind; [apply cinput_bytes_safe|]. intros value _.
  destruct (split_dot value) as [|hs [|ps [|ss [|x r]]]]; try reflexivity.
  pose proof (decode_header_spec g hs N' H1) as D.
  destruct (decode_header g P hs) as [p|e]; cbn [bind]; [|exact D].
  destruct p as [| | | | | |l|d]; try discriminate.
  rewrite py_in_dict. cbn [bind].
  destruct (dmem d (SK "b64")) eqn:M; cbn [negb].
  2:{ apply jws_deserialize_compact_b_spec; assumption. }
  destruct (getitem_dict_mem _ _ M) as [b [Gb _]]. rewrite Gb. cbn [bind].
  destruct (is_true b); [apply jws_deserialize_compact_b_spec; assumption|].
  rewrite K. apply safe_bind; [apply jws_validate_safe; assumption|].
  intros [] _; [exact I | reflexivity].
Qed.


(* ---------------- JWS JSON serialization ---------------- *)
Definition hdr_ok (v : pv) : bool := match v with PNone | PDict _ => true | _ => false end.

Lemma update_if_truthy_ok rv v : hdr_ok v = true -> exists d, update_if_truthy rv v = Ok d.
Proof.
  destruct v; try discriminate; intros _; unfold update_if_truthy; cbn [py_truth]; eauto.
  destruct d; cbn [py_update]; eauto.
Qed.

Lemma member_headers_dict p h : hdr_ok p = true -> hdr_ok h = true ->
  exists d, member_headers p h = Ok (PDict d).
Proof.
  intros A B. unfold member_headers.
  destruct (update_if_truthy_ok [] p A) as [d1 E1]. rewrite E1. cbn [bind].
  destruct (update_if_truthy_ok d1 h B) as [d2 E2]. rewrite E2. cbn [bind]. eauto.
Qed.

Lemma opt_is_get d k p v : opt_is d k p = true -> dget d (SK k) = Some v -> p v = true.
Proof. unfold opt_is. intros H E. rewrite E in H. exact H. Qed.
Lemma req_is_get d k p : req_is d k p = true -> exists v, dget d (SK k) = Some v /\ p v = true.
Proof. unfold req_is. destruct (dget d (SK k)); [eauto | discriminate]. Qed.

Lemma getitem_of_dget d k v : dget d k = Some v -> py_getitem_str (PDict d) k = Ok v.
Proof. intro E. cbn [py_getitem_str]. rewrite E. reflexivity. Qed.
Lemma dmem_of_dget {A} (d : list (str * A)) k v : dget d k = Some v -> dmem d k = true.
Proof. unfold dmem. intro E. rewrite E. reflexivity. Qed.

Lemma opt_member_spec d k p :
  opt_is d k p = true ->
  exists v, opt_member (PDict d) k = Ok v /\ (if dmem d (SK k) then p v = true else v = PNone).
Proof.
  intro O. unfold opt_member. rewrite py_in_dict. cbn [bind].
  destruct (dmem d (SK k)) eqn:M; [|eauto].
  destruct (getitem_dict_mem _ _ M) as [v [G D]]. rewrite G. exists v. split; [reflexivity|].
  eapply opt_is_get; eauto.
Qed.

Lemma is_dict_hdr_ok v : is_dict v = true -> hdr_ok v = true.
Proof. destruct v; auto. Qed.

Lemma signature_to_member_spec g sig :
  g_rec_header g = true -> g_dict_jws_json g = true -> jws_sig_shape sig = true ->
  match signature_to_member g P sig with
  | Ok m => hdr_ok (fst m) = true /\ hdr_ok (snd m) = true
  | Err e => allowed_exn e = true
  end.
Proof.
  intros G1 G2 Sh. destruct sig; try discriminate. cbn [jws_sig_shape] in Sh.
  apply andb_true_iff in Sh. destruct Sh as [Sh Oh]. apply andb_true_iff in Sh. destruct Sh as [_ Op].
  unfold signature_to_member. rewrite py_in_dict. cbn [bind].
  assert (X : match (if dmem d (SK "protected")
                     then do seg <- py_getitem_str (PDict d) (SK "protected");
                          do p <- json_b64decode g P seg;
                          if g_dict_jws_json g && negb (is_dict p) then Err (EJose DecodeError) else Ok p
                     else Ok PNone) with
              | Ok p => hdr_ok p = true | Err e => allowed_exn e = true end).
  { destruct (dmem d (SK "protected")) eqn:M; [|reflexivity].
    destruct (getitem_dict_mem _ _ M) as [seg [Gs Ds]]. rewrite Gs. cbn [bind].
    pose proof (opt_is_get _ _ _ _ Op Ds) as IS.
    pose proof (json_b64decode_only g seg G1 (or_introl IS)) as J.
    destruct (json_b64decode g P seg) as [p|e]; cbn [bind]; [|rewrite (J e eq_refl); reflexivity].
    rewrite G2. destruct (is_dict p) eqn:D; cbn [negb andb]; [apply is_dict_hdr_ok; exact D | reflexivity]. }
  destruct (if dmem d (SK "protected") then _ else _) as [p|e]; cbn [bind]; [|exact X].
  destruct (opt_member_spec d "header" is_dict Oh) as [h [Eh Ph]]. rewrite Eh. cbn [bind fst snd].
  split; [exact X|]. destruct (dmem d (SK "header")); [apply is_dict_hdr_ok; exact Ph | subst; reflexivity].
Qed.

Lemma str_utf8_only v : is_str v = true -> only_value (str_utf8 v).
Proof. destruct v; try discriminate. intros _. apply encode_utf8_only. Qed.

Lemma verify_signature_safe g reg ka p h sig pseg :
  g_crit g = true -> g_eddsa g = true -> jws_reg_wf reg = true ->
  hdr_ok p = true -> hdr_ok h = true -> jws_sig_shape sig = true ->
  safe (verify_signature g P reg ka (p, h) sig pseg).
Proof.
  intros G1 G2 W A B Sh. unfold verify_signature. cbn [fst snd].
  destruct (member_headers_dict p h A B) as [d E]. rewrite E. cbn [bind].
  pose proof W as W'. apply andb_true_iff in W'. destruct W' as [W1 _].
  apply safe_bind; [apply only_value_safe, jws_check_header_only; assumption|].
  intros [] Hc.
  destruct (jws_check_header_alg _ _ _ W Hc) as [s Ds].
  rewrite (getitem_of_dget _ _ _ Ds). cbn [bind].
  pose proof (jws_get_alg_spec g reg (PStr s) (or_intror eq_refl)) as Al.
  destruct (jws_get_alg g reg (PStr s)) as [row|e]; cbn [bind]; [|subst; reflexivity].
  apply safe_bind; [apply guess_key_safe|]. intros k _.
  apply safe_bind; [apply check_use_safe|]. intros _ _.
  unfold jws_check_key_type. destruct (String.eqb (k_kty k) (ja_key_type row)) eqn:KT; cbn [bind]; [|reflexivity].
  apply String.eqb_eq in KT.
  destruct sig as [| | | | | |l|sd]; try discriminate. cbn [jws_sig_shape] in Sh.
  apply andb_true_iff in Sh. destruct Sh as [Sh _]. apply andb_true_iff in Sh. destruct Sh as [Rs Op].
  rewrite py_in_dict. cbn [bind].
  apply safe_bind.
  { destruct (dmem sd (SK "protected")) eqn:M; [|exact I].
    destruct (getitem_dict_mem _ _ M) as [seg [Gs Dsg]]. rewrite Gs. cbn [bind].
    apply only_value_safe, str_utf8_only. eapply opt_is_get; eauto. }
  intros protseg _.
  destruct (req_is_get _ _ _ Rs) as [sv [Dsv ISv]]. rewrite (getitem_of_dget _ _ _ Dsv). cbn [bind].
  apply safe_bind; [apply only_value_safe, str_utf8_only; exact ISv|]. intros sb _.
  apply safe_bind; [apply b64d_safe|]. intros sigb _.
  apply jws_alg_verify_safe; assumption.
Qed.

Definition member_ok (ms : (pv * pv) * pv) : Prop :=
  hdr_ok (fst (fst ms)) = true /\ hdr_ok (snd (fst ms)) = true /\ jws_sig_shape (snd ms) = true.

Lemma verify_all_safe g reg ka pseg l :
  g_crit g = true -> g_eddsa g = true -> jws_reg_wf reg = true ->
  Forall member_ok l -> safe (verify_all g P reg ka pseg l).
Proof.
  intros G1 G2 W F. induction F as [|[[p h] s] l [A [B C]] F IH]; [exact I|].
  cbn [verify_all]. apply safe_bind; [apply verify_signature_safe; assumption|].
  intros [] _; [exact IH | exact I].
Qed.

Lemma mapM_members g l :
  g_rec_header g = true -> g_dict_jws_json g = true -> forallb jws_sig_shape l = true ->
  match mapM (signature_to_member g P) l with
  | Ok ms => Forall member_ok (combine ms l)
  | Err e => allowed_exn e = true
  end.
Proof.
  intros G1 G2. induction l as [|x r IH]; intro F; [constructor|].
  cbn [forallb] in F. apply andb_true_iff in F. destruct F as [Fx Fr].
  cbn [mapM]. pose proof (signature_to_member_spec g x G1 G2 Fx) as Sx.
  destruct (signature_to_member g P x) as [m|e]; cbn [bind]; [|exact Sx].
  specialize (IH Fr). destruct (mapM (signature_to_member g P) r) as [ms|e]; cbn [bind]; [|exact IH].
  cbn [combine]. constructor; [|exact IH]. destruct Sx as [S1 S2]. repeat split; assumption.
Qed.

Lemma json_payload_safe d : req_is d "payload" is_str = true -> safe (json_payload (PDict d)).
Proof.
  intro R. unfold json_payload. destruct (req_is_get _ _ _ R) as [v [D IS]].
  rewrite (getitem_of_dget _ _ _ D). cbn [bind].
  apply safe_bind; [apply only_value_safe, str_utf8_only; exact IS|]. intros pseg _.
  apply safe_bind; [apply catch_b64d_safe|]. intros payload _. exact I.
Qed.

(* the _sig dict rebuilt from a flattened serialization has the signature shape again *)
Lemma flat_sig_spec d :
  jws_sig_shape (PDict d) = true ->
  exists sg, flat_sig (PDict d) = Ok sg /\ jws_sig_shape sg = true.
Proof.
  intro Sh. cbn [jws_sig_shape] in Sh.
  apply andb_true_iff in Sh. destruct Sh as [Sh Oh]. apply andb_true_iff in Sh. destruct Sh as [Rs Op].
  unfold flat_sig. destruct (req_is_get _ _ _ Rs) as [sv [Dsv ISv]]. rewrite (getitem_of_dget _ _ _ Dsv). cbn [bind].
  destruct (opt_member_spec d "protected" is_str Op) as [p [Ep Pp]]. rewrite Ep. cbn [bind].
  destruct (opt_member_spec d "header" is_dict Oh) as [h [Eh Ph]]. rewrite Eh. cbn [bind].
  rewrite !py_in_dict. cbn [bind]. eexists. split; [reflexivity|].
  destruct sv; try discriminate.
  destruct (dmem d (SK "protected")) eqn:Mp; destruct (dmem d (SK "header")) eqn:Mh;
    unfold jws_sig_shape, req_is, opt_is; cbn; try rewrite Pp; try rewrite Ph; reflexivity.
Qed.

Definition needs_jws_json (g : guards) : bool :=
  g_rec_header g && g_dict_jws_json g && g_crit g && g_eddsa g.

Theorem jws_deserialize_json_safe g reg ka value :
  needs_jws_json g = true -> jws_reg_wf reg = true -> jws_documented_shape value = true ->
  safe (jws_deserialize_json g P reg ka value).
Proof.
  intros N W Sh. unfold needs_jws_json in N. repeat (apply andb_true_iff in N; destruct N as [N ?]).
  destruct value as [| | | | | |l0|d]; try discriminate. cbn [jws_documented_shape] in Sh.
  apply andb_true_iff in Sh. destruct Sh as [Rp Rest].
  unfold jws_deserialize_json. rewrite py_in_dict. cbn [bind].
  destruct (dmem d (SK "signatures")) eqn:M.
  - apply safe_bind; [apply json_payload_safe; exact Rp|]. intros pp _.
    destruct (req_is_get _ _ _ Rest) as [sv [Dsv Ls]]. rewrite (getitem_of_dget _ _ _ Dsv). cbn [bind].
    destruct sv as [| | | | | |l|sd]; try discriminate. cbn [list_of] in Ls. cbn [py_iter bind].
    pose proof (mapM_members g l N H1 Ls) as MM.
    destruct (mapM (signature_to_member g P) l) as [ms|e]; cbn [bind]; [|exact MM].
    destruct l as [|x r]; [reflexivity|].
    apply safe_bind; [apply verify_all_safe; assumption|]. intros [] _; [exact I | reflexivity].
  - apply safe_bind; [apply json_payload_safe; exact Rp|]. intros pp _.
    destruct (flat_sig_spec d Rest) as [sg [E Sg]]. rewrite E. cbn [bind].
    pose proof (signature_to_member_spec g sg N H1 Sg) as Sm.
    destruct (signature_to_member g P sg) as [[p h]|e]; cbn [bind]; [|exact Sm].
    cbn [fst snd] in Sm. destruct Sm as [S1 S2].
    apply safe_bind; [apply verify_signature_safe; assumption|]. intros [] _; [exact I | reflexivity].
Qed.

Definition needs_7797_json (g : guards) : bool := needs_jws_json g && g_dict_7797_json g.

Theorem r7797_deserialize_json_safe g reg0 reg7 ka value :
  needs_7797_json g = true -> jws_reg_wf reg0 = true -> jws_reg_wf reg7 = true ->
  jws_documented_shape value = true ->
  safe (r7797_deserialize_json g P reg0 reg7 ka value).
Proof.
  intros N W0 W7 Sh. apply andb_true_iff in N. destruct N as [N G7].
  pose proof N as N'. unfold needs_jws_json in N'. repeat (apply andb_true_iff in N'; destruct N' as [N' ?]).
  destruct value as [| | | | | |l0|d] eqn:EV; try discriminate. rewrite <- EV in *.
  assert (J0 : forall reg, jws_reg_wf reg = true -> safe (jws_deserialize_json g P reg ka value))
    by (intros; apply jws_deserialize_json_safe; assumption).
  rewrite EV in Sh |- *. cbn [jws_documented_shape] in Sh.
  apply andb_true_iff in Sh. destruct Sh as [Rp Rest].
  unfold r7797_deserialize_json. rewrite py_in_dict. cbn [bind].
  destruct (dmem d (SK "signatures")) eqn:M; [rewrite <- EV; apply J0; assumption|].
  pose proof Rest as Rest'. cbn [jws_sig_shape] in Rest'.
  apply andb_true_iff in Rest'. destruct Rest' as [Sh Oh]. apply andb_true_iff in Sh. destruct Sh as [Rs Op].
  rewrite py_in_dict. cbn [bind].
  assert (X : match (if dmem d (SK "protected")
                     then do seg <- py_getitem_str (PDict d) (SK "protected");
                          do segb <- to_bytes false seg;
                          do p <- json_b64decode g P (PBytes segb);
                          if g_dict_7797_json g && negb (is_dict p) then Err (EJose DecodeError) else Ok p
                     else Ok PNone) with
              | Ok p => hdr_ok p = true | Err e => allowed_exn e = true end).
  { destruct (dmem d (SK "protected")) eqn:Mp; [|reflexivity].
    destruct (getitem_dict_mem _ _ Mp) as [seg [Gs Ds]]. rewrite Gs. cbn [bind].
    pose proof (opt_is_get _ _ _ _ Op Ds) as IS. destruct seg; try discriminate.
    pose proof (to_bytes_str_only false s) as TB.
    destruct (to_bytes false (PStr s)) as [segb|e]; cbn [bind]; [|rewrite (TB e eq_refl); reflexivity].
    pose proof (json_b64decode_only g (PBytes segb) N' (or_intror (ex_intro _ segb eq_refl))) as J.
    destruct (json_b64decode g P (PBytes segb)) as [p|e]; cbn [bind]; [|rewrite (J e eq_refl); reflexivity].
    rewrite G7. destruct (is_dict p) eqn:D; cbn [negb andb]; [apply is_dict_hdr_ok; exact D | reflexivity]. }
  destruct (if dmem d (SK "protected") then _ else _) as [p|e]; cbn [bind]; [|exact X].
  assert (Hh : exists h, py_get_str (PDict d) (SK "header") = Ok h /\ hdr_ok h = true).
  { cbn [py_get_str]. destruct (dget d (SK "header")) as [h|] eqn:Dh; [|eauto].
    exists h. split; [reflexivity|]. apply is_dict_hdr_ok. eapply opt_is_get; eauto. }
  destruct Hh as [h [Eh Hh]]. rewrite Eh. cbn [bind].
  destruct (member_headers_dict p h X Hh) as [hd Ehd]. rewrite Ehd. cbn [bind].
  rewrite py_in_dict. cbn [bind].
  destruct (dmem hd (SK "b64")) eqn:Mb; cbn [negb]; [|rewrite <- EV; apply J0; assumption].
  destruct (req_is_get _ _ _ Rp) as [pv_ [Dp ISp]]. rewrite (getitem_of_dget _ _ _ Dp). cbn [bind].
  destruct pv_; try discriminate.
  apply safe_bind; [apply to_bytes_str_safe|]. intros payload _.
  destruct (flat_sig_spec d Rest) as [sg [E Sg]]. rewrite E. cbn [bind].
  destruct (getitem_dict_mem _ _ Mb) as [b [Gb _]]. rewrite Gb. cbn [bind].
  destruct (is_true b); [rewrite <- EV; apply J0; assumption|].
  apply safe_bind; [apply verify_signature_safe; assumption|]. intros [] _; [exact I | reflexivity].
Qed.
