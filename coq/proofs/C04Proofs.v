(* C04Proofs.v — JWE encrypt-then-decrypt round trip of the model
   (model/JweCrypto.v, JweMsg.v) under inverse-pair contracts of the oracles. *)
From Coq Require Import Lia ZifyBool.
From Model Require Import JweBase JweCrypto JweMsg.
From Gen Require Import Tables.
From Proofs Require Import B64Proofs C02Proofs.
Open Scope N_scope.

(* ================= PKCS7 ================= *)
Lemma lenN_app {A} (a b : list A) : lenN (a ++ b) = lenN a + lenN b.
Proof. unfold lenN. rewrite app_length. lia. Qed.
Lemma lenN_repeat {A} (x : A) n : lenN (repeat x n) = N.of_nat n.
Proof. unfold lenN. rewrite repeat_length. reflexivity. Qed.

Lemma forallb_repeat (n : N) k : forallb (fun b => b =? n) (repeat n k) = true.
Proof. induction k; simpl; [reflexivity | rewrite N.eqb_refl; exact IHk]. Qed.

Lemma rev_repeat' {A} (x : A) k : rev (repeat x k) = repeat x k.
Proof.
  induction k; simpl; [reflexivity |]. rewrite IHk.
  clear. induction k; simpl; [reflexivity | f_equal; exact IHk].
Qed.

Lemma pkcs7_roundtrip m : pkcs7_unpad (pkcs7_pad m) = Ok m.
Proof.
  unfold pkcs7_pad, pkcs7_unpad.
  set (n := 16 - lenN m mod 16).
  assert (Hm : lenN m mod 16 < 16) by (apply N.mod_lt; lia).
  assert (Hn : 1 <= n <= 16) by (unfold n; lia).
  assert (L : lenN (m ++ repeat n (N.to_nat n)) mod 16 = 0).
  { rewrite lenN_app, lenN_repeat. rewrite N2Nat.id. unfold n.
    rewrite (N.div_mod (lenN m) 16) at 1 by lia.
    replace (16 * (lenN m / 16) + lenN m mod 16 + (16 - lenN m mod 16)) with (16 + (lenN m / 16) * 16) by lia.
    rewrite N.mod_add by lia. reflexivity. }
  destruct (N.to_nat n) as [|k'] eqn:K; [lia |].
  rewrite rev_app_distr, rev_repeat'.
  remember (m ++ repeat n (S k')) as d eqn:D.
  simpl. rewrite L. simpl.
  assert (B : (n =? 0) || (16 <? n) = false) by lia.
  rewrite B. rewrite K. subst d.
  rewrite app_length, repeat_length.
  replace (length m + S k' - S k')%nat with (length m) by lia.
  rewrite firstn_app, firstn_all, Nat.sub_diag. simpl firstn. rewrite app_nil_r.
  rewrite skipn_app, skipn_all, Nat.sub_diag. simpl skipn. simpl app.
  change (n :: repeat n k') with (repeat n (S k')).
  rewrite forallb_repeat. reflexivity.
Qed.

(* ================= dictionaries ================= *)
Definition wf {A} (d : list (str * A)) : Prop := NoDup (map fst d).

Lemma dget_none_notin {A} (d : list (str * A)) k : ~ In k (map fst d) -> dget d k = None.
Proof.
  induction d as [|[k' v] d IH]; simpl; intro H; [reflexivity |].
  destruct (str_eqb k' k) eqn:E.
  - apply str_eqb_eq in E. subst. exfalso. apply H. auto.
  - apply IH. intro I. apply H. auto.
Qed.

Lemma dupdate_get {A} (e : list (str * A)) : forall d k, wf e ->
  dget (dupdate d e) k = match dget e k with Some v => Some v | None => dget d k end.
Proof.
  unfold dupdate. induction e as [|[k1 v1] e IH]; intros d k W; simpl; [reflexivity |].
  inversion W; subst. rewrite IH by assumption.
  destruct (str_eqb k1 k) eqn:E.
  - apply str_eqb_eq in E. subst. simpl in H1. rewrite (dget_none_notin e k H1).
    apply dget_dset_same.
  - destruct (dget e k); [reflexivity |].
    apply dget_dset_other. intro X. subst. rewrite str_eqb_refl in E. discriminate.
Qed.

Lemma dset_keys {A} (d : list (str * A)) k v :
  forall x, In x (map fst (dset d k v)) -> x = k \/ In x (map fst d).
Proof.
  induction d as [|[k' v'] d IH]; simpl; intros x H.
  - destruct H as [<- | []]. auto.
  - destruct (str_eqb k' k) eqn:E; simpl in H.
    + destruct H as [<- | H]; auto.
    + destruct H as [<- | H]; auto. destruct (IH x H); auto.
Qed.

Lemma wf_dset {A} (d : list (str * A)) k v : wf d -> wf (dset d k v).
Proof.
  unfold wf. induction d as [|[k' v'] d IH]; simpl; intro W.
  - constructor; [intros [] | constructor].
  - inversion W; subst. destruct (str_eqb k' k) eqn:E; simpl.
    + constructor; assumption.
    + constructor; [| apply IH; assumption].
      intro I. apply dset_keys in I. destruct I as [-> | I]; [| contradiction].
      rewrite str_eqb_refl in E. discriminate.
Qed.

(* merged view of a header member, for well-formed dicts *)
Lemma headers_get s prot unprot hdr hs k :
  wf prot ->
  (match unprot with PDict u => wf u | _ => True end) ->
  (match hdr with PDict h => wf h | _ => True end) ->
  headers s prot unprot hdr = Ok hs ->
  dget hs k =
    match (if py_truth hdr then match hdr with PDict h => dget h k | _ => None end else None) with
    | Some v => Some v
    | None =>
        match (match s with
               | Compact => None
               | _ => if py_truth unprot then match unprot with PDict u => dget u k | _ => None end else None
               end) with
        | Some v => Some v
        | None => dget prot k
        end
    end.
Proof.
  intros Wp Wu Wh H. unfold headers in H.
  assert (P0 : dget (dupdate [] prot) k = dget prot k).
  { rewrite dupdate_get by assumption. destruct (dget prot k); reflexivity. }
  inv_bind H. rename x into rv1.
  assert (P1 : dget rv1 k = match (match s with
               | Compact => None
               | _ => if py_truth unprot then match unprot with PDict u => dget u k | _ => None end else None
               end) with Some v => Some v | None => dget prot k end).
  { destruct s.
    - inversion E; subst. exact P0.
    - destruct (py_truth unprot) eqn:T.
      + destruct unprot; unfold py_update in E; try discriminate; try (destruct l; discriminate); try (destruct s; discriminate); try (destruct s0; discriminate).
        inversion E; subst. rewrite dupdate_get by assumption. rewrite P0. reflexivity.
      + inversion E; subst. exact P0.
    - destruct (py_truth unprot) eqn:T.
      + destruct unprot; unfold py_update in E; try discriminate; try (destruct l; discriminate); try (destruct s; discriminate); try (destruct s0; discriminate).
        inversion E; subst. rewrite dupdate_get by assumption. rewrite P0. reflexivity.
      + inversion E; subst. exact P0. }
  destruct (py_truth hdr) eqn:T.
  - destruct hdr; unfold py_update in H; try discriminate; try (destruct l; discriminate);
      try (destruct s0; discriminate); try (destruct s1; discriminate).
    inversion H; subst. rewrite dupdate_get by assumption. rewrite P1. reflexivity.
  - inversion H; subst. exact P1.
Qed.

(* ================= inverse-pair contracts ================= *)
Definition pubk (k : key) : key :=
  {| k_kty := k_kty k; k_crv := k_crv k; k_priv := false; k_id := k_id k |}.

Record contracts (O : oracles) : Prop := {
  ct_cbc : forall k iv p c, o_cbc_enc O k iv p = Ok c -> o_cbc_dec O k iv c = Ok p;
  ct_gcm : forall k iv a m c t, o_gcm_enc O k iv a m = Ok (c, t) -> o_gcm_dec O k iv a c t = Ok (Some m);
  ct_cc : forall k iv a m c t, o_cc_enc O k iv a m = Ok (c, t) -> o_cc_dec O k iv a c t = Ok m;
  ct_kw : forall k c e, o_kw_wrap O k c = Ok e -> o_kw_unwrap O k e = Ok (Some c);
  ct_rsa : forall k p c e, o_rsa_enc O k p c = Ok e -> o_rsa_dec O k p e = Ok c;
  ct_ecdh : forall a b z, o_ecdh O a b = Ok z -> o_ecdh O b a = Ok z;
  ct_zip : forall m z, o_deflate O m = Ok z -> o_inflate O z = Ok m
}.

Section RT.
Variable O : oracles.
Hypothesis C : contracts O.

(* ---------- content encryption ---------- *)
Lemma cbchs_rt e m cek iv aad ct tag :
  cbchs_encrypt O e m cek iv aad = Ok (ct, tag) -> cbchs_decrypt O e ct tag cek iv aad = Ok m.
Proof.
  unfold cbchs_encrypt, cbchs_decrypt. intro H.
  inv_bind H. inv_bind H. inversion H; subst.
  rewrite E0. simpl.
  assert (B : beqb tag tag = true) by (apply beqb_eq; reflexivity).
  rewrite B. simpl.
  rewrite (ct_cbc O C _ _ _ _ E). simpl. apply pkcs7_roundtrip.
Qed.

Theorem enc_rt e m cek iv aad ct tag :
  enc_encrypt O e m cek iv aad = Ok (ct, tag) -> enc_decrypt O e ct tag cek iv aad = Ok m.
Proof.
  unfold enc_encrypt, enc_decrypt.
  destruct (fam_is (ee_family e) "CBCHS"); [apply cbchs_rt |].
  destruct (fam_is (ee_family e) "GCM").
  - unfold gcm_encrypt, gcm_decrypt. intro H. rewrite (ct_gcm O C _ _ _ _ _ _ H). reflexivity.
  - destruct (fam_is (ee_family e) "ChaCha"); [| discriminate].
    intro H. apply (ct_cc O C). exact H.
Qed.

(* ---------- AES key wrap ---------- *)
Lemma kw_rt ks cek kek ek :
  kw_wrap_cek O ks cek kek = Ok ek -> kw_unwrap_cek O ks ek kek = Ok cek.
Proof.
  unfold kw_wrap_cek, kw_unwrap_cek. intro H. inv_bind H. rewrite E. simpl.
  rewrite (ct_kw O C _ _ _ H). reflexivity.
Qed.

(* ---------- key agreement: both sides derive the same key ---------- *)
Lemma exchange_gate_okp a b z :
  exchange O a b = Ok z ->
  str_eqb (k_kty a) (s_ "OKP") = true ->
  str_eqb (k_kty b) (s_ "OKP") = true /\
  str_eqb (k_crv a) (s_ "X25519") || str_eqb (k_crv a) (s_ "X448") = true.
Proof.
  unfold exchange. intros H K. rewrite K in H.
  destruct (k_priv a); [| discriminate].
  destruct (str_eqb (k_crv a) (k_crv b)); [| discriminate].
  destruct (str_eqb (k_kty b) (s_ "OKP")); [| discriminate].
  destruct (str_eqb (k_crv a) (s_ "X25519") || str_eqb (k_crv a) (s_ "X448")); [| discriminate].
  auto.
Qed.

Lemma exchange_sym_gen a b b' z :
  exchange O a b = Ok z -> k_priv b = true -> k_kty a = k_kty b ->
  k_kty b' = k_kty a -> k_crv b' = k_crv a -> k_id b' = k_id a ->
  exchange O b b' = Ok z.
Proof.
  intros H Pb Kt K1 K2 K3. pose proof (exchange_gate O a b z H) as [Pa [Cr Z]].
  unfold exchange. rewrite K1, K2, K3, Pb, <- Kt, <- Cr, str_eqb_refl.
  destruct (str_eqb (k_kty a) (s_ "OKP")) eqn:OK.
  - destruct (exchange_gate_okp a b z H OK) as [_ X]. rewrite X. simpl.
    apply (ct_ecdh O C). exact Z.
  - simpl. apply (ct_ecdh O C). exact Z.
Qed.

Lemma exchange_sym a b z :
  exchange O a b = Ok z -> k_priv b = true -> k_kty a = k_kty b ->
  exchange O b (pubk a) = Ok z.
Proof. intros. eapply exchange_sym_gen; eauto. Qed.

Lemma exchange_sym_full a b z :
  exchange O a b = Ok z -> k_priv b = true -> k_kty a = k_kty b ->
  exchange O b a = Ok z.
Proof. intros. eapply exchange_sym_gen; eauto. Qed.

(* kdf_info_enc_eq_dec: the KDF input is one function of (merged headers, sizes, tag);
   with the same merged headers both sides feed the same Z and the same other-info *)
Theorem auk_rt a e hs r tag k eph epkd :
  enc_auk O a e hs r tag = Ok k ->
  r_eph r = Some (eph, epkd) ->
  dget hs (asc "epk") = Some epkd ->
  o_import O (k_kty (r_key r)) epkd = Ok (pubk eph) ->
  k_priv (r_key r) = true -> k_kty eph = k_kty (r_key r) ->
  (forall sk, r_sender r = Some sk -> k_kty sk = k_kty (r_key r)) ->
  check_key_type a (r_key r) = Ok tt ->
  dec_auk O a e hs r tag = Ok k.
Proof.
  intros H Eph Epk Imp Priv Kt Skt Ckt.
  assert (AI : assert_in hs "epk" = Ok tt) by (unfold assert_in, dmem; rewrite Epk; reflexivity).
  assert (HG : hget hs "epk" = epkd) by (unfold hget; rewrite Epk; reflexivity).
  unfold enc_auk in H. unfold dec_auk. rewrite Eph in H. simpl in H.
  destruct (fam_is (ea_family a) "ECDH1PU").
  - unfold ecdh1pu_dec_auk.
    inv_bind H. rewrite E. simpl. rewrite AI. simpl.
    inv_bind H. rename x0 into sk.
    destruct (r_sender r) as [sk'|] eqn:S; [| discriminate]. inversion E0; subst sk'. simpl.
    inv_bind H. rename x0 into zs. inv_bind H. rename x0 into ze.
    rewrite HG, Imp. simpl.
    rewrite (exchange_sym_full _ _ _ E1 Priv (Skt sk eq_refl)). simpl.
    rewrite (exchange_sym _ _ _ E2 Priv Kt). simpl. exact H.
  - unfold ecdhes_dec_auk. rewrite AI. simpl. rewrite Ckt. simpl.
    inv_bind H. rename x into z.
    rewrite HG, Imp. simpl.
    rewrite (exchange_sym _ _ _ E Priv Kt). simpl. exact H.
Qed.

(* ---------- key wrapping / key encryption, given the merged headers of the decrypt side ---------- *)
Theorem cek_rt_rsa a s prot unprot r d cek prot' r' ek hs' :
  fam_is (ea_family a) "RSA" = true ->
  encrypt_cek O a s prot unprot r d cek = Ok (prot', r', ek) ->
  k_priv (r_key r) = true ->
  decrypt_cek O a hs' (set_ek r' ek) = Ok cek /\ prot' = prot /\ r' = r.
Proof.
  intros F H P. unfold encrypt_cek in H. rewrite F in H.
  inv_bind H. inv_bind H. inversion H; subst.
  unfold decrypt_cek. rewrite F. simpl. rewrite E. simpl. rewrite P. simpl.
  rewrite (ct_rsa O C _ _ _ _ E0). auto.
Qed.

Theorem cek_rt_aeskw a s prot unprot r d cek prot' r' ek hs' :
  fam_is (ea_family a) "RSA" = false -> fam_is (ea_family a) "AESKW" = true ->
  encrypt_cek O a s prot unprot r d cek = Ok (prot', r', ek) ->
  decrypt_cek O a hs' (set_ek r' ek) = Ok cek /\ prot' = prot /\ r' = r.
Proof.
  intros F0 F H. unfold encrypt_cek in H. rewrite F0, F in H.
  inv_bind H. inv_bind H. inversion H; subst.
  unfold decrypt_cek. rewrite F0, F. simpl. rewrite E. simpl.
  rewrite (kw_rt _ _ _ _ E0). auto.
Qed.

Lemma to_bytes_b64e x : bytes_ok x = true -> to_bytes_pv (PStr (b64e x)) = Ok (b64e x).
Proof.
  intro B. simpl.
  pose proof (b64e_alphabet x B) as A.
  induction (b64e x) as [|c l IH]; simpl; [reflexivity |].
  simpl in A. apply andb_true_iff in A. destruct A as [Ac Al].
  rewrite (IH Al). apply in_alphabet_spec in Ac.
  unfold utf8_char.
  assert (c <? 128 = true) by lia. rewrite H. reflexivity.
Qed.

Theorem cek_rt_gcmkw a s prot unprot r d cek prot' r' ek hs' tg :
  fam_is (ea_family a) "RSA" = false -> fam_is (ea_family a) "AESKW" = false ->
  fam_is (ea_family a) "AESGCMKW" = true ->
  encrypt_cek O a s prot unprot r d cek = Ok (prot', r', ek) ->
  o_gcm_enc O (k_id (r_key r)) (d_kwiv d) None cek = Ok (ek, tg) ->
  bytes_ok (d_kwiv d) = true -> bytes_ok tg = true ->
  dget hs' (asc "iv") = Some (PStr (b64e (d_kwiv d))) ->
  dget hs' (asc "tag") = Some (PStr (b64e tg)) ->
  r_key r' = r_key r ->
  decrypt_cek O a hs' (set_ek r' ek) = Ok cek.
Proof.
  intros F0 F1 F H G Biv Btg Hiv Htg Rk. unfold encrypt_cek in H. rewrite F0, F1, F in H.
  inv_bind H. inv_bind H.
  unfold decrypt_cek. rewrite F0, F1, F. simpl. rewrite Rk, E, E0. simpl.
  unfold assert_in, dmem. rewrite Hiv, Htg. simpl.
  unfold hget. rewrite Hiv, Htg.
  rewrite (to_bytes_b64e _ Biv). simpl. rewrite (b64_roundtrip _ Biv). simpl.
  rewrite (to_bytes_b64e _ Btg). simpl. rewrite (b64_roundtrip _ Btg). simpl.
  rewrite (ct_gcm O C _ _ _ _ _ _ G). reflexivity.
Qed.

End RT.
