(* C04Proofs.v — JWE encrypt-then-decrypt round trip of the model
   (model/JweCrypto.v, JweMsg.v) under inverse-pair contracts of the oracles. *)
From Coq Require Import Lia ZifyBool.
From Model Require Import JweBase JweCrypto JweMsg.
From Gen Require Import Tables.
From Proofs Require Import B64Proofs C02Proofs.
Open Scope N_scope.

(* ================= PKCS7 ================= *)
Lemma lenN_app {A} (a b : list A) : lenN (a ++ b) = lenN a + lenN b.
Proof. unfold lenN. rewrite app_length. lia. Qed.
Lemma lenN_repeat {A} (x : A) n : lenN (repeat x n) = N.of_nat n.
Proof. unfold lenN. rewrite repeat_length. reflexivity. Qed.

Lemma forallb_repeat (n : N) k : forallb (fun b => b =? n) (repeat n k) = true.
Proof. induction k; simpl; [reflexivity | rewrite N.eqb_refl; exact IHk]. Qed.

Lemma rev_repeat' {A} (x : A) k : rev (repeat x k) = repeat x k.
Proof.
  induction k; simpl; [reflexivity |]. rewrite IHk.
  clear. induction k; simpl; [reflexivity | f_equal; exact IHk].
Qed.

Lemma pkcs7_roundtrip m : pkcs7_unpad (pkcs7_pad m) = Ok m.
Proof.
  unfold pkcs7_pad, pkcs7_unpad.
  set (n := 16 - lenN m mod 16).
  assert (Hm : lenN m mod 16 < 16) by (apply N.mod_lt; lia).
  assert (Hn : 1 <= n <= 16) by (unfold n; lia).
  assert (L : lenN (m ++ repeat n (N.to_nat n)) mod 16 = 0).
  { rewrite lenN_app, lenN_repeat. rewrite N2Nat.id. unfold n.
    rewrite (N.div_mod (lenN m) 16) at 1 by lia.
    replace (16 * (lenN m / 16) + lenN m mod 16 + (16 - lenN m mod 16)) with (16 + (lenN m / 16) * 16) by lia.
    rewrite N.mod_add by lia. reflexivity. }
  destruct (N.to_nat n) as [|k'] eqn:K; [lia |].
  rewrite rev_app_distr, rev_repeat'.
  remember (m ++ repeat n (S k')) as d eqn:D.
  simpl. rewrite L. simpl.
  assert (B : (n =? 0) || (16 <? n) = false) by lia.
  rewrite B. rewrite K. subst d.
  rewrite app_length, repeat_length.
  replace (length m + S k' - S k')%nat with (length m) by lia.
  rewrite firstn_app, firstn_all, Nat.sub_diag. simpl firstn. rewrite app_nil_r.
  rewrite skipn_app, skipn_all, Nat.sub_diag. simpl skipn. simpl app.
  change (n :: repeat n k') with (repeat n (S k')).
  rewrite forallb_repeat. reflexivity.
Qed.

(* ================= dictionaries ================= *)
Definition wf {A} (d : list (str * A)) : Prop := NoDup (map fst d).

Lemma dget_none_notin {A} (d : list (str * A)) k : ~ In k (map fst d) -> dget d k = None.
Proof.
  induction d as [|[k' v] d IH]; simpl; intro H; [reflexivity |].
  destruct (str_eqb k' k) eqn:E.
  - apply str_eqb_eq in E. subst. exfalso. apply H. auto.
  - apply IH. intro I. apply H. auto.
Qed.

Lemma dupdate_get {A} (e : list (str * A)) : forall d k, wf e ->
  dget (dupdate d e) k = match dget e k with Some v => Some v | None => dget d k end.
Proof.
  unfold dupdate. induction e as [|[k1 v1] e IH]; intros d k W; simpl; [reflexivity |].
  inversion W; subst. rewrite IH by assumption.
  destruct (str_eqb k1 k) eqn:E.
  - apply str_eqb_eq in E. subst. simpl in H1. rewrite (dget_none_notin e k H1).
    apply dget_dset_same.
  - destruct (dget e k); [reflexivity |].
    apply dget_dset_other. intro X. subst. rewrite str_eqb_refl in E. discriminate.
Qed.

Lemma dset_keys {A} (d : list (str * A)) k v :
  forall x, In x (map fst (dset d k v)) -> x = k \/ In x (map fst d).
Proof.
  induction d as [|[k' v'] d IH]; simpl; intros x H.
  - destruct H as [<- | []]. auto.
  - destruct (str_eqb k' k) eqn:E; simpl in H.
    + destruct H as [<- | H]; auto.
    + destruct H as [<- | H]; auto. destruct (IH x H); auto.
Qed.

Lemma wf_dset {A} (d : list (str * A)) k v : wf d -> wf (dset d k v).
Proof.
  unfold wf. induction d as [|[k' v'] d IH]; simpl; intro W.
  - constructor; [intros [] | constructor].
  - inversion W; subst. destruct (str_eqb k' k) eqn:E; simpl.
    + constructor; assumption.
    + constructor; [| apply IH; assumption].
      intro I. apply dset_keys in I. destruct I as [-> | I]; [| contradiction].
      rewrite str_eqb_refl in E. discriminate.
Qed.

(* merged view of a header member, for well-formed dicts *)
Lemma headers_get s prot unprot hdr hs k :
  wf prot ->
  (match unprot with PDict u => wf u | _ => True end) ->
  (match hdr with PDict h => wf h | _ => True end) ->
  headers s prot unprot hdr = Ok hs ->
  dget hs k =
    match (if py_truth hdr then match hdr with PDict h => dget h k | _ => None end else None) with
    | Some v => Some v
    | None =>
        match (match s with
               | Compact => None
               | _ => if py_truth unprot then match unprot with PDict u => dget u k | _ => None end else None
               end) with
        | Some v => Some v
        | None => dget prot k
        end
    end.
Proof.
  intros Wp Wu Wh H. unfold headers in H.
  assert (P0 : dget (dupdate [] prot) k = dget prot k).
  { rewrite dupdate_get by assumption. destruct (dget prot k); reflexivity. }
  inv_bind H. rename x into rv1.
  assert (P1 : dget rv1 k = match (match s with
               | Compact => None
               | _ => if py_truth unprot then match unprot with PDict u => dget u k | _ => None end else None
               end) with Some v => Some v | None => dget prot k end).
  { destruct s.
    - inversion E; subst. exact P0.
    - destruct (py_truth unprot) eqn:T.
      + destruct unprot; unfold py_update in E; try discriminate; try (destruct l; discriminate); try (destruct s; discriminate); try (destruct s0; discriminate).
        inversion E; subst. rewrite dupdate_get by assumption. rewrite P0. reflexivity.
      + inversion E; subst. exact P0.
    - destruct (py_truth unprot) eqn:T.
      + destruct unprot; unfold py_update in E; try discriminate; try (destruct l; discriminate); try (destruct s; discriminate); try (destruct s0; discriminate).
        inversion E; subst. rewrite dupdate_get by assumption. rewrite P0. reflexivity.
      + inversion E; subst. exact P0. }
  destruct (py_truth hdr) eqn:T.
  - destruct hdr; unfold py_update in H; try discriminate; try (destruct l; discriminate);
      try (destruct s0; discriminate); try (destruct s1; discriminate).
    inversion H; subst. rewrite dupdate_get by assumption. rewrite P1. reflexivity.
  - inversion H; subst. exact P1.
Qed.

(* data[2:-4] of header(2) ++ raw ++ trailer(4) is raw *)
Lemma strip_zlib_spec (hdr raw tl : bytes) :
  length hdr = 2%nat -> length tl = 4%nat -> strip_zlib (hdr ++ raw ++ tl) = raw.
Proof.
  intros H T. unfold strip_zlib.
  destruct hdr as [|a [|b [|c r]]]; try discriminate. simpl skipn.
  rewrite !app_length. simpl length. rewrite T.
  replace (2 + (length raw + 4) - 6)%nat with (length raw) by lia.
  rewrite firstn_app, Nat.sub_diag. rewrite firstn_all. simpl. apply app_nil_r.
Qed.

(* ================= inverse-pair contracts ================= *)
Definition pubk (k : key) : key :=
  {| k_kty := k_kty k; k_crv := k_crv k; k_priv := false; k_id := k_id k |}.

Record contracts (O : oracles) : Prop := {
  ct_cbc : forall k iv p c, o_cbc_enc O k iv p = Ok c -> o_cbc_dec O k iv c = Ok p;
  ct_gcm : forall k iv a m c t, o_gcm_enc O k iv a m = Ok (c, t) -> o_gcm_dec O k iv a c t = Ok (Some m);
  ct_cc : forall k iv a m c t, o_cc_enc O k iv a m = Ok (c, t) -> o_cc_dec O k iv a c t = Ok m;
  ct_kw : forall k c e, o_kw_wrap O k c = Ok e -> o_kw_unwrap O k e = Ok (Some c);
  ct_rsa : forall k p c e, o_rsa_enc O k p c = Ok e -> o_rsa_dec O k p e = Ok c;
  ct_ecdh : forall a b z, o_ecdh O a b = Ok z -> o_ecdh O b a = Ok z;
  ct_zip : forall m z, o_deflate O m = Ok z -> o_inflate O (strip_zlib z) = Ok m
}.

Section RT.
Variable O : oracles.
Hypothesis C : contracts O.

(* ---------- content encryption ---------- *)
Lemma cbchs_rt e m cek iv aad ct tag :
  cbchs_encrypt O e m cek iv aad = Ok (ct, tag) -> cbchs_decrypt O e ct tag cek iv aad = Ok m.
Proof.
  unfold cbchs_encrypt, cbchs_decrypt. intro H.
  inv_bind H. inv_bind H. inversion H; subst.
  rewrite E0. simpl.
  assert (B : beqb tag tag = true) by (apply beqb_eq; reflexivity).
  rewrite B. simpl.
  rewrite (ct_cbc O C _ _ _ _ E). simpl. apply pkcs7_roundtrip.
Qed.

Theorem enc_rt e m cek iv aad ct tag :
  enc_encrypt O e m cek iv aad = Ok (ct, tag) -> enc_decrypt O e ct tag cek iv aad = Ok m.
Proof.
  unfold enc_encrypt, enc_decrypt.
  destruct (fam_is (ee_family e) "CBCHS"); [apply cbchs_rt |].
  destruct (fam_is (ee_family e) "GCM").
  - unfold gcm_encrypt, gcm_decrypt. intro H. rewrite (ct_gcm O C _ _ _ _ _ _ H). reflexivity.
  - destruct (fam_is (ee_family e) "ChaCha"); [| discriminate].
    intro H. apply (ct_cc O C). exact H.
Qed.

(* ---------- AES key wrap ---------- *)
Lemma kw_rt ks cek kek ek :
  kw_wrap_cek O ks cek kek = Ok ek -> kw_unwrap_cek O ks ek kek = Ok cek.
Proof.
  unfold kw_wrap_cek, kw_unwrap_cek. intro H. inv_bind H. rewrite E. simpl.
  rewrite (ct_kw O C _ _ _ H). reflexivity.
Qed.

(* ---------- key agreement: both sides derive the same key ---------- *)
Lemma exchange_gate_okp a b z :
  exchange O a b = Ok z ->
  str_eqb (k_kty a) (s_ "OKP") = true ->
  str_eqb (k_kty b) (s_ "OKP") = true /\
  str_eqb (k_crv a) (s_ "X25519") || str_eqb (k_crv a) (s_ "X448") = true.
Proof.
  unfold exchange. intros H K. rewrite K in H.
  destruct (k_priv a); [| discriminate].
  destruct (str_eqb (k_crv a) (k_crv b)); [| discriminate].
  destruct (str_eqb (k_kty b) (s_ "OKP")); [| discriminate].
  destruct (str_eqb (k_crv a) (s_ "X25519") || str_eqb (k_crv a) (s_ "X448")); [| discriminate].
  auto.
Qed.

Lemma exchange_gate_ec a b z :
  exchange O a b = Ok z -> str_eqb (k_kty a) (s_ "OKP") = false -> str_eqb (k_kty b) (s_ "EC") = true.
Proof.
  unfold exchange. intros H K. rewrite K in H.
  destruct (str_eqb (k_kty b) (s_ "EC")); [reflexivity | discriminate].
Qed.

Lemma exchange_sym_gen a b b' z :
  exchange O a b = Ok z -> k_priv b = true -> k_kty a = k_kty b ->
  k_kty b' = k_kty a -> k_crv b' = k_crv a -> k_id b' = k_id a ->
  exchange O b b' = Ok z.
Proof.
  intros H Pb Kt K1 K2 K3. pose proof (exchange_gate O a b z H) as [Pa [Cr Z]].
  unfold exchange. rewrite K1, K2, K3, Pb, <- Kt, <- Cr, str_eqb_refl.
  destruct (str_eqb (k_kty a) (s_ "OKP")) eqn:OK.
  - destruct (exchange_gate_okp a b z H OK) as [_ X]. rewrite X. simpl.
    apply (ct_ecdh O C). exact Z.
  - pose proof (exchange_gate_ec a b z H OK) as EC. rewrite <- Kt in EC. rewrite EC.
    simpl. apply (ct_ecdh O C). exact Z.
Qed.

Lemma exchange_sym a b z :
  exchange O a b = Ok z -> k_priv b = true -> k_kty a = k_kty b ->
  exchange O b (pubk a) = Ok z.
Proof. intros. eapply exchange_sym_gen; eauto. Qed.

Lemma exchange_sym_full a b z :
  exchange O a b = Ok z -> k_priv b = true -> k_kty a = k_kty b ->
  exchange O b a = Ok z.
Proof. intros. eapply exchange_sym_gen; eauto. Qed.

(* kdf_info_enc_eq_dec: the KDF input is one function of (merged headers, sizes, tag);
   with the same merged headers both sides feed the same Z and the same other-info *)
Theorem auk_rt a e hs r tag k eph epkd :
  enc_auk O a e hs r tag = Ok k ->
  r_eph r = Some (eph, epkd) ->
  dget hs (asc "epk") = Some epkd ->
  o_import O (k_kty (r_key r)) epkd = Ok (pubk eph) ->
  k_priv (r_key r) = true -> k_kty eph = k_kty (r_key r) ->
  (forall sk, r_sender r = Some sk -> k_kty sk = k_kty (r_key r)) ->
  check_key_type a (r_key r) = Ok tt ->
  dec_auk O a e hs r tag = Ok k.
Proof.
  intros H Eph Epk Imp Priv Kt Skt Ckt.
  assert (AI : assert_in hs "epk" = Ok tt) by (unfold assert_in, dmem; rewrite Epk; reflexivity).
  assert (HG : hget hs "epk" = epkd) by (unfold hget; rewrite Epk; reflexivity).
  unfold enc_auk in H. unfold dec_auk. rewrite Eph in H. simpl in H.
  destruct (fam_is (ea_family a) "ECDH1PU").
  - unfold ecdh1pu_dec_auk.
    inv_bind H. rewrite E. simpl. rewrite AI. simpl.
    inv_bind H. rename x0 into sk.
    destruct (r_sender r) as [sk'|] eqn:S; [| discriminate]. inversion E0; subst sk'. simpl.
    inv_bind H. rename x0 into zs. inv_bind H. rename x0 into ze.
    rewrite Ckt. simpl. rewrite HG, Imp. simpl.
    rewrite (exchange_sym_full _ _ _ E1 Priv (Skt sk eq_refl)). simpl.
    rewrite (exchange_sym _ _ _ E2 Priv Kt). simpl. exact H.
  - unfold ecdhes_dec_auk. rewrite AI. simpl. rewrite Ckt. simpl.
    inv_bind H. rename x into z.
    rewrite HG, Imp. simpl.
    rewrite (exchange_sym _ _ _ E Priv Kt). simpl. exact H.
Qed.

(* ---------- key wrapping / key encryption, given the merged headers of the decrypt side ---------- *)
Theorem cek_rt_rsa a s prot unprot r d cek prot' r' ek hs' :
  fam_is (ea_family a) "RSA" = true ->
  encrypt_cek O a s prot unprot r d cek = Ok (prot', r', ek) ->
  k_priv (r_key r) = true ->
  decrypt_cek O a hs' (set_ek r' ek) = Ok cek /\ prot' = prot /\ r' = r.
Proof.
  intros F H P. unfold encrypt_cek in H. rewrite F in H.
  inv_bind H. inv_bind H.
  match type of H with (if ?b then _ else _) = _ => destruct b; [discriminate |] end.
  inv_bind H. inversion H; subst.
  unfold decrypt_cek. rewrite F. simpl. rewrite E. simpl. rewrite P. simpl.
  rewrite (ct_rsa O C _ _ _ _ E1). auto.
Qed.

Theorem cek_rt_aeskw a s prot unprot r d cek prot' r' ek hs' :
  fam_is (ea_family a) "RSA" = false -> fam_is (ea_family a) "AESKW" = true ->
  encrypt_cek O a s prot unprot r d cek = Ok (prot', r', ek) ->
  decrypt_cek O a hs' (set_ek r' ek) = Ok cek /\ prot' = prot /\ r' = r.
Proof.
  intros F0 F H. unfold encrypt_cek in H. rewrite F0, F in H.
  inv_bind H. inv_bind H. inversion H; subst.
  unfold decrypt_cek. rewrite F0, F. simpl. rewrite E. simpl.
  rewrite (kw_rt _ _ _ _ E0). auto.
Qed.

Lemma utf8_b64e x : bytes_ok x = true -> utf8 (b64e x) = Ok (b64e x).
Proof.
  intro B.
  pose proof (b64e_alphabet x B) as A.
  induction (b64e x) as [|c l IH]; simpl; [reflexivity |].
  simpl in A. apply andb_true_iff in A. destruct A as [Ac Al].
  rewrite (IH Al). apply in_alphabet_spec in Ac.
  unfold utf8_char.
  assert (c <? 128 = true) by lia. rewrite H. reflexivity.
Qed.

Theorem cek_rt_gcmkw a s prot unprot r d cek prot' r' ek hs' tg :
  fam_is (ea_family a) "RSA" = false -> fam_is (ea_family a) "AESKW" = false ->
  fam_is (ea_family a) "AESGCMKW" = true ->
  encrypt_cek O a s prot unprot r d cek = Ok (prot', r', ek) ->
  o_gcm_enc O (k_id (r_key r)) (d_kwiv d) None cek = Ok (ek, tg) ->
  bytes_ok (d_kwiv d) = true -> bytes_ok tg = true ->
  dget hs' (asc "iv") = Some (PStr (b64e (d_kwiv d))) ->
  dget hs' (asc "tag") = Some (PStr (b64e tg)) ->
  r_key r' = r_key r ->
  decrypt_cek O a hs' (set_ek r' ek) = Ok cek.
Proof.
  intros F0 F1 F H G Biv Btg Hiv Htg Rk. unfold encrypt_cek in H. rewrite F0, F1, F in H.
  inv_bind H. inv_bind H.
  unfold decrypt_cek. rewrite F0, F1, F. simpl. rewrite Rk, E, E0. simpl.
  unfold assert_in, dmem. rewrite Hiv, Htg. simpl.
  unfold hget. rewrite Hiv, Htg.
  cbn [to_bytes_pv].
  rewrite (utf8_b64e _ Biv). simpl. rewrite (b64_roundtrip _ Biv). simpl.
  rewrite (utf8_b64e _ Btg). simpl. rewrite (b64_roundtrip _ Btg). simpl.
  rewrite (ct_gcm O C _ _ _ _ _ _ G). reflexivity.
Qed.

End RT.

(* ================= header members added by encryption are seen by decryption ================= *)
Definition hdr_wf (v : pv) : Prop := match v with PDict h => wf h | _ => True end.

(* headers_enc_eq_dec: a member put by add_header is what Recipient.headers() returns for it *)
Lemma truthy_dset (d : dict) k v : py_truth (PDict (dset d k v)) = true.
Proof. destruct d as [|[k' v'] d]; simpl; [reflexivity | destruct (str_eqb k' k); reflexivity]. Qed.

Lemma wf_single {A} (k : str) (v : A) : wf [(k, v)].
Proof. unfold wf. simpl. constructor; [intros [] | constructor]. Qed.

Theorem add_header_get s prot unprot r k v p' r' hs' :
  wf prot -> hdr_wf unprot -> hdr_wf (r_header r) ->
  (s = Compact -> r_header r = PNone) ->
  add_header s prot r k v = Ok (p', r') ->
  headers s p' unprot (r_header r') = Ok hs' ->
  dget hs' k = Some v.
Proof.
  intros Wp Wu Wh Hc A H. unfold add_header in A.
  assert (JS : s <> Compact ->
               (if py_truth (r_header r)
                then match r_header r with
                     | PDict e => Ok (prot, set_header r (PDict (dset e k v)))
                     | _ => Err EAttr
                     end
                else Ok (prot, set_header r (PDict [(k, v)]))) = Ok (p', r') ->
               dget hs' k = Some v).
  { intros NC A'.
    destruct (py_truth (r_header r)) eqn:T.
    - destruct (r_header r) eqn:RH; try discriminate. inversion A'; subst. simpl in H.
      pose proof (headers_get s p' unprot (PDict (dset d k v)) hs' k Wp Wu (wf_dset d k v Wh) H) as G.
      rewrite G. rewrite truthy_dset. rewrite dget_dset_same. reflexivity.
    - inversion A'; subst. simpl in H.
      pose proof (headers_get s p' unprot (PDict [(k, v)]) hs' k Wp Wu (wf_single k v) H) as G.
      rewrite G. simpl. rewrite str_eqb_refl. reflexivity. }
  destruct s.
  - inversion A; subst. rewrite (Hc eq_refl) in H.
    pose proof (headers_get Compact (dset prot k v) unprot PNone hs' k (wf_dset prot k v Wp) Wu I H) as G.
    rewrite G. simpl. apply dget_dset_same.
  - apply JS; [discriminate | exact A].
  - apply JS; [discriminate | exact A].
Qed.

(* in the JSON serializations add_header never touches the protected header *)
Lemma add_header_json_prot s prot r k v p' r' :
  s <> Compact -> add_header s prot r k v = Ok (p', r') -> p' = prot /\ r_key r' = r_key r.
Proof.
  intros N A. unfold add_header in A. destruct s; [contradiction | |];
    (destruct (py_truth (r_header r));
     [destruct (r_header r); try discriminate; inversion A; subst; auto
     | inversion A; subst; auto]).
Qed.

(* ================= AAD: both sides compute the same octets ================= *)
Definition obj_of (o : eobj) (x : eout) : jobj :=
  {| j_ser := e_ser o; j_prot := x_prot x; j_unprot := e_unprot o; j_aad := e_aad o;
     j_b64prot := Some (x_b64prot x); j_iv := x_iv x; j_ct := x_ct x; j_tag := x_tag x;
     j_recips := x_recips x |}.

Section Message.
Variable O : oracles.
Hypothesis C : contracts O.
Variable g : registry.

Lemma perform_encrypt_inv o d x :
  perform_encrypt O g o d = Ok x ->
  exists encv e m,
    hitem (e_prot o) "enc" = Ok encv /\ get_enc g encv = Ok e /\
    zip_plain O g (x_prot x) (e_plain o) = Ok m /\
    json_b64encode O (x_prot x) = Ok (x_b64prot x) /\
    x_aadseg x = aad_of (e_ser o) (x_b64prot x) (e_aad o) /\
    x_iv x = d_civ d /\
    enc_encrypt O e m (x_cek x) (x_iv x) (x_aadseg x) = Ok (x_ct x, x_tag x).
Proof.
  unfold perform_encrypt. intro H.
  inv_bind H. rename x0 into encv. inv_bind H. rename x0 into e.
  inv_bind H. destruct x0 as [[prot cek] acc].
  inv_bind H. rename x0 into m. inv_bind H. rename x0 into b64p.
  inv_bind H. destruct x0 as [ct tag]. inv_bind H. inversion H; subst; simpl in *.
  exists encv, e, m. repeat split; auto.
Qed.

Theorem aad_enc_eq_dec o d x :
  perform_encrypt O g o d = Ok x -> dec_aad O (obj_of o x) = Ok (x_aadseg x).
Proof.
  intro H. apply perform_encrypt_inv in H.
  destruct H as [encv [e [m [_ [_ [_ [_ [A _]]]]]]]].
  unfold dec_aad, obj_of. simpl. rewrite A. reflexivity.
Qed.

Lemma zip_rt prot m z : zip_plain O g prot m = Ok z -> unzip O g prot z = Ok m.
Proof.
  unfold zip_plain, unzip. destruct (dmem prot (s_ "zip")); [| intro H; inversion H; reflexivity].
  intro H. inv_bind H. rewrite E. simpl. unfold zip_compress in H. inv_bind H. inversion H; subst.
  apply (ct_zip O C). assumption.
Qed.

(* message layer: given that the recipients yield the CEK used by the encryption *)
Theorem message_rt o d x e encv :
  perform_encrypt O g o d = Ok x ->
  hitem (x_prot x) "enc" = Ok encv -> hitem (e_prot o) "enc" = Ok encv -> get_enc g encv = Ok e ->
  lenN (d_civ d) * 8 = ee_iv_size e ->
  recip_loop O g e (obj_of o x) (x_recips x) [] = Ok [x_cek x] ->
  lenN (x_cek x) * 8 = ee_cek_size e ->
  perform_decrypt O g (obj_of o x) = Ok (e_plain o).
Proof.
  intros H He' He G Liv RL Lc.
  pose proof (aad_enc_eq_dec _ _ _ H) as A.
  apply perform_encrypt_inv in H.
  destruct H as [encv2 [e2 [m [H1 [H2 [H3 [H4 [H5 [H6 H7]]]]]]]]].
  rewrite He in H1. inversion H1; subst encv2. rewrite G in H2. inversion H2; subst e2.
  remember (obj_of o x) as ob eqn:OB.
  assert (Jp : j_prot ob = x_prot x) by (subst; reflexivity).
  assert (Jiv : j_iv ob = x_iv x) by (subst; reflexivity).
  assert (Jct : j_ct ob = x_ct x) by (subst; reflexivity).
  assert (Jtag : j_tag ob = x_tag x) by (subst; reflexivity).
  assert (Jr : j_recips ob = x_recips x) by (subst; reflexivity).
  assert (M : dmem (x_prot x) (s_ "enc") = true).
  { unfold hitem in He'. unfold dmem, s_.
    destruct (dget (x_prot x) (asc "enc")); [reflexivity | discriminate]. }
  assert (CI : check_iv e (x_iv x) = Ok tt).
  { unfold check_iv. rewrite H6, Liv, N.eqb_refl. reflexivity. }
  assert (LC : negb (lenN (x_cek x) * 8 =? ee_cek_size e) = false).
  { rewrite Lc, N.eqb_refl. reflexivity. }
  unfold perform_decrypt, perform_decrypt_inner.
  rewrite Jp, Jiv, Jct, Jtag, Jr, M. cbn [bind].
  rewrite He'. cbn [bind]. rewrite G. cbn [bind]. rewrite CI. cbn [bind].
  rewrite RL. cbn [bind]. rewrite LC. rewrite A. cbn [bind].
  rewrite (enc_rt O C _ _ _ _ _ _ _ H7). cbn [bind].
  rewrite (zip_rt _ _ _ H3). reflexivity.
Qed.

(* ================= forbidden combinations are refused at encryption time ================= *)
Lemma pre_loop_direct_conflict e s unprot total dc r rest ds prot cek acc a prot1 r1 :
  prepare_recipient_algorithm O g s prot unprot r = Ok (a, prot1, r1) ->
  ea_direct a = true -> (1 < total)%nat ->
  pre_loop O g e s unprot total dc (r :: rest) ds prot cek acc = Err (EJose ConflictAlgorithmError).
Proof.
  intros P D T. simpl. rewrite P. simpl. rewrite D.
  assert (X : Nat.ltb 1 total = true) by (apply Nat.ltb_lt; exact T).
  rewrite X. reflexivity.
Qed.

(* the algorithm a recipient names, in a JSON serialization (independent of the loop state) *)
Definition names_direct (s : ser) (prot : dict) (unprot : pv) (r : recip) : Prop :=
  exists hs algv a, headers s prot unprot (r_header r) = Ok hs /\ hitem hs "alg" = Ok algv /\
                    get_alg g algv = Ok a /\ ea_direct a = true.

Ltac ah_prot N :=
  repeat match goal with
  | E : add_header _ _ _ _ _ = Ok (_, _) |- _ =>
      apply add_header_json_prot in E; [destruct E as [? ?]; subst | exact N]
  | E : add_header _ _ _ _ _ = Ok ?x |- _ => destruct x
  end.

Lemma encrypt_cek_json_prot a s prot unprot r d cek p' r' ek :
  s <> Compact -> encrypt_cek O a s prot unprot r d cek = Ok (p', r', ek) -> p' = prot.
Proof.
  intros N H. unfold encrypt_cek in H.
  destruct (fam_is (ea_family a) "RSA").
  { inv_bind H. inv_bind H.
    match type of H with (if ?b then _ else _) = _ => destruct b; [discriminate |] end.
    inv_bind H. inversion H; reflexivity. }
  destruct (fam_is (ea_family a) "AESKW").
  { inv_bind H. inv_bind H. inversion H; reflexivity. }
  destruct (fam_is (ea_family a) "AESGCMKW").
  { inv_bind H. inv_bind H. inv_bind H. inv_bind H. inv_bind H. ah_prot N.
    inversion H; subst. reflexivity. }
  destruct (fam_is (ea_family a) "PBES2"); [| discriminate].
  inv_bind H. inv_bind H.
  match goal with x : (dict * recip * bytes)%type |- _ => destruct x as [[p1 r1] p2s] end.
  inv_bind H.
  match goal with x : (dict * recip * pv)%type |- _ => destruct x as [[p2 r2] p2c] end.
  inv_bind H. inv_bind H. inv_bind H. inversion H; subst.
  assert (P1 : p1 = prot).
  { match goal with E : (if negb (dmem _ (s_ "p2s")) then _ else _) = Ok _ |- _ =>
      destruct (negb (dmem x (s_ "p2s"))); [inv_bind E; ah_prot N; inversion E; subst; reflexivity
                                            | inv_bind E; inv_bind E; inversion E; subst; reflexivity] end. }
  subst p1.
  match goal with E : (if negb (dmem _ (s_ "p2c")) then _ else _) = Ok _ |- _ =>
      destruct (negb (dmem x (s_ "p2c"))); [inv_bind E; ah_prot N; inversion E; subst; reflexivity
                                            | inversion E; subst; reflexivity] end.
Qed.

Theorem direct_single e s unprot total dc : forall rs ds prot cek acc,
  s <> Compact -> (1 < total)%nat ->
  (exists r, In r rs /\ names_direct s prot unprot r) ->
  forall out, pre_loop O g e s unprot total dc rs ds prot cek acc <> Ok out.
Proof.
  induction rs as [|r rs IH]; intros ds prot cek acc N T [r0 [I ND]] out H.
  - destruct I.
  - simpl in H.
    destruct (prepare_recipient_algorithm O g s prot unprot r) as [[[a prot1] r1] | ex] eqn:P; [| discriminate].
    simpl in H.
    assert (P1 : prot1 = prot).
    { unfold prepare_recipient_algorithm in P.
      inv_bind P. inv_bind P. inv_bind P. inv_bind P.
      destruct (is_agreement x2).
      - inv_bind P. inversion P; subst. destruct x3. simpl.
        unfold prepare_ephemeral_key in E3. inv_bind E3. destruct (r_eph r); [| discriminate].
        apply add_header_json_prot in E3; [| exact N]. destruct E3. auto.
      - inversion P; subst. reflexivity. }
    subst prot1.
    destruct (ea_direct a) eqn:D.
    + assert (X : Nat.ltb 1 total = true) by (apply Nat.ltb_lt; exact T).
      rewrite X in H. discriminate.
    + destruct I as [<- | I].
      * (* r itself names a direct algorithm: contradiction with D *)
        destruct ND as [hs [algv [a' [H1 [H2 [H3 H4]]]]]].
        unfold prepare_recipient_algorithm in P. rewrite H1 in P. simpl in P.
        inv_bind P. rewrite H2 in P. simpl in P. rewrite H3 in P. simpl in P.
        destruct (is_agreement a'); [inv_bind P |]; inversion P; subst; congruence.
      * destruct (is_agreement a).
        -- eapply IH; [exact N | exact T | exists r0; split; [exact I | exact ND] | exact H].
        -- destruct (encrypt_cek O a s prot unprot r1 _ _) as [[[p2 r2] ek] | ex] eqn:EC; [| discriminate].
           simpl in H. apply encrypt_cek_json_prot in EC; [| exact N]. subst p2.
           eapply IH; [exact N | exact T | exists r0; split; [exact I | exact ND] | exact H].
Qed.

(* ECDH-1PU with key wrapping demands a CBC-HS content encryption *)
Theorem onepu_kw_cbc_only a e hs r tag :
  fam_is (ea_family a) "ECDH1PU" = true ->
  str_eqb (asc (ea_wrap a)) [] = false ->
  fam_is (ee_family e) "CBCHS" = false ->
  enc_auk O a e hs r tag = Err (EJose InvalidEncryptionAlgorithmError).
Proof.
  intros F W E. unfold enc_auk. rewrite F. unfold check_enc_1pu. rewrite W, E. reflexivity.
Qed.

End Message.

(* ================= compact wire format: split (join segments) ================= *)
Definition nodot (a : bytes) : Prop := forall c, In c a -> c <> 46.

Lemma split_aux_nodot a : forall cur, nodot a -> split_dot_aux a cur = [rev cur ++ a].
Proof.
  induction a as [|c a IH]; intros cur N; simpl.
  - rewrite app_nil_r. reflexivity.
  - assert (c =? 46 = false) by (apply N.eqb_neq; apply N; simpl; auto).
    rewrite H. rewrite IH by (intros x I; apply N; simpl; auto).
    simpl. rewrite <- app_assoc. reflexivity.
Qed.

Lemma split_aux_dot a r : forall cur, nodot a ->
  split_dot_aux (a ++ 46 :: r) cur = (rev cur ++ a) :: split_dot_aux r [].
Proof.
  induction a as [|c a IH]; intros cur N; simpl.
  - rewrite app_nil_r. reflexivity.
  - assert (c =? 46 = false) by (apply N.eqb_neq; apply N; simpl; auto).
    rewrite H. rewrite IH by (intros x I; apply N; simpl; auto).
    simpl. rewrite <- app_assoc. reflexivity.
Qed.

Lemma split_join5 a b c d e :
  nodot a -> nodot b -> nodot c -> nodot d -> nodot e ->
  split_dot (join_dot [a; b; c; d; e]) = [a; b; c; d; e].
Proof.
  intros. unfold split_dot. simpl.
  rewrite split_aux_dot by assumption. rewrite split_aux_dot by assumption.
  rewrite split_aux_dot by assumption. rewrite split_aux_dot by assumption.
  rewrite split_aux_nodot by assumption. reflexivity.
Qed.

Lemma b64e_nodot x : bytes_ok x = true -> nodot (b64e x).
Proof.
  intros B c I E. subst c.
  pose proof (b64e_alphabet x B) as A. rewrite forallb_forall in A.
  specialize (A 46 I). vm_compute in A. discriminate.
Qed.

(* the five segments of what represent_compact writes are read back as the same octets *)
Theorem compact_segments_rt hdr ek iv ct tag :
  bytes_ok hdr = true -> bytes_ok ek = true -> bytes_ok iv = true -> bytes_ok ct = true -> bytes_ok tag = true ->
  split_dot (join_dot [b64e hdr; b64e ek; b64e iv; b64e ct; b64e tag])
    = [b64e hdr; b64e ek; b64e iv; b64e ct; b64e tag] /\
  b64d (b64e hdr) = Ok hdr /\ b64d (b64e ek) = Ok ek /\ b64d (b64e iv) = Ok iv /\
  b64d (b64e ct) = Ok ct /\ b64d (b64e tag) = Ok tag.
Proof.
  intros. split; [apply split_join5; apply b64e_nodot; assumption |].
  repeat split; apply b64_roundtrip; assumption.
Qed.

(* ================= PBES2 and dir, decrypt side from the same header values ================= *)
Section RT2.
Variable O : oracles.
Hypothesis C : contracts O.

Theorem cek_rt_pbes2 a hs' r' cek ek kek p2s sb :
  fam_is (ea_family a) "RSA" = false -> fam_is (ea_family a) "AESKW" = false ->
  fam_is (ea_family a) "AESGCMKW" = false -> fam_is (ea_family a) "PBES2" = true ->
  dmem hs' (asc "p2s") = true -> dmem hs' (asc "p2c") = true ->
  to_bytes_pv (hget hs' "p2s") = Ok sb -> b64d sb = Ok p2s ->
  check_key_type a (r_key r') = Ok tt ->
  pbes2_kek O a (r_key r') p2s (hget hs' "p2c") = Ok kek ->
  kw_wrap_cek O (key_size_of a) cek kek = Ok ek ->
  r_ek r' = Some ek ->
  decrypt_cek O a hs' r' = Ok cek.
Proof.
  intros F0 F1 F2 F3 M1 M2 TB BD CK KEK W EK.
  unfold decrypt_cek. rewrite F0, F1, F2, F3.
  unfold assert_in. rewrite M1, M2. cbn [bind]. rewrite TB. cbn [bind]. rewrite BD. cbn [bind].
  rewrite CK. cbn [bind]. rewrite KEK. cbn [bind].
  unfold need_ek. rewrite EK. cbn [bind].
  apply (kw_rt O C). exact W.
Qed.

(* Direct Encryption: both sides take the shared symmetric key *)
Theorem dir_rt a size r : dir_compute_cek a size r = dir_compute_cek a size r.
Proof. reflexivity. Qed.

Theorem direct_dir_rt a e hs r r' tag cek :
  ea_direct a = true -> is_agreement a = false -> fam_is (ea_family a) "dir" = true ->
  pre_encrypt_direct_mode O a e Compact [] PNone r = Ok (cek, r') ->
  decrypt_recipient O a e hs r' tag = Ok cek /\ lenN cek * 8 = ee_cek_size e.
Proof.
  intros D A F H. unfold pre_encrypt_direct_mode in H. rewrite A, F in H.
  inv_bind H. inversion H; subst.
  unfold decrypt_recipient. rewrite D. simpl r_ek. rewrite A, F.
  assert (X : dir_compute_cek a (ee_cek_size e) (set_ek r []) = dir_compute_cek a (ee_cek_size e) r) by reflexivity.
  rewrite X, E. split; [reflexivity |].
  unfold dir_compute_cek in E. inv_bind E.
  destruct (lenN (k_id (r_key r)) * 8 =? ee_cek_size e) eqn:L; [| discriminate].
  inversion E; subst. apply N.eqb_eq. exact L.
Qed.

End RT2.

(* ================= per-serialization corollaries of the message layer ================= *)
Lemma compact_rt_partial O (C : contracts O) g o d x e encv :
  e_ser o = Compact ->
  perform_encrypt O g o d = Ok x ->
  hitem (x_prot x) "enc" = Ok encv -> hitem (e_prot o) "enc" = Ok encv -> get_enc g encv = Ok e ->
  lenN (d_civ d) * 8 = ee_iv_size e ->
  recip_loop O g e (obj_of o x) (x_recips x) [] = Ok [x_cek x] ->
  lenN (x_cek x) * 8 = ee_cek_size e ->
  perform_decrypt O g (obj_of o x) = Ok (e_plain o) /\
  j_prot (obj_of o x) = x_prot x /\ dec_aad O (obj_of o x) = Ok (x_b64prot x).
Proof.
  intros S H. intros. split; [eapply message_rt; eauto |]. split; [reflexivity |].
  rewrite (aad_enc_eq_dec O g o d x H).
  apply perform_encrypt_inv in H. destruct H as [? [? [? [_ [_ [_ [_ [A _]]]]]]]].
  rewrite A, S. reflexivity.
Qed.

Lemma flat_rt_partial O (C : contracts O) g o d x e encv :
  e_ser o = Flat ->
  perform_encrypt O g o d = Ok x ->
  hitem (x_prot x) "enc" = Ok encv -> hitem (e_prot o) "enc" = Ok encv -> get_enc g encv = Ok e ->
  lenN (d_civ d) * 8 = ee_iv_size e ->
  recip_loop O g e (obj_of o x) (x_recips x) [] = Ok [x_cek x] ->
  lenN (x_cek x) * 8 = ee_cek_size e ->
  perform_decrypt O g (obj_of o x) = Ok (e_plain o) /\
  j_unprot (obj_of o x) = e_unprot o /\ j_aad (obj_of o x) = e_aad o.
Proof. intros. split; [eapply message_rt; eauto |]. split; reflexivity. Qed.

Lemma general_rt_partial O (C : contracts O) g o d x e encv :
  e_ser o = General ->
  perform_encrypt O g o d = Ok x ->
  hitem (x_prot x) "enc" = Ok encv -> hitem (e_prot o) "enc" = Ok encv -> get_enc g encv = Ok e ->
  lenN (d_civ d) * 8 = ee_iv_size e ->
  recip_loop O g e (obj_of o x) (x_recips x) [] = Ok [x_cek x] ->
  lenN (x_cek x) * 8 = ee_cek_size e ->
  perform_decrypt O g (obj_of o x) = Ok (e_plain o) /\
  j_unprot (obj_of o x) = e_unprot o /\ j_aad (obj_of o x) = e_aad o /\
  length (j_recips (obj_of o x)) = length (x_recips x).
Proof. intros. split; [eapply message_rt; eauto |]. repeat split; reflexivity. Qed.

Lemma headers_merge_order s prot unprot hdr hs k :
  wf prot -> hdr_wf unprot -> hdr_wf hdr ->
  headers s prot unprot hdr = Ok hs ->
  dget hs k =
    match (if py_truth hdr then match hdr with PDict h => dget h k | _ => None end else None) with
    | Some v => Some v
    | None =>
        match (match s with
               | Compact => None
               | _ => if py_truth unprot then match unprot with PDict u => dget u k | _ => None end else None
               end) with
        | Some v => Some v
        | None => dget prot k
        end
    end.
Proof. intros Wp Wu Wh. apply headers_get; assumption. Qed.

Lemma direct_single' O g e s unprot total dc rs ds prot cek acc :
  s <> Compact -> (1 < total)%nat ->
  (exists r, In r rs /\ names_direct g s prot unprot r) ->
  forall out, pre_loop O g e s unprot total dc rs ds prot cek acc <> Ok out.
Proof. apply direct_single. Qed.

(* ================= end-to-end (object level) for one recipient: key wrapping / key encryption ===== *)
Section Single.
Variable O : oracles.
Hypothesis C : contracts O.
Variable g : registry.

Lemma perform_encrypt_single_inv o d x r :
  e_recips o = [r] -> perform_encrypt O g o d = Ok x ->
  exists encv e hs algv a,
    hitem (e_prot o) "enc" = Ok encv /\ get_enc g encv = Ok e /\
    headers (e_ser o) (e_prot o) (e_unprot o) (r_header r) = Ok hs /\
    o_check_header O (PDict hs) false = Ok tt /\
    hitem hs "alg" = Ok algv /\ get_alg g algv = Ok a /\
    (is_agreement a = false -> ea_direct a = false ->
     exists prot2 r2 ek,
       encrypt_cek O a (e_ser o) (e_prot o) (e_unprot o) r
                   (match d_rec d with d0 :: _ => d0 | [] => no_rdraw end) (d_cek d) = Ok (prot2, r2, ek) /\
       x_prot x = prot2 /\ x_recips x = [set_ek r2 ek] /\ x_cek x = d_cek d).
Proof.
  intros R H. unfold perform_encrypt in H. rewrite R in H.
  inv_bind H. rename x0 into encv. inv_bind H. rename x0 into e.
  inv_bind H. destruct x0 as [[prot cek] acc].
  inv_bind H. inv_bind H. inv_bind H.
  match goal with ctg : (bytes * bytes)%type |- _ => destruct ctg as [ct tag] end.
  inv_bind H.
  inversion H; subst; clear H. simpl.
  match goal with E1 : pre_loop _ _ _ _ _ _ _ _ _ _ _ _ = Ok _ |- _ => rename E1 into PL end.
  simpl in PL.
  destruct (prepare_recipient_algorithm O g (e_ser o) (e_prot o) (e_unprot o) r) as [[[a prot1] r1]|] eqn:P; [| discriminate].
  simpl in PL.
  unfold prepare_recipient_algorithm in P.
  inv_bind P. inv_bind P. inv_bind P. inv_bind P.
  match goal with
  | Hh : headers _ _ _ _ = Ok ?hs, Hc : o_check_header O (PDict ?hs) false = Ok ?u,
    Ha : hitem ?hs "alg" = Ok ?algv, Ga : get_alg g ?algv = Ok ?a' |- _ =>
      destruct u; exists encv, e, hs, algv, a'
  end.
  repeat (split; [assumption |]).
  intros NA ND. rewrite NA in P. inversion P; subst. clear P.
  rewrite ND, NA in PL.
  match type of PL with (do pre <- ?ec ; _) = _ => destruct ec as [[[p2 r2] ek]|] eqn:EC; [| discriminate] end.
  simpl in PL. inversion PL; subst.
  match goal with E : post_loop _ _ _ _ _ _ _ _ = Ok _ |- _ => simpl in E; inversion E; subst end.
  do 3 eexists. split; [reflexivity |]. auto.
Qed.

(* A*KW and RSA*: no header member is added, so both sides see the same merged headers *)
Theorem single_rt_kw_rsa o d x r :
  e_recips o = [r] -> perform_encrypt O g o d = Ok x ->
  (forall hs, o_check_header O (PDict hs) false = Ok tt -> o_check_header O (PDict hs) true = Ok tt) ->
  (forall hs algv a,
     headers (e_ser o) (e_prot o) (e_unprot o) (r_header r) = Ok hs -> hitem hs "alg" = Ok algv ->
     get_alg g algv = Ok a ->
     ea_direct a = false /\ is_agreement a = false /\
     ((fam_is (ea_family a) "RSA" = true /\ k_priv (r_key r) = true) \/
      (fam_is (ea_family a) "RSA" = false /\ fam_is (ea_family a) "AESKW" = true))) ->
  (forall encv e, hitem (e_prot o) "enc" = Ok encv -> get_enc g encv = Ok e ->
     lenN (d_civ d) * 8 = ee_iv_size e /\ lenN (d_cek d) * 8 = ee_cek_size e) ->
  perform_decrypt O g (obj_of o x) = Ok (e_plain o).
Proof.
  intros R H CH FAM SZ.
  destruct (perform_encrypt_single_inv o d x r R H) as [encv [e [hs [algv [a [He [Ge [Hh [Hc [Ha [Ga K]]]]]]]]]]].
  destruct (FAM hs algv a Hh Ha Ga) as [ND [NA F]].
  destruct (K NA ND) as [prot2 [r2 [ek [EC [XP [XR XC]]]]]].
  destruct (SZ encv e He Ge) as [Liv Lcek].
  assert (KL : decrypt_cek O a hs (set_ek r2 ek) = Ok (d_cek d) /\ prot2 = e_prot o /\ r2 = r).
  { destruct F as [[F1 P] | [F0 F1]].
    - eapply cek_rt_rsa; eauto.
    - eapply cek_rt_aeskw; eauto. }
  destruct KL as [DK [P2 R2]]. rewrite P2 in *. rewrite R2 in *.
  eapply message_rt; eauto.
  - rewrite XP. exact He.
  - rewrite XR. cbn [recip_loop]. 
    change (j_ser (obj_of o x)) with (e_ser o). change (j_prot (obj_of o x)) with (x_prot x).
    change (j_unprot (obj_of o x)) with (e_unprot o). change (j_tag (obj_of o x)) with (x_tag x).
    rewrite XP.
    change (r_header (set_ek r ek)) with (r_header r). rewrite Hh. cbn [bind].
    rewrite (CH hs Hc). cbn [bind]. rewrite Ha. cbn [bind]. rewrite Ga. cbn [bind].
    unfold decrypt_recipient. rewrite ND, NA. rewrite DK. rewrite XC. reflexivity.
  - rewrite XC. exact Lcek.
Qed.

End Single.

(* ================= end-to-end (object level) for one recipient: Direct Encryption ================= *)
Section SingleDir.
Variable O : oracles.
Hypothesis C : contracts O.
Variable g : registry.

Lemma perform_encrypt_dir_inv o d x r :
  e_recips o = [r] -> perform_encrypt O g o d = Ok x ->
  exists encv e hs algv a,
    hitem (e_prot o) "enc" = Ok encv /\ get_enc g encv = Ok e /\
    headers (e_ser o) (e_prot o) (e_unprot o) (r_header r) = Ok hs /\
    o_check_header O (PDict hs) false = Ok tt /\
    hitem hs "alg" = Ok algv /\ get_alg g algv = Ok a /\
    (is_agreement a = false -> ea_direct a = true ->
     fam_is (ea_family a) "dir" = true /\
     dir_compute_cek a (ee_cek_size e) r = Ok (x_cek x) /\
     x_prot x = e_prot o /\ x_recips x = [set_ek r []]).
Proof.
  intros R H. unfold perform_encrypt in H. rewrite R in H.
  inv_bind H. rename x0 into encv. inv_bind H. rename x0 into e.
  inv_bind H. destruct x0 as [[prot cek] acc].
  inv_bind H. inv_bind H. inv_bind H.
  match goal with ctg : (bytes * bytes)%type |- _ => destruct ctg as [ct tag] end.
  inv_bind H.
  inversion H; subst; clear H. simpl.
  match goal with E1 : pre_loop _ _ _ _ _ _ _ _ _ _ _ _ = Ok _ |- _ => rename E1 into PL end.
  simpl in PL.
  destruct (prepare_recipient_algorithm O g (e_ser o) (e_prot o) (e_unprot o) r) as [[[a prot1] r1]|] eqn:P; [| discriminate].
  simpl in PL.
  unfold prepare_recipient_algorithm in P.
  inv_bind P. inv_bind P. inv_bind P. inv_bind P.
  match goal with
  | Hh : headers _ _ _ _ = Ok ?hs, Hc : o_check_header O (PDict ?hs) false = Ok ?u,
    Ha : hitem ?hs "alg" = Ok ?algv, Ga : get_alg g ?algv = Ok ?a' |- _ =>
      destruct u; exists encv, e, hs, algv, a'
  end.
  repeat (split; [assumption |]).
  intros NA D. rewrite NA in P. inversion P; subst. clear P.
  rewrite D in PL.
  unfold pre_encrypt_direct_mode in PL. rewrite NA in PL.
  destruct (fam_is (ea_family a) "dir") eqn:F; [| discriminate].
  destruct (dir_compute_cek a (ee_cek_size e) r1) as [ck|] eqn:DC; [| discriminate].
  simpl in PL. inversion PL; subst.
  match goal with E : post_loop _ _ _ _ _ _ _ _ = Ok _ |- _ => simpl in E; inversion E; subst end.
  auto.
Qed.

Theorem single_rt_dir o d x r :
  e_recips o = [r] -> perform_encrypt O g o d = Ok x ->
  (forall hs, o_check_header O (PDict hs) false = Ok tt -> o_check_header O (PDict hs) true = Ok tt) ->
  (forall hs algv a,
     headers (e_ser o) (e_prot o) (e_unprot o) (r_header r) = Ok hs -> hitem hs "alg" = Ok algv ->
     get_alg g algv = Ok a -> ea_direct a = true /\ is_agreement a = false) ->
  (forall encv e, hitem (e_prot o) "enc" = Ok encv -> get_enc g encv = Ok e ->
     lenN (d_civ d) * 8 = ee_iv_size e) ->
  perform_decrypt O g (obj_of o x) = Ok (e_plain o).
Proof.
  intros R H CH FAM SZ.
  destruct (perform_encrypt_dir_inv o d x r R H) as [encv [e [hs [algv [a [He [Ge [Hh [Hc [Ha [Ga K]]]]]]]]]]].
  destruct (FAM hs algv a Hh Ha Ga) as [D NA].
  destruct (K NA D) as [F [DC [XP XR]]].
  pose proof (SZ encv e He Ge) as Liv.
  assert (Lc : lenN (x_cek x) * 8 = ee_cek_size e).
  { unfold dir_compute_cek in DC. inv_bind DC.
    destruct (lenN (k_id (r_key r)) * 8 =? ee_cek_size e) eqn:L; [| discriminate].
    inversion DC as [Q]. apply N.eqb_eq in L. exact L. }
  eapply message_rt; eauto.
  - rewrite XP. exact He.
  - rewrite XR. cbn [recip_loop].
    change (j_ser (obj_of o x)) with (e_ser o). change (j_prot (obj_of o x)) with (x_prot x).
    change (j_unprot (obj_of o x)) with (e_unprot o). change (j_tag (obj_of o x)) with (x_tag x).
    rewrite XP.
    change (r_header (set_ek r [])) with (r_header r). rewrite Hh. cbn [bind].
    rewrite (CH hs Hc). cbn [bind]. rewrite Ha. cbn [bind]. rewrite Ga. cbn [bind].
    unfold decrypt_recipient. rewrite D. cbn [r_ek set_ek]. rewrite NA, F.
    change (dir_compute_cek a (ee_cek_size e) (set_ek r [])) with (dir_compute_cek a (ee_cek_size e) r).
    rewrite DC. reflexivity.
Qed.

End SingleDir.

(* ================= add_header: the other members are untouched; well-formedness is kept ========= *)
Lemma add_header_other s prot unprot r k v p' r' hs hs' k2 :
  wf prot -> hdr_wf unprot -> hdr_wf (r_header r) ->
  (s = Compact -> r_header r = PNone) ->
  add_header s prot r k v = Ok (p', r') ->
  headers s prot unprot (r_header r) = Ok hs ->
  headers s p' unprot (r_header r') = Ok hs' ->
  k <> k2 ->
  dget hs' k2 = dget hs k2.
Proof.
  intros Wp Wu Wh Hc A H H' NE. unfold add_header in A.
  pose proof (headers_get s prot unprot (r_header r) hs k2 Wp Wu Wh H) as G.
  assert (JS : s <> Compact ->
               (if py_truth (r_header r)
                then match r_header r with
                     | PDict e => Ok (prot, set_header r (PDict (dset e k v)))
                     | _ => Err EAttr
                     end
                else Ok (prot, set_header r (PDict [(k, v)]))) = Ok (p', r') ->
               dget hs' k2 = dget hs k2).
  { intros NC A'.
    destruct (py_truth (r_header r)) eqn:T.
    - destruct (r_header r) eqn:RH; try discriminate. inversion A'; subst. simpl in H'.
      pose proof (headers_get s p' unprot (PDict (dset d k v)) hs' k2 Wp Wu (wf_dset d k v Wh) H') as G'.
      rewrite G', G. rewrite truthy_dset. try rewrite T.
      rewrite (dget_dset_other d k k2 v NE). reflexivity.
    - inversion A'; subst. simpl in H'.
      pose proof (headers_get s p' unprot (PDict [(k, v)]) hs' k2 Wp Wu (wf_single k v) H') as G'.
      rewrite G', G. simpl.
      assert (X : str_eqb k k2 = false) by (apply str_eqb_neq; exact NE).
      rewrite X. reflexivity. }
  destruct s.
  - inversion A; subst. rewrite (Hc eq_refl) in *.
    pose proof (headers_get Compact (dset prot k v) unprot PNone hs' k2 (wf_dset prot k v Wp) Wu I H') as G'.
    rewrite G', G. simpl. apply dget_dset_other. exact NE.
  - apply JS; [discriminate | exact A].
  - apply JS; [discriminate | exact A].
Qed.

Lemma add_header_wf s prot r k v p' r' :
  wf prot -> hdr_wf (r_header r) -> (s = Compact -> r_header r = PNone) ->
  add_header s prot r k v = Ok (p', r') ->
  wf p' /\ hdr_wf (r_header r') /\ (s = Compact -> r_header r' = PNone) /\
  r_key r' = r_key r /\ r_sender r' = r_sender r /\ r_ek r' = r_ek r /\ r_eph r' = r_eph r.
Proof.
  intros Wp Wh Hc A. unfold add_header in A. destruct s.
  - inversion A; subst. repeat split; auto. apply wf_dset. exact Wp.
  - destruct (py_truth (r_header r)).
    + destruct (r_header r) eqn:RH; try discriminate. inversion A; subst. simpl.
      repeat split; auto; try discriminate. apply wf_dset. exact Wh.
    + inversion A; subst. simpl. repeat split; auto; try discriminate. apply wf_single.
  - destruct (py_truth (r_header r)).
    + destruct (r_header r) eqn:RH; try discriminate. inversion A; subst. simpl.
      repeat split; auto; try discriminate. apply wf_dset. exact Wh.
    + inversion A; subst. simpl. repeat split; auto; try discriminate. apply wf_single.
Qed.

(* two successive add_header calls (GCM-KW iv/tag, PBES2 p2s/p2c): both members are seen, the rest is untouched *)
Lemma add_header2 s prot unprot r k1 v1 k2 v2 p1 r1 p2 r2 hs hs' :
  wf prot -> hdr_wf unprot -> hdr_wf (r_header r) -> (s = Compact -> r_header r = PNone) ->
  k1 <> k2 ->
  add_header s prot r k1 v1 = Ok (p1, r1) ->
  add_header s p1 r1 k2 v2 = Ok (p2, r2) ->
  headers s prot unprot (r_header r) = Ok hs ->
  headers s p2 unprot (r_header r2) = Ok hs' ->
  dget hs' k1 = Some v1 /\ dget hs' k2 = Some v2 /\
  (forall k, k1 <> k -> k2 <> k -> dget hs' k = dget hs k) /\
  r_key r2 = r_key r /\ r_ek r2 = r_ek r.
Proof.
  intros Wp Wu Wh Hc NE A1 A2 H H'.
  destruct (add_header_wf s prot r k1 v1 p1 r1 Wp Wh Hc A1) as [Wp1 [Wh1 [Hc1 [K1 [S1 [E1 P1]]]]]].
  destruct (add_header_wf s p1 r1 k2 v2 p2 r2 Wp1 Wh1 Hc1 A2) as [Wp2 [Wh2 [Hc2 [K2 [S2 [E2 P2]]]]]].
  (* the intermediate merged headers exist: headers only fails on a non-dict unprotected / recipient header *)
  assert (Hmid : exists hs1, headers s p1 unprot (r_header r1) = Ok hs1).
  { unfold headers in *. 
    destruct (match s with Compact => Ok (dupdate [] p1) | _ => if py_truth unprot then py_update (dupdate [] p1) unprot else Ok (dupdate [] p1) end) as [rv1|ex] eqn:Q.
    - cbn [bind].
      destruct (py_truth (r_header r1)) eqn:T; [| eauto].
      destruct (r_header r1) eqn:RH; try (simpl in Wh1; simpl; eauto; fail).
      + simpl in T. discriminate.
      + (* PBool *) exfalso. unfold add_header in A1. destruct s.
        * inversion A1; subst. rewrite (Hc eq_refl) in RH. discriminate.
        * destruct (py_truth (r_header r)); [destruct (r_header r); try discriminate; inversion A1; subst; discriminate | inversion A1; subst; discriminate].
        * destruct (py_truth (r_header r)); [destruct (r_header r); try discriminate; inversion A1; subst; discriminate | inversion A1; subst; discriminate].
      + exfalso. unfold add_header in A1. destruct s.
        * inversion A1; subst. rewrite (Hc eq_refl) in RH. discriminate.
        * destruct (py_truth (r_header r)); [destruct (r_header r); try discriminate; inversion A1; subst; discriminate | inversion A1; subst; discriminate].
        * destruct (py_truth (r_header r)); [destruct (r_header r); try discriminate; inversion A1; subst; discriminate | inversion A1; subst; discriminate].
      + exfalso. unfold add_header in A1. destruct s.
        * inversion A1; subst. rewrite (Hc eq_refl) in RH. discriminate.
        * destruct (py_truth (r_header r)); [destruct (r_header r); try discriminate; inversion A1; subst; discriminate | inversion A1; subst; discriminate].
        * destruct (py_truth (r_header r)); [destruct (r_header r); try discriminate; inversion A1; subst; discriminate | inversion A1; subst; discriminate].
      + exfalso. unfold add_header in A1. destruct s.
        * inversion A1; subst. rewrite (Hc eq_refl) in RH. discriminate.
        * destruct (py_truth (r_header r)); [destruct (r_header r); try discriminate; inversion A1; subst; discriminate | inversion A1; subst; discriminate].
        * destruct (py_truth (r_header r)); [destruct (r_header r); try discriminate; inversion A1; subst; discriminate | inversion A1; subst; discriminate].
      + exfalso. unfold add_header in A1. destruct s.
        * inversion A1; subst. rewrite (Hc eq_refl) in RH. discriminate.
        * destruct (py_truth (r_header r)); [destruct (r_header r); try discriminate; inversion A1; subst; discriminate | inversion A1; subst; discriminate].
        * destruct (py_truth (r_header r)); [destruct (r_header r); try discriminate; inversion A1; subst; discriminate | inversion A1; subst; discriminate].
      + exfalso. unfold add_header in A1. destruct s.
        * inversion A1; subst. rewrite (Hc eq_refl) in RH. discriminate.
        * destruct (py_truth (r_header r)); [destruct (r_header r); try discriminate; inversion A1; subst; discriminate | inversion A1; subst; discriminate].
        * destruct (py_truth (r_header r)); [destruct (r_header r); try discriminate; inversion A1; subst; discriminate | inversion A1; subst; discriminate].
    - (* the unprotected-header step fails: then it also fails for the final state, contradiction with H' *)
      exfalso.
      assert (P12 : s <> Compact -> p2 = p1) by (intro N; apply add_header_json_prot in A2; [tauto | exact N]).
      destruct s; [discriminate | |].
      + rewrite (P12 ltac:(discriminate)) in H'. 
        destruct (py_truth unprot); [| discriminate].
        destruct unprot; simpl in Q; try discriminate; simpl in H'; try discriminate;
          try (destruct l; simpl in *; discriminate); try (destruct s; simpl in *; discriminate).
      + rewrite (P12 ltac:(discriminate)) in H'.
        destruct (py_truth unprot); [| discriminate].
        destruct unprot; simpl in Q; try discriminate; simpl in H'; try discriminate;
          try (destruct l; simpl in *; discriminate); try (destruct s; simpl in *; discriminate). }
  destruct Hmid as [hs1 H1].
  pose proof (add_header_get s prot unprot r k1 v1 p1 r1 hs1 Wp Wu Wh Hc A1 H1) as G1.
  pose proof (add_header_get s p1 unprot r1 k2 v2 p2 r2 hs' Wp1 Wu Wh1 Hc1 A2 H') as G2.
  pose proof (add_header_other s p1 unprot r1 k2 v2 p2 r2 hs1 hs' k1 Wp1 Wu Wh1 Hc1 A2 H1 H' (fun E => NE (eq_sym E))) as G3.
  split; [rewrite G3; exact G1 |]. split; [exact G2 |].
  split.
  - intros k N1 N2.
    rewrite (add_header_other s p1 unprot r1 k2 v2 p2 r2 hs1 hs' k Wp1 Wu Wh1 Hc1 A2 H1 H' N2).
    apply (add_header_other s prot unprot r k1 v1 p1 r1 hs hs1 k Wp Wu Wh Hc A1 H H1 N1).
  - split; congruence.
Qed.

Lemma gcmkw_fields_local O a s prot unprot r d cek p' r' ek :
  fam_is (ea_family a) "RSA" = false -> fam_is (ea_family a) "AESKW" = false ->
  fam_is (ea_family a) "AESGCMKW" = true ->
  encrypt_cek O a s prot unprot r d cek = Ok (p', r', ek) ->
  exists tg pr,
    o_gcm_enc O (k_id (r_key r)) (d_kwiv d) None cek = Ok (ek, tg) /\
    add_header s prot r (s_ "iv") (PStr (b64e (d_kwiv d))) = Ok pr /\
    add_header s (fst pr) (snd pr) (s_ "tag") (PStr (b64e tg)) = Ok (p', r').
Proof.
  intros F0 F1 F H. unfold encrypt_cek in H. rewrite F0, F1, F in H.
  inv_bind H. inv_bind H. inv_bind H.
  match goal with et : (bytes * bytes)%type |- _ => destruct et as [ek' tg] end.
  inv_bind H. inv_bind H.
  inversion H; subst. exists tg. eexists. simpl in *. split; [eassumption |]. split; [eassumption |].
  match goal with pr2 : (dict * recip)%type |- _ => destruct pr2 end. simpl. eassumption.
Qed.

(* ================= end-to-end (object level) for one recipient: AES-GCM key wrap ================= *)
Section SingleGcmkw.
Variable O : oracles.
Hypothesis C : contracts O.
Variable g : registry.

Theorem single_rt_gcmkw o d x r :
  e_recips o = [r] -> perform_encrypt O g o d = Ok x ->
  wf (e_prot o) -> hdr_wf (e_unprot o) -> hdr_wf (r_header r) -> (e_ser o = Compact -> r_header r = PNone) ->
  (forall r' hs', x_recips x = [r'] -> headers (e_ser o) (x_prot x) (e_unprot o) (r_header r') = Ok hs' ->
                  o_check_header O (PDict hs') true = Ok tt) ->
  (exists r' hs', x_recips x = [r'] /\ headers (e_ser o) (x_prot x) (e_unprot o) (r_header r') = Ok hs') ->
  (forall hs algv a,
     headers (e_ser o) (e_prot o) (e_unprot o) (r_header r) = Ok hs -> hitem hs "alg" = Ok algv ->
     get_alg g algv = Ok a ->
     ea_direct a = false /\ is_agreement a = false /\
     fam_is (ea_family a) "RSA" = false /\ fam_is (ea_family a) "AESKW" = false /\
     fam_is (ea_family a) "AESGCMKW" = true) ->
  (forall k iv a m c t, o_gcm_enc O k iv a m = Ok (c, t) -> bytes_ok t = true) ->
  bytes_ok (match d_rec d with d0 :: _ => d_kwiv d0 | [] => [] end) = true ->
  (forall encv e, hitem (e_prot o) "enc" = Ok encv -> get_enc g encv = Ok e ->
     lenN (d_civ d) * 8 = ee_iv_size e /\ lenN (d_cek d) * 8 = ee_cek_size e) ->
  perform_decrypt O g (obj_of o x) = Ok (e_plain o).
Proof.
  intros R H Wp Wu Wh Hc CH [r' [hs' [XR' H']]] FAM BT BIV SZ.
  destruct (perform_encrypt_single_inv O g o d x r R H) as [encv [e [hs [algv [a [He [Ge [Hh [Hck [Ha [Ga K]]]]]]]]]]].
  destruct (FAM hs algv a Hh Ha Ga) as [ND [NA [F0 [F1 F2]]]].
  destruct (K NA ND) as [prot2 [r2 [ek [EC [XP [XR XC]]]]]].
  destruct (SZ encv e He Ge) as [Liv Lcek].
  set (dr := match d_rec d with d0 :: _ => d0 | [] => no_rdraw end) in *.
  assert (BIV' : bytes_ok (d_kwiv dr) = true).
  { unfold dr. destruct (d_rec d); [reflexivity | exact BIV]. }
  destruct (gcmkw_fields_local O a (e_ser o) (e_prot o) (e_unprot o) r dr (d_cek d) prot2 r2 ek F0 F1 F2 EC)
    as [tg [[p1 r1] [G [A1 A2]]]]. simpl in A2.
  rewrite XR in XR'. inversion XR'; subst r'. clear XR'.
  rewrite XP in H'. change (r_header (set_ek r2 ek)) with (r_header r2) in H'.
  assert (NE : s_ "iv" <> s_ "tag") by (vm_compute; discriminate).
  destruct (add_header2 (e_ser o) (e_prot o) (e_unprot o) r _ _ _ _ p1 r1 prot2 r2 hs hs' Wp Wu Wh Hc NE A1 A2 Hh H')
    as [Giv [Gtag [Goth [RK REK]]]].
  assert (Halg : hitem hs' "alg" = Ok algv).
  { unfold hitem in *. rewrite (Goth (asc "alg")); [exact Ha | vm_compute; discriminate | vm_compute; discriminate]. }
  assert (DK : decrypt_cek O a hs' (set_ek r2 ek) = Ok (d_cek d)).
  { eapply cek_rt_gcmkw; eauto. }
  eapply message_rt; eauto.
  - rewrite XP. unfold hitem. 
    assert (P12 : dget prot2 (asc "enc") = dget (e_prot o) (asc "enc")).
    { destruct (e_ser o) eqn:S.
      - (* compact: protected header got iv and tag *)
        unfold add_header in A1, A2. inversion A1; subst. inversion A2; subst.
        rewrite dget_dset_other by (vm_compute; discriminate).
        rewrite dget_dset_other by (vm_compute; discriminate). reflexivity.
      - apply add_header_json_prot in A1; [| discriminate].
        apply add_header_json_prot in A2; [| discriminate]. destruct A1, A2. congruence.
      - apply add_header_json_prot in A1; [| discriminate].
        apply add_header_json_prot in A2; [| discriminate]. destruct A1, A2. congruence. }
    rewrite P12. exact He.
  - rewrite XR. cbn [recip_loop].
    change (j_ser (obj_of o x)) with (e_ser o). change (j_prot (obj_of o x)) with (x_prot x).
    change (j_unprot (obj_of o x)) with (e_unprot o). change (j_tag (obj_of o x)) with (x_tag x).
    rewrite XP. change (r_header (set_ek r2 ek)) with (r_header r2). rewrite H'. cbn [bind].
    rewrite (CH (set_ek r2 ek) hs' XR). 2: { rewrite XP. exact H'. }
    cbn [bind]. rewrite Halg. cbn [bind]. rewrite Ga. cbn [bind].
    unfold decrypt_recipient. rewrite ND, NA. rewrite DK. rewrite XC. reflexivity.
  - rewrite XC. exact Lcek.
Qed.

End SingleGcmkw.

(* ================= end-to-end (object level) for one recipient: Direct Key Agreement ================= *)
Section SingleEcdhDirect.
Variable O : oracles.
Hypothesis C : contracts O.
Variable g : registry.

Lemma dec_auk_set_ek a e hs r ek tag : dec_auk O a e hs (set_ek r ek) tag = dec_auk O a e hs r tag.
Proof. reflexivity. Qed.

Lemma perform_encrypt_ecdh_direct_inv o d x r :
  e_recips o = [r] -> perform_encrypt O g o d = Ok x ->
  exists encv e hs algv a,
    hitem (e_prot o) "enc" = Ok encv /\ get_enc g encv = Ok e /\
    headers (e_ser o) (e_prot o) (e_unprot o) (r_header r) = Ok hs /\
    o_check_header O (PDict hs) false = Ok tt /\
    hitem hs "alg" = Ok algv /\ get_alg g algv = Ok a /\
    (is_agreement a = true -> ea_direct a = true ->
     exists eph epkd prot1 r1 hs1,
       check_key_type a (r_key r) = Ok tt /\ r_eph r = Some (eph, epkd) /\
       add_header (e_ser o) (e_prot o) r (s_ "epk") epkd = Ok (prot1, r1) /\
       headers (e_ser o) prot1 (e_unprot o) (r_header r1) = Ok hs1 /\
       enc_auk O a e hs1 r1 None = Ok (x_cek x) /\ lenN (x_cek x) * 8 = ee_cek_size e /\
       x_prot x = prot1 /\ x_recips x = [set_ek r1 []]).
Proof.
  intros R H. unfold perform_encrypt in H. rewrite R in H.
  inv_bind H. rename x0 into encv. inv_bind H. rename x0 into e.
  inv_bind H. destruct x0 as [[prot cek] acc].
  inv_bind H. inv_bind H. inv_bind H.
  match goal with ctg : (bytes * bytes)%type |- _ => destruct ctg as [ct tag] end.
  inv_bind H.
  inversion H; subst; clear H. simpl.
  match goal with E1 : pre_loop _ _ _ _ _ _ _ _ _ _ _ _ = Ok _ |- _ => rename E1 into PL end.
  simpl in PL.
  destruct (prepare_recipient_algorithm O g (e_ser o) (e_prot o) (e_unprot o) r) as [[[a prot1] r1]|] eqn:P; [| discriminate].
  simpl in PL.
  unfold prepare_recipient_algorithm in P.
  inv_bind P. inv_bind P. inv_bind P. inv_bind P.
  match goal with
  | Hh : headers _ _ _ _ = Ok ?hs, Hc : o_check_header O (PDict ?hs) false = Ok ?u,
    Ha : hitem ?hs "alg" = Ok ?algv, Ga : get_alg g ?algv = Ok ?a' |- _ =>
      destruct u; exists encv, e, hs, algv, a'
  end.
  repeat (split; [assumption |]).
  intros AG D. rewrite AG in P. inv_bind P.
  match goal with pr : (dict * recip)%type |- _ => destruct pr as [pp rr] end.
  inversion P; subst. clear P. simpl in *.
  rewrite D in PL.
  unfold prepare_ephemeral_key in *.
  match goal with E : (do _ <- check_key_type _ _ ; _) = Ok _ |- _ => inv_bind E; rename E into AH end.
  match goal with u : unit |- _ => destruct u end.
  destruct (r_eph r) as [[eph epkd]|] eqn:RE; [| discriminate].
  simpl in AH.
  unfold pre_encrypt_direct_mode in PL. rewrite AG in PL.
  destruct (headers (e_ser o) prot1 (e_unprot o) (r_header r1)) as [hs1|] eqn:H1; [| discriminate].
  simpl in PL.
  destruct (enc_auk O a e hs1 r1 None) as [c|] eqn:EA; [| discriminate].
  simpl in PL.
  destruct (lenN c * 8 =? ee_cek_size e) eqn:L; [| discriminate].
  simpl in PL. inversion PL; subst.
  match goal with E : post_loop _ _ _ _ _ _ _ _ = Ok _ |- _ => simpl in E; inversion E; subst end.
  exists eph, epkd, prot, r1, hs1. apply N.eqb_eq in L. repeat split; auto.
Qed.

Theorem single_rt_ecdh_direct o d x r :
  e_recips o = [r] -> perform_encrypt O g o d = Ok x ->
  wf (e_prot o) -> hdr_wf (e_unprot o) -> hdr_wf (r_header r) -> (e_ser o = Compact -> r_header r = PNone) ->
  (forall hs', o_check_header O (PDict hs') true = Ok tt) ->
  (forall hs algv a,
     headers (e_ser o) (e_prot o) (e_unprot o) (r_header r) = Ok hs -> hitem hs "alg" = Ok algv ->
     get_alg g algv = Ok a -> ea_direct a = true /\ is_agreement a = true) ->
  (forall eph epkd, r_eph r = Some (eph, epkd) ->
     o_import O (k_kty (r_key r)) epkd = Ok (pubk eph) /\ k_kty eph = k_kty (r_key r)) ->
  k_priv (r_key r) = true ->
  (forall sk, r_sender r = Some sk -> k_kty sk = k_kty (r_key r)) ->
  (forall encv e, hitem (e_prot o) "enc" = Ok encv -> get_enc g encv = Ok e ->
     lenN (d_civ d) * 8 = ee_iv_size e) ->
  perform_decrypt O g (obj_of o x) = Ok (e_plain o).
Proof.
  intros R H Wp Wu Wh Hc CH FAM IMP PRIV SKT SZ.
  destruct (perform_encrypt_ecdh_direct_inv o d x r R H) as [encv [e [hs [algv [a [He [Ge [Hh [Hck [Ha [Ga K]]]]]]]]]]].
  destruct (FAM hs algv a Hh Ha Ga) as [D AG].
  destruct (K AG D) as [eph [epkd [prot1 [r1 [hs1 [CK [RE [AH [H1 [EA [Lc [XP XR]]]]]]]]]]]].
  destruct (IMP eph epkd RE) as [IM KT].
  pose proof (SZ encv e He Ge) as Liv.
  destruct (add_header_wf (e_ser o) (e_prot o) r (s_ "epk") epkd prot1 r1 Wp Wh Hc AH)
    as [Wp1 [Wh1 [Hc1 [RK [RS [REK RPH]]]]]].
  pose proof (add_header_get (e_ser o) (e_prot o) (e_unprot o) r (s_ "epk") epkd prot1 r1 hs1 Wp Wu Wh Hc AH H1) as Gepk.
  assert (Halg : hitem hs1 "alg" = Ok algv).
  { unfold hitem in *.
    rewrite (add_header_other (e_ser o) (e_prot o) (e_unprot o) r (s_ "epk") epkd prot1 r1 hs hs1 (asc "alg") Wp Wu Wh Hc AH Hh H1);
      [exact Ha | vm_compute; discriminate]. }
  assert (Henc : hitem prot1 "enc" = Ok encv).
  { unfold hitem in *. destruct (e_ser o) eqn:S.
    - unfold add_header in AH. inversion AH; subst. rewrite dget_dset_other by (vm_compute; discriminate). exact He.
    - apply add_header_json_prot in AH; [| discriminate]. destruct AH as [-> _]. exact He.
    - apply add_header_json_prot in AH; [| discriminate]. destruct AH as [-> _]. exact He. }
  assert (DA : dec_auk O a e hs1 r1 None = Ok (x_cek x)).
  { eapply (auk_rt O C a e hs1 r1 None (x_cek x) eph epkd); eauto.
    - rewrite RPH. exact RE.
    - rewrite RK. exact IM.
    - rewrite RK. exact PRIV.
    - rewrite RK. exact KT.
    - intros sk Hs. rewrite RK. apply SKT. rewrite <- RS. exact Hs.
    - rewrite RK. exact CK. }
  eapply message_rt; eauto.
  - rewrite XP. exact Henc.
  - rewrite XR. cbn [recip_loop].
    change (j_ser (obj_of o x)) with (e_ser o). change (j_prot (obj_of o x)) with (x_prot x).
    change (j_unprot (obj_of o x)) with (e_unprot o). change (j_tag (obj_of o x)) with (x_tag x).
    rewrite XP. change (r_header (set_ek r1 [])) with (r_header r1). rewrite H1. cbn [bind].
    rewrite (CH hs1). cbn [bind]. rewrite Halg. cbn [bind]. rewrite Ga. cbn [bind].
    unfold decrypt_recipient. rewrite D. cbn [r_ek set_ek]. rewrite AG.
    rewrite dec_auk_set_ek. rewrite DA. reflexivity.
Qed.

End SingleEcdhDirect.

(* ================= end-to-end (object level) for one recipient: PBES2 ================= *)
Section SinglePbes2.
Variable O : oracles.
Hypothesis C : contracts O.
Variable g : registry.

(* what PBES2 encrypt_cek did, in terms of the merged headers of the final state *)
Lemma pbes2_encrypt_inv a s prot unprot r d cek p2 r2 ek hs hs' :
  fam_is (ea_family a) "RSA" = false -> fam_is (ea_family a) "AESKW" = false ->
  fam_is (ea_family a) "AESGCMKW" = false -> fam_is (ea_family a) "PBES2" = true ->
  wf prot -> hdr_wf unprot -> hdr_wf (r_header r) -> (s = Compact -> r_header r = PNone) ->
  bytes_ok (d_p2s d) = true ->
  encrypt_cek O a s prot unprot r d cek = Ok (p2, r2, ek) ->
  headers s prot unprot (r_header r) = Ok hs ->
  headers s p2 unprot (r_header r2) = Ok hs' ->
  exists sb p2s kek,
    dmem hs' (asc "p2s") = true /\ dmem hs' (asc "p2c") = true /\
    to_bytes_pv (hget hs' "p2s") = Ok sb /\ b64d sb = Ok p2s /\
    check_key_type a (r_key r) = Ok tt /\
    pbes2_kek O a (r_key r) p2s (hget hs' "p2c") = Ok kek /\
    kw_wrap_cek O (key_size_of a) cek kek = Ok ek /\
    r_key r2 = r_key r /\
    (forall k, s_ "p2s" <> k -> s_ "p2c" <> k -> dget hs' k = dget hs k) /\
    (s <> Compact -> p2 = prot) /\
    (s = Compact -> forall k, s_ "p2s" <> k -> s_ "p2c" <> k -> dget p2 k = dget prot k).
Proof.
  intros F0 F1 F2 F3 Wp Wu Wh Hc BS H Hh H'.
  unfold encrypt_cek in H. rewrite F0, F1, F2, F3 in H. rewrite Hh in H. cbn [bind] in H.
  assert (NE : s_ "p2s" <> s_ "p2c") by (vm_compute; discriminate).
  destruct (dmem hs (s_ "p2s")) eqn:MS; destruct (dmem hs (s_ "p2c")) eqn:MC; cbn [negb] in H.
  - (* both given by the caller: nothing is added *)
    inv_bind H. match goal with E : _ = Ok ?x |- _ => is_var x; destruct x as [[p1 r1] p2sv] end.
    match goal with E : bind (to_bytes_pv _) _ = Ok _ |- _ => inv_bind E; inv_bind E; inversion E; subst p1 r1 p2sv end.
    cbn [bind] in H. cbv beta iota zeta in H.
    inv_bind H. inv_bind H. inv_bind H. inversion H; subst.
    rewrite Hh in H'. inversion H'; subst hs'.
    match goal with u : unit |- _ => destruct u end.
    do 3 eexists. repeat split; eauto.
  - (* p2c missing: one member added *)
    inv_bind H. match goal with E : _ = Ok ?x |- _ => is_var x; destruct x as [[p1 r1] p2sv] end.
    match goal with E : bind (to_bytes_pv _) _ = Ok _ |- _ => inv_bind E; inv_bind E; inversion E; subst p1 r1 p2sv end.
    inv_bind H. match goal with E : _ = Ok ?x |- _ => is_var x; destruct x as [[pb rb] pc] end.
    match goal with E : bind (add_header _ _ _ _ _) _ = Ok _ |- _ => apply bind_ok in E; destruct E as [prx [AHx Ex]]; inversion Ex; subst; clear Ex end.
    cbv beta iota zeta in H.
    inv_bind H. inv_bind H. inv_bind H. inversion H; subst.
    match goal with u : unit |- _ => destruct u end.
    match goal with AH : add_header _ _ _ _ _ = Ok _ |- _ => rename AH into A end.
    pose proof (add_header_get s prot unprot r _ _ p2 r2 hs' Wp Wu Wh Hc A H') as Gc.
    assert (Goth : forall k, s_ "p2c" <> k -> dget hs' k = dget hs k).
    { intros k N. eapply (add_header_other s prot unprot r _ _ p2 r2 hs hs' k Wp Wu Wh Hc A Hh H' N). }
    destruct (add_header_wf s prot r _ _ p2 r2 Wp Wh Hc A) as [_ [_ [_ [RK _]]]].
    assert (PS : hget hs' "p2s" = hget hs "p2s") by (unfold hget; rewrite (Goth (asc "p2s")); [reflexivity | vm_compute; discriminate]).
    do 3 eexists. split.
    { unfold dmem, s_ in *. rewrite (Goth (asc "p2s")); [exact MS | vm_compute; discriminate]. }
    split; [unfold dmem, s_ in *; rewrite Gc; reflexivity |].
    split; [rewrite PS; eassumption |]. split; [eassumption |]. split; [assumption |].
    split; [unfold hget at 1; unfold s_ in Gc; rewrite Gc; eassumption |].
    split; [eassumption |]. split; [exact RK |].
    split; [intros k N1 N2; apply Goth; exact N2 |].
    split.
    + intro N. apply add_header_json_prot in A; [tauto | exact N].
    + intros SC k N1 N2. subst s. unfold add_header in A. inversion A; subst. apply dget_dset_other. exact N2.
  - (* p2s missing *)
    inv_bind H. match goal with E : _ = Ok ?x |- _ => is_var x; destruct x as [[p1 r1] p2sv] end.
    match goal with E : bind (add_header _ _ _ _ _) _ = Ok _ |- _ => apply bind_ok in E; destruct E as [prx [AHx Ex]]; inversion Ex; subst; clear Ex end.
    cbn [bind] in H. cbv beta iota zeta in H.
    inv_bind H. inv_bind H. inv_bind H. inversion H; subst.
    match goal with u : unit |- _ => destruct u end.
    match goal with AH : add_header _ _ _ _ _ = Ok _ |- _ => rename AH into A end.
    pose proof (add_header_get s prot unprot r _ _ p2 r2 hs' Wp Wu Wh Hc A H') as Gs.
    assert (Goth : forall k, s_ "p2s" <> k -> dget hs' k = dget hs k).
    { intros k N. eapply (add_header_other s prot unprot r _ _ p2 r2 hs hs' k Wp Wu Wh Hc A Hh H' N). }
    destruct (add_header_wf s prot r _ _ p2 r2 Wp Wh Hc A) as [_ [_ [_ [RK _]]]].
    assert (PC : hget hs' "p2c" = hget hs "p2c") by (unfold hget; rewrite (Goth (asc "p2c")); [reflexivity | vm_compute; discriminate]).
    exists (b64e (d_p2s d)), (d_p2s d). eexists. split; [unfold dmem, s_ in *; rewrite Gs; reflexivity |].
    split. { unfold dmem, s_ in *. rewrite (Goth (asc "p2c")); [exact MC | vm_compute; discriminate]. }
    split; [unfold hget; unfold s_ in Gs; rewrite Gs; cbn [to_bytes_pv]; apply utf8_b64e; exact BS |].
    split; [apply b64_roundtrip; exact BS |]. split; [assumption |].
    split; [rewrite PC; eassumption |]. split; [eassumption |]. split; [exact RK |].
    split; [intros k N1 N2; apply Goth; exact N1 |].
    split.
    + intro N. apply add_header_json_prot in A; [tauto | exact N].
    + intros SC k N1 N2. subst s. unfold add_header in A. inversion A; subst. apply dget_dset_other. exact N1.
  - (* both missing: salt input drawn, default count *)
    inv_bind H. match goal with E : _ = Ok ?x |- _ => is_var x; destruct x as [[p1 r1] p2sv] end.
    match goal with E : bind (add_header _ _ _ _ _) _ = Ok _ |- _ => apply bind_ok in E; destruct E as [prx [AHx Ex]]; inversion Ex; subst; clear Ex end.
    inv_bind H. match goal with E : _ = Ok ?x |- _ => is_var x; destruct x as [[pb rb] pc] end.
    match goal with E : bind (add_header _ _ _ _ _) _ = Ok (pb, rb, pc) |- _ => apply bind_ok in E; destruct E as [pry [AHy Ey]]; inversion Ey; subst; clear Ey end.
    cbv beta iota zeta in H.
    inv_bind H. inv_bind H. inv_bind H. inversion H; subst.
    match goal with u : unit |- _ => destruct u end.
    match goal with
    | A1 : add_header s prot r _ _ = Ok (?pa, ?ra), A2 : add_header s ?pa ?ra _ _ = Ok (p2, r2) |- _ =>
        destruct (add_header2 s prot unprot r _ _ _ _ pa ra p2 r2 hs hs' Wp Wu Wh Hc NE A1 A2 Hh H')
          as [Gs [Gc [Goth [RK _]]]];
        assert (PJ : s <> Compact -> p2 = prot) by
          (intro N; apply add_header_json_prot in A1; [| exact N]; apply add_header_json_prot in A2; [| exact N];
           destruct A1, A2; congruence);
        assert (PCm : s = Compact -> forall k, s_ "p2s" <> k -> s_ "p2c" <> k -> dget p2 k = dget prot k) by
          (intros SC k N1 N2; subst s; unfold add_header in A1, A2; inversion A1; subst; inversion A2; subst;
           rewrite dget_dset_other by exact N2; apply dget_dset_other; exact N1)
    end.
    exists (b64e (d_p2s d)), (d_p2s d). eexists. split; [unfold dmem, s_ in *; rewrite Gs; reflexivity |].
    split; [unfold dmem, s_ in *; rewrite Gc; reflexivity |].
    split; [unfold hget; unfold s_ in Gs; rewrite Gs; cbn [to_bytes_pv]; apply utf8_b64e; exact BS |].
    split; [apply b64_roundtrip; exact BS |]. split; [assumption |].
    split; [unfold hget at 1; unfold s_ in Gc; rewrite Gc; eassumption |].
    split; [eassumption |]. split; [exact RK |]. split; [exact Goth |]. split; assumption.
Qed.

End SinglePbes2.

Section SinglePbes2Rt.
Variable O : oracles.
Hypothesis C : contracts O.
Variable g : registry.

Theorem single_rt_pbes2 o d x r :
  e_recips o = [r] -> perform_encrypt O g o d = Ok x ->
  wf (e_prot o) -> hdr_wf (e_unprot o) -> hdr_wf (r_header r) -> (e_ser o = Compact -> r_header r = PNone) ->
  (forall hs', o_check_header O (PDict hs') true = Ok tt) ->
  (exists r' hs', x_recips x = [r'] /\ headers (e_ser o) (x_prot x) (e_unprot o) (r_header r') = Ok hs') ->
  (forall hs algv a,
     headers (e_ser o) (e_prot o) (e_unprot o) (r_header r) = Ok hs -> hitem hs "alg" = Ok algv ->
     get_alg g algv = Ok a ->
     ea_direct a = false /\ is_agreement a = false /\
     fam_is (ea_family a) "RSA" = false /\ fam_is (ea_family a) "AESKW" = false /\
     fam_is (ea_family a) "AESGCMKW" = false /\ fam_is (ea_family a) "PBES2" = true) ->
  bytes_ok (match d_rec d with d0 :: _ => d_p2s d0 | [] => [] end) = true ->
  (forall encv e, hitem (e_prot o) "enc" = Ok encv -> get_enc g encv = Ok e ->
     lenN (d_civ d) * 8 = ee_iv_size e /\ lenN (d_cek d) * 8 = ee_cek_size e) ->
  perform_decrypt O g (obj_of o x) = Ok (e_plain o).
Proof.
  intros R H Wp Wu Wh Hc CH [r' [hs' [XR' H']]] FAM BS SZ.
  destruct (perform_encrypt_single_inv O g o d x r R H) as [encv [e [hs [algv [a [He [Ge [Hh [Hck [Ha [Ga K]]]]]]]]]]].
  destruct (FAM hs algv a Hh Ha Ga) as [ND [NA [F0 [F1 [F2 F3]]]]].
  destruct (K NA ND) as [prot2 [r2 [ek [EC [XP [XR XC]]]]]].
  destruct (SZ encv e He Ge) as [Liv Lcek].
  set (dr := match d_rec d with d0 :: _ => d0 | [] => no_rdraw end) in *.
  assert (BS' : bytes_ok (d_p2s dr) = true).
  { unfold dr. destruct (d_rec d); [reflexivity | exact BS]. }
  rewrite XR in XR'. inversion XR'; subst r'. clear XR'.
  rewrite XP in H'. change (r_header (set_ek r2 ek)) with (r_header r2) in H'.
  destruct (pbes2_encrypt_inv O a (e_ser o) (e_prot o) (e_unprot o) r dr (d_cek d) prot2 r2 ek hs hs'
              F0 F1 F2 F3 Wp Wu Wh Hc BS' EC Hh H')
    as [sb [p2s [kek [M1 [M2 [TB [BD [CK [KEK [W [RK [Goth [PJ PC]]]]]]]]]]]]].
  assert (Halg : hitem hs' "alg" = Ok algv).
  { unfold hitem in *. rewrite (Goth (asc "alg")); [exact Ha | vm_compute; discriminate | vm_compute; discriminate]. }
  assert (Henc : hitem prot2 "enc" = Ok encv).
  { unfold hitem in *. destruct (e_ser o) eqn:S.
    - rewrite (PC eq_refl (asc "enc")); [exact He | vm_compute; discriminate | vm_compute; discriminate].
    - rewrite PJ by discriminate. exact He.
    - rewrite PJ by discriminate. exact He. }
  assert (DK : decrypt_cek O a hs' (set_ek r2 ek) = Ok (d_cek d)).
  { eapply (cek_rt_pbes2 O C a hs' (set_ek r2 ek) (d_cek d) ek kek p2s sb); eauto.
    - change (r_key (set_ek r2 ek)) with (r_key r2). rewrite RK. exact CK.
    - change (r_key (set_ek r2 ek)) with (r_key r2). rewrite RK. exact KEK. }
  eapply message_rt; eauto.
  - rewrite XP. exact Henc.
  - rewrite XR. cbn [recip_loop].
    change (j_ser (obj_of o x)) with (e_ser o). change (j_prot (obj_of o x)) with (x_prot x).
    change (j_unprot (obj_of o x)) with (e_unprot o). change (j_tag (obj_of o x)) with (x_tag x).
    rewrite XP. change (r_header (set_ek r2 ek)) with (r_header r2). rewrite H'. cbn [bind].
    rewrite (CH hs'). cbn [bind]. rewrite Halg. cbn [bind]. rewrite Ga. cbn [bind].
    unfold decrypt_recipient. rewrite ND, NA. rewrite DK. rewrite XC. reflexivity.
  - rewrite XC. exact Lcek.
Qed.

End SinglePbes2Rt.

(* ================= end-to-end (object level) for one recipient: Key Agreement with Key Wrapping ===== *)
Section SingleEcdhKw.
Variable O : oracles.
Hypothesis C : contracts O.
Variable g : registry.

Lemma perform_encrypt_ecdh_kw_inv o d x r :
  e_recips o = [r] -> perform_encrypt O g o d = Ok x ->
  exists encv e hs algv a,
    hitem (e_prot o) "enc" = Ok encv /\ get_enc g encv = Ok e /\
    headers (e_ser o) (e_prot o) (e_unprot o) (r_header r) = Ok hs /\
    o_check_header O (PDict hs) false = Ok tt /\
    hitem hs "alg" = Ok algv /\ get_alg g algv = Ok a /\
    (is_agreement a = true -> ea_direct a = false ->
     exists eph epkd prot1 r1 hs1 auk ek,
       check_key_type a (r_key r) = Ok tt /\ r_eph r = Some (eph, epkd) /\
       add_header (e_ser o) (e_prot o) r (s_ "epk") epkd = Ok (prot1, r1) /\
       headers (e_ser o) prot1 (e_unprot o) (r_header r1) = Ok hs1 /\
       enc_auk O a e hs1 r1 (if ea_tag_aware a then Some (x_tag x) else None) = Ok auk /\
       kw_wrap_cek O (key_size_of a) (d_cek d) auk = Ok ek /\
       x_cek x = d_cek d /\ x_prot x = prot1 /\ x_recips x = [set_ek r1 ek]).
Proof.
  intros R H. unfold perform_encrypt in H. rewrite R in H.
  inv_bind H. rename x0 into encv. inv_bind H. rename x0 into e.
  inv_bind H. destruct x0 as [[prot cek] acc].
  inv_bind H. inv_bind H. inv_bind H.
  match goal with ctg : (bytes * bytes)%type |- _ => destruct ctg as [ct tag] end.
  inv_bind H.
  inversion H; subst; clear H. simpl.
  match goal with E1 : pre_loop _ _ _ _ _ _ _ _ _ _ _ _ = Ok _ |- _ => rename E1 into PL end.
  match goal with E1 : post_loop _ _ _ _ _ _ _ _ = Ok _ |- _ => rename E1 into QL end.
  simpl in PL.
  destruct (prepare_recipient_algorithm O g (e_ser o) (e_prot o) (e_unprot o) r) as [[[a prot1] r1]|] eqn:P; [| discriminate].
  simpl in PL.
  unfold prepare_recipient_algorithm in P.
  inv_bind P. inv_bind P. inv_bind P. inv_bind P.
  match goal with
  | Hh : headers _ _ _ _ = Ok ?hs, Hc : o_check_header O (PDict ?hs) false = Ok ?u,
    Ha : hitem ?hs "alg" = Ok ?algv, Ga : get_alg g ?algv = Ok ?a' |- _ =>
      destruct u; exists encv, e, hs, algv, a'
  end.
  repeat (split; [assumption |]).
  intros AG D. rewrite AG in P. inv_bind P.
  match goal with E : _ = Ok ?pr |- _ => is_var pr; destruct pr as [pp rr] end.
  inversion P; subst. clear P. simpl in *.
  rewrite D, AG in PL. inversion PL; subst. clear PL.
  unfold prepare_ephemeral_key in *.
  match goal with E : bind (check_key_type _ _) _ = Ok _ |- _ => apply bind_ok in E; destruct E as [u [CK AH]] end.
  destruct u.
  destruct (r_eph r) as [[eph epkd]|] eqn:RE; [| discriminate].
  simpl in AH.
  simpl in QL.
  destruct (headers (e_ser o) prot (e_unprot o) (r_header r1)) as [hs1|] eqn:H1; [| discriminate].
  simpl in QL.
  destruct (enc_auk O a e hs1 r1 (if ea_tag_aware a then Some tag else None)) as [auk|] eqn:EA; [| discriminate].
  simpl in QL.
  destruct (kw_wrap_cek O (key_size_of a) (d_cek d) auk) as [ek|] eqn:W; [| discriminate].
  simpl in QL. inversion QL; subst.
  exists eph, epkd, prot, r1, hs1, auk, ek. repeat split; auto.
Qed.

Theorem single_rt_ecdh_kw o d x r :
  e_recips o = [r] -> perform_encrypt O g o d = Ok x ->
  wf (e_prot o) -> hdr_wf (e_unprot o) -> hdr_wf (r_header r) -> (e_ser o = Compact -> r_header r = PNone) ->
  (forall hs', o_check_header O (PDict hs') true = Ok tt) ->
  (forall hs algv a,
     headers (e_ser o) (e_prot o) (e_unprot o) (r_header r) = Ok hs -> hitem hs "alg" = Ok algv ->
     get_alg g algv = Ok a -> ea_direct a = false /\ is_agreement a = true) ->
  (forall eph epkd, r_eph r = Some (eph, epkd) ->
     o_import O (k_kty (r_key r)) epkd = Ok (pubk eph) /\ k_kty eph = k_kty (r_key r)) ->
  k_priv (r_key r) = true ->
  (forall sk, r_sender r = Some sk -> k_kty sk = k_kty (r_key r)) ->
  (forall encv e, hitem (e_prot o) "enc" = Ok encv -> get_enc g encv = Ok e ->
     lenN (d_civ d) * 8 = ee_iv_size e /\ lenN (d_cek d) * 8 = ee_cek_size e) ->
  perform_decrypt O g (obj_of o x) = Ok (e_plain o).
Proof.
  intros R H Wp Wu Wh Hc CH FAM IMP PRIV SKT SZ.
  destruct (perform_encrypt_ecdh_kw_inv o d x r R H) as [encv [e [hs [algv [a [He [Ge [Hh [Hck [Ha [Ga K]]]]]]]]]]].
  destruct (FAM hs algv a Hh Ha Ga) as [D AG].
  destruct (K AG D) as [eph [epkd [prot1 [r1 [hs1 [auk [ek [CK [RE [AH [H1 [EA [W [XC [XP XR]]]]]]]]]]]]]]].
  destruct (IMP eph epkd RE) as [IM KT].
  destruct (SZ encv e He Ge) as [Liv Lc].
  destruct (add_header_wf (e_ser o) (e_prot o) r (s_ "epk") epkd prot1 r1 Wp Wh Hc AH)
    as [Wp1 [Wh1 [Hc1 [RK [RS [REK RPH]]]]]].
  pose proof (add_header_get (e_ser o) (e_prot o) (e_unprot o) r (s_ "epk") epkd prot1 r1 hs1 Wp Wu Wh Hc AH H1) as Gepk.
  assert (Halg : hitem hs1 "alg" = Ok algv).
  { unfold hitem in *.
    rewrite (add_header_other (e_ser o) (e_prot o) (e_unprot o) r (s_ "epk") epkd prot1 r1 hs hs1 (asc "alg") Wp Wu Wh Hc AH Hh H1);
      [exact Ha | vm_compute; discriminate]. }
  assert (Henc : hitem prot1 "enc" = Ok encv).
  { unfold hitem in *. destruct (e_ser o) eqn:S.
    - unfold add_header in AH. inversion AH; subst. rewrite dget_dset_other by (vm_compute; discriminate). exact He.
    - apply add_header_json_prot in AH; [| discriminate]. destruct AH as [-> _]. exact He.
    - apply add_header_json_prot in AH; [| discriminate]. destruct AH as [-> _]. exact He. }
  assert (DA : dec_auk O a e hs1 r1 (if ea_tag_aware a then Some (x_tag x) else None) = Ok auk).
  { eapply (auk_rt O C a e hs1 r1 _ auk eph epkd); eauto.
    - rewrite RPH. exact RE.
    - rewrite RK. exact IM.
    - rewrite RK. exact PRIV.
    - rewrite RK. exact KT.
    - intros sk Hs. rewrite RK. apply SKT. rewrite <- RS. exact Hs.
    - rewrite RK. exact CK. }
  eapply message_rt; eauto.
  - rewrite XP. exact Henc.
  - rewrite XR. cbn [recip_loop].
    change (j_ser (obj_of o x)) with (e_ser o). change (j_prot (obj_of o x)) with (x_prot x).
    change (j_unprot (obj_of o x)) with (e_unprot o). change (j_tag (obj_of o x)) with (x_tag x).
    rewrite XP. change (r_header (set_ek r1 ek)) with (r_header r1). rewrite H1. cbn [bind].
    rewrite (CH hs1). cbn [bind]. rewrite Halg. cbn [bind]. rewrite Ga. cbn [bind].
    unfold decrypt_recipient. rewrite D, AG.
    assert (DA' : (if ea_tag_aware a then dec_auk O a e hs1 (set_ek r1 ek) (Some (x_tag x))
                   else dec_auk O a e hs1 (set_ek r1 ek) None) = Ok auk).
    { rewrite !dec_auk_set_ek. destruct (ea_tag_aware a); exact DA. }
    rewrite DA'. cbn [bind need_ek r_ek set_ek].
    rewrite (kw_rt O C _ _ _ _ W). rewrite XC. reflexivity.
  - rewrite XC. exact Lc.
Qed.

End SingleEcdhKw.


(* ================= the contracts are satisfiable: a toy instance (identity ciphers) ================= *)
Definition toy_oracles : oracles := {|
  o_mac := fun _ _ m => Ok (firstn 64 (m ++ repeat 0 64));
  o_cbc_enc := fun _ _ p => Ok p; o_cbc_dec := fun _ _ c => Ok c;
  o_gcm_enc := fun _ _ _ m => Ok (m, [1]); o_gcm_dec := fun _ _ _ c _ => Ok (Some c);
  o_cc_enc := fun _ _ _ m => Ok (m, [2]); o_cc_dec := fun _ _ _ c _ => Ok c;
  o_kw_wrap := fun _ c => Ok c; o_kw_unwrap := fun _ e => Ok (Some e);
  o_rsa_enc := fun _ _ c => Ok c; o_rsa_dec := fun _ _ e => Ok e; o_rsa_bits := fun _ => Ok 2048;
  o_pbkdf2 := fun _ _ _ _ l => Ok (repeat 7 (N.to_nat l));
  o_ckdf := fun _ _ _ l => Ok (repeat 9 (N.to_nat l));
  o_ecdh := fun _ _ => Ok [3];
  o_import := fun _ _ => Err EValue;
  o_loads := fun _ => Err EValue; o_dumps := fun _ => Ok [];
  o_deflate := fun m => Ok ([120; 156] ++ m ++ [0; 0; 0; 0]); o_inflate := fun z => Ok z;
  o_check_header := fun _ _ => Ok tt |}.

Lemma toy_contracts : contracts toy_oracles.
Proof.
  constructor; simpl; intros; try (inversion H; subst; reflexivity).
  inversion H; subst. f_equal. apply (strip_zlib_spec [120; 156] m [0; 0; 0; 0]); reflexivity.
Qed.
