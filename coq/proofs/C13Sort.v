(* C13Sort.v — sorted(fields) is canonical: the code-point order is a total
   order, so the sorted form of a field list does not depend on the order in
   which a key class declares its registry. *)
From Coq Require Import Lia ZifyBool Permutation Sorted.
From Model Require Import Base PyVal C13Thumb.
From Proofs Require Import C13Proofs.
Open Scope N_scope.

Lemma str_leb_refl a : str_leb a a = true.
Proof.
  induction a as [|x a IH]; simpl; [reflexivity|].
  rewrite N.ltb_irrefl. exact IH.
Qed.

Lemma str_leb_total a b : str_leb a b = true \/ str_leb b a = true.
Proof.
  revert b. induction a as [|x a IH]; intros [|y b]; simpl; auto.
  destruct (x <? y) eqn:E1; [auto|].
  destruct (y <? x) eqn:E2; [auto|].
  apply IH.
Qed.

Lemma str_leb_antisym a b : str_leb a b = true -> str_leb b a = true -> a = b.
Proof.
  revert b. induction a as [|x a IH]; intros [|y b]; simpl; try discriminate; auto.
  destruct (x <? y) eqn:E1; destruct (y <? x) eqn:E2; try discriminate; try lia.
  intros H1 H2. assert (x = y) by lia. subst. f_equal. apply IH; assumption.
Qed.

Lemma str_leb_trans a b c : str_leb a b = true -> str_leb b c = true -> str_leb a c = true.
Proof.
  revert b c. induction a as [|x a IH]; intros [|y b] [|z c]; simpl; try discriminate; auto.
  destruct (x <? y) eqn:E1; destruct (y <? x) eqn:E2; try discriminate; try lia;
    destruct (y <? z) eqn:E3; destruct (z <? y) eqn:E4; try discriminate; try lia;
    destruct (x <? z) eqn:E5; destruct (z <? x) eqn:E6; try discriminate; try lia; auto.
  intros H1 H2. assert (x = y) by lia. assert (y = z) by lia. subst. eapply IH; eassumption.
Qed.

Definition le_str (a b : str) : Prop := str_leb a b = true.

Lemma insert_sorted_perm k l : Permutation (k :: l) (insert_sorted k l).
Proof.
  induction l as [|x l IH]; simpl; [apply Permutation_refl|].
  destruct (str_leb k x); [apply Permutation_refl|].
  eapply Permutation_trans; [apply perm_swap|]. apply perm_skip. exact IH.
Qed.

Lemma sort_fields_perm l : Permutation l (sort_fields l).
Proof.
  induction l as [|x l IH]; simpl; [constructor|].
  eapply Permutation_trans; [apply perm_skip; exact IH | apply insert_sorted_perm].
Qed.

Lemma insert_sorted_sorted k l :
  StronglySorted le_str l -> StronglySorted le_str (insert_sorted k l).
Proof.
  induction 1 as [|x l Hs IH Hall]; simpl.
  - constructor; constructor.
  - destruct (str_leb k x) eqn:E.
    + constructor; [constructor; assumption|].
      constructor; [exact E|].
      eapply Forall_impl; [|exact Hall]. intros y Hy. eapply str_leb_trans; eassumption.
    + constructor; [exact IH|].
      assert (Hxk : le_str x k).
      { destruct (str_leb_total k x) as [H|H]; [congruence | exact H]. }
      eapply Permutation_Forall; [apply insert_sorted_perm|].
      constructor; assumption.
Qed.

Lemma sort_fields_sorted l : StronglySorted le_str (sort_fields l).
Proof.
  induction l as [|x l IH]; simpl; [constructor | apply insert_sorted_sorted; exact IH].
Qed.

Lemma sorted_perm_eq l l' :
  StronglySorted le_str l -> StronglySorted le_str l' -> Permutation l l' -> l = l'.
Proof.
  revert l'. induction l as [|x l IH]; intros l' S1 S2 P.
  - apply Permutation_nil in P. subst. reflexivity.
  - destruct l' as [|y l']; [apply Permutation_sym, Permutation_nil in P; discriminate|].
    inversion S1 as [|? ? S1' F1]; subst. inversion S2 as [|? ? S2' F2]; subst.
    assert (x = y).
    { assert (Hx : In x (y :: l')) by (eapply Permutation_in; [exact P | left; reflexivity]).
      assert (Hy : In y (x :: l)) by (eapply Permutation_in; [apply Permutation_sym; exact P | left; reflexivity]).
      destruct Hx as [Hx|Hx]; [congruence|]. destruct Hy as [Hy|Hy]; [congruence|].
      rewrite Forall_forall in F1, F2.
      apply str_leb_antisym; [apply F1; exact Hy | apply F2; exact Hx]. }
    subst y. f_equal. apply IH; try assumption.
    eapply Permutation_cons_inv. exact P.
Qed.

(* sorted() of any reordering of the field list is the same list *)
Theorem sort_fields_canonical l l' : Permutation l l' -> sort_fields l = sort_fields l'.
Proof.
  intro P. apply sorted_perm_eq; try apply sort_fields_sorted.
  eapply Permutation_trans; [apply Permutation_sym, sort_fields_perm|].
  eapply Permutation_trans; [exact P | apply sort_fields_perm].
Qed.

Section WithHash.
  Variable hashnew : str -> bytes -> res bytes.

  Theorem thumbprint_fields_order d fields fields' dg :
    Permutation fields fields' ->
    thumbprint hashnew d fields dg = thumbprint hashnew d fields' dg.
  Proof.
    intro P. unfold thumbprint. rewrite (sort_fields_canonical _ _ P). reflexivity.
  Qed.
End WithHash.
