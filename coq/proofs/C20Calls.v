(* C20Calls.v — per-call result theorems, for every interleaving, of the repaired step lists *)
From Coq Require Import Lia ZifyBool.
From Model Require Import Base PyVal TableTypes C20Model.
From Gen Require Import Tables TablesC20.
From Proofs Require Import C20Proofs.
Open Scope N_scope.

(* ---------- more facts that steps of other threads preserve ---------- *)
Lemma rsteps_static im w w' : rsteps im w w' ->
  w_static w' = w_static w /\ w_sets w' = w_sets w /\ w_rng w <= w_rng w'.
Proof.
  induction 1 as [|w1 w2 w3 S R IH]; [repeat split; lia|].
  destruct IH as [A [B C]]. destruct S as [a FA En].
  rewrite sem_static in A. rewrite sem_sets in B. repeat split; auto.
  eapply N.le_trans; [|exact C]. destruct a; simpl; lia.
Qed.

Definition Pk (k : nat) (w : world) : Prop := ks_pub (getk w k) = true.

Lemma rstep_pub im w w' k : rstep im w w' -> Pk k w -> Pk k w'.
Proof.
  intros [a FA En] P. unfold Pk in *. destruct a; simpl in *; try exact P; try contradiction;
    rewrite getk_setk;
    match goal with |- context [if ?c then _ else _] => destruct c eqn:E end; try exact P;
    apply andb_true_iff in E; destruct E as [E _]; apply Nat.eqb_eq in E; subst; simpl; auto.
Qed.
Lemma rsteps_pub im w w' k : rsteps im w w' -> Pk k w -> Pk k w'.
Proof. induction 1; auto. intro. apply IHrsteps. eapply rstep_pub; eauto. Qed.

Lemma holds_bindr_spec {A B} im (p : prog (res A)) (f : A -> prog (res B)) w Q (P : res A -> world -> Prop) :
  holds im p w P ->
  (forall r w1, P r w1 -> match r with Ok a => holds im (f a) w1 Q | Err e => holds im (Ret (Err e)) w1 Q end) ->
  holds im (pbindr p f) w Q.
Proof. intros H1 H2. apply holds_bindr. eapply holds_conseq; [|exact H1]. exact H2. Qed.

Lemma holds_act {A} im l a (k : obs -> prog A) w Q :
  fixed_act a ->
  (forall w', rsteps im w w' -> enabled im a w' /\ holds im (k (snd (sem im a w'))) (fst (sem im a w')) Q) ->
  holds im (Act l a k) w Q.
Proof. intros FA H. simpl. intros w' R. destruct (H w' R). auto. Qed.

Lemma holds_ret {A} im (a : A) w (Q : A -> world -> Prop) :
  (forall w', rsteps im w w' -> Q a w') -> holds im (Ret a) w Q.
Proof. intro H. simpl. exact H. Qed.

Section Calls.
  Variable im : imm.
  Variable pickf : N -> nat -> nat.
  Variable n : nat.                     (* number of keys of the world *)
  Variable st : static.                 (* class tables, registries, singletons *)
  Variable sets : list (list nat).      (* shared KeySet.keys *)
  Hypothesis W : wf_imm im.
  Hypothesis Hpick : forall idx m, (0 < m)%nat -> (pickf idx m < m)%nat.

  (* a usable key of the world: validate_dict_key passed, RFC 7638 fields present *)
  Definition vkey (k : nat) : Prop :=
    ki_valid (kim im k) = true /\ view im k <> [] /\
    forallb (dmem (view im k)) (tpfields (ki_kty (kim im k))) = true /\
    the_kid im k <> PNone /\ (k < n)%nat.

  Definition ww (w : world) : Prop :=
    inv im w /\ length (w_keys w) = n /\ w_static w = st /\ w_sets w = sets.

  Lemma ww_steps w w' : ww w -> rsteps im w w' -> ww w'.
  Proof.
    intros [I [L [S T]]] R. destruct (rsteps_mono im w w' W I R) as [I' _].
    destruct (rsteps_static im w w' R) as [A [B _]].
    split; [exact I'|]. split; [rewrite (rsteps_nkeys im w w' R); exact L|]. split; congruence.
  Qed.

  (* the shape of every specification: the world stays well-formed, it is an
     extension of the start world by steps of anybody, and R holds *)
  Definition post {A} (w0 : world) (R : A -> world -> Prop) : A -> world -> Prop :=
    fun r w' => ww w' /\ rsteps im w0 w' /\ R r w'.

  Lemma post_ret {A} (a : A) w0 w (R : A -> world -> Prop) :
    ww w -> rsteps im w0 w -> (forall w', rsteps im w w' -> R a w') -> holds im (Ret a) w (post w0 R).
  Proof.
    intros H R0 HR. apply holds_ret. intros w' R1. split; [eapply ww_steps; eauto|].
    split; [eapply rsteps_trans; eauto | apply HR; exact R1].
  Qed.

  (* sequencing of two specified procedures *)
  Lemma post_bind {A B} (p : prog (res A)) (f : A -> prog (res B)) w0 w R Q :
    holds im p w (post w R) -> rsteps im w0 w ->
    (forall r w1, ww w1 -> rsteps im w w1 -> R r w1 ->
       match r with Ok a => holds im (f a) w1 (post w0 Q) | Err e => holds im (Ret (Err e)) w1 (post w0 Q) end) ->
    holds im (pbindr p f) w (post w0 Q).
  Proof.
    intros H R0 HF. eapply holds_bindr_spec; [exact H|].
    intros r w1 [H1 [R1 HR]]. apply HF; auto.
  Qed.

  (* weakening of the start world of a post *)
  Lemma post_start {A} (p : prog A) w0 w R :
    rsteps im w0 w -> holds im p w (post w R) -> holds im p w (post w0 R).
  Proof.
    intros R0 H. eapply holds_conseq; [|exact H]. intros a w1 [H1 [R1 HR]].
    split; [exact H1|]. split; [eapply rsteps_trans; eauto | exact HR].
  Qed.

  Lemma post_conseq {A} (p : prog A) w0 w (R R' : A -> world -> Prop) :
    (forall a w1, ww w1 -> rsteps im w0 w1 -> R a w1 -> R' a w1) ->
    holds im p w (post w0 R) -> holds im p w (post w0 R').
  Proof. intros HR H. eapply holds_conseq; [|exact H]. intros a w1 [H1 [R1 H2]]. split; [exact H1|]. split; [exact R1|]. apply HR; auto. Qed.

  (* ---------- dict_value / get / kid / thumbprint / ensure_kid, in the post format ---------- *)
  Lemma dv_post_spec k w : ww w -> vkey k ->
    holds im (dv true im k) w (post w (fun r w' =>
      exists i d, r = Ok (i, d) /\ d <> [] /\ good im k d /\ Fk k w' /\
                  (Kk k w -> dget d kidK <> None) /\ (dget d kidK <> None -> Kk k w'))).
  Proof.
    intros H [V [NE [TP [TK L]]]]. destruct H as [I [LN [S T]]].
    assert (k < length (w_keys w))%nat as LK by lia.
    eapply holds_conseq; [|exact (dv_spec im W k V NE w I LK)].
    intros r w1 [I1 [R1 E]]. split; [|split; [exact R1 | exact E]].
    apply (ww_steps w); [exact (conj I (conj LN (conj S T))) | exact R1].
  Qed.

  Lemma good_get_other k d f : good im k d -> d <> [] -> f <> kidK -> dget d f = dget (view im k) f.
  Proof.
    intros [E|[E|[N E]]] NE NF; subst d; [congruence|reflexivity|].
    unfold withkid. rewrite dget_app. destruct (dget (view im k) f); [reflexivity|].
    simpl. destruct (str_eqb kidK f) eqn:E; [apply str_eqb_eq in E; congruence | reflexivity].
  Qed.

  Definition field_of (k : nat) (f : str) : pv :=
    match dget (view im k) f with Some v => v | None => PNone end.

  (* key.get(f) for any member other than "kid": the immutable value *)
  Lemma getf_spec k f w : ww w -> vkey k -> f <> kidK ->
    holds im (getf true im k f) w (post w (fun r _ => r = Ok (field_of k f))).
  Proof.
    intros H V NF. unfold getf. apply holds_nop. eapply post_bind; [apply dv_post_spec; auto | constructor |].
    intros r w1 H1 R1 [i [d [E [NE [G _]]]]]. subst r. simpl snd.
    apply post_ret; auto. intros. unfold field_of. rewrite (good_get_other k d f G NE NF). reflexivity.
  Qed.

  Lemma kidp_post_spec k w : ww w -> vkey k ->
    holds im (kidp true im k) w (post w (fun r w' =>
      Fk k w' /\ ((r = Ok PNone /\ ~ Kk k w /\ dget (view im k) kidK = None) \/ (r = Ok (the_kid im k) /\ Kk k w')))).
  Proof.
    intros H [V [NE [TP [TK L]]]]. destruct H as [I [LN [S T]]].
    assert (k < length (w_keys w))%nat as LK by lia.
    eapply holds_conseq; [|exact (kidp_spec im W k V NE w I LK)].
    intros r w1 [I1 [R1 E]]. split; [|split; [exact R1 | exact E]].
    apply (ww_steps w); [exact (conj I (conj LN (conj S T))) | exact R1].
  Qed.

  (* key.kid once the key has its kid: the kid *)
  Lemma kidp_kidded k w : ww w -> vkey k -> Kk k w ->
    holds im (kidp true im k) w (post w (fun r w' => r = Ok (the_kid im k) /\ Kk k w')).
  Proof.
    intros H V K. eapply post_conseq; [|apply kidp_post_spec; auto].
    intros r w1 _ _ [F [[_ [NK _]]|[E K1]]]; [contradiction | auto].
  Qed.

  Lemma ensure_kid_post_spec k w : ww w -> vkey k ->
    holds im (ensure_kid true im k) w (post w (fun r w' => r = Ok tt /\ Kk k w')).
  Proof.
    intros H [V [NE [TP [TK L]]]]. destruct H as [I [LN [S T]]].
    assert (k < length (w_keys w))%nat as LK by lia.
    eapply holds_conseq; [|exact (ensure_kid_spec im W k V NE TP w I LK)].
    intros r w1 [E [I1 [R1 K1]]]. split; [|split; [exact R1 | auto]].
    apply (ww_steps w); [exact (conj I (conj LN (conj S T))) | exact R1].
  Qed.

  (* key.thumbprint(): the thumbprint of the immutable view *)
  Lemma thumb_spec k w : ww w -> vkey k ->
    holds im (thumb true im k false) w (post w (fun r _ => r = Ok (ki_tp (kim im k)))).
  Proof.
    intros H V. pose proof V as [Vv [NE [TP [TK L]]]]. unfold thumb.
    apply holds_nops, holds_nop, holds_nop.
    eapply post_bind; [apply dv_post_spec; auto | constructor |].
    intros r w1 H1 R1 [i [d [E [NEd [G _]]]]]. subst r. simpl snd.
    apply holds_nop, holds_nop. rewrite (good_thumb im k TP d G NEd).
    apply holds_forset, holds_nop, holds_nop, holds_nop, holds_nop.
    apply holds_act; [exact I|]. intros w2 R2. split; [exact I|]. simpl.
    apply post_ret; [eapply ww_steps; eauto | eapply rsteps_trans; eauto | reflexivity].
  Qed.

  Lemma Kk_steps k w w' : ww w -> rsteps im w w' -> Kk k w -> Kk k w'.
  Proof. intros [I _] R K. destruct (rsteps_mono im w w' W I R) as [_ [_ HK]]. apply HK. exact K. Qed.

  Definition kidded (ks : list nat) (w : world) : Prop := forall k, In k ks -> Kk k w.
  Lemma kidded_steps ks w w' : ww w -> rsteps im w w' -> kidded ks w -> kidded ks w'.
  Proof. intros H R K k I. apply (Kk_steps k w w' H R). apply K. exact I. Qed.

  (* ---------- KeySet.__init__(keys) ---------- *)
  Lemma ensure_all_spec ks : forall w, ww w -> Forall vkey ks ->
    holds im (ensure_all true im ks) w (post w (fun r w' => r = Ok tt /\ kidded ks w')).
  Proof.
    induction ks as [|k r IH]; intros w H V; simpl ensure_all.
    - apply holds_nop, holds_nop. apply post_ret; [exact H | constructor|].
      intros. split; [reflexivity|]. intros k [].
    - inversion V as [|? ? Vk Vr]; subst. apply holds_nop, holds_nop.
      eapply post_bind; [apply ensure_kid_post_spec; auto | constructor |].
      intros x w1 H1 R1 [E K1]. subst x.
      apply (post_start _ w w1); [exact R1|].
      eapply post_conseq; [|apply IH; auto].
      intros a w2 H2 R2 [E K2]. split; [exact E|].
      intros k' [Ek|Ik]; [subst k'; exact (Kk_steps k w1 w2 H1 R2 K1) | apply K2; exact Ik].
  Qed.

  Lemma kids_of_spec ks : forall acc w, ww w -> Forall vkey ks -> kidded ks w ->
    holds im (kids_of true im ks acc) w (post w (fun r _ => r = Ok (PList (rev acc ++ map (the_kid im) ks)))).
  Proof.
    induction ks as [|k r IH]; intros acc w H V K; simpl kids_of.
    - apply post_ret; [exact H | constructor|]. intros. simpl. rewrite app_nil_r. reflexivity.
    - inversion V as [|? ? Vk Vr]; subst.
      eapply post_bind; [apply kidp_kidded; auto; apply K; left; reflexivity | constructor |].
      intros x w1 H1 R1 [E K1]. subst x.
      apply (post_start _ w w1); [exact R1|].
      eapply post_conseq; [|apply IH; auto].
      + intros a w2 _ _ E. simpl in E. rewrite E. simpl. rewrite <- app_assoc. reflexivity.
      + intros k' Ik. apply (Kk_steps k' w w1 H R1). apply K. right. exact Ik.
  Qed.

  (* KeySet(keys) and then every key's kid: all kids are there *)
  Lemma new_set_spec ks w : ww w -> Forall vkey ks ->
    holds im (new_set true im ks) w (post w (fun r w' => r = Ok (PList (map (the_kid im) ks)) /\ kidded ks w')).
  Proof.
    intros H V. unfold new_set.
    eapply post_bind; [apply ensure_all_spec; auto | constructor |].
    intros x w1 H1 R1 [E K1]. subst x.
    apply (post_start _ w w1); [exact R1|].
    eapply post_conseq; [|apply (kids_of_spec ks [] w1); auto].
    intros a w2 H2 R2 E. split; [exact E | exact (kidded_steps ks w1 w2 H1 R2 K1)].
  Qed.

  (* ---------- KeySet.get_by_kid ---------- *)
  Fixpoint gbk_find (ks : list nat) (kid : option str) : res nat :=
    match ks with
    | [] => Err (EJose InvalidKeyIdError)
    | k :: r => if kid_matches (the_kid im k) kid then Ok k else gbk_find r kid
    end.
  Definition gbk_fn (ks : list nat) (kid : option str) : res nat :=
    match kid, ks with
    | None, [k] => Ok k
    | _, _ => gbk_find ks kid
    end.

  Lemma gbk_loop_spec ks kid : forall w, ww w -> Forall vkey ks -> kidded ks w ->
    holds im (gbk_loop true im ks kid) w (post w (fun r _ => r = gbk_find ks kid)).
  Proof.
    induction ks as [|k r IH]; intros w H V K; simpl gbk_loop.
    - apply holds_nop, holds_nop, holds_nop. apply post_ret; [exact H | constructor | reflexivity].
    - inversion V as [|? ? Vk Vr]; subst. apply holds_nop, holds_nop.
      eapply post_bind; [apply kidp_kidded; auto; apply K; left; reflexivity | constructor |].
      intros x w1 H1 R1 [E K1]. subst x. simpl gbk_find.
      destruct (kid_matches (the_kid im k) kid).
      + apply holds_nop. apply post_ret; [exact H1 | exact R1 | reflexivity].
      + apply (post_start _ w w1); [exact R1|]. apply IH; auto.
        intros k' Ik. apply (Kk_steps k' w w1 H R1). apply K. right. exact Ik.
  Qed.

  Definition members (s : nat) : list nat := nth s sets [].

  Lemma get_by_kid_spec s kid w : ww w -> Forall vkey (members s) -> kidded (members s) w ->
    holds im (get_by_kid true im s kid) w (post w (fun r _ => r = gbk_fn (members s) kid)).
  Proof.
    intros H V K. unfold get_by_kid. apply holds_act; [exact I|]. intros w1 R1. split; [exact I|].
    pose proof (ww_steps w w1 H R1) as H1. destruct H1 as [I1 [L1 [S1 T1]]].
    simpl. rewrite T1. fold (members s). unfold rkeys.
    assert (holds im (gbk_loop true im (members s) kid) w1 (post w (fun r _ => r = gbk_find (members s) kid))) as HL.
    { apply (post_start _ w w1); [exact R1|]. apply gbk_loop_spec; auto.
      - exact (conj I1 (conj L1 (conj S1 T1))).
      - exact (kidded_steps (members s) w w1 H R1 K). }
    unfold gbk_fn. destruct kid as [x|]; [exact HL|].
    destruct (members s) as [|k [|k2 r]]; try exact HL.
    apply holds_nop. apply post_ret; [exact (conj I1 (conj L1 (conj S1 T1))) | exact R1 | reflexivity].
  Qed.

  (* ---------- KeySet.pick_random_key ---------- *)
  Definition cands (s : nat) (alg : string) : list nat :=
    let types := match slookup (st_ksalg st) alg with Some l => l | None => [] end in
    if nonempty types then filter (fun k => smem (ki_kty (kim im k)) types) (members s) else members s.

  (* the chosen key is the chooser's pick for ONE draw index, which lies between
     the counter at the start and the counter at the end of the call *)
  Definition pick_ok (s : nat) (alg : string) (lo hi : N) (r : res (option nat)) : Prop :=
    match cands s alg with
    | [] => r = Ok None
    | c :: cs => exists idx, lo <= idx < hi /\ r = Ok (Some (nth (pickf idx (length (c :: cs))) (c :: cs) 0%nat))
    end.

  Lemma pick_cont_spec s alg w0 w ks :
    ww w -> rsteps im w0 w -> ks = cands s alg ->
    holds im
      (nop "prk.ifkeys"
         (match ks with
          | [] => nop "prk.retnone" (Ret (Ok None))
          | _ => Act "prk.choice" ADraw (fun o =>
                   match o with
                   | ODrawn idx => Ret (Ok (Some (nth (pickf idx (length ks)) ks 0%nat)))
                   | _ => Ret (Err EOracleMiss)
                   end)
          end)) w (post w0 (fun r w' => pick_ok s alg (w_rng w0) (w_rng w') r)).
  Proof.
    intros H R0 E. apply holds_nop. unfold pick_ok. rewrite <- E. destruct ks as [|c cs].
    - apply holds_nop. apply post_ret; [exact H | exact R0 | reflexivity].
    - apply holds_act; [exact I|]. intros w1 R1. split; [exact I|]. simpl.
      pose proof (rsteps_one im w1 ADraw I I) as S1. simpl in S1.
      set (w1' := {| w_keys := w_keys w1; w_sets := w_sets w1; w_rng := w_rng w1 + 1; w_static := w_static w1 |}) in *.
      assert (rsteps im w0 w1') as R01 by (eapply rsteps_trans; [exact R0|]; eapply rsteps_trans; eauto).
      apply post_ret; [eapply ww_steps; [exact H|]; eapply rsteps_trans; eauto | exact R01 |].
      intros w2 R2. exists (w_rng w1). split; [|reflexivity].
      destruct (rsteps_static im w0 w1 (rsteps_trans im _ _ _ R0 R1)) as [_ [_ A]].
      destruct (rsteps_static im w1' w2 R2) as [_ [_ B]]. simpl in B. lia.
  Qed.

  Lemma pick_random_spec s alg w : ww w ->
    holds im (pick_random im pickf s alg) w (post w (fun r w' => pick_ok s alg (w_rng w) (w_rng w') r)).
  Proof.
    intros H. unfold pick_random. apply holds_act; [exact I|]. intros w1 R1. split; [exact I|].
    pose proof (ww_steps w w1 H R1) as H1. pose proof H1 as [I1 [L1 [S1 T1]]].
    cbn [sem fst snd]. rewrite S1. apply holds_nop.
    destruct (nonempty match slookup (st_ksalg st) alg with Some l => l | None => [] end) eqn:NE.
    - apply holds_act; [exact I|]. intros w2 R2. split; [exact I|].
      pose proof (ww_steps w1 w2 H1 R2) as H2. pose proof H2 as [I2 [L2 [S2 T2]]].
      cbn [sem fst snd]. rewrite T2. fold (members s). unfold rkeys. apply holds_nops.
      apply (pick_cont_spec s alg w w2); [exact H2 | eapply rsteps_trans; eauto|].
      unfold cands. rewrite NE. reflexivity.
    - apply holds_act; [exact I|]. intros w2 R2. split; [exact I|].
      pose proof (ww_steps w1 w2 H1 R2) as H2. pose proof H2 as [I2 [L2 [S2 T2]]].
      cbn [sem fst snd]. rewrite T2. fold (members s). unfold rkeys.
      apply (pick_cont_spec s alg w w2); [exact H2 | eapply rsteps_trans; eauto|].
      unfold cands. rewrite NE. reflexivity.
  Qed.

  (* ---------- jwk.guess_key ---------- *)
  Definition hk_of (kid : option str) : pv := match kid with Some s => PStr s | None => PNone end.

  Lemma cands_incl s alg k : In k (cands s alg) -> In k (members s).
  Proof.
    unfold cands. destruct (nonempty _); [|auto]. intro H. apply filter_In in H. tauto.
  Qed.

  Lemma gbk_find_In ks kid k : gbk_find ks kid = Ok k -> In k ks.
  Proof.
    induction ks as [|k0 r IH]; simpl; [discriminate|].
    destruct (kid_matches (the_kid im k0) kid); [intro E; inversion E; auto | auto].
  Qed.
  Lemma gbk_fn_In ks kid k : gbk_fn ks kid = Ok k -> In k ks.
  Proof.
    unfold gbk_fn. destruct kid; [apply gbk_find_In|].
    destruct ks as [|k0 [|k1 r]]; try apply gbk_find_In. intro E; inversion E; left; reflexivity.
  Qed.

  Definition guess_ok (kr : keyref) (kid : option str) (use_random : bool) (alg : string) (lo hi : N)
             (r : res (nat * pv)) : Prop :=
    match kr with
    | KKey k => r = Ok (k, hk_of kid)
    | KSet s =>
      if (falsy_kid kid && use_random)%bool then
        match cands s alg with
        | [] => r = Err EValue
        | c :: cs => exists idx, lo <= idx < hi /\
                     r = Ok (nth (pickf idx (length (c :: cs))) (c :: cs) 0%nat,
                             the_kid im (nth (pickf idx (length (c :: cs))) (c :: cs) 0%nat))
        end
      else r = match gbk_fn (members s) kid with Ok k => Ok (k, hk_of kid) | Err e => Err e end
    end.

  (* what guess_key needs of the world: the keys it may return are usable; when it
     looks a key up by kid, the members of the set have their kid (KeySet.__init__) *)
  Definition guess_pre (kr : keyref) (kid : option str) (use_random : bool) (w : world) : Prop :=
    match kr with
    | KKey k => vkey k
    | KSet s => Forall vkey (members s) /\ ((falsy_kid kid && use_random)%bool = false -> kidded (members s) w)
    end.

  Lemma match_notnone {A} (v : pv) (a b : A) :
    v <> PNone -> match v with PNone => a | _ => b end = b.
  Proof. destruct v; congruence. Qed.

  Lemma guess_key_spec kr kid ur alg w : ww w -> guess_pre kr kid ur w ->
    holds im (guess_key true im pickf kr kid ur alg) w
      (post w (fun r w' => guess_ok kr kid ur alg (w_rng w) (w_rng w') r /\
                           (forall k v, r = Ok (k, v) -> vkey k))).
  Proof.
    intros H P. unfold guess_key. fold (hk_of kid). apply holds_nop, holds_nop, holds_nop.
    destruct kr as [k|s].
    - apply holds_nop, holds_nop, holds_nop. apply post_ret; [exact H | constructor|].
      intros. split; [reflexivity|]. intros k' v E. inversion E; subst. exact P.
    - destruct P as [V KD]. apply holds_nop, holds_nop, holds_nop. unfold guess_ok.
      destruct (falsy_kid kid && ur)%bool eqn:FR.
      + apply holds_nop.
        eapply post_bind; [apply pick_random_spec; auto | constructor |].
        intros r w1 H1 R1 PK. unfold pick_ok in PK. destruct (cands s alg) as [|c cs] eqn:CE.
        * subst r. apply holds_nop, holds_nop. apply post_ret; [exact H1 | exact R1|].
          intros. split; [reflexivity | intros; discriminate].
        * destruct PK as [idx [B E]]. subst r. apply holds_nop.
          set (k := nth (pickf idx (length (c :: cs))) (c :: cs) 0%nat) in *.
          assert (vkey k) as Vk.
          { rewrite Forall_forall in V. apply V. apply (cands_incl s alg). rewrite CE.
            apply nth_In. apply Hpick. simpl. lia. }
          apply holds_nop.
          eapply post_bind; [apply ensure_kid_post_spec; auto | exact R1 |].
          intros x w2 H2 R2 [E K2]. subst x. apply holds_nop.
          eapply post_bind; [apply kidp_kidded; auto | eapply rsteps_trans; eauto |].
          intros x w3 H3 R3 [E K3]. subst x.
          rewrite match_notnone by (destruct Vk as [_ [_ [_ [TK _]]]]; exact TK).
          apply holds_nop.
          eapply post_bind; [apply kidp_kidded; auto | eapply rsteps_trans; [exact R1|]; eapply rsteps_trans; eauto |].
          intros x w4 H4 R4 [E K4]. subst x. apply holds_nop.
          assert (rsteps im w w4) as R04.
          { eapply rsteps_trans; [exact R1|]. eapply rsteps_trans; [exact R2|]. eapply rsteps_trans; eauto. }
          apply post_ret; [exact H4 | exact R04|].
          intros w5 R5. split.
          -- exists idx. split; [|reflexivity].
             destruct (rsteps_static im w1 w5) as [_ [_ A]]; [|lia].
             eapply rsteps_trans; [exact R2|]. eapply rsteps_trans; [exact R3|]. eapply rsteps_trans; eauto.
          -- intros k' v E. inversion E; subst. exact Vk.
      + apply holds_nop.
        eapply post_bind; [apply get_by_kid_spec; auto | constructor |].
        intros r w1 H1 R1 E. cbv beta in E. subst r. destruct (gbk_fn (members s) kid) as [k|e] eqn:GE.
        * apply holds_nop. apply post_ret; [exact H1 | exact R1|].
          intros. split; [reflexivity|]. intros k' v E. inversion E; subst.
          rewrite Forall_forall in V. apply V. eapply gbk_fn_In; eauto.
        * apply post_ret; [exact H1 | exact R1|]. intros. split; [reflexivity | intros; discriminate].
  Qed.

  (* ---------- check_key_op / get_op_key (with the cached public_key slot) ---------- *)
  Definition op_priv (op : string) : option bool :=
    match option_map ko_private (find_op (st_ops st) op) with Some p => Some (is_true p) | None => None end.

  Definition cko_fn (k : nat) (op : string) : res unit :=
    if negb (key_ops_ok (field_of k (asc "key_ops")) op) then Err (EJose UnsupportedKeyOperationError)
    else match op_priv op with
         | None => Err EAssert
         | Some true => if ki_private (kim im k) then Ok tt else Err (EJose UnsupportedKeyOperationError)
         | Some false => Ok tt
         end.

  Lemma keyops_not_kid : asc "key_ops" <> kidK.
  Proof. discriminate. Qed.
  Lemma use_not_kid : asc "use" <> kidK.
  Proof. discriminate. Qed.
  Lemma alg_not_kid : asc "alg" <> kidK.
  Proof. discriminate. Qed.

  Lemma opreg_obs w1 op : ww w1 -> op_private (snd (sem im (AOpReg op) w1)) = op_priv op.
  Proof. intros [_ [_ [S _]]]. simpl. rewrite S. unfold op_private, op_priv. destruct (option_map _ _); reflexivity. Qed.

  Lemma check_key_op_spec k op w : ww w -> vkey k ->
    holds im (check_key_op true im k op) w (post w (fun r _ => r = cko_fn k op)).
  Proof.
    intros H V. unfold check_key_op, cko_fn. apply holds_nop.
    eapply post_bind; [apply getf_spec; auto; exact keyops_not_kid | constructor |].
    intros r w1 H1 R1 E. cbv beta in E. subst r. apply holds_nop.
    destruct (negb (key_ops_ok (field_of k (asc "key_ops")) op)).
    - apply holds_nop. apply post_ret; [exact H1 | exact R1 | reflexivity].
    - apply holds_act; [exact I|]. intros w2 R2. split; [exact I|].
      pose proof (ww_steps w1 w2 H1 R2) as H2. rewrite (opreg_obs w2 op H2). cbn [sem fst].
      destruct (op_priv op) as [b|] eqn:OP.
      + apply holds_act; [exact I|]. intros w3 R3. split; [exact I|].
        pose proof (ww_steps w2 w3 H2 R3) as H3. rewrite (opreg_obs w3 op H3), OP. cbn [sem fst].
        assert (rsteps im w w3) as R03.
        { eapply rsteps_trans; [exact R1|]. eapply rsteps_trans; eauto. }
        apply holds_nop. destruct b.
        * destruct (ki_private (kim im k)).
          -- apply post_ret; [exact H3 | exact R03 | reflexivity].
          -- apply holds_nop. apply post_ret; [exact H3 | exact R03 | reflexivity].
        * apply post_ret; [exact H3 | exact R03 | reflexivity].
      + apply post_ret; [exact H2 | eapply rsteps_trans; eauto | reflexivity].
  Qed.

  Lemma pub_after_set k w : ww w -> (k < n)%nat -> Pk k (fst (sem im (APubSet k) w)).
  Proof.
    intros [_ [L _]] LK. unfold Pk. simpl. rewrite getk_setk. rewrite Nat.eqb_refl.
    assert (Nat.ltb k (length (w_keys w)) = true) as E by (apply Nat.ltb_lt; lia).
    rewrite E. reflexivity.
  Qed.

  (* the native key handed to the primitive is a function of the immutable raw key; what is
     shared is the cached_property slot: whoever fills it, the call succeeds, and once it
     returns (for a public operation on a caching key class) the slot is filled *)
  Lemma get_op_key_spec k op w : ww w -> vkey k ->
    holds im (get_op_key true im k op) w
      (post w (fun r w' => r = cko_fn k op /\
                           (r = Ok tt -> op_priv op = Some false -> cached_pub (ki_kty (kim im k)) = true -> Pk k w'))).
  Proof.
    intros H V. pose proof V as [_ [_ [_ [_ LK]]]]. unfold get_op_key. apply holds_nop.
    eapply post_bind; [apply check_key_op_spec; auto | constructor |].
    intros r w1 H1 R1 E. cbv beta in E. subst r.
    destruct (cko_fn k op) as [[]|e] eqn:CK.
    2: { apply post_ret; [exact H1 | exact R1|]. intros. split; [reflexivity | intros; discriminate]. }
    apply holds_act; [exact I|]. intros w2 R2. split; [exact I|].
    pose proof (ww_steps w1 w2 H1 R2) as H2. rewrite (opreg_obs w2 op H2). cbn [sem fst].
    assert (rsteps im w w2) as R02 by (eapply rsteps_trans; eauto).
    apply holds_nop. destruct (op_priv op) as [[|]|] eqn:OP.
    - apply holds_nop, holds_nop. apply post_ret; [exact H2 | exact R02|].
      intros. split; [reflexivity | intros; discriminate].
    - destruct (cached_pub (ki_kty (kim im k))) eqn:CP.
      + apply holds_act; [exact I|]. intros w3 R3. split; [exact I|].
        pose proof (ww_steps w2 w3 H2 R3) as H3. cbn [sem fst snd].
        assert (rsteps im w w3) as R03 by (eapply rsteps_trans; eauto).
        destruct (ks_pub (getk w3 k)) eqn:PB.
        * apply post_ret; [exact H3 | exact R03|]. intros w4 R4. split; [reflexivity|].
          intros. apply (rsteps_pub im w3 w4 k R4). exact PB.
        * apply holds_nop. apply holds_act; [exact I|]. intros w4 R4. split; [exact I|].
          pose proof (ww_steps w3 w4 H3 R4) as H4.
          pose proof (rsteps_one im w4 (APubSet k) I I) as S4.
          apply post_ret; [eapply ww_steps; eauto | eapply rsteps_trans; [exact R03|]; eapply rsteps_trans; eauto|].
          intros w5 R5. split; [reflexivity|]. intros. apply (rsteps_pub im _ w5 k R5).
          apply pub_after_set; auto.
      + apply holds_nop. apply post_ret; [exact H2 | exact R02|].
        intros. split; [reflexivity | intros; discriminate].
    - (* not reached: check_key_op asserts that the operation is registered *)
      unfold cko_fn in CK. rewrite OP in CK. destruct (negb _) in CK; discriminate.
  Qed.

  (* ---------- a whole JWS sign / verify call ---------- *)
  Definition get_alg_fn (alg : string) (allowed : regref) : res string :=
    get_alg alg
      (OAlg (option_map (fun r => (ja_key_type r, smem alg (st_jws_reco st))) (find_jws (st_jws_algs st) alg))
            (eff_allowed st allowed)).

  Definition use_fn (k : nat) (cont : res pv) : res pv :=
    match py_truthy_str (field_of k (asc "use")) with
    | Some s => if str_eqb s (asc "sig") then cont else Err (EJose UnsupportedKeyUseError)
    | None => cont
    end.
  Definition algck_fn (k : nat) (alg : string) (cont : res pv) : res pv :=
    match py_truthy_str (field_of k (asc "alg")) with
    | Some s => if str_eqb s (asc alg) then cont else Err (EJose UnsupportedKeyAlgorithmError)
    | None => cont
    end.
  Definition ktype_fn (k : nat) (kt : string) (cont : res pv) : res pv :=
    if String.eqb (ki_kty (kim im k)) kt then cont else Err (EJose InvalidKeyTypeError).
  Definition fin_fn (crypto : option jcls) (v : pv) : res pv :=
    match crypto with None => Ok v | Some c => Err (EJose c) end.
  Definition gok_then (k : nat) (op : string) (cont : res pv) : res pv :=
    match cko_fn k op with Ok _ => cont | Err e => Err e end.

  (* everything after guess_key has returned key k and header kid v: a pure function of
     the immutable key data, the class tables and the call's own arguments *)
  Definition after_key (sign : bool) (k : nat) (v : pv) (alg : string) (allowed : regref)
             (crypto : option jcls) (kt : string) : res pv :=
    if sign then use_fn k (ktype_fn k kt (algck_fn k alg (gok_then k "sign" (fin_fn crypto v))))
    else ktype_fn k kt (gok_then k "verify" (fin_fn crypto v)).

  Definition jws_ok (sign : bool) (kr : keyref) (kid : option str) (alg : string) (allowed : regref)
             (crypto : option jcls) (lo hi : N) (r : res pv) : Prop :=
    if sign then
      match get_alg_fn alg allowed with
      | Err e => r = Err e
      | Ok kt => exists g, guess_ok kr kid true alg lo hi g /\
                 r = match g with Err e => Err e | Ok (k, v) => after_key true k v alg allowed crypto kt end
      end
    else
      exists g, guess_ok kr kid false alg lo hi g /\
        r = match g with
            | Err e => Err e
            | Ok (k, v) => use_fn k (match get_alg_fn alg allowed with
                                     | Err e => Err e
                                     | Ok kt => after_key false k v alg allowed crypto kt
                                     end)
            end.

  Lemma jwsalg_obs w1 alg allowed : ww w1 -> get_alg alg (snd (sem im (AJwsAlg alg allowed) w1)) = get_alg_fn alg allowed.
  Proof. intros [_ [_ [S _]]]. simpl. rewrite S. reflexivity. Qed.

  (* the tail shared by sign and verify: get_op_key then the primitive's verdict *)
  Lemma gok_tail_spec k op crypto v w0 w : ww w -> rsteps im w0 w -> vkey k ->
    holds im (pbindr (get_op_key true im k op) (fun _ => Ret (fin_fn crypto v))) w
      (post w0 (fun r _ => r = gok_then k op (fin_fn crypto v))).
  Proof.
    intros H R0 V. eapply post_bind; [apply get_op_key_spec; auto | exact R0 |].
    intros r w1 H1 R1 [E _]. subst r. unfold gok_then. destruct (cko_fn k op) as [[]|e].
    - apply post_ret; [exact H1 | eapply rsteps_trans; eauto | reflexivity].
    - apply post_ret; [exact H1 | eapply rsteps_trans; eauto | reflexivity].
  Qed.

  Ltac ak_solve :=
    unfold after_key, use_fn, ktype_fn, algck_fn;
    repeat match goal with
           | E : py_truthy_str _ = _ |- _ => rewrite E; clear E
           | E : str_eqb _ _ = _ |- _ => rewrite E; clear E
           | E : String.eqb _ _ = _ |- _ => rewrite E; clear E
           | E : get_alg_fn _ _ = _ |- _ => rewrite E; clear E
           end;
    reflexivity.

  Lemma jws_op_spec sign kr kid alg allowed crypto w : ww w -> guess_pre kr kid sign w ->
    holds im (jws_op true im pickf sign kr kid alg allowed crypto) w
      (post w (fun r w' => jws_ok sign kr kid alg allowed crypto (w_rng w) (w_rng w') r)).
  Proof.
    intros H P. unfold jws_op, jws_ok. fold (fin_fn crypto). destruct sign.
    - apply holds_act; [exact I|]. intros w1 R1. split; [exact I|].
      pose proof (ww_steps w w1 H R1) as H1. rewrite (jwsalg_obs w1 alg allowed H1). cbn [sem fst].
      destruct (get_alg_fn alg allowed) as [kt|e].
      2: { apply post_ret; [exact H1 | exact R1 | reflexivity]. }
      assert (guess_pre kr kid true w1) as P1.
      { destruct kr; [exact P|]. destruct P as [V KD]. split; [exact V|]. intro F. exact (kidded_steps _ w w1 H R1 (KD F)). }
      eapply post_bind; [apply guess_key_spec; auto | exact R1 |].
      intros g w2 H2 R2 [G VK].
      assert (w_rng w <= w_rng w1) as LO by (destruct (rsteps_static im w w1 R1) as [_ [_ A]]; exact A).
      assert (forall w', rsteps im w2 w' -> guess_ok kr kid true alg (w_rng w) (w_rng w') g) as G'.
      { intros w' R'. destruct (rsteps_static im w2 w' R') as [_ [_ A]].
        unfold guess_ok in *. destruct kr; [exact G|]. destruct (falsy_kid kid && true)%bool; [|exact G].
        destruct (cands s alg); [exact G|]. destruct G as [idx [B E]]. exists idx. split; [lia | exact E]. }
      assert (rsteps im w w2) as R02 by (eapply rsteps_trans; eauto).
      destruct g as [[k v]|e].
      2: { apply post_ret; [exact H2 | exact R02|]. intros w' R'. exists (Err e). split; [apply G'; exact R' | reflexivity]. }
      pose proof (VK k v eq_refl) as Vk. cbn [fst snd].
      (* every exit: the result is after_key ... *)
      assert (forall r0 w4, ww w4 -> rsteps im w2 w4 -> r0 = after_key true k v alg allowed crypto kt ->
                forall w', rsteps im w4 w' ->
                exists g, guess_ok kr kid true alg (w_rng w) (w_rng w') g /\
                   r0 = match g with Err e => Err e | Ok (k, v) => after_key true k v alg allowed crypto kt end) as FIN.
      { intros r0 w4 H4 R4 E w' R'. exists (Ok (k, v)). split; [|exact E]. apply G'. eapply rsteps_trans; eauto. }
      eapply post_bind; [apply getf_spec; auto; exact use_not_kid | exact R02 |].
      intros u w3 H3 R3 E. cbv beta in E. subst u.
      assert (rsteps im w w3) as R03 by (eapply rsteps_trans; eauto).
      destruct (py_truthy_str (field_of k (asc "use"))) as [su|] eqn:EU;
        [destruct (str_eqb su (asc "sig")) eqn:ES;
           [|apply post_ret; [exact H3 | exact R03 | apply (FIN _ w3 H3 R3); ak_solve]]|].
      all: destruct (String.eqb (ki_kty (kim im k)) kt) eqn:EK;
        [|apply post_ret; [exact H3 | exact R03 | apply (FIN _ w3 H3 R3); ak_solve]].
      all: (eapply post_bind; [apply getf_spec; auto; exact alg_not_kid | exact R03 |]);
        intros a w4 H4 R4 E; cbv beta in E; subst a;
        assert (rsteps im w2 w4) as R24 by (eapply rsteps_trans; eauto);
        assert (rsteps im w w4) as R04 by (eapply rsteps_trans; eauto);
        (destruct (py_truthy_str (field_of k (asc "alg"))) as [sa|] eqn:EA;
          [destruct (str_eqb sa (asc alg)) eqn:EAS;
             [|apply post_ret; [exact H4 | exact R04 | apply (FIN _ w4 H4 R24); ak_solve]]|]).
      all: apply (post_start _ w w4); [exact R04|];
        eapply post_conseq; [|apply (gok_tail_spec k "sign" crypto v w4 w4 H4 (rs_refl im w4) Vk)];
        intros r0 w5 H5 R5 E; cbv beta in E;
        apply (FIN r0 w5 H5 (rsteps_trans im _ _ _ R24 R5)); [|constructor]; rewrite E; ak_solve.
    - eapply post_bind; [apply guess_key_spec; auto | constructor |].
      intros g w2 H2 R2 [G VK].
      assert (forall w', rsteps im w2 w' -> guess_ok kr kid false alg (w_rng w) (w_rng w') g) as G'.
      { intros w' R'. unfold guess_ok in *. destruct kr; [exact G|].
        rewrite Bool.andb_false_r in *. exact G. }
      destruct g as [[k v]|e].
      2: { apply post_ret; [exact H2 | exact R2|]. intros w' R'. exists (Err e). split; [apply G'; exact R' | reflexivity]. }
      pose proof (VK k v eq_refl) as Vk. cbn [fst snd].
      assert (forall r0 w4, ww w4 -> rsteps im w2 w4 ->
                r0 = use_fn k (match get_alg_fn alg allowed with Err e => Err e | Ok kt => after_key false k v alg allowed crypto kt end) ->
                forall w', rsteps im w4 w' ->
                exists g, guess_ok kr kid false alg (w_rng w) (w_rng w') g /\
                   r0 = match g with Err e => Err e | Ok (k, v) =>
                         use_fn k (match get_alg_fn alg allowed with Err e => Err e | Ok kt => after_key false k v alg allowed crypto kt end) end) as FIN.
      { intros r0 w4 H4 R4 E w' R'. exists (Ok (k, v)). split; [|exact E]. apply G'. eapply rsteps_trans; eauto. }
      eapply post_bind; [apply getf_spec; auto; exact use_not_kid | exact R2 |].
      intros u w3 H3 R3 E. cbv beta in E. subst u.
      assert (rsteps im w w3) as R03 by (eapply rsteps_trans; eauto).
      destruct (py_truthy_str (field_of k (asc "use"))) as [su|] eqn:EU;
        [destruct (str_eqb su (asc "sig")) eqn:ES;
           [|apply post_ret; [exact H3 | exact R03 | apply (FIN _ w3 H3 R3); ak_solve]]|].
      all: apply holds_act; [exact I|]; intros w4 R4; (split; [exact I|]);
        pose proof (ww_steps w3 w4 H3 R4) as H4; rewrite (jwsalg_obs w4 alg allowed H4); cbn [sem fst];
        assert (rsteps im w2 w4) as R24 by (eapply rsteps_trans; eauto);
        assert (rsteps im w w4) as R04 by (eapply rsteps_trans; eauto);
        (destruct (get_alg_fn alg allowed) as [kt|e] eqn:EG;
           [|apply post_ret; [exact H4 | exact R04 | apply (FIN _ w4 H4 R24); ak_solve]]);
        (destruct (String.eqb (ki_kty (kim im k)) kt) eqn:EK;
           [|apply post_ret; [exact H4 | exact R04 | apply (FIN _ w4 H4 R24); ak_solve]]).
      all: apply (post_start _ w w4); [exact R04|];
        eapply post_conseq; [|apply (gok_tail_spec k "verify" crypto v w4 w4 H4 (rs_refl im w4) Vk)];
        intros r0 w5 H5 R5 E; cbv beta in E;
        apply (FIN r0 w5 H5 (rsteps_trans im _ _ _ R24 R5)); [|constructor]; rewrite E; ak_solve.
  Qed.

  (* ---------- a whole JWE encrypt / decrypt call (direct encryption, AES key wrapping) ---------- *)
  Definition jwe_reg_fn (alg enc : string) (allowed : regref) : res (string * list string) :=
    jwe_reg alg enc
      (OJwe (option_map (fun r => (ea_family r, ea_key_types r))
                        (find (fun r => String.eqb (ea_name r) alg) (st_jwe_algs st)))
            (smem alg (st_jwe_reco st))
            (existsb (fun r => String.eqb (ee_name r) enc) (st_jwe_encs st))
            (smem enc (st_jwe_reco st))
            (eff_allowed st allowed)).
  Lemma jwereg_obs w1 alg enc allowed : ww w1 ->
    jwe_reg alg enc (snd (sem im (AJweAlg alg enc allowed) w1)) = jwe_reg_fn alg enc allowed.
  Proof. intros [_ [_ [S _]]]. simpl. rewrite S. reflexivity. Qed.

  Definition jwe_after (encrypt : bool) (k : nat) (v : pv) (alg enc : string) (allowed : regref)
             (crypto : option jcls) : res pv :=
    match py_truthy_str (field_of k (asc "use")) with
    | Some s => if str_eqb s (asc "enc") then
                  match jwe_reg_fn alg enc allowed with
                  | Err e => Err e
                  | Ok (fam, kts) =>
                    if String.eqb fam "dir" then
                      if smem (ki_kty (kim im k)) kts then fin_fn crypto v else Err (EJose InvalidKeyTypeError)
                    else if String.eqb fam "AESKW" then
                      if smem (ki_kty (kim im k)) kts
                      then gok_then k (if encrypt then "wrapKey" else "unwrapKey") (fin_fn crypto v)
                      else Err (EJose InvalidKeyTypeError)
                    else Err EOracleMiss
                  end
                else Err (EJose UnsupportedKeyUseError)
    | None =>
                  match jwe_reg_fn alg enc allowed with
                  | Err e => Err e
                  | Ok (fam, kts) =>
                    if String.eqb fam "dir" then
                      if smem (ki_kty (kim im k)) kts then fin_fn crypto v else Err (EJose InvalidKeyTypeError)
                    else if String.eqb fam "AESKW" then
                      if smem (ki_kty (kim im k)) kts
                      then gok_then k (if encrypt then "wrapKey" else "unwrapKey") (fin_fn crypto v)
                      else Err (EJose InvalidKeyTypeError)
                    else Err EOracleMiss
                  end
    end.

  Definition jwe_ok (encrypt : bool) (kr : keyref) (kid : option str) (alg enc : string)
             (allowed : regref) (crypto : option jcls) (lo hi : N) (r : res pv) : Prop :=
    exists g, guess_ok kr kid encrypt alg lo hi g /\
      r = match g with Err e => Err e | Ok (k, v) => jwe_after encrypt k v alg enc allowed crypto end.

  Lemma draw_then_spec {A} l b (p : prog A) w0 w (R : A -> world -> Prop) :
    ww w -> rsteps im w0 w ->
    (forall w1, ww w1 -> rsteps im w0 w1 -> holds im p w1 (post w0 R)) ->
    holds im (draw_then l b p) w (post w0 R).
  Proof.
    intros H R0 HP. unfold draw_then. destruct b; [|apply HP; auto].
    apply holds_act; [exact I|]. intros w1 R1. split; [exact I|].
    pose proof (rsteps_one im w1 ADraw I I) as S1.
    apply HP; [eapply ww_steps; [exact H|]; eapply rsteps_trans; eauto|].
    eapply rsteps_trans; [exact R0|]. eapply rsteps_trans; eauto.
  Qed.

  Ltac je_solve :=
    unfold jwe_after;
    repeat match goal with
           | E : py_truthy_str _ = _ |- _ => rewrite E; clear E
           | E : str_eqb _ _ = _ |- _ => rewrite E; clear E
           | E : String.eqb _ _ = _ |- _ => rewrite E; clear E
           | E : smem _ _ = _ |- _ => rewrite E; clear E
           | E : jwe_reg_fn _ _ _ = _ |- _ => rewrite E; clear E
           end;
    reflexivity.

  Definition jwe_tail_fn (encrypt : bool) (k : nat) (v : pv) (fam : string) (kts : list string) (crypto : option jcls) : res pv :=
    if String.eqb fam "dir" then
      if smem (ki_kty (kim im k)) kts then fin_fn crypto v else Err (EJose InvalidKeyTypeError)
    else if String.eqb fam "AESKW" then
      if smem (ki_kty (kim im k)) kts
      then gok_then k (if encrypt then "wrapKey" else "unwrapKey") (fin_fn crypto v)
      else Err (EJose InvalidKeyTypeError)
    else Err EOracleMiss.

  Lemma jwe_tail_spec encrypt k v fam kts crypto w : ww w -> vkey k ->
    holds im
      (if String.eqb fam "dir" then
         (if smem (ki_kty (kim im k)) kts then draw_then "jwe.iv" encrypt (Ret (fin_fn crypto v))
          else Ret (Err (EJose InvalidKeyTypeError)))
       else if String.eqb fam "AESKW" then
         draw_then "jwe.cek" encrypt
           (if smem (ki_kty (kim im k)) kts
            then pbindr (get_op_key true im k (if encrypt then "wrapKey" else "unwrapKey"))
                        (fun _ => draw_then "jwe.iv" encrypt (Ret (fin_fn crypto v)))
            else Ret (Err (EJose InvalidKeyTypeError)))
       else Ret (Err EOracleMiss)) w
      (post w (fun r _ => r = jwe_tail_fn encrypt k v fam kts crypto)).
  Proof.
    intros H V. unfold jwe_tail_fn. destruct (String.eqb fam "dir").
    - destruct (smem (ki_kty (kim im k)) kts).
      + apply draw_then_spec; [exact H | constructor|]. intros w1 H1 R1. apply post_ret; [exact H1 | exact R1 | reflexivity].
      + apply post_ret; [exact H | constructor | reflexivity].
    - destruct (String.eqb fam "AESKW"); [|apply post_ret; [exact H | constructor | reflexivity]].
      apply draw_then_spec; [exact H | constructor|]. intros w1 H1 R1.
      destruct (smem (ki_kty (kim im k)) kts); [|apply post_ret; [exact H1 | exact R1 | reflexivity]].
      eapply post_bind; [apply get_op_key_spec; auto | exact R1 |].
      intros r w2 H2 R2 [E _]. subst r. unfold gok_then.
      destruct (cko_fn k (if encrypt then "wrapKey" else "unwrapKey")) as [[]|e].
      + apply draw_then_spec; [exact H2 | eapply rsteps_trans; eauto|].
        intros w3 H3 R3. apply post_ret; [exact H3 | exact R3 | reflexivity].
      + apply post_ret; [exact H2 | eapply rsteps_trans; eauto | reflexivity].
  Qed.

  Lemma jwe_op_spec encrypt kr kid alg enc allowed crypto w : ww w -> guess_pre kr kid encrypt w ->
    holds im (jwe_op true im pickf encrypt kr kid alg enc allowed crypto) w
      (post w (fun r w' => jwe_ok encrypt kr kid alg enc allowed crypto (w_rng w) (w_rng w') r)).
  Proof.
    intros H P. unfold jwe_op, jwe_ok. fold (fin_fn crypto).
    eapply post_bind; [apply guess_key_spec; auto | constructor |].
    intros g w2 H2 R2 [G VK].
    assert (forall w', rsteps im w2 w' -> guess_ok kr kid encrypt alg (w_rng w) (w_rng w') g) as G'.
    { intros w' R'. destruct (rsteps_static im w2 w' R') as [_ [_ A]].
      unfold guess_ok in *. destruct kr; [exact G|]. destruct (falsy_kid kid && encrypt)%bool; [|exact G].
      destruct (cands s alg); [exact G|]. destruct G as [idx [B E]]. exists idx. split; [lia | exact E]. }
    destruct g as [[k v]|e].
    2: { apply post_ret; [exact H2 | exact R2|]. intros w' R'. exists (Err e). split; [apply G'; exact R' | reflexivity]. }
    pose proof (VK k v eq_refl) as Vk. cbn [fst snd].
    assert (forall r0 w4, ww w4 -> rsteps im w2 w4 -> r0 = jwe_after encrypt k v alg enc allowed crypto ->
              forall w', rsteps im w4 w' ->
              exists g, guess_ok kr kid encrypt alg (w_rng w) (w_rng w') g /\
                 r0 = match g with Err e => Err e | Ok (k, v) => jwe_after encrypt k v alg enc allowed crypto end) as FIN.
    { intros r0 w4 H4 R4 E w' R'. exists (Ok (k, v)). split; [|exact E]. apply G'. eapply rsteps_trans; eauto. }
    eapply post_bind; [apply getf_spec; auto; exact use_not_kid | exact R2 |].
    intros u w3 H3 R3 E. cbv beta in E. subst u.
    assert (rsteps im w w3) as R03 by (eapply rsteps_trans; eauto).
    destruct (py_truthy_str (field_of k (asc "use"))) as [su|] eqn:EU;
      [destruct (str_eqb su (asc "enc")) eqn:ES;
         [|apply post_ret; [exact H3 | exact R03 | apply (FIN _ w3 H3 R3); je_solve]]|].
    all: apply holds_act; [exact I|]; intros w4 R4; (split; [exact I|]);
      pose proof (ww_steps w3 w4 H3 R4) as H4; rewrite (jwereg_obs w4 alg enc allowed H4); cbn [sem fst];
      assert (rsteps im w2 w4) as R24 by (eapply rsteps_trans; eauto);
      assert (rsteps im w w4) as R04 by (eapply rsteps_trans; eauto);
      (destruct (jwe_reg_fn alg enc allowed) as [[fam kts]|e] eqn:EG;
         [|apply post_ret; [exact H4 | exact R04 | apply (FIN _ w4 H4 R24); je_solve]]).
    all: apply (post_start _ w w4); [exact R04|];
      eapply post_conseq; [|apply (jwe_tail_spec encrypt k v fam kts crypto w4 H4 Vk)];
      intros r0 w5 H5 R5 E; cbv beta in E;
      apply (FIN r0 w5 H5 (rsteps_trans im _ _ _ R24 R5)); [|constructor]; rewrite E; unfold jwe_tail_fn; je_solve.
  Qed.

  (* ---------- as_dict, in the post format; with the kid once the key has it ---------- *)
  Definition full_view (k : nat) : dict :=
    match dget (view im k) kidK with Some _ => view im k | None => withkid im k end.

  Lemma good_kidded k d : good im k d -> dget d kidK <> None -> d = full_view k.
  Proof.
    intros [E|[E|[N E]]] K; subst d; unfold full_view.
    - simpl in K. congruence.
    - destruct (dget (view im k) kidK); [reflexivity | congruence].
    - rewrite N. reflexivity.
  Qed.

  Lemma as_dict_post_spec k private w : ww w -> vkey k ->
    holds im (as_dict true im k private) w
      (post w (fun r _ => as_dict_ok im k private r /\
                          (Kk k w -> (is_true private && negb (ki_private (kim im k)))%bool = false ->
                           r = Ok (export im k private (full_view k))))).
  Proof.
    intros H V. unfold as_dict, as_dict_ok. apply holds_nop.
    destruct (is_true private && negb (ki_private (kim im k)))%bool.
    - apply holds_nop. apply post_ret; [exact H | constructor|]. intros. split; [reflexivity | intros; discriminate].
    - apply holds_nop. eapply post_bind; [apply dv_post_spec; auto | constructor |].
      intros r w1 H1 R1 [i [d [E [NE [G [F1 [KA KB]]]]]]]. subst r. simpl snd. apply holds_nop.
      assert (forall pr, (Ok (export im k pr d) = Ok (export im k pr (view im k)) \/
                          (dget (view im k) kidK = None /\ Ok (export im k pr d) = Ok (export im k pr (withkid im k)))) /\
                         (Kk k w -> false = false -> Ok (export im k pr d) = Ok (export im k pr (full_view k)))) as HG.
      { intro pr. split.
        - destruct G as [E|[E|[N E]]]; subst d; [congruence | left; reflexivity | right; auto].
        - intros K _. rewrite (good_kidded k d G (KA K)). reflexivity. }
      destruct private as [[|]|].
      + apply holds_nop, holds_nop. apply post_ret; [exact H1 | exact R1|]. intros. apply (HG (Some true)).
      + apply strip_loop_spec. intros w2 R2. split; [eapply ww_steps; eauto|]. split; [eapply rsteps_trans; eauto|].
        apply (HG (Some false)).
      + apply holds_nop, holds_nop. apply post_ret; [exact H1 | exact R1|]. intros. apply (HG None).
  Qed.

  (* ---------- KeySet.as_dict ---------- *)
  Definition no_conflict (private : option bool) (k : nat) : Prop :=
    (is_true private && negb (ki_private (kim im k)))%bool = false.

  Lemma ksd_body_spec private ks : forall acc w, ww w -> Forall vkey ks -> Forall (no_conflict private) ks ->
    holds im (ksd_body true im ks private acc) w
      (post w (fun (r : res pv) w' => r = Ok (PDict [(asc "keys", PList (rev acc ++ map (fun k => export im k private (full_view k)) ks))]) /\ kidded ks w')).
  Proof.
    induction ks as [|k r IH]; intros acc w H V NC; simpl ksd_body.
    - apply holds_nop. apply post_ret; [exact H | constructor|]. intros. simpl. rewrite app_nil_r.
      split; [reflexivity | intros k []].
    - inversion V as [|? ? Vk Vr]; subst. inversion NC as [|? ? NCk NCr]; subst. apply holds_nop.
      eapply post_bind; [apply ensure_kid_post_spec; auto | constructor |].
      intros x w1 H1 R1 [E K1]. subst x. apply holds_nop.
      eapply post_bind; [apply as_dict_post_spec; auto | exact R1 |].
      intros x w2 H2 R2 [_ E]. rewrite (E K1 NCk). apply holds_nop.
      assert (rsteps im w w2) as R02 by (eapply rsteps_trans; eauto).
      apply (post_start _ w w2); [exact R02|].
      eapply post_conseq; [|apply IH; auto].
      intros a w3 H3 R3 [E3 K3]. split.
      + rewrite E3. simpl. rewrite <- app_assoc. reflexivity.
      + intros k' [Ek|Ik]; [subst k'; exact (Kk_steps k w1 w3 H1 (rsteps_trans im _ _ _ R2 R3) K1) | apply K3; exact Ik].
  Qed.

  Lemma set_as_dict_spec s private w : ww w -> Forall vkey (members s) -> Forall (no_conflict private) (members s) ->
    holds im (set_as_dict true im s private) w
      (post w (fun (r : res pv) w' => r = Ok (PDict [(asc "keys", PList (map (fun k => export im k private (full_view k)) (members s)))]) /\ kidded (members s) w')).
  Proof.
    intros H V NC. unfold set_as_dict. apply holds_nop. apply holds_act; [exact I|]. intros w1 R1. split; [exact I|].
    pose proof (ww_steps w w1 H R1) as H1. pose proof H1 as [I1 [L1 [S1 T1]]].
    cbn [sem fst snd]. rewrite T1. fold (members s). unfold rkeys.
    apply (post_start _ w w1); [exact R1|]. apply (ksd_body_spec private (members s) [] w1); auto.
  Qed.

  (* ---------- every modelled call ---------- *)
  Definition call_pre (c : call) (w : world) : Prop :=
    match c with
    | CAsDict k _ | CThumb k | CEnsureKid k | CKid k => vkey k
    | CNewSet ks => Forall vkey ks
    | CGetByKid s _ => Forall vkey (members s) /\ kidded (members s) w
    | CPick _ _ => True
    | CSetAsDict s p => Forall vkey (members s) /\ Forall (no_conflict p) (members s)
    | CJws sg kr kid _ _ _ => guess_pre kr kid sg w
    | CJwe en kr kid _ _ _ _ => guess_pre kr kid en w
    end.

  Lemma call_pre_steps c w w' : ww w -> rsteps im w w' -> call_pre c w -> call_pre c w'.
  Proof.
    intros H R. destruct c; simpl; auto.
    - intros [V K]. split; [exact V | exact (kidded_steps _ w w' H R K)].
    - destruct kr; simpl; auto. intros [V K]. split; [exact V|]. intro F. exact (kidded_steps _ w w' H R (K F)).
    - destruct kr; simpl; auto. intros [V K]. split; [exact V|]. intro F. exact (kidded_steps _ w w' H R (K F)).
  Qed.

  (* the result of a call, as a relation that mentions only the immutable key data, the
     class tables, the call's own arguments and the chooser; [lo, hi) brackets its draws.
     The documented exception is visible: kid / as_dict may or may not show the lazy kid *)
  Definition call_ok (c : call) (lo hi : N) (r : res pv) : Prop :=
    match c with
    | CAsDict k p => as_dict_ok im k p r
    | CThumb k => r = Ok (PStr (ki_tp (kim im k)))
    | CEnsureKid k => r = Ok PNone
    | CKid k => (r = Ok PNone /\ dget (view im k) kidK = None) \/ r = Ok (the_kid im k)
    | CNewSet ks => r = Ok (PList (map (the_kid im) ks))
    | CGetByKid s kid => r = match gbk_fn (members s) kid with Ok k => Ok (PInt (Z.of_nat k)) | Err e => Err e end
    | CPick s alg => exists o, pick_ok s alg lo hi o /\
                     r = match o with Ok (Some k) => Ok (PInt (Z.of_nat k)) | Ok None => Ok PNone | Err e => Err e end
    | CSetAsDict s p => r = Ok (PDict [(asc "keys", PList (map (fun k => export im k p (full_view k)) (members s)))])
    | CJws sg kr kid alg allowed crypto => jws_ok sg kr kid alg allowed crypto lo hi r
    | CJwe en kr kid alg enc allowed crypto => jwe_ok en kr kid alg enc allowed crypto lo hi r
    end.

  Theorem call_spec c w : ww w -> call_pre c w ->
    holds im (compile true im pickf c) w (post w (fun r w' => call_ok c (w_rng w) (w_rng w') r)).
  Proof.
    intros H P. destruct c; simpl compile; simpl call_ok; simpl in P.
    - eapply post_conseq; [|apply as_dict_post_spec; auto]. intros a w1 _ _ [A _]. exact A.
    - eapply post_bind; [apply thumb_spec; auto | constructor |].
      intros r w1 H1 R1 E. cbv beta in E. subst r. apply post_ret; [exact H1 | exact R1 | reflexivity].
    - eapply post_bind; [apply ensure_kid_post_spec; auto | constructor |].
      intros r w1 H1 R1 [E _]. subst r. apply post_ret; [exact H1 | exact R1 | reflexivity].
    - eapply post_conseq; [|apply kidp_post_spec; auto].
      intros a w1 _ _ [_ [[E [_ N]]|[E _]]]; [left; auto | right; exact E].
    - eapply post_conseq; [|apply new_set_spec; auto]. intros a w1 _ _ [E _]. exact E.
    - destruct P as [V K]. eapply post_bind; [apply get_by_kid_spec; auto | constructor |].
      intros r w1 H1 R1 E. cbv beta in E. subst r.
      destruct (gbk_fn (members s) kid); apply post_ret; auto; reflexivity.
    - eapply post_bind; [apply pick_random_spec; auto | constructor |].
      intros r w1 H1 R1 PK. cbv beta in PK.
      assert (forall w2, rsteps im w1 w2 -> pick_ok s alg (w_rng w) (w_rng w2) r) as PK'.
      { intros w2 R2. destruct (rsteps_static im w1 w2 R2) as [_ [_ A]]. unfold pick_ok in *.
        destruct (cands s alg); [exact PK|]. destruct PK as [idx [B E]]. exists idx. split; [lia | exact E]. }
      destruct r as [o|e]; (apply post_ret; [exact H1 | exact R1|]); intros w2 R2.
      + exists (Ok o). split; [apply PK'; exact R2 | destruct o; reflexivity].
      + exists (Err e). split; [apply PK'; exact R2 | reflexivity].
    - destruct P as [V NC]. eapply post_conseq; [|apply set_as_dict_spec; auto]. intros a w1 _ _ [E _]. exact E.
    - apply jws_op_spec; auto.
    - apply jwe_op_spec; auto.
  Qed.

  (* ---------- any sequence of calls, one after the other ---------- *)
  Inductive seq_run : world -> list call -> list (res pv) -> world -> Prop :=
  | sr_nil : forall w, seq_run w [] [] w
  | sr_cons : forall w c cs r rs w1 w2 fuel,
      run_seq im fuel w (compile true im pickf c) = Some (r, w1) ->
      seq_run w1 cs rs w2 -> seq_run w (c :: cs) (r :: rs) w2.

  Theorem seq_spec cs : forall w rs w', ww w -> Forall (fun c => call_pre c w) cs -> seq_run w cs rs w' ->
    ww w' /\ rsteps im w w' /\ Forall2 (fun c r => exists lo hi, call_ok c lo hi r) cs rs.
  Proof.
    induction cs as [|c cs IH]; intros w rs w' H P S; inversion S as [|w0 c0 cs0 r rs0 w1 w2 fuel Hrun Hrest]; subst.
    - split; [exact H|]. split; [constructor | constructor].
    - inversion P as [|? ? Pc Pcs]; subst.
      destruct (holds_run_seq im fuel _ w _ r w1 (call_spec c w H Pc) Hrun) as [H1 [R1 OK]].
      assert (Forall (fun c0 => call_pre c0 w1) cs) as P1.
      { rewrite Forall_forall in *. intros c0 I0. exact (call_pre_steps c0 w w1 H R1 (Pcs c0 I0)). }
      destruct (IH w1 rs0 w' H1 P1 Hrest) as [H2 [R2 F2]].
      split; [exact H2|]. split; [exact (rsteps_trans im _ _ _ R1 R2)|].
      constructor; [exists (w_rng w), (w_rng w1); exact OK | exact F2].
  Qed.

  (* ---------- calls whose result does not even depend on the lazy kid or on a draw ---------- *)
  Definition det (c : call) : Prop :=
    match c with
    | CThumb _ | CEnsureKid _ | CNewSet _ | CGetByKid _ _ | CSetAsDict _ _ => True
    | CJws sg kr kid _ _ _ | CJwe sg kr kid _ _ _ _ =>
        match kr with KKey _ => True | KSet _ => (falsy_kid kid && sg)%bool = false end
    | _ => False
    end.

  Lemma guess_ok_det kr kid sg alg lo hi lo' hi' g g' :
    match kr with KKey _ => True | KSet _ => (falsy_kid kid && sg)%bool = false end ->
    guess_ok kr kid sg alg lo hi g -> guess_ok kr kid sg alg lo' hi' g' -> g = g'.
  Proof.
    unfold guess_ok. destruct kr; [intros _ A B; congruence|]. intros E. rewrite E. intros A B. congruence.
  Qed.

  Lemma call_ok_det c lo hi lo' hi' r r' : det c -> call_ok c lo hi r -> call_ok c lo' hi' r' -> r = r'.
  Proof.
    destruct c; simpl; try contradiction; try (intros _ A B; congruence).
    - intros D. unfold jws_ok. destruct sign.
      + destruct (get_alg_fn alg allowed); [|intros; congruence].
        intros [g [G E]] [g' [G' E']]. rewrite (guess_ok_det kr kid true alg lo hi lo' hi' g g' D G G') in E. congruence.
      + intros [g [G E]] [g' [G' E']]. rewrite (guess_ok_det kr kid false alg lo hi lo' hi' g g' D G G') in E. congruence.
    - intros D. unfold jwe_ok.
      intros [g [G E]] [g' [G' E']]. rewrite (guess_ok_det kr kid encrypt alg lo hi lo' hi' g g' D G G') in E. congruence.
  Qed.
End Calls.

(* ================= each call's draws are its own ================= *)
Definition draws_of (tr : list event) : list N :=
  flat_map (fun e => match ev_obs e with ODrawn i => [i] | _ => [] end) tr.

Fixpoint incr_from (lo : N) (l : list N) : Prop :=
  match l with [] => True | x :: r => lo <= x /\ incr_from (x + 1) r end.

Lemma sem_draw im a w :
  w_rng w <= w_rng (fst (sem im a w)) /\
  match snd (sem im a w) with
  | ODrawn i => i = w_rng w /\ w_rng (fst (sem im a w)) = w_rng w + 1
  | _ => True
  end.
Proof. destruct a; simpl; try (split; [lia | exact I]); try (split; [lia|]; destruct (Nat.eqb _ _); exact I). split; lia. Qed.

Lemma incr_from_weaken lo lo' l : lo' <= lo -> incr_from lo l -> incr_from lo' l.
Proof. destruct l; simpl; [auto|]. intros A [B C]. split; [lia | exact C]. Qed.

(* along any schedule of any threads, the indices handed out by the shared random source
   strictly increase: no index is ever handed to two calls *)
Lemma run_sched_draws {A} im : forall sched w (ts : list (prog A)) w' ts' tr,
  run_sched im sched w ts = (w', ts', tr) ->
  incr_from (w_rng w) (draws_of tr) /\ w_rng w <= w_rng w'.
Proof.
  induction sched as [|t r IH]; intros w ts w' ts' tr E; simpl in E.
  - inversion E; subst. simpl. split; [exact I | lia].
  - destruct (nth_error ts t) as [[a0|l a k]|] eqn:NT.
    + destruct (run_sched im r w ts) as [[w2 ts2] tr2] eqn:R. inversion E; subst.
      destruct (IH _ _ _ _ _ R) as [A1 A2]. simpl. split; assumption.
    + destruct (sem im a w) as [w1 o] eqn:S.
      destruct (run_sched im r w1 (upd ts t (k o))) as [[w2 ts2] tr2] eqn:R. inversion E; subst.
      destruct (IH _ _ _ _ _ R) as [A1 A2]. pose proof (sem_draw im a w) as [B1 B2]. rewrite S in *. simpl in *.
      split; [|lia]. unfold draws_of. simpl. fold (draws_of tr2). destruct o; simpl; try (eapply incr_from_weaken; eauto).
      destruct B2 as [B2 B3]. subst idx. split; [lia|]. rewrite <- B3. exact A1.
    + destruct (run_sched im r w ts) as [[w2 ts2] tr2] eqn:R. inversion E; subst.
      destruct (IH _ _ _ _ _ R) as [A1 A2]. simpl. split; assumption.
Qed.

Lemma incr_from_lb lo l x : incr_from lo l -> In x l -> lo <= x.
Proof.
  revert lo. induction l as [|y l IH]; simpl; [tauto|]. intros lo [A B] [E|I0]; [subst; exact A|].
  specialize (IH _ B I0). lia.
Qed.
Lemma incr_from_nodup lo l : incr_from lo l -> NoDup l.
Proof.
  revert lo. induction l as [|y l IH]; simpl; intros lo H; constructor.
  - destruct H as [A B]. intro I0. pose proof (incr_from_lb _ _ _ B I0). lia.
  - destruct H as [A B]. eapply IH; eauto.
Qed.

(* the draws of one thread *)
Definition draw_of (e : event) : list N := match ev_obs e with ODrawn i => [i] | _ => [] end.
Definition draws_tid (t : nat) (tr : list event) : list N :=
  flat_map (fun e => if Nat.eqb (ev_tid e) t then draw_of e else []) tr.

Lemma draws_tid_sub t tr x : In x (draws_tid t tr) -> In x (draws_of tr).
Proof.
  unfold draws_tid, draws_of. intro H. apply in_flat_map in H. destruct H as [e [I1 I2]].
  apply in_flat_map. exists e. split; [exact I1|]. destruct (Nat.eqb (ev_tid e) t); [exact I2 | destruct I2].
Qed.

Lemma nodup_app_r {A} (l l' : list A) : NoDup (l ++ l') -> NoDup l'.
Proof. induction l as [|a l IH]; simpl; [auto|]. intro H. inversion H; subst. apply IH. assumption. Qed.

Lemma draws_tid_disjoint tr : forall i j x, NoDup (draws_of tr) ->
  In x (draws_tid i tr) -> In x (draws_tid j tr) -> i = j.
Proof.
  induction tr as [|e tr IH]; intros i j x ND Hi Hj; [destruct Hi|].
  unfold draws_of in ND. simpl in ND. fold (draws_of tr) in ND. fold (draw_of e) in ND.
  unfold draws_tid in Hi, Hj. simpl in Hi, Hj. fold (draws_tid i tr) in Hi. fold (draws_tid j tr) in Hj.
  apply in_app_or in Hi. apply in_app_or in Hj.
  assert (NoDup (draws_of tr)) as ND' by (exact (nodup_app_r _ _ ND)).
  assert (forall y, In y (draw_of e) -> ~ In y (draws_of tr)) as DIS.
  { intros y Iy. unfold draw_of in *. destruct (ev_obs e); simpl in Iy; try contradiction.
    destruct Iy as [Ey|[]]. subst y. simpl in ND. inversion ND; assumption. }
  destruct Hi as [Hi|Hi]; destruct Hj as [Hj|Hj].
  - destruct (Nat.eqb (ev_tid e) i) eqn:Ei; [|destruct Hi]. destruct (Nat.eqb (ev_tid e) j) eqn:Ej; [|destruct Hj].
    apply Nat.eqb_eq in Ei. apply Nat.eqb_eq in Ej. congruence.
  - destruct (Nat.eqb (ev_tid e) i); [|destruct Hi]. exfalso. apply (DIS x Hi). apply (draws_tid_sub j). exact Hj.
  - destruct (Nat.eqb (ev_tid e) j); [|destruct Hj]. exfalso. apply (DIS x Hj). apply (draws_tid_sub i). exact Hi.
  - exact (IH i j x ND' Hi Hj).
Qed.
