(* C07Proofs.v — the Impl model produces / accepts the octets of the RFC Spec. *)
From Coq Require Import Lia ZifyBool.
From Model Require Import Jws C07Spec.
From Gen Require Import Tables.
From Proofs Require Import B64Proofs IntCodecProofs JwsProofs C01Proofs C03Proofs.
Open Scope N_scope.
Open Scope string_scope.

(* how the extractor renders the parameters of an algorithm object (the ja_ fields) from the Spec row *)
Definition N_dec (n : N) : string :=
  if (n =? 32)%N then "32" else if (n =? 48)%N then "48" else if (n =? 64)%N then "64" else "?".
Definition impl_view (a : spec_alg) : string * string * string * (string * string * string) :=
  (sa_name a, sa_kty a,
   (if String.eqb (sa_kind a) "PKCS1v15" then "RSA"
    else if String.eqb (sa_kind a) "ECDSA" then "EC" else sa_kind a),
   (sa_hash a, sa_curve a,
    (if String.eqb (sa_kind a) "PKCS1v15" then "PKCS1v15"
     else if String.eqb (sa_kind a) "PSS" then "PSS:mgf=" ++ sa_mgf a ++ ":salt=" ++ N_dec (sa_salt a)
     else ""))).
Definition row_view (r : jws_alg_row) :=
  (ja_name r, ja_key_type r, ja_family r, (ja_hash r, ja_curve r, ja_pad r)).

Lemma alg_params : map row_view jws_alg_table = map impl_view spec_table.
Proof. vm_compute. reflexivity. Qed.

(* the coordinate length L of the Spec is ceil(bits / 8) of the curve the key must have *)
Definition curve_len_ok : bool :=
  forallb (fun a => if String.eqb (sa_kind a) "ECDSA"
                    then existsb (fun c => String.eqb (cv_name c) (sa_curve a) && ((cv_bits c + 7) / 8 =? sa_L a)%N) ec_curves
                    else true) spec_table.
Lemma alg_curve_len : curve_len_ok = true.
Proof. vm_compute. reflexivity. Qed.
Close Scope string_scope.

Section C07.
  Variable json_loads : bytes -> res pv.
  Variable json_dumps : pv -> bytes.
  Variable mac : string -> N -> bytes -> res bytes.
  Variable pk_sign : jws_alg_row -> N -> bytes -> res bytes.
  Variable pk_verify : jws_alg_row -> N -> bytes -> bytes -> res bool.
  Variable ec_sign : jws_alg_row -> N -> bytes -> res (Z * Z).
  Variable ec_verify : jws_alg_row -> N -> bytes -> Z -> Z -> res bool.
  Variable choose : list key -> option key.

  (* signing: the token is  SI || '.' || BASE64URL(sig)  with SI the Spec signing input
     of the octets json.dumps produced, and sig the signature over SI *)
  Theorem sign_is_spec h payload r k tok :
    sign_compact json_dumps mac pk_sign ec_sign h payload r k = Ok tok ->
    exists sig, alg_sign mac pk_sign ec_sign r k (spec_signing_input (json_dumps (PDict h)) payload true) = Ok sig /\
                tok = spec_signing_input (json_dumps (PDict h)) payload true ++ 46 :: b64e sig.
  Proof.
    unfold sign_compact, spec_signing_input, json_b64encode. intro H. bstep H as sig S.
    inversion H. eauto.
  Qed.

  (* ECDSA signatures are I2OSP(r, L) || I2OSP(s, L) *)
  Theorem ec_sig_is_spec r k msg sig rr ss :
    fam_of r = FEc -> (0 < ec_len k)%nat ->
    ec_sign r (k_id k) msg = Ok (rr, ss) ->
    (0 <= rr)%Z -> (0 <= ss)%Z ->
    Z.to_N rr < 256 ^ N.of_nat (ec_len k) -> Z.to_N ss < 256 ^ N.of_nat (ec_len k) ->
    alg_sign mac pk_sign ec_sign r k msg = Ok sig ->
    sig = spec_ecdsa_sig (Z.to_N rr) (Z.to_N ss) (ec_len k).
  Proof.
    intros F HL ES Hr Hs Hrn Hsn. unfold alg_sign. rewrite F.
    destruct (mistyped FEc k); [discriminate|].
    destruct (negb (String.eqb (k_crv k) (ja_curve r))); [discriminate|].
    intro H. bstep H as u CK. rewrite ES in H. cbn [bind fst snd] in H.
    unfold ec_len in *.
    rewrite (encode_int_is_I2OSP_pos rr (k_bits k) HL Hr Hrn) in H.
    rewrite (encode_int_is_I2OSP_pos ss (k_bits k) HL Hs Hsn) in H.
    cbn [bind] in H. inversion H. reflexivity.
  Qed.

  (* HMAC uses the raw key octets: the tag is the MAC oracle on (hash of the row, key, message),
     nothing else enters *)
  Theorem hmac_raw_key r k msg :
    fam_of r = FHmac -> check_key_op k "sign" = Ok tt -> mistyped FHmac k = None ->
    alg_sign mac pk_sign ec_sign r k msg = mac (ja_hash r) (k_id k) msg.
  Proof. intros F C M. unfold alg_sign. rewrite F, C. cbn [bind]. rewrite M. reflexivity. Qed.

  (* verification: for a token whose header and payload segments are the BASE64URL
     encodings of hdr and payload (any JSON spelling of hdr: json_loads is the only
     link between the octets and the header), acceptance means that the signature
     verified over the Spec signing input of exactly these octets *)
  Theorem verify_is_spec_sound hdr payload sseg src algs o :
    bytes_ok hdr = true -> bytes_ok payload = true -> no_dot sseg = true ->
    deserialize_compact json_loads mac pk_verify ec_verify
      (b64e hdr ++ 46 :: b64e payload ++ 46 :: sseg) src algs = Ok o ->
    json_loads hdr = Ok (co_protected o) /\ co_payload o = payload /\
    verified mac pk_verify ec_verify (reg15 algs) src (co_protected o)
             (spec_signing_input hdr payload true) sseg.
  Proof.
    intros BH BP ND H. apply compact_sound_rg in H.
    destruct H as (T & A & B & C & (raw & R1 & R2) & P & V & _).
    pose proof (b64e_no_dot _ BH) as NH. pose proof (b64e_no_dot _ BP) as NP.
    apply seg_pair_injective in T; try assumption. destruct T as [T1 T2].
    apply seg_pair_injective in T2; try assumption. destruct T2 as [T2 T3].
    rewrite <- T1 in *. rewrite <- T2 in *. rewrite <- T3 in *.
    rewrite b64_roundtrip in R1, P by assumption. inversion R1; inversion P; subst.
    repeat split; try assumption.
  Qed.
End C07.
