(* C07Proofs.v — the Impl model produces / accepts the octets of the RFC Spec. *)
From Coq Require Import Lia ZifyBool.
From Model Require Import Jws C07Spec.
From Gen Require Import Tables.
From Proofs Require Import B64Proofs IntCodecProofs JwsProofs C01Proofs C03Proofs.
Open Scope N_scope.
Open Scope string_scope.

(* how the extractor renders the parameters of an algorithm object (the ja_ fields) from the Spec row *)
Definition N_dec (n : N) : string :=
  if (n =? 32)%N then "32" else if (n =? 48)%N then "48" else if (n =? 64)%N then "64" else "?".
Definition impl_view (a : spec_alg) : string * string * string * (string * string * string) :=
  (sa_name a, sa_kty a,
   (match sa_kind a with
    | KNone => "none" | KHmac => "HMAC" | KPkcs => "RSA" | KPss => "PSS" | KEcdsa => "EC" | KEddsa => "EdDSA"
    end),
   (sa_hash a, sa_curve a,
    (match sa_kind a with
     | KPkcs => "PKCS1v15"
     | KPss => "PSS:mgf=" ++ sa_mgf a ++ ":salt=" ++ N_dec (sa_salt a)
     | _ => ""
     end))).
Definition row_view (r : jws_alg_row) :=
  (ja_name r, ja_key_type r, ja_family r, (ja_hash r, ja_curve r, ja_pad r)).

Lemma alg_params : map row_view jws_alg_table = map impl_view spec_table.
Proof. vm_compute. reflexivity. Qed.

(* the coordinate length L of the Spec is ceil(bits / 8) of the curve the key must have *)
Definition curve_len_ok : bool :=
  forallb (fun a => if (match sa_kind a with KEcdsa => true | _ => false end)
                    then existsb (fun c => String.eqb (cv_name c) (sa_curve a) && ((cv_bits c + 7) / 8 =? sa_L a)%N) ec_curves
                    else true) spec_table.
Lemma alg_curve_len : curve_len_ok = true.
Proof. vm_compute. reflexivity. Qed.
Close Scope string_scope.

Section C07.
  Variable json_loads : bytes -> res pv.
  Variable json_dumps : pv -> bytes.
  Variable mac : string -> N -> bytes -> res bytes.
  Variable pk_sign : jws_alg_row -> N -> bytes -> res bytes.
  Variable pk_verify : jws_alg_row -> N -> bytes -> bytes -> res bool.
  Variable ec_sign : jws_alg_row -> N -> bytes -> res (Z * Z).
  Variable ec_verify : jws_alg_row -> N -> bytes -> Z -> Z -> res bool.
  Variable choose : list key -> option key.

  (* signing: the token is  SI || '.' || BASE64URL(sig)  with SI the Spec signing input
     of the octets json.dumps produced, and sig the signature over SI *)
  Theorem sign_is_spec h payload r k tok :
    sign_compact json_dumps mac pk_sign ec_sign h payload r k = Ok tok ->
    exists sig, alg_sign mac pk_sign ec_sign r k (spec_signing_input (json_dumps (PDict h)) payload true) = Ok sig /\
                tok = spec_signing_input (json_dumps (PDict h)) payload true ++ 46 :: b64e sig.
  Proof.
    unfold sign_compact, spec_signing_input, json_b64encode. intro H. bstep H as sig S.
    inversion H. eauto.
  Qed.

  (* ECDSA signatures are I2OSP(r, L) || I2OSP(s, L) *)
  Theorem ec_sig_is_spec r k msg sig rr ss :
    fam_of r = FEc -> (0 < ec_len k)%nat ->
    ec_sign r (k_id k) msg = Ok (rr, ss) ->
    (0 <= rr)%Z -> (0 <= ss)%Z ->
    Z.to_N rr < 256 ^ N.of_nat (ec_len k) -> Z.to_N ss < 256 ^ N.of_nat (ec_len k) ->
    alg_sign mac pk_sign ec_sign r k msg = Ok sig ->
    sig = spec_ecdsa_sig (Z.to_N rr) (Z.to_N ss) (ec_len k).
  Proof.
    intros F HL ES Hr Hs Hrn Hsn. unfold alg_sign. rewrite F.
    destruct (mistyped FEc k); [discriminate|].
    destruct (negb (String.eqb (k_crv k) (ja_curve r))); [discriminate|].
    intro H. bstep H as u CK. rewrite ES in H. cbn [bind fst snd] in H.
    unfold ec_len in *.
    rewrite (encode_int_is_I2OSP_pos rr (k_bits k) HL Hr Hrn) in H.
    rewrite (encode_int_is_I2OSP_pos ss (k_bits k) HL Hs Hsn) in H.
    cbn [bind] in H. inversion H. reflexivity.
  Qed.

  (* HMAC uses the raw key octets: the tag is the MAC oracle on (hash of the row, key, message),
     nothing else enters *)
  Theorem hmac_raw_key r k msg :
    fam_of r = FHmac -> check_key_op k "sign" = Ok tt -> mistyped FHmac k = None ->
    alg_sign mac pk_sign ec_sign r k msg = mac (ja_hash r) (k_id k) msg.
  Proof. intros F C M. unfold alg_sign. rewrite F, C. cbn [bind]. rewrite M. reflexivity. Qed.

  (* verification: for a token whose header and payload segments are the BASE64URL
     encodings of hdr and payload (any JSON spelling of hdr: json_loads is the only
     link between the octets and the header), acceptance means that the signature
     verified over the Spec signing input of exactly these octets *)
  Theorem verify_is_spec_sound hdr payload sseg src algs o :
    bytes_ok hdr = true -> bytes_ok payload = true -> no_dot sseg = true ->
    deserialize_compact json_loads mac pk_verify ec_verify
      (b64e hdr ++ 46 :: b64e payload ++ 46 :: sseg) src algs = Ok o ->
    json_loads hdr = Ok (co_protected o) /\ co_payload o = payload /\
    verified mac pk_verify ec_verify (reg15 algs) src (co_protected o)
             (spec_signing_input hdr payload true) sseg.
  Proof.
    intros BH BP ND H. apply compact_sound_rg in H.
    destruct H as (T & A & B & C & (raw & R1 & R2) & P & V & _).
    pose proof (b64e_no_dot _ BH) as NH. pose proof (b64e_no_dot _ BP) as NP.
    apply seg_pair_injective in T; try assumption. destruct T as [T1 T2].
    apply seg_pair_injective in T2; try assumption. destruct T2 as [T2 T3].
    rewrite <- T1 in *. rewrite <- T2 in *. rewrite <- T3 in *.
    rewrite b64_roundtrip in R1, P by assumption. inversion R1; inversion P; subst.
    repeat split; try assumption.
  Qed.
End C07.

(* ---------------- completeness: what the Spec accepts, the Impl accepts ---------------- *)
Section Completeness.
  Variable json_loads : bytes -> res pv.
  Variable mac : string -> N -> bytes -> res bytes.
  Variable pk_verify : jws_alg_row -> N -> bytes -> bytes -> res bool.
  Variable ec_verify : jws_alg_row -> N -> bytes -> Z -> Z -> res bool.
  (* the Spec's primitives, indexed by the Spec row *)
  Variable S_pk_verify : spec_alg -> N -> bytes -> bytes -> res bool.
  Variable S_ec_verify : spec_alg -> N -> bytes -> Z -> Z -> res bool.
  (* same primitive for the same parameters (name, key type, family, hash, curve, padding) *)
  Hypothesis link_pk : forall r a kid m s, row_view r = impl_view a -> pk_verify r kid m s = S_pk_verify a kid m s.
  Hypothesis link_ec : forall r a kid m x y, row_view r = impl_view a -> ec_verify r kid m x y = S_ec_verify a kid m x y.

  Lemma view_fields r a : row_view r = impl_view a ->
    ja_key_type r = sa_kty a /\ ja_hash r = sa_hash a /\ ja_curve r = sa_curve a /\
    fam_of r = match sa_kind a with
               | KNone => FNone | KHmac => FHmac | KPkcs => FRsa | KPss => FPss | KEcdsa => FEc | KEddsa => FEd
               end.
  Proof.
    unfold row_view, impl_view. intro E. injection E. intros.
    split; [assumption|]. split; [assumption|]. split; [assumption|].
    unfold fam_of. match goal with H : ja_family r = _ |- _ => rewrite H end.
    destruct (sa_kind a); reflexivity.
  Qed.

  Lemma decode_int_os2ip s : s <> [] -> decode_int s = Ok (OS2IP s).
  Proof. destruct s; [congruence|reflexivity]. Qed.

  Theorem spec_sig_impl r a k msg sig :
    row_view r = impl_view a ->
    spec_sig_ok mac S_pk_verify S_ec_verify a (k_id k) (k_kty k) (k_crv k) msg sig ->
    check_key_op k "verify" = Ok tt ->
    (sa_kind a = KEcdsa -> (k_bits k + 7) / 8 = sa_L a) ->
    (* the key type of every row is the one its family expects (table fact, see table_kty) *)
    fam_kty_ok r = true ->
    alg_verify mac pk_verify ec_verify r k msg sig = Ok true.
  Proof.
    intros V (KT & S) CK EL FK. destruct (view_fields r a V) as (VK & VH & VC & VF).
    unfold fam_kty_ok in FK. rewrite VF in FK. unfold alg_verify. rewrite VF.
    assert (KTY : k_kty k = ja_key_type r) by congruence.
    destruct (sa_kind a) eqn:KD.
    - contradiction.
    - rewrite CK. cbn [bind]. unfold mistyped. apply String.eqb_eq in FK. rewrite KTY, FK. cbn.
      rewrite VH, S. cbn [bind]. rewrite (proj2 (beqb_eq sig sig) eq_refl). reflexivity.
    - rewrite CK. cbn [bind]. unfold mistyped. apply String.eqb_eq in FK. rewrite KTY, FK. cbn.
      rewrite (link_pk r a _ _ _ V). exact S.
    - rewrite CK. cbn [bind]. unfold mistyped. apply String.eqb_eq in FK. rewrite KTY, FK. cbn.
      rewrite (link_pk r a _ _ _ V). exact S.
    - destruct S as (CR & LP & LEN & EV).
      unfold mistyped. apply String.eqb_eq in FK. rewrite KTY, FK. cbn [String.eqb Ascii.eqb Bool.eqb].
      rewrite CR, VC, String.eqb_refl. cbn [negb].
      assert (LL : ec_len k = N.to_nat (sa_L a)) by (unfold ec_len; rewrite (EL eq_refl); reflexivity).
      rewrite LL, LEN, Nat.eqb_refl. cbn [negb].
      assert (LP' : (0 < N.to_nat (sa_L a))%nat) by lia.
      rewrite !decode_int_os2ip.
      + cbn [bind]. rewrite CK. cbn [bind]. rewrite (link_ec r a _ _ _ _ V). exact EV.
      + intro E. apply (f_equal (@length N)) in E. rewrite skipn_length in E. cbn in E. lia.
      + intro E. apply (f_equal (@length N)) in E. rewrite firstn_length in E. cbn in E. lia.
    - destruct S as (CR & PV).
      rewrite CK. cbn [bind]. unfold mistyped. apply String.eqb_eq in FK. rewrite KTY, FK. cbn.
      unfold ed_curve_ok. destruct CR as [-> | ->]; cbn; rewrite (link_pk r a _ _ _ V); exact PV.
  Qed.

  Lemma decode_int_inv s z : decode_int s = Ok z -> z = OS2IP s.
  Proof. destruct s; [discriminate|]. intro H. inversion H. reflexivity. Qed.

  (* ... and conversely: what the algorithm model accepts, the Spec accepts *)
  Theorem impl_sig_spec r a k msg sig :
    row_view r = impl_view a -> fam_kty_ok r = true ->
    (sa_kind a = KEcdsa -> k_crv k = sa_curve a -> (k_bits k + 7) / 8 = sa_L a /\ 0 < sa_L a) ->
    alg_verify mac pk_verify ec_verify r k msg sig = Ok true ->
    spec_sig_ok mac S_pk_verify S_ec_verify a (k_id k) (k_kty k) (k_crv k) msg sig.
  Proof.
    intros V FK EL. destruct (view_fields r a V) as (VK & VH & VC & VF).
    unfold fam_kty_ok in FK. rewrite VF in FK. unfold alg_verify, spec_sig_ok. rewrite VF.
    destruct (sa_kind a) eqn:KD; apply String.eqb_eq in FK || idtac.
    - discriminate.
    - intro H. bstep H as u CK. unfold mistyped in H.
      destruct (String.eqb (k_kty k) "oct") eqn:E; [|discriminate]. apply String.eqb_eq in E.
      bstep H as m M. inversion H as [Q]. apply beqb_eq in Q. subst m.
      split; [congruence|]. rewrite <- VH. exact M.
    - intro H. bstep H as u CK. unfold mistyped in H.
      destruct (String.eqb (k_kty k) "RSA") eqn:E; [|destruct (String.eqb (k_kty k) "oct"); discriminate].
      apply String.eqb_eq in E. split; [congruence|]. rewrite <- (link_pk r a _ _ _ V). exact H.
    - intro H. bstep H as u CK. unfold mistyped in H.
      destruct (String.eqb (k_kty k) "RSA") eqn:E; [|destruct (String.eqb (k_kty k) "oct"); discriminate].
      apply String.eqb_eq in E. split; [congruence|]. rewrite <- (link_pk r a _ _ _ V). exact H.
    - unfold mistyped.
      destruct (String.eqb (k_kty k) "EC") eqn:E; [|destruct (String.eqb (k_kty k) "OKP"); discriminate].
      apply String.eqb_eq in E.
      destruct (String.eqb (k_crv k) (ja_curve r)) eqn:C; cbn [negb]; [|discriminate].
      apply String.eqb_eq in C. destruct (EL eq_refl ltac:(congruence)) as [EL1 EL2].
      assert (LL : ec_len k = N.to_nat (sa_L a)) by (unfold ec_len; rewrite EL1; reflexivity).
      rewrite LL. destruct (Nat.eqb (length sig) (2 * N.to_nat (sa_L a))) eqn:LE; cbn [negb]; [|discriminate].
      apply Nat.eqb_eq in LE. intro H. bstep H as rr R. bstep H as ss S2. bstep H as u CK.
      apply decode_int_inv in R, S2. subst rr ss.
      split; [congruence|]. split; [congruence|]. split; [exact EL2|]. split; [exact LE|].
      rewrite <- (link_ec r a _ _ _ _ V). exact H.
    - intro H. bstep H as u CK. unfold mistyped in H.
      destruct (String.eqb (k_kty k) "OKP") eqn:E; [|discriminate]. apply String.eqb_eq in E.
      unfold ed_curve_ok in H.
      destruct (String.eqb (k_crv k) "Ed25519") eqn:C1; [apply String.eqb_eq in C1|
        destruct (String.eqb (k_crv k) "Ed448") eqn:C2; [apply String.eqb_eq in C2|discriminate]];
        cbn [orb] in H; (split; [congruence|]); (split; [auto|]); rewrite <- (link_pk r a _ _ _ V); exact H.
  Qed.

  (* compact serialization: for EVERY header octet string hdr (any JSON spelling) *)
  Theorem verify_is_spec_complete hdr h payload sseg sig src algs r a k :
    bytes_ok hdr = true -> bytes_ok payload = true -> no_dot sseg = true ->
    (* RFC 7515 5.2 steps 2-5: the header octets parse to an object with a valid set of members *)
    json_loads hdr = Ok (PDict h) -> check_header (reg15 algs) (PDict h) = Ok tt ->
    (* the algorithm named by the header, allowed by the application; its Spec row *)
    (exists algv, dget h s_alg = Some algv /\ get_alg (reg15 algs) algv = Ok r) ->
    row_view r = impl_view a ->
    (* the key resolves and may be used for verifying signatures *)
    guess_key src (PDict h) = Ok k -> check_use k = Ok tt -> check_key_op k "verify" = Ok tt ->
    (sa_kind a = KEcdsa -> (k_bits k + 7) / 8 = sa_L a) ->
    b64d sseg = Ok sig ->
    (* the Spec accepts *)
    spec_verify_compact mac S_pk_verify S_ec_verify a (k_id k) (k_kty k) (k_crv k) hdr payload sig ->
    exists o, deserialize_compact json_loads mac pk_verify ec_verify
                (b64e hdr ++ 46 :: b64e payload ++ 46 :: sseg) src algs = Ok o /\
              co_protected o = PDict h /\ co_payload o = payload.
  Proof.
    intros BH BP ND JL CH (algv & DA & GA) V GK CU CK EL BS SP.
    assert (FK : fam_kty_ok r = true).
    { pose proof table_kty as T. rewrite forallb_forall in T. apply T. eapply get_alg_in; exact GA. }
    pose proof (spec_sig_impl r a k _ sig V SP CK EL FK) as AV.
    destruct (view_fields r a V) as (VK & _). destruct SP as (KT & _).
    unfold deserialize_compact, deserialize_compact_rg, extract_compact.
    rewrite split3 by (try apply b64e_no_dot; assumption).
    unfold decode_header, json_b64decode. rewrite (b64_roundtrip hdr BH). cbn [bind]. rewrite JL.
    cbn [to_decode_error]. unfold dmem. rewrite DA. cbn [bind].
    rewrite (b64_roundtrip payload BP). cbn [bind].
    unfold validate_compact. cbn [co_protected co_payload co_hseg co_pseg co_sseg].
    rewrite CH. cbn [bind]. rewrite GK. cbn [bind]. rewrite CU. cbn [bind py_getitem_str]. rewrite DA. cbn [bind].
    rewrite GA. cbn [bind]. unfold check_key_type.
    replace (String.eqb (k_kty k) (ja_key_type r)) with true by (symmetry; apply String.eqb_eq; congruence).
    cbn [bind]. unfold verify_compact. cbn [co_hseg co_pseg co_sseg]. rewrite BS. cbn [bind].
    unfold spec_signing_input in AV. rewrite AV. cbn [bind]. eexists. split; [reflexivity|]. auto.
  Qed.

  (* flattened JSON serialization with a protected header (any spelling) and an
     optional unprotected header uh *)
  Theorem verify_flat_is_spec_complete hdr h uh payload sseg sig src algs r a k :
    bytes_ok hdr = true -> bytes_ok payload = true ->
    json_loads hdr = Ok (PDict h) ->
    let m := {| m_protected := Some (PDict h); m_header := uh |} in
    forall headers, member_headers m = Ok headers ->
    check_header (reg15 algs) (PDict headers) = Ok tt ->
    (exists algv, dget headers s_alg = Some algv /\ get_alg (reg15 algs) algv = Ok r) ->
    row_view r = impl_view a ->
    guess_key src (PDict headers) = Ok k -> check_use k = Ok tt -> check_key_op k "verify" = Ok tt ->
    (sa_kind a = KEcdsa -> (k_bits k + 7) / 8 = sa_L a) ->
    b64d sseg = Ok sig ->
    spec_verify_compact mac S_pk_verify S_ec_verify a (k_id k) (k_kty k) (k_crv k) hdr payload sig ->
    exists o, deserialize_json json_loads mac pk_verify ec_verify
                (JFlat (Some (b64e payload))
                   {| js_protected := Some (b64e hdr); js_header := uh; js_signature := Some sseg |}) src algs = Ok o /\
              jo_members o = [m] /\ jo_payload o = payload.
  Proof.
    intros BH BP JL m headers MH CH (algv & DA & GA) V GK CU CK EL BS SP.
    assert (FK : fam_kty_ok r = true).
    { pose proof table_kty as T. rewrite forallb_forall in T. apply T. eapply get_alg_in; exact GA. }
    pose proof (spec_sig_impl r a k _ sig V SP CK EL FK) as AV.
    destruct (view_fields r a V) as (VK & _). destruct SP as (KT & _).
    assert (AA : all_ascii (b64e hdr) = true).
    { unfold all_ascii. pose proof (b64e_alphabet _ BH) as AL.
      rewrite forallb_forall in *. intros c Hc. specialize (AL c Hc). apply in_alphabet_spec in AL. lia. }
    unfold deserialize_json, deserialize_json_rg, extract_flattened_json, decode_payload. cbn [of_opt bind].
    rewrite (b64_roundtrip payload BP). cbn [bind js_signature of_opt].
    unfold signature_to_member. cbn [js_protected js_header]. rewrite AA.
    unfold json_b64decode. rewrite (b64_roundtrip hdr BH). cbn [bind]. rewrite JL. cbn [bind is_dict].
    unfold verify_flattened_json. cbn [jo_members jo_sigs jo_pseg fst snd].
    unfold verify_signature. fold m. rewrite MH. cbn [bind]. rewrite CH. cbn [bind py_getitem_str]. rewrite DA. cbn [bind].
    rewrite GA. cbn [bind]. rewrite GK. cbn [bind]. rewrite CU. cbn [bind]. unfold check_key_type.
    replace (String.eqb (k_kty k) (ja_key_type r)) with true by (symmetry; apply String.eqb_eq; congruence).
    cbn [bind js_protected js_signature of_opt]. rewrite BS. cbn [bind].
    unfold spec_signing_input in AV. rewrite AV. cbn [bind]. eexists. split; [reflexivity|]. auto.
  Qed.

  Lemma row_has_spec r : In r jws_alg_table -> exists a, In a spec_table /\ row_view r = impl_view a.
  Proof.
    intro IN. apply (in_map row_view) in IN. rewrite alg_params in IN.
    apply in_map_iff in IN. destruct IN as (a & E & IA). exists a. auto.
  Qed.

  (* soundness in Spec terms: an accepted compact JWS is one the Spec accepts, for a
     row of the Spec table, the key the header resolves to and exactly the received
     header octets and payload *)
  Theorem verify_is_spec_sound_spec hdr payload sseg src algs o :
    bytes_ok hdr = true -> bytes_ok payload = true -> no_dot sseg = true ->
    (* EC keys have the coordinate size of their curve *)
    (forall k a, In a spec_table -> sa_kind a = KEcdsa -> k_crv k = sa_curve a ->
                 (k_bits k + 7) / 8 = sa_L a /\ 0 < sa_L a) ->
    deserialize_compact json_loads mac pk_verify ec_verify
      (b64e hdr ++ 46 :: b64e payload ++ 46 :: sseg) src algs = Ok o ->
    json_loads hdr = Ok (co_protected o) /\ co_payload o = payload /\
    exists a k sig, In a spec_table /\ guess_key src (co_protected o) = Ok k /\ b64d sseg = Ok sig /\
      py_getitem_str (co_protected o) s_alg = Ok (PStr (asc (sa_name a))) /\
      spec_verify_compact mac S_pk_verify S_ec_verify a (k_id k) (k_kty k) (k_crv k) hdr payload sig.
  Proof.
    intros BH BP ND KS H.
    destruct (verify_is_spec_sound json_loads mac pk_verify ec_verify hdr payload sseg src algs o BH BP ND H)
      as (JL & P & (algv & r & k & sig & CH & GA & GR & GK & CU & BS & AV)).
    split; [exact JL|]. split; [exact P|].
    pose proof (get_alg_in _ _ _ GR) as IN. destruct (row_has_spec r IN) as (a & IA & V).
    assert (FK : fam_kty_ok r = true).
    { pose proof table_kty as T. rewrite forallb_forall in T. apply T. exact IN. }
    exists a, k, sig. repeat (split; [assumption|]). split.
    - (* the name in the header is the name of the row *)
      unfold get_alg in GR. destruct algv; try discriminate. unfold find_alg in GR.
      destruct (find (fun r0 => str_eqb (asc (ja_name r0)) s) jws_alg_table) as [r'|] eqn:F; [|discriminate].
      pose proof (find_some _ _ F) as [_ E]. apply str_eqb_eq in E.
      match type of GR with (if ?c then _ else _) = _ => destruct c end; [|discriminate].
      inversion GR; subst r'. rewrite GA. unfold row_view, impl_view in V. injection V. intros. congruence.
    - apply (impl_sig_spec r a k _ sig V FK); [|exact AV].
      intros KD CR. apply KS; assumption.
  Qed.
End Completeness.
