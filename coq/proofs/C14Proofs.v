(* C14Proofs.v — lemmas behind props/C14.v *)
From Coq Require Import Lia ZifyBool.
From Model Require Import Base PyVal TableTypes C14KeySet C14Spec.
From Gen Require Import Tables.
Open Scope N_scope.

(* ------------------------------------------------------------------ *)
(* generic list facts                                                  *)
(* ------------------------------------------------------------------ *)
Lemma find_some_split {A} (p : A -> bool) (l : list A) (x : A) :
  find p l = Some x <->
  exists pre post, l = pre ++ x :: post /\ p x = true /\ Forall (fun y => p y = false) pre.
Proof.
  induction l as [|a l IH]; simpl.
  - split; [discriminate|]. intros (pre & post & E & _). destruct pre; discriminate.
  - destruct (p a) eqn:Pa.
    + split.
      * intro E. inversion E; subst. exists [], l. repeat split; auto.
      * intros (pre & post & E & Px & F). destruct pre as [|b pre]; simpl in E.
        -- inversion E; subst. reflexivity.
        -- inversion E; subst. inversion F; subst. congruence.
    + rewrite IH. split.
      * intros (pre & post & E & Px & F). exists (a :: pre), post. subst l. repeat split; auto.
      * intros (pre & post & E & Px & F). destruct pre as [|b pre]; simpl in E.
        -- inversion E; subst. congruence.
        -- inversion E; subst. inversion F; subst. exists pre, post. repeat split; auto.
Qed.

Lemma find_none_forall {A} (p : A -> bool) (l : list A) :
  find p l = None <-> Forall (fun y => p y = false) l.
Proof.
  induction l as [|a l IH]; simpl.
  - split; auto.
  - destruct (p a) eqn:Pa.
    + split; [discriminate|]. intro F. inversion F; subst. congruence.
    + rewrite IH. split; intro F; [constructor; auto | inversion F; auto].
Qed.

(* ------------------------------------------------------------------ *)
(* kid comparison                                                      *)
(* ------------------------------------------------------------------ *)
Lemma py_eq_kid k v : py_eq (kid_pv k) v = true <-> kid_pv k = v.
Proof.
  unfold kid_pv. destruct (k_kid k) as [s|].
  - destruct v; simpl; try (split; [discriminate | intro E; discriminate E]).
    rewrite str_eqb_eq. split; congruence.
  - destruct v; simpl; split; try discriminate; auto.
Qed.

Lemma py_eq_kid_false k v : py_eq (kid_pv k) v = false <-> kid_pv k <> v.
Proof.
  split.
  - intros H E. apply py_eq_kid in E. congruence.
  - intro H. destruct (py_eq (kid_pv k) v) eqn:E; auto. apply py_eq_kid in E. contradiction.
Qed.

Lemma kid_pv_str k s : kid_pv k = PStr s <-> k_kid k = Some s.
Proof. unfold kid_pv. destruct (k_kid k); split; congruence. Qed.

Lemma kid_pv_none k : kid_pv k = PNone <-> k_kid k = None.
Proof. unfold kid_pv. destruct (k_kid k); split; congruence. Qed.

(* ------------------------------------------------------------------ *)
(* get_by_kid                                                          *)
(* ------------------------------------------------------------------ *)
Definition find_kid (ks : list key) (kid : pv) : res key :=
  match find (fun k => py_eq (kid_pv k) kid) ks with
  | Some k => Ok k
  | None => Err (EJose InvalidKeyIdError)
  end.

Lemma find_kid_ok ks kid k : find_kid ks kid = Ok k <-> first_with ks kid k.
Proof.
  unfold find_kid, first_with.
  destruct (find (fun k0 => py_eq (kid_pv k0) kid) ks) as [k1|] eqn:F.
  - split.
    + intro E. inversion E; subst k1. apply find_some_split in F.
      destruct F as (pre & post & E1 & P & Fa). exists pre, post. repeat split; auto.
      * apply py_eq_kid; auto.
      * eapply Forall_impl; [|exact Fa]. intros a Ha. apply py_eq_kid_false; auto.
    + intros (pre & post & E1 & P & Fa).
      assert (find (fun k0 => py_eq (kid_pv k0) kid) ks = Some k) as F2.
      { apply find_some_split. exists pre, post. repeat split; auto.
        - apply py_eq_kid; auto.
        - eapply Forall_impl; [|exact Fa]. intros a Ha. apply py_eq_kid_false; auto. }
      congruence.
  - split; [discriminate|].
    intros (pre & post & E1 & P & Fa). apply find_none_forall in F.
    rewrite Forall_forall in F. specialize (F k).
    assert (In k ks) by (subst ks; apply in_or_app; right; left; reflexivity).
    apply F in H. apply py_eq_kid_false in H. contradiction.
Qed.

Lemma find_kid_err ks kid e :
  find_kid ks kid = Err e <-> e = EJose InvalidKeyIdError /\ Forall (fun k => kid_pv k <> kid) ks.
Proof.
  unfold find_kid. destruct (find (fun k0 => py_eq (kid_pv k0) kid) ks) as [k1|] eqn:F.
  - split; [discriminate|]. intros [_ Fa]. apply find_some_split in F.
    destruct F as (pre & post & E1 & P & _). rewrite Forall_forall in Fa.
    assert (In k1 ks) by (subst ks; apply in_or_app; right; left; reflexivity).
    apply Fa in H. apply py_eq_kid in P. contradiction.
  - apply find_none_forall in F. split.
    + intro E. inversion E. split; auto.
      eapply Forall_impl; [|exact F]. intros a Ha. apply py_eq_kid_false; auto.
    + intros [E _]. subst. reflexivity.
Qed.

Lemma get_by_kid_cases ks kid :
  (kid = PNone /\ exists k, ks = [k] /\ get_by_kid ks kid = Ok k) \/
  ((kid = PNone -> forall k, ks <> [k]) /\ get_by_kid ks kid = find_kid ks kid).
Proof.
  destruct kid; try (right; split; [discriminate | destruct ks as [|? [|? ?]]; reflexivity]).
  destruct ks as [|k1 [|k2 r]].
  - right. split; [intros _ k; discriminate | reflexivity].
  - left. split; auto. exists k1. split; reflexivity.
  - right. split; [intros _ k; discriminate | reflexivity].
Qed.

Theorem lookup_iff ks kid k :
  get_by_kid ks kid = Ok k <-> (kid = PNone /\ ks = [k]) \/ first_with ks kid k.
Proof.
  destruct (get_by_kid_cases ks kid) as [(E & k1 & Eks & G) | (N & G)].
  - rewrite G. subst. split.
    + intro H. inversion H; subst. left. auto.
    + intros [[_ H] | (pre & post & H & _)].
      * inversion H; subst; reflexivity.
      * destruct pre as [|a [|b pre]]; simpl in H; inversion H; subst; reflexivity.
  - rewrite G, find_kid_ok. split; [auto|].
    intros [[E H] | H]; auto. exfalso. exact (N E k H).
Qed.

Theorem lookup_err ks kid e :
  get_by_kid ks kid = Err e <->
  e = EJose InvalidKeyIdError /\ (kid = PNone -> forall k, ks <> [k]) /\
  Forall (fun k => kid_pv k <> kid) ks.
Proof.
  destruct (get_by_kid_cases ks kid) as [(E & k1 & Eks & G) | (N & G)].
  - rewrite G. split; [discriminate|]. intros (_ & H & _). exfalso. exact (H E k1 Eks).
  - rewrite G, find_kid_err. tauto.
Qed.

Lemma Forall_has_kid_in ks k : Forall has_kid ks -> In k ks -> k_kid k <> None.
Proof. intros F I. rewrite Forall_forall in F. exact (F k I). Qed.

Theorem no_kid_single ks k :
  Forall has_kid ks -> (get_by_kid ks PNone = Ok k <-> ks = [k]).
Proof.
  intro F. rewrite lookup_iff. split.
  - intros [[_ H] | (pre & post & E & K & _)]; auto.
    exfalso. apply kid_pv_none in K.
    apply (Forall_has_kid_in ks k F); auto. subst ks. apply in_or_app; right; left; reflexivity.
  - intro E. left; auto.
Qed.

Theorem no_kid_not_single ks :
  Forall has_kid ks -> length ks <> 1%nat -> get_by_kid ks PNone = Err (EJose InvalidKeyIdError).
Proof.
  intros F L. apply lookup_err. repeat split.
  - intros _ k E. subst. apply L. reflexivity.
  - rewrite Forall_forall in *. intros k I K. apply kid_pv_none in K. exact (F k I K).
Qed.

Theorem lookup_not_string ks kid :
  kid <> PNone -> (forall s, kid <> PStr s) -> get_by_kid ks kid = Err (EJose InvalidKeyIdError).
Proof.
  intros N S. apply lookup_err. repeat split.
  - intro E; contradiction.
  - rewrite Forall_forall. intros k _ K. unfold kid_pv in K.
    destruct (k_kid k); [exact (S _ (eq_sym K)) | exact (N (eq_sym K))].
Qed.

Lemma NoDup_map_split {A B} (f : A -> B) pre x post :
  NoDup (map f (pre ++ x :: post)) -> forall y, In y pre -> f y <> f x.
Proof.
  intros ND y I E. rewrite map_app in ND. simpl in ND.
  apply NoDup_remove_2 in ND. apply ND. apply in_or_app. left.
  rewrite <- E. apply in_map. exact I.
Qed.

Lemma NoDup_map_inj {A B} (f : A -> B) l :
  NoDup (map f l) -> forall x y, In x l -> In y l -> f x = f y -> x = y.
Proof.
  induction l as [|a l IH]; simpl; intros ND x y Ix Iy E; [contradiction|].
  inversion ND; subst.
  destruct Ix as [Ex|Ix], Iy as [Ey|Iy]; subst; auto.
  - exfalso. apply H1. rewrite E. apply in_map; auto.
  - exfalso. apply H1. rewrite <- E. apply in_map; auto.
Qed.

Theorem lookup_unique ks s k :
  NoDup (map k_kid ks) ->
  (get_by_kid ks (PStr s) = Ok k <-> In k ks /\ k_kid k = Some s).
Proof.
  intro ND. rewrite lookup_iff. split.
  - intros [[E _] | (pre & post & E & K & _)]; [discriminate|].
    split; [subst ks; apply in_or_app; right; left; reflexivity | apply kid_pv_str; auto].
  - intros [I K]. right. apply in_split in I. destruct I as (pre & post & E).
    exists pre, post. repeat split; auto.
    + apply kid_pv_str; auto.
    + rewrite Forall_forall. intros y Iy Ky. apply kid_pv_str in Ky.
      subst ks. apply (NoDup_map_split k_kid pre k post ND y Iy). congruence.
Qed.

Theorem lookup_unique_the ks s k :
  NoDup (map k_kid ks) -> get_by_kid ks (PStr s) = Ok k ->
  forall k', In k' ks -> k_kid k' = Some s -> k' = k.
Proof.
  intros ND G k' I K. apply (lookup_unique ks s k ND) in G. destruct G as [I2 K2].
  apply (NoDup_map_inj k_kid ks ND); auto. congruence.
Qed.

(* ------------------------------------------------------------------ *)
(* KeySet construction                                                 *)
(* ------------------------------------------------------------------ *)
Lemma ensure_kid_has k : has_kid (ensure_kid k).
Proof. unfold has_kid, ensure_kid. destruct (k_kid k) eqn:E; simpl; congruence. Qed.

Lemma ensure_kid_fixed k : has_kid k -> ensure_kid k = k.
Proof. unfold has_kid, ensure_kid. destruct (k_kid k); [reflexivity | intro H; contradiction]. Qed.

Lemma ensure_kid_idem k : ensure_kid (ensure_kid k) = ensure_kid k.
Proof. apply ensure_kid_fixed, ensure_kid_has. Qed.

Lemma ensure_kid_kid k :
  k_kid (ensure_kid k) = Some (match k_kid k with Some s => s | None => k_thumb k end).
Proof. unfold ensure_kid. destruct (k_kid k) eqn:E; simpl; auto. Qed.

Lemma ensure_kid_rest k :
  k_kty (ensure_kid k) = k_kty k /\ k_id (ensure_kid k) = k_id k /\ k_thumb (ensure_kid k) = k_thumb k.
Proof. unfold ensure_kid. destruct (k_kid k); simpl; auto. Qed.

Theorem init_has_kid ks : Forall has_kid (keyset_init ks).
Proof. unfold keyset_init. rewrite Forall_forall. intros k I. apply in_map_iff in I.
  destruct I as (k0 & E & _). subst. apply ensure_kid_has. Qed.

Theorem init_kids ks :
  map k_kid (keyset_init ks) =
  map (fun k => Some (match k_kid k with Some s => s | None => k_thumb k end)) ks.
Proof. unfold keyset_init. rewrite map_map. apply map_ext. intro; apply ensure_kid_kid. Qed.

Theorem init_rest ks :
  map k_kty (keyset_init ks) = map k_kty ks /\ map k_id (keyset_init ks) = map k_id ks /\
  length (keyset_init ks) = length ks.
Proof.
  unfold keyset_init. rewrite !map_map, map_length. repeat split; apply map_ext; intro; apply ensure_kid_rest.
Qed.

Lemma init_fixed ks : Forall has_kid ks -> keyset_init ks = ks.
Proof.
  unfold keyset_init. induction 1; simpl; auto. rewrite ensure_kid_fixed, IHForall; auto.
Qed.

Theorem init_idem ks : keyset_init (keyset_init ks) = keyset_init ks.
Proof. apply init_fixed, init_has_kid. Qed.

(* ------------------------------------------------------------------ *)
(* export / import                                                     *)
(* ------------------------------------------------------------------ *)
Lemma import_export_key k x : import_key (key_as_dict k) = Ok x -> x = ensure_kid k.
Proof.
  unfold import_key, key_as_dict. cbn [e_kty e_kid e_id e_thumb].
  destruct (existsb (String.eqb (k_kty (ensure_kid k))) key_types); [|discriminate].
  intro E. inversion E. destruct (ensure_kid k); reflexivity.
Qed.

Lemma import_export_key_ok k :
  In (k_kty k) key_types -> import_key (key_as_dict k) = Ok (ensure_kid k).
Proof.
  intro I. unfold import_key, key_as_dict. cbn [e_kty e_kid e_id e_thumb].
  destruct (ensure_kid_rest k) as (T & _). rewrite T.
  assert (existsb (String.eqb (k_kty k)) key_types = true) as E.
  { apply existsb_exists. exists (k_kty k). split; auto. apply String.eqb_refl. }
  rewrite E. rewrite <- T. destruct (ensure_kid k); reflexivity.
Qed.

Lemma map_res_export ks l :
  map_res import_key (keyset_as_dict ks) = Ok l -> l = keyset_init ks.
Proof.
  revert l. induction ks as [|k ks IH]; simpl; intros l E.
  - inversion E; reflexivity.
  - destruct (import_key (key_as_dict k)) as [x|] eqn:E1; simpl in E; [|discriminate].
    destruct (map_res import_key (keyset_as_dict ks)) as [r|] eqn:E2; simpl in E; [|discriminate].
    inversion E. apply import_export_key in E1. subst x. rewrite (IH r eq_refl). reflexivity.
Qed.

Theorem set_rt_inv ks pub :
  import_key_set (keyset_as_dict ks) = Ok pub -> pub = keyset_init ks.
Proof.
  unfold import_key_set. destruct (map_res import_key (keyset_as_dict ks)) as [l|] eqn:E; simpl; [|discriminate].
  intro H. inversion H. apply map_res_export in E. subst l. apply init_idem.
Qed.

Theorem set_rt ks :
  Forall (fun k => In (k_kty k) key_types) ks ->
  import_key_set (keyset_as_dict ks) = Ok (keyset_init ks).
Proof.
  intro F. unfold import_key_set.
  assert (map_res import_key (keyset_as_dict ks) = Ok (keyset_init ks)) as E.
  { induction F as [|k ks Hk F IH]; simpl; auto.
    rewrite (import_export_key_ok k Hk). simpl. rewrite IH. reflexivity. }
  rewrite E. simpl. rewrite init_idem. reflexivity.
Qed.

Lemma map_res_import es l :
  map_res import_key es = Ok l ->
  map k_kid l = map e_kid es /\ map k_id l = map e_id es /\ map (fun k => Some (k_kty k)) l = map e_kty es.
Proof.
  revert l. induction es as [|e es IH]; simpl; intros l E.
  - inversion E; simpl; auto.
  - destruct (import_key e) as [x|] eqn:E1; simpl in E; [|discriminate].
    destruct (map_res import_key es) as [r|] eqn:E2; simpl in E; [|discriminate].
    inversion E. destruct (IH r eq_refl) as (A & B & C). simpl.
    unfold import_key in E1. destruct (e_kty e) as [t|] eqn:T; [|discriminate].
    destruct (existsb (String.eqb t) key_types); [|discriminate]. inversion E1; simpl.
    rewrite A, B, C. auto.
Qed.

Theorem import_invariant es ks :
  import_key_set es = Ok ks ->
  Forall has_kid ks /\ length ks = length es /\ map k_id ks = map e_id es /\
  map (fun k => Some (k_kty k)) ks = map e_kty es /\
  (forall i e k, nth_error es i = Some e -> nth_error ks i = Some k ->
                 forall s, e_kid e = Some s -> k_kid k = Some s).
Proof.
  unfold import_key_set. destruct (map_res import_key es) as [l|] eqn:E; simpl; [|discriminate].
  intro H. inversion H. subst ks. clear H.
  destruct (map_res_import es l E) as (A & B & C).
  destruct (init_rest l) as (T & I & L).
  split; [apply init_has_kid|]. split.
  { rewrite L. rewrite <- (map_length k_id l), B, map_length. reflexivity. }
  split; [congruence|]. split.
  { rewrite <- C. rewrite <- (map_map k_kty Some), <- (map_map k_kty Some l), T. reflexivity. }
  intros i e k Ne Nk s Es.
  unfold keyset_init in Nk. rewrite nth_error_map in Nk.
  destruct (nth_error l i) as [k0|] eqn:N0; simpl in Nk; [|discriminate]. inversion Nk.
  assert (k_kid k0 = e_kid e) as K.
  { assert (nth_error (map k_kid l) i = Some (k_kid k0)) as X by (rewrite nth_error_map, N0; reflexivity).
    rewrite A, nth_error_map, Ne in X. simpl in X. congruence. }
  rewrite ensure_kid_kid, K, Es. reflexivity.
Qed.

(* ------------------------------------------------------------------ *)
(* dictionaries and merged headers                                     *)
(* ------------------------------------------------------------------ *)
Lemma str_eqb_sym a b : str_eqb a b = str_eqb b a.
Proof.
  destruct (str_eqb a b) eqn:E.
  - apply str_eqb_eq in E. subst. symmetry. apply str_eqb_refl.
  - destruct (str_eqb b a) eqn:E2; auto. apply str_eqb_eq in E2. subst.
    rewrite str_eqb_refl in E. discriminate.
Qed.

Lemma dget_not_mem {A} (d : list (str * A)) k :
  str_mem k (dkeys d) = false -> dget d k = None.
Proof.
  induction d as [|[k' v] d IH]; simpl; auto.
  intro H. apply orb_false_iff in H. destruct H as [H1 H2]. rewrite H1. auto.
Qed.

Lemma dget_fold_dset {A} (e d : list (str * A)) k :
  keys_unique (dkeys e) = true ->
  dget (fold_left (fun acc kv => dset acc (fst kv) (snd kv)) e d) k =
  match dget e k with Some v => Some v | None => dget d k end.
Proof.
  revert d. induction e as [|[k1 v1] e IH]; simpl; intros d U; auto.
  apply andb_true_iff in U. destruct U as [U1 U2]. rewrite (IH _ U2).
  destruct (str_eqb k1 k) eqn:E.
  - apply str_eqb_eq in E. subst k1.
    rewrite dget_not_mem by (apply negb_true_iff; exact U1).
    apply dget_dset_same.
  - destruct (dget e k); auto. apply dget_dset_other. apply str_eqb_neq; auto.
Qed.

Lemma dget_dupdate {A} (d e : list (str * A)) k :
  keys_unique (dkeys e) = true ->
  dget (dupdate d e) k = orelse (dget e k) (dget d k).
Proof. intro U. unfold dupdate, orelse. rewrite dget_fold_dset by auto. destruct (dget e k); auto. Qed.

Theorem headers_dget g k : guest_wf g -> dget (headers g) k = merged_get g k.
Proof.
  intros (Wp & Wu & Wh). unfold headers, merged_get.
  destruct (g_kind g); auto.
  - rewrite !dget_dupdate by assumption. simpl. destruct (dget (tr (g_hdr g)) k); simpl; auto.
    destruct (dget (tr (g_prot g)) k); auto.
  - rewrite !dget_dupdate by assumption. simpl.
    destruct (dget (tr (g_hdr g)) k); simpl; auto.
    destruct (dget (tr (g_unprot g)) k); simpl; auto.
    destruct (dget (tr (g_prot g)) k); auto.
Qed.

Lemma str_mem_dset {A} (d : list (str * A)) k v x :
  str_mem x (dkeys (dset d k v)) = str_mem x (dkeys d) || str_eqb k x.
Proof.
  induction d as [|[k' v'] d IH]; simpl.
  - rewrite orb_false_r. reflexivity.
  - destruct (str_eqb k' k) eqn:E; simpl.
    + apply str_eqb_eq in E. subst k'.
      destruct (str_eqb k x); simpl; auto. rewrite orb_false_r. reflexivity.
    + rewrite IH. rewrite orb_assoc. reflexivity.
Qed.

Lemma keys_unique_dset {A} (d : list (str * A)) k v :
  keys_unique (dkeys d) = true -> keys_unique (dkeys (dset d k v)) = true.
Proof.
  induction d as [|[k' v'] d IH]; simpl; auto.
  intro U. apply andb_true_iff in U. destruct U as [U1 U2].
  destruct (str_eqb k' k) eqn:E; simpl.
  - rewrite U1, U2. reflexivity.
  - rewrite str_mem_dset, (IH U2). apply negb_true_iff in U1. rewrite U1.
    rewrite str_eqb_sym, E. reflexivity.
Qed.

Lemma add_header_wf g k v : guest_wf g -> guest_wf (add_header g k v).
Proof.
  intros (Wp & Wu & Wh). unfold add_header, guest_wf, hdr_wf in *.
  destruct (g_kind g); simpl; repeat split; auto; apply keys_unique_dset; auto.
Qed.

Lemma add_header_kind g k v : g_kind (add_header g k v) = g_kind g.
Proof. unfold add_header. destruct (g_kind g); reflexivity. Qed.

Theorem add_header_written g k v : written_at (add_header g k v) k v.
Proof.
  unfold written_at. rewrite add_header_kind. unfold add_header.
  destruct (g_kind g); simpl; apply dget_dset_same.
Qed.

Theorem add_header_merged g k v : guest_wf g -> hget (headers (add_header g k v)) k = v.
Proof.
  intro W. unfold hget. rewrite headers_dget by (apply add_header_wf; auto).
  pose proof (add_header_written g k v) as Wr. unfold written_at, merged_get in *.
  destruct (g_kind (add_header g k v)); rewrite Wr; reflexivity.
Qed.

Theorem add_header_other g k v k2 :
  guest_wf g -> k <> k2 -> dget (headers (add_header g k v)) k2 = dget (headers g) k2.
Proof.
  intros W N. rewrite headers_dget by (apply add_header_wf; auto). rewrite headers_dget by auto.
  unfold merged_get. rewrite add_header_kind. unfold add_header.
  destruct (g_kind g); simpl; rewrite dget_dset_other by auto; reflexivity.
Qed.

Theorem add_header_protected_untouched g k v :
  (g_kind g = GJwsMember \/ g_kind g = GJweJson) ->
  g_prot (add_header g k v) = g_prot g /\ g_unprot (add_header g k v) = g_unprot g.
Proof. unfold add_header. intros [E|E]; rewrite E; simpl; auto. Qed.

(* ------------------------------------------------------------------ *)
(* pick_random_key                                                     *)
(* ------------------------------------------------------------------ *)
Lemma kty_in_In k kts : kty_in k kts = true <-> In (k_kty k) kts.
Proof.
  unfold kty_in. rewrite existsb_exists. split.
  - intros (x & I & E). apply String.eqb_eq in E. subst. auto.
  - intro I. exists (k_kty k). split; auto. apply String.eqb_refl.
Qed.

Theorem pick_spec tbl ch ks alg k :
  chooser_ok ch -> pick_random_key tbl ch ks alg = Ok (Some k) ->
  In k ks /\ forall kts, algkeys_get tbl alg = Ok (Some kts) -> kts <> [] -> In (k_kty k) kts.
Proof.
  intros Hch. unfold pick_random_key, pick_candidates.
  destruct (algkeys_get tbl alg) as [o|] eqn:A; [|discriminate].
  destruct o as [[|t ts]|]; cbn [bind].
  - destruct ks as [|x r]; [discriminate|]. intro E. inversion E.
    split; [apply Hch|]. intros kts E2. inversion E2; subst. intro N; contradiction.
  - destruct (filter (fun k0 => kty_in k0 (t :: ts)) ks) as [|x r] eqn:C; [discriminate|].
    intro E. inversion E. pose proof (Hch x r) as I. rewrite <- C in I.
    apply filter_In in I. destruct I as [I1 I2]. split; auto.
    intros kts E2 _. inversion E2; subst. apply kty_in_In; auto.
  - destruct ks as [|x r]; [discriminate|]. intro E. inversion E.
    split; [apply Hch|]. intros kts E2. discriminate.
Qed.

Theorem pick_none tbl ch ks alg :
  pick_random_key tbl ch ks alg = Ok None ->
  ks = [] \/ exists kts, algkeys_get tbl alg = Ok (Some kts) /\ kts <> [] /\
                         Forall (fun k => ~ In (k_kty k) kts) ks.
Proof.
  unfold pick_random_key, pick_candidates.
  destruct (algkeys_get tbl alg) as [o|] eqn:A; [|discriminate].
  destruct o as [[|t ts]|]; cbn [bind]; try (destruct ks; [auto | discriminate]).
  destruct (filter (fun k0 => kty_in k0 (t :: ts)) ks) eqn:F; [|discriminate].
  intros _. right. exists (t :: ts). repeat split; auto; [discriminate|].
  rewrite Forall_forall. intros k I H. apply kty_in_In in H.
  assert (In k (filter (fun k0 => kty_in k0 (t :: ts)) ks)) as X by (apply filter_In; auto).
  rewrite F in X. contradiction.
Qed.


(* the candidates of pick_random_key are determined by the key types alone:
   any other attribute of a key (private or public-only, kid, material) is
   irrelevant *)
Lemma filter_map_comm {A} (f : A -> A) (p : A -> bool) (l : list A) :
  (forall x, p (f x) = p x) -> filter p (map f l) = map f (filter p l).
Proof.
  intro H. induction l as [|a l IH]; simpl; auto. rewrite H. destruct (p a); simpl; rewrite IH; reflexivity.
Qed.

Theorem pick_candidates_kty_only tbl (f : key -> key) ks alg :
  (forall k, k_kty (f k) = k_kty k) ->
  pick_candidates tbl (map f ks) alg =
  match pick_candidates tbl ks alg with Ok c => Ok (map f c) | Err e => Err e end.
Proof.
  intro H. unfold pick_candidates. destruct (algkeys_get tbl alg) as [o|]; simpl; auto.
  destruct o as [[|t ts]|]; auto.
  rewrite filter_map_comm; auto. intro x. unfold kty_in. rewrite H. reflexivity.
Qed.

Theorem pick_candidates_complete tbl ks alg c kts :
  pick_candidates tbl ks alg = Ok c -> algkeys_get tbl alg = Ok (Some kts) -> kts <> [] ->
  forall k, In k c <-> In k ks /\ In (k_kty k) kts.
Proof.
  unfold pick_candidates. intros P A N k. rewrite A in P. simpl in P.
  destruct kts as [|t ts]; [contradiction|]. inversion P. rewrite filter_In. rewrite (kty_in_In k (t :: ts)). tauto.
Qed.

Theorem pick_some tbl ch ks alg kts k0 :
  algkeys_get tbl alg = Ok (Some kts) -> kts <> [] -> In k0 ks -> In (k_kty k0) kts ->
  exists k, pick_random_key tbl ch ks alg = Ok (Some k).
Proof.
  intros A N I T. unfold pick_random_key.
  destruct (pick_candidates tbl ks alg) as [c|] eqn:P.
  - assert (In k0 c) as Ic by (apply (pick_candidates_complete tbl ks alg c kts P A N); auto).
    destruct c as [|x r]; [contradiction|]. simpl. eauto.
  - unfold pick_candidates in P. rewrite A in P. discriminate.
Qed.

Lemma ch_idx_ok i : chooser_ok (ch_idx i).
Proof.
  unfold chooser_ok, ch_idx. intros x r.
  destruct (Nat.ltb i (length (x :: r))) eqn:L.
  - apply Nat.ltb_lt in L. apply nth_In; auto.
  - apply Nat.ltb_ge in L. rewrite nth_overflow by auto. left; reflexivity.
Qed.

(* ------------------------------------------------------------------ *)
(* guess_key                                                           *)
(* ------------------------------------------------------------------ *)
Theorem guess_callable tbl ch f g ur :
  guess_key tbl ch (KFCall f) g ur = guess_key tbl ch (KFDirect (f g)) g ur.
Proof. reflexivity. Qed.

Theorem guess_consume tbl ch kf g ks :
  resolve kf g = KSSet ks ->
  guess_key tbl ch kf g false =
  match get_by_kid ks (hget (headers g) s_kid) with Ok k => Ok (k, g) | Err e => Err e end.
Proof. intro R. unfold guess_key. rewrite R, andb_false_r. reflexivity. Qed.

Theorem guess_named tbl ch kf g ks ur :
  resolve kf g = KSSet ks -> py_truth (hget (headers g) s_kid) = true ->
  guess_key tbl ch kf g ur =
  match get_by_kid ks (hget (headers g) s_kid) with Ok k => Ok (k, g) | Err e => Err e end.
Proof. intros R T. unfold guess_key. rewrite R, T. reflexivity. Qed.

Theorem guess_single_key tbl ch kf g k ur :
  resolve kf g = KSKey k -> guess_key tbl ch kf g ur = Ok (k, g).
Proof. intro R. unfold guess_key. rewrite R. reflexivity. Qed.

Theorem guess_pick tbl ch kf g ks k g' :
  chooser_ok ch -> resolve kf g = KSSet ks ->
  py_truth (hget (headers g) s_kid) = false ->
  guess_key tbl ch kf g true = Ok (k, g') ->
  exists k0 a, dget (headers g) s_alg = Some a /\ In k0 ks /\ k = ensure_kid k0 /\
    (forall kts, algkeys_get tbl a = Ok (Some kts) -> kts <> [] -> In (k_kty k) kts) /\
    has_kid k /\ g' = set_kid g (kid_pv k) /\ written_at g' s_kid (kid_pv k).
Proof.
  intros Hch R T. unfold guess_key. rewrite R, T. simpl.
  destruct (dget (headers g) s_alg) as [a|] eqn:A; simpl; [|discriminate].
  destruct (pick_random_key tbl ch ks a) as [[k0|]|] eqn:P; simpl; try discriminate.
  intro E. inversion E. subst g'. clear E.
  destruct (pick_spec tbl ch ks a k0 Hch P) as [I K].
  exists k0, a. repeat split; auto.
  - intros kts E1 E2. destruct (ensure_kid_rest k0) as (Tk & _). rewrite Tk. auto.
  - apply ensure_kid_has.
  - apply add_header_written.
Qed.

Theorem guess_pick_merged tbl ch kf g ks k g' :
  chooser_ok ch -> guest_wf g -> resolve kf g = KSSet ks ->
  py_truth (hget (headers g) s_kid) = false ->
  guess_key tbl ch kf g true = Ok (k, g') ->
  guest_wf g' /\ hget (headers g') s_kid = kid_pv k /\
  (forall k2, k2 <> s_kid -> dget (headers g') k2 = dget (headers g) k2).
Proof.
  intros Hch W R T G.
  destruct (guess_pick tbl ch kf g ks k g' Hch R T G) as (k0 & a & _ & _ & _ & _ & _ & E & _).
  subst g'. unfold set_kid. split; [apply add_header_wf; auto|]. split.
  - apply add_header_merged; auto.
  - intros k2 N. apply add_header_other; auto.
Qed.

Theorem guess_errors tbl ch kf g ur e :
  guess_key tbl ch kf g ur = Err e ->
  e = EJose InvalidKeyIdError \/ e = EValue \/ e = EKey \/ e = EType.
Proof.
  unfold guess_key. destruct (resolve kf g) as [k|ks|]; try discriminate.
  - destruct (negb (py_truth (hget (headers g) s_kid)) && ur).
    + destruct (dget (headers g) s_alg) as [a|]; simpl.
      * unfold pick_random_key, pick_candidates, algkeys_get.
        destruct a; simpl; try (match goal with |- context [match ?c with [] => None | _ => _ end] =>
             destruct c; simpl; intro E; inversion E; auto end); intro E; inversion E; auto.
      * intro E; inversion E; auto.
    + destruct (get_by_kid ks (hget (headers g) s_kid)) eqn:G; simpl; [discriminate|].
      intro E; inversion E; subst. apply lookup_err in G. destruct G as [G _]. auto.
  - intro E; inversion E; auto.
Qed.

(* a kid-less header is accepted by the consuming side only against a one-key set *)
Theorem consume_no_kid tbl ch kf g ks k g' :
  resolve kf g = KSSet ks -> Forall has_kid ks -> dget (headers g) s_kid = None ->
  (guess_key tbl ch kf g false = Ok (k, g') <-> ks = [k] /\ g' = g).
Proof.
  intros R F D. rewrite (guess_consume tbl ch kf g ks R). unfold hget. rewrite D.
  destruct (get_by_kid ks PNone) as [k1|] eqn:G.
  - apply (no_kid_single ks k1 F) in G. subst ks. split.
    + intro E; inversion E; auto.
    + intros [E1 E2]. inversion E1; subst. reflexivity.
  - split; [discriminate|]. intros [E1 E2]. subst ks.
    assert (get_by_kid [k] PNone = Ok k) by reflexivity. congruence.
Qed.

(* ------------------------------------------------------------------ *)
(* produce with the private set, consume with the imported public set  *)
(* ------------------------------------------------------------------ *)
Theorem produce_consume tbl ch ch' kf kf' g ks k g' pub :
  chooser_ok ch -> guest_wf g ->
  Forall has_kid ks -> NoDup (map k_kid ks) ->
  resolve kf g = KSSet ks -> py_truth (hget (headers g) s_kid) = false ->
  guess_key tbl ch kf g true = Ok (k, g') ->
  import_key_set (keyset_as_dict ks) = Ok pub -> resolve kf' g' = KSSet pub ->
  exists k', guess_key tbl ch' kf' g' false = Ok (k', g') /\
             k_id k' = k_id k /\ k_kid k' = k_kid k /\ k_kty k' = k_kty k.
Proof.
  intros Hch W F ND R T G I R'.
  apply set_rt_inv in I. rewrite (init_fixed ks F) in I. subst pub.
  destruct (guess_pick tbl ch kf g ks k g' Hch R T G) as (k0 & a & A & I0 & Ek & _ & Hk & Eg & _).
  destruct (guess_pick_merged tbl ch kf g ks k g' Hch W R T G) as (_ & M & _).
  assert (k = k0) as K0.
  { subst k. apply ensure_kid_fixed. exact (Forall_has_kid_in ks k0 F I0). }
  subst k0.
  exists k. rewrite (guess_consume tbl ch' kf' g' ks R'), M.
  unfold has_kid in Hk. destruct (k_kid k) as [s|] eqn:Ks; [|contradiction].
  assert (kid_pv k = PStr s) as Kp by (apply kid_pv_str; auto). rewrite Kp.
  assert (get_by_kid ks (PStr s) = Ok k) as L by (apply lookup_unique; auto).
  rewrite L. auto.
Qed.

(* the same through the JWS entry points *)
Lemma jws_precheck_stable h h' :
  dget h' s_alg = dget h s_alg -> (exists s, dget h' s_kid = Some (PStr s)) ->
  forall kty, jws_precheck h = Ok kty -> jws_precheck h' = Ok kty.
Proof.
  intros A (s & K) kty. unfold jws_precheck. rewrite A, K.
  destruct (dget h s_alg) as [[| | | |a| | |]|]; try discriminate.
  destruct (dget h s_kid) as [[| | | |?| | |]|]; try discriminate; auto.
Qed.

Theorem jws_produce_consume tbl ch ch' kf kf' g ks k g' pub :
  chooser_ok ch -> guest_wf g ->
  Forall has_kid ks -> NoDup (map k_kid ks) ->
  resolve kf g = KSSet ks -> py_truth (hget (headers g) s_kid) = false ->
  jws_step tbl ch true kf g = Ok (k, g') ->
  import_key_set (keyset_as_dict ks) = Ok pub -> resolve kf' g' = KSSet pub ->
  exists k', jws_step tbl ch' false kf' g' = Ok (k', g') /\
             k_id k' = k_id k /\ k_kid k' = k_kid k /\ k_kty k' = k_kty k.
Proof.
  intros Hch W F ND R T S I R'. unfold jws_step in S.
  destruct (jws_precheck (headers g)) as [kty|] eqn:P; simpl in S; [|discriminate].
  destruct (guess_key tbl ch kf g true) as [[k1 g1]|] eqn:G; simpl in S; [|discriminate].
  destruct (String.eqb (k_kty k1) kty) eqn:Ty; [|discriminate]. inversion S; subst k1 g1. clear S.
  destruct (produce_consume tbl ch ch' kf kf' g ks k g' pub Hch W F ND R T G I R')
    as (k' & G' & E1 & E2 & E3).
  destruct (guess_pick tbl ch kf g ks k g' Hch R T G) as (k0 & a & _ & _ & _ & _ & Hk & _ & _).
  destruct (guess_pick_merged tbl ch kf g ks k g' Hch W R T G) as (_ & M & O).
  exists k'. split; auto. unfold jws_step.
  assert (jws_precheck (headers g') = Ok kty) as P'.
  { apply (jws_precheck_stable (headers g)); auto.
    - apply O. discriminate.
    - unfold has_kid in Hk. destruct (k_kid k) as [s|] eqn:Ks; [|contradiction]. exists s.
      unfold hget in M. assert (kid_pv k = PStr s) as Kp by (apply kid_pv_str; auto).
      rewrite Kp in M. destruct (dget (headers g') s_kid); [congruence | discriminate]. }
  rewrite P'. simpl. rewrite G'. simpl. rewrite E3, Ty. reflexivity.
Qed.


(* ------------------------------------------------------------------ *)
(* emitted token: what the consumer parses (incl. the rfc7797 paths)   *)
(* ------------------------------------------------------------------ *)
Lemma tr_nonempty o : tr (nonempty o) = tr o.
Proof. unfold nonempty. destruct (tr o) eqn:E; simpl; auto. Qed.

Theorem emit_headers g : headers (jws_emit g) = headers g.
Proof.
  unfold jws_emit, headers. destruct (g_kind g); simpl; rewrite ?tr_nonempty; reflexivity.
Qed.

Theorem emit_written g k v : written_at g k v -> written_at (jws_emit g) k v.
Proof.
  unfold written_at, jws_emit. destruct (g_kind g); simpl; rewrite ?tr_nonempty; auto.
Qed.

Theorem emit_protected_carries g k v :
  (g_kind g = GJwsCompact \/ g_kind g = GJweCompact) -> written_at g k v ->
  exists p, g_prot (jws_emit g) = Some p /\ dget p k = Some v.
Proof.
  unfold written_at, jws_emit. intros [E|E] W; rewrite E in *; simpl; eexists; split; eauto.
Qed.

Lemma jws_step_false_headers tbl ch ch' kf1 kf2 g1 g2 ks k :
  headers g2 = headers g1 -> resolve kf1 g1 = KSSet ks -> resolve kf2 g2 = KSSet ks ->
  jws_step tbl ch false kf1 g1 = Ok (k, g1) -> jws_step tbl ch' false kf2 g2 = Ok (k, g2).
Proof.
  intros H R1 R2. unfold jws_step.
  rewrite (guess_consume tbl ch kf1 g1 ks R1), (guess_consume tbl ch' kf2 g2 ks R2), H.
  destruct (jws_precheck (headers g1)) as [kty|]; simpl; [|discriminate].
  destruct (get_by_kid ks (hget (headers g1) s_kid)) as [k1|]; simpl; [|discriminate].
  destruct (String.eqb (k_kty k1) kty); [|discriminate]. intro E; inversion E; reflexivity.
Qed.

Theorem jws_produce_emit_consume tbl ch ch' kf kf' g ks k g' pub :
  chooser_ok ch -> guest_wf g ->
  Forall has_kid ks -> NoDup (map k_kid ks) ->
  resolve kf g = KSSet ks -> py_truth (hget (headers g) s_kid) = false ->
  jws_step tbl ch true kf g = Ok (k, g') ->
  import_key_set (keyset_as_dict ks) = Ok pub -> resolve kf' (jws_emit g') = KSSet pub ->
  written_at (jws_emit g') s_kid (kid_pv k) /\
  exists k', jws_step tbl ch' false kf' (jws_emit g') = Ok (k', jws_emit g') /\
             k_id k' = k_id k /\ k_kid k' = k_kid k /\ k_kty k' = k_kty k.
Proof.
  intros Hch W F ND R T S I R'.
  assert (guess_key tbl ch kf g true = Ok (k, g')) as G.
  { unfold jws_step in S. destruct (jws_precheck (headers g)) as [kty|]; simpl in S; [|discriminate].
    destruct (guess_key tbl ch kf g true) as [[k1 g1]|]; simpl in S; [|discriminate].
    destruct (String.eqb (k_kty k1) kty); [|discriminate]. inversion S; reflexivity. }
  destruct (guess_pick tbl ch kf g ks k g' Hch R T G) as (k0 & a & _ & _ & _ & _ & _ & _ & Wr).
  split; [apply emit_written; exact Wr|].
  destruct (jws_produce_consume tbl ch ch' kf (KFDirect (KSSet pub)) g ks k g' pub Hch W F ND R T S I eq_refl)
    as (k' & S' & E1 & E2 & E3).
  exists k'. split; auto.
  apply (jws_step_false_headers tbl ch' ch' (KFDirect (KSSet pub)) kf' g' (jws_emit g') pub k'); auto.
  apply emit_headers.
Qed.

(* rfc7797.serialize_json, b64 = false: same selection, no key type check *)
Theorem jws7797_json_step_spec tbl ch kf g k g' :
  jws7797_json_step tbl ch kf g = Ok (k, g') ->
  (exists kty, jws_precheck (headers g) = Ok kty) /\ guess_key tbl ch kf g true = Ok (k, g').
Proof.
  unfold jws7797_json_step. destruct (jws_precheck (headers g)) as [kty|]; simpl; [|discriminate].
  intro E. split; eauto.
Qed.

Theorem jws7797_json_agrees tbl ch kf g k g' kty :
  jws7797_json_step tbl ch kf g = Ok (k, g') -> jws_precheck (headers g) = Ok kty ->
  k_kty k = kty -> jws_step tbl ch true kf g = Ok (k, g').
Proof.
  unfold jws7797_json_step, jws_step. intros S P K. rewrite P in *. simpl in *. rewrite S. simpl.
  subst kty. rewrite String.eqb_refl. reflexivity.
Qed.

(* and through the JWE entry points (no sender key) *)
Theorem jwe_produce_consume tbl ch sch ch' sch' kf kf' g ks k so g' pub :
  chooser_ok ch -> guest_wf g ->
  Forall has_kid ks -> NoDup (map k_kid ks) ->
  resolve kf g = KSSet ks -> py_truth (hget (headers g) s_kid) = false ->
  jwe_step tbl ch sch true kf None g = Ok (k, so, g') ->
  import_key_set (keyset_as_dict ks) = Ok pub -> resolve kf' g' = KSSet pub ->
  exists k', jwe_step tbl ch' sch' false kf' None g' = Ok (k', None, g') /\
             k_id k' = k_id k /\ k_kid k' = k_kid k /\ k_kty k' = k_kty k.
Proof.
  intros Hch W F ND R T S I R'. unfold jwe_step, jwe_select in S. simpl in S.
  assert (guess_key tbl ch kf g true = Ok (k, g')) as G.
  { destruct (g_kind g); simpl in S;
      destruct (guess_key tbl ch kf g true) as [[k1 g1]|]; simpl in S; try discriminate;
      destruct (jwe_postcheck (headers g1)); simpl in S; try discriminate; inversion S; reflexivity. }
  destruct (produce_consume tbl ch ch' kf kf' g ks k g' pub Hch W F ND R T G I R')
    as (k' & G' & E1 & E2 & E3).
  destruct (guess_pick tbl ch kf g ks k g' Hch R T G) as (k0 & a & _ & _ & _ & _ & Hk & _ & _).
  destruct (guess_pick_merged tbl ch kf g ks k g' Hch W R T G) as (_ & M & _).
  exists k'. split; auto. unfold jwe_step, jwe_select. simpl. rewrite G'. simpl.
  unfold jwe_postcheck.
  unfold has_kid in Hk. destruct (k_kid k) as [s|] eqn:Ks; [|contradiction].
  unfold hget in M. assert (kid_pv k = PStr s) as Kp by (apply kid_pv_str; auto).
  rewrite Kp in M. destruct (dget (headers g') s_kid) as [v|]; [|discriminate]. subst v. reflexivity.
Qed.

(* entry points hand over the looked-up key *)
Theorem jws_consume_uses_named tbl ch kf g ks k g' :
  resolve kf g = KSSet ks -> jws_step tbl ch false kf g = Ok (k, g') ->
  get_by_kid ks (hget (headers g) s_kid) = Ok k /\ g' = g.
Proof.
  intros R. unfold jws_step. destruct (jws_precheck (headers g)) as [kty|]; simpl; [|discriminate].
  rewrite (guess_consume tbl ch kf g ks R).
  destruct (get_by_kid ks (hget (headers g) s_kid)) as [k1|]; simpl; [|discriminate].
  destruct (String.eqb (k_kty k1) kty); [|discriminate]. intro E; inversion E; auto.
Qed.

Theorem jws_consume_unknown_kid tbl ch kf g ks kty :
  resolve kf g = KSSet ks -> jws_precheck (headers g) = Ok kty ->
  Forall (fun k => kid_pv k <> hget (headers g) s_kid) ks ->
  (hget (headers g) s_kid = PNone -> length ks <> 1%nat) ->
  jws_step tbl ch false kf g = Err (EJose InvalidKeyIdError).
Proof.
  intros R P Fa L. unfold jws_step. rewrite P. simpl.
  rewrite (guess_consume tbl ch kf g ks R).
  assert (get_by_kid ks (hget (headers g) s_kid) = Err (EJose InvalidKeyIdError)) as G.
  { apply lookup_err. repeat split; auto. intros E k Ek. apply (L E). subst ks. reflexivity. }
  rewrite G. reflexivity.
Qed.

Theorem jwe_consume_uses_named tbl ch sch kf g ks k so g' :
  resolve kf g = KSSet ks -> jwe_step tbl ch sch false kf None g = Ok (k, so, g') ->
  get_by_kid ks (hget (headers g) s_kid) = Ok k /\ g' = g /\ so = None.
Proof.
  intros R. unfold jwe_step, jwe_select. simpl. rewrite (guess_consume tbl ch kf g ks R).
  destruct (get_by_kid ks (hget (headers g) s_kid)); simpl; [|discriminate].
  destruct (jwe_postcheck (headers g)); simpl; [|discriminate]. intro E; inversion E; auto.
Qed.

Theorem jwe_consume_unknown_kid tbl ch sch kf sk g ks :
  resolve kf g = KSSet ks ->
  Forall (fun k => kid_pv k <> hget (headers g) s_kid) ks ->
  (hget (headers g) s_kid = PNone -> length ks <> 1%nat) ->
  jwe_step tbl ch sch false kf sk g = Err (EJose InvalidKeyIdError).
Proof.
  intros R Fa L. unfold jwe_step, jwe_select. simpl.
  rewrite (guess_consume tbl ch kf g ks R).
  assert (get_by_kid ks (hget (headers g) s_kid) = Err (EJose InvalidKeyIdError)) as G.
  { apply lookup_err. repeat split; auto. intros E k Ek. apply (L E). subst ks. reflexivity. }
  rewrite G. reflexivity.
Qed.


(* ------------------------------------------------------------------ *)
(* decrypt_json: all recipients are looked up before any decryption    *)
(* ------------------------------------------------------------------ *)
Lemma jwe_select_consume tbl ch sch kf g ks :
  resolve kf g = KSSet ks ->
  jwe_select tbl ch sch false kf None g =
  match get_by_kid ks (hget (headers g) s_kid) with Ok k => Ok (k, None, g) | Err e => Err e end.
Proof.
  intro R. unfold jwe_select. simpl. rewrite (guess_consume tbl ch kf g ks R).
  destruct (get_by_kid ks (hget (headers g) s_kid)); reflexivity.
Qed.

Theorem jwe_attach_unknown_kid tbl ch sch kf ks gs :
  (forall g, In g gs -> resolve kf g = KSSet ks) ->
  (exists g, In g gs /\ forall k, get_by_kid ks (hget (headers g) s_kid) <> Ok k) ->
  jwe_attach tbl ch sch kf None gs = Err (EJose InvalidKeyIdError).
Proof.
  unfold jwe_attach. induction gs as [|g0 gs IH]; intros R (g & I & U); [contradiction|].
  simpl. rewrite (jwe_select_consume tbl ch sch kf g0 ks (R g0 (or_introl eq_refl))).
  destruct (get_by_kid ks (hget (headers g0) s_kid)) as [k0|e] eqn:G.
  - simpl. destruct I as [E|I].
    + subst g0. exfalso. exact (U k0 G).
    + rewrite IH; [reflexivity | intros g1 I1; apply R; right; exact I1 | exists g; auto].
  - simpl. apply lookup_err in G. destruct G as [G _]. subst e. reflexivity.
Qed.

Theorem jwe_attach_ok tbl ch sch kf ks gs l :
  (forall g, In g gs -> resolve kf g = KSSet ks) ->
  jwe_attach tbl ch sch kf None gs = Ok l ->
  Forall2 (fun g r => r = (fst (fst r), None, g) /\
                      get_by_kid ks (hget (headers g) s_kid) = Ok (fst (fst r))) gs l.
Proof.
  unfold jwe_attach. revert l. induction gs as [|g0 gs IH]; simpl; intros l R E.
  - inversion E. constructor.
  - rewrite (jwe_select_consume tbl ch sch kf g0 ks (R g0 (or_introl eq_refl))) in E.
    destruct (get_by_kid ks (hget (headers g0) s_kid)) as [k0|e] eqn:G; simpl in E; [|discriminate].
    destruct (map_res (jwe_select tbl ch sch false kf None) gs) as [r|] eqn:M; simpl in E; [|discriminate].
    inversion E. constructor; [simpl; auto|]. apply IH; auto.
Qed.

(* ------------------------------------------------------------------ *)
(* sender key                                                          *)
(* ------------------------------------------------------------------ *)
Theorem sender_named tbl ch ks g ur :
  py_truth (hget (headers g) s_skid) = true ->
  guess_sender_key tbl ch (SKSet ks) g ur =
  match get_by_kid ks (hget (headers g) s_skid) with Ok k => Ok (k, g) | Err e => Err e end.
Proof. intro T. unfold guess_sender_key. rewrite T. reflexivity. Qed.

Theorem sender_consume_needs_skid tbl ch ks g :
  py_truth (hget (headers g) s_skid) = false ->
  guess_sender_key tbl ch (SKSet ks) g false = Err EValue.
Proof. intro T. unfold guess_sender_key. rewrite T. reflexivity. Qed.

Theorem sender_pick tbl ch ks g k g' :
  chooser_ok ch -> guest_wf g -> py_truth (hget (headers g) s_skid) = false ->
  guess_sender_key tbl ch (SKSet ks) g true = Ok (k, g') ->
  In k ks /\ (exists a, dget (headers g) s_alg = Some a /\
     forall kts, algkeys_get tbl a = Ok (Some kts) -> kts <> [] -> In (k_kty k) kts) /\
  written_at g' s_skid (kid_pv k) /\ hget (headers g') s_skid = kid_pv k.
Proof.
  intros Hch W T. unfold guess_sender_key. rewrite T.
  destruct (dget (headers g) s_alg) as [a|] eqn:A; simpl; [|discriminate].
  destruct (pick_random_key tbl ch ks a) as [[k0|]|] eqn:P; simpl; try discriminate.
  intro E. inversion E. subst. destruct (pick_spec tbl ch ks a k Hch P) as [I K].
  repeat split; auto.
  - exists a. auto.
  - apply add_header_written.
  - apply add_header_merged; auto.
Qed.

(* ------------------------------------------------------------------ *)
(* table facts                                                         *)
(* ------------------------------------------------------------------ *)
Definition olist_eqb (a b : option (list string)) : bool :=
  match a, b with
  | Some x, Some y => list_eqb String.eqb x y
  | None, None => true
  | _, _ => false
  end.

Lemma olist_eqb_eq a b : olist_eqb a b = true -> a = b.
Proof.
  destruct a, b; simpl; try discriminate; auto.
  intro E. f_equal. apply (list_eqb_eq String.eqb); auto. intros; apply String.eqb_eq.
Qed.

Definition table_expected (tbl : list (string * list string)) : bool :=
  forallb (fun e => olist_eqb (expected_key_types (fst e)) (Some (snd e))) tbl.

Lemma table_expected_sound tbl :
  table_expected tbl = true -> forall a kts, In (a, kts) tbl -> expected_key_types a = Some kts.
Proof.
  unfold table_expected. rewrite forallb_forall. intros H a kts I.
  apply olist_eqb_eq. exact (H (a, kts) I).
Qed.

Theorem algorithm_keys_expected :
  forall a kts, In (a, kts) keyset_algorithm_keys -> expected_key_types a = Some kts.
Proof. apply table_expected_sound. vm_compute. reflexivity. Qed.

Theorem algorithm_keys_drafts_expected :
  forall a kts, In (a, kts) keyset_algorithm_keys_drafts -> expected_key_types a = Some kts.
Proof. apply table_expected_sound. vm_compute. reflexivity. Qed.

Definition has_entry (tbl : list (string * list string)) (a : string) (kts : list string) : bool :=
  existsb (fun e => String.eqb (fst e) a && list_eqb String.eqb (snd e) kts) tbl.

Lemma has_entry_In tbl a kts : has_entry tbl a kts = true -> In (a, kts) tbl.
Proof.
  unfold has_entry. rewrite existsb_exists. intros ([a' k'] & I & E). simpl in E.
  apply andb_true_iff in E. destruct E as [E1 E2]. apply String.eqb_eq in E1.
  apply (list_eqb_eq String.eqb) in E2; [|intros; apply String.eqb_eq]. subst. exact I.
Qed.

Theorem algorithm_keys_cover_jws :
  forall r, In r jws_alg_table -> In (ja_name r, [ja_key_type r]) keyset_algorithm_keys.
Proof.
  assert (forallb (fun r => has_entry keyset_algorithm_keys (ja_name r) [ja_key_type r]) jws_alg_table = true) as H
    by (vm_compute; reflexivity).
  rewrite forallb_forall in H. intros r I. apply has_entry_In. exact (H r I).
Qed.

Theorem algorithm_keys_cover_jwe :
  forall r, In r jwe_alg_table -> In (ea_name r, ea_key_types r) keyset_algorithm_keys /\ ea_key_types r <> [].
Proof.
  assert (forallb (fun r => has_entry keyset_algorithm_keys (ea_name r) (ea_key_types r)
                            && negb (match ea_key_types r with [] => true | _ => false end)) jwe_alg_table = true) as H
    by (vm_compute; reflexivity).
  rewrite forallb_forall in H. intros r I. specialize (H r I). apply andb_true_iff in H.
  destruct H as [H1 H2]. split; [apply has_entry_In; auto|].
  destruct (ea_key_types r); [discriminate | discriminate].
Qed.

Theorem algorithm_keys_cover_jwe_drafts :
  forall r, In r jwe_alg_table_drafts -> In (ea_name r, ea_key_types r) keyset_algorithm_keys_drafts /\ ea_key_types r <> [].
Proof.
  assert (forallb (fun r => has_entry keyset_algorithm_keys_drafts (ea_name r) (ea_key_types r)
                            && negb (match ea_key_types r with [] => true | _ => false end)) jwe_alg_table_drafts = true) as H
    by (vm_compute; reflexivity).
  rewrite forallb_forall in H. intros r I. specialize (H r I). apply andb_true_iff in H.
  destruct H as [H1 H2]. split; [apply has_entry_In; auto|].
  destruct (ea_key_types r); [discriminate | discriminate].
Qed.
