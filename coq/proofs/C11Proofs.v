(* C11Proofs.v — lemmas about the JWK import/export model (model/C11Model.v). *)
From Coq Require Import Lia ZifyBool.
From Model Require Import Base PyVal B64 IntCodec TableTypes C11Model.
From Gen Require Import Tables.
From Proofs Require Import B64Proofs IntCodecProofs.
Open Scope N_scope.

(* ------------------------------------------------------------------ *)
(* generic helpers                                                     *)
(* ------------------------------------------------------------------ *)
Lemma bind_ok {A B} (m : res A) (f : A -> res B) b :
  bind m f = Ok b -> exists a, m = Ok a /\ f a = Ok b.
Proof. destruct m as [a|e]; simpl; intros H; [exists a; auto | discriminate]. Qed.

Ltac inv_bind H :=
  let a := fresh "a" in let Ha := fresh "Ha" in
  apply bind_ok in H; destruct H as (a & Ha & H).

Lemma if_ok {A} (b : bool) (x : A) (e : exn) y : (if b then Ok x else Err e) = Ok y -> b = true /\ x = y.
Proof. destruct b; intros H; [inversion H; auto | discriminate]. Qed.

Lemma py_eq_PStr v t : py_eq v (PStr t) = true -> v = PStr t.
Proof.
  destruct v as [|b|z|f|s|s|l|d]; simpl; try discriminate.
  intros H. apply str_eqb_eq in H. congruence.
Qed.

Lemma py_eq_PStr_refl t : py_eq (PStr t) (PStr t) = true.
Proof. simpl. apply str_eqb_refl. Qed.

Definition choice_str (cs : list string) (v : pv) : Prop := exists c, In c cs /\ v = PStr (asc c).

Lemma in_strs_spec v cs : in_strs v cs = true <-> choice_str cs v.
Proof.
  unfold in_strs, choice_str. rewrite existsb_exists. split.
  - intros (c & Hc & E). exists c. split; [exact Hc | apply py_eq_PStr, E].
  - intros (c & Hc & E). exists c. split; [exact Hc | subst v; apply py_eq_PStr_refl].
Qed.

Lemma forallb_Forall {A} (f : A -> bool) (P : A -> Prop) l :
  (forall x, f x = true <-> P x) -> (forallb f l = true <-> Forall P l).
Proof.
  intros H. rewrite forallb_forall, Forall_forall. split; intros G x Hx; apply H, G, Hx.
Qed.

(* ------------------------------------------------------------------ *)
(* validators: characterisation against an independent reading         *)
(* ------------------------------------------------------------------ *)
Definition kind_spec (k : vkind) (v : pv) : Prop :=
  match k with
  | VStr => exists s, v = PStr s
  | VUrl => exists s, v = PStr s /\
              (is_prefix (asc "http://") s = true \/ is_prefix (asc "https://") s = true)
  | VInt => exists z, v = PInt z
  | VBool => exists b, v = PBool b
  | VListStr => exists l, v = PList l /\ Forall (fun x => exists s, x = PStr s) l
  | VJwk => exists d, v = PDict d
  | VNone => False
  (* what registry.in_choices really accepts: one choice, or a list of choices *)
  | VChoices cs => choice_str cs v \/ (exists l, v = PList l /\ Forall (choice_str cs) l)
  | VChoiceStr cs => choice_str cs v                                   (* "use": one member, a string *)
  | VChoiceList cs => exists l, v = PList l /\ Forall (choice_str cs) l (* "key_ops": an array of members *)
  | VUnknown _ => False
  end.

Lemma is_str_spec x : is_str x = true <-> exists s, x = PStr s.
Proof.
  destruct x; simpl; split; intros H; try discriminate;
    try (destruct H as (s0 & H); discriminate); eauto.
Qed.

Lemma validate_kind_spec k v : validate_kind k v = Ok tt <-> kind_spec k v.
Proof.
  destruct k; cbn [validate_kind kind_spec].
  - (* VStr *) rewrite <- is_str_spec. destruct (is_str v); split; intros; congruence.
  - (* VUrl *) destruct v; try (split; [discriminate | intros (s0 & E & _); discriminate]).
    remember (is_prefix (asc "http://") s) as a. remember (is_prefix (asc "https://") s) as b.
    split.
    + intros H. exists s. split; [reflexivity|].
      destruct a; [left; congruence|]. destruct b; [right; congruence | discriminate].
    + intros (s0 & E & H). inversion E; subst s0. subst a b.
      destruct H as [H|H]; rewrite H; [reflexivity | rewrite orb_true_r; reflexivity].
  - (* VInt *) destruct v; split; intros H; try discriminate; try (destruct H as (z0 & H); discriminate); eauto.
  - (* VBool *) destruct v; split; intros H; try discriminate; try (destruct H as (z0 & H); discriminate); eauto.
  - (* VListStr *) destruct v; try (split; [discriminate | intros (l0 & E & _); discriminate]).
    split.
    + intros H. exists l. split; [reflexivity|].
      apply (forallb_Forall is_str); [apply is_str_spec|].
      destruct (forallb is_str l); [reflexivity | discriminate].
    + intros (l0 & E & H). inversion E; subst l0.
      apply (forallb_Forall is_str) in H; [|apply is_str_spec]. rewrite H. reflexivity.
  - (* VJwk *) destruct v; simpl; split; intros H; try discriminate; try (destruct H as (z0 & H); discriminate); eauto.
  - (* VNone *) split; [discriminate | tauto].
  - (* VChoices *)
    destruct v as [|b|z|f|s|s|l0|d0];
      try (split;
           [ intros H; left; apply in_strs_spec;
             match type of H with (if ?c then _ else _) = _ => destruct c end; [reflexivity | discriminate]
           | intros [H|(l1 & E & _)]; [apply in_strs_spec in H; rewrite H; reflexivity | discriminate] ]).
    split.
    + intros H. right. exists l0. split; [reflexivity|].
      apply (forallb_Forall (fun x => in_strs x l)); [intros; apply in_strs_spec|].
      destruct (forallb (fun x => in_strs x l) l0); [reflexivity | discriminate].
    + intros [(c & _ & E)|(l1 & E & H)]; [discriminate|]. inversion E; subst l1.
      apply (forallb_Forall (fun x => in_strs x l)) in H; [|intros; apply in_strs_spec].
      rewrite H. reflexivity.
  - (* VChoiceStr *)
    destruct v as [|b|z|f|s|s|l0|d0];
      try (split;
           [ intros H; apply in_strs_spec;
             match type of H with (if ?c then _ else _) = _ => destruct c end; [reflexivity | discriminate]
           | intros H; apply in_strs_spec in H; rewrite H; reflexivity ]).
    split; [discriminate | intros (c & _ & E); discriminate].
  - (* VChoiceList *)
    destruct v as [|b|z|f|s|s|l0|d0];
      try (split; [discriminate | intros (l1 & E & _); discriminate]).
    split.
    + intros H. exists l0. split; [reflexivity|].
      apply (forallb_Forall (fun x => in_strs x l)); [intros; apply in_strs_spec|].
      destruct (forallb (fun x => in_strs x l) l0); [reflexivity | discriminate].
    + intros (l1 & E & H). inversion E; subst l1.
      apply (forallb_Forall (fun x => in_strs x l)) in H; [|intros; apply in_strs_spec].
      rewrite H. reflexivity.
  - (* VUnknown *) split; [discriminate | tauto].
Qed.

(* validate_dict_key_registry: accepted <-> every required member present and
   every registered member that is present well-typed *)
Definition registry_spec (d : dict) (reg : list kparam) : Prop :=
  forall p, In p reg ->
    (kp_required p = true -> dmem d (K (kp_name p)) = true) /\
    (forall v, dget d (K (kp_name p)) = Some v -> kind_spec (kp_kind p) v).

Lemma validate_registry_err d reg e : validate_registry d reg = Err e -> e = EValue \/ e = EOracleMiss.
Proof.
  induction reg as [|p r IH]; simpl; [discriminate|].
  destruct (dget d (K (kp_name p))) as [v|].
  - destruct (validate_kind (kp_kind p) v) as [[]|e0] eqn:E; simpl; [exact IH|].
    intros H; inversion H; subst e0.
    destruct (kp_kind p); simpl in E;
      repeat match type of E with
             | (if ?c then _ else _) = _ => destruct c
             | match ?x with _ => _ end = _ => destruct x
             end; inversion E; auto.
  - destruct (kp_required p); [intros H; inversion H; auto | exact IH].
Qed.

Lemma validate_registry_spec d reg : validate_registry d reg = Ok tt <-> registry_spec d reg.
Proof.
  unfold registry_spec. induction reg as [|p r IH]; simpl.
  - split; [intros _ p [] | reflexivity].
  - destruct (dget d (K (kp_name p))) as [v|] eqn:G.
    + destruct (validate_kind (kp_kind p) v) as [[]|e] eqn:E; simpl.
      * rewrite IH. split.
        -- intros H q [<-|Hq]; [|apply H, Hq].
           split; [intros _; unfold dmem; rewrite G; reflexivity|].
           intros v0 G0. rewrite G in G0. inversion G0; subst v0. apply validate_kind_spec, E.
        -- intros H q Hq. apply H. right. exact Hq.
      * split; [discriminate|]. intros H. exfalso.
        destruct (H p (or_introl eq_refl)) as [_ H2].
        specialize (H2 v G). apply validate_kind_spec in H2. congruence.
    + destruct (kp_required p) eqn:R.
      * split; [discriminate|]. intros H. exfalso.
        destruct (H p (or_introl eq_refl)) as [H1 _]. specialize (H1 R).
        unfold dmem in H1. rewrite G in H1. discriminate.
      * rewrite IH. split.
        -- intros H q [<-|Hq]; [|apply H, Hq].
           split; [congruence|]. intros v0 G0. congruence.
        -- intros H q Hq. apply H. right. exact Hq.
Qed.

(* "use" and "key_ops" consistent: EVERY listed operation belongs to the use *)
Definition use_ops_spec (d : dict) : Prop :=
  forall u ops, dget d (K "use") = Some u -> dget d (K "key_ops") = Some ops ->
    exists s l items,
      u = PStr s /\ assoc_str use_key_ops_registry s = Some l /\ py_iter ops = Ok items /\
      Forall (choice_str l) items.

Lemma validate_use_ops_spec d : validate_use_ops d = Ok tt <-> use_ops_spec d.
Proof.
  unfold validate_use_ops, use_ops_spec.
  destruct (dget d (K "use")) as [u|]; [|split; [intros _ u ops H; discriminate | reflexivity]].
  destruct (dget d (K "key_ops")) as [ops|]; [|split; [intros _ u0 ops H H0; discriminate | reflexivity]].
  split.
  - intros H u0 ops0 E1 E2. inversion E1; inversion E2; subst u0 ops0.
    inv_bind H. inv_bind H.
    destruct u; try discriminate.
    destruct (assoc_str use_key_ops_registry s) as [l|] eqn:A; [|discriminate].
    inversion Ha; subst a.
    exists s, l, a0. repeat split; try assumption.
    apply (forallb_Forall (fun op => in_strs op l)); [intros; apply in_strs_spec|].
    destruct (forallb (fun op => in_strs op l) a0); [reflexivity | discriminate].
  - intros H. destruct (H u ops eq_refl eq_refl) as (s & l & items & -> & A & I & F).
    rewrite A. simpl. rewrite I. simpl.
    apply (forallb_Forall (fun op => in_strs op l)) in F; [|intros; apply in_strs_spec].
    rewrite F. reflexivity.
Qed.

Definition dict_key_spec (kt : ktype) (d : dict) : Prop :=
  registry_spec d jwk_parameter_registry /\ registry_spec d (value_registry kt) /\ use_ops_spec d.

Lemma validate_dict_key_spec kt d : validate_dict_key kt d = Ok tt <-> dict_key_spec kt d.
Proof.
  unfold validate_dict_key, dict_key_spec.
  rewrite <- !validate_registry_spec, <- validate_use_ops_spec.
  destruct (validate_registry d jwk_parameter_registry) as [[]|e]; simpl;
    [|split; [discriminate | intros (H & _); discriminate]].
  destruct (validate_registry d (value_registry kt)) as [[]|e]; simpl;
    [|split; [discriminate | intros (_ & H & _); discriminate]].
  tauto.
Qed.

(* ------------------------------------------------------------------ *)
(* dictionaries                                                        *)
(* ------------------------------------------------------------------ *)
Lemma dupdate_nil {A} (d : list (str * A)) : dupdate d [] = d.
Proof. reflexivity. Qed.

Lemma dget_dupdate_other {A} (ps : list (str * A)) : forall d m,
  dmem ps m = false -> dget (dupdate d ps) m = dget d m.
Proof.
  unfold dupdate, dmem. induction ps as [|[k v] ps IH]; intros d m H; [reflexivity|].
  simpl in *. destruct (str_eqb k m) eqn:E; [discriminate|].
  rewrite IH by exact H. apply dget_dset_other. apply str_eqb_neq, E.
Qed.

Lemma dset_same {A} (d : list (str * A)) k v : dget d k = Some v -> dset d k v = d.
Proof.
  induction d as [|[k' v'] d IH]; simpl; [discriminate|].
  destruct (str_eqb k' k) eqn:E; intros H; [inversion H; reflexivity | rewrite IH by exact H; reflexivity].
Qed.

Lemma dget_dupdate_last {A} (ps : list (str * A)) : forall d m v,
  dget ps m = Some v -> keys_unique (dkeys ps) = true -> dget (dupdate d ps) m = Some v.
Proof.
  unfold dupdate. induction ps as [|[k w] ps IH]; intros d m v H U; [discriminate|].
  simpl in *. apply andb_true_iff in U. destruct U as [U1 U2].
  destruct (str_eqb k m) eqn:E.
  - inversion H; subst w. apply str_eqb_eq in E. subst m.
    assert (M : dmem ps k = false).
    { unfold dmem. destruct (dget ps k) eqn:G; [|reflexivity]. exfalso.
      apply negb_true_iff in U1.
      assert (In k (dkeys ps)).
      { clear -G. induction ps as [|[k1 v1] ps IH]; [discriminate|]. simpl in *.
        destruct (str_eqb k1 k) eqn:E; [apply str_eqb_eq in E; left; exact E | right; apply IH, G]. }
      apply str_mem_In in H0. congruence. }
    pose proof (dget_dupdate_other ps (dset d k v) k M) as R. unfold dupdate in R. rewrite R.
    apply dget_dset_same.
  - apply IH; assumption.
Qed.

(* ------------------------------------------------------------------ *)
(* import_key: inversion, identity of the JWK view                     *)
(* ------------------------------------------------------------------ *)
Lemma unit_ok (r : res unit) u : r = Ok u -> r = Ok tt.
Proof. destruct u. auto. Qed.

Lemma import_key_inv O kt d ps k :
  import_key O kt d ps = Ok k ->
  validate_dict_key kt d = Ok tt /\
  import_from_dict O kt d = Ok (k_native k) /\
  validate_dict_key kt (init_data kt d ps) = Ok tt /\
  k_dict k = init_data kt d ps /\ k_type k = kt.
Proof.
  unfold import_key. intros H.
  inv_bind H. inv_bind H. inv_bind H. inversion H; subst k; simpl.
  repeat split; try assumption; eapply unit_ok; eassumption.
Qed.

Lemma import_key_intro O kt d ps n :
  validate_dict_key kt d = Ok tt -> import_from_dict O kt d = Ok n ->
  validate_dict_key kt (init_data kt d ps) = Ok tt ->
  import_key O kt d ps = Ok {| k_type := kt; k_native := n; k_dict := init_data kt d ps |}.
Proof. unfold import_key. intros -> -> ->. reflexivity. Qed.

Theorem jwk_id O kt d ps k :
  import_key O kt d ps = Ok k ->
  as_dict k None [] = Ok (init_data kt d ps) /\
  dget (init_data kt d ps) (K "kty") = Some (PStr (asc (kt_name kt))) /\
  (forall m v, dget ps m = Some v -> keys_unique (dkeys ps) = true -> m <> K "kty" ->
               dget (init_data kt d ps) m = Some v) /\
  (forall m, dmem ps m = false -> m <> K "kty" -> dget (init_data kt d ps) m = dget d m).
Proof.
  intros H. apply import_key_inv in H. destruct H as (_ & _ & _ & E & _).
  unfold as_dict. rewrite dupdate_nil, E. split; [reflexivity|]. unfold init_data.
  split; [apply dget_dset_same|]. split.
  - intros m v G U N. rewrite dget_dset_other by congruence. apply dget_dupdate_last; assumption.
  - intros m M N. rewrite dget_dset_other by congruence. apply dget_dupdate_other, M.
Qed.

Theorem jwk_id_exact O kt d k :
  import_key O kt d [] = Ok k -> dget d (K "kty") = Some (PStr (asc (kt_name kt))) ->
  as_dict k None [] = Ok d.
Proof.
  intros H G. apply (jwk_id O kt d [] k) in H. destruct H as (H & _).
  rewrite H. unfold init_data. rewrite dupdate_nil, dset_same by exact G. reflexivity.
Qed.

(* ------------------------------------------------------------------ *)
(* import_from_dict: what an accepted dict satisfies                   *)
(* ------------------------------------------------------------------ *)
Definition crt_all (d : dict) : Prop := forall c, In c crt_names -> has d c = true.
Definition crt_none (d : dict) : Prop := forall c, In c crt_names -> has d c = false.

Lemma has_all_prime_factors_spec d b :
  has_all_prime_factors d = Ok b -> (b = true /\ crt_all d) \/ (b = false /\ crt_none d).
Proof.
  unfold has_all_prime_factors, crt_all, crt_none, crt_names.
  cbn [map forallb existsb In].
  destruct (has d "p") eqn:E1, (has d "q") eqn:E2, (has d "dp") eqn:E3, (has d "dq") eqn:E4,
           (has d "qi") eqn:E5;
    cbn; intros H; inversion H; subst b;
    [left | right]; (split; [reflexivity|]);
    intros c [<-|[<-|[<-|[<-|[<-|[]]]]]]; assumption.
Qed.

Lemma no_private_without_d d :
  existsb (has d) private_without_d = false -> crt_none d /\ has d "oth" = false.
Proof.
  unfold private_without_d, crt_none, crt_names. cbn [existsb In].
  destruct (has d "p") eqn:E1, (has d "q") eqn:E2, (has d "dp") eqn:E3, (has d "dq") eqn:E4,
           (has d "qi") eqn:E5, (has d "oth") eqn:E6; cbn; try discriminate.
  intros _. split; [|reflexivity]. intros c [<-|[<-|[<-|[<-|[<-|[]]]]]]; assumption.
Qed.

Lemma no_private_without_d_inv d :
  crt_none d -> has d "oth" = false -> existsb (has d) private_without_d = false.
Proof.
  unfold private_without_d, crt_none, crt_names. intros H Ho. cbn [existsb].
  rewrite !H by (cbn; tauto). rewrite Ho. reflexivity.
Qed.

Definition import_spec (O : oracles) (kt : ktype) (d : dict) (n : native) : Prop :=
  match kt with
  | KOct => exists k, dec_oct d "k" = Ok k /\ n = NOct k
  | KRSA =>
      exists nn e, dec_int d "n" = Ok nn /\ dec_int d "e" = Ok e /\
      if has d "d" then
        has d "oth" = false /\ (crt_all d \/ crt_none d) /\
        exists dd, dec_int d "d" = Ok dd /\
        exists m, n = NRsaPrv m /\ o_rsa_prv O m = true /\
          ((crt_all d /\ r_n (r_pub m) = nn /\ r_e (r_pub m) = e /\ r_d m = dd /\ dec_int d "p" = Ok (r_p m) /\ dec_int d "q" = Ok (r_q m) /\
            dec_int d "dp" = Ok (r_dp m) /\ dec_int d "dq" = Ok (r_dq m) /\ dec_int d "qi" = Ok (r_qi m))
           \/ (crt_none d /\ o_rsa_complete O nn e dd = Ok m))
      else crt_none d /\ has d "oth" = false /\
           n = NRsaPub {| r_n := nn; r_e := e |} /\ o_rsa_pub O nn e = true
  | KEC =>
      exists crv bits x y, get_str d "crv" = Ok crv /\ ec_bits crv = Some bits /\
        dec_int d "x" = Ok x /\ dec_int d "y" = Ok y /\
        if has d "d" then exists dd, dec_int d "d" = Ok dd /\ o_ec_prv O crv x y dd = true /\ n = NEcPrv crv x y dd
        else o_ec_pub O crv x y = true /\ n = NEcPub crv x y
  | KOKP =>
      exists crv, get_str d "crv" = Ok crv /\ okp_known crv = true /\
        if has d "d" then exists dd x, dec_oct d "d" = Ok dd /\ o_okp_prv O crv dd = Ok x /\
                               dec_oct d "x" = Ok x /\ n = NOkpPrv crv x dd
        else exists x, dec_oct d "x" = Ok x /\ o_okp_pub O crv x = true /\ n = NOkpPub crv x
  end.

Lemma import_from_dict_spec O kt d n : import_from_dict O kt d = Ok n -> import_spec O kt d n.
Proof.
  destruct kt; cbn [import_from_dict import_spec].
  - unfold import_oct. intros H. inv_bind H. inversion H. eauto.
  - unfold import_rsa. destruct (has d "d") eqn:Hd.
    + destruct (has d "oth") eqn:Ho; [discriminate|]. intros H.
      inv_bind H. inv_bind H. inv_bind H.
      exists a0, a. split; [assumption|]. split; [assumption|].
      destruct (has_all_prime_factors_spec d a1 Ha1) as [[-> CA]|[-> CN]].
      * inv_bind H. inv_bind H. inv_bind H. inv_bind H. inv_bind H. inv_bind H.
        apply if_ok in H. destruct H as [Hm <-].
        split; [reflexivity|]. split; [left; exact CA|].
        eexists. split; [eassumption|]. eexists. split; [reflexivity|]. split; [exact Hm|].
        left. cbn. repeat split; assumption.
      * inv_bind H. inv_bind H. apply if_ok in H. destruct H as [Hm <-].
        split; [reflexivity|]. split; [right; exact CN|].
        eexists. split; [eassumption|]. eexists. split; [reflexivity|]. split; [exact Hm|].
        right. split; assumption.
    + destruct (existsb (has d) private_without_d) eqn:PW; [discriminate|].
      intros H. inv_bind H. inv_bind H. apply if_ok in H. destruct H as [Hm <-].
      exists a0, a. split; [assumption|]. split; [assumption|].
      destruct (no_private_without_d d PW) as [CN NO]. auto.
  - unfold import_ec. intros H. inv_bind H.
    destruct (ec_bits a) as [bits|] eqn:B; [|discriminate].
    inv_bind H. inv_bind H. exists a, bits, a0, a1. repeat (split; [assumption|]).
    destruct (has d "d").
    + inv_bind H. apply if_ok in H. destruct H as [Hm <-]. eauto.
    + apply if_ok in H. destruct H as [Hm <-]. auto.
  - unfold import_okp. intros H. inv_bind H.
    destruct (okp_known a) eqn:Kn; cbn [negb] in H; [|discriminate].
    exists a. split; [assumption|]. split; [exact Kn|].
    destruct (has d "d").
    + inv_bind H. inv_bind H. inv_bind H. apply if_ok in H. destruct H as [Hm <-].
      apply beqb_eq in Hm. subst. eauto 10.
    + inv_bind H. apply if_ok in H. destruct H as [Hm <-]. eauto.
Qed.

(* ------------------------------------------------------------------ *)
(* encodings of exported members                                       *)
(* ------------------------------------------------------------------ *)
Lemma alpha_lt128 c : in_alphabet c = true -> (c <? 128) = true.
Proof. intros H. apply in_alphabet_spec in H. lia. Qed.

Lemma alpha_ascii s : forallb in_alphabet s = true -> forallb (fun c => c <? 128) s = true.
Proof.
  rewrite !forallb_forall. intros H x Hx. apply alpha_lt128, H, Hx.
Qed.

Lemma alpha_no_pad s : forallb in_alphabet s = true -> ~ In 61 s.
Proof.
  rewrite forallb_forall. intros H I. specialize (H 61 I). vm_compute in H. discriminate.
Qed.

Lemma dec_int_at d k s z :
  dget d (K k) = Some (PStr s) -> forallb in_alphabet s = true -> base64_to_int s = Ok z ->
  dec_int d k = Ok z.
Proof.
  intros G A B. unfold dec_int, get_str, str_to_bytes. rewrite G. cbn [bind].
  rewrite (alpha_ascii s A). exact B.
Qed.

Lemma dec_oct_at d k s o :
  dget d (K k) = Some (PStr s) -> forallb in_alphabet s = true -> b64d s = Ok o ->
  dec_oct d k = Ok o.
Proof.
  intros G A B. unfold dec_oct, get_str, str_to_bytes. rewrite G. cbn [bind].
  rewrite (alpha_ascii s A). exact B.
Qed.

Lemma pow256_ZN L : Z.of_N (256 ^ N.of_nat L) = (256 ^ Z.of_nat L)%Z.
Proof. rewrite N2Z.inj_pow, nat_N_Z. reflexivity. Qed.

Lemma range_ZN z L : (0 <= z < 256 ^ Z.of_nat L)%Z -> Z.to_N z < 256 ^ N.of_nat L.
Proof. intros H. rewrite <- pow256_ZN in H. lia. Qed.

(* _int_to_fixed_base64: for every value in range, the L-octet big-endian form *)
Lemma fixed_facts z bits :
  let L := coord_len bits in
  (0 <= z < 256 ^ Z.of_nat L)%Z ->
  exists s, int_to_fixed_base64 z bits = Ok s /\
            s = b64e (I2OSP (Z.to_N z) L) /\
            b64d s = Ok (I2OSP (Z.to_N z) L) /\
            length (I2OSP (Z.to_N z) L) = L /\
            forallb in_alphabet s = true /\
            ((0 < L)%nat -> base64_to_int s = Ok z).
Proof.
  intros L H. exists (b64e (I2OSP (Z.to_N z) L)). unfold int_to_fixed_base64. fold L.
  replace ((0 <=? z)%Z && (z <? 256 ^ Z.of_nat L)%Z) with true by lia.
  split; [reflexivity|]. split; [reflexivity|].
  pose proof (I2OSP_bytes_ok (Z.to_N z) L) as BO.
  split; [apply b64_roundtrip, BO|]. split; [apply I2OSP_length|].
  split; [apply b64e_alphabet, BO|].
  intros HL. unfold base64_to_int. rewrite (b64_roundtrip _ BO). cbn [bind].
  destruct L as [|l]; [lia|]. cbn [I2OSP].
  change ((Z.to_N z / 256 ^ N.of_nat l) mod 256 :: I2OSP (Z.to_N z) l) with (I2OSP (Z.to_N z) (S l)).
  rewrite I2OSP_value by (apply range_ZN, H). f_equal. lia.
Qed.

Lemma fixed_out_of_range z bits :
  ~ (0 <= z < 256 ^ Z.of_nat (coord_len bits))%Z -> int_to_fixed_base64 z bits = Err EOverflow.
Proof.
  intros H. unfold int_to_fixed_base64.
  replace ((0 <=? z)%Z && (z <? 256 ^ Z.of_nat (coord_len bits))%Z) with false by lia. reflexivity.
Qed.

Lemma fixed_inv z bits s :
  int_to_fixed_base64 z bits = Ok s -> s = b64e (I2OSP (Z.to_N z) (coord_len bits)).
Proof.
  unfold int_to_fixed_base64. destruct ((0 <=? z)%Z && _); intros H; inversion H. reflexivity.
Qed.

(* int_to_base64 on positive numbers: minimal big-endian form *)
Definition enc_min (z : Z) : list N := b64e (N_to_be_min (Z.to_N z)).

Lemma i2b_inv z s : int_to_base64 z = Ok s -> s = enc_min z /\ (0 <= z)%Z.
Proof.
  unfold int_to_base64, enc_min. destruct (z <? 0)%Z eqn:E; intros H; inversion H. split; [reflexivity | lia].
Qed.

Lemma i2b_facts z : (0 < z)%Z ->
  int_to_base64 z = Ok (enc_min z) /\ base64_to_int (enc_min z) = Ok z /\
  forallb in_alphabet (enc_min z) = true /\
  b64d (enc_min z) = Ok (N_to_be_min (Z.to_N z)) /\
  (exists b r, N_to_be_min (Z.to_N z) = b :: r /\ b <> 0) /\
  Z.of_N (be_to_N (N_to_be_min (Z.to_N z))) = z.
Proof.
  intros H. destruct (int_b64_roundtrip z H) as (s & E1 & E2).
  destruct (i2b_inv z s E1) as [-> _].
  split; [exact E1|]. split; [exact E2|].
  pose proof (be_min_bytes_ok (Z.to_N z)) as BO.
  split; [apply b64e_alphabet, BO|]. split; [apply b64_roundtrip, BO|].
  split; [apply be_min_no_leading_zero; lia|]. rewrite be_min_value. lia.
Qed.

Lemma enc_min_alpha z : forallb in_alphabet (enc_min z) = true.
Proof. apply b64e_alphabet, be_min_bytes_ok. Qed.

(* ------------------------------------------------------------------ *)
(* EC                                                                  *)
(* ------------------------------------------------------------------ *)
Definition in_range (bits : N) (z : Z) : Prop := (0 <= z < 256 ^ Z.of_nat (coord_len bits))%Z.
Definition enc_fix (bits : N) (z : Z) : list N := b64e (I2OSP (Z.to_N z) (coord_len bits)).

Lemma fixed_enc z bits : in_range bits z -> int_to_fixed_base64 z bits = Ok (enc_fix bits z).
Proof. intros H. destruct (fixed_facts z bits H) as (s & E & -> & _). exact E. Qed.

Lemma export_ec_prv_eq crv bits x y d :
  ec_bits crv = Some bits -> in_range bits x -> in_range bits y -> in_range bits d ->
  export_ec_prv crv x y d =
  Ok [(K "crv", PStr crv); (K "x", PStr (enc_fix bits x)); (K "y", PStr (enc_fix bits y));
      (K "d", PStr (enc_fix bits d))].
Proof.
  intros B Hx Hy Hd. unfold export_ec_prv. rewrite B.
  rewrite (fixed_enc x bits Hx), (fixed_enc y bits Hy), (fixed_enc d bits Hd). reflexivity.
Qed.

Lemma export_ec_pub_eq crv bits x y :
  ec_bits crv = Some bits -> in_range bits x -> in_range bits y ->
  export_ec_pub crv x y =
  Ok [(K "crv", PStr crv); (K "x", PStr (enc_fix bits x)); (K "y", PStr (enc_fix bits y))].
Proof.
  intros B Hx Hy. unfold export_ec_pub. rewrite B.
  rewrite (fixed_enc x bits Hx), (fixed_enc y bits Hy). reflexivity.
Qed.

Theorem ec_fixed_len crv bits x y d :
  ec_bits crv = Some bits -> in_range bits x -> in_range bits y -> in_range bits d ->
  exists xs ys ds ox oy od,
    export_ec_prv crv x y d = Ok [(K "crv", PStr crv); (K "x", PStr xs); (K "y", PStr ys); (K "d", PStr ds)] /\
    export_ec_pub crv x y = Ok [(K "crv", PStr crv); (K "x", PStr xs); (K "y", PStr ys)] /\
    b64d xs = Ok ox /\ b64d ys = Ok oy /\ b64d ds = Ok od /\
    length ox = coord_len bits /\ length oy = coord_len bits /\ length od = coord_len bits /\
    Z.of_N (be_to_N ox) = x /\ Z.of_N (be_to_N oy) = y /\ Z.of_N (be_to_N od) = d.
Proof.
  intros B Hx Hy Hd.
  exists (enc_fix bits x), (enc_fix bits y), (enc_fix bits d).
  exists (I2OSP (Z.to_N x) (coord_len bits)), (I2OSP (Z.to_N y) (coord_len bits)),
         (I2OSP (Z.to_N d) (coord_len bits)).
  split; [apply export_ec_prv_eq; assumption|]. split; [apply export_ec_pub_eq; assumption|].
  unfold enc_fix. rewrite !b64_roundtrip by apply I2OSP_bytes_ok. rewrite !I2OSP_length.
  rewrite !I2OSP_value by (apply range_ZN; assumption).
  unfold in_range in *. repeat split; lia.
Qed.

Lemma enc_fix_int bits z : (0 < coord_len bits)%nat -> in_range bits z ->
  forallb in_alphabet (enc_fix bits z) = true /\ base64_to_int (enc_fix bits z) = Ok z.
Proof.
  intros HL H. destruct (fixed_facts z bits H) as (s & _ & -> & _ & _ & A & I). split; [exact A | apply I, HL].
Qed.

Theorem ec_export_import O crv bits x y d :
  ec_bits crv = Some bits -> (0 < coord_len bits)%nat ->
  in_range bits x -> in_range bits y -> in_range bits d ->
  (o_ec_prv O crv x y d = true ->
   exists dict, export_native (NEcPrv crv x y d) true = Ok dict /\
                import_from_dict O KEC dict = Ok (NEcPrv crv x y d)) /\
  (o_ec_pub O crv x y = true ->
   exists dict, export_native (NEcPrv crv x y d) false = Ok dict /\
                export_native (NEcPub crv x y) false = Ok dict /\
                import_from_dict O KEC dict = Ok (NEcPub crv x y)).
Proof.
  intros B HL Hx Hy Hd.
  destruct (enc_fix_int bits x HL Hx) as [Ax Ix]. destruct (enc_fix_int bits y HL Hy) as [Ay Iy].
  destruct (enc_fix_int bits d HL Hd) as [Ad Id].
  split; intros HO.
  - eexists. split; [cbn [export_native]; apply (export_ec_prv_eq crv bits); assumption|].
    cbn [import_from_dict]. unfold import_ec.
    set (D := [(K "crv", PStr crv); (K "x", PStr (enc_fix bits x)); (K "y", PStr (enc_fix bits y));
               (K "d", PStr (enc_fix bits d))]).
    replace (get_str D "crv") with (@Ok str crv) by reflexivity. cbn [bind]. rewrite B.
    rewrite (dec_int_at D "x" _ x eq_refl Ax Ix), (dec_int_at D "y" _ y eq_refl Ay Iy). cbn [bind].
    replace (has D "d") with true by reflexivity.
    rewrite (dec_int_at D "d" _ d eq_refl Ad Id). cbn [bind]. rewrite HO. reflexivity.
  - eexists. split; [cbn [export_native]; apply (export_ec_pub_eq crv bits); assumption|].
    split; [cbn [export_native]; apply (export_ec_pub_eq crv bits); assumption|].
    cbn [import_from_dict]. unfold import_ec.
    set (D := [(K "crv", PStr crv); (K "x", PStr (enc_fix bits x)); (K "y", PStr (enc_fix bits y))]).
    replace (get_str D "crv") with (@Ok str crv) by reflexivity. cbn [bind]. rewrite B.
    rewrite (dec_int_at D "x" _ x eq_refl Ax Ix), (dec_int_at D "y" _ y eq_refl Ay Iy). cbn [bind].
    replace (has D "d") with false by reflexivity. rewrite HO. reflexivity.
Qed.

(* ------------------------------------------------------------------ *)
(* RSA                                                                 *)
(* ------------------------------------------------------------------ *)
Definition rsa_pub_pos (m : rsa_pub) : Prop := (0 < r_n m)%Z /\ (0 < r_e m)%Z.
Definition rsa_prv_pos (m : rsa_prv) : Prop :=
  rsa_pub_pos (r_pub m) /\ (0 < r_d m)%Z /\ (0 < r_p m)%Z /\ (0 < r_q m)%Z /\
  (0 < r_dp m)%Z /\ (0 < r_dq m)%Z /\ (0 < r_qi m)%Z.

Definition rsa_prv_dict (m : rsa_prv) : dict :=
  [(K "n", PStr (enc_min (r_n (r_pub m)))); (K "e", PStr (enc_min (r_e (r_pub m))));
   (K "d", PStr (enc_min (r_d m))); (K "p", PStr (enc_min (r_p m))); (K "q", PStr (enc_min (r_q m)));
   (K "dp", PStr (enc_min (r_dp m))); (K "dq", PStr (enc_min (r_dq m))); (K "qi", PStr (enc_min (r_qi m)))].
Definition rsa_pub_dict (m : rsa_pub) : dict :=
  [(K "n", PStr (enc_min (r_n m))); (K "e", PStr (enc_min (r_e m)))].

Lemma i2b_pos z : (0 < z)%Z -> int_to_base64 z = Ok (enc_min z).
Proof. intros H. apply (i2b_facts z H). Qed.
Lemma b2i_pos z : (0 < z)%Z -> base64_to_int (enc_min z) = Ok z.
Proof. intros H. apply (i2b_facts z H). Qed.

Lemma export_rsa_prv_eq m : rsa_prv_pos m -> export_rsa_prv m = Ok (rsa_prv_dict m).
Proof.
  intros ((Hn & He) & Hd & Hp & Hq & Hdp & Hdq & Hqi). unfold export_rsa_prv.
  rewrite !i2b_pos by assumption. reflexivity.
Qed.

Lemma export_rsa_pub_eq m : rsa_pub_pos m -> export_rsa_pub m = Ok (rsa_pub_dict m).
Proof.
  intros (Hn & He). unfold export_rsa_pub. rewrite !i2b_pos by assumption. reflexivity.
Qed.

Theorem rsa_export_import O m :
  rsa_prv_pos m ->
  (o_rsa_prv O m = true ->
   export_native (NRsaPrv m) true = Ok (rsa_prv_dict m) /\
   import_from_dict O KRSA (rsa_prv_dict m) = Ok (NRsaPrv m)) /\
  (o_rsa_pub O (r_n (r_pub m)) (r_e (r_pub m)) = true ->
   export_native (NRsaPrv m) false = Ok (rsa_pub_dict (r_pub m)) /\
   export_native (NRsaPub (r_pub m)) false = Ok (rsa_pub_dict (r_pub m)) /\
   import_from_dict O KRSA (rsa_pub_dict (r_pub m)) = Ok (NRsaPub (r_pub m))).
Proof.
  intros P. pose proof P as ((Hn & He) & Hd & Hp & Hq & Hdp & Hdq & Hqi).
  split; intros HO.
  - split; [cbn [export_native]; apply export_rsa_prv_eq, P|].
    cbn [import_from_dict]. unfold import_rsa.
    set (D := rsa_prv_dict m).
    replace (has D "d") with true by reflexivity.
    replace (has D "oth") with false by reflexivity.
    replace (has_all_prime_factors D) with (@Ok bool true) by reflexivity.
    rewrite (dec_int_at D "e" _ _ eq_refl (enc_min_alpha _) (b2i_pos _ He)).
    rewrite (dec_int_at D "n" _ _ eq_refl (enc_min_alpha _) (b2i_pos _ Hn)).
    rewrite (dec_int_at D "d" _ _ eq_refl (enc_min_alpha _) (b2i_pos _ Hd)).
    rewrite (dec_int_at D "p" _ _ eq_refl (enc_min_alpha _) (b2i_pos _ Hp)).
    rewrite (dec_int_at D "q" _ _ eq_refl (enc_min_alpha _) (b2i_pos _ Hq)).
    rewrite (dec_int_at D "dp" _ _ eq_refl (enc_min_alpha _) (b2i_pos _ Hdp)).
    rewrite (dec_int_at D "dq" _ _ eq_refl (enc_min_alpha _) (b2i_pos _ Hdq)).
    rewrite (dec_int_at D "qi" _ _ eq_refl (enc_min_alpha _) (b2i_pos _ Hqi)).
    cbn [bind]. destruct m as [[n e] d p q dp dq qi]. cbn in *. rewrite HO. reflexivity.
  - split; [cbn [export_native]; apply export_rsa_pub_eq; split; assumption|].
    split; [cbn [export_native]; apply export_rsa_pub_eq; split; assumption|].
    cbn [import_from_dict]. unfold import_rsa.
    set (D := rsa_pub_dict (r_pub m)).
    replace (has D "d") with false by reflexivity.
    replace (existsb (has D) private_without_d) with false by reflexivity.
    rewrite (dec_int_at D "e" _ _ eq_refl (enc_min_alpha _) (b2i_pos _ He)).
    rewrite (dec_int_at D "n" _ _ eq_refl (enc_min_alpha _) (b2i_pos _ Hn)).
    cbn [bind]. rewrite HO. destruct m as [[n e] d p q dp dq qi]. reflexivity.
Qed.

(* every RSA member is the minimal big-endian form of its number *)
Theorem rsa_minimal m :
  rsa_prv_pos m ->
  export_rsa_prv m = Ok (rsa_prv_dict m) /\
  forall z, In z [r_n (r_pub m); r_e (r_pub m); r_d m; r_p m; r_q m; r_dp m; r_dq m; r_qi m] ->
    exists o, b64d (enc_min z) = Ok o /\ (exists b r, o = b :: r /\ b <> 0) /\
              Z.of_N (be_to_N o) = z /\ bytes_ok o = true /\
              256 ^ (N.of_nat (length o) - 1) <= Z.to_N z < 256 ^ N.of_nat (length o).
Proof.
  intros P. split; [apply export_rsa_prv_eq, P|].
  destruct P as ((Hn & He) & Hd & Hp & Hq & Hdp & Hdq & Hqi).
  intros z Hz.
  assert (Pz : (0 < z)%Z) by (cbn [In] in Hz; intuition (subst; assumption)).
  destruct (i2b_facts z Pz) as (_ & _ & _ & D & NZ & V).
  exists (N_to_be_min (Z.to_N z)). split; [exact D|]. split; [exact NZ|]. split; [exact V|].
  split; [apply be_min_bytes_ok|]. apply be_min_length. lia.
Qed.

(* ------------------------------------------------------------------ *)
(* OKP and oct                                                         *)
(* ------------------------------------------------------------------ *)
Theorem oct_rt O k : bytes_ok k = true ->
  exists dict, export_native (NOct k) true = Ok dict /\ export_native (NOct k) false = Ok dict /\
               dict = [(K "k", PStr (b64e k))] /\
               import_from_dict O KOct dict = Ok (NOct k).
Proof.
  intros B. exists [(K "k", PStr (b64e k))]. split; [reflexivity|]. split; [reflexivity|]. split; [reflexivity|].
  cbn [import_from_dict]. unfold import_oct.
  rewrite (dec_oct_at [(K "k", PStr (b64e k))] "k" _ k eq_refl (b64e_alphabet k B) (b64_roundtrip k B)).
  reflexivity.
Qed.

Theorem okp_rt O crv x d : okp_known crv = true -> bytes_ok x = true -> bytes_ok d = true ->
  (o_okp_prv O crv d = Ok x ->
   exists dict, export_native (NOkpPrv crv x d) true = Ok dict /\
                dict = [(K "crv", PStr crv); (K "x", PStr (b64e x)); (K "d", PStr (b64e d))] /\
                import_from_dict O KOKP dict = Ok (NOkpPrv crv x d)) /\
  (o_okp_pub O crv x = true ->
   exists dict, export_native (NOkpPrv crv x d) false = Ok dict /\
                export_native (NOkpPub crv x) false = Ok dict /\
                dict = [(K "crv", PStr crv); (K "x", PStr (b64e x))] /\
                import_from_dict O KOKP dict = Ok (NOkpPub crv x)).
Proof.
  intros Kn Bx Bd. split; intros HO.
  - exists [(K "crv", PStr crv); (K "x", PStr (b64e x)); (K "d", PStr (b64e d))].
    split; [reflexivity|]. split; [reflexivity|].
    cbn [import_from_dict]. unfold import_okp.
    set (D := [(K "crv", PStr crv); (K "x", PStr (b64e x)); (K "d", PStr (b64e d))]).
    replace (get_str D "crv") with (@Ok str crv) by reflexivity. cbn [bind]. rewrite Kn. cbn [negb].
    replace (has D "d") with true by reflexivity.
    rewrite (dec_oct_at D "d" _ d eq_refl (b64e_alphabet d Bd) (b64_roundtrip d Bd)). cbn [bind].
    rewrite HO. cbn [bind].
    rewrite (dec_oct_at D "x" _ x eq_refl (b64e_alphabet x Bx) (b64_roundtrip x Bx)). cbn [bind].
    replace (beqb x x) with true by (symmetry; apply beqb_eq; reflexivity). reflexivity.
  - exists [(K "crv", PStr crv); (K "x", PStr (b64e x))].
    split; [reflexivity|]. split; [reflexivity|]. split; [reflexivity|].
    cbn [import_from_dict]. unfold import_okp.
    set (D := [(K "crv", PStr crv); (K "x", PStr (b64e x))]).
    replace (get_str D "crv") with (@Ok str crv) by reflexivity. cbn [bind]. rewrite Kn. cbn [negb].
    replace (has D "d") with false by reflexivity.
    rewrite (dec_oct_at D "x" _ x eq_refl (b64e_alphabet x Bx) (b64_roundtrip x Bx)). cbn [bind].
    rewrite HO. reflexivity.
Qed.

(* ------------------------------------------------------------------ *)
(* no '=' (nor any character outside the base64url alphabet) in any     *)
(* exported member                                                     *)
(* ------------------------------------------------------------------ *)
Definition native_wf (n : native) : Prop :=
  match n with
  | NOct k => bytes_ok k = true
  | NOkpPub _ x => bytes_ok x = true
  | NOkpPrv _ x d => bytes_ok x = true /\ bytes_ok d = true
  | _ => True
  end.

Lemma export_rsa_pub_members m dct : export_rsa_pub m = Ok dct ->
  forall k s, In (k, PStr s) dct -> forallb in_alphabet s = true.
Proof.
  unfold export_rsa_pub. intros H. inv_bind H. inv_bind H. inversion H; subst dct.
  apply i2b_inv in Ha, Ha0. destruct Ha as [-> _], Ha0 as [-> _].
  intros k s [E|[E|[]]]; inversion E; apply enc_min_alpha.
Qed.

Lemma export_ec_pub_members crv x y dct : export_ec_pub crv x y = Ok dct ->
  forall k s, In (k, PStr s) dct -> k <> K "crv" -> forallb in_alphabet s = true.
Proof.
  unfold export_ec_pub. destruct (ec_bits crv) as [bits|]; [|discriminate].
  intros H. inv_bind H. inv_bind H. inversion H; subst dct.
  apply fixed_inv in Ha, Ha0. subst.
  intros k s [E|[E|[E|[]]]] NK; inversion E; subst; try congruence;
    apply b64e_alphabet, I2OSP_bytes_ok.
Qed.

Theorem unpadded n private dct :
  native_wf n -> export_native n private = Ok dct ->
  forall k s, In (k, PStr s) dct -> k <> K "crv" ->
    forallb in_alphabet s = true /\ ~ In 61 s.
Proof.
  intros W E k s I NK.
  assert (A : forallb in_alphabet s = true); [|split; [exact A | apply alpha_no_pad, A]].
  destruct n; cbn [export_native native_wf] in *.
  - inversion E; subst dct. destruct I as [I|[]]. inversion I. apply b64e_alphabet, W.
  - destruct private; [discriminate|]. eapply export_rsa_pub_members; eassumption.
  - destruct private; [|eapply export_rsa_pub_members; eassumption].
    unfold export_rsa_prv in E. do 8 inv_bind E. inversion E; subst dct.
    repeat match goal with H : int_to_base64 _ = Ok _ |- _ => apply i2b_inv in H; destruct H as [-> _] end.
    cbn [In] in I.
    repeat (destruct I as [I|I]; [inversion I; apply enc_min_alpha|]). destruct I.
  - destruct private; [discriminate|]. eapply export_ec_pub_members; eassumption.
  - destruct private; [|eapply export_ec_pub_members; eassumption].
    unfold export_ec_prv in E. destruct (ec_bits crv) as [bits|]; [|discriminate].
    do 3 inv_bind E. inversion E; subst dct.
    repeat match goal with H : int_to_fixed_base64 _ _ = Ok _ |- _ => apply fixed_inv in H; subst end.
    cbn [In] in I. destruct I as [I|I]; [inversion I; congruence|].
    repeat (destruct I as [I|I]; [inversion I; apply b64e_alphabet, I2OSP_bytes_ok|]). destruct I.
  - destruct private; [discriminate|]. inversion E; subst dct.
    cbn [In] in I. destruct I as [I|I]; [inversion I; congruence|].
    destruct I as [I|[]]. inversion I. apply b64e_alphabet, W.
  - destruct W as [Wx Wd].
    destruct private; inversion E; subst dct; cbn [In] in I;
      (destruct I as [I|I]; [inversion I; congruence|]);
      repeat (destruct I as [I|I]; [inversion I; apply b64e_alphabet; assumption|]); destruct I.
Qed.

(* ------------------------------------------------------------------ *)
(* key level: key_of_native n, its JWK view, and import of that view    *)
(* ------------------------------------------------------------------ *)
Lemma dset_absent {A} (d : list (str * A)) k v : dmem d k = false -> dset d k v = d ++ [(k, v)].
Proof.
  unfold dmem. induction d as [|[k' v'] d IH]; simpl; [reflexivity|].
  destruct (str_eqb k' k); [discriminate|]. intros H. rewrite IH by exact H. reflexivity.
Qed.

Lemma dget_app_absent {A} (d : list (str * A)) k' v' k :
  k <> k' -> dget (d ++ [(k', v')]) k = dget d k.
Proof.
  intros N. induction d as [|[k1 v1] d IH]; simpl.
  - destruct (str_eqb k' k) eqn:E; [apply str_eqb_eq in E; congruence | reflexivity].
  - destruct (str_eqb k1 k); [reflexivity | exact IH].
Qed.

Lemma dget_app_self {A} (d : list (str * A)) k v : dmem d k = false -> dget (d ++ [(k, v)]) k = Some v.
Proof.
  unfold dmem. induction d as [|[k1 v1] d IH]; simpl.
  - rewrite str_eqb_refl. reflexivity.
  - destruct (str_eqb k1 k); [discriminate | exact IH].
Qed.

Definition same_but_kty (d1 d2 : dict) : Prop := forall k, k <> K "kty" -> dget d1 k = dget d2 k.

Ltac nk := let H := fresh in intro H; vm_compute in H; discriminate H.

Lemma import_indep_kty O kt d1 d2 : same_but_kty d1 d2 -> import_from_dict O kt d1 = import_from_dict O kt d2.
Proof.
  intros S.
  assert (G : forall k, K k <> K "kty" -> get_str d1 k = get_str d2 k)
    by (intros k N; unfold get_str; rewrite (S _ N); reflexivity).
  assert (Hh : forall k, K k <> K "kty" -> has d1 k = has d2 k)
    by (intros k N; unfold has, dmem; rewrite (S _ N); reflexivity).
  assert (DI : forall k, K k <> K "kty" -> dec_int d1 k = dec_int d2 k)
    by (intros k N; unfold dec_int; rewrite (G _ N); reflexivity).
  assert (DO : forall k, K k <> K "kty" -> dec_oct d1 k = dec_oct d2 k)
    by (intros k N; unfold dec_oct; rewrite (G _ N); reflexivity).
  destruct kt; cbn [import_from_dict].
  - unfold import_oct. rewrite (DO "k"%string) by nk. reflexivity.
  - unfold import_rsa, has_all_prime_factors, crt_names, private_without_d. cbn [map existsb].
    rewrite (Hh "d"%string), (Hh "oth"%string), (Hh "p"%string), (Hh "q"%string), (Hh "dp"%string),
            (Hh "dq"%string), (Hh "qi"%string) by nk.
    rewrite (DI "e"%string), (DI "n"%string), (DI "d"%string), (DI "p"%string), (DI "q"%string),
            (DI "dp"%string), (DI "dq"%string), (DI "qi"%string) by nk.
    reflexivity.
  - unfold import_ec. rewrite (G "crv"%string), (Hh "d"%string) by nk.
    rewrite (DI "x"%string), (DI "y"%string), (DI "d"%string) by nk. reflexivity.
  - unfold import_okp. rewrite (G "crv"%string), (Hh "d"%string) by nk.
    rewrite (DO "x"%string), (DO "d"%string) by nk. reflexivity.
Qed.

Theorem key_roundtrip O n dct :
  export_native n (is_private n) = Ok dct ->
  import_from_dict O (kt_of_native n) dct = Ok n ->
  dmem dct (K "kty") = false ->
  validate_dict_key (kt_of_native n) (dct ++ [(K "kty", PStr (asc (kt_name (kt_of_native n))))]) = Ok tt ->
  exists k k', key_of_native n [] = Ok k /\ as_dict k None [] = Ok (k_dict k) /\
    k_dict k = dct ++ [(K "kty", PStr (asc (kt_name (kt_of_native n))))] /\
    import_key O (kt_of_native n) (k_dict k) [] = Ok k' /\ k_native k' = n /\ k_dict k' = k_dict k.
Proof.
  intros E I M V.
  set (kt := kt_of_native n) in *. set (D := dct ++ [(K "kty", PStr (asc (kt_name kt)))]) in *.
  assert (KD : key_of_native n [] = Ok {| k_type := kt; k_native := n; k_dict := D |}).
  { unfold key_of_native. rewrite E. cbn [bind]. rewrite dupdate_nil, dset_absent by exact M.
    fold kt. fold D. rewrite V. reflexivity. }
  assert (I2 : import_from_dict O kt D = Ok n).
  { rewrite <- I. apply import_indep_kty. intros k N. apply dget_app_absent, N. }
  assert (ID : init_data kt D [] = D).
  { unfold init_data. rewrite dupdate_nil. apply dset_same. unfold D. apply dget_app_self, M. }
  exists {| k_type := kt; k_native := n; k_dict := D |},
         {| k_type := kt; k_native := n; k_dict := D |}.
  split; [exact KD|]. split; [reflexivity|]. split; [reflexivity|]. cbn [k_dict k_native].
  split; [|split; reflexivity].
  rewrite <- ID at 2. apply import_key_intro; [exact V | exact I2 | rewrite ID; exact V].
Qed.

Definition rt_statement (O : oracles) (n : native) : Prop :=
  exists k k', key_of_native n [] = Ok k /\ as_dict k None [] = Ok (k_dict k) /\
    import_key O (kt_of_native n) (k_dict k) [] = Ok k' /\ k_native k' = n /\ k_dict k' = k_dict k.

Lemma rt_from O n dct :
  export_native n (is_private n) = Ok dct ->
  import_from_dict O (kt_of_native n) dct = Ok n ->
  dmem dct (K "kty") = false ->
  validate_dict_key (kt_of_native n) (dct ++ [(K "kty", PStr (asc (kt_name (kt_of_native n))))]) = Ok tt ->
  rt_statement O n.
Proof.
  intros E I M V. destruct (key_roundtrip O n dct E I M V) as (k & k' & A & B & _ & C & D & F).
  exists k, k'. auto.
Qed.

Theorem ec_key_roundtrip O crv bits x y d :
  ec_bits crv = Some bits -> (0 < coord_len bits)%nat ->
  in_range bits x -> in_range bits y -> in_range bits d ->
  (o_ec_prv O crv x y d = true -> rt_statement O (NEcPrv crv x y d)) /\
  (o_ec_pub O crv x y = true -> rt_statement O (NEcPub crv x y)).
Proof.
  intros B HL Hx Hy Hd.
  destruct (ec_export_import O crv bits x y d B HL Hx Hy Hd) as [P1 P2].
  split; intros HO.
  - destruct (P1 HO) as (dct & E & I). cbn [export_native] in E.
    rewrite (export_ec_prv_eq crv bits x y d B Hx Hy Hd) in E. inversion E; subst dct.
    eapply rt_from; [cbn [export_native is_private]; apply (export_ec_prv_eq crv bits); assumption
                    | exact I | reflexivity | reflexivity].
  - destruct (P2 HO) as (dct & _ & E & I). cbn [export_native] in E.
    rewrite (export_ec_pub_eq crv bits x y B Hx Hy) in E. inversion E; subst dct.
    eapply rt_from; [cbn [export_native is_private]; apply (export_ec_pub_eq crv bits); assumption
                    | exact I | reflexivity | reflexivity].
Qed.

Theorem rsa_key_roundtrip O m :
  rsa_prv_pos m ->
  (o_rsa_prv O m = true -> rt_statement O (NRsaPrv m)) /\
  (o_rsa_pub O (r_n (r_pub m)) (r_e (r_pub m)) = true -> rt_statement O (NRsaPub (r_pub m))).
Proof.
  intros P. destruct (rsa_export_import O m P) as [P1 P2]. split; intros HO.
  - destruct (P1 HO) as (E & I).
    eapply rt_from; [exact E | exact I | reflexivity | reflexivity].
  - destruct (P2 HO) as (_ & E & I).
    eapply rt_from; [exact E | exact I | reflexivity | reflexivity].
Qed.

Theorem okp_key_roundtrip O crv x d :
  okp_known crv = true -> bytes_ok x = true -> bytes_ok d = true ->
  (o_okp_prv O crv d = Ok x -> rt_statement O (NOkpPrv crv x d)) /\
  (o_okp_pub O crv x = true -> rt_statement O (NOkpPub crv x)).
Proof.
  intros Kn Bx Bd. destruct (okp_rt O crv x d Kn Bx Bd) as [P1 P2]. split; intros HO.
  - destruct (P1 HO) as (dct & E & -> & I).
    eapply rt_from; [exact E | exact I | reflexivity | reflexivity].
  - destruct (P2 HO) as (dct & _ & E & -> & I).
    eapply rt_from; [exact E | exact I | reflexivity | reflexivity].
Qed.

Theorem oct_key_roundtrip O k : bytes_ok k = true -> rt_statement O (NOct k).
Proof.
  intros B. destruct (oct_rt O k B) as (dct & E & _ & -> & I).
  eapply rt_from; [exact E | exact I | reflexivity | reflexivity].
Qed.

(* ------------------------------------------------------------------ *)
(* what every accepted JWK satisfies                                   *)
(* ------------------------------------------------------------------ *)
Theorem reject O kt d ps k :
  import_key O kt d ps = Ok k ->
  dict_key_spec kt d /\ dict_key_spec kt (init_data kt d ps) /\ import_spec O kt d (k_native k).
Proof.
  intros H. apply import_key_inv in H. destruct H as (V1 & I & V2 & _ & _).
  split; [apply validate_dict_key_spec, V1|]. split; [apply validate_dict_key_spec, V2|].
  apply import_from_dict_spec, I.
Qed.

(* converse error classes *)
Lemma registry_missing_kty O d ps :
  dget d (K "kty") = None -> registry_import O d None ps = Err (EJose MissingKeyTypeError).
Proof. intros H. unfold registry_import. rewrite H. reflexivity. Qed.

Lemma registry_unknown_kty O d ps s :
  dget d (K "kty") = Some (PStr s) -> str_mem s (map asc key_types) = false ->
  registry_import O d None ps = Err (EJose InvalidKeyTypeError).
Proof. intros H M. unfold registry_import. rewrite H. cbn [bind]. rewrite M. reflexivity. Qed.

Lemma registry_known_kty O d ps kt :
  dget d (K "kty") = Some (PStr (asc (kt_name kt))) ->
  registry_import O d None ps = import_key O kt d ps.
Proof. intros H. unfold registry_import. rewrite H. destruct kt; reflexivity. Qed.

Lemma missing_required_refused O kt d ps p :
  In p (jwk_parameter_registry ++ value_registry kt) -> kp_required p = true ->
  dmem d (K (kp_name p)) = false -> forall k, import_key O kt d ps <> Ok k.
Proof.
  intros I R M k H. apply reject in H. destruct H as ((V1 & V2 & _) & _).
  apply in_app_or in I. destruct I as [I|I];
    [destruct (V1 p I) as [H _] | destruct (V2 p I) as [H _]]; specialize (H R); congruence.
Qed.

Lemma ill_typed_refused O kt d ps p v :
  In p (jwk_parameter_registry ++ value_registry kt) ->
  dget d (K (kp_name p)) = Some v -> ~ kind_spec (kp_kind p) v ->
  forall k, import_key O kt d ps <> Ok k.
Proof.
  intros I G NS k H. apply reject in H. destruct H as ((V1 & V2 & _) & _).
  apply in_app_or in I. destruct I as [I|I];
    [destruct (V1 p I) as [_ H] | destruct (V2 p I) as [_ H]]; apply NS, H, G.
Qed.

Lemma partial_crt_refused O d ps :
  has d "d" = true -> ~ crt_all d -> ~ crt_none d -> forall k, import_key O KRSA d ps <> Ok k.
Proof.
  intros Hd NA NN k H. apply reject in H. destruct H as (_ & _ & S).
  cbn [import_spec] in S. destruct S as (nn & e & _ & _ & S). rewrite Hd in S.
  destruct S as (_ & [C|C] & _); tauto.
Qed.

Lemma contradictory_use_ops_refused O kt d ps s l ops op :
  dget d (K "use") = Some (PStr s) -> assoc_str use_key_ops_registry s = Some l ->
  dget d (K "key_ops") = Some (PList ops) -> In op ops -> ~ choice_str l op ->
  forall k, import_key O kt d ps <> Ok k.
Proof.
  intros U A Kp I NC k H. apply reject in H. destruct H as ((_ & _ & S) & _).
  destruct (S _ _ U Kp) as (s' & l' & items & E & A' & It & F).
  inversion E; subst s'. rewrite A in A'. inversion A'; subst l'.
  cbn [py_iter] in It. inversion It; subst items.
  rewrite Forall_forall in F. apply NC, F, I.
Qed.

(* ------------------------------------------------------------------ *)
(* converse: the Spec is sufficient (full characterisation of import)   *)
(* ------------------------------------------------------------------ *)
Lemma crt_all_has d : crt_all d -> has_all_prime_factors d = Ok true.
Proof.
  intros H. unfold has_all_prime_factors, crt_names in *. cbn [map].
  rewrite !H by (cbn; tauto). reflexivity.
Qed.

Lemma crt_none_has d : crt_none d -> has_all_prime_factors d = Ok false.
Proof.
  intros H. unfold has_all_prime_factors, crt_names in *. cbn [map].
  rewrite !H by (cbn; tauto). reflexivity.
Qed.

Lemma import_spec_complete O kt d n : import_spec O kt d n -> import_from_dict O kt d = Ok n.
Proof.
  destruct kt; cbn [import_from_dict import_spec].
  - intros (k & E & ->). unfold import_oct. rewrite E. reflexivity.
  - intros (nn & e & En & Ee & H). unfold import_rsa. destruct (has d "d").
    + destruct H as (Ho & _ & dd & Ed & m & -> & Hm & [C|C]).
      * destruct C as (CA & <- & <- & <- & Ep & Eq & Edp & Edq & Eqi).
        rewrite Ho, Ee, En. cbn [bind]. rewrite (crt_all_has d CA). cbn [bind].
        rewrite Ed, Ep, Eq, Edp, Edq, Eqi. cbn [bind].
        destruct m as [[n0 e0] d0 p q dp dq qi]. cbn in *. rewrite Hm. reflexivity.
      * destruct C as (CN & Ec).
        rewrite Ho, Ee, En. cbn [bind]. rewrite (crt_none_has d CN). cbn [bind].
        rewrite Ed. cbn [bind]. rewrite Ec. cbn [bind]. rewrite Hm. reflexivity.
    + destruct H as (CN & Ho & -> & Hm). rewrite (no_private_without_d_inv d CN Ho).
      rewrite Ee, En. cbn [bind]. rewrite Hm. reflexivity.
  - intros (crv & bits & x & y & Ec & B & Ex & Ey & H). unfold import_ec.
    rewrite Ec. cbn [bind]. rewrite B, Ex, Ey. cbn [bind]. destruct (has d "d").
    + destruct H as (dd & Ed & Hm & ->). rewrite Ed. cbn [bind]. rewrite Hm. reflexivity.
    + destruct H as (Hm & ->). rewrite Hm. reflexivity.
  - intros (crv & Ec & Kn & H). unfold import_okp. rewrite Ec. cbn [bind]. rewrite Kn. cbn [negb].
    destruct (has d "d").
    + destruct H as (dd & x & Ed & Hm & Ex & ->). rewrite Ed. cbn [bind]. rewrite Hm. cbn [bind].
      rewrite Ex. cbn [bind]. replace (beqb x x) with true by (symmetry; apply beqb_eq; reflexivity).
      reflexivity.
    + destruct H as (x & Ex & Hm & ->). rewrite Ex. cbn [bind]. rewrite Hm. reflexivity.
Qed.

Theorem import_iff O kt d ps k :
  import_key O kt d ps = Ok k <->
  dict_key_spec kt d /\ dict_key_spec kt (init_data kt d ps) /\ import_spec O kt d (k_native k) /\
  k_dict k = init_data kt d ps /\ k_type k = kt.
Proof.
  split.
  - intros H. pose proof (reject O kt d ps k H) as (A & B & C).
    apply import_key_inv in H. destruct H as (_ & _ & _ & E1 & E2). auto.
  - intros (A & B & C & E1 & E2).
    apply validate_dict_key_spec in A, B. apply import_spec_complete in C.
    rewrite (import_key_intro O kt d ps (k_native k) A C B).
    destruct k as [t n dd]. cbn in *. subst. reflexivity.
Qed.

(* ------------------------------------------------------------------ *)
(* validation sees the dict completed with the parameters; export views  *)
(* ------------------------------------------------------------------ *)
Lemma import_validates_merged O kt d ps :
  (forall k, import_key O kt d ps = Ok k ->
     validate_dict_key kt d = Ok tt /\ validate_dict_key kt (init_data kt d ps) = Ok tt) /\
  (validate_dict_key kt (init_data kt d ps) <> Ok tt -> forall k, import_key O kt d ps <> Ok k) /\
  (validate_dict_key kt d <> Ok tt -> forall k, import_key O kt d ps <> Ok k).
Proof.
  split; [|split].
  - intros k H. apply import_key_inv in H. tauto.
  - intros N k H. apply import_key_inv in H. tauto.
  - intros N k H. apply import_key_inv in H. tauto.
Qed.

Lemma dget_filter_key (f : str -> bool) (d : dict) m :
  dget (filter (fun kv => f (fst kv)) d) m = if f m then dget d m else None.
Proof.
  induction d as [|[k v] d IH]; simpl; [destruct (f m); reflexivity|].
  destruct (str_eqb k m) eqn:E.
  - apply str_eqb_eq in E. subst k. destruct (f m) eqn:F; simpl.
    + rewrite str_eqb_refl. reflexivity.
    + rewrite IH; try rewrite F; reflexivity.
  - destruct (f k); simpl; [rewrite E|]; exact IH.
Qed.

Definition private_names (kt : ktype) : list string :=
  map kp_name (filter (fun p => match kp_private p with Some true => true | _ => false end) (value_registry kt)).

Lemma private_names_ok :
  private_names KOct = ["k"]%string /\
  private_names KRSA = ["d"; "p"; "q"; "dp"; "dq"; "qi"; "oth"]%string /\
  private_names KEC = ["d"]%string /\ private_names KOKP = ["d"]%string.
Proof. repeat split; reflexivity. Qed.

Lemma is_private_member_names kt m :
  is_private_member kt m = str_mem m (map asc (private_names kt)).
Proof.
  unfold is_private_member, private_names.
  induction (value_registry kt) as [|p r IH]; [reflexivity|].
  cbn [existsb filter]. rewrite IH.
  destruct (kp_private p) as [[|]|]; cbn [map str_mem]; unfold K;
    rewrite ?andb_false_r, ?andb_true_r; reflexivity.
Qed.

(* the three views of a key are functions of its dict and of ITS OWN type's
   registry only: nothing else (no other key, no earlier export) enters *)
Theorem export_views (k : key) ps :
  as_dict k None ps = Ok (dupdate (k_dict k) ps) /\
  (is_private (k_native k) = true -> as_dict k (Some true) ps = Ok (dupdate (k_dict k) ps)) /\
  (is_private (k_native k) = false -> as_dict k (Some true) ps = Err EValue) /\
  (exists pub, as_dict k (Some false) [] = Ok pub /\
     forall m, dget pub m = if str_mem m (map asc (private_names (k_type k))) then None else dget (k_dict k) m).
Proof.
  unfold as_dict. split; [reflexivity|]. split; [intros ->; reflexivity|]. split; [intros ->; reflexivity|].
  eexists. split; [reflexivity|]. intros m. rewrite dupdate_nil.
  rewrite (dget_filter_key (fun x => negb (is_private_member (k_type k) x))).
  rewrite is_private_member_names. destruct (str_mem m _); reflexivity.
Qed.

(* ------------------------------------------------------------------ *)
(* table facts (expected literals from RFC 7517 / 7518 / 8037 / 8812)   *)
(* ------------------------------------------------------------------ *)
Definition required_names (reg : list kparam) : list string :=
  map kp_name (filter kp_required reg).
Definition member_kinds (reg : list kparam) : list (string * vkind) :=
  map (fun p => (kp_name p, kp_kind p)) reg.

Lemma tables_ok :
  map (fun r => (cv_name r, coord_len (cv_bits r))) ec_curves
    = [("P-256", 32); ("P-384", 48); ("P-521", 66); ("secp256k1", 32)]%string%nat /\
  map (fun t => fst (fst t)) okp_curves = ["Ed25519"; "Ed448"; "X25519"; "X448"]%string /\
  key_types = map kt_name kt_all /\
  required_names jwk_parameter_registry = ["kty"]%string /\
  required_names value_registry_oct = ["k"]%string /\
  required_names value_registry_RSA = ["n"; "e"]%string /\
  required_names value_registry_EC = ["crv"; "x"; "y"]%string /\
  required_names value_registry_OKP = ["crv"; "x"]%string /\
  member_kinds jwk_parameter_registry =
    [("kty", VStr); ("use", VChoiceStr ["sig"; "enc"]);
     ("key_ops", VChoiceList ["sign"; "verify"; "encrypt"; "decrypt"; "wrapKey"; "unwrapKey"; "deriveKey"; "deriveBits"]);
     ("alg", VStr); ("kid", VStr); ("x5u", VUrl); ("x5c", VListStr); ("x5t", VStr); ("x5t#S256", VStr)]%string /\
  member_kinds value_registry_oct = [("k", VStr)]%string /\
  member_kinds value_registry_RSA =
    [("n", VStr); ("e", VStr); ("d", VStr); ("p", VStr); ("q", VStr); ("dp", VStr); ("dq", VStr);
     ("qi", VStr); ("oth", VNone)]%string /\
  member_kinds value_registry_EC = [("crv", VStr); ("x", VStr); ("y", VStr); ("d", VStr)]%string /\
  member_kinds value_registry_OKP = [("crv", VStr); ("x", VStr); ("d", VStr)]%string /\
  use_key_ops_registry =
    [("sig", ["sign"; "verify"]);
     ("enc", ["encrypt"; "decrypt"; "wrapKey"; "unwrapKey"; "deriveKey"; "deriveBits"])]%string.
Proof. repeat split; reflexivity. Qed.

(* ------------------------------------------------------------------ *)
(* concrete instances: non-vacuity, and places where the faithful model *)
(* does not meet the property text                                     *)
(* ------------------------------------------------------------------ *)
Definition O_yes : oracles :=
  {| o_rsa_pub := fun _ _ => true; o_rsa_prv := fun _ => true;
     o_rsa_complete := fun _ _ _ => Err EValue;
     o_ec_pub := fun _ _ _ => true; o_ec_prv := fun _ _ _ _ => true;
     o_okp_pub := fun _ _ => true; o_okp_prv := fun _ d => Ok d |}.

Definition ex_rsa_pub_with_p : dict :=
  [(K "kty", PStr (asc "RSA")); (K "n", PStr (asc "sXchDaQebHnPiGvyDOAT4saGEUetSyo9MKLOoWFsueri23bOdgWp4Dy1WlUzewbgBHod5pcM9H95GQRV3JDXboIRROSBigeC5yjU1hGzHHyXss8UDprecbAYxknTcQkhslANGRUZmdTOQ5qTRsLAt6BTYuyvVRdhS8exSZEy_c4gs_7svlJJQ4H9_NxsiIoLwAEk7-Q3UXERGYw_75IDrGA84-lA_-Ct4eTlXHBIY2EaV7t7LjJaynVJCpkv4LKjTTAumiGUIuQhrNhZLuF_RJLqHpM2kgWFLU7-VTdL1VbC2tejvcI2BlMkEpk1BzBZI0KQB0GaDWFLN-aEAw3vRw"));
   (K "e", PStr (asc "AQAB")); (K "p", PStr (asc "!!!"))].

Definition ex_okp_bad_x : dict :=
  [(K "kty", PStr (asc "OKP")); (K "crv", PStr (asc "Ed25519")); (K "x", PStr (asc "!!!"));
   (K "d", PStr (asc "nWGxne_9WmC6hEr0kuwsxERJxWl7MmkZcDusAxyuf2A"))].

(* formerly accepted (model of /repo before a02d1ea / a8ff773), now refused *)
Lemma old_witnesses_refused :
  has ex_rsa_pub_with_p "d" = false /\ has ex_rsa_pub_with_p "p" = true /\
  has ex_rsa_pub_with_p "q" = false /\
  import_key O_yes KRSA ex_rsa_pub_with_p [] = Err EValue /\
  has ex_okp_bad_x "d" = true /\ dec_oct ex_okp_bad_x "x" = Err EValue /\
  import_key O_yes KOKP ex_okp_bad_x [] = Err EValue /\
  (* x decodes but is not the public key of d (O_yes: public bytes of d := d) *)
  import_key O_yes KOKP (dset ex_okp_bad_x (K "x") (PStr (asc "nWGxne_9WmC6hEr0kuwsxERJxWl7MmkZcDusAxyuf2Q"))) [] = Err EValue /\
  (exists k, import_key O_yes KOKP (dset ex_okp_bad_x (K "x") (PStr (asc "nWGxne_9WmC6hEr0kuwsxERJxWl7MmkZcDusAxyuf2A"))) [] = Ok k).
Proof.
  repeat split; try reflexivity; try (vm_compute; reflexivity).
  eexists. vm_compute. reflexivity.
Qed.

Lemma rsa_private_member_without_d_refused O d ps c :
  has d "d" = false -> In c private_without_d -> has d c = true ->
  forall k, import_key O KRSA d ps <> Ok k.
Proof.
  intros Hd I Hc k H. apply reject in H. destruct H as (_ & _ & S).
  cbn [import_spec] in S. destruct S as (nn & e & _ & _ & S). rewrite Hd in S.
  destruct S as (CN & Ho & _).
  unfold private_without_d in I. cbn [In] in I.
  destruct I as [<-|[<-|[<-|[<-|[<-|[<-|[]]]]]]];
    try (rewrite CN in Hc by (unfold crt_names; cbn; tauto); discriminate).
  congruence.
Qed.

Definition key_op_names : list string :=
  ["sign"; "verify"; "encrypt"; "decrypt"; "wrapKey"; "unwrapKey"; "deriveKey"; "deriveBits"]%string.

Lemma use_key_ops_typed O kt d ps k :
  import_key O kt d ps = Ok k ->
  (forall u, dget d (K "use") = Some u -> choice_str ["sig"; "enc"]%string u) /\
  (forall o, dget d (K "key_ops") = Some o ->
     exists l, o = PList l /\ Forall (choice_str key_op_names) l).
Proof.
  intros H. apply reject in H. destruct H as ((V1 & _ & _) & _).
  split.
  - intros u G.
    destruct (V1 {| kp_name := "use"; kp_kind := VChoiceStr ["sig"; "enc"]%string;
                    kp_private := None; kp_required := false |}) as [_ T];
      [right; left; reflexivity|]. exact (T u G).
  - intros o G.
    destruct (V1 {| kp_name := "key_ops"; kp_kind := VChoiceList key_op_names;
                    kp_private := None; kp_required := false |}) as [_ T];
      [right; right; left; reflexivity|]. exact (T o G).
Qed.

Lemma crt_all_or_none O d ps k : import_key O KRSA d ps = Ok k -> crt_all d \/ crt_none d.
Proof.
  intros H. apply reject in H. destruct H as (_ & _ & S).
  cbn [import_spec] in S. destruct S as (nn & e & _ & _ & S).
  destruct (has d "d"); [destruct S as (_ & C & _); exact C | destruct S as (CN & _); right; exact CN].
Qed.

Lemma okp_x_checked O d ps k :
  import_key O KOKP d ps = Ok k -> has d "d" = true ->
  exists crv dd x, k_native k = NOkpPrv crv x dd /\ dec_oct d "x" = Ok x /\
                   dec_oct d "d" = Ok dd /\ o_okp_prv O crv dd = Ok x.
Proof.
  intros H Hd. apply reject in H. destruct H as (_ & _ & S).
  cbn [import_spec] in S. destruct S as (crv & _ & _ & S). rewrite Hd in S.
  destruct S as (dd & x & E1 & E2 & E3 & E4). exists crv, dd, x. auto.
Qed.

Lemma values_decode O kt d ps k :
  import_key O kt d ps = Ok k ->
  forall m, In m (match kt with
                  | KOct => ["k"] | KRSA => ["n"; "e"; "d"; "p"; "q"; "dp"; "dq"; "qi"]
                  | KEC => ["x"; "y"; "d"] | KOKP => ["x"; "d"] end)%string ->
  has d m = true ->
  match kt with KOct | KOKP => exists o, dec_oct d m = Ok o | _ => exists z, dec_int d m = Ok z end.
Proof.
  intros H m I Hm. apply reject in H. destruct H as (_ & _ & S).
  destruct kt; cbn [import_spec] in S; cbn [In] in I.
  - destruct S as (k0 & E & _). destruct I as [<-|[]]. eauto.
  - destruct S as (nn & e & En & Ee & S).
    destruct I as [<-|[<-|I]]; [eauto | eauto |].
    destruct (has d "d") eqn:Hd.
    + destruct S as (_ & _ & dd & Ed & mm & _ & _ & [C|C]).
      * destruct C as (_ & _ & _ & _ & Ep & Eq & Edp & Edq & Eqi).
        destruct I as [<-|[<-|[<-|[<-|[<-|[<-|[]]]]]]]; eauto.
      * destruct C as (CN & _).
        destruct I as [<-|I]; [eauto|]. exfalso.
        destruct I as [<-|[<-|[<-|[<-|[<-|[]]]]]];
          rewrite CN in Hm by (unfold crt_names; cbn; tauto); discriminate.
    + destruct S as (CN & _). exfalso.
      destruct I as [<-|I]; [congruence|].
      destruct I as [<-|[<-|[<-|[<-|[<-|[]]]]]];
        rewrite CN in Hm by (unfold crt_names; cbn; tauto); discriminate.
  - destruct S as (crv & bits & x & y & _ & _ & Ex & Ey & S).
    destruct I as [<-|[<-|[<-|[]]]]; [eauto | eauto |].
    rewrite Hm in S. destruct S as (dd & Ed & _). eauto.
  - destruct S as (crv & _ & _ & S). destruct (has d "d") eqn:Hd.
    + destruct S as (dd & x & Ed & _ & Ex & _). destruct I as [<-|[<-|[]]]; eauto.
    + destruct S as (x & Ex & _). destruct I as [<-|[<-|[]]]; [eauto | congruence].
Qed.

(* member types: "key_ops" given as a JSON string and "use" given as a JSON
   array are refused (accepted before /repo 7fefb53) *)
Definition ex_oct (extra : dict) : dict := [(K "kty", PStr (asc "oct")); (K "k", PStr (asc "AAEC"))] ++ extra.

Lemma choices_retype_witness :
  import_key O_yes KOct (ex_oct [(K "key_ops", PStr (asc "sign"))]) [] = Err EValue /\
  import_key O_yes KOct (ex_oct [(K "use", PList [PStr (asc "sig")])]) [] = Err EValue /\
  (exists k, import_key O_yes KOct (ex_oct [(K "use", PStr (asc "sig")); (K "key_ops", PList [PStr (asc "sign")])]) [] = Ok k) /\
  import_key O_yes KOct (ex_oct [(K "use", PStr (asc "sig")); (K "key_ops", PStr (asc "sign"))]) [] = Err EValue /\
  import_key O_yes KOct (ex_oct [(K "use", PList [PStr (asc "sig")]); (K "key_ops", PList [PStr (asc "sign")])]) [] = Err EValue.
Proof.
  split; [|split; [|split; [|split]]].
  - vm_compute. reflexivity.
  - vm_compute. reflexivity.
  - eexists. vm_compute. reflexivity.
  - vm_compute. reflexivity.
  - vm_compute. reflexivity.
Qed.

(* non-vacuity *)
Definition ex_ec : dict :=
  [(K "kty", PStr (asc "EC")); (K "crv", PStr (asc "P-256"));
   (K "x", PStr (asc "MKBCTNIcKUSDii11ySs3526iDZ8AiTo7Tu6KPAqv7D4"));
   (K "y", PStr (asc "4Etl6SRW2YiLUrN5vfvVHuhp7x8PxltmWWlbbM4IFyM"));
   (K "d", PStr (asc "870MB6gfuTJ4HtUnUvYMyJpr5eUZNP4Bk43bVdj3eAE"));
   (K "use", PStr (asc "sig")); (K "key_ops", PList [PStr (asc "sign"); PStr (asc "verify")])].

Lemma import_instance :
  (exists k, import_key O_yes KEC ex_ec [(K "kid", PStr (asc "1"))] = Ok k /\
             as_dict k None [] = Ok (ex_ec ++ [(K "kid", PStr (asc "1"))])) /\
  (exists k, registry_import O_yes ex_ec None [] = Ok k /\ as_dict k None [] = Ok ex_ec) /\
  import_key O_yes KEC (ex_ec ++ [(K "x5u", PStr (asc "ftp://x"))]) [] = Err EValue /\
  import_key O_yes KEC (dset ex_ec (K "key_ops") (PList [PStr (asc "sign"); PStr (asc "decrypt")])) [] = Err EValue.
Proof.
  split; [|split; [|split]].
  - eexists. split; vm_compute; reflexivity.
  - eexists. split; vm_compute; reflexivity.
  - vm_compute. reflexivity.
  - vm_compute. reflexivity.
Qed.

Lemma merged_instance :
  (exists k, import_key O_yes KOct (ex_oct [(K "use", PStr (asc "sig"))]) [(K "key_ops", PList [PStr (asc "sign")])] = Ok k) /\
  import_key O_yes KOct (ex_oct [(K "use", PStr (asc "sig"))]) [(K "key_ops", PList [PStr (asc "decrypt")])] = Err EValue /\
  import_key O_yes KOct (ex_oct []) [(K "kid", PInt 0)] = Err EValue /\
  (exists k, import_key O_yes KOct (ex_oct [(K "kid", PStr []); (K "key_ops", PList []); (K "x5c", PList [])]) [] = Ok k) /\
  import_key O_yes KOct (ex_oct [(K "kid", PList [])]) [] = Err EValue.
Proof.
  split; [eexists; vm_compute; reflexivity|]. split; [vm_compute; reflexivity|].
  split; [vm_compute; reflexivity|]. split; [eexists; vm_compute; reflexivity | vm_compute; reflexivity].
Qed.

Lemma ec_p521_instance :
  ec_bits (asc "P-521") = Some 521 /\ coord_len 521 = 66%nat /\
  in_range 521 1 /\ in_range 521 (2 ^ 521 - 1) /\ ~ in_range 521 (2 ^ 528) /\
  (exists s o, int_to_fixed_base64 1 521 = Ok s /\ b64d s = Ok o /\ length o = 66%nat /\ hd 1 o = 0).
Proof.
  split; [reflexivity|]. split; [reflexivity|].
  split; [unfold in_range; change (coord_len 521) with 66%nat; lia|].
  split; [unfold in_range; change (coord_len 521) with 66%nat; split; [lia|];
          change (Z.of_nat 66) with 66%Z; apply Z.lt_le_trans with (2 ^ 521)%Z; [lia|];
          change (256 ^ 66)%Z with (2 ^ 528)%Z; apply Z.pow_le_mono_r; lia|].
  split; [unfold in_range; change (coord_len 521) with 66%nat; change (Z.of_nat 66) with 66%Z;
          change (256 ^ 66)%Z with (2 ^ 528)%Z; lia|].
  eexists. eexists. split; [vm_compute; reflexivity|]. split; [vm_compute; reflexivity|].
  split; reflexivity.
Qed.

Lemma rsa_instance :
  rsa_prv_pos {| r_pub := {| r_n := 3233; r_e := 17 |}; r_d := 413; r_p := 61; r_q := 53;
                 r_dp := 53; r_dq := 49; r_qi := 38 |} /\
  enc_min 65537 = asc "AQAB".
Proof. split; [unfold rsa_prv_pos, rsa_pub_pos; cbn; lia | vm_compute; reflexivity]. Qed.
