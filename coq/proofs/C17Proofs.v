(* C17Proofs.v — lemmas behind props/C17.v *)
From Coq Require Import Lia ZifyBool.
From Model Require Import Base TableTypes C17Zip.
From Gen Require Import Tables.
Open Scope N_scope.

(* ---------- helpers ---------- *)
Lemma blen_acc_spec : forall l a, blen_acc l a = a + N.of_nat (length l).
Proof.
  induction l as [|x l IH]; intros a; simpl blen_acc.
  - simpl. lia.
  - rewrite IH. simpl length. lia.
Qed.

Lemma blen_length : forall l, blen l = N.of_nat (length l).
Proof. intros l. unfold blen. rewrite blen_acc_spec. lia. Qed.

Lemma blen_firstn : forall m (x : bytes), blen (firstn (N.to_nat m) x) = N.min m (blen x).
Proof. intros m x. rewrite !blen_length, firstn_length. lia. Qed.

Lemma firstn_all_N : forall m (x : bytes), blen x <= m -> firstn (N.to_nat m) x = x.
Proof. intros m x H. apply firstn_all2. rewrite blen_length in H. lia. Qed.

Lemma starts_with_app : forall pre s, starts_with pre (pre ++ s) = true.
Proof.
  induction pre as [|a pre IH]; intros s; simpl; [reflexivity|].
  rewrite N.eqb_refl, IH. reflexivity.
Qed.

Lemma slice_shape : forall (hdr r trl : bytes),
  length hdr = 2%nat -> length trl = 4%nat -> py_slice_2_m4 (hdr ++ r ++ trl) = r.
Proof.
  intros hdr r trl Hh Ht. unfold py_slice_2_m4.
  destruct hdr as [|a [|b [|c hdr]]]; try discriminate Hh.
  simpl skipn. simpl length. rewrite app_length, Ht.
  replace (S (S (length r + 4)) - 4 - 2)%nat with (length r + 0)%nat by lia.
  rewrite firstn_app_2. simpl. apply app_nil_r.
Qed.

(* proofs never look at the value of the limit *)
Local Opaque zip_max_size.

(* ---------- facts that need no contract ---------- *)
Lemma decompress_bound : forall (z : zoracle) s v,
  decompress z s = Ok v -> blen v <= zip_max_size.
Proof.
  intros z s v. unfold decompress, zip_request, zip_post.
  destruct (z (is_wrapped s) s (zip_max_size + 1)) as [[[value t] e]|err]; [|destruct err; discriminate].
  destruct (zip_max_size <? blen value) eqn:E; simpl; [discriminate|].
  destruct t; [discriminate|]. intros H. inversion H; subst. lia.
Qed.

Lemma decompress_error_class : forall (z : zoracle) s err,
  decompress z s = Err err ->
  err = exceeded \/
  (z (is_wrapped s) s (zip_max_size + 1) = Err EZlib /\ err = EJose DecodeError) \/
  (z (is_wrapped s) s (zip_max_size + 1) = Err err /\ err <> EZlib).
Proof.
  intros z s err. unfold decompress, zip_request, zip_post.
  destruct (z (is_wrapped s) s (zip_max_size + 1)) as [[[value t] e]|err'].
  - destruct ((zip_max_size <? blen value) || t); [|discriminate].
    intros H. inversion H. left. reflexivity.
  - destruct err'; intros H; inversion H; subst; right;
      try (right; split; [reflexivity|discriminate]).
    left. split; reflexivity.
Qed.

Lemma decompress_single_query : forall (z1 z2 : zoracle) s,
  z1 (is_wrapped s) s (zip_max_size + 1) = z2 (is_wrapped s) s (zip_max_size + 1) ->
  decompress z1 s = decompress z2 s.
Proof. intros z1 z2 s H. unfold decompress, zip_request. rewrite H. reflexivity. Qed.

Lemma decompress_requests_bounded : forall (z1 z2 : zoracle),
  (forall w d m, 0 < m -> m <= zip_max_size + 1 -> z1 w d m = z2 w d m) ->
  forall s, decompress z1 s = decompress z2 s.
Proof. intros z1 z2 H s. apply decompress_single_query. apply H; lia. Qed.

Lemma decompressL_fst : forall (z : zoracle) s, fst (decompressL z s) = decompress z s.
Proof. reflexivity. Qed.

Lemma decompressL_trace : forall (z : zoracle) s,
  snd (decompressL z s) = [EvInflate (is_wrapped s) s (zip_max_size + 1)].
Proof. reflexivity. Qed.

Lemma decompress_seq_stateless : forall (z : zoracle) pre s post,
  nth_error (decompress_seq z (pre ++ s :: post)) (length pre) = Some (decompress z s).
Proof.
  intros z pre s post. unfold decompress_seq. rewrite map_app.
  rewrite nth_error_app2; rewrite map_length; [|apply Nat.le_refl].
  rewrite Nat.sub_diag. reflexivity.
Qed.

Lemma decompress_seq_bound : forall (z : zoracle) l v,
  In (Ok v) (decompress_seq z l) -> blen v <= zip_max_size.
Proof.
  intros z l v H. unfold decompress_seq in H. apply in_map_iff in H.
  destruct H as [s [E _]]. eapply decompress_bound; eauto.
Qed.

(* what the model does with the answer, whatever eof says *)
Lemma decompress_ignores_eof : forall (z : zoracle) s out e,
  z (is_wrapped s) s (zip_max_size + 1) = Ok (out, false, e) ->
  blen out <= zip_max_size -> decompress z s = Ok out.
Proof.
  intros z s out e H L. unfold decompress, zip_request, zip_post. rewrite H.
  replace (zip_max_size <? blen out) with false by lia. reflexivity.
Qed.

(* ---------- the tail of _perform_decrypt ---------- *)
Section Tail.
  Variable z : zoracle.
  Variable enc_decrypt : bytes -> bytes -> bytes -> bytes -> bytes -> res bytes.

  Lemma tail_auth_failure : forall allowed zip ct tag cek iv aad e,
    enc_decrypt ct tag cek iv aad = Err e ->
    decrypt_tailL z enc_decrypt allowed zip ct tag cek iv aad = (Err e, [EvDecrypt]).
  Proof. intros. unfold decrypt_tailL. rewrite H. reflexivity. Qed.

  Lemma tail_ok_inv : forall allowed zip ct tag cek iv aad v,
    decrypt_tail z enc_decrypt allowed zip ct tag cek iv aad = Ok v ->
    exists msg, enc_decrypt ct tag cek iv aad = Ok msg /\
      (zip = None -> v = msg) /\
      (forall name, zip = Some name -> get_zip allowed name = Ok tt /\ decompress z msg = Ok v).
  Proof.
    intros allowed zip ct tag cek iv aad v. unfold decrypt_tail, decrypt_tailL.
    destruct (enc_decrypt ct tag cek iv aad) as [msg|e]; simpl; [|discriminate].
    destruct zip as [name|].
    - destruct (get_zip allowed name) as [[]|e] eqn:G; simpl; [|discriminate].
      intros H. exists msg. split; [reflexivity|]. split; [discriminate|].
      intros n Hn. inversion Hn; subst. split; [exact G| exact H].
    - simpl. intros H. inversion H; subst. exists v. split; [reflexivity|].
      split; [reflexivity|discriminate].
  Qed.

  (* every zlib call in the trace comes after the decrypt event, and is made
     on the octets the successful enc.decrypt returned, with max = MAX_SIZE+1 *)
  Lemma tail_trace : forall allowed zip ct tag cek iv aad,
    let t := snd (decrypt_tailL z enc_decrypt allowed zip ct tag cek iv aad) in
    t = [EvDecrypt] \/
    exists msg, enc_decrypt ct tag cek iv aad = Ok msg /\
                t = [EvDecrypt; EvInflate (is_wrapped msg) msg (zip_max_size + 1)].
  Proof.
    intros allowed zip ct tag cek iv aad. unfold decrypt_tailL.
    destruct (enc_decrypt ct tag cek iv aad) as [msg|e]; simpl; [|left; reflexivity].
    destruct zip as [name|]; [|left; reflexivity].
    destruct (get_zip allowed name) as [[]|e]; simpl; [|left; reflexivity].
    right. exists msg. split; reflexivity.
  Qed.

  Lemma tail_bound : forall allowed name ct tag cek iv aad v,
    decrypt_tail z enc_decrypt allowed (Some name) ct tag cek iv aad = Ok v ->
    blen v <= zip_max_size.
  Proof.
    intros. apply tail_ok_inv in H. destruct H as [msg [_ [_ H]]].
    destruct (H name eq_refl) as [_ D]. eapply decompress_bound; eauto.
  Qed.
End Tail.

(* when authentication fails zlib is irrelevant: same result for any two zlibs *)
Lemma tail_auth_failure_indep : forall (z1 z2 : zoracle) encd allowed zip ct tag cek iv aad e,
  encd ct tag cek iv aad = Err e ->
  decrypt_tail z1 encd allowed zip ct tag cek iv aad = Err e /\
  decrypt_tail z2 encd allowed zip ct tag cek iv aad = Err e.
Proof.
  intros. unfold decrypt_tail. rewrite !tail_auth_failure with (e := e) by assumption.
  split; reflexivity.
Qed.

Lemma get_zip_def_default : get_zip None "DEF"%string = Ok tt.
Proof. vm_compute. reflexivity. Qed.

(* ---------- the zip step of perform_encrypt ---------- *)
Lemma encrypt_leaves_plaintext : forall (zcomp : bytes -> bytes) ence allowed obj cek iv aad obj',
  fst (encrypt_tailL zcomp ence allowed obj cek iv aad) = Ok obj' ->
  em_plaintext obj' = em_plaintext obj /\ em_zip obj' = em_zip obj /\
  exists m, ence m cek iv aad = Ok (em_ciphertext obj', em_tag obj') /\
    (em_zip obj = None -> m = em_plaintext obj) /\
    (forall name, em_zip obj = Some name ->
       get_zip allowed name = Ok tt /\ m = compress zcomp (em_plaintext obj)).
Proof.
  intros zcomp ence allowed obj cek iv aad obj'. unfold encrypt_tailL.
  destruct (em_zip obj) as [name|] eqn:Z.
  - destruct (get_zip allowed name) as [[]|e] eqn:G; [|discriminate].
    destruct (ence (compress zcomp (em_plaintext obj)) cek iv aad) as [[ct tag]|e] eqn:E; [|discriminate].
    simpl. intros H. inversion H; subst; simpl. repeat split; try reflexivity.
    exists (compress zcomp (em_plaintext obj)). split; [exact E|]. split; [discriminate|].
    intros n Hn. inversion Hn; subst. split; [exact G|reflexivity].
  - destruct (ence (em_plaintext obj) cek iv aad) as [[ct tag]|e] eqn:E; [|discriminate].
    simpl. intros H. inversion H; subst; simpl. repeat split; try reflexivity.
    exists (em_plaintext obj). split; [exact E|]. split; [reflexivity|discriminate].
Qed.

(* what is compressed and what is handed to enc.encrypt depends on the
   plaintext and zip fields only *)
Lemma encrypt_trace_fields : forall (zcomp : bytes -> bytes) ence allowed a b cek iv aad,
  em_plaintext a = em_plaintext b -> em_zip a = em_zip b ->
  snd (encrypt_tailL zcomp ence allowed a cek iv aad) =
  snd (encrypt_tailL zcomp ence allowed b cek iv aad).
Proof.
  intros zcomp ence allowed a b cek iv aad P Z. unfold encrypt_tailL. rewrite P, Z.
  destruct (em_zip b) as [name|].
  - destruct (get_zip allowed name) as [[]|e]; [|reflexivity].
    destruct (ence (compress zcomp (em_plaintext b)) cek iv aad) as [[ct tag]|e]; reflexivity.
  - destruct (ence (em_plaintext b) cek iv aad) as [[ct tag]|e]; reflexivity.
Qed.

Lemma encrypt_again_same_trace : forall (zcomp : bytes -> bytes) ence allowed obj cek iv aad obj' cek2 iv2 aad2,
  fst (encrypt_tailL zcomp ence allowed obj cek iv aad) = Ok obj' ->
  snd (encrypt_tailL zcomp ence allowed obj' cek2 iv2 aad2) =
  snd (encrypt_tailL zcomp ence allowed obj cek2 iv2 aad2).
Proof.
  intros. apply encrypt_leaves_plaintext in H. destruct H as [P [Z _]].
  apply encrypt_trace_fields; assumption.
Qed.

Lemma encrypt_trace_shape : forall (zcomp : bytes -> bytes) ence allowed obj cek iv aad,
  let t := snd (encrypt_tailL zcomp ence allowed obj cek iv aad) in
  t = [] \/ t = [EvEncrypt (em_plaintext obj)] \/
  t = [EvCompress (em_plaintext obj); EvEncrypt (compress zcomp (em_plaintext obj))].
Proof.
  intros zcomp ence allowed obj cek iv aad. unfold encrypt_tailL.
  destruct (em_zip obj) as [name|].
  - destruct (get_zip allowed name) as [[]|e]; [|left; reflexivity].
    destruct (ence (compress zcomp (em_plaintext obj)) cek iv aad) as [[ct tag]|e]; right; right; reflexivity.
  - destruct (ence (em_plaintext obj) cek iv aad) as [[ct tag]|e]; right; left; reflexivity.
Qed.

(* ---------- under the zlib contract ---------- *)
Section Contract.
  Variable inflate_all : bool -> bytes -> option (bytes * bool).
  Variable zdec : zoracle.
  Variable zcomp : bytes -> bytes.
  Variable raw_deflate : bytes -> bytes.
  Hypothesis ZOK : zlib_ok inflate_all zdec zcomp raw_deflate.

  Lemma materialised_bound : forall s out t e,
    zdec (is_wrapped s) s (zip_max_size + 1) = Ok (out, t, e) -> blen out <= zip_max_size + 1.
  Proof. intros. eapply (z_limit _ _ _ _ ZOK); [|eassumption]. lia. Qed.

  (* full characterisation on every stream zlib can inflate *)
  Lemma decompress_char : forall s x eofx,
    inflate_all (is_wrapped s) s = Some (x, eofx) ->
    decompress zdec s = if blen x <=? zip_max_size then Ok x else Err exceeded.
  Proof.
    intros s x eofx H.
    destruct (z_prefix _ _ _ _ ZOK (is_wrapped s) s (zip_max_size + 1) x eofx) as [t [e [D T]]];
      [lia|exact H|].
    unfold decompress, zip_request, zip_post. rewrite D.
    rewrite blen_firstn.
    destruct (blen x <=? zip_max_size) eqn:L.
    - assert (L' : blen x < zip_max_size + 1) by lia.
      destruct (T L') as [Ht _]. subst t.
      replace (zip_max_size <? N.min (zip_max_size + 1) (blen x)) with false by lia.
      cbn [orb]. rewrite firstn_all_N by lia. reflexivity.
    - replace (zip_max_size <? N.min (zip_max_size + 1) (blen x)) with true by lia.
      reflexivity.
  Qed.

  Lemma expansion_inv : forall w s e,
    expansion_of inflate_all w s = Some e -> inflate_all w s = Some (e, true).
  Proof.
    intros w s e. unfold expansion_of.
    destruct (inflate_all w s) as [[x [|]]|]; intros H; inversion H; reflexivity.
  Qed.

  Lemma no_silent_truncation : forall s e v,
    expansion_of inflate_all (is_wrapped s) s = Some e -> decompress zdec s = Ok v -> v = e.
  Proof.
    intros s e v H D. apply expansion_inv in H. rewrite (decompress_char _ _ _ H) in D.
    destruct (blen e <=? zip_max_size); inversion D; reflexivity.
  Qed.

  Lemma exceeds_raises : forall s e,
    expansion_of inflate_all (is_wrapped s) s = Some e -> zip_max_size < blen e ->
    decompress zdec s = Err exceeded.
  Proof.
    intros s e H L. apply expansion_inv in H. rewrite (decompress_char _ _ _ H).
    replace (blen e <=? zip_max_size) with false by lia. reflexivity.
  Qed.

  Lemma within_limit_accepted : forall s e,
    expansion_of inflate_all (is_wrapped s) s = Some e -> blen e <= zip_max_size ->
    decompress zdec s = Ok e.
  Proof.
    intros s e H L. apply expansion_inv in H. rewrite (decompress_char _ _ _ H).
    replace (blen e <=? zip_max_size) with true by lia. reflexivity.
  Qed.

  Lemma raw_accepted : forall s e,
    starts_with zip_gzip_head s = false ->
    expansion_of inflate_all false s = Some e -> blen e <= zip_max_size ->
    decompress zdec s = Ok e.
  Proof.
    intros s e W H L. apply within_limit_accepted; [|exact L].
    unfold is_wrapped. rewrite W. exact H.
  Qed.

  Lemma zlib_header_accepted : forall s e,
    starts_with zip_gzip_head s = true ->
    expansion_of inflate_all true s = Some e -> blen e <= zip_max_size ->
    decompress zdec s = Ok e.
  Proof.
    intros s e W H L. apply within_limit_accepted; [|exact L].
    unfold is_wrapped. rewrite W. exact H.
  Qed.

  (* the raw expansion of a stream that begins with GZIP_HEAD is never consulted *)
  Lemma raw_prefix_gap : forall s,
    starts_with zip_gzip_head s = true ->
    decompress zdec s = zip_post (zdec true s (zip_max_size + 1)).
  Proof. intros s W. unfold decompress, zip_request, is_wrapped. rewrite W. reflexivity. Qed.

  (* an incomplete stream (eof never reached) within the limit: the prefix
     zlib could produce is returned, no error *)
  Lemma incomplete_returned : forall s x,
    inflate_all (is_wrapped s) s = Some (x, false) -> blen x <= zip_max_size ->
    decompress zdec s = Ok x.
  Proof.
    intros s x H L. rewrite (decompress_char _ _ _ H).
    replace (blen x <=? zip_max_size) with true by lia. reflexivity.
  Qed.

  Lemma compress_raw : forall p, compress zcomp p = raw_deflate p.
  Proof.
    intros p. unfold compress.
    destruct (z_compress_shape _ _ _ _ ZOK p) as [hdr [trl [E [Hh Ht]]]].
    rewrite E. apply slice_shape; assumption.
  Qed.

  Lemma compress_expansion : forall p,
    expansion_of inflate_all (is_wrapped (compress zcomp p)) (compress zcomp p) = Some p.
  Proof.
    intros p. rewrite compress_raw. unfold is_wrapped.
    rewrite (z_raw_head _ _ _ _ ZOK p). unfold expansion_of.
    rewrite (z_raw_inverse _ _ _ _ ZOK p). reflexivity.
  Qed.

  Lemma roundtrip : forall p, blen p <= zip_max_size ->
    decompress zdec (compress zcomp p) = Ok p.
  Proof. intros p L. apply within_limit_accepted; [apply compress_expansion|exact L]. Qed.

  Lemma roundtrip_over : forall p, zip_max_size < blen p ->
    decompress zdec (compress zcomp p) = Err exceeded.
  Proof. intros p L. apply exceeds_raises with (e := p); [apply compress_expansion|exact L]. Qed.

  Lemma wrapped_roundtrip : forall p, blen p <= zip_max_size ->
    decompress zdec (zcomp p) = Ok p.
  Proof.
    intros p L. destruct (z_wrapped_inverse _ _ _ _ ZOK p) as [W I].
    apply zlib_header_accepted; [exact W| |exact L].
    unfold expansion_of. rewrite I. reflexivity.
  Qed.

  (* encrypt then decrypt gives back the object's plaintext, and the object
     still holds it (so does every further encrypt of the same object) *)
  Lemma encrypt_decrypt_rt : forall ence encd allowed obj name cek iv aad obj',
    (forall m ct tag, ence m cek iv aad = Ok (ct, tag) -> encd ct tag cek iv aad = Ok m) ->
    em_zip obj = Some name -> blen (em_plaintext obj) <= zip_max_size ->
    fst (encrypt_tailL zcomp ence allowed obj cek iv aad) = Ok obj' ->
    em_plaintext obj' = em_plaintext obj /\
    decrypt_tail zdec encd allowed (Some name) (em_ciphertext obj') (em_tag obj') cek iv aad
      = Ok (em_plaintext obj).
  Proof.
    intros ence encd allowed obj name cek iv aad obj' AEAD Z L H.
    apply encrypt_leaves_plaintext in H. destruct H as [P [_ [m [E [_ Hz]]]]].
    destruct (Hz name Z) as [G M]. split; [exact P|].
    unfold decrypt_tail, decrypt_tailL. rewrite (AEAD _ _ _ E). rewrite G.
    unfold decompressL. simpl. subst m. apply roundtrip. exact L.
  Qed.

  Lemma reencrypt_rt : forall ence encd allowed obj name cek iv aad obj1 cek2 iv2 aad2 obj2,
    (forall m ct tag, ence m cek2 iv2 aad2 = Ok (ct, tag) -> encd ct tag cek2 iv2 aad2 = Ok m) ->
    em_zip obj = Some name -> blen (em_plaintext obj) <= zip_max_size ->
    fst (encrypt_tailL zcomp ence allowed obj cek iv aad) = Ok obj1 ->
    fst (encrypt_tailL zcomp ence allowed obj1 cek2 iv2 aad2) = Ok obj2 ->
    em_plaintext obj2 = em_plaintext obj /\
    decrypt_tail zdec encd allowed (Some name) (em_ciphertext obj2) (em_tag obj2) cek2 iv2 aad2
      = Ok (em_plaintext obj).
  Proof.
    intros ence encd allowed obj name cek iv aad obj1 cek2 iv2 aad2 obj2 AEAD Z L H1 H2.
    apply encrypt_leaves_plaintext in H1. destruct H1 as [P1 [Z1 _]].
    rewrite <- P1. apply encrypt_decrypt_rt with (ence := ence); try assumption.
    - rewrite Z1. exact Z.
    - rewrite P1. exact L.
  Qed.

  (* the boolean instance checker is implied by the contract *)
  Lemma z_inst_sound : forall w s m, 0 < m ->
    z_inst_ok m (inflate_all w s) (zdec w s m) = true.
  Proof.
    intros w s m Hm. unfold z_inst_ok.
    replace (0 <? m) with true by lia. simpl.
    destruct (inflate_all w s) as [[x eofx]|] eqn:I.
    - destruct (z_prefix _ _ _ _ ZOK w s m x eofx Hm I) as [t [e [D T]]].
      rewrite D. rewrite blen_firstn.
      replace (N.min m (blen x) <=? m) with true by lia. simpl.
      assert (B : beqb (firstn (N.to_nat m) x) (firstn (N.to_nat m) x) = true)
        by (apply beqb_eq; reflexivity).
      rewrite B. simpl.
      destruct (blen x <? m) eqn:L; [|reflexivity].
      destruct T as [Ht He]; [lia|]. subst. simpl. apply Bool.eqb_reflx.
    - destruct (zdec w s m) as [[[out t] e]|err] eqn:D; [|reflexivity].
      pose proof (z_limit _ _ _ _ ZOK w s m out t e Hm D) as L.
      replace (blen out <=? m) with true by lia. reflexivity.
  Qed.
End Contract.

(* ---------- the contract is satisfiable (toy codec) ---------- *)
Lemma gzip_head_value : zip_gzip_head = [120; 156].
Proof. reflexivity. Qed.

Lemma toy_wrapped_inflate : forall p, toy_inflate_all true (toy_comp p) = Some (p, true).
Proof.
  intros p. unfold toy_inflate_all, toy_comp.
  rewrite starts_with_app.
  rewrite skipn_app, skipn_all, Nat.sub_diag. simpl skipn. simpl app. unfold toy_raw.
  simpl app. rewrite app_length. simpl length.
  replace (length p + 4 - 4)%nat with (length p + 0)%nat by lia.
  rewrite firstn_app_2. simpl. rewrite app_nil_r. reflexivity.
Qed.

Lemma toy_contract : zlib_ok toy_inflate_all toy_dec toy_comp toy_raw.
Proof.
  constructor.
  - intros w s m out t e Hm. unfold toy_dec.
    destruct (toy_inflate_all w s) as [[x ex]|]; [|discriminate].
    intros H. inversion H; subst. rewrite blen_firstn. lia.
  - intros w s m x eofx Hm H. unfold toy_dec. rewrite H.
    eexists. eexists. split; [reflexivity|]. intros L. split; [lia|].
    replace (blen x <=? m) with true by lia. reflexivity.
  - intros p. exists zip_gzip_head, [0; 0; 0; 0]. split; [reflexivity|]. split; reflexivity.
  - intros p. reflexivity.
  - intros p. reflexivity.
  - intros p. split; [apply starts_with_app | apply toy_wrapped_inflate].
Qed.

(* a concrete instance of the defect that was repaired: an oracle that obeys
   Z1/Z2 may deliver only 256000 of 256001 octets when asked for 256000 and
   leave nothing unconsumed; the repaired post-condition cannot be fooled
   because it asks for MAX_SIZE+1 (decompress_char).  Recorded as an
   executable example on the toy codec. *)
Definition ones (n : N) : bytes := N.iter n (fun l => 7 :: l) [].

Lemma toy_boundary :
  (res_eqb beqb (decompress toy_dec (toy_raw (ones zip_max_size))) (Ok (ones zip_max_size)) &&
   res_eqb beqb (decompress toy_dec (toy_raw (ones (zip_max_size + 1)))) (Err exceeded) &&
   res_eqb beqb (decompress toy_dec (toy_comp (ones zip_max_size))) (Ok (ones zip_max_size)) &&
   res_eqb beqb (decompress toy_dec (toy_comp (ones (zip_max_size + 1)))) (Err exceeded) &&
   beqb (compress toy_comp (ones 5)) (toy_raw (ones 5)))%bool = true.
Proof. vm_compute. reflexivity. Qed.
