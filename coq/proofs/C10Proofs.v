(* C10Proofs.v — lemmas behind props/C10.v: the claims-validation model
   (model/C10Claims.v) against the Spec (model/C10Spec.v). *)
From Coq Require Import Lia ZifyBool.
From Model Require Import Base PyVal C10Claims C10Spec.
From Gen Require Import TablesC10.
Open Scope Z_scope.

(* ------------------------------------------------------------------ *)
(* generic list / bool facts                                           *)
(* ------------------------------------------------------------------ *)
Lemma existsb_ext_in {A} (f g : A -> bool) l :
  (forall x, In x l -> f x = g x) -> existsb f l = existsb g l.
Proof.
  induction l as [|a l IH]; simpl; intro H; [reflexivity|].
  rewrite (H a (or_introl eq_refl)), IH; [reflexivity|]. intros; apply H; right; assumption.
Qed.

Lemma forallb_ext_in {A} (f g : A -> bool) l :
  (forall x, In x l -> f x = g x) -> forallb f l = forallb g l.
Proof.
  induction l as [|a l IH]; simpl; intro H; [reflexivity|].
  rewrite (H a (or_introl eq_refl)), IH; [reflexivity|]. intros; apply H; right; assumption.
Qed.

Lemma forallb_andb {A} (f g : A -> bool) l :
  forallb (fun x => f x && g x) l = forallb f l && forallb g l.
Proof.
  induction l as [|a l IH]; simpl; [reflexivity|]. rewrite IH.
  destruct (f a), (g a), (forallb f l), (forallb g l); reflexivity.
Qed.

Lemma forallb_In {A} (f : A -> bool) l x : forallb f l = true -> In x l -> f x = true.
Proof. intros H I. rewrite forallb_forall in H. apply H, I. Qed.

Lemma str_eqb_sym a b : str_eqb a b = str_eqb b a.
Proof.
  destruct (str_eqb a b) eqn:E.
  - apply str_eqb_eq in E. subst. symmetry. apply str_eqb_refl.
  - symmetry. apply str_eqb_neq. apply str_eqb_neq in E. congruence.
Qed.

Lemma dget_In {A} (d : list (str * A)) k o : dget d k = Some o -> exists k', In (k', o) d.
Proof.
  induction d as [|[k' v] d IH]; simpl; [discriminate|].
  destruct (str_eqb k' k).
  - intro H; inversion H; subst. exists k'. left; reflexivity.
  - intro H. destruct (IH H) as [k2 I]. exists k2. right; exact I.
Qed.

Lemma dget_None_notin {A} (d : list (str * A)) k k' o : dget d k = None -> In (k', o) d -> k' <> k.
Proof.
  induction d as [|[k2 v] d IH]; simpl; [tauto|].
  destruct (str_eqb k2 k) eqn:E; [discriminate|].
  intros H [I|I].
  - inversion I; subst. apply str_eqb_neq. exact E.
  - apply IH; assumption.
Qed.

Lemma dget_app_skip {A} (l1 l2 : list (str * A)) k v k' :
  k' <> k -> dget (l1 ++ (k, v) :: l2) k' = dget (l1 ++ l2) k'.
Proof.
  intro N. induction l1 as [|[k2 v2] l1 IH]; simpl.
  - destruct (str_eqb k k') eqn:E; [apply str_eqb_eq in E; congruence | reflexivity].
  - rewrite IH. reflexivity.
Qed.

(* ------------------------------------------------------------------ *)
(* the dispatch table                                                  *)
(* ------------------------------------------------------------------ *)
(* the generated table is exactly {aud, exp, iat, nbf}: fails to compile if a
   validate_ method is added to or removed from JWTClaimsRegistry *)
Lemma methods_table : c10_validate_methods = [s_aud; s_exp; s_iat; s_nbf].
Proof. reflexivity. Qed.

Lemma default_leeway_zero : c10_default_leeway = 0.
Proof. reflexivity. Qed.

Lemma methods_kind k :
  str_mem k c10_validate_methods = match kind_of k with KOther => false | _ => true end.
Proof.
  rewrite methods_table. unfold kind_of. cbn [str_mem].
  destruct (str_eqb s_aud k), (str_eqb s_exp k), (str_eqb s_nbf k), (str_eqb s_iat k); reflexivity.
Qed.

Lemma kind_aud k : kind_of k = KAud -> k = s_aud.
Proof.
  unfold kind_of. destruct (str_eqb s_aud k) eqn:E; [intros _; apply str_eqb_eq in E; auto|].
  destruct (str_eqb s_exp k), (str_eqb s_nbf k), (str_eqb s_iat k); discriminate.
Qed.
Lemma kind_exp k : kind_of k = KExp -> k = s_exp.
Proof.
  unfold kind_of. destruct (str_eqb s_aud k); [discriminate|].
  destruct (str_eqb s_exp k) eqn:E; [intros _; apply str_eqb_eq in E; auto|].
  destruct (str_eqb s_nbf k), (str_eqb s_iat k); discriminate.
Qed.
Lemma kind_nbf k : kind_of k = KNbf -> k = s_nbf.
Proof.
  unfold kind_of. destruct (str_eqb s_aud k); [discriminate|].
  destruct (str_eqb s_exp k); [discriminate|].
  destruct (str_eqb s_nbf k) eqn:E; [intros _; apply str_eqb_eq in E; auto|].
  destruct (str_eqb s_iat k); discriminate.
Qed.
Lemma kind_iat k : kind_of k = KIat -> k = s_iat.
Proof.
  unfold kind_of. destruct (str_eqb s_aud k); [discriminate|].
  destruct (str_eqb s_exp k); [discriminate|].
  destruct (str_eqb s_nbf k); [discriminate|].
  destruct (str_eqb s_iat k) eqn:E; [intros _; apply str_eqb_eq in E; auto| discriminate].
Qed.
Lemma kind_s_aud : kind_of s_aud = KAud. Proof. reflexivity. Qed.
Lemma kind_s_exp : kind_of s_exp = KExp. Proof. reflexivity. Qed.
Lemma kind_s_nbf : kind_of s_nbf = KNbf. Proof. reflexivity. Qed.
Lemma kind_s_iat : kind_of s_iat = KIat. Proof. reflexivity. Qed.

(* ------------------------------------------------------------------ *)
(* numbers                                                             *)
(* ------------------------------------------------------------------ *)
Lemma cmp_eqb x y : match x ?= y with Eq => true | _ => false end = (x =? y).
Proof. destruct (Z.compare_spec x y), (Z.eqb_spec x y); try reflexivity; lia. Qed.
Lemma cmp_ltb x y : match x ?= y with Lt => true | _ => false end = (x <? y).
Proof. unfold Z.ltb. destruct (x ?= y); reflexivity. Qed.
Lemma cmp_gtb x y : match x ?= y with Gt => true | _ => false end = (y <? x).
Proof. unfold Z.ltb. rewrite (Z.compare_antisym x y). destruct (x ?= y); reflexivity. Qed.
Lemma cmpopp_eq c : match CompOpp c with Eq => true | _ => false end = match c with Eq => true | _ => false end.
Proof. destruct c; reflexivity. Qed.

Lemma eqb_cong a b c d : (a = b <-> c = d) -> (a =? b) = (c =? d).
Proof. intro H. destruct (Z.eqb_spec a b), (Z.eqb_spec c d); try reflexivity; tauto. Qed.

(* as_time agrees with the Spec's notion of number on JSON values *)
Lemma as_time_jnum v : is_json v = true ->
  match jnum v with
  | Some (n, d) => exists t, as_time v = Some t /\
        (forall T, num_ltb t (NZ T) = (n <? T * Z.pos d)) /\
        (forall T, num_gtb t (NZ T) = (T * Z.pos d <? n))
  | None => as_time v = None
  end.
Proof.
  destruct v as [| | z | f | | | |]; simpl; try reflexivity; intro J.
  - exists (NZ z). split; [reflexivity|]. split; intro T; unfold num_ltb, num_gtb; simpl.
    + rewrite cmp_ltb. rewrite Z.mul_1_r. reflexivity.
    + rewrite cmp_gtb. rewrite Z.mul_1_r. reflexivity.
  - destruct f as [n d| |]; try discriminate.
    exists (NF (FFin n d)). split; [reflexivity|]. split; intro T; unfold num_ltb, num_gtb; simpl.
    + apply cmp_ltb.
    + apply cmp_gtb.
Qed.

(* ------------------------------------------------------------------ *)
(* Python == on a JSON value and a requested scalar is the Spec's equality *)
(* ------------------------------------------------------------------ *)
Lemma is_json_list l : is_json (PList l) = forallb is_json l.
Proof. induction l as [|a l IH]; [reflexivity|]. simpl in *. rewrite IH. reflexivity. Qed.

Lemma py_eq_req r v : is_scalar r = true -> is_json v = true ->
  py_eq v r = req_eq false r v /\ py_eq r v = req_eq false r v.
Proof.
  intros S J.
  destruct r as [| a | z | f | s | | |]; try discriminate.
  - (* PBool a *)
    destruct v as [| b | c | g | t | | |]; try (split; reflexivity).
    + destruct a, b; split; reflexivity.
    + simpl. unfold num_eqb; simpl. rewrite !cmp_eqb. rewrite Z.mul_1_r.
      split; [apply eqb_cong; lia | reflexivity].
    + destruct g as [n d| |]; try discriminate. simpl. unfold num_eqb; simpl.
      rewrite cmpopp_eq, !cmp_eqb. split; apply eqb_cong; lia.
  - (* PInt z *)
    destruct v as [| b | c | g | t | | |]; try (split; reflexivity).
    + simpl. unfold num_eqb; simpl. rewrite !cmp_eqb. split; apply eqb_cong; lia.
    + simpl. unfold num_eqb; simpl. rewrite !cmp_eqb. split; apply eqb_cong; lia.
    + destruct g as [n d| |]; try discriminate. simpl. unfold num_eqb; simpl.
      rewrite cmpopp_eq, !cmp_eqb. split; apply eqb_cong; lia.
  - (* PFloat *)
    destruct f as [n d| |]; try discriminate.
    destruct v as [| b | c | g | t | | |]; try (split; reflexivity).
    + simpl. unfold num_eqb; simpl. rewrite cmpopp_eq, !cmp_eqb. split; apply eqb_cong; lia.
    + simpl. unfold num_eqb; simpl. rewrite cmpopp_eq, !cmp_eqb. split; apply eqb_cong; lia.
    + destruct g as [m e| |]; try discriminate. simpl. unfold num_eqb; simpl.
      rewrite !cmp_eqb. split; apply eqb_cong; lia.
  - (* PStr *)
    destruct v as [| b | c | g | t | | |]; try (split; reflexivity).
    simpl. split; [apply str_eqb_sym | reflexivity].
Qed.

Lemma py_eq_empty v : py_eq v (PStr []) = is_empty_str v.
Proof. destruct v as [| | | | s | | |]; try reflexivity. destruct s; reflexivity. Qed.

Lemma py_truth_scalar r : is_scalar r = true -> py_truth r = negb (blank_scalar r).
Proof.
  destruct r as [| a | z | f | s | | |]; try discriminate; intros _.
  - destruct a; reflexivity.
  - reflexivity.
  - destruct f; reflexivity.
  - destruct s; reflexivity.
Qed.

Lemma audiences_json v y : is_json v = true -> In y (audiences v) -> is_json y = true.
Proof.
  intros J I. destruct v; simpl in I;
    try (destruct I as [I|[]]; subst; exact J).
  rewrite is_json_list in J. eapply forallb_In; eauto.
Qed.

(* ------------------------------------------------------------------ *)
(* check_value and validate_aud against the clauses                    *)
(* ------------------------------------------------------------------ *)
Definition cv_ok (o : copt) (v : pv) : bool :=
  (match req_value o with Some r => req_eq false r v | None => true end &&
   match req_values o with Some l => existsb (fun r => req_eq false r v) l | None => true end) &&
  implb (is_empty_str v) (req_flag (o_allow_blank o)).

Definition aud_ok (o : copt) (v : pv) : bool :=
  match aud_requested o with
  | [] => true
  | rq => existsb (fun r => existsb (req_eq false r) (audiences v)) rq
  end.

Lemma wf_flag_truth f : wf_flag f = true -> py_truth (oget f) = req_flag f.
Proof. destruct f as [[| b | | | | | |]|]; try discriminate; try reflexivity. destruct b; reflexivity. Qed.

Lemma value_part o v :
  wf_value (o_value o) = true -> is_json v = true ->
  negb (is_none (oget (o_value o))) && negb (py_eq v (oget (o_value o))) =
  negb (match req_value o with Some r => req_eq false r v | None => true end).
Proof.
  intros Wv J. unfold req_value. destruct (o_value o) as [r|]; [|reflexivity]. cbn [oget].
  destruct (is_none r) eqn:En; [destruct r; try discriminate; reflexivity|].
  assert (Sr : is_scalar r = true) by (unfold wf_value in Wv; destruct r; try discriminate; exact Wv).
  rewrite (proj1 (py_eq_req r v Sr J)).
  destruct r; try discriminate; reflexivity.
Qed.

Lemma values_part o v :
  wf_values (o_values o) = true -> is_json v = true ->
  (let ovs := oget (o_values o) in
   if is_none ovs then Ok tt else do b <- py_in v ovs; if b then Ok tt else invalid_claim) =
  if match req_values o with Some l => existsb (fun r => req_eq false r v) l | None => true end
  then Ok tt else invalid_claim.
Proof.
  intros Wvs J. unfold req_values. destruct (o_values o) as [vs|]; [|reflexivity]. cbn [oget].
  destruct vs as [| | | | | | l |]; try discriminate; [reflexivity|].
  cbn [is_none py_in bind]. unfold list_contains.
  rewrite (existsb_ext_in (fun y => py_eq y v) (fun r => req_eq false r v)); [reflexivity|].
  intros y Iy. apply (proj2 (py_eq_req y v (forallb_In _ _ _ Wvs Iy) J)).
Qed.

Lemma check_value_spec opts k o v :
  dget opts k = Some o -> wf_opt o = true -> is_json v = true ->
  check_value opts k v =
  if opt_truthy o then (if cv_ok o v then Ok tt else invalid_claim) else Ok tt.
Proof.
  intros D W J. unfold check_value. rewrite D.
  destruct (opt_truthy o); [|reflexivity]. cbn [negb].
  unfold wf_opt in W. apply andb_true_iff in W. destruct W as [W Wvs].
  apply andb_true_iff in W. destruct W as [W Wv]. apply andb_true_iff in W. destruct W as [_ Wb].
  rewrite (wf_flag_truth _ Wb), py_eq_empty.
  cbv zeta. rewrite (value_part o v Wv J).
  pose proof (values_part o v Wvs J) as HV. cbv zeta in HV. rewrite HV.
  unfold cv_ok.
  destruct (is_empty_str v), (req_flag (o_allow_blank o)),
    (match req_value o with Some r => req_eq false r v | None => true end),
    (match req_values o with Some l => existsb (fun r => req_eq false r v) l | None => true end); reflexivity.
Qed.

Lemma list_contains_req l r :
  is_scalar r = true -> (forall y, In y l -> is_json y = true) ->
  list_contains l r = existsb (req_eq false r) l.
Proof.
  intros S H. unfold list_contains. apply existsb_ext_in.
  intros y I. apply (proj1 (py_eq_req r y S (H y I))).
Qed.

Definition aud_ovs (o : copt) : pv :=
  let ovs0 := oget (o_values o) in
  if is_none ovs0
  then (let ov := oget (o_value o) in if py_truth ov then PList [ov] else PNone)
  else ovs0.

Lemma aud_ovs_spec o :
  wf_value (o_value o) = true -> wf_values (o_values o) = true ->
  (py_truth (aud_ovs o) = false /\ aud_requested o = []) \/
  (aud_ovs o = PList (aud_requested o) /\ aud_requested o <> [] /\
   forallb is_scalar (aud_requested o) = true).
Proof.
  intros Wv Wvs. unfold aud_ovs, aud_requested, req_values, req_value.
  assert (V : (py_truth (let ov := oget (o_value o) in if py_truth ov then PList [ov] else PNone) = false /\
               match match o_value o with Some PNone | None => None | Some r => Some r end with
               | Some r => if blank_scalar r then [] else [r] | None => [] end = []) \/
              ((let ov := oget (o_value o) in if py_truth ov then PList [ov] else PNone) =
               PList (match match o_value o with Some PNone | None => None | Some r => Some r end with
               | Some r => if blank_scalar r then [] else [r] | None => [] end) /\
               match match o_value o with Some PNone | None => None | Some r => Some r end with
               | Some r => if blank_scalar r then [] else [r] | None => [] end <> [] /\
               forallb is_scalar (match match o_value o with Some PNone | None => None | Some r => Some r end with
               | Some r => if blank_scalar r then [] else [r] | None => [] end) = true)).
  { destruct (o_value o) as [r|]; [|left; split; reflexivity]. cbn [oget]. cbv zeta.
    destruct (is_none r) eqn:En; [destruct r; try discriminate; left; split; reflexivity|].
    assert (Sr : is_scalar r = true) by (unfold wf_value in Wv; destruct r; try discriminate; exact Wv).
    rewrite (py_truth_scalar r Sr).
    replace (match r with PNone => None | _ => Some r end) with (Some r) by (destruct r; try discriminate; reflexivity).
    destruct (blank_scalar r); cbn [negb].
    - left; split; reflexivity.
    - right. split; [reflexivity|]. split; [discriminate|]. simpl. rewrite Sr. reflexivity. }
  destruct (o_values o) as [vs|]; cbn [oget].
  - destruct vs as [| | | | | | l |]; try discriminate.
    + cbn [is_none]. exact V.
    + cbn [is_none]. destruct l as [|a l].
      * left; split; reflexivity.
      * right. split; [reflexivity|]. split; [discriminate|]. exact Wvs.
  - cbn [is_none]. exact V.
Qed.

Lemma validate_aud_spec opts o v :
  dget opts s_aud = Some o -> wf_opt o = true -> is_json v = true ->
  validate_aud opts v =
  if opt_truthy o then (if aud_ok o v then Ok tt else invalid_claim) else Ok tt.
Proof.
  intros D W J. unfold validate_aud. rewrite D.
  destruct (opt_truthy o); [|reflexivity]. cbn [negb].
  unfold wf_opt in W. apply andb_true_iff in W. destruct W as [W Wvs].
  apply andb_true_iff in W. destruct W as [_ Wv].
  change (match v with PList l => l | _ => [v] end) with (audiences v).
  assert (AJ : forall y, In y (audiences v) -> is_json y = true) by (intros; eapply audiences_json; eauto).
  fold (aud_ovs o). cbv zeta. fold (aud_ovs o).
  unfold aud_ok.
  destruct (aud_ovs_spec o Wv Wvs) as [[T R]|[E [N S]]].
  - rewrite T, R. reflexivity.
  - rewrite E. destruct (aud_requested o) as [|a l] eqn:Q; [congruence|].
    cbn [py_truth negb py_iter bind].
    rewrite (existsb_ext_in (fun x => list_contains (audiences v) x) (fun r => existsb (req_eq false r) (audiences v))).
    + destruct (existsb (fun r => existsb (req_eq false r) (audiences v)) (a :: l)); reflexivity.
    + intros x Ix. apply list_contains_req; [|exact AJ]. eapply forallb_In; eauto.
Qed.

Lemma wf_opts_get opts k o : wf_opts opts = true -> dget opts k = Some o -> wf_opt o = true.
Proof.
  intros W D. destruct (dget_In _ _ _ D) as [k' I].
  apply (forallb_In _ _ _ W I).
Qed.

(* check_value on a name that is not aud = the value and blank clauses *)
Lemma check_value_clauses opts k v :
  wf_opts opts = true -> is_json v = true -> kind_of k <> KAud ->
  check_value opts k v =
  if cl_value_one false opts k v && cl_blank_one opts k v then Ok tt else invalid_claim.
Proof.
  intros W J NA. unfold cl_value_one, cl_blank_one, request.
  destruct (dget opts k) as [o|] eqn:D.
  - rewrite (check_value_spec opts k o v D (wf_opts_get _ _ _ W D) J).
    destruct (opt_truthy o).
    + unfold cv_ok. destruct (kind_of k); try congruence; reflexivity.
    + destruct (kind_of k); reflexivity.
  - unfold check_value. rewrite D. destruct (kind_of k); reflexivity.
Qed.

Lemma validate_aud_clauses opts v :
  wf_opts opts = true -> is_json v = true ->
  validate_aud opts v = if cl_value_one false opts s_aud v then Ok tt else invalid_claim.
Proof.
  intros W J. unfold cl_value_one, request. rewrite kind_s_aud.
  destruct (dget opts s_aud) as [o|] eqn:D.
  - rewrite (validate_aud_spec opts o v D (wf_opts_get _ _ _ W D) J).
    destruct (opt_truthy o); reflexivity.
  - unfold validate_aud. rewrite D. reflexivity.
Qed.

(* ------------------------------------------------------------------ *)
(* one claim                                                           *)
(* ------------------------------------------------------------------ *)
Definition claim_ok (now lw : Z) (opts : copts) (k : str) (v : pv) : bool :=
  cl_value_one false opts k v && cl_blank_one opts k v && cl_number_one k v && cl_time_one false now lw k v.

Definition claim_class (now lw : Z) (opts : copts) (k : str) (v : pv) (r : res unit) : Prop :=
  match r with
  | Ok _ => claim_ok now lw opts k v = true
  | Err (EJose InvalidClaimError) => viol_invalid_one opts k v = true
  | Err (EJose ExpiredTokenError) => viol_expired_one now lw k v = true
  | Err (EJose InvalidTokenError) => viol_early_one now lw k v = true
  | Err _ => False
  end.

Lemma time_claim_class now lw opts k v :
  wf_opts opts = true -> is_json v = true ->
  (kind_of k = KNbf \/ kind_of k = KIat) ->
  claim_class now lw opts k v (validate_notafter k now lw opts v).
Proof.
  intros W J K. assert (NA : kind_of k <> KAud) by (destruct K as [K|K]; rewrite K; discriminate).
  assert (KK : cl_number_one k v = is_some (jnum v) /\ cl_time_one false now lw k v = not_after now lw v /\
               viol_early_one now lw k v = is_some (jnum v) && negb (not_after now lw v)).
  { unfold cl_number_one, cl_time_one, viol_early_one. destruct K as [K|K]; rewrite K; auto. }
  destruct KK as [K1 [K2 K3]].
  unfold validate_notafter, claim_class, claim_ok, viol_invalid_one. rewrite K1, K2, K3. unfold not_after.
  pose proof (as_time_jnum v J) as T.
  destruct (jnum v) as [[n d]|].
  - destruct T as [t [Et [_ Hgt]]]. rewrite Et, Hgt.
    destruct ((now + lw) * Z.pos d <? n) eqn:E.
    + cbn [is_some andb]. apply negb_true_iff. lia.
    + rewrite (check_value_clauses opts k v W J NA).
      destruct (cl_value_one false opts k v && cl_blank_one opts k v) eqn:C; cbn [is_some andb negb].
      * lia.
      * reflexivity.
  - rewrite T. cbn [is_some]. rewrite andb_false_r. reflexivity.
Qed.

Lemma check_claim_class now lw opts k v :
  wf_opts opts = true -> is_json v = true ->
  claim_class now lw opts k v (check_claim now lw opts k v).
Proof.
  intros W J. unfold check_claim. rewrite methods_kind.
  destruct (kind_of k) eqn:K.
  - (* aud *)
    pose proof (kind_aud k K); subst k.
    rewrite (validate_aud_clauses opts v W J).
    unfold claim_class, claim_ok, viol_invalid_one, cl_blank_one, cl_number_one, cl_time_one. rewrite K.
    destruct (cl_value_one false opts s_aud v); reflexivity.
  - (* exp *)
    pose proof (kind_exp k K); subst k.
    assert (NA : kind_of s_exp <> KAud) by (rewrite K; discriminate).
    unfold validate_exp, claim_class, claim_ok, viol_invalid_one, viol_expired_one,
      cl_number_one, cl_time_one. rewrite K. unfold exp_after.
    pose proof (as_time_jnum v J) as T.
    destruct (jnum v) as [[n d]|].
    + destruct T as [t [Et [Hlt _]]]. rewrite Et, Hlt.
      destruct (n <? (now - lw) * Z.pos d) eqn:E.
      * cbn [is_some andb]. apply negb_true_iff. lia.
      * rewrite (check_value_clauses opts s_exp v W J NA).
        destruct (cl_value_one false opts s_exp v && cl_blank_one opts s_exp v) eqn:C; cbn [is_some andb negb].
        -- lia.
        -- reflexivity.
    + rewrite T. cbn [is_some]. rewrite andb_false_r. reflexivity.
  - (* nbf *)
    pose proof (kind_nbf k K); subst k.
    apply (time_claim_class now lw opts s_nbf v W J). left; exact K.
  - (* iat *)
    pose proof (kind_iat k K); subst k.
    apply (time_claim_class now lw opts s_iat v W J). right; exact K.
  - (* any other name *)
    assert (NA : kind_of k <> KAud) by (rewrite K; discriminate).
    assert (E : (if dmem opts k then check_value opts k v else Ok tt) = check_value opts k v).
    { unfold dmem, check_value. destruct (dget opts k); reflexivity. }
    rewrite E, (check_value_clauses opts k v W J NA).
    unfold claim_class, claim_ok, viol_invalid_one, cl_number_one, cl_time_one. rewrite K.
    destruct (cl_value_one false opts k v && cl_blank_one opts k v); reflexivity.
Qed.

Lemma claim_class_ok_iff now lw opts k v r :
  claim_class now lw opts k v r -> (r = Ok tt <-> claim_ok now lw opts k v = true).
Proof.
  unfold claim_class, claim_ok, viol_invalid_one, viol_expired_one, viol_early_one, cl_time_one.
  destruct r as [[]|e]; [tauto|].
  intro H. split; [discriminate|]. intro C. exfalso.
  destruct e as [c| | | | | | | | | |]; try exact H.
  destruct c; try exact H.
  - destruct (cl_value_one false opts k v), (cl_blank_one opts k v), (cl_number_one k v);
      simpl in H, C; discriminate.
  - destruct (kind_of k); try discriminate.
    destruct (exp_after false now lw v);
      [rewrite andb_false_r in H; discriminate | rewrite !andb_false_r in C; discriminate].
  - destruct (kind_of k); try discriminate;
    (destruct (not_after now lw v);
      [rewrite andb_false_r in H; discriminate | rewrite !andb_false_r in C; discriminate]).
Qed.

(* ------------------------------------------------------------------ *)
(* the loop and validate                                               *)
(* ------------------------------------------------------------------ *)
Lemma run_claims_all now lw opts l :
  run_claims now lw opts l = Ok tt -> forall k v, In (k, v) l -> check_claim now lw opts k v = Ok tt.
Proof.
  induction l as [|[k0 v0] l IH]; simpl; [tauto|].
  destruct (check_claim now lw opts k0 v0) as [[]|e] eqn:E; simpl; [|discriminate].
  intros R k v [I|I]; [inversion I; subst; exact E | apply IH; assumption].
Qed.

Lemma run_claims_ok now lw opts l :
  wf_opts opts = true -> json_claims l = true ->
  (run_claims now lw opts l = Ok tt <-> on_claims (claim_ok now lw opts) l = true).
Proof.
  intros W. induction l as [|[k v] l IH]; simpl; intro J; [tauto|].
  apply andb_true_iff in J. destruct J as [Jv Jl]. simpl in Jv.
  pose proof (claim_class_ok_iff _ _ _ _ _ _ (check_claim_class now lw opts k v W Jv)) as H.
  destruct (check_claim now lw opts k v) as [[]|e]; simpl.
  - rewrite (proj1 H eq_refl). simpl. apply IH, Jl.
  - split; [discriminate|]. intro C. apply andb_true_iff in C. destruct C as [C _].
    apply H in C. discriminate.
Qed.

Lemma run_claims_err now lw opts l e :
  wf_opts opts = true -> json_claims l = true ->
  run_claims now lw opts l = Err e ->
  match e with
  | EJose InvalidClaimError => some_claim (viol_invalid_one opts) l = true
  | EJose ExpiredTokenError => some_claim (viol_expired_one now lw) l = true
  | EJose InvalidTokenError => some_claim (viol_early_one now lw) l = true
  | _ => False
  end.
Proof.
  intros W. induction l as [|[k v] l IH]; simpl; intro J; [discriminate|].
  apply andb_true_iff in J. destruct J as [Jv Jl]. simpl in Jv.
  pose proof (check_claim_class now lw opts k v W Jv) as H.
  destruct (check_claim now lw opts k v) as [[]|e0]; simpl.
  - intro R. specialize (IH Jl R).
    destruct e as [c| | | | | | | | | |]; try exact IH.
    destruct c; try exact IH; rewrite IH; apply orb_true_r.
  - intro R. inversion R; subst e0. unfold claim_class in H.
    destruct e as [c| | | | | | | | | |]; try exact H.
    destruct c; try exact H; rewrite H; reflexivity.
Qed.

Lemma missing_essential opts claims :
  wf_opts opts = true -> missing opts claims = negb (cl_essential opts claims).
Proof.
  unfold missing, cl_essential. induction opts as [|[k o] opts IH]; simpl; intro W; [reflexivity|].
  apply andb_true_iff in W. destruct W as [Wo W]. rewrite (IH W). simpl in Wo.
  unfold wf_opt in Wo. apply andb_true_iff in Wo. destruct Wo as [Wo _].
  apply andb_true_iff in Wo. destruct Wo as [Wo _]. apply andb_true_iff in Wo. destruct Wo as [We _].
  rewrite (wf_flag_truth _ We).
  assert (E : claim_is_none claims k = negb (present_not_null claims k)).
  { unfold claim_is_none, present_not_null. destruct (dget claims k) as [x|]; [destruct x|]; reflexivity. }
  rewrite E.
  destruct (req_flag (o_essential o)), (present_not_null claims k), (forallb _ opts); reflexivity.
Qed.

(* precedence: the first claim, in claims order, that violates a clause decides *)
Lemma run_claims_first_error now lw opts l e :
  wf_opts opts = true -> json_claims l = true ->
  run_claims now lw opts l = Err e ->
  exists l1 k v l2, l = l1 ++ (k, v) :: l2 /\
    on_claims (claim_satisfied now lw opts) l1 = true /\
    claim_err_matches now lw opts k v e.
Proof.
  intros W. induction l as [|[k v] l IH]; simpl; intro J; [discriminate|].
  apply andb_true_iff in J. destruct J as [Jv Jl]. simpl in Jv.
  pose proof (check_claim_class now lw opts k v W Jv) as H.
  destruct (check_claim now lw opts k v) as [[]|e0] eqn:E; simpl.
  - intro R. destruct (IH Jl R) as [l1 [k1 [v1 [l2 [L [P M]]]]]].
    exists ((k, v) :: l1), k1, v1, l2. split; [rewrite L; reflexivity|]. split; [|exact M].
    simpl. unfold claim_class, claim_ok in H. unfold claim_satisfied at 1. rewrite H. exact P.
  - intro R. inversion R; subst e0.
    exists [], k, v, l. split; [reflexivity|]. split; [reflexivity|].
    unfold claim_class in H. unfold claim_err_matches.
    destruct e as [c| | | | | | | | | |]; try contradiction. destruct c; try contradiction; exact H.
Qed.

Lemma validate_first_error now lw opts claims e :
  wf_opts opts = true -> json_claims claims = true ->
  validate now lw opts claims = Err e -> e <> EJose MissingClaimError ->
  cl_essential opts claims = true /\
  exists l1 k v l2, claims = l1 ++ (k, v) :: l2 /\
    on_claims (claim_satisfied now lw opts) l1 = true /\
    claim_err_matches now lw opts k v e.
Proof.
  intros W J. unfold validate. rewrite (missing_essential _ _ W).
  destruct (cl_essential opts claims); simpl.
  - intros R _. split; [reflexivity|]. apply run_claims_first_error; assumption.
  - intros R N. inversion R. congruence.
Qed.

Lemma validate_default_eq now opts claims : validate_default now opts claims = validate now 0 opts claims.
Proof. reflexivity. Qed.

Lemma accepts_claim_ok strict sb now lw opts claims :
  accepts_full strict sb now lw opts claims =
  cl_essential opts claims &&
  on_claims (fun k v => cl_value_one sb opts k v && cl_blank_one opts k v && cl_number_one k v &&
                        cl_time_one strict now lw k v) claims.
Proof.
  unfold accepts_full, on_claims. rewrite <- !andb_assoc. f_equal.
  induction claims as [|[k v] l IH]; [reflexivity|]. cbn [forallb fst snd]. rewrite <- IH.
  destruct (cl_value_one sb opts k v), (cl_blank_one opts k v), (cl_number_one k v),
    (cl_time_one strict now lw k v); cbn [andb]; try reflexivity;
  repeat match goal with |- context [forallb ?f l] => destruct (forallb f l) end; reflexivity.
Qed.

(* the characterisation, with the boundary exp = now-leeway allowed *)
Lemma validate_iff_lenient now lw opts claims :
  wf_opts opts = true -> json_claims claims = true ->
  (validate now lw opts claims = Ok tt <-> accepts_gen false now lw opts claims = true).
Proof.
  intros W J. unfold validate, accepts_gen. rewrite accepts_claim_ok, (missing_essential _ _ W).
  destruct (cl_essential opts claims); simpl.
  - apply (run_claims_ok now lw opts claims W J).
  - split; discriminate.
Qed.

Lemma strict_lenient_off_boundary now lw opts claims :
  exp_on_boundary now lw claims = false ->
  accepts now lw opts claims = accepts_gen false now lw opts claims.
Proof.
  intro B. unfold accepts, accepts_gen, accepts_full. f_equal.
  unfold on_claims. apply forallb_ext_in. intros [k v] I. simpl.
  unfold exp_on_boundary in B.
  assert (Bk : match kind_of k, jnum v with KExp, Some (n, d) => (n =? (now - lw) * Z.pos d) | _, _ => false end = false).
  { destruct (match kind_of k, jnum v with KExp, Some (n, d) => (n =? (now - lw) * Z.pos d) | _, _ => false end) eqn:E; [|reflexivity].
    rewrite <- B. symmetry. apply existsb_exists. exists (k, v). split; [exact I | exact E]. }
  unfold cl_time_one, exp_after. destruct (kind_of k); try reflexivity.
  destruct (jnum v) as [[n d]|]; [|reflexivity]. lia.
Qed.

Lemma validate_iff now lw opts claims :
  wf_opts opts = true -> json_claims claims = true -> exp_on_boundary now lw claims = false ->
  (validate now lw opts claims = Ok tt <-> accepts now lw opts claims = true).
Proof.
  intros W J B. rewrite (strict_lenient_off_boundary now lw opts claims B).
  apply validate_iff_lenient; assumption.
Qed.

(* strict acceptance always implies acceptance by the code; the converse can
   only fail on the boundary *)
Lemma accepts_strict_implies_lenient now lw opts claims :
  accepts now lw opts claims = true -> accepts_gen false now lw opts claims = true.
Proof.
  unfold accepts, accepts_gen, accepts_full. intro H.
  apply andb_true_iff in H. destruct H as [H T]. rewrite H. simpl.
  unfold on_claims in *. rewrite forallb_forall in T. apply forallb_forall. intros [k v] I.
  specialize (T _ I). simpl in *. unfold cl_time_one, exp_after in *.
  destruct (kind_of k); try exact T. destruct (jnum v) as [[n d]|]; [lia | reflexivity].
Qed.

Lemma validate_error_class now lw opts claims e :
  wf_opts opts = true -> json_claims claims = true ->
  validate now lw opts claims = Err e -> err_matches now lw opts claims e.
Proof.
  intros W J. unfold validate, err_matches, viol_missing. rewrite (missing_essential _ _ W).
  destruct (cl_essential opts claims); simpl.
  - intro R. pose proof (run_claims_err now lw opts claims e W J R) as H.
    destruct e as [c| | | | | | | | | |]; try contradiction.
    destruct c; try contradiction; split; try reflexivity; exact H.
  - intro R. inversion R. reflexivity.
Qed.

(* ------------------------------------------------------------------ *)
(* never accepted: stale exp, early nbf / iat, any numeric representation *)
(* ------------------------------------------------------------------ *)
Definition time_lt (v : pv) (T : Z) : Prop :=
  match v with
  | PInt z => z < T
  | PFloat (FFin n d) => n < T * Z.pos d
  | PFloat (FInf true) => True
  | _ => False
  end.
Definition time_gt (v : pv) (T : Z) : Prop :=
  match v with
  | PInt z => T < z
  | PFloat (FFin n d) => T * Z.pos d < n
  | PFloat (FInf false) => True
  | _ => False
  end.

Lemma exp_before_rejected now lw opts v :
  time_lt v (now - lw) -> check_claim now lw opts s_exp v = Err (EJose ExpiredTokenError).
Proof.
  intro H. unfold check_claim. rewrite methods_kind, kind_s_exp. unfold validate_exp.
  destruct v as [| | z | f | | | |]; simpl in H; try contradiction.
  - simpl. unfold num_ltb; simpl. rewrite cmp_ltb. replace (z <? now - lw) with true by lia. reflexivity.
  - destruct f as [n d|[]|]; try contradiction.
    + simpl. unfold num_ltb; simpl. rewrite cmp_ltb. replace (n <? (now - lw) * Z.pos d) with true by lia. reflexivity.
    + reflexivity.
Qed.

Lemma notafter_rejected name now lw opts v :
  time_gt v (now + lw) -> validate_notafter name now lw opts v = Err (EJose InvalidTokenError).
Proof.
  intro H. unfold validate_notafter.
  destruct v as [| | z | f | | | |]; simpl in H; try contradiction.
  - simpl. unfold num_gtb; simpl. rewrite cmp_gtb. replace (now + lw <? z) with true by lia. reflexivity.
  - destruct f as [n d|[]|]; try contradiction.
    + simpl. unfold num_gtb; simpl. rewrite cmp_gtb. replace ((now + lw) * Z.pos d <? n) with true by lia. reflexivity.
    + reflexivity.
Qed.

Lemma never_expired now lw opts claims v :
  In (s_exp, v) claims -> time_lt v (now - lw) -> validate now lw opts claims <> Ok tt.
Proof.
  intros I H R. unfold validate in R. destruct (missing opts claims); [discriminate|].
  pose proof (run_claims_all _ _ _ _ R _ _ I) as C.
  rewrite (exp_before_rejected now lw opts v H) in C. discriminate.
Qed.

Lemma never_early now lw opts claims k v :
  k = s_nbf \/ k = s_iat ->
  In (k, v) claims -> time_gt v (now + lw) -> validate now lw opts claims <> Ok tt.
Proof.
  intros K I H R. unfold validate in R. destruct (missing opts claims); [discriminate|].
  pose proof (run_claims_all _ _ _ _ R _ _ I) as C.
  unfold check_claim in C. rewrite methods_kind in C.
  destruct K; subst k.
  - rewrite kind_s_nbf, (notafter_rejected s_nbf now lw opts v H) in C. discriminate.
  - rewrite kind_s_iat, (notafter_rejected s_iat now lw opts v H) in C. discriminate.
Qed.

(* essential claims: absent or null is a MissingClaimError whatever else the token holds *)
Lemma essential_missing now lw opts claims k o :
  In (k, o) opts -> py_truth (oget (o_essential o)) = true -> claim_is_none claims k = true ->
  validate now lw opts claims = Err (EJose MissingClaimError).
Proof.
  intros I E N. unfold validate.
  replace (missing opts claims) with true; [reflexivity|].
  symmetry. unfold missing. apply existsb_exists. exists (k, o). split; [exact I|]. simpl. rewrite E, N. reflexivity.
Qed.

(* ------------------------------------------------------------------ *)
(* claims without a request or built-in rule are ignored               *)
(* ------------------------------------------------------------------ *)
Lemma unrequested_claim_ok now lw opts k v :
  kind_of k = KOther -> dget opts k = None -> check_claim now lw opts k v = Ok tt.
Proof.
  intros K D. unfold check_claim. rewrite methods_kind, K. unfold dmem. rewrite D. reflexivity.
Qed.

Lemma ignored now lw opts l1 l2 k v :
  kind_of k = KOther -> dget opts k = None ->
  validate now lw opts (l1 ++ (k, v) :: l2) = validate now lw opts (l1 ++ l2).
Proof.
  intros K D. unfold validate.
  assert (M : missing opts (l1 ++ (k, v) :: l2) = missing opts (l1 ++ l2)).
  { unfold missing. apply existsb_ext_in. intros [k' o] I. simpl.
    unfold claim_is_none. rewrite (dget_app_skip l1 l2 k v k' (dget_None_notin _ _ _ _ D I)). reflexivity. }
  rewrite M. destruct (missing opts (l1 ++ l2)); [reflexivity|]. clear M.
  induction l1 as [|[k1 v1] l1 IH]; simpl.
  - rewrite (unrequested_claim_ok now lw opts k v K D). reflexivity.
  - rewrite IH. reflexivity.
Qed.

(* the Spec, too, ignores them *)
Lemma ignored_spec strict now lw opts l1 l2 k v :
  kind_of k = KOther -> dget opts k = None ->
  accepts_gen strict now lw opts (l1 ++ (k, v) :: l2) = accepts_gen strict now lw opts (l1 ++ l2).
Proof.
  intros K D. unfold accepts_gen. rewrite !accepts_claim_ok. f_equal.
  - unfold cl_essential. apply forallb_ext_in. intros [k' o] I. simpl.
    unfold present_not_null. rewrite (dget_app_skip l1 l2 k v k' (dget_None_notin _ _ _ _ D I)). reflexivity.
  - unfold on_claims. rewrite !forallb_app. simpl.
    unfold cl_value_one, cl_blank_one, cl_number_one, cl_time_one, request. rewrite K, D. reflexivity.
Qed.

(* ------------------------------------------------------------------ *)
(* names: everything other than the four registered names is a plain name *)
(* ------------------------------------------------------------------ *)
Lemma kind_other_iff k :
  kind_of k = KOther <-> (k <> s_aud /\ k <> s_exp /\ k <> s_nbf /\ k <> s_iat).
Proof.
  unfold kind_of. split.
  - intro H.
    destruct (str_eqb s_aud k) eqn:E1; [discriminate|].
    destruct (str_eqb s_exp k) eqn:E2; [discriminate|].
    destruct (str_eqb s_nbf k) eqn:E3; [discriminate|].
    destruct (str_eqb s_iat k) eqn:E4; [discriminate|].
    apply str_eqb_neq in E1, E2, E3, E4. repeat split; congruence.
  - intros [N1 [N2 [N3 N4]]].
    replace (str_eqb s_aud k) with false by (symmetry; apply str_eqb_neq; congruence).
    replace (str_eqb s_exp k) with false by (symmetry; apply str_eqb_neq; congruence).
    replace (str_eqb s_nbf k) with false by (symmetry; apply str_eqb_neq; congruence).
    replace (str_eqb s_iat k) with false by (symmetry; apply str_eqb_neq; congruence).
    reflexivity.
Qed.

Lemma ignored_any_name now lw opts l1 l2 k v :
  k <> s_aud -> k <> s_exp -> k <> s_nbf -> k <> s_iat -> dget opts k = None ->
  validate now lw opts (l1 ++ (k, v) :: l2) = validate now lw opts (l1 ++ l2).
Proof. intros. apply ignored; [apply kind_other_iff; auto | assumption]. Qed.

Lemma base_methods_table : c10_base_validate_methods = [].
Proof. reflexivity. Qed.

(* a requested claim with a plain name is judged by its request only: the JWT
   registry treats it exactly as the registry without built-in rules does *)
Lemma other_name_by_request_only now lw opts k v :
  kind_of k = KOther -> check_claim now lw opts k v = check_claim_base opts k v.
Proof.
  intro K. unfold check_claim, check_claim_base. rewrite methods_kind, K, base_methods_table. reflexivity.
Qed.

(* ------------------------------------------------------------------ *)
(* the registry without built-in rules                                  *)
(* ------------------------------------------------------------------ *)
Lemma check_claim_base_spec opts k v :
  wf_opts opts = true -> is_json v = true ->
  check_claim_base opts k v = if plain_ok opts k v then Ok tt else invalid_claim.
Proof.
  intros W J. unfold check_claim_base, plain_ok, request. rewrite base_methods_table. cbn [str_mem].
  unfold dmem. destruct (dget opts k) as [o|] eqn:D; [|reflexivity].
  rewrite (check_value_spec opts k o v D (wf_opts_get _ _ _ W D) J).
  destruct (opt_truthy o); reflexivity.
Qed.

Lemma run_claims_base_spec opts l :
  wf_opts opts = true -> json_claims l = true ->
  run_claims_base opts l = if on_claims (plain_ok opts) l then Ok tt else invalid_claim.
Proof.
  intro W. induction l as [|[k v] l IH]; simpl; intro J; [reflexivity|].
  apply andb_true_iff in J. destruct J as [Jv Jl]. simpl in Jv.
  rewrite (check_claim_base_spec opts k v W Jv).
  destruct (plain_ok opts k v); simpl; [apply IH, Jl | reflexivity].
Qed.

Lemma validate_base_spec opts claims :
  wf_opts opts = true -> json_claims claims = true ->
  validate_base opts claims =
  if cl_essential opts claims
  then (if on_claims (plain_ok opts) claims then Ok tt else Err (EJose InvalidClaimError))
  else Err (EJose MissingClaimError).
Proof.
  intros W J. unfold validate_base. rewrite (missing_essential _ _ W), (run_claims_base_spec _ _ W J).
  destruct (cl_essential opts claims); reflexivity.
Qed.

Lemma validate_base_iff opts claims :
  wf_opts opts = true -> json_claims claims = true ->
  (validate_base opts claims = Ok tt <-> accepts_base opts claims = true).
Proof.
  intros W J. rewrite (validate_base_spec _ _ W J). unfold accepts_base.
  destruct (cl_essential opts claims), (on_claims (plain_ok opts) claims); simpl; split; congruence.
Qed.

(* ------------------------------------------------------------------ *)
(* histories: validate keeps no state                                  *)
(* ------------------------------------------------------------------ *)
Lemma essential_keys_missing opts claims :
  existsb (claim_is_none claims)
          (map fst (filter (fun ko => py_truth (oget (o_essential (snd ko)))) opts)) =
  missing opts claims.
Proof.
  unfold missing. induction opts as [|[k o] opts IH]; [reflexivity|]. cbn [filter snd fst existsb].
  destruct (py_truth (oget (o_essential o))); cbn [map existsb fst andb]; rewrite IH; reflexivity.
Qed.

Lemma validate_obj_pure now lw opts claims :
  validate_obj (registry_init now lw opts) claims = (validate now lw opts claims, registry_init now lw opts).
Proof.
  unfold validate_obj, validate. cbn [registry_init r_essential r_now r_leeway r_options].
  rewrite essential_keys_missing. reflexivity.
Qed.

Lemma history_stateless now lw opts h :
  run_history (registry_init now lw opts) h = (map (validate now lw opts) h, registry_init now lw opts).
Proof.
  induction h as [|c h IH]; [reflexivity|].
  cbn [run_history]. rewrite validate_obj_pure, IH. reflexivity.
Qed.

(* the verdict on one claims set does not depend on what was validated before or after *)
Lemma history_independent now lw opts h1 h2 c :
  nth_error (fst (run_history (registry_init now lw opts) (h1 ++ c :: h2))) (length h1) =
  Some (validate now lw opts c).
Proof.
  rewrite history_stateless. cbn [fst]. rewrite map_app. cbn [map].
  rewrite nth_error_app2; rewrite map_length; [|lia]. rewrite Nat.sub_diag. reflexivity.
Qed.

(* ------------------------------------------------------------------ *)
(* witnesses                                                           *)
(* ------------------------------------------------------------------ *)
Definition ex_opts : copts :=
  [ (asc "iss", Build_copt (Some (PBool true)) None (Some (PStr (asc "https://as"))) None);
    (s_aud, Build_copt None None None (Some (PList [PStr (asc "api"); PStr (asc "web")])));
    (asc "sub", Build_copt None (Some (PBool false)) None None) ].
Definition ex_claims (exp : pv) : cclaims :=
  [ (asc "iss", PStr (asc "https://as")); (s_aud, PList [PStr (asc "x"); PStr (asc "web")]);
    (asc "sub", PStr (asc "u1")); (s_exp, exp); (s_nbf, PFloat (FFin 2001 2%positive));
    (asc "priv", PList [PNone]) ].

Lemma ex_domain : wf_opts ex_opts = true /\ json_claims (ex_claims (PInt 1000)) = true /\
                  exp_on_boundary 1060 60 (ex_claims (PInt 1001)) = false.
Proof. vm_compute. auto. Qed.
Lemma ex_accepted : validate 1060 60 ex_opts (ex_claims (PInt 1001)) = Ok tt /\
                    accepts 1060 60 ex_opts (ex_claims (PInt 1001)) = true.
Proof. vm_compute. auto. Qed.
Lemma ex_boundary : exp_on_boundary 1060 60 (ex_claims (PInt 1000)) = true /\
                    validate 1060 60 ex_opts (ex_claims (PInt 1000)) = Ok tt /\
                    accepts 1060 60 ex_opts (ex_claims (PInt 1000)) = false /\
                    accepts_gen false 1060 60 ex_opts (ex_claims (PInt 1000)) = true.
Proof. vm_compute. auto. Qed.
Lemma ex_expired_float :
  validate 1060 60 ex_opts (ex_claims (PFloat (FFin 1999 2%positive))) = Err (EJose ExpiredTokenError) /\
  time_lt (PFloat (FFin 1999 2%positive)) (1060 - 60) /\ In (s_exp, PFloat (FFin 1999 2%positive)) (ex_claims (PFloat (FFin 1999 2%positive))).
Proof. split; [vm_compute; reflexivity|]. split; [simpl; lia|]. simpl. auto 10. Qed.
Lemma ex_early :
  validate 1000 0 ex_opts (ex_claims (PInt 5000)) = Err (EJose InvalidTokenError) /\
  time_gt (PFloat (FFin 2001 2%positive)) (1000 + 0) /\ In (s_nbf, PFloat (FFin 2001 2%positive)) (ex_claims (PInt 5000)).
Proof. split; [vm_compute; reflexivity|]. split; [simpl; lia|]. simpl. auto 10. Qed.
Lemma ex_missing :
  validate 1060 60 ex_opts [(asc "iss", PNone); (s_exp, PInt 0)] = Err (EJose MissingClaimError) /\
  err_matches 1060 60 ex_opts [(asc "iss", PNone); (s_exp, PInt 0)] (EJose MissingClaimError).
Proof. split; vm_compute; reflexivity. Qed.
Lemma ex_ignored : kind_of (asc "priv") = KOther /\ dget ex_opts (asc "priv") = None.
Proof. vm_compute. auto. Qed.

(* outside the well-formed requests the code can leak a TypeError: values = 5 *)
Lemma ex_malformed_typeerror :
  validate 0 0 [(asc "sub", Build_copt None None None (Some (PInt 5)))] [(asc "sub", PStr (asc "a"))] = Err EType.
Proof. vm_compute. reflexivity. Qed.

(* reading R1: under strict JSON booleans the code accepts a claim the Spec rejects *)
Lemma strict_bool_refuted :
  exists now lw opts claims,
    wf_opts opts = true /\ json_claims claims = true /\ exp_on_boundary now lw claims = false /\
    validate now lw opts claims = Ok tt /\ accepts_strict_bool now lw opts claims = false.
Proof.
  exists 0, 0, [(asc "admin", Build_copt None None (Some (PInt 1)) None)], [(asc "admin", PBool true)].
  vm_compute. auto.
Qed.

(* reading R4, alternatives recorded: `values` wins over `value` for aud ... *)
Lemma aud_values_over_value :
  validate 0 0 [(s_aud, Build_copt None None (Some (PStr (asc "a"))) (Some (PList [PStr (asc "b")])))]
           [(s_aud, PStr (asc "a"))] = Err (EJose InvalidClaimError).
Proof. vm_compute. reflexivity. Qed.
(* ... an empty `values` list or a blank `value` requests no audience ... *)
Lemma aud_empty_request_accepts :
  validate 0 0 [(s_aud, Build_copt None None (Some (PStr (asc "a"))) (Some (PList [])))] [(s_aud, PStr (asc "zzz"))] = Ok tt /\
  validate 0 0 [(s_aud, Build_copt None None (Some (PStr [])) None)] [(s_aud, PStr (asc "zzz"))] = Ok tt.
Proof. vm_compute. auto. Qed.
(* ... while for other claims an empty `values` list rejects every value *)
Lemma other_empty_values_rejects :
  validate 0 0 [(asc "sub", Build_copt None None None (Some (PList [])))] [(asc "sub", PStr (asc "zzz"))] = Err (EJose InvalidClaimError).
Proof. vm_compute. reflexivity. Qed.
(* reading R2: {} requests nothing, so a blank claim passes; any member makes it a request *)
Lemma empty_option_requests_nothing :
  validate 0 0 [(asc "sub", Build_copt None None None None)] [(asc "sub", PStr [])] = Ok tt /\
  validate 0 0 [(asc "sub", Build_copt (Some (PBool false)) None None None)] [(asc "sub", PStr [])] = Err (EJose InvalidClaimError).
Proof. vm_compute. auto. Qed.

Lemma ex_base : wf_opts ex_opts = true /\
  validate_base ex_opts [(s_exp, PStr (asc "never")); (asc "iss", PStr (asc "https://as")); (s_aud, PStr (asc "web"))] = Ok tt /\
  validate 0 0 ex_opts [(s_exp, PStr (asc "never")); (asc "iss", PStr (asc "https://as")); (s_aud, PStr (asc "web"))] = Err (EJose InvalidClaimError).
Proof. vm_compute. auto. Qed.

Lemma ex_plain_names :
  kind_of (asc "timestamp") = KOther /\ kind_of (asc "validate") = KOther /\ kind_of [] = KOther /\
  kind_of (asc "check_value") = KOther /\ kind_of (asc "__class__") = KOther /\ kind_of (asc "now") = KOther /\
  kind_of (asc "aud ") = KOther /\ kind_of (asc "options") = KOther.
Proof. vm_compute. auto 10. Qed.

