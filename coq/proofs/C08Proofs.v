(* C08Proofs.v — Impl (model/JweCrypto.v, JweMsg.v) feeds every primitive exactly the
   octets Spec (model/C08Spec.v) prescribes. *)
From Coq Require Import Lia ZifyBool.
From Model Require Import JweBase JweCrypto JweMsg C08Spec.
From Gen Require Import Tables.
From Proofs Require Import IntCodecProofs C02Proofs C04Proofs.
Open Scope N_scope.

(* ---------- AAD ---------- *)
Lemma aad_json s b64p aad : s <> Compact -> aad_of s b64p aad = spec_aad b64p aad.
Proof. intro N. destruct s; [contradiction | |]; destruct aad as [[|x l]|]; reflexivity. Qed.

Lemma aad_compact b64p aad : aad_of Compact b64p aad = spec_aad b64p None.
Proof. reflexivity. Qed.

Lemma aad_encrypt_side O g o d x :
  perform_encrypt O g o d = Ok x ->
  exists t a, o_dumps O (PDict (x_prot x)) = Ok t /\ ascii_enc t = Ok a /\
    x_aadseg x = match e_ser o with Compact => b64e a | _ => spec_aad (b64e a) (e_aad o) end.
Proof.
  intro H. apply perform_encrypt_inv in H.
  destruct H as [encv [e [m [_ [_ [_ [J [A _]]]]]]]].
  unfold json_b64encode in J. inv_bind J. inv_bind J. inversion J as [B].
  exists x0, x1. split; [exact E |]. split; [exact E0 |].
  rewrite A, <- B. destruct (e_ser o) eqn:S; [reflexivity | |]; apply aad_json; discriminate.
Qed.

(* ---------- AL ---------- *)
Lemma al_is_spec a : lenN a * 8 < 2 ^ 64 ->
  encode_int (Z.of_N (lenN a * 8)) 64 = Ok (spec_al a).
Proof.
  intro B. pose proof (encode_int_is_I2OSP_partial (Z.of_N (lenN a * 8)) 64) as H.
  cbv zeta in H.
  change (N.to_nat ((64 + 7) / 8)) with 8%nat in H.
  rewrite N2Z.id in H. unfold spec_al. rewrite (N.mul_comm 8).
  apply H; [lia |]. change (256 ^ N.of_nat 8) with (2 ^ 64). exact B.
Qed.

(* ---------- key split and tag truncation ---------- *)
Definition params_of (e : jwe_enc_row) : option cbc_params :=
  match find (fun p => String.eqb (fst p) (ee_name e)) spec_cbc_params with
  | Some p => Some (snd p) | None => None end.

Lemma skipn_half {A} (l : list A) k : length l = (2 * k)%nat -> skipn (length l - k) l = skipn k l.
Proof. intro H. replace (length l - k)%nat with k by lia. reflexivity. Qed.

Lemma key_split e p cek :
  params_of e = Some p ->
  N.to_nat (ee_key_len e) = p_mac_key_len p -> p_enc_key_len p = p_mac_key_len p ->
  length cek = (2 * p_mac_key_len p)%nat ->
  cbchs_hkey e cek = spec_mac_key p cek /\ cbchs_ekey e cek = spec_enc_key p cek.
Proof.
  intros _ K E L. unfold cbchs_hkey, cbchs_ekey, spec_mac_key, spec_enc_key.
  rewrite K, E. split; [reflexivity |]. symmetry. apply skipn_half. exact L.
Qed.

Lemma tag_trunc O e ct aad iv hkey p :
  N.to_nat (ee_key_len e) = p_t_len p -> asc (ee_hash e) = asc (p_hash p) ->
  lenN aad * 8 < 2 ^ 64 ->
  cbchs_hmac O e ct aad iv hkey =
  (do m <- o_mac O (asc (p_hash p)) hkey (spec_mac_input aad iv ct); Ok (spec_tag p m)).
Proof.
  intros T H B. unfold cbchs_hmac. rewrite (al_is_spec aad B). cbn [bind].
  rewrite H, T. reflexivity.
Qed.

(* ---------- Concat KDF other-info ---------- *)
Lemma u32be_absent : u32be_len_input PNone true = Ok (len32 []).
Proof. reflexivity. Qed.

Lemma u32be_b64 s sb u :
  s <> [] -> utf8 s = Ok u -> b64d u = Ok sb ->
  u32be_len_input (PStr s) true = Ok (len32 sb).
Proof.
  intros N U B. unfold u32be_len_input. destruct s; [contradiction |].
  cbn [py_truth negb to_bytes_pv]. rewrite U. cbn [bind]. rewrite B. reflexivity.
Qed.

Lemma u32be_plain s u :
  s <> [] -> utf8 s = Ok u -> u32be_len_input (PStr s) false = Ok (len32 u).
Proof.
  intros N U. unfold u32be_len_input. destruct s; [contradiction |].
  cbn [py_truth negb to_bytes_pv]. rewrite U. reflexivity.
Qed.

Lemma u32be_tag t : t <> [] -> u32be_len_input (PBytes t) false = Ok (len32 t).
Proof. intro N. unfold u32be_len_input. destruct t; [contradiction | reflexivity]. Qed.

(* the general statement: whatever the three length-prefixed fields evaluate to, the layout is
   AlgorithmID || PartyUInfo || PartyVInfo || SuppPubInfo [|| cctag] with the RFC's AlgorithmID choice *)
Lemma otherinfo_layout hs cek_size key_size tag algid pu pv :
  u32be_len_input (hget hs "apu") true = Ok (len32 pu) ->
  u32be_len_input (hget hs "apv") true = Ok (len32 pv) ->
  (match key_size with
   | Some ks => ks <> 0 /\ exists a, hitem hs "alg" = Ok a /\ u32be_len_input a false = Ok (len32 algid)
   | None => exists a, hitem hs "enc" = Ok a /\ u32be_len_input a false = Ok (len32 algid)
   end) ->
  kdf_fixed_info hs cek_size key_size tag =
  Ok (spec_otherinfo algid pu pv (match key_size with Some ks => ks | None => cek_size end)
        (match tag with Some (x :: l) => Some (x :: l) | _ => None end),
      match key_size with Some ks => ks | None => cek_size end).
Proof.
  intros U V A. unfold kdf_fixed_info. rewrite U, V. cbn [bind].
  destruct key_size as [ks|].
  - destruct A as [NZ [a [H1 H2]]].
    assert (Z : (ks =? 0) = false) by (apply N.eqb_neq; exact NZ).
    rewrite Z, H1. cbn [bind]. rewrite H2. cbn [bind].
    destruct tag as [[|x l]|]; unfold spec_otherinfo, u32be; cbn [bind u32be_len_input py_truth negb to_bytes_pv];
      rewrite ?app_nil_r, <- ?app_assoc; reflexivity.
  - destruct A as [a [H1 H2]]. rewrite H1. cbn [bind]. rewrite H2. cbn [bind].
    destruct tag as [[|x l]|]; unfold spec_otherinfo, u32be; cbn [bind u32be_len_input py_truth negb to_bytes_pv];
      rewrite ?app_nil_r, <- ?app_assoc; reflexivity.
Qed.

(* ---------- ECDH-1PU: Z = Ze || Zs, and the tag goes into the KDF in key wrapping mode ---------- *)
Lemma onepu_kw_uses_tag O a e hs r tag :
  ea_direct a = false -> is_agreement a = true -> ea_tag_aware a = true ->
  decrypt_recipient O a e hs r tag =
  (do auk <- dec_auk O a e hs r (Some tag); do ek <- need_ek r; kw_unwrap_cek O (key_size_of a) ek auk).
Proof. intros D A T. unfold decrypt_recipient. rewrite D, A, T. reflexivity. Qed.

Lemma onepu_direct_no_tag O a e hs r tag :
  ea_direct a = true -> is_agreement a = true -> r_ek r = Some [] ->
  decrypt_recipient O a e hs r tag = dec_auk O a e hs r None.
Proof. intros D A K. unfold decrypt_recipient. rewrite D, K, A. reflexivity. Qed.

Lemma onepu_z O a e hs r tag k :
  fam_is (ea_family a) "ECDH1PU" = true ->
  dec_auk O a e hs r tag = Ok k ->
  exists ze zs, derive_key_for_concat_kdf O (spec_1pu_z ze zs) hs (ee_cek_size e) (ea_key_size a) tag = Ok k.
Proof.
  intros F H. apply dec_auk_epk in H. destruct H as [epk [ze [_ [_ [_ [_ [_ H]]]]]]].
  destruct (H F) as [sk [zs [_ [_ [_ D]]]]]. exists ze, zs. exact D.
Qed.

(* ---------- PBES2 ---------- *)
Lemma pbes2_salt_count O a k p2s c :
  (1 <= c <= 2147483647)%Z ->
  pbes2_kek O a k p2s (PInt c) =
  o_pbkdf2 O (asc (ea_hash a)) (k_id k) (spec_pbes2_salt (asc (ea_name a)) p2s) (PInt c) (key_size_of a / 8).
Proof.
  intro R. unfold pbes2_kek, p2c_ok.
  assert (B : ((1 <=? c) && (c <=? 2147483647))%Z = true) by lia.
  rewrite B. reflexivity.
Qed.

(* ---------- AES-GCM key wrap header fields ---------- *)
Lemma gcmkw_fields O a s prot unprot r d cek p' r' ek :
  fam_is (ea_family a) "RSA" = false -> fam_is (ea_family a) "AESKW" = false ->
  fam_is (ea_family a) "AESGCMKW" = true ->
  encrypt_cek O a s prot unprot r d cek = Ok (p', r', ek) ->
  exists tg pr,
    o_gcm_enc O (k_id (r_key r)) (d_kwiv d) None cek = Ok (ek, tg) /\
    add_header s prot r (s_ "iv") (PStr (b64e (d_kwiv d))) = Ok pr /\
    add_header s (fst pr) (snd pr) (s_ "tag") (PStr (b64e tg)) = Ok (p', r').
Proof.
  intros F0 F1 F H. unfold encrypt_cek in H. rewrite F0, F1, F in H.
  inv_bind H. inv_bind H. inv_bind H. destruct x1 as [ek' tg]. inv_bind H. inv_bind H.
  inversion H; subst. exists tg, x1. simpl in *. split; [exact E1 |]. split; [exact E2 |].
  destruct x2; exact E3.
Qed.

(* ---------- decryption never consults the serializer: any spelling of the protected header ---------- *)
Definition with_dumps (O : oracles) (f : pv -> res str) : oracles :=
  {| o_mac := o_mac O; o_cbc_enc := o_cbc_enc O; o_cbc_dec := o_cbc_dec O; o_gcm_enc := o_gcm_enc O;
     o_gcm_dec := o_gcm_dec O; o_cc_enc := o_cc_enc O; o_cc_dec := o_cc_dec O;
     o_kw_wrap := o_kw_wrap O; o_kw_unwrap := o_kw_unwrap O; o_rsa_enc := o_rsa_enc O;
     o_rsa_dec := o_rsa_dec O; o_rsa_bits := o_rsa_bits O; o_pbkdf2 := o_pbkdf2 O; o_ckdf := o_ckdf O; o_ecdh := o_ecdh O;
     o_import := o_import O; o_loads := o_loads O; o_dumps := f;
     o_deflate := o_deflate O; o_inflate := o_inflate O; o_check_header := o_check_header O |}.

Lemma foreign_spelling_compact O f value k sender o :
  extract_compact O value k sender = Ok o ->
  exists hseg rest, split_dot value = hseg :: rest /\ dec_aad (with_dumps O f) o = Ok hseg.
Proof.
  intro H. apply extract_compact_b64prot in H.
  destruct H as [h [ek [iv [ct [tg [S [K [B _]]]]]]]].
  exists h, [ek; iv; ct; tg]. split; [exact S |]. unfold dec_aad. rewrite B, K. reflexivity.
Qed.

Lemma foreign_spelling_json O f data keys dflt sender o :
  extract_json O data keys dflt sender = Ok o ->
  exists b64p, seg_bytes data "protected" = Ok b64p /\
    dec_aad (with_dumps O f) o = Ok (spec_aad b64p (j_aad o)).
Proof.
  intro H. pose proof (json_aad_is_received O data keys dflt sender o H) as [b64p [S [NC [D _]]]].
  exists b64p. split; [exact S |].
  assert (B : j_b64prot o = Some b64p).
  { unfold extract_json in H.
    repeat (inv_bind H). inversion H; subst; simpl.
    match goal with E1 : seg_bytes data "protected" = Ok ?a, E2 : seg_bytes data "protected" = Ok ?b |- _ =>
      rewrite E1 in E2; inversion E2; subst end. reflexivity. }
  unfold dec_aad. rewrite B. cbn [bind]. rewrite aad_json by exact NC. reflexivity.
Qed.

(* ---------- bundled statements used by props/C08.v ---------- *)
Lemma aad_both s b64p aad :
  (s <> Compact -> aad_of s b64p aad = spec_aad b64p aad) /\
  aad_of Compact b64p aad = spec_aad b64p None.
Proof. split; [apply aad_json | apply aad_compact]. Qed.

Lemma otherinfo_fields :
  u32be_len_input PNone true = Ok (len32 []) /\
  (forall s sb u, s <> [] -> utf8 s = Ok u -> b64d u = Ok sb -> u32be_len_input (PStr s) true = Ok (len32 sb)) /\
  (forall s u, s <> [] -> utf8 s = Ok u -> u32be_len_input (PStr s) false = Ok (len32 u)) /\
  (forall t, t <> [] -> u32be_len_input (PBytes t) false = Ok (len32 t)).
Proof. split; [exact u32be_absent | split; [exact u32be_b64 | split; [exact u32be_plain | exact u32be_tag]]]. Qed.

Lemma onepu_all O a e hs r tag :
  (fam_is (ea_family a) "ECDH1PU" = true -> forall t k, dec_auk O a e hs r t = Ok k ->
     exists ze zs, derive_key_for_concat_kdf O (spec_1pu_z ze zs) hs (ee_cek_size e) (ea_key_size a) t = Ok k) /\
  (ea_direct a = false -> is_agreement a = true -> ea_tag_aware a = true ->
     decrypt_recipient O a e hs r tag =
     (do auk <- dec_auk O a e hs r (Some tag); do ek <- need_ek r; kw_unwrap_cek O (key_size_of a) ek auk)) /\
  (ea_direct a = true -> is_agreement a = true -> r_ek r = Some [] ->
     decrypt_recipient O a e hs r tag = dec_auk O a e hs r None).
Proof.
  split; [intros F t k; apply onepu_z; exact F |].
  split; [apply onepu_kw_uses_tag | apply onepu_direct_no_tag].
Qed.

(* ---------- DEFLATE framing: compress emits a COMPLETE raw RFC 1951 stream ---------- *)
Section Deflate.
Variable O : oracles.
(* a strict raw inflater (zlib.decompressobj(-15)): (output, reached end of stream, unused trailing data) *)
Variable raw_inflate : bytes -> res (bytes * bool * bytes).
(* the zlib contract (RFC 1950): zlib.compress(s) = header ++ complete raw DEFLATE stream of s ++ Adler-32 *)
Hypothesis zlib_contract : forall s z, o_deflate O s = Ok z ->
  exists hdr raw adler, spec_zlib_format z hdr raw adler /\ spec_complete_raw raw_inflate raw s.

Lemma deflate_raw s c : zip_compress O s = Ok c -> spec_complete_raw raw_inflate c s.
Proof.
  unfold zip_compress. intro H. inv_bind H. inversion H; subst.
  destruct (zlib_contract s x E) as [hdr [raw [adler [[Z [LH L]] R]]]]. subst x.
  rewrite (strip_zlib_spec hdr raw adler LH L). exact R.
Qed.

(* and that is what goes into the AEAD when "zip" is in the protected header *)
Lemma deflate_raw_message g prot m c :
  dmem prot (s_ "zip") = true -> zip_plain O g prot m = Ok c -> spec_complete_raw raw_inflate c m.
Proof.
  intros Z H. unfold zip_plain in H. rewrite Z in H. inv_bind H. apply deflate_raw. exact H.
Qed.

End Deflate.

(* ---------- the AAD of the encryption is the encoding of the protected header that is EMITTED ---------- *)
Lemma aad_is_emitted_json O g prior o d x data :
  e_ser o <> Compact ->
  perform_encrypt_obj O prior g o d = Ok x -> represent_json O o x = Ok data ->
  exists p, py_getitem_str data (s_ "protected") = Ok (PStr p) /\
            x_aadseg x = spec_aad p (e_aad o).
Proof.
  intros N H RJ. unfold perform_encrypt_obj in H.
  pose proof (perform_encrypt_inv O g o d x H) as [_ [_ [_ [_ [_ [_ [JB [AS _]]]]]]]].
  unfold represent_json in RJ. rewrite JB in RJ. cbn [bind] in RJ.
  exists (x_b64prot x). split.
  - destruct (e_ser o); [contradiction | |].
    + destruct (x_recips x); [discriminate |]. inversion RJ; subst. reflexivity.
    + inversion RJ; subst. reflexivity.
  - rewrite AS. apply aad_json. exact N.
Qed.

Lemma aad_is_emitted_compact O g prior o d x tok :
  e_ser o = Compact ->
  perform_encrypt_obj O prior g o d = Ok x -> represent_compact x = Ok tok ->
  exists rest, tok = x_aadseg x ++ 46 :: rest /\ x_aadseg x = x_b64prot x.
Proof.
  intros S H RC. unfold perform_encrypt_obj in H.
  pose proof (perform_encrypt_inv O g o d x H) as [_ [_ [_ [_ [_ [_ [_ [AS _]]]]]]]].
  unfold represent_compact in RC. destruct (x_recips x) as [|r rs]; [discriminate |].
  inv_bind RC. inversion RC; subst. simpl. eexists. split; [reflexivity |].
  rewrite AS, S. reflexivity.
Qed.

(* whatever the object carried in base64_segments before: it is not an input *)
Lemma prior_segments_irrelevant O g prior1 prior2 es o d :
  perform_encrypt_obj O prior1 g o d = perform_encrypt_obj O prior2 g o d /\
  encrypt_json_obj O prior1 es g o d = encrypt_json_obj O prior2 es g o d.
Proof. split; reflexivity. Qed.

(* the ephemeral key of a re-encryption: fresh unless the CALLER set one *)
Lemma eph_select_rule s :
  (es_cur s = None -> eph_select s = es_draw s) /\
  (forall k, es_cur s = Some k -> es_generated s = true -> eph_select s = es_draw s) /\
  (forall k, es_cur s = Some k -> es_generated s = false -> eph_select s = Some k).
Proof.
  unfold eph_select. repeat split; intros.
  - rewrite H. reflexivity.
  - rewrite H, H0. reflexivity.
  - rewrite H, H0. reflexivity.
Qed.
