(* C18Proofs.v — proofs about the draw discipline model (model/C18Model.v). *)
From Coq Require Import Lia ZifyBool Permutation.
From Model Require Import Base TableTypes C18Model.
From Gen Require Import Tables.
Open Scope string_scope.
Open Scope list_scope.
Open Scope N_scope.

(* ------------------------------------------------------------------ *)
(* 1. discipline: the indices of the draws of any computation are the
      consecutive counter values, and the counter advances by their number *)
Fixpoint nseq (s : N) (n : nat) : list N :=
  match n with O => [] | S k => s :: nseq (s + 1) k end.

Lemma nseq_app s a b : nseq s (a + b) = nseq s a ++ nseq (s + N.of_nat a) b.
Proof.
  revert s; induction a as [|a IH]; intro s; simpl.
  - f_equal. lia.
  - f_equal. rewrite IH. f_equal. f_equal. lia.
Qed.

Lemma nseq_range s n x : In x (nseq s n) -> s <= x < s + N.of_nat n.
Proof.
  revert s; induction n as [|n IH]; intros s H; simpl in H; [contradiction|].
  destruct H as [H|H]; [lia|]. apply IH in H. lia.
Qed.

Lemma nseq_nodup s n : NoDup (nseq s n).
Proof.
  revert s; induction n as [|n IH]; intro s; simpl; constructor.
  - intro H. apply nseq_range in H. lia.
  - apply IH.
Qed.

Definition disc_at {A} (m : M A) (w : world) : Prop :=
  map d_idx (o_draws (m w)) = nseq (w_ctr w) (length (o_draws (m w)))
  /\ w_ctr (o_world (m w)) = w_ctr w + N.of_nat (length (o_draws (m w))).
Definition disc {A} (m : M A) : Prop := forall w, disc_at m w.

Lemma disc_ret {A} (a : A) : disc (ret a).
Proof. intro w; split; simpl; [reflexivity|lia]. Qed.
Lemma disc_fail {A} e : disc (@fail A e).
Proof. intro w; split; simpl; [reflexivity|lia]. Qed.
Lemma disc_draw s n : disc (do_draw s n).
Proof. intro w; split; simpl; [reflexivity|lia]. Qed.
Lemma disc_guard b e : disc (guard b e).
Proof. destruct b; [apply disc_ret | apply disc_fail]. Qed.
Lemma disc_bind {A B} (m : M A) (f : A -> M B) :
  disc m -> (forall a, disc (f a)) -> disc (bindM m f).
Proof.
  intros Hm Hf w. unfold disc_at, bindM. destruct (Hm w) as [H1 H2].
  destruct (o_res (m w)) as [a|e]; simpl.
  - destruct (Hf a (o_world (m w))) as [H3 H4].
    rewrite map_app, app_length, nseq_app, H1, H3, H2, H4. split; [reflexivity|lia].
  - split; assumption.
Qed.

Ltac disc_step :=
  first [ apply disc_ret | apply disc_fail | apply disc_draw | apply disc_guard
        | (apply disc_bind; [|intros])
        | match goal with
          | |- disc (match ?x with _ => _ end) => destruct x
          | |- disc (if ?x then _ else _) => destruct x
          | |- disc (let _ := ?x in _) => destruct x
          end ].
Ltac disc_tac := repeat disc_step.

Lemma disc_gen_ec c : disc (gen_ec c).
Proof. unfold gen_ec. disc_tac. Qed.
Lemma disc_gen_okp c : disc (gen_okp c).
Proof. unfold gen_okp. disc_tac. Qed.
Lemma disc_gen_like k : disc (gen_like k).
Proof. destruct k; simpl; try apply disc_fail; [apply disc_gen_ec | apply disc_gen_okp]. Qed.
Lemma disc_gen_oct b p : disc (gen_oct b p).
Proof. unfold gen_oct. disc_tac. Qed.
Lemma disc_gen_rsa nm b : disc (gen_rsa nm b).
Proof. unfold gen_rsa. disc_tac. Qed.
Lemma disc_prepare_epk a r : disc (prepare_epk a r).
Proof. unfold prepare_epk. disc_tac. apply disc_gen_like. Qed.
Lemma disc_agree a e r : disc (agree a e r).
Proof. unfold agree. disc_tac. Qed.
Lemma disc_encrypt_cek a r : disc (encrypt_cek a r).
Proof. unfold encrypt_cek. disc_tac. Qed.
Lemma disc_direct_mode a e r : disc (direct_mode a e r).
Proof. unfold direct_mode. disc_tac. apply disc_agree. Qed.
Lemma disc_step_ algs e many r cek : disc (step algs e many r cek).
Proof.
  unfold step. disc_tac;
    first [ apply disc_prepare_epk | apply disc_gen_like | apply disc_direct_mode | apply disc_encrypt_cek ].
Qed.
Lemma disc_pre_loop algs e many rs : forall cek, disc (pre_loop algs e many rs cek).
Proof.
  induction rs as [|r rest IH]; intro cek; simpl; [apply disc_ret|].
  apply disc_bind; [apply disc_step_|]. intros [[c v] t].
  apply disc_bind; [apply IH|]. intros [[c' vs] ts]. apply disc_ret.
Qed.
Lemma disc_post_loop e ts : disc (post_loop e ts).
Proof.
  induction ts as [|[a r] rest IH]; simpl; [apply disc_ret|].
  apply disc_bind; [apply disc_agree | intros; apply IH].
Qed.
Lemma disc_encrypt algs encs m : disc (encrypt algs encs m).
Proof.
  unfold encrypt. destruct (find_enc encs (m_enc m)); [|apply disc_fail].
  apply disc_bind; [apply disc_pre_loop|]. intros [[c vs] ts].
  disc_tac. apply disc_post_loop.
Qed.

(* consequences of discipline *)
Lemma disc_nodup {A} (m : M A) w : disc m -> NoDup (map d_idx (o_draws (m w))).
Proof. intro H. destruct (H w) as [E _]. rewrite E. apply nseq_nodup. Qed.

Lemma disc_range {A} (m : M A) w d :
  disc m -> In d (o_draws (m w)) -> w_ctr w <= d_idx d < w_ctr (o_world (m w)).
Proof.
  intros H Hin. destruct (H w) as [E1 E2].
  assert (Hi : In (d_idx d) (map d_idx (o_draws (m w)))) by (apply in_map; exact Hin).
  rewrite E1 in Hi. apply nseq_range in Hi. lia.
Qed.

Lemma disc_mono {A} (m : M A) w : disc m -> w_ctr w <= w_ctr (o_world (m w)).
Proof. intro H. destruct (H w) as [_ E]. lia. Qed.

(* ------------------------------------------------------------------ *)
(* 2. inversion of successful computations *)
Lemma bind_ok {A B} (m : M A) (f : A -> M B) w b :
  o_res (bindM m f w) = Ok b ->
  exists a, o_res (m w) = Ok a /\ o_res (f a (o_world (m w))) = Ok b
    /\ o_draws (bindM m f w) = o_draws (m w) ++ o_draws (f a (o_world (m w)))
    /\ o_world (bindM m f w) = o_world (f a (o_world (m w))).
Proof.
  unfold bindM. destruct (o_res (m w)) as [a|e] eqn:E; simpl; intro H; [|discriminate].
  exists a. repeat split; assumption.
Qed.

Lemma bind_draws_prefix {A B} (m : M A) (f : A -> M B) w :
  exists tl, o_draws (bindM m f w) = o_draws (m w) ++ tl.
Proof.
  unfold bindM. destruct (o_res (m w)); simpl; eexists; [reflexivity|].
  rewrite app_nil_r. reflexivity.
Qed.

(* case analysis on a hypothesis [H : ... (computation) ... = Ok _], following
   the evaluation order: only scrutinees that contain no further case
   analysis are destructed, dead branches are closed at once *)
Ltac atomic_scrut x :=
  lazymatch x with
  | context [if _ then _ else _] => fail
  | context [match _ with _ => _ end] => fail
  | _ => idtac
  end.
Ltac bust1 H :=
  match type of H with
  | context [if ?b then _ else _] => atomic_scrut b; destruct b eqn:?
  | context [match ?x with _ => _ end] => atomic_scrut x; destruct x eqn:?
  end.
Ltac red_in H := cbv beta iota zeta delta [bindM ret fail guard do_draw o_res o_draws o_world] in H.
Ltac bust H :=
  repeat (red_in H; try discriminate H; bust1 H);
  red_in H; try discriminate H.

Definition kw_draws (v : rview) : list draw := opt_list (v_gcm_iv v) ++ opt_list (v_p2s v).
Definition all_draws (v : rview) : list draw := epk_draws v ++ kw_draws v.

Definition curve_site (k : keydesc) : option site :=
  match k with KEC c => Some (SEC c) | KOKP c => Some (SOKP c) | _ => None end.

(* what a recipient's view is made of, given its algorithm row and inputs *)
Definition view_spec (a : jwe_alg_row) (r : recip) (v : rview) : Prop :=
  match v_epk v with
  | None => is_agreement a = false
  | Some EpkPreset => is_agreement a = true /\ caller_preset r <> None
  | Some (EpkDrawn d) => is_agreement a = true /\ caller_preset r = None
                         /\ Some (d_site d) = curve_site (r_key r)
  end /\
  match v_gcm_iv v with
  | Some d => fam a "AESGCMKW" = true /\ ea_direct a = false
              /\ d_site d = SGcmIv /\ d_size d = gcmkw_iv_octets
  | None => fam a "AESGCMKW" = false \/ ea_direct a = true
  end /\
  match v_p2s v with
  | Some d => fam a "PBES2" = true /\ ea_direct a = false /\ r_has_p2s r = false
              /\ d_site d = SP2s /\ d_size d = pbes2_salt_octets
  | None => fam a "PBES2" = false \/ ea_direct a = true \/ r_has_p2s r = true
  end /\
  match v_p2c v with
  | Some c => fam a "PBES2" = true /\ ea_direct a = false
              /\ c = match r_p2c r with Some x => x | None => ea_p2c a end
              /\ (1 <=? c) && (c <=? 2147483647) = true
  | None => fam a "PBES2" = false \/ ea_direct a = true
  end.

Lemma fam_excl a x y : fam a x = true -> fam a y = true -> x = y.
Proof.
  unfold fam. intros H1 H2. apply String.eqb_eq in H1, H2. congruence.
Qed.

Ltac fam_contra :=
  match goal with
  | H1 : fam ?a ?x = true, H2 : fam ?a ?y = true |- _ =>
      exfalso; pose proof (fam_excl a x y H1 H2) as Hxy; discriminate Hxy
  end.

Lemma agreement_fam a : is_agreement a = true -> fam a "ECDHES" = true \/ fam a "ECDH1PU" = true.
Proof. unfold is_agreement. intro H. apply orb_true_iff in H. exact H. Qed.

Lemma agreement_not a f :
  is_agreement a = true -> f <> "ECDHES" -> f <> "ECDH1PU" -> fam a f = false.
Proof.
  intros H H1 H2. destruct (fam a f) eqn:E; [|reflexivity].
  destruct (agreement_fam a H) as [H'|H']; pose proof (fam_excl a _ _ E H'); congruence.
Qed.

Lemma agree_nodraw a e r w : o_draws (agree a e r w) = [].
Proof.
  unfold agree. destruct (fam a "ECDH1PU").
  - cbn [bindM]. destruct (negb _); cbn; [|reflexivity].
    destruct (r_sender r); cbn; [|reflexivity].
    destruct (exch_ok k (r_key r)); cbn; [|reflexivity].
    destruct (exch_ok _ _); reflexivity.
  - destruct (exch_ok _ _); reflexivity.
Qed.

Lemma agree_run a e r w res ds w' : agree a e r w = mkout res ds w' -> ds = [] /\ w' = w.
Proof.
  intro H. pose proof (agree_nodraw a e r w) as Hd. rewrite H in Hd. simpl in Hd.
  split; [exact Hd|].
  pose proof (disc_agree a e r w) as [_ Hw]. rewrite H in Hw. simpl in Hw. subst ds. simpl in Hw.
  destruct w, w'. simpl in Hw. f_equal. lia.
Qed.

Lemma run_bind {A B} (m : M A) (f : A -> M B) w b ds w' :
  bindM m f w = mkout (Ok b) ds w' ->
  exists a ds1 w1 ds2, m w = mkout (Ok a) ds1 w1 /\ f a w1 = mkout (Ok b) ds2 w' /\ ds = ds1 ++ ds2.
Proof.
  unfold bindM. destruct (m w) as [r1 d1 w1]. simpl. destruct r1 as [a|e]; intro H; [|discriminate].
  destruct (f a w1) as [r2 d2 w2] eqn:E. simpl in H. inversion H; subst. clear H.
  exists a, d1, w1, d2. split; [reflexivity|]. split; [exact E|reflexivity].
Qed.

Lemma run_ret {A} (a b : A) w ds w' : ret a w = mkout (Ok b) ds w' -> a = b /\ ds = [] /\ w' = w.
Proof. unfold ret. intro H. inversion H. auto. Qed.

Lemma run_guard b e w u ds w' : guard b e w = mkout (Ok u) ds w' -> b = true /\ ds = [] /\ w' = w.
Proof. destruct b; cbn; intro H; inversion H. auto. Qed.

Lemma run_draw s n w d ds w' :
  do_draw s n w = mkout (Ok d) ds w' ->
  ds = [d] /\ d_site d = s /\ d_size d = n /\ d_idx d = w_ctr w.
Proof. unfold do_draw. intro H. inversion H. subst. auto. Qed.

Lemma prepare_epk_ok a r w s ds w' :
  prepare_epk a r w = mkout (Ok s) ds w' ->
  (exists k, caller_preset r = Some k /\ s = EpkPreset /\ ds = []) \/
  (caller_preset r = None /\ exists d, s = EpkDrawn d /\ ds = [d]
     /\ Some (d_site d) = curve_site (r_key r)).
Proof.
  intro H. unfold prepare_epk, gen_like, gen_ec, gen_okp in H.
  bust H; inversion H; subst; clear H.
  all: try (left; eexists; repeat split; reflexivity).
  all: right; split; [reflexivity|]; eexists; repeat split; reflexivity.
Qed.

Lemma encrypt_cek_ok a r w v ds w' :
  encrypt_cek a r w = mkout (Ok v) ds w' ->
  v_epk v = None /\ ds = kw_draws v /\
  match v_gcm_iv v with
  | Some d => fam a "AESGCMKW" = true /\ d_site d = SGcmIv /\ d_size d = gcmkw_iv_octets
  | None => fam a "AESGCMKW" = false
  end /\
  match v_p2s v with
  | Some d => fam a "PBES2" = true /\ r_has_p2s r = false
              /\ d_site d = SP2s /\ d_size d = pbes2_salt_octets
  | None => fam a "PBES2" = false \/ r_has_p2s r = true
  end /\
  match v_p2c v with
  | Some c => fam a "PBES2" = true /\ c = match r_p2c r with Some x => x | None => ea_p2c a end
              /\ (1 <=? c) && (c <=? 2147483647) = true
  | None => fam a "PBES2" = false
  end.
Proof.
  intro H. unfold encrypt_cek in H.
  bust H; inversion H; subst; clear H; cbn.
  all: repeat split; try reflexivity; try assumption;
    try (destruct (fam a "AESGCMKW") eqn:?; [fam_contra|reflexivity]);
    try (destruct (fam a "PBES2") eqn:?; [fam_contra|reflexivity]).
  all: try (left; destruct (fam a "PBES2") eqn:?; [fam_contra|reflexivity]).
  all: right; reflexivity.
Qed.

Lemma direct_mode_ok a e r w c ds w' :
  direct_mode a e r w = mkout (Ok c) ds w' -> ds = [] /\ (c = CekKey \/ c = CekAgreed).
Proof.
  unfold direct_mode. destruct (is_agreement a).
  - intro H. apply run_bind in H as (u & ds1 & w1 & ds2 & H1 & H2 & ->).
    apply agree_run in H1 as [-> _]. apply run_ret in H2 as (<- & -> & _). auto.
  - intro H. bust H. inversion H; subst. auto.
Qed.

Lemma step_ok algs e many r cek w c v t ds w' :
  step algs e many r cek w = mkout (Ok (c, v, t)) ds w' ->
  exists a, find_alg algs (r_alg r) = Some a /\ view_spec a r v /\
    ( (ea_direct a = true /\ many = false /\ (c = CekKey \/ c = CekAgreed)
       /\ ds = epk_draws v /\ kw_draws v = [])
    \/ (ea_direct a = false /\ cek_empty cek = false /\ c = cek
       /\ ds = epk_draws v ++ kw_draws v)
    \/ (ea_direct a = false /\ cek_empty cek = true /\
        exists d, c = CekDrawn d /\ d_site d = SCek /\ d_size d = ee_cek_size e / 8
          /\ ds = epk_draws v ++ [d] ++ kw_draws v) ).
Proof.
  intro H. unfold step in H.
  destruct (find_alg algs (r_alg r)) as [a|] eqn:Ea; [|discriminate H].
  exists a. split; [reflexivity|].
  apply run_bind in H as (epk & ds1 & w1 & ds2 & H1 & H2 & ->).
  (* the epk part *)
  assert (Hepk : ds1 = epk_draws {| v_epk := epk; v_gcm_iv := None; v_p2s := None; v_p2c := None |}
          /\ match epk with
             | None => is_agreement a = false
             | Some EpkPreset => is_agreement a = true /\ caller_preset r <> None
             | Some (EpkDrawn d) => is_agreement a = true /\ caller_preset r = None
                                    /\ Some (d_site d) = curve_site (r_key r)
             end).
  { destruct (is_agreement a) eqn:Eag.
    - apply run_bind in H1 as (s & dsa & wa & dsb & Ha & Hb & ->).
      apply run_ret in Hb as (<- & -> & _).
      apply prepare_epk_ok in Ha as [(k & Hk & -> & ->)|(Hk & d & -> & -> & Hs)]; cbn.
      + split; [reflexivity|]. split; [reflexivity|]. congruence.
      + split; [reflexivity|]. auto.
    - apply run_ret in H1 as (<- & -> & _). cbn. auto. }
  destruct Hepk as [-> Hepk].
  destruct (ea_direct a) eqn:Edir.
  - (* direct *)
    apply run_bind in H2 as (u & dsa & wa & dsb & Ha & Hb & ->).
    apply run_guard in Ha as (Hm & -> & _).
    apply run_bind in Hb as (c0 & dsc & wc & dsd & Hc & Hd & ->).
    apply direct_mode_ok in Hc as (-> & Hc).
    apply run_ret in Hd as (Hd & -> & _). inversion Hd; subst. clear Hd.
    split.
    + unfold view_spec; cbn. repeat split; auto.
    + left. cbn. repeat split; auto.
      * destruct many; [discriminate|reflexivity].
      * rewrite !app_nil_r. reflexivity.
  - (* not direct *)
    apply run_bind in H2 as (c0 & dsa & wa & dsb & Ha & Hb & ->).
    assert (Hcek : (cek_empty cek = false /\ c0 = cek /\ dsa = []) \/
                   (cek_empty cek = true /\ exists d, c0 = CekDrawn d /\ d_site d = SCek
                      /\ d_size d = ee_cek_size e / 8 /\ dsa = [d])).
    { destruct (cek_empty cek).
      - right. split; [reflexivity|].
        apply run_bind in Ha as (d & d1 & wd & d2 & Hx & Hy & ->).
        apply run_draw in Hx as (-> & Hs & Hn & _).
        apply run_ret in Hy as (<- & -> & _). exists d. auto.
      - left. apply run_ret in Ha as (<- & -> & _). auto. }
    destruct (is_agreement a) eqn:Eag.
    + apply run_ret in Hb as (Hb & -> & _). inversion Hb; subst; clear Hb.
      split.
      * unfold view_spec; cbn. split; [rewrite Eag; exact Hepk|].
        repeat split; left; apply agreement_not; auto; discriminate.
      * destruct Hcek as [(Hc & -> & ->)|(Hc & d & -> & Hs & Hn & ->)].
        -- right; left. cbn. rewrite ?app_nil_r. auto.
        -- right; right. cbn. rewrite ?app_nil_r. repeat split; auto.
           exists d. repeat split; auto.
    + apply run_bind in Hb as (v0 & dsc & wc & dsd & Hc & Hd & ->).
      apply run_ret in Hd as (Hd & -> & _). inversion Hd; subst; clear Hd.
      apply encrypt_cek_ok in Hc as (Hv & -> & Hg & Hs & Hp).
      destruct epk as [[?|]|]; try (destruct Hepk as [? _]; congruence).
      split.
      * unfold view_spec. rewrite Hv. split; [exact Eag|].
        split; [destruct (v_gcm_iv v); [tauto|auto]|].
        split; [destruct (v_p2s v); [tauto|tauto]|].
        destruct (v_p2c v); [tauto|auto].
      * unfold epk_draws. rewrite Hv. cbn [app].
        destruct Hcek as [(Hc & -> & ->)|(Hc & d & -> & Hs' & Hn & ->)].
        -- right; left. rewrite app_nil_r. auto.
        -- right; right. rewrite app_nil_r. repeat split; auto. exists d. auto.
Qed.

(* ------------------------------------------------------------------ *)
(* 3. the loop and perform_encrypt *)
Definition recip_spec (algs : list jwe_alg_row) (r : recip) (v : rview) : Prop :=
  exists a, find_alg algs (r_alg r) = Some a /\ view_spec a r v.
Definition recip_spec_nd (algs : list jwe_alg_row) (r : recip) (v : rview) : Prop :=
  exists a, find_alg algs (r_alg r) = Some a /\ view_spec a r v /\ ea_direct a = false.

Lemma pre_loop_many algs e rs : forall cek w c vs ts ds w',
  0 < ee_cek_size e / 8 ->
  pre_loop algs e true rs cek w = mkout (Ok (c, vs, ts)) ds w' ->
  Forall2 (recip_spec_nd algs) rs vs /\
  (cek_empty cek = false -> c = cek /\ ds = flat_map all_draws vs) /\
  (cek_empty cek = true ->
     match vs with
     | [] => c = cek /\ ds = []
     | v1 :: vs' => exists d, c = CekDrawn d /\ d_site d = SCek /\ d_size d = ee_cek_size e / 8
                      /\ ds = epk_draws v1 ++ [d] ++ kw_draws v1 ++ flat_map all_draws vs'
     end).
Proof.
  induction rs as [|r rest IH]; intros cek w c vs ts ds w' Hpos H.
  - cbn in H. apply run_ret in H as (H & -> & _). inversion H; subst.
    repeat split; auto.
  - cbn [pre_loop] in H.
    apply run_bind in H as ([[c0 v0] t0] & ds1 & w1 & ds2 & H1 & H2 & ->).
    apply run_bind in H2 as ([[c1 vs1] ts1] & ds3 & w3 & ds4 & H3 & H4 & ->).
    apply run_ret in H4 as (H4 & -> & _). inversion H4; subst; clear H4.
    rewrite app_nil_r.
    apply step_ok in H1 as (a & Ha & Hv & Hcase).
    destruct Hcase as [(Hd & Hm & _)|[(Hd & Hce & -> & ->)|(Hd & Hce & d & -> & Hs & Hn & ->)]];
      [discriminate Hm| |].
    + apply IH in H3 as (HF & Hne & _); [|exact Hpos].
      split; [constructor; [exists a; auto|exact HF]|].
      split; [|congruence].
      intros _. destruct (Hne Hce) as [-> ->]. split; [reflexivity|].
      cbn [flat_map]. unfold all_draws. rewrite <- !app_assoc. reflexivity.
    + assert (Hne' : cek_empty (CekDrawn d) = false).
      { cbn. rewrite Hn. apply N.eqb_neq. lia. }
      apply IH in H3 as (HF & Hne & _); [|exact Hpos].
      split; [constructor; [exists a; auto|exact HF]|].
      split; [congruence|].
      intros _. destruct (Hne Hne') as [-> ->].
      exists d. repeat split; auto. rewrite <- !app_assoc. reflexivity.
Qed.

Lemma post_loop_run e ts : forall w res ds w', post_loop e ts w = mkout res ds w' -> ds = [].
Proof.
  induction ts as [|[a r] rest IH]; intros w res ds w' H; cbn in H.
  - inversion H. reflexivity.
  - unfold bindM in H. destruct (agree a e r w) as [r1 d1 w1] eqn:E.
    apply agree_run in E as [-> ->]. cbn in H. destruct r1.
    + destruct (post_loop e rest w) as [r2 d2 w2] eqn:E2. apply IH in E2. subst.
      cbn in H. inversion H. reflexivity.
    + inversion H. reflexivity.
Qed.

(* the complete draw sequence of a successful encryption, rebuilt from the token *)
Definition layout (t : token) : list draw :=
  match t_recips t with
  | [] => []
  | v1 :: vs => epk_draws v1 ++ cek_draws (t_cek t) ++ kw_draws v1 ++ flat_map all_draws vs
  end ++ [t_iv t].

Definition cek_spec (algs : list jwe_alg_row) (e : jwe_enc_row) (m : msg) (c : cek_src) : Prop :=
  match c with
  | CekDrawn d =>
      d_site d = SCek /\ d_size d = ee_cek_size e / 8 /\
      Forall (fun r => exists a, find_alg algs (r_alg r) = Some a /\ ea_direct a = false) (m_recips m)
  | CekKey | CekAgreed =>
      exists r a, m_recips m = [r] /\ find_alg algs (r_alg r) = Some a /\ ea_direct a = true
  | CekNone => False
  end.

Lemma lenN_many {A} (a b : A) l : (1 <? lenN (a :: b :: l)) = true.
Proof. unfold lenN. cbn [length]. apply N.ltb_lt. lia. Qed.

Theorem encrypt_ok algs encs m w tok ds w' :
  encrypt algs encs m w = mkout (Ok tok) ds w' ->
  exists e, find_enc encs (m_enc m) = Some e /\
    (0 < ee_cek_size e / 8 ->
     ds = layout tok /\
     d_site (t_iv tok) = SIv /\ d_size (t_iv tok) = ee_iv_size e / 8 /\
     Forall2 (recip_spec algs) (m_recips m) (t_recips tok) /\
     m_recips m <> [] /\
     cek_spec algs e m (t_cek tok)).
Proof.
  intro H. unfold encrypt in H.
  destruct (find_enc encs (m_enc m)) as [e|] eqn:Ee; [|discriminate H].
  exists e. split; [reflexivity|]. intro Hpos.
  apply run_bind in H as ([[c vs] ts] & ds1 & w1 & ds2 & H1 & H2 & ->).
  apply run_bind in H2 as (iv & ds3 & w3 & ds4 & H3 & H4 & ->).
  apply run_draw in H3 as (-> & Hsite & Hsize & _).
  apply run_bind in H4 as (u & ds5 & w5 & ds6 & H5 & H6 & ->).
  apply run_guard in H5 as (Hce & -> & _).
  apply run_bind in H6 as (u2 & ds7 & w7 & ds8 & H7 & H8 & ->).
  apply post_loop_run in H7. subst ds7.
  apply run_ret in H8 as (<- & -> & _).
  cbn [app t_iv t_cek t_recips]. unfold layout, cek_spec. cbn [t_iv t_cek t_recips].
  destruct (m_recips m) as [|r1 [|r2 rest]] eqn:Erec.
  - (* no recipient: the CEK stays empty *)
    cbn in H1. apply run_ret in H1 as (H1 & _). inversion H1; subst. discriminate Hce.
  - (* one recipient *)
    cbn [pre_loop] in H1.
    apply run_bind in H1 as ([[c0 v0] t0] & dsa & wa & dsb & Ha & Hb & ->).
    apply run_bind in Hb as ([[c1 vs1] ts1] & dsc & wc & dsd & Hc & Hd & ->).
    apply run_ret in Hc as (Hc & -> & _). inversion Hc; subst; clear Hc.
    apply run_ret in Hd as (Hd & -> & _). inversion Hd; subst; clear Hd.
    apply step_ok in Ha as (a & Ha & Hv & Hcase).
    assert (HF : Forall2 (recip_spec algs) [r1] [v0]) by (constructor; [exists a; auto|constructor]).
    destruct Hcase as [(Hd & Hm & Hc & -> & Hkw)|[(Hd & Hce' & -> & ->)|(Hd & Hce' & d & -> & Hs & Hn & ->)]].
    + repeat split; auto; try discriminate.
      * rewrite Hkw. destruct Hc as [-> | ->]; cbn; rewrite ?app_nil_r; reflexivity.
      * destruct Hc as [-> | ->]; cbn; exists r1, a; auto.
    + discriminate Hce'.
    + repeat split; auto; try discriminate.
      * cbn. rewrite ?app_nil_r, <- ?app_assoc. reflexivity.
      * constructor; [exists a; auto|constructor].
  - (* several recipients *)
    rewrite lenN_many in H1.
    apply pre_loop_many in H1 as (HF & _ & Hem); [|exact Hpos].
    specialize (Hem eq_refl).
    assert (HF' : Forall2 (recip_spec algs) (r1 :: r2 :: rest) vs).
    { clear -HF. induction HF; constructor; auto.
      destruct H as (a & ? & ? & ?). exists a; auto. }
    destruct vs as [|v1 vs']; [inversion HF|].
    destruct Hem as (d & -> & Hs & Hn & ->).
    repeat split; auto; try discriminate.
    clear -HF. induction HF; constructor; auto.
      destruct H as (a & ? & ? & ?). exists a; auto.
Qed.

(* ------------------------------------------------------------------ *)
(* 4. counting occurrences of indices: emitted draws vs. all draws *)
Definition cn (x : N) (l : list draw) : nat := count_occ N.eq_dec (map d_idx l) x.

Lemma cn_app x a b : cn x (a ++ b) = (cn x a + cn x b)%nat.
Proof. unfold cn. rewrite map_app. apply count_occ_app. Qed.

Lemma cn_flat_all x vs :
  cn x (flat_map all_draws vs) =
  (cn x (flat_map epk_draws vs) + cn x (flat_map (fun v => opt_list (v_gcm_iv v)) vs)
   + cn x (flat_map (fun v => opt_list (v_p2s v)) vs))%nat.
Proof.
  induction vs as [|v vs IH]; [reflexivity|].
  cbn [flat_map]. unfold all_draws, kw_draws in *. rewrite !cn_app, IH. lia.
Qed.

Lemma emitted_cn tok x :
  (t_recips tok <> [] \/ cek_draws (t_cek tok) = []) ->
  cn x (emitted_token tok) = cn x (layout tok).
Proof.
  intro H. unfold emitted_token, layout.
  destruct (t_recips tok) as [|v1 vs].
  - destruct H as [H|H]; [congruence|]. rewrite H. cbn. reflexivity.
  - cbn [flat_map]. rewrite !cn_app, cn_flat_all. unfold kw_draws. rewrite !cn_app. lia.
Qed.

Lemma nodup_cn l : NoDup (map d_idx l) <-> forall x, (cn x l <= 1)%nat.
Proof. unfold cn. apply NoDup_count_occ. Qed.

Lemma in_cn l x : In x (map d_idx l) <-> (cn x l > 0)%nat.
Proof. unfold cn. apply count_occ_In. Qed.

Lemma nodup_app {A} (a b : list A) :
  NoDup a -> NoDup b -> (forall x, In x a -> ~ In x b) -> NoDup (a ++ b).
Proof.
  induction a as [|x a IH]; intros Ha Hb Hd; [exact Hb|].
  inversion Ha; subst. cbn. constructor.
  - intro Hin. apply in_app_or in Hin as [Hin|Hin]; [contradiction|].
    apply (Hd x); [left; reflexivity|exact Hin].
  - apply IH; auto. intros y Hy. apply Hd. right; exact Hy.
Qed.

(* ------------------------------------------------------------------ *)
(* 5. histories *)
Definition good (w : world) (r : list draw * list draw * world) : Prop :=
  let '(em, ds, w') := r in
  map d_idx ds = nseq (w_ctr w) (length ds)
  /\ w_ctr w' = w_ctr w + N.of_nat (length ds)
  /\ NoDup (map d_idx em)
  /\ (forall x, In x (map d_idx em) -> In x (map d_idx ds)).

Lemma good_lift {A} (m : M A) (emit : A -> list draw) w :
  disc m ->
  (forall a ds w', m w = mkout (Ok a) ds w' -> forall x, (cn x (emit a) <= cn x ds)%nat) ->
  good w (lift_emit emit (m w)).
Proof.
  intros Hd He. unfold lift_emit, good.
  destruct (Hd w) as [H1 H2]. destruct (m w) as [r ds w'] eqn:E. cbn [o_res o_draws o_world] in *.
  split; [exact H1|]. split; [exact H2|].
  destruct r as [a|e]; [|split; [constructor|intros x []]].
  specialize (He a ds w' eq_refl).
  assert (Hnd : NoDup (map d_idx ds)) by (rewrite H1; apply nseq_nodup).
  split.
  - apply nodup_cn. intro x. apply (proj1 (nodup_cn ds)) with (x := x) in Hnd.
    specialize (He x). lia.
  - intros x Hx. apply in_cn. apply in_cn in Hx. specialize (He x). lia.
Qed.

Lemma gen_ec_run c w d ds w' : gen_ec c w = mkout (Ok d) ds w' -> ds = [d] /\ d_site d = SEC c.
Proof. unfold gen_ec. intro H. bust H. inversion H; subst. auto. Qed.
Lemma gen_okp_run c w d ds w' : gen_okp c w = mkout (Ok d) ds w' -> ds = [d] /\ d_site d = SOKP c.
Proof. unfold gen_okp. intro H. bust H. inversion H; subst. auto. Qed.
Lemma gen_oct_run b p w d ds w' :
  gen_oct b p w = mkout (Ok d) ds w' -> ds = [d] /\ d_site d = SOct /\ d_size d = Z.to_N (b / 8).
Proof. unfold gen_oct. intro H. bust H. inversion H; subst. auto. Qed.
Lemma gen_rsa_run nm b w d ds w' :
  gen_rsa nm b w = mkout (Ok d) ds w' -> ds = [d] /\ d_site d = SRSA (Z.to_N b).
Proof. unfold gen_rsa. intro H. bust H. inversion H; subst. auto. Qed.

Lemma disc_gen_one nm g p : disc (gen_one nm g p).
Proof.
  destruct g; cbn; first [apply disc_gen_oct | apply disc_gen_rsa | apply disc_gen_ec
                          | apply disc_gen_okp | apply disc_fail].
Qed.
Lemma disc_gen_key_set nm g p k : disc (gen_key_set nm g p k).
Proof.
  induction k as [|k IH]; cbn; [apply disc_ret|].
  apply disc_bind; [apply disc_gen_one|]. intro d.
  apply disc_bind; [exact IH|]. intro ds. apply disc_ret.
Qed.

Lemma gen_one_run nm g p w d ds w' : gen_one nm g p w = mkout (Ok d) ds w' -> ds = [d].
Proof.
  destruct g; cbn; intro H.
  - apply gen_oct_run in H. tauto.
  - apply gen_rsa_run in H. tauto.
  - apply gen_ec_run in H. tauto.
  - apply gen_okp_run in H. tauto.
  - discriminate H.
Qed.

(* a generated key set: the emitted keys are exactly the draws of the call, in order, one
   generator call per key, each as a single generate_key call would make it *)
Lemma gen_key_set_run nm g p k : forall w keys ds w',
  gen_key_set nm g p k w = mkout (Ok keys) ds w' ->
  ds = keys /\ length keys = k /\
  map d_idx keys = nseq (w_ctr w) k /\ w_ctr w' = w_ctr w + N.of_nat k /\
  Forall (fun d => exists w0 w1, gen_one nm g p w0 = mkout (Ok d) [d] w1) keys.
Proof.
  induction k as [|k IH]; intros w keys ds w' H; cbn in H.
  - apply run_ret in H as (<- & -> & ->). cbn. repeat split; auto. lia.
  - apply run_bind in H as (d & ds1 & w1 & ds2 & H1 & H2 & ->).
    apply run_bind in H2 as (rest & ds3 & w3 & ds4 & H3 & H4 & ->).
    apply run_ret in H4 as (<- & -> & ->).
    pose proof (gen_one_run _ _ _ _ _ _ _ H1) as ->.
    pose proof (disc_gen_one nm g p w) as [D1 D2]. rewrite H1 in D1, D2. cbn in D1, D2.
    apply IH in H3 as (-> & Hl & Hi & Hw & HF).
    rewrite app_nil_r. cbn. repeat split.
    + congruence.
    + inversion D1 as [Hd]. rewrite Hi. f_equal. f_equal. lia.
    + lia.
    + constructor; [exists w, w1; exact H1 | exact HF].
Qed.

Lemma gen_key_set_err nm g p k w e ds w' :
  gen_key_set nm g p k w = mkout (Err e) ds w' ->
  exists w0 ds0 w1, gen_one nm g p w0 = mkout (Err e) ds0 w1.
Proof.
  revert w ds w'. induction k as [|k IH]; intros w ds w' H; cbn in H; [discriminate H|].
  unfold bindM in H. destruct (gen_one nm g p w) as [r1 d1 w1] eqn:E1. cbn in H.
  destruct r1 as [d|e1].
  - destruct (gen_key_set nm g p k w1) as [r2 d2 w2] eqn:E2. cbn in H.
    destruct r2 as [l|e2]; cbn in H; [discriminate H|].
    inversion H; subst. eapply IH. exact E2.
  - inversion H; subst. eauto.
Qed.

Definition encs_ok (encs : list jwe_enc_row) : Prop := Forall (fun e => 8 <= ee_cek_size e) encs.

Lemma find_enc_in encs n e : find_enc encs n = Some e -> In e encs.
Proof. unfold find_enc. intro H. apply find_some in H. tauto. Qed.

Lemma call_good algs encs nm c w : encs_ok encs -> good w (run_call algs encs nm c w).
Proof.
  intro Hok. destruct c; cbn [run_call].
  - apply good_lift; [apply disc_gen_key_set|]. intros keys ds w' H x.
    apply gen_key_set_run in H as (-> & _). lia.
  - apply good_lift; [apply disc_encrypt|].
    intros tok ds w' H x. apply encrypt_ok in H as (e & He & H).
    assert (Hpos : 0 < ee_cek_size e / 8).
    { apply find_enc_in in He. unfold encs_ok in Hok. rewrite Forall_forall in Hok.
      specialize (Hok e He). apply N.div_str_pos. lia. }
    destruct (H Hpos) as (-> & _ & _ & HF & Hne & _).
    rewrite emitted_cn; [lia|].
    left. intro Hnil. rewrite Hnil in HF. inversion HF; subst. congruence.
  - apply good_lift; [apply disc_gen_oct|]. intros d ds w' H x.
    apply gen_oct_run in H as (-> & _). lia.
  - apply good_lift; [apply disc_gen_rsa|]. intros d ds w' H x.
    apply gen_rsa_run in H as (-> & _). lia.
  - apply good_lift; [apply disc_gen_ec|]. intros d ds w' H x.
    apply gen_ec_run in H as (-> & _). lia.
  - apply good_lift; [apply disc_gen_okp|]. intros d ds w' H x.
    apply gen_okp_run in H as (-> & _). lia.
Qed.

Theorem history_good algs encs nm h : forall w,
  encs_ok encs -> good w (run_history algs encs nm h w).
Proof.
  induction h as [|c rest IH]; intros w Hok.
  - cbn. repeat split; [lia|constructor|intros x []].
  - cbn [run_history].
    pose proof (call_good algs encs nm c w Hok) as H1.
    destruct (run_call algs encs nm c w) as [[em1 ds1] w1].
    pose proof (IH w1 Hok) as H2.
    destruct (run_history algs encs nm rest w1) as [[em2 ds2] w2].
    destruct H1 as (A1 & A2 & A3 & A4). destruct H2 as (B1 & B2 & B3 & B4).
    unfold good. rewrite !map_app, app_length, nseq_app, A1, B1, A2.
    split; [reflexivity|]. split; [lia|]. split.
    + apply nodup_app; auto. intros x Hx Hy.
      apply A4 in Hx. apply B4 in Hy. rewrite A1 in Hx. rewrite B1 in Hy.
      apply nseq_range in Hx. apply nseq_range in Hy. lia.
    + intros x Hx. apply in_app_or in Hx as [Hx|Hx]; apply in_or_app.
      * left. rewrite <- A1. auto.
      * right. rewrite <- A2, <- B1. auto.
Qed.

(* ------------------------------------------------------------------ *)
(* 6. per-category view of the draws of one encryption *)
Lemma site_facts d :
  (d_site d = SGcmIv -> is_gcmiv d = true /\ is_p2s d = false /\ is_native d = false /\ is_cek d = false /\ is_iv d = false) /\
  (d_site d = SP2s -> is_gcmiv d = false /\ is_p2s d = true /\ is_native d = false /\ is_cek d = false /\ is_iv d = false) /\
  (d_site d = SCek -> is_gcmiv d = false /\ is_p2s d = false /\ is_native d = false /\ is_cek d = true /\ is_iv d = false) /\
  (d_site d = SIv -> is_gcmiv d = false /\ is_p2s d = false /\ is_native d = false /\ is_cek d = false /\ is_iv d = true) /\
  (forall k, Some (d_site d) = curve_site k ->
     is_gcmiv d = false /\ is_p2s d = false /\ is_native d = true /\ is_cek d = false /\ is_iv d = false).
Proof.
  unfold is_gcmiv, is_p2s, is_native, is_cek, is_iv.
  split; [|split; [|split; [|split]]]; try (intros ->; repeat split; reflexivity).
  intros k Hk; destruct k; cbn in Hk; inversion Hk as [Hs]; rewrite Hs; repeat split; reflexivity.
Qed.

Definition gcm_draws (v : rview) := opt_list (v_gcm_iv v).
Definition p2s_draws (v : rview) := opt_list (v_p2s v).

Lemma view_filters a r v :
  view_spec a r v ->
  filter is_native (all_draws v) = epk_draws v /\
  filter is_gcmiv (all_draws v) = gcm_draws v /\
  filter is_p2s (all_draws v) = p2s_draws v /\
  filter is_cek (all_draws v) = [] /\
  filter is_iv (all_draws v) = [].
Proof.
  unfold view_spec, all_draws, kw_draws, epk_draws, gcm_draws, p2s_draws.
  intros (He & Hg & Hp & _).
  destruct (v_epk v) as [[d1|]|]; destruct (v_gcm_iv v) as [d2|]; destruct (v_p2s v) as [d3|];
    cbn [opt_list app filter];
    repeat match goal with
           | H : _ /\ _ |- _ => destruct H
           end;
    repeat match goal with
           | H : Some (d_site ?d) = curve_site _ |- _ =>
               destruct (proj2 (proj2 (proj2 (proj2 (site_facts d)))) _ H) as (?&?&?&?&?); clear H
           | H : d_site ?d = SGcmIv |- _ =>
               destruct (proj1 (site_facts d) H) as (?&?&?&?&?); clear H
           | H : d_site ?d = SP2s |- _ =>
               destruct (proj1 (proj2 (site_facts d)) H) as (?&?&?&?&?); clear H
           end;
    repeat match goal with H : _ = true |- _ => rewrite H | H : _ = false |- _ => rewrite H end;
    auto.
Qed.

Lemma views_filters algs rs vs :
  Forall2 (recip_spec algs) rs vs ->
  filter is_native (flat_map all_draws vs) = flat_map epk_draws vs /\
  filter is_gcmiv (flat_map all_draws vs) = flat_map gcm_draws vs /\
  filter is_p2s (flat_map all_draws vs) = flat_map p2s_draws vs /\
  filter is_cek (flat_map all_draws vs) = [] /\
  filter is_iv (flat_map all_draws vs) = [].
Proof.
  induction 1 as [|r v rs vs (a & _ & Hv) _ IH]; [cbn; auto|].
  cbn [flat_map]. rewrite !filter_app.
  destruct (view_filters a r v Hv) as (-> & -> & -> & -> & ->).
  destruct IH as (-> & -> & -> & -> & ->). auto.
Qed.

Lemma cek_filters c :
  (forall d, c = CekDrawn d -> d_site d = SCek) ->
  filter is_native (cek_draws c) = [] /\ filter is_gcmiv (cek_draws c) = [] /\
  filter is_p2s (cek_draws c) = [] /\ filter is_cek (cek_draws c) = cek_draws c /\
  filter is_iv (cek_draws c) = [].
Proof.
  intro H. destruct c; cbn; auto.
  destruct (proj1 (proj2 (proj2 (site_facts d))) (H d eq_refl)) as (-> & -> & -> & -> & ->). auto.
Qed.

(* layout with the first recipient folded back: a permutation-free form used for filtering *)
Lemma layout_filters algs rs tok :
  Forall2 (recip_spec algs) rs (t_recips tok) ->
  t_recips tok <> [] ->
  (forall d, t_cek tok = CekDrawn d -> d_site d = SCek) ->
  d_site (t_iv tok) = SIv ->
  filter is_native (layout tok) = flat_map epk_draws (t_recips tok) /\
  filter is_gcmiv (layout tok) = flat_map gcm_draws (t_recips tok) /\
  filter is_p2s (layout tok) = flat_map p2s_draws (t_recips tok) /\
  filter is_cek (layout tok) = cek_draws (t_cek tok) /\
  filter is_iv (layout tok) = [t_iv tok].
Proof.
  intros HF Hne Hc Hiv. unfold layout.
  destruct (t_recips tok) as [|v1 vs]; [congruence|].
  inversion HF as [|r1 v1' rs' vs' (a & _ & Hv1) HF']; subst.
  destruct (view_filters a r1 v1 Hv1) as (A1 & A2 & A3 & A4 & A5).
  destruct (views_filters algs rs' vs HF') as (B1 & B2 & B3 & B4 & B5).
  destruct (cek_filters (t_cek tok) Hc) as (C1 & C2 & C3 & C4 & C5).
  destruct (proj1 (proj2 (proj2 (proj2 (site_facts (t_iv tok))))) Hiv) as (D1 & D2 & D3 & D4 & D5).
  unfold all_draws in A1, A2, A3, A4, A5. rewrite filter_app in A1, A2, A3, A4, A5.
  cbn [flat_map]. rewrite !filter_app. cbn [filter].
  rewrite C1, C2, C3, C4, C5, B1, B2, B3, B4, B5, D1, D2, D3, D4, D5.
  (* the first recipient: epk part and key wrap part are filtered separately *)
  assert (E : forall p, filter p (epk_draws v1) ++ filter p (kw_draws v1) = filter p (all_draws v1))
    by (intro p; unfold all_draws; rewrite filter_app; reflexivity).
  unfold all_draws.
  repeat split.
  - rewrite app_nil_l, app_nil_r. rewrite app_assoc, A1. reflexivity.
  - rewrite app_nil_l, app_nil_r. rewrite app_assoc, A2. reflexivity.
  - rewrite app_nil_l, app_nil_r. rewrite app_assoc, A3. reflexivity.
  - apply app_eq_nil in A4 as [-> ->]. rewrite !app_nil_r. reflexivity.
  - apply app_eq_nil in A5 as [-> ->]. reflexivity.
Qed.

Theorem encrypt_filters algs encs m w tok ds w' :
  encrypt algs encs m w = mkout (Ok tok) ds w' ->
  exists e, find_enc encs (m_enc m) = Some e /\
    (8 <= ee_cek_size e ->
     filter is_native ds = flat_map epk_draws (t_recips tok) /\
     filter is_gcmiv ds = flat_map gcm_draws (t_recips tok) /\
     filter is_p2s ds = flat_map p2s_draws (t_recips tok) /\
     filter is_cek ds = cek_draws (t_cek tok) /\
     filter is_iv ds = [t_iv tok]).
Proof.
  intro H. apply encrypt_ok in H as (e & He & H). exists e. split; [exact He|].
  intro H8. assert (Hpos : 0 < ee_cek_size e / 8) by (apply N.div_str_pos; lia).
  destruct (H Hpos) as (-> & Hiv & _ & HF & Hne & Hc).
  assert (Hne' : t_recips tok <> []).
  { intro E. rewrite E in HF. inversion HF; subst. congruence. }
  assert (Hc' : forall d, t_cek tok = CekDrawn d -> d_site d = SCek).
  { intros d E. rewrite E in Hc. cbn in Hc. tauto. }
  destruct (layout_filters algs (m_recips m) tok HF Hne' Hc' Hiv) as (A & B & C & D & E).
  repeat split; auto.
Qed.

Lemma nseq_last s n l x : nseq s n = l ++ [x] -> x = s + N.of_nat (length l).
Proof.
  intro H. assert (Hl : n = (length l + 1)%nat).
  { apply (f_equal (@length N)) in H. rewrite app_length in H. cbn in H.
    clear -H. revert s H. induction n; intros s H; cbn in *; [lia|].
    assert (length (nseq (s + 1) n) = n) by (clear; revert s; induction n; intro s; cbn; auto).
    lia. }
  subst n. rewrite nseq_app in H. cbn in H.
  apply app_inj_tail_iff in H. destruct H as [_ H]. auto.
Qed.

Theorem encrypt_iv algs encs m w tok ds w' :
  encrypt algs encs m w = mkout (Ok tok) ds w' ->
  exists e, find_enc encs (m_enc m) = Some e /\
    (8 <= ee_cek_size e ->
     d_site (t_iv tok) = SIv /\ d_size (t_iv tok) = ee_iv_size e / 8 /\
     exists pre, ds = pre ++ [t_iv tok] /\ filter is_iv pre = [] /\
       d_idx (t_iv tok) = w_ctr w + N.of_nat (length pre) /\
       w_ctr w' = d_idx (t_iv tok) + 1).
Proof.
  intro H. pose proof (disc_encrypt algs encs m w) as [D1 D2]. rewrite H in D1, D2.
  cbn [o_draws o_world] in D1, D2.
  pose proof (encrypt_filters _ _ _ _ _ _ _ H) as (e' & He' & HFl).
  apply encrypt_ok in H as (e & He & H). exists e. split; [exact He|].
  intro H8. assert (Hpos : 0 < ee_cek_size e / 8) by (apply N.div_str_pos; lia).
  rewrite He in He'. inversion He'; subst e'. clear He'.
  destruct (HFl H8) as (_ & _ & _ & _ & Hiv).
  destruct (H Hpos) as (Hl & Hs & Hn & _).
  split; [exact Hs|]. split; [exact Hn|].
  unfold layout in Hl.
  set (pre := match t_recips tok with
              | [] => []
              | v1 :: vs => epk_draws v1 ++ cek_draws (t_cek tok) ++ kw_draws v1 ++ flat_map all_draws vs
              end) in *.
  exists pre. split; [exact Hl|].
  subst ds. rewrite filter_app in Hiv. cbn [filter] in Hiv.
  assert (Ht : is_iv (t_iv tok) = true) by (unfold is_iv; rewrite Hs; reflexivity).
  rewrite Ht in Hiv. split.
  - destruct (filter is_iv pre) as [|x l]; [reflexivity|].
    apply (f_equal (@length draw)) in Hiv. rewrite app_length in Hiv. cbn in Hiv. lia.
  - rewrite map_app in D1. cbn [map] in D1. symmetry in D1. apply nseq_last in D1.
    rewrite map_length in D1. split; [exact D1|].
    rewrite D2, D1, app_length. cbn. lia.
Qed.

(* ------------------------------------------------------------------ *)
(* 7. key generation *)
Lemma gen_oct_char bits priv w :
  gen_oct bits priv w =
  if priv && (bits mod 8 =? 0)%Z && (0 <=? bits)%Z
  then let d := {| d_site := SOct; d_size := Z.to_N (bits / 8); d_idx := w_ctr w |} in
       mkout (Ok d) [d] {| w_ctr := w_ctr w + 1 |}
  else mkout (Err EValue) [] w.
Proof.
  unfold gen_oct. destruct priv; cbn; [|reflexivity].
  destruct (bits mod 8 =? 0)%Z eqn:E; cbn; [|reflexivity].
  apply Z.eqb_eq in E. pose proof (Z.div_mod bits 8 ltac:(lia)) as Hdm.
  destruct (bits / 8 <? 0)%Z eqn:E1; destruct (0 <=? bits)%Z eqn:E2; try reflexivity; lia.
Qed.

Lemma gen_rsa_char nm bits w :
  gen_rsa nm bits w =
  if (512 <=? bits)%Z && (bits mod 8 =? 0)%Z
  then let d := {| d_site := SRSA (Z.to_N bits); d_size := Z.to_N bits; d_idx := w_ctr w |} in
       mkout (if Z.to_N bits <? nm then Err EValue else Ok d) [d] {| w_ctr := w_ctr w + 1 |}
  else mkout (Err EValue) [] w.
Proof.
  unfold gen_rsa.
  destruct (bits <? 512)%Z eqn:E1; destruct (512 <=? bits)%Z eqn:E2; try lia; cbn; [reflexivity|].
  destruct (bits mod 8 =? 0)%Z; cbn; [|reflexivity].
  unfold bindM, do_draw. cbn. destruct (Z.to_N bits <? nm); cbn; reflexivity.
Qed.

Lemma gen_ec_char crv w :
  gen_ec crv w =
  match find (fun r => String.eqb (cv_name r) crv) ec_curves with
  | Some r => let d := {| d_site := SEC crv; d_size := cv_bits r; d_idx := w_ctr w |} in
              mkout (Ok d) [d] {| w_ctr := w_ctr w + 1 |}
  | None => mkout (Err EValue) [] w
  end.
Proof. unfold gen_ec. destruct (find _ ec_curves); reflexivity. Qed.

Lemma gen_okp_char crv w :
  gen_okp crv w =
  if existsb (fun r => String.eqb (fst (fst r)) crv) okp_curves
  then let d := {| d_site := SOKP crv; d_size := 0; d_idx := w_ctr w |} in
       mkout (Ok d) [d] {| w_ctr := w_ctr w + 1 |}
  else mkout (Err EValue) [] w.
Proof. unfold gen_okp. destruct (existsb _ okp_curves); reflexivity. Qed.

(* ------------------------------------------------------------------ *)
(* 8. distinct indices give distinct values for an injective generator *)
Lemma nodup_map_inj {A} (f : draw -> A) (l : list draw) :
  (forall a b, In a l -> In b l -> f a = f b -> d_idx a = d_idx b) ->
  NoDup (map d_idx l) -> NoDup (map f l).
Proof.
  induction l as [|x l IH]; intros Hinj Hnd; cbn; [constructor|].
  cbn in Hnd. inversion Hnd as [|? ? Hnotin Hnd']; subst. constructor.
  - intro Hin. apply in_map_iff in Hin as (y & Hy & Hyl).
    apply Hnotin. rewrite (Hinj x y (or_introl eq_refl) (or_intror Hyl) (eq_sym Hy)).
    apply in_map. exact Hyl.
  - apply IH; auto. intros a b Ha Hb. apply Hinj; right; assumption.
Qed.

Lemma encs_ok_of_forallb encs :
  forallb (fun e => 8 <=? ee_cek_size e) encs = true -> encs_ok encs.
Proof.
  intro H. unfold encs_ok. apply Forall_forall. intros e He.
  rewrite forallb_forall in H. specialize (H e He). apply N.leb_le in H. exact H.
Qed.

(* ------------------------------------------------------------------ *)
(* 9. reused message objects *)
Lemma encrypt_object_irrelevant algs encs ns (o1 o2 : jobject) w :
  jo_msg o1 = jo_msg o2 ->
  let r1 := encrypt_object algs encs ns o1 w in
  let r2 := encrypt_object algs encs ns o2 w in
  o_draws r1 = o_draws r2 /\ o_world r1 = o_world r2 /\
  match o_res r1, o_res r2 with
  | Ok (t1, _), Ok (t2, _) => t1 = t2
  | Err e1, Err e2 => e1 = e2
  | _, _ => False
  end.
Proof.
  intro H. unfold encrypt_object, bindM. rewrite H.
  destruct (encrypt algs encs (jo_msg o2) w) as [r ds w']. cbn.
  destruct r as [t|e]; cbn; rewrite ?app_nil_r; auto.
Qed.

Lemma encrypt_object_is_encrypt algs encs ns o w :
  let r := encrypt_object algs encs ns o w in
  let r0 := encrypt algs encs (jo_msg o) w in
  o_draws r = o_draws r0 /\ o_world r = o_world r0 /\
  match o_res r, o_res r0 with
  | Ok (t, _), Ok t0 => t = t0
  | Err e, Err e0 => e = e0
  | _, _ => False
  end.
Proof.
  unfold encrypt_object, bindM.
  destruct (encrypt algs encs (jo_msg o) w) as [r ds w']. cbn.
  destruct r as [t|e]; cbn; rewrite ?app_nil_r; auto.
Qed.

(* what the next encryption of the same object sees: algorithms, keys, sender keys and CALLER
   presets are unchanged; a generated ephemeral key does not become a preset *)
Lemma msg_after_preserves algs m t :
  Forall2 (recip_spec algs) (m_recips m) (t_recips t) ->
  m_enc (msg_after m t) = m_enc m /\
  map caller_preset (m_recips (msg_after m t)) = map caller_preset (m_recips m) /\
  map r_alg (m_recips (msg_after m t)) = map r_alg (m_recips m) /\
  map r_key (m_recips (msg_after m t)) = map r_key (m_recips m) /\
  map r_sender (m_recips (msg_after m t)) = map r_sender (m_recips m).
Proof.
  unfold msg_after. cbn [m_enc m_recips]. intro HF. split; [reflexivity|].
  induction HF as [|r v rs vs (a & _ & Hv) _ IH]; cbn; auto.
  destruct IH as (A & B & C & D). rewrite A, B, C, D. repeat split; try reflexivity.
  f_equal. unfold caller_preset at 1. cbn.
  destruct Hv as (He & _).
  destruct (v_epk v) as [[d|]|]; cbn; try reflexivity.
  destruct He as (_ & Hn & _). symmetry. exact Hn.
Qed.

(* a recipient of an agreement algorithm without caller preset gets a newly generated key *)
Lemma fresh_epk_views algs rs vs :
  Forall2 (recip_spec algs) rs vs ->
  Forall2 (fun r v => caller_preset r = None ->
             match v_epk v with
             | None => forall a, find_alg algs (r_alg r) = Some a -> is_agreement a = false
             | Some EpkPreset => False
             | Some (EpkDrawn d) => Some (d_site d) = curve_site (r_key r)
             end) rs vs.
Proof.
  induction 1 as [|r v rs vs (a & Ha & Hv) _ IH]; constructor; auto.
  intro Hn. destruct Hv as (He & _).
  destruct (v_epk v) as [[d|]|].
  - tauto.
  - destruct He as (_ & He). congruence.
  - intros a' Ha'. rewrite Ha in Ha'. inversion Ha'; subst. exact He.
Qed.

Lemma in_flat_epk vs v d : In v vs -> v_epk v = Some (EpkDrawn d) -> In d (flat_map epk_draws vs).
Proof.
  intros Hin He. apply in_flat_map. exists v. split; [exact Hin|].
  unfold epk_draws. rewrite He. left; reflexivity.
Qed.

Lemma fresh_epk_strengthen algs (R : draw -> Prop) rs vs :
  Forall2 (fun r v => caller_preset r = None ->
             match v_epk v with
             | None => forall a, find_alg algs (r_alg r) = Some a -> is_agreement a = false
             | Some EpkPreset => False
             | Some (EpkDrawn d) => Some (d_site d) = curve_site (r_key r)
             end) rs vs ->
  (forall v, In v vs -> forall d, v_epk v = Some (EpkDrawn d) -> R d) ->
  Forall2 (fun r v => caller_preset r = None ->
             match v_epk v with
             | None => forall a, find_alg algs (r_alg r) = Some a -> is_agreement a = false
             | Some EpkPreset => False
             | Some (EpkDrawn d) => Some (d_site d) = curve_site (r_key r) /\ R d
             end) rs vs.
Proof.
  induction 1 as [|r v rs vs Hrv _ IH]; intro Hin; constructor.
  - intro Hn. specialize (Hrv Hn). destruct (v_epk v) as [[d|]|] eqn:E; auto.
    split; [exact Hrv|]. apply (Hin v); [left; reflexivity|exact E].
  - apply IH. intros v' Hv'. apply Hin. right; exact Hv'.
Qed.

(* second (n-th) encryption of the same object *)
Theorem epk_fresh_on_reuse algs encs m w t1 ds1 w1 t2 ds2 w2 :
  encrypt algs encs m w = mkout (Ok t1) ds1 w1 ->
  encrypt algs encs (msg_after m t1) w1 = mkout (Ok t2) ds2 w2 ->
  exists e, find_enc encs (m_enc m) = Some e /\
    (8 <= ee_cek_size e ->
     map caller_preset (m_recips (msg_after m t1)) = map caller_preset (m_recips m) /\
     map r_alg (m_recips (msg_after m t1)) = map r_alg (m_recips m) /\
     map r_key (m_recips (msg_after m t1)) = map r_key (m_recips m) /\
     Forall2 (fun r v => caller_preset r = None ->
                match v_epk v with
                | None => forall a, find_alg algs (r_alg r) = Some a -> is_agreement a = false
                | Some EpkPreset => False
                | Some (EpkDrawn d) => Some (d_site d) = curve_site (r_key r)
                                       /\ (In d ds2 /\ w_ctr w1 <= d_idx d < w_ctr w2)
                end) (m_recips (msg_after m t1)) (t_recips t2)).
Proof.
  intros H1 H2. pose proof H2 as H2'.
  pose proof (encrypt_filters _ _ _ _ _ _ _ H2) as (e2' & He2' & HFl).
  apply encrypt_ok in H1 as (e & He & H1).
  apply encrypt_ok in H2 as (e2 & He2 & H2).
  exists e. split; [exact He|]. intro H8.
  assert (Hpos : 0 < ee_cek_size e / 8) by (apply N.div_str_pos; lia).
  destruct (H1 Hpos) as (_ & _ & _ & HF1 & _).
  destruct (msg_after_preserves algs m t1 HF1) as (Henc & P1 & P2 & P3 & _).
  rewrite Henc, He in He2, He2'. inversion He2; subst e2. inversion He2'; subst e2'.
  destruct (H2 Hpos) as (_ & _ & _ & HF2 & _).
  destruct (HFl H8) as (Hnat & _).
  repeat split; auto.
  apply fresh_epk_strengthen; [apply fresh_epk_views; exact HF2|].
  intros v Hv d Hd'.
  assert (Hi : In d ds2).
  { pose proof (in_flat_epk _ _ _ Hv Hd') as Hi. rewrite <- Hnat in Hi. apply filter_In in Hi. tauto. }
  split; [exact Hi|].
  pose proof (disc_range (encrypt algs encs (msg_after m t1)) w1 d (disc_encrypt _ _ _)) as R.
  rewrite H2' in R. cbn in R. apply R. exact Hi.
Qed.
