(* C02Proofs.v — lemmas behind props/C02.v: what a successful JWE decryption
   of the model (model/JweMsg.v) implies. *)
From Coq Require Import Lia ZifyBool.
From Model Require Import JweBase JweCrypto JweMsg.
From Gen Require Import Tables.
Open Scope N_scope.

Lemma bind_ok {A B} (m : res A) (f : A -> res B) b :
  bind m f = Ok b -> exists a, m = Ok a /\ f a = Ok b.
Proof. destruct m; simpl; intro H; [eauto | discriminate]. Qed.

Ltac inv_bind H :=
  let x := fresh "x" in let E := fresh "E" in
  apply bind_ok in H; destruct H as [x [E H]].

(* ---------- sets of CEKs ---------- *)
Lemma existsb_beqb c l : existsb (beqb c) l = true <-> In c l.
Proof.
  rewrite existsb_exists. split.
  - intros [x [I E]]. apply beqb_eq in E. subst. exact I.
  - intro I. exists c. split; [exact I | apply beqb_eq; reflexivity].
Qed.

Lemma set_add_in c x l : In c (set_add x l) <-> c = x \/ In c l.
Proof.
  unfold set_add. destruct (existsb (beqb x) l) eqn:E.
  - apply existsb_beqb in E. split; [tauto | intros [-> | H]; assumption].
  - rewrite in_app_iff. simpl. split; [intros [H | [H | []]]; auto | intros [H | H]; auto].
Qed.

Section Sound.
Variable O : oracles.
Variable g : registry.

(* recipient r yields CEK c *)
Definition yields (e : jwe_enc_row) (o : jobj) (r : recip) (c : bytes) : Prop :=
  exists hs algv a,
    headers (j_ser o) (j_prot o) (j_unprot o) (r_header r) = Ok hs /\
    o_check_header O (PDict hs) true = Ok tt /\
    hitem hs "alg" = Ok algv /\ get_alg g algv = Ok a /\
    decrypt_recipient O a e hs r (j_tag o) = Ok c.

Lemma recip_loop_sound e o : forall rs acc ceks,
  recip_loop O g e o rs acc = Ok ceks ->
  (forall c, In c ceks -> In c acc \/ exists r, In r rs /\ yields e o r c) /\
  (forall c, In c acc -> In c ceks) /\
  (g_verify_all g = true -> forall r, In r rs -> exists c, In c ceks /\ yields e o r c).
Proof.
  induction rs as [|r rs IH]; intros acc ceks H; simpl in H.
  - inversion H; subst. repeat split; auto. intros _ r [].
  - inv_bind H. rename x into hs.
    inv_bind H. destruct x.
    inv_bind H. rename x into algv.
    inv_bind H. rename x into a.
    destruct (decrypt_recipient O a e hs r (j_tag o)) as [cek | ex] eqn:D.
    + apply IH in H. destruct H as [H1 [H2 H3]].
      assert (Y : yields e o r cek) by (exists hs, algv, a; auto).
      repeat split.
      * intros c I. destruct (H1 c I) as [I2 | [r' [I2 Y2]]].
        -- apply set_add_in in I2. destruct I2 as [-> | I2]; [right; exists r; simpl; auto | auto].
        -- right. exists r'. simpl. auto.
      * intros c I. apply H2. apply set_add_in. auto.
      * intros V r' [<- | I].
        -- exists cek. split; [apply H2; apply set_add_in; auto | exact Y].
        -- apply H3; assumption.
    + destruct (catchable ex); [| discriminate].
      destruct (g_verify_all g) eqn:V; [discriminate |].
      apply IH in H. destruct H as [H1 [H2 H3]].
      repeat split.
      * intros c I. destruct (H1 c I) as [I2 | [r' [I2 Y2]]]; [auto |].
        right. exists r'. simpl. auto.
      * exact H2.
      * intro; discriminate.
Qed.

(* what the plaintext returned by _perform_decrypt is *)
Definition authentic (o : jobj) (m : bytes) : Prop :=
  exists encv e cek aad msg,
    hitem (j_prot o) "enc" = Ok encv /\ get_enc g encv = Ok e /\
    lenN (j_iv o) * 8 = ee_iv_size e /\
    recip_loop O g e o (j_recips o) [] = Ok [cek] /\
    (exists r, In r (j_recips o) /\ yields e o r cek) /\
    (g_verify_all g = true -> forall r, In r (j_recips o) -> yields e o r cek) /\
    lenN cek * 8 = ee_cek_size e /\
    dec_aad O o = Ok aad /\
    enc_decrypt O e (j_ct o) (j_tag o) cek (j_iv o) aad = Ok msg /\
    unzip O g (j_prot o) msg = Ok m.

Lemma perform_decrypt_inner_sound o m :
  perform_decrypt_inner O g o = Ok m -> authentic o m.
Proof.
  unfold perform_decrypt_inner. intro H.
  inv_bind H. clear E x.
  inv_bind H. rename x into encv.
  inv_bind H. rename x into e.
  inv_bind H. destruct x.
  inv_bind H. rename x into ceks.
  destruct ceks as [|cek [|c2 rest]]; try discriminate.
  destruct (lenN cek * 8 =? ee_cek_size e) eqn:L; simpl in H; [| discriminate].
  inv_bind H. rename x into aad.
  inv_bind H. rename x into msg.
  pose proof (recip_loop_sound e o _ _ _ E2) as [S1 [S2 S3]].
  exists encv, e, cek, aad, msg.
  repeat split; auto.
  - unfold check_iv in E1. destruct (lenN (j_iv o) * 8 =? ee_iv_size e) eqn:I; [| discriminate].
    apply N.eqb_eq in I. exact I.
  - destruct (S1 cek (or_introl eq_refl)) as [[] | [r [I Y]]]. exists r. auto.
  - intros V r I. destruct (S3 V r I) as [c [[<- | []] Y]]. exact Y.
  - apply N.eqb_eq in L. exact L.
Qed.

Lemma perform_decrypt_sound o m : perform_decrypt O g o = Ok m -> authentic o m.
Proof.
  unfold perform_decrypt. intro H. apply perform_decrypt_inner_sound.
  destruct (perform_decrypt_inner O g o) as [x | ex]; [exact H |].
  destruct ex; try discriminate. destruct c; discriminate.
Qed.

Lemma decrypt_compact_sound value k sender m o :
  decrypt_compact O g value k sender = Ok (m, o) ->
  extract_compact O value k sender = Ok o /\ authentic o m.
Proof.
  unfold decrypt_compact. intro H. inv_bind H. inv_bind H. inversion H; subst.
  split; [exact E | apply perform_decrypt_sound; exact E0].
Qed.

Lemma decrypt_json_sound data keys dflt sender m o :
  decrypt_json O g data keys dflt sender = Ok (m, o) ->
  extract_json O data keys dflt sender = Ok o /\ authentic o m.
Proof.
  unfold decrypt_json. intro H. inv_bind H. inv_bind H. inversion H; subst.
  split; [exact E | apply perform_decrypt_sound; exact E0].
Qed.

(* ---------- the AAD is the received protected segment ---------- *)
Lemma extract_compact_b64prot value k sender o :
  extract_compact O value k sender = Ok o ->
  exists hseg ekseg ivseg ctseg tagseg,
    split_dot value = [hseg; ekseg; ivseg; ctseg; tagseg] /\
    j_ser o = Compact /\ j_b64prot o = Some hseg /\
    b64d ivseg = Ok (j_iv o) /\ b64d ctseg = Ok (j_ct o) /\ b64d tagseg = Ok (j_tag o).
Proof.
  unfold extract_compact. intro H.
  destruct (split_dot value) as [|h [|ek [|iv [|ct [|tg [|x rest]]]]]]; try discriminate.
  inv_bind H. inv_bind H. inv_bind H. inv_bind H. inv_bind H.
  inversion H; subst; simpl.
  exists h, ek, iv, ct, tg. repeat split; auto.
Qed.

Lemma compact_aad_is_received value k sender o :
  extract_compact O value k sender = Ok o ->
  exists hseg rest, split_dot value = hseg :: rest /\ dec_aad O o = Ok hseg.
Proof.
  intro H. apply extract_compact_b64prot in H.
  destruct H as [h [ek [iv [ct [tg [S [K [B _]]]]]]]].
  exists h, [ek; iv; ct; tg]. split; [exact S |].
  unfold dec_aad. rewrite B, K. reflexivity.
Qed.

Lemma json_aad_is_received data keys dflt sender o :
  extract_json O data keys dflt sender = Ok o ->
  exists b64p,
    seg_bytes data "protected" = Ok b64p /\
    j_ser o <> Compact /\
    dec_aad O o = Ok (aad_of (j_ser o) b64p (j_aad o)) /\
    (match j_aad o with
     | Some (x :: l) => exists ab, seg_bytes data "aad" = Ok ab /\ b64d ab = Ok (x :: l) /\
                                   dec_aad O o = Ok (b64p ++ [46] ++ b64e (x :: l))
     | _ => dec_aad O o = Ok b64p
     end).
Proof.
  unfold extract_json. intro H.
  inv_bind H. rename x into general.
  inv_bind H. inv_bind H. inv_bind H. inv_bind H. inv_bind H. rename x3 into b64p.
  inv_bind H. inv_bind H. inv_bind H. inv_bind H. inv_bind H. inv_bind H.
  inv_bind H. rename x9 into has_aad.
  inv_bind H. rename x9 into aad.
  match goal with EE : (if has_aad then _ else _) = Ok aad |- _ => rename EE into EA end.
  inv_bind H.
  inversion H; subst; clear H. simpl.
  exists b64p. split; [eassumption |].
  split; [destruct general; discriminate |].
  unfold dec_aad; simpl.
  split; [reflexivity |].
  destruct aad as [[|a l] |].
  - destruct general; reflexivity.
  - destruct has_aad.
    + inv_bind EA. inv_bind EA. inversion EA; subst.
      eexists. split; [eassumption |]. split; [eassumption |]. destruct general; reflexivity.
    + discriminate.
  - destruct general; reflexivity.
Qed.

(* ---------- CBC-HS: the tag is compared, at full length, before the cipher ---------- *)
Lemma cbchs_reject_before_cbc e ct tag cek iv aad ctag :
  cbchs_hmac O e ct aad iv (cbchs_hkey e cek) = Ok ctag ->
  ctag <> tag ->
  cbchs_decrypt O e ct tag cek iv aad = Err (EJose DecodeError).
Proof.
  intros H N. unfold cbchs_decrypt. rewrite H. simpl.
  destruct (beqb ctag tag) eqn:B; [apply beqb_eq in B; contradiction | reflexivity].
Qed.

Lemma cbchs_accept_tag e ct tag cek iv aad m :
  cbchs_decrypt O e ct tag cek iv aad = Ok m ->
  cbchs_hmac O e ct aad iv (cbchs_hkey e cek) = Ok tag /\
  exists data, o_cbc_dec O (cbchs_ekey e cek) iv ct = Ok data /\ pkcs7_unpad data = Ok m.
Proof.
  unfold cbchs_decrypt. intro H. inv_bind H.
  destruct (beqb x tag) eqn:B; simpl in H; [| discriminate].
  apply beqb_eq in B. subst. split; [exact E |].
  inv_bind H. eauto.
Qed.

Lemma cbchs_hmac_len e ct aad iv hkey t :
  cbchs_hmac O e ct aad iv hkey = Ok t -> (length t <= N.to_nat (ee_key_len e))%nat.
Proof.
  unfold cbchs_hmac. intro H. inv_bind H. inv_bind H. inversion H; subst.
  apply firstn_le_length.
Qed.

Lemma cbchs_accept_tag_len e ct tag cek iv aad m :
  cbchs_decrypt O e ct tag cek iv aad = Ok m -> (length tag <= N.to_nat (ee_key_len e))%nat.
Proof. intro H. apply cbchs_accept_tag in H. destruct H as [H _]. eapply cbchs_hmac_len; eauto. Qed.

End Sound.

(* the verdict on a wrong tag does not depend on the block cipher at all:
   replace the CBC oracle by anything *)
Definition with_cbc_dec (O : oracles) (f : bytes -> bytes -> bytes -> res bytes) : oracles :=
  {| o_mac := o_mac O; o_cbc_enc := o_cbc_enc O; o_cbc_dec := f; o_gcm_enc := o_gcm_enc O;
     o_gcm_dec := o_gcm_dec O; o_cc_enc := o_cc_enc O; o_cc_dec := o_cc_dec O;
     o_kw_wrap := o_kw_wrap O; o_kw_unwrap := o_kw_unwrap O; o_rsa_enc := o_rsa_enc O;
     o_rsa_dec := o_rsa_dec O; o_rsa_bits := o_rsa_bits O; o_pbkdf2 := o_pbkdf2 O; o_ckdf := o_ckdf O; o_ecdh := o_ecdh O;
     o_import := o_import O; o_loads := o_loads O; o_dumps := o_dumps O;
     o_deflate := o_deflate O; o_inflate := o_inflate O; o_check_header := o_check_header O |}.

Lemma cbchs_wrong_tag_any_cipher O f e ct tag cek iv aad ctag :
  cbchs_hmac O e ct aad iv (cbchs_hkey e cek) = Ok ctag -> ctag <> tag ->
  cbchs_decrypt (with_cbc_dec O f) e ct tag cek iv aad = Err (EJose DecodeError).
Proof.
  intros H N. apply cbchs_reject_before_cbc with (ctag := ctag); [exact H | exact N].
Qed.

(* a tag of any other length than the one the MAC yields is rejected *)
Lemma cbchs_other_length_rejected O e ct tag cek iv aad ctag :
  cbchs_hmac O e ct aad iv (cbchs_hkey e cek) = Ok ctag ->
  length tag <> length ctag ->
  cbchs_decrypt O e ct tag cek iv aad = Err (EJose DecodeError).
Proof.
  intros H N. eapply cbchs_reject_before_cbc; [exact H |]. intro E. subst. contradiction.
Qed.

(* ---------- direct modes: a non-empty encrypted key is refused, no primitive involved ---------- *)
Lemma direct_ek_nonempty O a e hs r tag x l :
  ea_direct a = true -> r_ek r = Some (x :: l) ->
  decrypt_recipient O a e hs r tag = Err (EJose InvalidEncryptedKeyError).
Proof. intros D K. unfold decrypt_recipient. rewrite D, K. reflexivity. Qed.

(* ---------- IV size ---------- *)
Lemma iv_size_rejected O g o encv e :
  hitem (j_prot o) "enc" = Ok encv -> get_enc g encv = Ok e ->
  lenN (j_iv o) * 8 <> ee_iv_size e ->
  perform_decrypt O g o = Err EValue.
Proof.
  intros H1 H2 N. unfold perform_decrypt, perform_decrypt_inner.
  assert (M : dmem (j_prot o) (s_ "enc") = true).
  { unfold hitem in H1. unfold dmem, s_. destruct (dget (j_prot o) (asc "enc")); [reflexivity | discriminate]. }
  rewrite M. simpl. rewrite H1. simpl. rewrite H2. simpl.
  unfold check_iv. destruct (lenN (j_iv o) * 8 =? ee_iv_size e) eqn:E.
  - apply N.eqb_eq in E. contradiction.
  - reflexivity.
Qed.

(* ---------- epk: import first, same curve, then ECDH ---------- *)
Lemma exchange_gate O self other z :
  exchange O self other = Ok z ->
  k_priv self = true /\ k_crv self = k_crv other /\ o_ecdh O (k_id self) (k_id other) = Ok z.
Proof.
  unfold exchange. intro H.
  destruct (str_eqb (k_kty self) (s_ "OKP")).
  - destruct (k_priv self) eqn:P; simpl in H; [| discriminate].
    destruct (str_eqb (k_crv self) (k_crv other)) eqn:C; simpl in H; [| discriminate].
    apply str_eqb_eq in C.
    match type of H with (if ?b then _ else _) = _ => destruct b; [| discriminate] end.
    auto.
  - destruct (str_eqb (k_kty other) (s_ "EC")); simpl in H; [| discriminate].
    destruct (k_priv self) eqn:P; simpl in H; [| discriminate].
    destruct (str_eqb (k_crv self) (k_crv other)) eqn:C; simpl in H; [| discriminate].
    apply str_eqb_eq in C. auto.
Qed.

Lemma dec_auk_epk O a e hs r tag k :
  dec_auk O a e hs r tag = Ok k ->
  exists epk ze,
    dmem hs (asc "epk") = true /\
    o_import O (k_kty (r_key r)) (hget hs "epk") = Ok epk /\
    k_priv (r_key r) = true /\ k_crv (r_key r) = k_crv epk /\
    o_ecdh O (k_id (r_key r)) (k_id epk) = Ok ze /\
    (fam_is (ea_family a) "ECDH1PU" = true ->
       exists sk zs, r_sender r = Some sk /\ k_crv (r_key r) = k_crv sk /\
                     o_ecdh O (k_id (r_key r)) (k_id sk) = Ok zs /\
                     derive_key_for_concat_kdf O (ze ++ zs) hs (ee_cek_size e) (ea_key_size a) tag = Ok k).
Proof.
  unfold dec_auk. destruct (fam_is (ea_family a) "ECDH1PU") eqn:F; intro H.
  - unfold ecdh1pu_dec_auk in H.
    inv_bind H. inv_bind H. inv_bind H. rename x1 into sk. inv_bind H. inv_bind H. rename x2 into epk.
    inv_bind H. rename x2 into zs. inv_bind H. rename x2 into ze.
    apply exchange_gate in E4. apply exchange_gate in E5.
    destruct E4 as [P1 [C1 Z1]]. destruct E5 as [P2 [C2 Z2]].
    unfold assert_in in E0. destruct (dmem hs (asc "epk")) eqn:M; [| discriminate].
    exists epk, ze. repeat split; auto.
    intros _. exists sk, zs. repeat split; auto.
    destruct (r_sender r); [inversion E1; reflexivity | discriminate].
  - unfold ecdhes_dec_auk in H.
    inv_bind H. inv_bind H. inv_bind H. rename x1 into epk. inv_bind H. rename x1 into z.
    apply exchange_gate in E2. destruct E2 as [P [C Z]].
    unfold assert_in in E. destruct (dmem hs (asc "epk")) eqn:M; [| discriminate].
    exists epk, z. repeat split; auto. intro; discriminate.
Qed.

(* a failing import or a curve mismatch never reaches the ECDH primitive:
   the result is the same whatever the ECDH oracle is *)
Lemma dec_auk_import_fails O a e hs r tag ex :
  fam_is (ea_family a) "ECDH1PU" = false ->
  o_import O (k_kty (r_key r)) (hget hs "epk") = Err ex ->
  exists ex', dec_auk O a e hs r tag = Err ex'.
Proof.
  intros F I. unfold dec_auk. rewrite F. unfold ecdhes_dec_auk.
  destruct (assert_in hs "epk"); simpl; [| eauto].
  destruct (check_key_type a (r_key r)); simpl; [| eauto].
  rewrite I. simpl. eauto.
Qed.

Lemma exchange_curve_mismatch O self other :
  k_crv self <> k_crv other -> exchange O self other = Err (EJose InvalidExchangeKeyError).
Proof.
  intro N. unfold exchange.
  assert (C : str_eqb (k_crv self) (k_crv other) = false) by (apply str_eqb_neq; exact N).
  rewrite C. destruct (str_eqb (k_kty self) (s_ "OKP")); destruct (k_priv self);
    destruct (str_eqb (k_kty other) (s_ "EC")); reflexivity.
Qed.

(* ---------- tamper family, under explicit ideal-primitive premises ---------- *)
Section Tamper.
Variable O : oracles.
Variable g : registry.
(* [Produced e cek iv aad ct tag]: the honest encryptor produced this tuple under cek *)
Variable Produced : jwe_enc_row -> bytes -> bytes -> bytes -> bytes -> bytes -> Prop.
Hypothesis ideal_aead : forall e cek iv aad ct tag m,
  enc_decrypt O e ct tag cek iv aad = Ok m -> Produced e cek iv aad ct tag.

Lemma authentic_produced o m :
  authentic O g o m ->
  exists e cek aad, dec_aad O o = Ok aad /\
    (exists r, In r (j_recips o) /\ yields O g e o r cek) /\
    Produced e cek (j_iv o) aad (j_ct o) (j_tag o).
Proof.
  intros [encv [e [cek [aad [msg [H1 [H2 [H3 [H4 [H5 [H6 [H7 [H8 [H9 H10]]]]]]]]]]]]]].
  exists e, cek, aad. split; [exact H8 |]. split; [exact H5 |].
  eapply ideal_aead; exact H9.
Qed.

Lemma tamper_compact value k sender m o :
  decrypt_compact O g value k sender = Ok (m, o) ->
  exists hseg rest e cek,
    split_dot value = hseg :: rest /\
    (exists r, In r (j_recips o) /\ yields O g e o r cek) /\
    Produced e cek (j_iv o) hseg (j_ct o) (j_tag o).
Proof.
  intro H. apply decrypt_compact_sound in H. destruct H as [X A].
  apply compact_aad_is_received in X. destruct X as [hseg [rest [S D]]].
  apply authentic_produced in A. destruct A as [e [cek [aad [D2 [Y P]]]]].
  rewrite D in D2. inversion D2; subst.
  exists aad, rest, e, cek. auto.
Qed.

Lemma tamper_json data keys dflt sender m o :
  decrypt_json O g data keys dflt sender = Ok (m, o) ->
  exists b64p e cek,
    seg_bytes data "protected" = Ok b64p /\
    (exists r, In r (j_recips o) /\ yields O g e o r cek) /\
    Produced e cek (j_iv o) (aad_of (j_ser o) b64p (j_aad o)) (j_ct o) (j_tag o).
Proof.
  intro H. apply decrypt_json_sound in H. destruct H as [X A].
  apply json_aad_is_received in X. destruct X as [b64p [S [NC [D _]]]].
  apply authentic_produced in A. destruct A as [e [cek [aad [D2 [Y P]]]]].
  rewrite D in D2. inversion D2; subst.
  exists b64p, e, cek. auto.
Qed.

(* the same-members-different-octets clause: if the honest tuple set binds the
   AAD, two compact tokens that differ only in the protected segment octets
   and lead to the same CEK cannot both be accepted *)
Hypothesis produced_binds_aad : forall e cek iv a a' ct tag,
  Produced e cek iv a ct tag -> Produced e cek iv a' ct tag -> a = a'.

Lemma respelled_header_rejected e cek iv ct tag a a' m :
  Produced e cek iv a ct tag -> a' <> a ->
  enc_decrypt O e ct tag cek iv a' <> Ok m.
Proof.
  intros P N H. apply ideal_aead in H. apply N. eapply produced_binds_aad; eauto.
Qed.

(* ideal key wrap: only honestly wrapped keys unwrap *)
Variable Wrapped : bytes -> bytes -> bytes -> Prop.
Hypothesis ideal_wrap : forall kek ek c, o_kw_unwrap O kek ek = Ok (Some c) -> Wrapped kek ek c.

Lemma kw_unwrap_wrapped ks ek kek c :
  kw_unwrap_cek O ks ek kek = Ok c -> lenN kek * 8 = ks /\ Wrapped kek ek c.
Proof.
  unfold kw_unwrap_cek. intro H. inv_bind H.
  unfold check_op_key in E. destruct (lenN kek * 8 =? ks) eqn:L; [| discriminate].
  apply N.eqb_eq in L. split; [exact L |].
  destruct (o_kw_unwrap O kek ek) as [[c'|]|] eqn:U; try discriminate.
  inversion H; subst. apply ideal_wrap. exact U.
Qed.

Lemma tamper_ek_aeskw a hs r c :
  fam_is (ea_family a) "AESKW" = true ->
  decrypt_cek O a hs r = Ok c ->
  exists ek, r_ek r = Some ek /\ Wrapped (k_id (r_key r)) ek c.
Proof.
  intros F H. unfold decrypt_cek in H.
  destruct (fam_is (ea_family a) "RSA") eqn:FR.
  { exfalso. unfold fam_is in *. apply str_eqb_eq in F. apply str_eqb_eq in FR.
    rewrite F in FR. vm_compute in FR. discriminate. }
  rewrite F in H. inv_bind H. inv_bind H.
  apply kw_unwrap_wrapped in H. destruct H as [_ W].
  unfold need_ek in E0. destruct (r_ek r) as [ek|]; [| discriminate]. inversion E0; subst.
  exists x0. auto.
Qed.

End Tamper.

(* ---------- "zip" is taken from the PROTECTED header only ---------- *)
(* without "zip" in the protected header the returned plaintext IS the AEAD output: whatever the shared unprotected
   header or the per-recipient headers contain ("zip" included) cannot make the result an inflated / other value *)
Lemma zip_only_protected O g o m :
  perform_decrypt O g o = Ok m -> dmem (j_prot o) (s_ "zip") = false ->
  exists e cek aad, dec_aad O o = Ok aad /\ enc_decrypt O e (j_ct o) (j_tag o) cek (j_iv o) aad = Ok m.
Proof.
  intros H Z. apply perform_decrypt_sound in H.
  destruct H as [encv [e [cek [aad [msg [_ [_ [_ [_ [_ [_ [_ [A [D U]]]]]]]]]]]]]].
  unfold unzip in U. rewrite Z in U. inversion U; subst. exists e, cek, aad. auto.
Qed.

(* the decompression step reads the protected header alone *)
Lemma unzip_ignores_other_headers O g o1 o2 msg :
  j_prot o1 = j_prot o2 -> unzip O g (j_prot o1) msg = unzip O g (j_prot o2) msg.
Proof. intros ->. reflexivity. Qed.

(* with "zip" in the protected header: inflate of the AEAD output, again independent of the other headers *)
Lemma zip_protected O g o m :
  perform_decrypt O g o = Ok m -> dmem (j_prot o) (s_ "zip") = true ->
  exists e cek aad msg, enc_decrypt O e (j_ct o) (j_tag o) cek (j_iv o) aad = Ok msg /\ o_inflate O msg = Ok m.
Proof.
  intros H Z. apply perform_decrypt_sound in H.
  destruct H as [encv [e [cek [aad [msg [_ [_ [_ [_ [_ [_ [_ [A [D U]]]]]]]]]]]]]].
  unfold unzip in U. rewrite Z in U. inv_bind U. exists e, cek, aad, msg. auto.
Qed.
