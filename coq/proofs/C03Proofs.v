(* C03Proofs.v — JWS sign-then-verify round trips of the Impl model (model/Jws.v)
   under the correctness contract of the primitives (SigCorrect). *)
From Coq Require Import Lia ZifyBool.
From Model Require Import Jws.
From Gen Require Import Tables.
From Proofs Require Import B64Proofs IntCodecProofs JwsProofs.
Open Scope N_scope.

Lemma beqb_refl a : beqb a a = true.
Proof. apply beqb_eq. reflexivity. Qed.

Lemma bytes_ok_app a b : bytes_ok (a ++ b) = bytes_ok a && bytes_ok b.
Proof. unfold bytes_ok. apply forallb_app. Qed.

Lemma op_private_verify : op_private "verify" = false.
Proof. vm_compute. reflexivity. Qed.

(* the verification key that corresponds to a signing key: same material and
   type, no key_ops restriction (a public JWK export) *)
Definition corresponds (k k' : key) : Prop :=
  k_id k' = k_id k /\ k_kty k' = k_kty k /\ k_crv k' = k_crv k /\ k_bits k' = k_bits k /\
  k_use k' = k_use k /\ k_ops k' = None.

Section C03.
  Variable json_loads : bytes -> res pv.
  Variable json_dumps : pv -> bytes.
  Variable mac : string -> N -> bytes -> res bytes.
  Variable pk_sign : jws_alg_row -> N -> bytes -> res bytes.
  Variable pk_verify : jws_alg_row -> N -> bytes -> bytes -> res bool.
  Variable ec_sign : jws_alg_row -> N -> bytes -> res (Z * Z).
  Variable ec_verify : jws_alg_row -> N -> bytes -> Z -> Z -> res bool.
  Variable choose : list key -> option key.

  (* SigCorrect: verify accepts sign's output under the matching key; outputs are octets;
     ECDSA returns 0 <= r, s < 256^L *)
  Hypothesis mac_octets : forall h kid msg m, mac h kid msg = Ok m -> bytes_ok m = true.
  Hypothesis pk_correct : forall r kid msg sig,
      pk_sign r kid msg = Ok sig -> bytes_ok sig = true /\ pk_verify r kid msg sig = Ok true.
  Hypothesis ec_correct : forall r k msg rr ss,
      ec_sign r (k_id k) msg = Ok (rr, ss) ->
      (0 <= rr)%Z /\ (0 <= ss)%Z /\
      Z.to_N rr < 256 ^ N.of_nat (ec_len k) /\ Z.to_N ss < 256 ^ N.of_nat (ec_len k) /\
      ec_verify r (k_id k) msg rr ss = Ok true.
  (* json.loads(json.dumps(h)) == h, and the dump is an octet string *)
  Hypothesis json_rt : forall h, json_loads (json_dumps (PDict h)) = Ok (PDict h) /\
                                 bytes_ok (json_dumps (PDict h)) = true.

  Notation asign := (alg_sign mac pk_sign ec_sign).
  Notation averify := (alg_verify mac pk_verify ec_verify).

  Lemma check_key_op_verify k' : k_ops k' = None -> check_key_op k' "verify" = Ok tt.
  Proof. intro H. unfold check_key_op. rewrite H, op_private_verify. reflexivity. Qed.

  Lemma mistyped_corr f k k' : k_kty k' = k_kty k -> mistyped f k' = mistyped f k.
  Proof. intro H. unfold mistyped. rewrite H. reflexivity. Qed.

  Lemma encode_int_inv z bits a :
    let L := N.to_nat ((bits + 7) / 8) in
    (0 < L)%nat -> (0 <= z)%Z -> Z.to_N z < 256 ^ N.of_nat L ->
    encode_int z bits = Ok a -> a = I2OSP (Z.to_N z) L.
  Proof.
    intros L HL Hz Hn E. rewrite (encode_int_is_I2OSP_pos z bits HL Hz Hn) in E.
    inversion E. reflexivity.
  Qed.

  (* the algorithm wrappers: what sign produces, verify accepts (every family but "none") *)
  Theorem alg_rt r k k' msg sig :
    corresponds k k' -> fam_of r <> FNone -> (0 < ec_len k)%nat ->
    asign r k msg = Ok sig -> bytes_ok sig = true /\ averify r k' msg sig = Ok true.
  Proof.
    intros (Hid & Hty & Hcrv & Hbits & _ & Hops) NN HL.
    unfold alg_sign, alg_verify.
    destruct (fam_of r) eqn:F; try congruence; try discriminate.
    - (* HMAC *)
      intro H. bstep H as u CK. rewrite (check_key_op_verify k' Hops). cbn [bind].
      rewrite (mistyped_corr FHmac k k' Hty). destruct (mistyped FHmac k); [discriminate|].
      rewrite Hid, H. cbn [bind]. rewrite beqb_refl. split; [eapply mac_octets; eauto|reflexivity].
    - (* RSA *)
      intro H. bstep H as u CK. rewrite (check_key_op_verify k' Hops). cbn [bind].
      rewrite (mistyped_corr FRsa k k' Hty). destruct (mistyped FRsa k); [discriminate|].
      rewrite Hid. apply pk_correct in H. exact H.
    - (* PSS *)
      intro H. bstep H as u CK. rewrite (check_key_op_verify k' Hops). cbn [bind].
      rewrite (mistyped_corr FRsa k k' Hty). destruct (mistyped FRsa k); [discriminate|].
      rewrite Hid. apply pk_correct in H. exact H.
    - (* ECDSA *)
      rewrite (mistyped_corr FEc k k' Hty). destruct (mistyped FEc k); [discriminate|].
      rewrite Hcrv. destruct (negb (String.eqb (k_crv k) (ja_curve r))); [discriminate|].
      intro H. bstep H as u CK. bstep H as rs ES. destruct rs as [rr ss]. cbn [fst snd] in H.
      bstep H as a EA. bstep H as b EB. inversion H; subst sig. clear H.
      destruct (ec_correct _ _ _ _ _ ES) as (Hr & Hs & Hrn & Hsn & EV).
      assert (LL : ec_len k' = ec_len k) by (unfold ec_len; rewrite Hbits; reflexivity).
      rewrite LL. unfold ec_len in *.
      pose proof (encode_int_inv rr (k_bits k) a HL Hr Hrn EA) as ->.
      pose proof (encode_int_inv ss (k_bits k) b HL Hs Hsn EB) as ->.
      set (L := N.to_nat ((k_bits k + 7) / 8)) in *.
      split.
      { rewrite bytes_ok_app, !I2OSP_bytes_ok. reflexivity. }
      rewrite app_length, !I2OSP_length.
      replace (Nat.eqb (L + L) (2 * L)) with true by (symmetry; apply Nat.eqb_eq; lia).
      cbn [negb].
      destruct (split_at_length (I2OSP (Z.to_N rr) L) (I2OSP (Z.to_N ss) L) L (I2OSP_length _ _)) as [F1 F2].
      rewrite F1, F2, !decode_I2OSP by assumption. cbn [bind].
      rewrite (check_key_op_verify k' Hops). cbn [bind]. rewrite Hid. exact EV.
    - (* EdDSA *)
      intro H. bstep H as u CK. rewrite (check_key_op_verify k' Hops). cbn [bind].
      rewrite (mistyped_corr FEd k k' Hty). destruct (mistyped FEd k); [discriminate|].
      unfold ed_curve_ok in *. rewrite Hcrv.
      destruct (String.eqb (k_crv k) "Ed25519" || String.eqb (k_crv k) "Ed448"); [|discriminate].
      rewrite Hid. apply pk_correct in H. exact H.
  Qed.

  Lemma check_use_corr k k' : k_use k' = k_use k -> check_use k' = check_use k.
  Proof. intro H. unfold check_use. rewrite H. reflexivity. Qed.

  Lemma check_key_type_corr r k k' : k_kty k' = k_kty k -> check_key_type r k' = check_key_type r k.
  Proof. intro H. unfold check_key_type. rewrite H. reflexivity. Qed.

  Lemma getitem_dmem h k v : py_getitem_str (PDict h) k = Ok v -> dmem h k = true.
  Proof. unfold py_getitem_str, dmem. destruct (dget h k); [reflexivity|discriminate]. Qed.

  Lemma get_alg_not_none rg algv r k u : get_alg rg algv = Ok r -> check_key_type r k = Ok u ->
    (0 < ec_len k)%nat \/ True.
  Proof. auto. Qed.

  Lemma tok_assoc (a b c : bytes) : (a ++ 46 :: b) ++ 46 :: c = a ++ 46 :: b ++ 46 :: c.
  Proof. rewrite <- app_assoc. reflexivity. Qed.

  (* decode_header of an encoded header *)
  Lemma decode_header_enc h :
    dmem h s_alg = true ->
    decode_header json_loads (json_b64encode json_dumps h) = Ok (PDict h).
  Proof.
    intro A. destruct (json_rt h) as [J B].
    unfold decode_header, json_b64decode, json_b64encode.
    rewrite b64_roundtrip by exact B. cbn [bind]. rewrite J. cbn [to_decode_error]. rewrite A. reflexivity.
  Qed.

  (* ---------------- compact ---------------- *)
  Theorem compact_rt_rg h payload k k' rg tok :
    corresponds k k' -> (0 < ec_len k)%nat -> bytes_ok payload = true ->
    (forall r, get_alg rg (match dget h s_alg with Some v => v | None => PNone end) = Ok r -> fam_of r <> FNone) ->
    serialize_compact_rg json_dumps mac pk_sign ec_sign choose h payload (KOne k) rg = Ok tok ->
    exists o, deserialize_compact_rg json_loads mac pk_verify ec_verify tok (KOne k') rg = Ok o /\
              co_payload o = payload /\ co_protected o = PDict h.
  Proof.
    intros C HL BP NN H. unfold serialize_compact_rg in H.
    bstep H as u CH. bstep H as algv GA. bstep H as r GR. bstep H as kk GK.
    cbn [guess_key_sign] in GK. inversion GK; subst kk. cbn [fst snd set_kid] in H.
    bstep H as u2 CU. bstep H as u3 CT. bstep H as u4 CA.
    unfold sign_compact in H. bstep H as sig AS. inversion H; subst tok. clear H.
    assert (NNr : fam_of r <> FNone).
    { apply NN. unfold py_getitem_str in GA. destruct (dget h s_alg); inversion GA; subst; exact GR. }
    destruct (alg_rt r k k' _ _ C NNr HL AS) as [BS AV].
    destruct (json_rt h) as [J BJ].
    rewrite tok_assoc.
    unfold deserialize_compact_rg, extract_compact.
    rewrite split3 by (apply b64e_no_dot; assumption).
    rewrite (decode_header_enc h (getitem_dmem _ _ _ GA)). cbn [bind].
    rewrite (b64_roundtrip payload BP). cbn [bind].
    unfold validate_compact. cbn [co_protected co_payload co_hseg co_pseg co_sseg].
    rewrite CH. cbn [bind guess_key].
    destruct C as (Hid & Hty & Hcrv & Hbits & Huse & Hops).
    rewrite (check_use_corr k k' Huse), CU. cbn [bind]. rewrite GA. cbn [bind]. rewrite GR. cbn [bind].
    rewrite (check_key_type_corr r k k' Hty), CT. cbn [bind].
    unfold verify_compact. cbn [co_hseg co_pseg co_sseg].
    rewrite (b64_roundtrip sig BS). cbn [bind]. rewrite AV. cbn [bind].
    eexists. split; [reflexivity|]. auto.
  Qed.

  (* ---------------- JSON: one member ---------------- *)
  Definition smember_member (m : smember) : member :=
    {| m_protected := match sm_protected m with Some ((_ :: _) as d) => Some (PDict d) | _ => None end;
       m_header := match sm_header m with Some ((_ :: _) as hd) => Some hd | _ => None end |}.

  Lemma smember_headers_eq m : member_headers (smember_member m) = Ok (smember_headers m).
  Proof.
    unfold member_headers, smember_member, smember_headers. cbn [m_protected m_header].
    destruct (sm_protected m) as [[|kv d]|]; destruct (sm_header m) as [[|kv2 hd]|]; reflexivity.
  Qed.

  Theorem member_rt m payload k k' rg sg :
    corresponds k k' -> (0 < ec_len k)%nat ->
    (forall r, get_alg rg (match dget (smember_headers m) s_alg with Some v => v | None => PNone end) = Ok r -> fam_of r <> FNone) ->
    sign_member json_dumps mac pk_sign ec_sign choose (b64e payload) m rg (KOne k) = Ok sg ->
    signature_to_member json_loads sg = Ok (smember_member m) /\
    verify_signature mac pk_verify ec_verify (smember_member m) sg (b64e payload) rg (KOne k') = Ok true.
  Proof.
    intros C HL NN H. unfold sign_member in H.
    bstep H as u CH. bstep H as algv GA. bstep H as r GR. bstep H as kk GK.
    cbn [guess_key_sign] in GK. inversion GK; subst kk. cbn [fst snd] in H.
    bstep H as u2 CU. bstep H as u3 CT. bstep H as sig AS. inversion H; subst sg. clear H.
    assert (NNr : fam_of r <> FNone).
    { apply NN. unfold py_getitem_str in GA. destruct (dget (smember_headers m) s_alg); inversion GA; subst; exact GR. }
    destruct (alg_rt r k k' _ _ C NNr HL AS) as [BS AV].
    split.
    - unfold signature_to_member, smember_member. cbn [js_protected js_header].
      destruct (sm_protected m) as [[|kv d]|]; cbn [bind]; try reflexivity.
      destruct (json_rt (kv :: d)) as [J BJ].
      assert (AA : all_ascii (json_b64encode json_dumps (kv :: d)) = true).
      { unfold json_b64encode, all_ascii. pose proof (b64e_alphabet _ BJ) as AL.
        rewrite forallb_forall in *. intros c Hc. specialize (AL c Hc).
        apply in_alphabet_spec in AL. lia. }
      rewrite AA. unfold json_b64decode, json_b64encode. rewrite b64_roundtrip by exact BJ.
      cbn [bind]. rewrite J. cbn [bind is_dict]. reflexivity.
    - unfold verify_signature. rewrite smember_headers_eq. cbn [bind].
      rewrite CH. cbn [bind]. rewrite GA. cbn [bind]. rewrite GR. cbn [bind guess_key].
      destruct C as (Hid & Hty & Hcrv & Hbits & Huse & Hops).
      rewrite (check_use_corr k k' Huse), CU. cbn [bind].
      rewrite (check_key_type_corr r k k' Hty), CT. cbn [bind js_signature of_opt].
      rewrite (b64_roundtrip sig BS). cbn [bind js_protected].
      destruct (sm_protected m) as [[|kv d]|]; exact AV.
  Qed.

  Theorem flat_rt_rg m payload k k' rg v :
    corresponds k k' -> (0 < ec_len k)%nat -> bytes_ok payload = true ->
    (forall r, get_alg rg (match dget (smember_headers m) s_alg with Some v => v | None => PNone end) = Ok r -> fam_of r <> FNone) ->
    sign_flattened_json json_dumps mac pk_sign ec_sign choose m payload rg (KOne k) = Ok v ->
    exists o, deserialize_json_rg json_loads mac pk_verify ec_verify v (KOne k') rg = Ok o /\
              jo_payload o = payload /\ jo_members o = [smember_member m].
  Proof.
    intros C HL BP NN H. unfold sign_flattened_json in H. bstep H as sg SM. inversion H; subst v. clear H.
    assert (SS : exists s, js_signature sg = Some s).
    { unfold sign_member in SM. repeat (apply bind_ok in SM; destruct SM as (? & ? & SM)).
      inversion SM. cbn. eauto. }
    destruct SS as (s & SS).
    destruct (member_rt _ _ _ _ _ _ C HL NN SM) as [S2M V].
    unfold deserialize_json_rg, extract_flattened_json, decode_payload. cbn [of_opt bind].
    rewrite (b64_roundtrip payload BP). cbn [bind]. rewrite SS. cbn [of_opt bind]. rewrite S2M. cbn [bind].
    unfold verify_flattened_json. cbn [jo_members jo_sigs jo_pseg fst snd]. rewrite V. cbn [bind].
    eexists. split; [reflexivity|]. auto.
  Qed.

  (* ---------------- JSON: n members ---------------- *)
  Lemma members_rt payload k k' rg : corresponds k k' -> (0 < ec_len k)%nat ->
    forall ms sgs,
    (forall m, In m ms -> forall r,
        get_alg rg (match dget (smember_headers m) s_alg with Some v => v | None => PNone end) = Ok r -> fam_of r <> FNone) ->
    map_res (fun m => sign_member json_dumps mac pk_sign ec_sign choose (b64e payload) m rg (KOne k)) ms = Ok sgs ->
    map_res (signature_to_member json_loads) sgs = Ok (map smember_member ms) /\
    verify_each mac pk_verify ec_verify (map smember_member ms) sgs (b64e payload) rg (KOne k') = Ok true /\
    length sgs = length ms.
  Proof.
    intros C HL. induction ms as [|m ms IH]; intros sgs NN H; cbn [map_res] in H.
    - inversion H. cbn. auto.
    - bstep H as sg SM. bstep H as t MT. inversion H; subst sgs. clear H.
      destruct (member_rt _ _ _ _ _ _ C HL (NN m (or_introl eq_refl)) SM) as [S2M V].
      destruct (IH t (fun m' Hin => NN m' (or_intror Hin)) MT) as (A & B & L).
      cbn [map_res map verify_each length]. rewrite S2M. cbn [bind]. rewrite A. cbn [bind].
      rewrite V. cbn [bind]. rewrite B. auto.
  Qed.

  Theorem general_rt_rg ms payload k k' rg v :
    corresponds k k' -> (0 < ec_len k)%nat -> bytes_ok payload = true -> ms <> [] ->
    (forall m, In m ms -> forall r,
        get_alg rg (match dget (smember_headers m) s_alg with Some v => v | None => PNone end) = Ok r -> fam_of r <> FNone) ->
    sign_general_json json_dumps mac pk_sign ec_sign choose ms payload rg (KOne k) = Ok v ->
    exists o, deserialize_json_rg json_loads mac pk_verify ec_verify v (KOne k') rg = Ok o /\
              jo_payload o = payload /\ jo_members o = map smember_member ms.
  Proof.
    intros C HL BP NE NN H. unfold sign_general_json in H. bstep H as sgs SM. inversion H; subst v. clear H.
    destruct (members_rt payload k k' rg C HL ms sgs NN SM) as (A & B & L).
    unfold deserialize_json_rg, extract_general_json, decode_payload. cbn [of_opt bind].
    rewrite (b64_roundtrip payload BP). cbn [bind]. rewrite A. cbn [bind].
    unfold verify_general_json. cbn [jo_sigs jo_members jo_pseg fst snd].
    destruct sgs as [|sg sgs]; [destruct ms; [congruence|discriminate L]|].
    rewrite B. cbn [bind]. eexists. split; [reflexivity|]. auto.
  Qed.

  (* ---------------- detached content ---------------- *)
  Theorem detach_compact_segments h p s :
    no_dot h = true -> no_dot p = true -> no_dot s = true ->
    detach_compact (h ++ 46 :: p ++ 46 :: s) = Ok (h ++ 46 :: 46 :: s).
  Proof.
    intros A B C. unfold detach_compact. rewrite split3 by assumption. reflexivity.
  Qed.

  Theorem detach_json_untouched v :
    match v, detach_json v with
    | JFlat _ sg, JFlat p' sg' => p' = None /\ sg' = sg
    | JGen _ sgs, JGen p' sgs' => p' = None /\ sgs' = sgs
    | _, _ => False
    end.
  Proof. destruct v; cbn; auto. Qed.
End C03.
