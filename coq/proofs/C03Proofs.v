(* C03Proofs.v — JWS sign-then-verify round trips of the Impl model (model/Jws.v)
   under the correctness contract of the primitives (SigCorrect). *)
From Coq Require Import Lia ZifyBool.
From Model Require Import Jws.
From Gen Require Import Tables.
From Proofs Require Import B64Proofs IntCodecProofs JwsProofs.
Open Scope N_scope.

Lemma beqb_refl a : beqb a a = true.
Proof. apply beqb_eq. reflexivity. Qed.

Lemma bytes_ok_app a b : bytes_ok (a ++ b) = bytes_ok a && bytes_ok b.
Proof. unfold bytes_ok. apply forallb_app. Qed.

Lemma op_private_verify : op_private "verify" = false.
Proof. vm_compute. reflexivity. Qed.

(* the verification key that corresponds to a signing key: same material and
   type, no key_ops restriction (a public JWK export) *)
Definition corresponds (k k' : key) : Prop :=
  k_id k' = k_id k /\ k_kty k' = k_kty k /\ k_crv k' = k_crv k /\ k_bits k' = k_bits k /\
  k_use k' = k_use k /\ check_key_op k' "verify" = Ok tt.

(* the verifier's key may be restricted by key_ops as long as "verify" is allowed
   (its private flag does not matter: "verify" is a public operation) *)
Lemma corresponds_of_ops (k k' : key) :
  k_id k' = k_id k -> k_kty k' = k_kty k -> k_crv k' = k_crv k -> k_bits k' = k_bits k ->
  k_use k' = k_use k ->
  match k_ops k' with None => True | Some ops => str_mem (asc "verify") ops = true end ->
  corresponds k k'.
Proof.
  intros A B C D E F. repeat (split; [assumption|]). unfold check_key_op.
  destruct (k_ops k') as [ops|]; [rewrite F|]; rewrite op_private_verify; reflexivity.
Qed.

(* ---------- set_kid keeps a valid header valid ---------- *)
Definition reg_kid_ok (reg : list hparam) : bool :=
  existsb (fun p => str_eqb (asc (hp_name p)) s_kid) reg &&
  forallb (fun p => if str_eqb (asc (hp_name p)) s_kid
                    then match hp_kind p with VStr => true | _ => false end else true) reg.
Lemma reg_kid_ok_both : reg_kid_ok jws_default_header_registry = true /\
                        reg_kid_ok jws7797_default_header_registry = true.
Proof. split; vm_compute; reflexivity. Qed.

Lemma dmem_dset_mono {A} (d : list (str * A)) k v s : dmem d s = true -> dmem (dset d k v) s = true.
Proof.
  intro H. destruct (str_eqb k s) eqn:E.
  - apply str_eqb_eq in E. subst s. unfold dmem. rewrite dget_dset_same. reflexivity.
  - rewrite dmem_dset_other by (apply str_eqb_neq; exact E). exact H.
Qed.

Lemma crit_loop_mono h h' l :
  (forall s, dmem h s = true -> dmem h' s = true) ->
  crit_loop h l = Ok tt -> crit_loop h' l = Ok tt.
Proof.
  intro M. induction l as [|k l IH]; [auto|]. cbn [crit_loop]. intro H.
  bstep H as b PI. destruct b; [|discriminate].
  destruct k; cbn in PI; try discriminate; inversion PI as [Q].
  cbn [py_in bind]. rewrite (M _ Q). cbn [bind]. apply IH. exact H.
Qed.

Lemma dkeys_dset_fresh {A} (d : list (str * A)) k v : dget d k = None -> dkeys (dset d k v) = dkeys d ++ [k].
Proof.
  induction d as [|[k' v'] d IH]; intro H; [reflexivity|].
  cbn [dget] in H. cbn [dset]. destruct (str_eqb k' k); [discriminate|].
  unfold dkeys in *. cbn [map fst app]. rewrite (IH H). reflexivity.
Qed.

Lemma check_header_set_kid rg h id :
  dget h s_kid = None -> check_header rg (PDict h) = Ok tt ->
  check_header rg (PDict (dset h s_kid (PStr id))) = Ok tt.
Proof.
  intros NK H. unfold check_header in *.
  assert (RK : reg_kid_ok (header_registry rg) = true).
  { unfold header_registry. destruct (rg_7797 rg); apply reg_kid_ok_both. }
  apply andb_true_iff in RK. destruct RK as [RK1 RK2].
  assert (NEQ : forall s, s <> s_kid -> dget (dset h s_kid (PStr id)) s = dget h s).
  { intros s N. apply dget_dset_other. congruence. }
  bstep H as u1 SB. bstep H as u2 CC. bstep H as u3 VR.
  (* b64 / crit part *)
  rewrite (dmem_dset_other h s_kid s_b64) by (vm_compute; discriminate).
  assert (SB' : (if rg_7797 rg && dmem h s_b64 then safe_b64_header (dset h s_kid (PStr id)) else ok) = Ok tt).
  { destruct (rg_7797 rg && dmem h s_b64); [|reflexivity].
    unfold safe_b64_header in *. rewrite NEQ by (vm_compute; discriminate). destruct u1. exact SB. }
  rewrite SB'. cbn [bind].
  assert (CC' : check_crit_header (dset h s_kid (PStr id)) = Ok tt).
  { unfold check_crit_header in *. rewrite NEQ by (vm_compute; discriminate).
    destruct (dget h s_crit) as [c|]; [|reflexivity]. destruct c; try discriminate.
    destruct (forallb is_str l); [|discriminate]. destruct u2.
    eapply crit_loop_mono; [|exact CC]. intros s. apply dmem_dset_mono. }
  rewrite CC'. cbn [bind].
  assert (VR' : validate_registry_header (header_registry rg) (dset h s_kid (PStr id)) = Ok tt).
  { unfold validate_registry_header in *.
    destruct (forallb _ (header_registry rg)) eqn:FA in VR; [|discriminate].
    match goal with |- (if ?c then _ else _) = _ => assert (X : c = true); [|rewrite X; reflexivity] end.
    rewrite forallb_forall in *. intros p Hp. specialize (FA p Hp). specialize (RK2 p Hp).
    destruct (str_eqb (asc (hp_name p)) s_kid) eqn:E.
    - apply str_eqb_eq in E. rewrite E, dget_dset_same. destruct (hp_kind p); try discriminate. reflexivity.
    - rewrite NEQ by (apply str_eqb_neq; exact E). exact FA. }
  rewrite VR'. cbn [bind].
  destruct jws_default_instance_strict; [|reflexivity].
  unfold check_supported_header in *.
  destruct (forallb _ (dkeys h)) eqn:FA in H; [|discriminate].
  rewrite dkeys_dset_fresh by exact NK. rewrite forallb_app, FA. cbn [forallb andb]. rewrite RK1. reflexivity.
Qed.

Section C03.
  Variable json_loads : bytes -> res pv.
  Variable json_dumps : pv -> bytes.
  Variable mac : string -> N -> bytes -> res bytes.
  Variable pk_sign : jws_alg_row -> N -> bytes -> res bytes.
  Variable pk_verify : jws_alg_row -> N -> bytes -> bytes -> res bool.
  Variable ec_sign : jws_alg_row -> N -> bytes -> res (Z * Z).
  Variable ec_verify : jws_alg_row -> N -> bytes -> Z -> Z -> res bool.
  Variable choose : list key -> option key.

  (* SigCorrect: verify accepts sign's output under the matching key; outputs are octets;
     ECDSA returns 0 <= r, s < 256^L *)
  Hypothesis mac_octets : forall h kid msg m, mac h kid msg = Ok m -> bytes_ok m = true.
  Hypothesis pk_correct : forall r kid msg sig,
      pk_sign r kid msg = Ok sig -> bytes_ok sig = true /\ pk_verify r kid msg sig = Ok true.
  Hypothesis ec_correct : forall r k msg rr ss,
      ec_sign r (k_id k) msg = Ok (rr, ss) ->
      (0 <= rr)%Z /\ (0 <= ss)%Z /\
      Z.to_N rr < 256 ^ N.of_nat (ec_len k) /\ Z.to_N ss < 256 ^ N.of_nat (ec_len k) /\
      ec_verify r (k_id k) msg rr ss = Ok true.
  (* json.loads(json.dumps(h)) == h, and the dump is a non-empty octet string, for
     the header objects [hok] admits (instantiated in C03JsonProofs by the Gallina
     JSON model with hok h = json_ok (PDict h)) *)
  Variable hok : list (str * pv) -> bool.
  Hypothesis json_rt : forall h, hok h = true ->
      json_loads (json_dumps (PDict h)) = Ok (PDict h) /\
      bytes_ok (json_dumps (PDict h)) = true /\ json_dumps (PDict h) <> [].

  Notation asign := (alg_sign mac pk_sign ec_sign).
  Notation averify := (alg_verify mac pk_verify ec_verify).

  Lemma check_key_op_verify k' : check_key_op k' "verify" = Ok tt -> check_key_op k' "verify" = Ok tt.
  Proof. auto. Qed.

  Lemma mistyped_corr f k k' : k_kty k' = k_kty k -> mistyped f k' = mistyped f k.
  Proof. intro H. unfold mistyped. rewrite H. reflexivity. Qed.

  Lemma encode_int_inv z bits a :
    let L := N.to_nat ((bits + 7) / 8) in
    (0 < L)%nat -> (0 <= z)%Z -> Z.to_N z < 256 ^ N.of_nat L ->
    encode_int z bits = Ok a -> a = I2OSP (Z.to_N z) L.
  Proof.
    intros L HL Hz Hn E. rewrite (encode_int_is_I2OSP_pos z bits HL Hz Hn) in E.
    inversion E. reflexivity.
  Qed.

  (* the algorithm wrappers: what sign produces, verify accepts (every family but "none") *)
  Theorem alg_rt r k k' msg sig :
    corresponds k k' -> fam_of r <> FNone -> (0 < ec_len k)%nat ->
    asign r k msg = Ok sig -> bytes_ok sig = true /\ averify r k' msg sig = Ok true.
  Proof.
    intros (Hid & Hty & Hcrv & Hbits & _ & Hops) NN HL.
    unfold alg_sign, alg_verify.
    destruct (fam_of r) eqn:F; try congruence; try discriminate.
    - (* HMAC *)
      intro H. bstep H as u CK. rewrite (check_key_op_verify k' Hops). cbn [bind].
      rewrite (mistyped_corr FHmac k k' Hty). destruct (mistyped FHmac k); [discriminate|].
      rewrite Hid, H. cbn [bind]. rewrite beqb_refl. split; [eapply mac_octets; eauto|reflexivity].
    - (* RSA *)
      intro H. bstep H as u CK. rewrite (check_key_op_verify k' Hops). cbn [bind].
      rewrite (mistyped_corr FRsa k k' Hty). destruct (mistyped FRsa k); [discriminate|].
      rewrite Hid. apply pk_correct in H. exact H.
    - (* PSS *)
      intro H. bstep H as u CK. rewrite (check_key_op_verify k' Hops). cbn [bind].
      rewrite (mistyped_corr FRsa k k' Hty). destruct (mistyped FRsa k); [discriminate|].
      rewrite Hid. apply pk_correct in H. exact H.
    - (* ECDSA *)
      rewrite (mistyped_corr FEc k k' Hty). destruct (mistyped FEc k); [discriminate|].
      rewrite Hcrv. destruct (negb (String.eqb (k_crv k) (ja_curve r))); [discriminate|].
      intro H. bstep H as u CK. bstep H as rs ES. destruct rs as [rr ss]. cbn [fst snd] in H.
      bstep H as a EA. bstep H as b EB. inversion H; subst sig. clear H.
      destruct (ec_correct _ _ _ _ _ ES) as (Hr & Hs & Hrn & Hsn & EV).
      assert (LL : ec_len k' = ec_len k) by (unfold ec_len; rewrite Hbits; reflexivity).
      rewrite LL. unfold ec_len in *.
      pose proof (encode_int_inv rr (k_bits k) a HL Hr Hrn EA) as ->.
      pose proof (encode_int_inv ss (k_bits k) b HL Hs Hsn EB) as ->.
      set (L := N.to_nat ((k_bits k + 7) / 8)) in *.
      split.
      { rewrite bytes_ok_app, !I2OSP_bytes_ok. reflexivity. }
      rewrite app_length, !I2OSP_length.
      replace (Nat.eqb (L + L) (2 * L)) with true by (symmetry; apply Nat.eqb_eq; lia).
      cbn [negb].
      destruct (split_at_length (I2OSP (Z.to_N rr) L) (I2OSP (Z.to_N ss) L) L (I2OSP_length _ _)) as [F1 F2].
      rewrite F1, F2, !decode_I2OSP by assumption. cbn [bind].
      rewrite (check_key_op_verify k' Hops). cbn [bind]. rewrite Hid. exact EV.
    - (* EdDSA *)
      intro H. bstep H as u CK. rewrite (check_key_op_verify k' Hops). cbn [bind].
      rewrite (mistyped_corr FEd k k' Hty). destruct (mistyped FEd k); [discriminate|].
      unfold ed_curve_ok in *. rewrite Hcrv.
      destruct (String.eqb (k_crv k) "Ed25519" || String.eqb (k_crv k) "Ed448"); [|discriminate].
      rewrite Hid. apply pk_correct in H. exact H.
  Qed.

  Lemma check_use_corr k k' : k_use k' = k_use k -> check_use k' = check_use k.
  Proof. intro H. unfold check_use. rewrite H. reflexivity. Qed.

  Lemma check_key_type_corr r k k' : k_kty k' = k_kty k -> check_key_type r k' = check_key_type r k.
  Proof. intro H. unfold check_key_type. rewrite H. reflexivity. Qed.

  Lemma getitem_dmem h k v : py_getitem_str (PDict h) k = Ok v -> dmem h k = true.
  Proof. unfold py_getitem_str, dmem. destruct (dget h k); [reflexivity|discriminate]. Qed.

  Lemma get_alg_not_none rg algv r k u : get_alg rg algv = Ok r -> check_key_type r k = Ok u ->
    (0 < ec_len k)%nat \/ True.
  Proof. auto. Qed.

  Lemma tok_assoc (a b c : bytes) : (a ++ 46 :: b) ++ 46 :: c = a ++ 46 :: b ++ 46 :: c.
  Proof. rewrite <- app_assoc. reflexivity. Qed.

  (* decode_header of an encoded header *)
  Lemma decode_header_enc h :
    hok h = true -> dmem h s_alg = true ->
    decode_header json_loads (json_b64encode json_dumps h) = Ok (PDict h).
  Proof.
    intros OK A. destruct (json_rt h OK) as (J & B & _).
    unfold decode_header, json_b64decode, json_b64encode.
    rewrite b64_roundtrip by exact B. cbn [bind]. rewrite J. cbn [to_decode_error]. rewrite A. reflexivity.
  Qed.

  Lemma enc_ascii h : hok h = true -> all_ascii (json_b64encode json_dumps h) = true.
  Proof.
    intro OK. destruct (json_rt h OK) as (_ & BJ & _).
    unfold json_b64encode, all_ascii. pose proof (b64e_alphabet _ BJ) as AL.
    rewrite forallb_forall in *. intros c Hc. specialize (AL c Hc).
    apply in_alphabet_spec in AL. lia.
  Qed.

  Lemma enc_nonempty h : hok h = true -> json_b64encode json_dumps h <> [].
  Proof.
    intro OK. destruct (json_rt h OK) as (_ & _ & NE). unfold json_b64encode.
    destruct (json_dumps (PDict h)) as [|a [|b [|c r]]]; [congruence|discriminate..].
  Qed.

  Lemma enc_no_dot h : hok h = true -> no_dot (json_b64encode json_dumps h) = true.
  Proof. intro OK. destruct (json_rt h OK) as (_ & B & _). apply b64e_no_dot. exact B. Qed.

  (* ---------------- key resolution on both sides ---------------- *)
  (* what the signer's key source resolves to (key, kid stored by set_kid) is found
     again by the verifier's key source from the produced header *)
  Definition key_ok (rg : registry) (src src' : keysrc) (h : list (str * pv)) : Prop :=
    forall k okid, check_header rg (PDict h) = Ok tt ->
      guess_key_sign choose src h = Ok (k, okid) ->
      (0 < ec_len k)%nat /\ hok (set_kid h okid) = true /\
      check_header rg (PDict (set_kid h okid)) = Ok tt /\
      py_getitem_str (PDict (set_kid h okid)) s_alg = py_getitem_str (PDict h) s_alg /\
      exists k', guess_key src' (PDict (set_kid h okid)) = Ok k' /\ corresponds k k'.

  Lemma key_ok_one rg k k' h :
    corresponds k k' -> (0 < ec_len k)%nat -> hok h = true -> key_ok rg (KOne k) (KOne k') h.
  Proof.
    intros C HL OK k0 okid CH G. cbn [guess_key_sign] in G. inversion G; subst.
    cbn [set_kid guess_key]. eauto 10.
  Qed.

  Lemma unit_tt (u : unit) : u = tt. Proof. destruct u; reflexivity. Qed.

  (* ---------------- compact ---------------- *)
  Theorem compact_rt_gen h payload src src' rg tok :
    key_ok rg src src' h -> bytes_ok payload = true ->
    (forall r, get_alg rg (match dget h s_alg with Some v => v | None => PNone end) = Ok r -> fam_of r <> FNone) ->
    serialize_compact_rg json_dumps mac pk_sign ec_sign choose h payload src rg = Ok tok ->
    exists o k okid,
      guess_key_sign choose src h = Ok (k, okid) /\
      deserialize_compact_rg json_loads mac pk_verify ec_verify tok src' rg = Ok o /\
      co_payload o = payload /\ co_protected o = PDict (set_kid h okid).
  Proof.
    intros KO BP NN H. unfold serialize_compact_rg in H.
    bstep H as u CH. bstep H as algv GA. bstep H as r GR. bstep H as kk GK.
    destruct kk as [k okid]. cbn [fst snd] in H. rewrite (unit_tt u) in CH.
    destruct (KO k okid CH GK) as (HL & OK & CH' & GA' & k' & GKV & C).
    bstep H as u2 CU. bstep H as u3 CT. bstep H as u4 CA.
    unfold sign_compact in H. bstep H as sig AS. inversion H; subst tok. clear H.
    assert (NNr : fam_of r <> FNone).
    { apply NN. unfold py_getitem_str in GA. destruct (dget h s_alg); inversion GA; subst; exact GR. }
    destruct (alg_rt r k k' _ _ C NNr HL AS) as [BS AV].
    set (h' := set_kid h okid) in *.
    rewrite tok_assoc.
    unfold deserialize_compact_rg, extract_compact.
    rewrite split3 by (try apply enc_no_dot; try apply b64e_no_dot; assumption).
    rewrite <- GA' in GA.
    rewrite (decode_header_enc h' OK (getitem_dmem _ _ _ GA)). cbn [bind].
    rewrite (b64_roundtrip payload BP). cbn [bind].
    unfold validate_compact. cbn [co_protected co_payload co_hseg co_pseg co_sseg].
    rewrite CH'. cbn [bind]. rewrite GKV. cbn [bind].
    destruct C as (Hid & Hty & Hcrv & Hbits & Huse & Hops).
    rewrite (check_use_corr k k' Huse), CU. cbn [bind]. rewrite GA. cbn [bind]. rewrite GR. cbn [bind].
    rewrite (check_key_type_corr r k k' Hty), CT. cbn [bind].
    unfold verify_compact. cbn [co_hseg co_pseg co_sseg].
    rewrite (b64_roundtrip sig BS). cbn [bind]. rewrite AV. cbn [bind].
    eexists. exists k, okid. split; [exact GK|]. split; [reflexivity|]. auto.
  Qed.

  Theorem compact_rt_rg h payload k k' rg tok :
    corresponds k k' -> (0 < ec_len k)%nat -> bytes_ok payload = true -> hok h = true ->
    (forall r, get_alg rg (match dget h s_alg with Some v => v | None => PNone end) = Ok r -> fam_of r <> FNone) ->
    serialize_compact_rg json_dumps mac pk_sign ec_sign choose h payload (KOne k) rg = Ok tok ->
    exists o, deserialize_compact_rg json_loads mac pk_verify ec_verify tok (KOne k') rg = Ok o /\
              co_payload o = payload /\ co_protected o = PDict h.
  Proof.
    intros C HL BP OK NN H.
    destruct (compact_rt_gen h payload _ _ rg tok (key_ok_one rg k k' h C HL OK) BP NN H)
      as (o & k0 & okid & G & D & P & Q).
    cbn [guess_key_sign] in G. inversion G; subst. exists o. auto.
  Qed.

  (* ---------------- rfc7797 compact, b64 = false ---------------- *)
  (* the regular expression ^[a-zA-Z0-9-_~]+$ (as re.match applies it) as a predicate *)
  Definition urlsafe_re (l : list N) : bool :=
    match l with [] => false | c :: _ => urlsafe_char c && urlsafe_body l end.

  Lemma urlsafe_char_not_dot c : urlsafe_char c = true -> (c =? 46) = false.
  Proof.
    unfold urlsafe_char. intro H. destruct (c =? 46) eqn:E; [|reflexivity].
    apply N.eqb_eq in E. subst c. vm_compute in H. discriminate.
  Qed.

  Lemma urlsafe_body_no_dot l : urlsafe_body l = true -> no_dot l = true.
  Proof.
    induction l as [|c l IH]; [reflexivity|]. destruct l as [|d l].
    - cbn. intro H. apply orb_true_iff in H. destruct H as [H|H].
      + rewrite (urlsafe_char_not_dot c H). reflexivity.
      + apply N.eqb_eq in H. subst c. reflexivity.
    - intro H. change (urlsafe_body (c :: d :: l)) with (urlsafe_char c && urlsafe_body (d :: l)) in H.
      apply andb_true_iff in H. destruct H as [H1 H2].
      change (no_dot (c :: d :: l)) with (negb (c =? 46) && no_dot (d :: l)).
      rewrite (urlsafe_char_not_dot c H1), (IH H2). reflexivity.
  Qed.

  Theorem urlsafe_no_dot l : urlsafe_re l = true -> no_dot l = true.
  Proof.
    unfold urlsafe_re. destruct l as [|c l]; [discriminate|]. intro H.
    apply andb_true_iff in H. apply urlsafe_body_no_dot. tauto.
  Qed.

  Lemma urlsafe_char_lt c : urlsafe_char c = true -> (c <? 128) = true.
  Proof.
    unfold urlsafe_char. intro H. apply orb_true_iff in H. destruct H as [H|H].
    - apply in_alphabet_spec in H. lia.
    - apply N.eqb_eq in H. subst c. reflexivity.
  Qed.

  Lemma urlsafe_body_utf8 l : urlsafe_body l = true -> utf8_ok l = true.
  Proof.
    induction l as [|c l IH]; [reflexivity|]. destruct l as [|d l].
    - cbn [urlsafe_body]. intro H. apply orb_true_iff in H.
      assert (L : (c <? 128) = true).
      { destruct H as [H|H]; [apply urlsafe_char_lt; exact H|apply N.eqb_eq in H; subst c; reflexivity]. }
      cbn [utf8_ok]. rewrite L. reflexivity.
    - intro H. change (urlsafe_body (c :: d :: l)) with (urlsafe_char c && urlsafe_body (d :: l)) in H.
      apply andb_true_iff in H. destruct H as [H1 H2].
      change (utf8_ok (c :: d :: l)) with (if c <? 128 then utf8_ok (d :: l) else
        if (194 <=? c) && (c <=? 223) then cont d && utf8_ok l else
        if (224 <=? c) && (c <=? 239) then
          match l with
          | d0 :: r2 => (if c =? 224 then (160 <=? d) && (d <=? 191)
                         else if c =? 237 then (128 <=? d) && (d <=? 159) else cont d) && cont d0 && utf8_ok r2
          | _ => false
          end
        else if (240 <=? c) && (c <=? 244) then
          match l with
          | d0 :: e :: r3 => (if c =? 240 then (144 <=? d) && (d <=? 191)
                              else if c =? 244 then (128 <=? d) && (d <=? 143) else cont d) && cont d0 && cont e && utf8_ok r3
          | _ => false
          end
        else false).
      rewrite (urlsafe_char_lt c H1). apply IH. exact H2.
  Qed.

  Lemma is_urlsafe_spec lenient l b : is_urlsafe lenient l = Ok b -> b = true -> urlsafe_re l = true.
  Proof.
    unfold is_urlsafe, urlsafe_re. destruct (utf8_ok l).
    - intros H ->. inversion H. reflexivity.
    - destruct lenient; intros H ->; discriminate.
  Qed.

  Theorem compact97_rt_gen lenient h payload src src' algs tok :
    key_ok (reg97 algs) src src' h -> bytes_ok payload = true ->
    (exists b, dget h s_b64 = Some b /\ b <> PBool true) ->
    (forall okid, dget (set_kid h okid) s_b64 = dget h s_b64) ->
    (forall r, get_alg (reg97 algs) (match dget h s_alg with Some v => v | None => PNone end) = Ok r -> fam_of r <> FNone) ->
    serialize_compact97 json_dumps mac pk_sign ec_sign choose lenient h payload src algs = Ok tok ->
    exists k okid hseg sseg,
      guess_key_sign choose src h = Ok (k, okid) /\
      (* attached iff the payload matches the regular expression, else detached *)
      tok = hseg ++ 46 :: (if urlsafe_re payload then payload else []) ++ 46 :: sseg /\
      no_dot hseg = true /\ no_dot sseg = true /\
      exists o,
        deserialize_compact97 json_loads mac pk_verify ec_verify tok src'
          (if urlsafe_re payload then None else Some payload) algs = Ok o /\
        co_payload o = payload /\ co_protected o = PDict (set_kid h okid).
  Proof.
    intros KO BP (b & DB & NB) SB NN H. unfold serialize_compact97 in H. rewrite DB in H.
    assert (H' : (do _ <- check_header (reg97 algs) (PDict h);
                  do algv <- py_getitem_str (PDict h) s_alg;
                  do r <- get_alg (reg97 algs) algv;
                  do kk <- guess_key_sign choose src h;
                  do _ <- check_use (fst kk);
                  do _ <- check_key_type r (fst kk);
                  do sig <- alg_sign mac pk_sign ec_sign r (fst kk)
                              (json_b64encode json_dumps (set_kid h (snd kk)) ++ 46 :: payload);
                  do u <- is_urlsafe lenient payload;
                  if u then Ok (json_b64encode json_dumps (set_kid h (snd kk)) ++ 46 :: payload ++ 46 :: b64e sig)
                  else Ok (json_b64encode json_dumps (set_kid h (snd kk)) ++ 46 :: 46 :: b64e sig)) = Ok tok).
    { destruct b as [|[|]| | | | | |]; try exact H. congruence. }
    clear H. rename H' into H.
    bstep H as u CH. bstep H as algv GA. bstep H as r GR. bstep H as kk GK.
    destruct kk as [k okid]. cbn [fst snd] in H. rewrite (unit_tt u) in CH.
    destruct (KO k okid CH GK) as (HL & OK & CH' & GA' & k' & GKV & C).
    bstep H as u2 CU. bstep H as u3 CT. bstep H as sig AS. bstep H as us US.
    assert (NNr : fam_of r <> FNone).
    { apply NN. unfold py_getitem_str in GA. destruct (dget h s_alg); inversion GA; subst; exact GR. }
    destruct (alg_rt r k k' _ _ C NNr HL AS) as [BS AV].
    set (h' := set_kid h okid) in *. set (hseg := json_b64encode json_dumps h') in *.
    assert (UR : urlsafe_re payload = us).
    { unfold is_urlsafe in US. unfold urlsafe_re. destruct (utf8_ok payload) eqn:U8.
      - inversion US. reflexivity.
      - destruct lenient; [|discriminate]. inversion US; subst us.
        (* not UTF-8: some octet >= 128, hence not in the class *)
        destruct payload as [|c l]; [reflexivity|].
        destruct (urlsafe_char c && urlsafe_body (c :: l)) eqn:E; [|reflexivity].
        exfalso. apply andb_true_iff in E. destruct E as [_ E].
        apply urlsafe_body_utf8 in E. congruence. }
    exists k, okid, hseg, (b64e sig). split; [exact GK|].
    rewrite <- GA' in GA.
    assert (HB : py_in (PStr s_b64) (PDict h') = Ok true).
    { cbn. unfold dmem, h'. rewrite SB, DB. reflexivity. }
    assert (GB : py_getitem_str (PDict h') s_b64 = Ok b).
    { cbn. unfold h'. rewrite SB, DB. reflexivity. }
    assert (TOKEQ : tok = hseg ++ 46 :: (if urlsafe_re payload then payload else []) ++ 46 :: b64e sig).
    { rewrite UR. destruct us; inversion H; reflexivity. }
    split; [exact TOKEQ|]. split; [apply enc_no_dot; exact OK|]. split; [apply b64e_no_dot; exact BS|].
    assert (ND : no_dot (if urlsafe_re payload then payload else []) = true).
    { destruct (urlsafe_re payload) eqn:E; [apply urlsafe_no_dot; exact E|reflexivity]. }
    rewrite TOKEQ. unfold deserialize_compact97, extract_compact97.
    rewrite split3 by (try apply enc_no_dot; try apply b64e_no_dot; assumption).
    unfold hseg at 1. rewrite (decode_header_enc h' OK (getitem_dmem _ _ _ GA)). cbn [bind].
    rewrite HB. cbn [bind negb]. rewrite GB. cbn [bind].
    assert (PL : (match (if urlsafe_re payload then None else Some payload) with
                  | Some ((_ :: _) as x) => x
                  | _ => if urlsafe_re payload then payload else []
                  end) = payload).
    { destruct (urlsafe_re payload); [reflexivity|]. destruct payload; reflexivity. }
    assert (GOAL : forall pl, pl = payload ->
             exists o, (match X97Obj {| co_protected := PDict h'; co_payload := pl; co_hseg := hseg;
                                        co_pseg := (if urlsafe_re payload then payload else []);
                                        co_sseg := b64e sig |} with
                        | X97None => deserialize_compact_rg json_loads mac pk_verify ec_verify
                                       (hseg ++ 46 :: (if urlsafe_re payload then payload else []) ++ 46 :: b64e sig) src' (reg15 algs)
                        | X97True => deserialize_compact_rg json_loads mac pk_verify ec_verify
                                       (hseg ++ 46 :: (if urlsafe_re payload then payload else []) ++ 46 :: b64e sig) src' (reg97 algs)
                        | X97Obj o =>
                            do _ <- check_header (reg97 algs) (co_protected o);
                            do k <- guess_key src' (co_protected o);
                            do _ <- check_use k;
                            do algv <- py_getitem_str (co_protected o) s_alg;
                            do r <- get_alg (reg97 algs) algv;
                            do _ <- check_key_type r k;
                            do sig <- b64d (co_sseg o);
                            do b <- alg_verify mac pk_verify ec_verify r k (co_hseg o ++ 46 :: co_payload o) sig;
                            if b then Ok o else jerr BadSignatureError
                        end) = Ok o /\ co_payload o = payload /\ co_protected o = PDict h').
    { intros pl ->. cbn [co_protected co_payload co_hseg co_pseg co_sseg].
      rewrite CH'. cbn [bind]. rewrite GKV. cbn [bind].
      destruct C as (Hid & Hty & Hcrv & Hbits & Huse & Hops).
      rewrite (check_use_corr k k' Huse), CU. cbn [bind]. rewrite GA. cbn [bind]. rewrite GR. cbn [bind].
      rewrite (check_key_type_corr r k k' Hty), CT. cbn [bind].
      rewrite (b64_roundtrip sig BS). cbn [bind]. rewrite AV. cbn [bind].
      eexists. split; [reflexivity|]. auto. }
    destruct b as [|[|]| | | | | |]; try congruence; cbv zeta; cbn [bind]; (apply GOAL; exact PL).
  Qed.
  (* ---------------- JSON: one member ---------------- *)
  Definition smember_member (m : smember) : member :=
    {| m_protected := match sm_protected m with Some ((_ :: _) as d) => Some (PDict d) | _ => None end;
       m_header := match sm_header m with Some ((_ :: _) as hd) => Some hd | _ => None end |}.

  Lemma smember_headers_eq m : member_headers (smember_member m) = Ok (smember_headers m).
  Proof.
    unfold member_headers, smember_member, smember_headers. cbn [m_protected m_header].
    destruct (sm_protected m) as [[|kv d]|]; destruct (sm_header m) as [[|kv2 hd]|]; reflexivity.
  Qed.

  (* the member after set_kid stored the kid of the chosen key in the unprotected header *)
  Definition smember_set_kid (m : smember) (okid : option str) : smember :=
    {| sm_protected := sm_protected m;
       sm_header := match okid with
                    | Some id => Some (dset (match sm_header m with Some h => h | None => [] end) s_kid (PStr id))
                    | None => sm_header m
                    end |}.

  Definition prot_of (m : smember) : bytes :=
    match sm_protected m with Some ((_ :: _) as d) => json_b64encode json_dumps d | _ => [] end.
  Definition sig_of (m : smember) (sig : bytes) : jsig :=
    {| js_protected := match sm_protected m with Some ((_ :: _) as d) => Some (json_b64encode json_dumps d) | _ => None end;
       js_header := match sm_header m with Some ((_ :: _) as h) => Some h | _ => None end;
       js_signature := Some (b64e sig) |}.
  Definition prot_hok (m : smember) : Prop :=
    match sm_protected m with Some d => hok d = true | None => True end.

  Lemma verify_side m' sig pseg rg src' r k' algv :
    prot_hok m' ->
    check_header rg (PDict (smember_headers m')) = Ok tt ->
    py_getitem_str (PDict (smember_headers m')) s_alg = Ok algv -> get_alg rg algv = Ok r ->
    guess_key src' (PDict (smember_headers m')) = Ok k' -> check_use k' = Ok tt ->
    check_key_type r k' = Ok tt -> bytes_ok sig = true ->
    alg_verify mac pk_verify ec_verify r k' (prot_of m' ++ 46 :: pseg) sig = Ok true ->
    signature_to_member json_loads (sig_of m' sig) = Ok (smember_member m') /\
    verify_signature mac pk_verify ec_verify (smember_member m') (sig_of m' sig) pseg rg src' = Ok true.
  Proof.
    intros PH CH GA GR GK CU CT BS AV. split.
    - unfold signature_to_member, smember_member, sig_of. cbn [js_protected js_header].
      unfold prot_hok in PH.
      destruct (sm_protected m') as [[|kv d]|]; cbn [bind]; try reflexivity.
      destruct (json_rt (kv :: d) PH) as (J & BJ & _).
      rewrite (enc_ascii _ PH). unfold json_b64decode, json_b64encode. rewrite b64_roundtrip by exact BJ.
      cbn [bind]. rewrite J. cbn [bind is_dict]. reflexivity.
    - unfold verify_signature. rewrite smember_headers_eq. cbn [bind].
      rewrite CH. cbn [bind]. rewrite GA. cbn [bind]. rewrite GR. cbn [bind]. rewrite GK. cbn [bind].
      rewrite CU. cbn [bind]. rewrite CT. cbn [bind]. unfold sig_of, prot_of in *.
      cbn [js_signature js_protected of_opt bind].
      rewrite (b64_roundtrip sig BS). cbn [bind].
      destruct (sm_protected m') as [[|kv d]|]; exact AV.
  Qed.

  Definition mkey_ok (rg : registry) (src src' : keysrc) (m : smember) : Prop :=
    forall k okid, check_header rg (PDict (smember_headers m)) = Ok tt ->
      guess_key_sign choose src (smember_headers m) = Ok (k, okid) ->
      (0 < ec_len k)%nat /\
      check_header rg (PDict (smember_headers (smember_set_kid m okid))) = Ok tt /\
      py_getitem_str (PDict (smember_headers (smember_set_kid m okid))) s_alg
        = py_getitem_str (PDict (smember_headers m)) s_alg /\
      exists k', guess_key src' (PDict (smember_headers (smember_set_kid m okid))) = Ok k' /\ corresponds k k'.

  Lemma mkey_ok_one rg k k' m :
    corresponds k k' -> (0 < ec_len k)%nat -> mkey_ok rg (KOne k) (KOne k') m.
  Proof.
    intros C HL k0 okid CH G. cbn [guess_key_sign] in G. inversion G; subst.
    assert (E : smember_set_kid m None = m) by (destruct m; reflexivity).
    rewrite E. cbn [guess_key]. eauto 10.
  Qed.

  Theorem member_rt_gen m pseg src src' rg sg :
    mkey_ok rg src src' m -> prot_hok m ->
    (forall r, get_alg rg (match dget (smember_headers m) s_alg with Some v => v | None => PNone end) = Ok r -> fam_of r <> FNone) ->
    sign_member json_dumps mac pk_sign ec_sign choose pseg m rg src = Ok sg ->
    exists k okid sig,
      guess_key_sign choose src (smember_headers m) = Ok (k, okid) /\
      sg = sig_of (smember_set_kid m okid) sig /\
      signature_to_member json_loads sg = Ok (smember_member (smember_set_kid m okid)) /\
      verify_signature mac pk_verify ec_verify (smember_member (smember_set_kid m okid)) sg pseg rg src' = Ok true.
  Proof.
    intros KO PH NN H. unfold sign_member in H.
    bstep H as u CH. bstep H as algv GA. bstep H as r GR. bstep H as kk GK.
    destruct kk as [k okid]. cbn [fst snd] in H. rewrite (unit_tt u) in CH.
    destruct (KO k okid CH GK) as (HL & CH' & GA' & k' & GKV & C).
    bstep H as u2 CU. bstep H as u3 CT. bstep H as sig AS.
    assert (NNr : fam_of r <> FNone).
    { apply NN. unfold py_getitem_str in GA. destruct (dget (smember_headers m) s_alg); inversion GA; subst; exact GR. }
    destruct (alg_rt r k k' _ _ C NNr HL AS) as [BS AV].
    set (m' := smember_set_kid m okid) in *.
    assert (SG : sg = sig_of m' sig).
    { inversion H. unfold sig_of, m', smember_set_kid. cbn [sm_protected sm_header]. destruct okid; reflexivity. }
    exists k, okid, sig. split; [exact GK|]. split; [exact SG|]. rewrite SG.
    destruct C as (Hid & Hty & Hcrv & Hbits & Huse & Hops).
    rewrite <- GA' in GA. rewrite (unit_tt u2) in CU. rewrite (unit_tt u3) in CT.
    apply (verify_side m' sig pseg rg src' r k' algv); try assumption.
    - rewrite (check_use_corr k k' Huse). exact CU.
    - rewrite (check_key_type_corr r k k' Hty). exact CT.
    - unfold prot_of, m', smember_set_kid. cbn [sm_protected].
      destruct (sm_protected m) as [[|kv d]|]; exact AV.
  Qed.

  Lemma sig_of_signature m sig : js_signature (sig_of m sig) = Some (b64e sig).
  Proof. reflexivity. Qed.

  Theorem flat_rt_gen m payload src src' rg v :
    mkey_ok rg src src' m -> prot_hok m -> bytes_ok payload = true ->
    (forall r, get_alg rg (match dget (smember_headers m) s_alg with Some v => v | None => PNone end) = Ok r -> fam_of r <> FNone) ->
    sign_flattened_json json_dumps mac pk_sign ec_sign choose m payload rg src = Ok v ->
    exists o k okid,
      guess_key_sign choose src (smember_headers m) = Ok (k, okid) /\
      deserialize_json_rg json_loads mac pk_verify ec_verify v src' rg = Ok o /\
      jo_payload o = payload /\ jo_members o = [smember_member (smember_set_kid m okid)].
  Proof.
    intros KO PH BP NN H. unfold sign_flattened_json in H. bstep H as sg SM. inversion H; subst v. clear H.
    destruct (member_rt_gen _ _ _ _ _ _ KO PH NN SM) as (k & okid & sig & GK & SG & S2M & V).
    unfold deserialize_json_rg, extract_flattened_json, decode_payload. cbn [of_opt bind].
    subst sg. rewrite (b64_roundtrip payload BP). cbn [bind]. rewrite sig_of_signature. cbn [of_opt bind].
    rewrite S2M. cbn [bind].
    unfold verify_flattened_json. cbn [jo_members jo_sigs jo_pseg fst snd]. rewrite V. cbn [bind].
    eexists. exists k, okid. split; [exact GK|]. split; [reflexivity|]. auto.
  Qed.

  Theorem flat_rt_rg m payload k k' rg v :
    corresponds k k' -> (0 < ec_len k)%nat -> bytes_ok payload = true -> prot_hok m ->
    (forall r, get_alg rg (match dget (smember_headers m) s_alg with Some v => v | None => PNone end) = Ok r -> fam_of r <> FNone) ->
    sign_flattened_json json_dumps mac pk_sign ec_sign choose m payload rg (KOne k) = Ok v ->
    exists o, deserialize_json_rg json_loads mac pk_verify ec_verify v (KOne k') rg = Ok o /\
              jo_payload o = payload /\ jo_members o = [smember_member m].
  Proof.
    intros C HL BP PH NN H.
    destruct (flat_rt_gen m payload _ _ rg v (mkey_ok_one rg k k' m C HL) PH BP NN H) as (o & k0 & okid & G & D & P & Q).
    cbn [guess_key_sign] in G. inversion G; subst.
    assert (E : smember_set_kid m None = m) by (destruct m; reflexivity).
    rewrite E in Q. exists o. auto.
  Qed.

  (* ---------------- JSON: n members ---------------- *)
  (* the members as the verifier sees them: each with the kid its signer stored *)
  Lemma members_rt_gen payload src src' rg :
    forall ms sgs,
    (forall m, In m ms -> mkey_ok rg src src' m /\ prot_hok m /\ forall r,
        get_alg rg (match dget (smember_headers m) s_alg with Some v => v | None => PNone end) = Ok r -> fam_of r <> FNone) ->
    map_res (fun m => sign_member json_dumps mac pk_sign ec_sign choose (b64e payload) m rg src) ms = Ok sgs ->
    exists ms',
      Forall2 (fun m m' => exists k okid, guess_key_sign choose src (smember_headers m) = Ok (k, okid) /\
                                          m' = smember_member (smember_set_kid m okid)) ms ms' /\
      map_res (signature_to_member json_loads) sgs = Ok ms' /\
      verify_each mac pk_verify ec_verify ms' sgs (b64e payload) rg src' = Ok true /\
      length sgs = length ms.
  Proof.
    induction ms as [|m ms IH]; intros sgs NN H; cbn [map_res] in H.
    - inversion H. exists []. cbn. auto.
    - bstep H as sg SM. bstep H as t MT. inversion H; subst sgs. clear H.
      destruct (NN m (or_introl eq_refl)) as (KO & PH & NNm).
      destruct (member_rt_gen _ _ _ _ _ _ KO PH NNm SM) as (k & okid & sig & GK & SG & S2M & V).
      destruct (IH t (fun m' Hin => NN m' (or_intror Hin)) MT) as (ms' & F & A & B & L).
      exists (smember_member (smember_set_kid m okid) :: ms').
      split; [constructor; [eauto|exact F]|].
      cbn [map_res verify_each length]. rewrite S2M. cbn [bind]. rewrite A. cbn [bind].
      rewrite V. cbn [bind]. rewrite B. auto.
  Qed.

  Theorem general_rt_gen ms payload src src' rg v :
    bytes_ok payload = true -> ms <> [] ->
    (forall m, In m ms -> mkey_ok rg src src' m /\ prot_hok m /\ forall r,
        get_alg rg (match dget (smember_headers m) s_alg with Some v => v | None => PNone end) = Ok r -> fam_of r <> FNone) ->
    sign_general_json json_dumps mac pk_sign ec_sign choose ms payload rg src = Ok v ->
    exists o, deserialize_json_rg json_loads mac pk_verify ec_verify v src' rg = Ok o /\
              jo_payload o = payload /\
              Forall2 (fun m m' => exists k okid, guess_key_sign choose src (smember_headers m) = Ok (k, okid) /\
                                                  m' = smember_member (smember_set_kid m okid)) ms (jo_members o).
  Proof.
    intros BP NE NN H. unfold sign_general_json in H. bstep H as sgs SM. inversion H; subst v. clear H.
    destruct (members_rt_gen payload src src' rg ms sgs NN SM) as (ms' & F & A & B & L).
    unfold deserialize_json_rg, extract_general_json, decode_payload. cbn [of_opt bind].
    rewrite (b64_roundtrip payload BP). cbn [bind]. rewrite A. cbn [bind].
    unfold verify_general_json. cbn [jo_sigs jo_members jo_pseg fst snd].
    destruct sgs as [|sg sgs]; [destruct ms; [congruence|discriminate L]|].
    rewrite B. cbn [bind]. eexists. split; [reflexivity|]. auto.
  Qed.

  Theorem general_rt_rg ms payload k k' rg v :
    corresponds k k' -> (0 < ec_len k)%nat -> bytes_ok payload = true -> ms <> [] ->
    (forall m, In m ms -> prot_hok m /\ forall r,
        get_alg rg (match dget (smember_headers m) s_alg with Some v => v | None => PNone end) = Ok r -> fam_of r <> FNone) ->
    sign_general_json json_dumps mac pk_sign ec_sign choose ms payload rg (KOne k) = Ok v ->
    exists o, deserialize_json_rg json_loads mac pk_verify ec_verify v (KOne k') rg = Ok o /\
              jo_payload o = payload /\ jo_members o = map smember_member ms.
  Proof.
    intros C HL BP NE NN H.
    assert (NN' : forall m, In m ms -> mkey_ok rg (KOne k) (KOne k') m /\ prot_hok m /\ forall r,
        get_alg rg (match dget (smember_headers m) s_alg with Some v => v | None => PNone end) = Ok r -> fam_of r <> FNone).
    { intros m Hin. destruct (NN m Hin). split; [apply mkey_ok_one; assumption|auto]. }
    destruct (general_rt_gen ms payload (KOne k) (KOne k') rg v BP NE NN' H) as (o & D & P & F).
    exists o. split; [exact D|]. split; [exact P|].
    clear - F. induction F as [|m m' ms ms' (k0 & okid & G & ->) F IH]; [reflexivity|].
    cbn [guess_key_sign] in G. inversion G; subst.
    assert (E : smember_set_kid m None = m) by (destruct m; reflexivity).
    rewrite E. cbn [map]. f_equal; try exact IH.
  Qed.

  (* ---------------- rfc7797 flattened JSON, b64 = false ---------------- *)
  Lemma not_true_branch {A} (b : pv) (X Y : A) :
    b <> PBool true -> match b with PBool true => X | _ => Y end = Y.
  Proof. intro N. destruct b as [|[|]| | | | | |]; try reflexivity. congruence. Qed.

  Definition fam_kty_ok (r : jws_alg_row) : bool :=
    match fam_of r with
    | FHmac => String.eqb (ja_key_type r) "oct"
    | FRsa | FPss => String.eqb (ja_key_type r) "RSA"
    | FEc => String.eqb (ja_key_type r) "EC"
    | FEd => String.eqb (ja_key_type r) "OKP"
    | _ => true
    end.
  Lemma table_kty : forallb fam_kty_ok jws_alg_table = true.
  Proof. vm_compute. reflexivity. Qed.

  Lemma get_alg_in rg v r : get_alg rg v = Ok r -> In r jws_alg_table.
  Proof.
    unfold get_alg. destruct v; try discriminate. unfold find_alg.
    destruct (find (fun r0 => str_eqb (asc (ja_name r0)) s) jws_alg_table) eqn:F; [|discriminate].
    apply find_some in F. destruct F as [F _].
    match goal with |- (if ?c then _ else _) = _ -> _ => destruct c end; [|discriminate].
    intro H. inversion H; subst. exact F.
  Qed.

  (* the algorithm models refuse a key object of another class: where signing
     succeeds the key type is the one of the algorithm *)
  Lemma sign_ok_kty r k msg sig :
    In r jws_alg_table -> fam_of r <> FNone ->
    alg_sign mac pk_sign ec_sign r k msg = Ok sig -> k_kty k = ja_key_type r.
  Proof.
    intros IN NN. pose proof table_kty as T. rewrite forallb_forall in T. specialize (T r IN).
    unfold fam_kty_ok in T. unfold alg_sign. destruct (fam_of r) eqn:F; try congruence; try discriminate.
    - intro H. bstep H as u CK. unfold mistyped in H.
      destruct (String.eqb (k_kty k) "oct") eqn:E; [|discriminate].
      apply String.eqb_eq in E, T. congruence.
    - intro H. bstep H as u CK. unfold mistyped in H.
      destruct (String.eqb (k_kty k) "RSA") eqn:E; [|destruct (String.eqb (k_kty k) "oct"); discriminate].
      apply String.eqb_eq in E, T. congruence.
    - intro H. bstep H as u CK. unfold mistyped in H.
      destruct (String.eqb (k_kty k) "RSA") eqn:E; [|destruct (String.eqb (k_kty k) "oct"); discriminate].
      apply String.eqb_eq in E, T. congruence.
    - unfold mistyped.
      destruct (String.eqb (k_kty k) "EC") eqn:E; [|destruct (String.eqb (k_kty k) "OKP"); discriminate].
      intros _. apply String.eqb_eq in E, T. congruence.
    - intro H. bstep H as u CK. unfold mistyped in H.
      destruct (String.eqb (k_kty k) "OKP") eqn:E; [|discriminate].
      apply String.eqb_eq in E, T. congruence.
  Qed.

  Lemma fixed_check_same m okid sig :
    (match js_protected (sig_of (smember_set_kid m okid) sig) with Some _ => true | None => false end)
      && unprotected_b64 (js_header (sig_of (smember_set_kid m okid) sig))
    = (match sm_protected m with Some (_ :: _) => true | _ => false end)
      && (match sm_header m with Some ((_ :: _) as h) => dmem h s_b64 | _ => false end).
  Proof.
    unfold sig_of, smember_set_kid, unprotected_b64. cbn [js_protected js_header sm_protected sm_header].
    f_equal.
    - destruct (sm_protected m) as [[|]|]; reflexivity.
    - destruct okid as [id|].
      + assert (D : forall hd : list (str * pv), dmem (dset hd s_kid (PStr id)) s_b64 = dmem hd s_b64).
        { intro hd. apply dmem_dset_other. vm_compute. discriminate. }
        destruct (sm_header m) as [[|kv hd]|].
        * cbn. reflexivity.
        * specialize (D (kv :: hd)). destruct (dset (kv :: hd) s_kid (PStr id)) eqn:E.
          { destruct kv as [k0 v0]. cbn [dset] in E. destruct (str_eqb k0 s_kid); discriminate. }
          exact D.
        * cbn. reflexivity.
      + destruct (sm_header m) as [[|]|]; reflexivity.
  Qed.

  Theorem json97_rt_gen fixed m payload src src' algs v :
    mkey_ok (reg97 algs) src src' m -> prot_hok m ->
    (exists b, dget (smember_headers m) s_b64 = Some b /\ b <> PBool true) ->
    (forall okid, dget (smember_headers (smember_set_kid m okid)) s_b64 = dget (smember_headers m) s_b64) ->
    (forall r, get_alg (reg97 algs) (match dget (smember_headers m) s_alg with Some v => v | None => PNone end) = Ok r -> fam_of r <> FNone) ->
    serialize_json97 json_dumps mac pk_sign ec_sign choose fixed m payload src algs = Ok v ->
    exists o k okid,
      guess_key_sign choose src (smember_headers m) = Ok (k, okid) /\
      deserialize_json97 json_loads mac pk_verify ec_verify fixed v src' algs = Ok o /\
      jo_payload o = payload /\ jo_members o = [smember_member (smember_set_kid m okid)].
  Proof.
    intros KO PH (b & DB & NB) SB NN H. unfold serialize_json97 in H.
    bstep H as u0 FX. rewrite DB in H. rewrite (not_true_branch b _ _ NB) in H.
    bstep H as u CH. bstep H as kk GK. destruct kk as [k okid]. cbn [fst snd] in H.
    rewrite (unit_tt u) in CH.
    destruct (KO k okid CH GK) as (HL & CH' & GA' & k' & GKV & C).
    bstep H as u2 CU. bstep H as algv GA. bstep H as r GR. bstep H as sig AS.
    destruct (utf8_ok payload); [|discriminate].
    assert (NNr : fam_of r <> FNone).
    { apply NN. unfold py_getitem_str in GA. destruct (dget (smember_headers m) s_alg); inversion GA; subst; exact GR. }
    destruct (alg_rt r k k' _ _ C NNr HL AS) as [BS AV].
    pose proof (sign_ok_kty r k _ _ (get_alg_in _ _ _ GR) NNr AS) as KT.
    set (m' := smember_set_kid m okid) in *.
    assert (SG : v = JFlat (Some payload) (sig_of m' sig)).
    { inversion H. unfold sig_of, m', smember_set_kid. cbn [sm_protected sm_header]. f_equal. f_equal.
      unfold prot_hok in PH. destruct (sm_protected m) as [[|kv d]|]; try reflexivity.
      pose proof (enc_nonempty _ PH) as NE. destruct (json_b64encode json_dumps (kv :: d)); [congruence|reflexivity]. }
    destruct C as (Hid & Hty & Hcrv & Hbits & Huse & Hops).
    rewrite <- GA' in GA. rewrite (unit_tt u2) in CU.
    assert (CT : check_key_type r k' = Ok tt).
    { unfold check_key_type. rewrite Hty, KT, String.eqb_refl. reflexivity. }
    destruct (verify_side m' sig payload (reg97 algs) src' r k' algv) as [S2M V]; try assumption.
    { rewrite (check_use_corr k k' Huse). exact CU. }
    assert (FXC : (fixed && (match js_protected (sig_of m' sig) with Some _ => true | None => false end)
                         && unprotected_b64 (js_header (sig_of m' sig))) = false).
    { rewrite <- andb_assoc. unfold m'. rewrite fixed_check_same.
      rewrite andb_assoc. destruct (fixed && _ && _); [discriminate FX|reflexivity]. }
    assert (DB' : dget (smember_headers m') s_b64 = Some b) by (unfold m'; rewrite SB; exact DB).
    exists {| jo_flat := true; jo_members := [smember_member m']; jo_payload := payload;
              jo_sigs := [sig_of m' sig]; jo_pseg := payload |}, k, okid.
    split; [exact GK|]. split; [|auto].
    rewrite SG. unfold deserialize_json97, extract_json97. rewrite S2M. cbn [bind].
    rewrite FXC. unfold ok. cbn [bind]. rewrite smember_headers_eq. cbn [bind].
    unfold dmem. rewrite DB'. cbn [negb of_opt bind]. rewrite sig_of_signature. cbn [of_opt bind jo_members jo_sigs jo_pseg].
    rewrite smember_headers_eq. cbn [bind]. unfold py_getitem_str at 1. rewrite DB'. cbn [bind].
    rewrite (not_true_branch b _ _ NB). rewrite V. cbn [bind]. reflexivity.
  Qed.

  (* ---------------- key sets ---------------- *)
  (* the verifier's set holds the public forms of the signer's keys, under the same kids *)
  Definition corresponds_kid (k k' : key) : Prop := corresponds k k' /\ k_kid k' = k_kid k.

  Lemma pick_candidates_incl ks alg k : In k (pick_candidates ks alg) -> In k ks.
  Proof.
    unfold pick_candidates. destruct alg; auto.
    destruct (find _ keyset_algorithm_keys) as [[n [|a l]]|]; auto.
    intro H. apply filter_In in H. tauto.
  Qed.

  Lemma find_corresponding ks ks' k id :
    Forall2 corresponds_kid ks ks' -> NoDup (map k_kid ks) -> In k ks -> k_kid k = Some id ->
    exists k', find (fun x => kid_matches x (PStr id)) ks' = Some k' /\ corresponds k k'.
  Proof.
    intros F. induction F as [|a a' l l' [C KK] F IH]; intros ND IN KI; [contradiction|].
    cbn [map] in ND. inversion ND as [|? ? NI ND']; subst. cbn [find].
    destruct IN as [->|IN].
    - exists a'. unfold kid_matches. rewrite KK, KI, str_eqb_refl. auto.
    - assert (NE : k_kid a <> Some id).
      { intro E. apply NI. rewrite E, <- KI. apply in_map. exact IN. }
      unfold kid_matches at 1. rewrite KK.
      destruct (k_kid a) as [t|] eqn:KA.
      + destruct (str_eqb id t) eqn:E; [apply str_eqb_eq in E; congruence|].
        apply IH; assumption.
      + apply IH; assumption.
  Qed.

  Lemma keyset_resolve ks ks' h k okid :
    (forall l x, choose l = Some x -> In x l) ->
    Forall2 corresponds_kid ks ks' -> NoDup (map k_kid ks) -> dget h s_kid = None ->
    guess_key_sign choose (KSet ks) h = Ok (k, okid) ->
    In k ks /\ exists id k', okid = Some id /\ k_kid k = Some id /\
      find (fun x => kid_matches x (PStr id)) ks' = Some k' /\ corresponds k k'.
  Proof.
    intros CI F ND NK G. unfold guess_key_sign in G. rewrite NK in G. cbn [py_truth negb] in G.
    bstep G as alg GA. destruct (choose (pick_candidates ks alg)) as [k0|] eqn:CH; [|discriminate].
    destruct (k_kid k0) as [id|] eqn:KK; [|discriminate]. inversion G; subst k0 okid.
    assert (IN : In k ks) by (eapply pick_candidates_incl, CI; exact CH).
    split; [exact IN|]. destruct (find_corresponding ks ks' k id F ND IN KK) as (k' & FD & C).
    exists id, k'. auto.
  Qed.

  (* signing with a key set (given directly or RETURNED BY A CALLABLE: a callable key source
     is its result, and guess_key is applied to it with the same use_random = True) and no
     kid in the header: a key of the set is picked and its kid is stored *)
  Lemma guess_key_sign_set_random ks h k okid :
    (forall l x, choose l = Some x -> In x l) -> dget h s_kid = None ->
    guess_key_sign choose (KSet ks) h = Ok (k, okid) ->
    In k ks /\ exists id, okid = Some id /\ k_kid k = Some id.
  Proof.
    intros CI NK G. unfold guess_key_sign in G. rewrite NK in G. cbn [py_truth negb] in G.
    bstep G as alg GA. destruct (choose (pick_candidates ks alg)) as [k0|] eqn:CH; [|discriminate].
    destruct (k_kid k0) as [id|] eqn:KK; [|discriminate]. inversion G; subst k0 okid.
    split; [eapply pick_candidates_incl, CI; exact CH|]. eauto.
  Qed.

  (* ... and it never fails with InvalidKeyIdError: with a candidate of the right type it succeeds *)
  Lemma guess_key_sign_set_succeeds ks h alg k id :
    dget h s_kid = None -> py_getitem_str (PDict h) s_alg = Ok alg ->
    choose (pick_candidates ks alg) = Some k -> k_kid k = Some id ->
    guess_key_sign choose (KSet ks) h = Ok (k, Some id).
  Proof.
    intros NK GA CH KK. unfold guess_key_sign. rewrite NK. cbn [py_truth negb]. rewrite GA. cbn [bind].
    rewrite CH, KK. reflexivity.
  Qed.

  Lemma key_ok_set rg ks ks' h :
    (forall l x, choose l = Some x -> In x l) ->
    Forall2 corresponds_kid ks ks' -> NoDup (map k_kid ks) ->
    (forall k, In k ks -> (0 < ec_len k)%nat) ->
    dget h s_kid = None -> (forall id, hok (dset h s_kid (PStr id)) = true) ->
    key_ok rg (KSet ks) (KSet ks') h.
  Proof.
    intros CI F ND HL NK OK k okid CH G.
    destruct (keyset_resolve ks ks' h k okid CI F ND NK G) as (IN & id & k' & -> & KK & FD & C).
    cbn [set_kid]. split; [apply HL; exact IN|]. split; [apply OK|].
    split; [apply check_header_set_kid; assumption|].
    split.
    { cbn [py_getitem_str]. rewrite dget_dset_other by (vm_compute; discriminate). reflexivity. }
    exists k'. split; [|exact C].
    cbn [guess_key hdr_get py_get_str]. rewrite dget_dset_same. cbn [bind get_by_kid]. rewrite FD. reflexivity.
  Qed.

  (* JSON members: the kid goes to the unprotected header *)
  Lemma dupdate_dset_fresh id : forall (hd a0 : list (str * pv)),
    dget (dupdate a0 hd) s_kid = None ->
    dupdate a0 (dset hd s_kid (PStr id)) = dset (dupdate a0 hd) s_kid (PStr id) /\
    dset hd s_kid (PStr id) <> [].
  Proof.
    unfold dupdate. induction hd as [|[k0 v0] hd IH]; intros a0 N0.
    - cbn. split; [reflexivity|discriminate].
    - cbn [fold_left fst snd] in N0. cbn [dset].
      destruct (str_eqb k0 s_kid) eqn:E.
      + exfalso. apply str_eqb_eq in E. subst k0.
        assert (X : dmem (fold_left (fun acc kv => dset acc (fst kv) (snd kv)) hd (dset a0 s_kid v0)) s_kid = true).
        { pose proof (dmem_dupdate hd (dset a0 s_kid v0) s_kid) as D. unfold dupdate in D. rewrite D.
          unfold dmem at 1. rewrite dget_dset_same. reflexivity. }
        unfold dmem in X. rewrite N0 in X. discriminate.
      + cbn [fold_left fst snd]. split; [apply IH; exact N0|discriminate].
  Qed.

  Lemma smember_headers_set_kid m id :
    dget (smember_headers m) s_kid = None ->
    smember_headers (smember_set_kid m (Some id)) = dset (smember_headers m) s_kid (PStr id).
  Proof.
    unfold smember_headers, smember_set_kid. cbn [sm_protected sm_header].
    set (a := match sm_protected m with Some d => d | None => [] end).
    intro NK.
    destruct (sm_header m) as [[|kv hd]|].
    - cbn. reflexivity.
    - destruct (dupdate_dset_fresh id (kv :: hd) a NK) as [G1 G2].
      destruct (dset (kv :: hd) s_kid (PStr id)) eqn:E; [congruence|]. exact G1.
    - cbn. reflexivity.
  Qed.

  Lemma mkey_ok_set rg ks ks' m :
    (forall l x, choose l = Some x -> In x l) ->
    Forall2 corresponds_kid ks ks' -> NoDup (map k_kid ks) ->
    (forall k, In k ks -> (0 < ec_len k)%nat) ->
    dget (smember_headers m) s_kid = None ->
    mkey_ok rg (KSet ks) (KSet ks') m.
  Proof.
    intros CI F ND HL NK k okid CH G.
    destruct (keyset_resolve ks ks' _ k okid CI F ND NK G) as (IN & id & k' & -> & KK & FD & C).
    rewrite (smember_headers_set_kid m id NK).
    split; [apply HL; exact IN|]. split; [apply check_header_set_kid; assumption|].
    split.
    { cbn [py_getitem_str]. rewrite dget_dset_other by (vm_compute; discriminate). reflexivity. }
    exists k'. split; [|exact C].
    cbn [guess_key hdr_get py_get_str]. rewrite dget_dset_same. cbn [bind get_by_kid]. rewrite FD. reflexivity.
  Qed.

  (* compact round trip with key sets on both sides *)
  Theorem compact_rt_keyset h payload ks ks' rg tok :
    (forall l x, choose l = Some x -> In x l) ->
    Forall2 corresponds_kid ks ks' -> NoDup (map k_kid ks) ->
    (forall k, In k ks -> (0 < ec_len k)%nat) ->
    dget h s_kid = None -> (forall id, hok (dset h s_kid (PStr id)) = true) ->
    bytes_ok payload = true ->
    (forall r, get_alg rg (match dget h s_alg with Some v => v | None => PNone end) = Ok r -> fam_of r <> FNone) ->
    serialize_compact_rg json_dumps mac pk_sign ec_sign choose h payload (KSet ks) rg = Ok tok ->
    exists o k id,
      In k ks /\ k_kid k = Some id /\
      deserialize_compact_rg json_loads mac pk_verify ec_verify tok (KSet ks') rg = Ok o /\
      co_payload o = payload /\ co_protected o = PDict (dset h s_kid (PStr id)).
  Proof.
    intros CI F ND HL NK OK BP NN H.
    destruct (compact_rt_gen h payload _ _ rg tok (key_ok_set rg ks ks' h CI F ND HL NK OK) BP NN H)
      as (o & k & okid & G & D & P & Q).
    destruct (keyset_resolve ks ks' h k okid CI F ND NK G) as (IN & id & k' & -> & KK & _).
    exists o, k, id. auto.
  Qed.

  (* ---------------- detached content ---------------- *)
  Theorem detach_compact_segments h p s :
    no_dot h = true -> no_dot p = true -> no_dot s = true ->
    detach_compact (h ++ 46 :: p ++ 46 :: s) = Ok (h ++ 46 :: 46 :: s).
  Proof.
    intros A B C. unfold detach_compact. rewrite split3 by assumption. reflexivity.
  Qed.

  (* segment-wise, for EVERY token that splits into three segments: the result splits
     into the same header segment, the empty segment and the same signature segment *)
  Theorem detach_compact_split tok h p s :
    split_dot tok = [h; p; s] ->
    exists d, detach_compact tok = Ok d /\ split_dot d = [h; []; s] /\ d = h ++ 46 :: 46 :: s.
  Proof.
    intro S. unfold detach_compact. rewrite S. destruct (split3_inv _ _ _ _ S) as (_ & A & _ & C).
    eexists. split; [reflexivity|]. cbn [join_dot]. split; [|reflexivity].
    change (h ++ 46 :: [] ++ 46 :: s) with (h ++ 46 :: ([] : list N) ++ 46 :: s).
    apply split3; auto.
  Qed.

  (* a token with fewer than two dots has no payload segment to detach *)
  Theorem detach_compact_needs_two tok : (length (split_dot tok) < 2)%nat -> detach_compact tok = Err EIndex.
  Proof.
    unfold detach_compact. destruct (split_dot tok) as [|a [|b r]]; cbn; intro H; try reflexivity; lia.
  Qed.

  Theorem detach_json_untouched v :
    match v, detach_json v with
    | JFlat _ sg, JFlat p' sg' => p' = None /\ sg' = sg
    | JGen _ sgs, JGen p' sgs' => p' = None /\ sgs' = sgs
    | _, _ => False
    end.
  Proof. destruct v; cbn; auto. Qed.
End C03.
