(* C12Proofs.v — lemmas about the export model of model/C12Keys.v. *)
From Coq Require Import Lia.
From Model Require Import Base PyVal TableTypes C12Keys.
From Gen Require Import Tables.
Open Scope N_scope.

(* ------------------------------------------------------------------ *)
(* small facts about strings and association lists                      *)
(* ------------------------------------------------------------------ *)
Lemma str_eqb_sym a b : str_eqb a b = str_eqb b a.
Proof.
  destruct (str_eqb a b) eqn:E.
  - apply str_eqb_eq in E. subst. symmetry. apply str_eqb_refl.
  - symmetry. apply str_eqb_neq. apply str_eqb_neq in E. congruence.
Qed.

Lemma str_mem_false_not_In k l : str_mem k l = false <-> ~ In k l.
Proof.
  rewrite <- str_mem_In. destruct (str_mem k l); split; intro H; congruence.
Qed.

Lemma ddel_filter {A} (d : list (str * A)) k :
  ddel d k = filter (fun kv => negb (str_eqb (fst kv) k)) d.
Proof.
  induction d as [|[k' v] d IH]; simpl; [reflexivity|].
  destruct (str_eqb k' k); simpl; rewrite IH; reflexivity.
Qed.

Lemma filter_filter {A} (f g : A -> bool) l :
  filter f (filter g l) = filter (fun x => g x && f x) l.
Proof.
  induction l as [|x l IH]; simpl; [reflexivity|].
  destruct (g x); simpl; [destruct (f x); rewrite IH; reflexivity | exact IH].
Qed.

Lemma dget_filter_keep {A} (P : str -> bool) (d : list (str * A)) m :
  P m = true -> dget (filter (fun kv => P (fst kv)) d) m = dget d m.
Proof.
  intro HP. induction d as [|[k v] d IH]; simpl; [reflexivity|].
  destruct (P k) eqn:Ek; simpl.
  - destruct (str_eqb k m); [reflexivity | exact IH].
  - destruct (str_eqb k m) eqn:E; [|exact IH].
    apply str_eqb_eq in E. subst. congruence.
Qed.

Lemma dget_filter_drop {A} (P : str -> bool) (d : list (str * A)) m :
  P m = false -> dget (filter (fun kv => P (fst kv)) d) m = None.
Proof.
  intro HP. induction d as [|[k v] d IH]; simpl; [reflexivity|].
  destruct (P k) eqn:Ek; simpl; [|exact IH].
  destruct (str_eqb k m) eqn:E; [|exact IH].
  apply str_eqb_eq in E. subst. congruence.
Qed.

Lemma dget_Some_In {A} (d : list (str * A)) m v : dget d m = Some v -> In (m, v) d.
Proof.
  induction d as [|[k w] d IH]; simpl; [discriminate|].
  destruct (str_eqb k m) eqn:E.
  - apply str_eqb_eq in E. intros [= ->]. subst. left. reflexivity.
  - intro H. right. exact (IH H).
Qed.

Lemma dget_None_not_In {A} (d : list (str * A)) m : dget d m = None <-> ~ In m (dkeys d).
Proof.
  induction d as [|[k w] d IH]; simpl.
  - tauto.
  - destruct (str_eqb k m) eqn:E.
    + apply str_eqb_eq in E. subst. split; [discriminate | tauto].
    + apply str_eqb_neq in E. rewrite IH. tauto.
Qed.

Lemma dmem_In {A} (d : list (str * A)) m : dmem d m = true <-> In m (dkeys d).
Proof.
  unfold dmem. destruct (dget d m) eqn:E.
  - split; [intros _ | reflexivity].
    apply dget_Some_In in E. apply (in_map fst) in E. exact E.
  - split; [discriminate|]. intro H. apply dget_None_not_In in E. contradiction.
Qed.

Lemma dkeys_dset {A} (d : list (str * A)) k v m :
  In m (dkeys (dset d k v)) <-> In m (dkeys d) \/ m = k.
Proof.
  induction d as [|[k' v'] d IH]; simpl.
  - split; [intros [E|[]]; right; congruence | intros [[]|E]; left; congruence].
  - destruct (str_eqb k' k) eqn:E; simpl.
    + apply str_eqb_eq in E. subst. split; [tauto|]. intros [H|H]; [tauto | left; congruence].
    + rewrite IH. tauto.
Qed.

Lemma dupdate_snoc {A} (d e : list (str * A)) k v :
  dupdate d (e ++ [(k, v)]) = dset (dupdate d e) k v.
Proof. unfold dupdate. rewrite fold_left_app. reflexivity. Qed.

Lemma dkeys_dupdate {A} (e d : list (str * A)) m :
  In m (dkeys (dupdate d e)) <-> In m (dkeys d) \/ In m (dkeys e).
Proof.
  induction e as [|[k v] e IH] using rev_ind.
  - simpl. tauto.
  - rewrite dupdate_snoc, dkeys_dset, IH. unfold dkeys. rewrite map_app, in_app_iff. simpl.
    split; intro H; repeat destruct H as [H|H]; subst; auto.
    contradiction.
Qed.

(* d.update(e): the last binding of m in e wins, otherwise d's binding stays *)
Lemma dget_dupdate {A} (e d : list (str * A)) m :
  dget (dupdate d e) m = match dget (rev e) m with Some v => Some v | None => dget d m end.
Proof.
  induction e as [|[k v] e IH] using rev_ind.
  - reflexivity.
  - rewrite dupdate_snoc, rev_app_distr. simpl.
    destruct (str_eqb k m) eqn:E.
    + apply str_eqb_eq in E. subst. apply dget_dset_same.
    + apply str_eqb_neq in E. rewrite dget_dset_other by exact E. exact IH.
Qed.

Lemma dget_rev_In {A} (e : list (str * A)) m v : dget (rev e) m = Some v -> In (m, v) e.
Proof. intro H. apply dget_Some_In in H. apply in_rev. exact H. Qed.

(* ------------------------------------------------------------------ *)
(* the filter loop of BaseKey.as_dict                                   *)
(* ------------------------------------------------------------------ *)
Lemma strip_fold reg ks (data : kd) :
  fold_left (fun data k => if member_private reg k then ddel data k else data) ks data
  = filter (fun kv => negb (member_private reg (fst kv) && str_mem (fst kv) ks)) data.
Proof.
  revert data. induction ks as [|k ks IH]; intro data; simpl.
  - rewrite <- (filter_ext (fun _ => true)).
    + induction data as [|x data IHd]; simpl; [reflexivity | rewrite <- IHd at 1; reflexivity].
    + intro a. rewrite andb_false_r. reflexivity.
  - rewrite IH. destruct (member_private reg k) eqn:Ek.
    + rewrite ddel_filter, filter_filter. apply filter_ext. intros [k' v]. simpl.
      rewrite (str_eqb_sym k k').
      destruct (str_eqb k' k) eqn:E; simpl.
      * apply str_eqb_eq in E. subst. rewrite Ek. reflexivity.
      * reflexivity.
    + apply filter_ext. intros [k' v]. simpl.
      destruct (str_eqb k k') eqn:E; simpl; [|reflexivity].
      apply str_eqb_eq in E. subst. rewrite Ek. reflexivity.
Qed.

Lemma strip_private_is_pub_view reg d : strip_private reg d = pub_view reg d.
Proof.
  unfold strip_private, pub_view. rewrite strip_fold.
  apply filter_ext_in. intros [k v] Hin. simpl.
  assert (str_mem k (dkeys d) = true) as ->.
  { apply str_mem_In. apply (in_map fst) in Hin. exact Hin. }
  rewrite andb_true_r. reflexivity.
Qed.

(* private=False: the export is a function of the public view and params *)
Lemma as_dict_false reg ip d params :
  as_dict reg ip d (PBool false) params = Ok (dupdate (pub_view reg d) params).
Proof. unfold as_dict. simpl. rewrite strip_private_is_pub_view. reflexivity. Qed.

Lemma pub_view_keys reg d m : In m (dkeys (pub_view reg d)) -> member_private reg m = false.
Proof.
  unfold pub_view, dkeys. intro H. apply in_map_iff in H. destruct H as [[k v] [E H]].
  simpl in E. subst. apply filter_In in H. destruct H as [_ H]. simpl in H.
  destruct (member_private reg m); [discriminate | reflexivity].
Qed.

Lemma pub_view_get_public reg d m :
  member_private reg m = false -> dget (pub_view reg d) m = dget d m.
Proof.
  intro H. unfold pub_view.
  apply (dget_filter_keep (fun k => negb (member_private reg k))). rewrite H. reflexivity.
Qed.

Lemma pub_view_get_private reg d m :
  member_private reg m = true -> dget (pub_view reg d) m = None.
Proof.
  intro H. unfold pub_view.
  apply (dget_filter_drop (fun k => negb (member_private reg k))). rewrite H. reflexivity.
Qed.

Lemma pub_view_idem reg d : pub_view reg (pub_view reg d) = pub_view reg d.
Proof.
  unfold pub_view. rewrite filter_filter. apply filter_ext. intro a. apply andb_diag.
Qed.

Lemma pub_view_dset reg d k v :
  member_private reg k = false -> pub_view reg (dset d k v) = dset (pub_view reg d) k v.
Proof.
  intro Hk. induction d as [|[k' v'] d IH]; simpl.
  - rewrite Hk. reflexivity.
  - destruct (str_eqb k' k) eqn:E; simpl.
    + apply str_eqb_eq in E. subst. rewrite Hk. simpl. rewrite str_eqb_refl. reflexivity.
    + destruct (member_private reg k'); simpl; [exact IH | rewrite E, IH; reflexivity].
Qed.

(* as_dict(private=False): every member is non-private or one of the caller's params *)
Lemma as_dict_false_members reg ip d params out m :
  as_dict reg ip d (PBool false) params = Ok out ->
  In m (dkeys out) -> member_private reg m = false \/ In m (dkeys params).
Proof.
  rewrite as_dict_false. intros [= <-] H. apply dkeys_dupdate in H.
  destruct H as [H|H]; [left; exact (pub_view_keys _ _ _ H) | right; exact H].
Qed.

Lemma as_dict_false_values reg ip d params out m :
  as_dict reg ip d (PBool false) params = Ok out ->
  (forall v, dget (rev params) m = Some v -> dget out m = Some v) /\
  (dget (rev params) m = None ->
     dget out m = if member_private reg m then None else dget d m).
Proof.
  rewrite as_dict_false. intros [= <-]. rewrite dget_dupdate. split.
  - intros v ->. reflexivity.
  - intros ->. destruct (member_private reg m) eqn:E;
      [apply pub_view_get_private | apply pub_view_get_public]; exact E.
Qed.

(* ------------------------------------------------------------------ *)
(* registry facts                                                       *)
(* ------------------------------------------------------------------ *)
Lemma private_names_sub reg m :
  str_mem m (private_names reg) = true -> str_mem m (reg_names reg) = true.
Proof.
  unfold private_names, reg_names. induction reg as [|p r IH]; simpl; [auto|].
  destruct (flag_truth (kp_private p)); simpl.
  - destruct (str_eqb (pname p) m); simpl; [reflexivity | exact IH].
  - intro H. rewrite (IH H). apply orb_true_r.
Qed.

Lemma member_private_names reg m :
  keys_unique (reg_names reg) = true ->
  member_private reg m = str_mem m (private_names reg).
Proof.
  unfold member_private, private_names, reg_names.
  induction reg as [|p r IH]; simpl; [reflexivity|].
  intro U. apply andb_true_iff in U. destruct U as [U1 U2].
  destruct (str_eqb (pname p) m) eqn:E.
  - apply str_eqb_eq in E. subst m.
    destruct (flag_truth (kp_private p)); simpl.
    + rewrite str_eqb_refl. reflexivity.
    + symmetry. destruct (str_mem (pname p) (map pname (filter _ r))) eqn:M; [|reflexivity].
      apply private_names_sub in M. unfold reg_names in M. rewrite M in U1. discriminate.
  - rewrite (IH U2). destruct (flag_truth (kp_private p)); simpl; [rewrite E|]; reflexivity.
Qed.

Lemma registries_unique k : keys_unique (reg_names (value_registry k)) = true.
Proof. destruct k; vm_compute; reflexivity. Qed.

Lemma private_names_are_spec k : private_names (value_registry k) = spec_private k.
Proof. destruct k; vm_compute; reflexivity. Qed.

Lemma member_private_spec k m :
  member_private (value_registry k) m = str_mem m (spec_private k).
Proof.
  rewrite member_private_names by apply registries_unique.
  rewrite private_names_are_spec. reflexivity.
Qed.

Lemma kid_kty_epk_not_private k :
  member_private (value_registry k) s_kid = false /\
  member_private (value_registry k) s_kty = false.
Proof. destruct k; vm_compute; split; reflexivity. Qed.

(* ------------------------------------------------------------------ *)
(* thumbprint field selection                                           *)
(* ------------------------------------------------------------------ *)
Lemma insert_sorted_In k l m : In m (insert_sorted k l) <-> m = k \/ In m l.
Proof.
  induction l as [|x l IH]; simpl.
  - split; [intros [E|[]]; left; congruence | intros [E|[]]; left; congruence].
  - destruct (str_ltb k x); simpl.
    + split; intro H; repeat destruct H as [H|H]; subst; auto.
    + rewrite IH. split; intro H; repeat destruct H as [H|H]; subst; auto.
Qed.

Lemma sort_str_In l m : In m (sort_str l) <-> In m l.
Proof.
  induction l as [|x l IH]; simpl; [tauto|].
  rewrite insert_sorted_In, IH. split; intros [H|H]; subst; auto.
Qed.

Lemma restrict_to_keys d fields : forall acc out m,
  restrict_to d fields acc = Ok out ->
  In m (dkeys out) -> In m (dkeys acc) \/ In m fields.
Proof.
  induction fields as [|k r IH]; simpl; intros acc out m.
  - intros [= <-] H. left. exact H.
  - destruct (dget d k) as [v|]; [|discriminate].
    intros E H. destruct (IH _ _ _ E H) as [H1|H1].
    + apply dkeys_dset in H1. destruct H1 as [H1|H1]; [left; exact H1 | right; left; congruence].
    + right. right. exact H1.
Qed.

Lemma restrict_to_values d fields : forall acc out m v,
  restrict_to d fields acc = Ok out -> dget out m = Some v ->
  dget acc m = Some v \/ dget d m = Some v.
Proof.
  induction fields as [|k r IH]; simpl; intros acc out m v.
  - intros [= <-] H. left. exact H.
  - destruct (dget d k) as [w|] eqn:Ek; [|discriminate].
    intros E H. destruct (IH _ _ _ _ E H) as [H1|H1]; [|right; exact H1].
    destruct (str_eqb k m) eqn:Ekm.
    + apply str_eqb_eq in Ekm. subst. rewrite dget_dset_same in H1. right. congruence.
    + apply str_eqb_neq in Ekm. rewrite dget_dset_other in H1 by exact Ekm. left. exact H1.
Qed.

Lemma restrict_to_ext d1 d2 fields : forall acc,
  (forall m, In m fields -> dget d1 m = dget d2 m) ->
  restrict_to d1 fields acc = restrict_to d2 fields acc.
Proof.
  induction fields as [|k r IH]; simpl; intros acc H; [reflexivity|].
  rewrite <- (H k) by (left; reflexivity).
  destruct (dget d1 k); [|reflexivity]. apply IH. intros m Hm. apply H. right. exact Hm.
Qed.

Definition fields_public (reg : list kparam) : bool :=
  forallb (fun m => negb (member_private reg m)) (thumb_fields reg).

Lemma fields_public_In reg m :
  fields_public reg = true -> In m (sort_str (thumb_fields reg)) -> member_private reg m = false.
Proof.
  unfold fields_public. intros F H. apply (proj1 (sort_str_In _ _)) in H.
  rewrite forallb_forall in F. specialize (F m H).
  destruct (member_private reg m); [discriminate | reflexivity].
Qed.

Lemma thumb_input_members reg d out m :
  thumb_input reg d = Ok out -> In m (dkeys out) -> In m (thumb_fields reg).
Proof.
  unfold thumb_input. intros E H. destruct (restrict_to_keys _ _ _ _ _ E H) as [[]|H1].
  apply sort_str_In. exact H1.
Qed.

Lemma thumb_input_pub_view reg d :
  fields_public reg = true -> thumb_input reg d = thumb_input reg (pub_view reg d).
Proof.
  intro F. unfold thumb_input. apply restrict_to_ext. intros m Hm.
  symmetry. apply pub_view_get_public. exact (fields_public_In _ _ F Hm).
Qed.

Lemma thumb_input_ni reg d1 d2 :
  fields_public reg = true -> pub_view reg d1 = pub_view reg d2 ->
  thumb_input reg d1 = thumb_input reg d2.
Proof.
  intros F E. rewrite (thumb_input_pub_view reg d1 F), (thumb_input_pub_view reg d2 F), E.
  reflexivity.
Qed.

Lemma asymmetric_fields_public k : k <> KOct -> fields_public (value_registry k) = true.
Proof. destruct k; [congruence | | |]; intros _; vm_compute; reflexivity. Qed.

(* ------------------------------------------------------------------ *)
(* ensure_kid / KeySet.as_dict                                          *)
(* ------------------------------------------------------------------ *)
Section WithDigest.
  Variable H : kd -> str.

  Lemma ensure_kid_cases reg d d' :
    ensure_kid H reg d = Ok d' ->
    (dmem d s_kid = true /\ d' = d) \/
    (dmem d s_kid = false /\ exists i, thumb_input reg d = Ok i /\ d' = dset d s_kid (PStr (H i))).
  Proof.
    unfold ensure_kid, thumbprint. destruct (dmem d s_kid); [intros [= <-]; left; auto|].
    destruct (thumb_input reg d) as [i|e]; simpl; [|discriminate].
    intros [= <-]. right. split; [reflexivity|]. exists i. auto.
  Qed.

  Lemma ensure_kid_other reg d d' m :
    ensure_kid H reg d = Ok d' -> m <> s_kid -> dget d' m = dget d m.
  Proof.
    intros E N. apply ensure_kid_cases in E.
    destruct E as [[_ ->]|[_ [i [_ ->]]]]; [reflexivity|].
    apply dget_dset_other. congruence.
  Qed.

  (* the public view after ensure_kid only depends on the public view before,
     whenever the thumbprint fields are public or the kid is already there *)
  Lemma ensure_kid_ni reg d1 d2 :
    member_private reg s_kid = false ->
    (fields_public reg = true \/ dmem d1 s_kid = true) ->
    pub_view reg d1 = pub_view reg d2 ->
    match ensure_kid H reg d1, ensure_kid H reg d2 with
    | Ok a, Ok b => pub_view reg a = pub_view reg b
    | Err e, Err f => e = f
    | _, _ => False
    end.
  Proof.
    intros K C E.
    assert (dmem d1 s_kid = dmem d2 s_kid) as M.
    { unfold dmem. rewrite <- (pub_view_get_public reg d1 s_kid K),
        <- (pub_view_get_public reg d2 s_kid K), E. reflexivity. }
    unfold ensure_kid, thumbprint. rewrite <- M.
    destruct (dmem d1 s_kid) eqn:D; [exact E|].
    destruct C as [F|C]; [|discriminate].
    rewrite (thumb_input_ni reg d1 d2 F E).
    destruct (thumb_input reg d2) as [i|e]; simpl; [|reflexivity].
    rewrite !pub_view_dset by exact K. rewrite E. reflexivity.
  Qed.

  Definition elem_public (k : key) (o : kd) : Prop :=
    (forall m, In m (dkeys o) -> member_private (kreg k) m = false) /\
    (forall m, member_private (kreg k) m = true -> dget o m = None) /\
    (forall m, member_private (kreg k) m = false -> m <> s_kid -> dget o m = dget (k_dict k) m) /\
    (dmem (k_dict k) s_kid = true -> dget o s_kid = dget (k_dict k) s_kid).

  Lemma keyset_public ks : forall out,
    keyset_as_dict H ks (PBool false) [] = Ok out -> Forall2 elem_public ks out.
  Proof.
    induction ks as [|k r IH]; cbn [keyset_as_dict bind]; intros out.
    - intros [= <-]. constructor.
    - destruct (ensure_kid H (kreg k) (k_dict k)) as [d1|] eqn:E1; cbn [bind]; [|discriminate].
      rewrite as_dict_false. cbn [bind dupdate fold_left].
      destruct (keyset_as_dict H r (PBool false) []) as [os|] eqn:E2; cbn [bind]; [|discriminate].
      intros [= <-]. constructor; [|apply IH; reflexivity].
      repeat split.
      + intros m Hm. exact (pub_view_keys _ _ _ Hm).
      + intros m Hm. apply pub_view_get_private. exact Hm.
      + intros m Hm N. rewrite pub_view_get_public by exact Hm.
        exact (ensure_kid_other _ _ _ _ E1 N).
      + intro D. apply ensure_kid_cases in E1.
        destruct E1 as [[_ ->]|[D' _]]; [|congruence].
        apply pub_view_get_public. destruct (k_kind k) eqn:Ek; unfold kreg; rewrite Ek;
          vm_compute; reflexivity.
  Qed.

  Definition key_pub_equiv (a b : key) : Prop :=
    k_kind a = k_kind b /\
    pub_view (kreg a) (k_dict a) = pub_view (kreg b) (k_dict b) /\
    (k_kind a = KOct -> dmem (k_dict a) s_kid = true).

  Lemma keyset_ni ks1 : forall ks2 params,
    Forall2 key_pub_equiv ks1 ks2 ->
    keyset_as_dict H ks1 (PBool false) params = keyset_as_dict H ks2 (PBool false) params.
  Proof.
    induction ks1 as [|a r IH]; intros ks2 params F; inversion F as [|? b ? r2 [Ek [Ev Eo]] F']; subst.
    - reflexivity.
    - cbn [keyset_as_dict]. assert (kreg a = kreg b) as R by (unfold kreg; rewrite Ek; reflexivity).
      rewrite <- R in *.
      assert (member_private (kreg a) s_kid = false) as K
        by (unfold kreg; apply kid_kty_epk_not_private).
      assert (fields_public (kreg a) = true \/ dmem (k_dict a) s_kid = true) as C.
      { destruct (k_kind a) eqn:Ka; [right; apply Eo; reflexivity | left ..];
          unfold kreg; rewrite Ka; vm_compute; reflexivity. }
      pose proof (ensure_kid_ni (kreg a) (k_dict a) (k_dict b) K C Ev) as N.
      destruct (ensure_kid H (kreg a) (k_dict a)) as [x|e];
        destruct (ensure_kid H (kreg a) (k_dict b)) as [y|f]; cbn [bind]; try contradiction.
      + rewrite !as_dict_false, N. cbn [bind]. rewrite (IH r2 params F'). reflexivity.
      + congruence.
  Qed.
End WithDigest.

(* ------------------------------------------------------------------ *)
(* prepare_ephemeral_key                                                *)
(* ------------------------------------------------------------------ *)
Lemma epk_public gen rk eph g hdr e hdr' :
  prepare_ephemeral_key gen rk eph g hdr = Ok (e, hdr') ->
  e = ephemeral_in_use gen rk eph g /\
  dget hdr' s_epk = Some (PDict (pub_view (kreg e) (k_dict e))) /\
  (forall m, m <> s_epk -> dget hdr' m = dget hdr m).
Proof.
  unfold prepare_ephemeral_key, key_as_dict.
  destruct (key_agreement_type (k_kind rk)); cbn [negb bind]; [|discriminate].
  rewrite as_dict_false. cbn [bind dupdate fold_left]. intros [= <- <-]. split; [reflexivity|]. split.
  - apply dget_dset_same.
  - intros m N. apply dget_dset_other. congruence.
Qed.

(* ------------------------------------------------------------------ *)
(* as_bytes                                                             *)
(* ------------------------------------------------------------------ *)
Section NativeFacts.
  Variables (sk pk : Type).
  Variable pub_of : sk -> pk.
  Variable private_bytes : sk -> encoding -> option bytes -> bytes.
  Variable public_bytes : pk -> encoding -> bytes.
  Notation as_bytes' := (as_bytes sk pk pub_of private_bytes public_bytes).

  Lemma as_bytes_false r enc pw :
    as_bytes' r enc (PBool false) pw =
    if encoding_ok enc then Ok (public_bytes (public_key sk pk pub_of r) enc) else Err EValue.
  Proof. unfold as_bytes, dump_pem_key. simpl. destruct (encoding_ok enc); reflexivity. Qed.

  Lemma as_bytes_true_public p enc pw :
    as_bytes' (RawPub p) enc (PBool true) pw = Err (if encoding_ok enc then EAttr else EValue).
  Proof. unfold as_bytes, dump_pem_key. simpl. destruct (encoding_ok enc); reflexivity. Qed.

  Lemma as_bytes_ok r enc private pw b :
    as_bytes' r enc private pw = Ok b ->
    (exists s, r = RawPriv s /\ is_False private = false /\ b = private_bytes s enc pw) \/
    (b = public_bytes (public_key sk pk pub_of r) enc /\
     (is_False private = true \/ (is_True private = false /\ raw_is_private sk pk r = false))).
  Proof.
    unfold as_bytes, dump_pem_key.
    destruct (encoding_ok enc); simpl;
      [| destruct (is_True private); [discriminate|]; destruct (is_False private); discriminate ].
    destruct (is_True private) eqn:T.
    - destruct private as [| [] | | | | | |]; try discriminate.
      destruct r as [s|p]; simpl; [|discriminate].
      intros [= <-]. left. exists s. auto.
    - destruct (is_False private) eqn:F.
      + intros [= <-]. right. auto.
      + destruct r as [s|p]; simpl; intros [= <-].
        * left. exists s. auto.
        * right. auto.
  Qed.
End NativeFacts.

(* ------------------------------------------------------------------ *)
(* statements in the shape used by props/C12.v                          *)
(* ------------------------------------------------------------------ *)
Definition names (l : list string) : list str := map asc l.

Lemma private_flags_table :
  private_names value_registry_RSA = names ["d"; "p"; "q"; "dp"; "dq"; "qi"; "oth"]%string /\
  private_names value_registry_EC = names ["d"]%string /\
  private_names value_registry_OKP = names ["d"]%string /\
  private_names value_registry_oct = names ["k"]%string /\
  public_names value_registry_RSA = names ["n"; "e"]%string /\
  public_names value_registry_EC = names ["crv"; "x"; "y"]%string /\
  public_names value_registry_OKP = names ["crv"; "x"]%string /\
  public_names value_registry_oct = [].
Proof. vm_compute. repeat split; reflexivity. Qed.

Lemma as_dict_public reg ip d :
  exists out, as_dict reg ip d (PBool false) [] = Ok out /\
    (forall m, In m (dkeys out) -> member_private reg m = false) /\
    (forall m, member_private reg m = true -> dget out m = None) /\
    (forall m, member_private reg m = false -> dget out m = dget d m).
Proof.
  exists (pub_view reg d). rewrite as_dict_false. split; [reflexivity|]. repeat split.
  - intros m Hm. exact (pub_view_keys _ _ _ Hm).
  - intros m Hm. exact (pub_view_get_private _ _ _ Hm).
  - intros m Hm. exact (pub_view_get_public _ _ _ Hm).
Qed.

Lemma as_dict_public_spec k ip d out m :
  as_dict (value_registry k) ip d (PBool false) [] = Ok out ->
  In m (spec_private k) -> ~ In m (dkeys out).
Proof.
  rewrite as_dict_false. intros [= <-] Hs Hin. simpl in Hin.
  apply pub_view_keys in Hin. rewrite member_private_spec in Hin.
  apply str_mem_In in Hs. congruence.
Qed.

Lemma as_dict_params reg ip d params out :
  as_dict reg ip d (PBool false) params = Ok out ->
  forall m, In m (dkeys out) ->
    (exists v, dget out m = Some v /\ In (m, v) params) \/
    (member_private reg m = false /\ dget out m = dget d m).
Proof.
  intros E m Hin. destruct (as_dict_false_values _ _ _ _ _ m E) as [A B].
  destruct (dget (rev params) m) as [v|] eqn:R.
  - left. exists v. split; [apply A; reflexivity | apply dget_rev_In; exact R].
  - right. specialize (B eq_refl). destruct (member_private reg m) eqn:P.
    + apply dget_None_not_In in B. contradiction.
    + auto.
Qed.

Lemma as_dict_ni reg ip1 ip2 d1 d2 params :
  pub_view reg d1 = pub_view reg d2 ->
  as_dict reg ip1 d1 (PBool false) params = as_dict reg ip2 d2 (PBool false) params.
Proof. intro E. rewrite !as_dict_false, E. reflexivity. Qed.

Lemma as_dict_private_on_public reg d private params :
  py_truth private = true -> as_dict reg false d private params = Err EValue.
Proof. intro T. unfold as_dict. rewrite T. reflexivity. Qed.

(* every Ok result of as_dict that still has a private member was either asked
   for with `private is not False` on a key holding it, or it is a param *)
Lemma as_dict_ok_private_member reg ip d private params out m :
  as_dict reg ip d private params = Ok out ->
  member_private reg m = true -> In m (dkeys out) ->
  In m (dkeys params) \/ (is_False private = false /\ (py_truth private = true -> ip = true)).
Proof.
  unfold as_dict. destruct (py_truth private && negb ip) eqn:C; [discriminate|].
  destruct (is_False private) eqn:F; simpl.
  - intros [= <-] P Hin. left. rewrite strip_private_is_pub_view in Hin.
    apply dkeys_dupdate in Hin. destruct Hin as [Hin|Hin]; [|exact Hin].
    apply pub_view_keys in Hin. congruence.
  - intros _ _ _. right. split; [reflexivity|]. intro T. rewrite T in C.
    destruct ip; [reflexivity | discriminate].
Qed.

Lemma keyset_spec H ks out :
  keyset_as_dict H ks (PBool false) [] = Ok out ->
  Forall2 (fun k o => forall m, In m (spec_private (k_kind k)) -> ~ In m (dkeys o)) ks out.
Proof.
  intro E. apply keyset_public in E. induction E as [|k o ks os [A _] _ IH]; constructor; [|exact IH].
  intros m Hs Hin. apply A in Hin. unfold kreg in Hin. rewrite member_private_spec in Hin.
  apply str_mem_In in Hs. congruence.
Qed.

Lemma keyset_length H ks private params out :
  keyset_as_dict H ks private params = Ok out -> length out = length ks.
Proof.
  revert out. induction ks as [|k r IH]; cbn [keyset_as_dict]; intro out.
  - intros [= <-]. reflexivity.
  - destruct (ensure_kid H (kreg k) (k_dict k)); cbn [bind]; [|discriminate].
    destruct (as_dict _ _ _ _ _); cbn [bind]; [|discriminate].
    destruct (keyset_as_dict H r private params); cbn [bind]; [|discriminate].
    intros [= <-]. simpl. rewrite (IH _ eq_refl). reflexivity.
Qed.

(* public export of a key set never fails on keys that carry their required members *)
Lemma thumb_fields_table :
  thumb_fields value_registry_RSA = names ["n"; "e"; "kty"]%string /\
  thumb_fields value_registry_EC = names ["crv"; "x"; "y"; "kty"]%string /\
  thumb_fields value_registry_OKP = names ["crv"; "x"; "kty"]%string /\
  thumb_fields value_registry_oct = names ["k"; "kty"]%string.
Proof. vm_compute. repeat split; reflexivity. Qed.

Lemma thumb_fields_asymmetric_public k m :
  k <> KOct -> In m (thumb_fields (value_registry k)) -> member_private (value_registry k) m = false.
Proof.
  intros N Hin. apply (fields_public_In _ _ (asymmetric_fields_public k N)).
  apply sort_str_In. exact Hin.
Qed.

Lemma thumbprint_reads_public H k d1 d2 :
  k <> KOct ->
  pub_view (value_registry k) d1 = pub_view (value_registry k) d2 ->
  thumbprint H (value_registry k) d1 = thumbprint H (value_registry k) d2.
Proof.
  intros N E. unfold thumbprint.
  rewrite (thumb_input_ni _ d1 d2 (asymmetric_fields_public k N) E). reflexivity.
Qed.

Lemma thumb_input_selected reg d out m v :
  thumb_input reg d = Ok out -> dget out m = Some v ->
  In m (thumb_fields reg) /\ dget d m = Some v.
Proof.
  intros E G. split.
  - apply (thumb_input_members _ _ _ _ E). apply dget_Some_In in G.
    apply (in_map fst) in G. exact G.
  - unfold thumb_input in E. destruct (restrict_to_values _ _ _ _ _ _ E G) as [A|A];
      [discriminate | exact A].
Qed.

Lemma oct_thumbprint_exception :
  thumb_fields value_registry_oct = names ["k"; "kty"]%string /\
  member_private value_registry_oct (asc "k") = true /\
  fields_public value_registry_oct = false.
Proof. vm_compute. repeat split; reflexivity. Qed.

Lemma epk_public_spec gen rk eph g hdr e hdr' :
  prepare_ephemeral_key gen rk eph g hdr = Ok (e, hdr') ->
  e = ephemeral_in_use gen rk eph g /\
  exists v, dget hdr' s_epk = Some (PDict v) /\
    v = pub_view (kreg e) (k_dict e) /\
    (forall m, In m (spec_private (k_kind e)) -> ~ In m (dkeys v)) /\
    (forall m, member_private (kreg e) m = false -> dget v m = dget (k_dict e) m) /\
    (forall m, m <> s_epk -> dget hdr' m = dget hdr m).
Proof.
  intro E. apply epk_public in E. destruct E as [E0 [A B]]. split; [exact E0|].
  exists (pub_view (kreg e) (k_dict e)). repeat split; auto.
  - intros m Hs Hin. apply pub_view_keys in Hin. unfold kreg in Hin.
    rewrite member_private_spec in Hin. apply str_mem_In in Hs. congruence.
  - intros m Hm. apply pub_view_get_public. exact Hm.
Qed.

Lemma epk_ni gen rk e1 e2 hdr :
  k_kind e1 = k_kind e2 -> pub_view (kreg e1) (k_dict e1) = pub_view (kreg e2) (k_dict e2) ->
  match prepare_ephemeral_key gen rk (Some e1) false hdr, prepare_ephemeral_key gen rk (Some e2) false hdr with
  | Ok (_, h1), Ok (_, h2) => h1 = h2
  | Err a, Err b => a = b
  | _, _ => False
  end.
Proof.
  intros K E. unfold prepare_ephemeral_key, key_as_dict, ephemeral_in_use.
  destruct (key_agreement_type (k_kind rk)); cbn [negb bind]; [|reflexivity].
  rewrite !as_dict_false. cbn [bind dupdate fold_left]. rewrite E. reflexivity.
Qed.
