(* ComposeJweSound.v — ONE end-to-end soundness statement for jwt.decode over the JWE
   pipeline model (jwe_tdec = decrypt_compact + .headers(), .plaintext), collecting the
   transfers of ComposeJwePipe: claims are returned only when the AEAD accepted the received
   ciphertext / tag / AAD (C02), the zip step is taken from the PROTECTED header only, the
   inflated output is bounded (C17), enc / alg / zip passed C05's gate, every recipient header
   satisfies C15's spec and the recipient key passed C06's key-type gate. *)
From Coq Require Import String List NArith ZArith Bool Lia.
From Model Require Import Base PyVal TableTypes ComposeDefs.
From Model Require Import JweKeys ComposeJweDefs.
From Model Require C05Model C06Model C15Registry C15Spec C17Zip C09Jwt.
From Gen Require Import Tables.
From Proofs Require JwsProofs C09Proofs ComposeJweEq ComposeJwePipe.
Import ListNotations.
Open Scope N_scope.

Ltac bst H x E := apply JwsProofs.bind_ok in H; destruct H as (x & E & H).

Section Sound.
  Variable O : oracles.
  Variable g : registry.
  (* the oracle fields are the C15 / C17 models *)
  Variable tbl : list jwe_alg_row.
  Variable recommended : list string.
  Variable allowed : option (list string).
  Variable reg : list hparam.
  Variable strict : bool.
  Hypothesis check_header_is_c15 : forall hs cm,
    o_check_header O (PDict hs) cm = C15Registry.jwe_check_header tbl recommended allowed reg strict hs cm.
  Variable zdec : C17Zip.zoracle.
  Hypothesis inflate_is_c17 : forall x, o_inflate O x = C17Zip.decompress zdec x.

  Definition jwe_accepted (k : key) (sender : option key) (tok : bytes) (h : dict) (m : bytes) : Prop :=
    exists ob,
      extract_compact O tok k sender = Ok ob /\ h = j_prot ob /\ perform_decrypt O g ob = Ok m /\
      (* C02: the AEAD accepted; zip only from the protected header *)
      (exists e cek aad msg,
         lenN cek * 8 = ee_cek_size e /\
         enc_decrypt O e (j_ct ob) (j_tag ob) cek (j_iv ob) aad = Ok msg /\
         unzip O g (j_prot ob) msg = Ok m /\
         (dmem (j_prot ob) (s_ "zip") = false -> m = msg) /\
         (dmem (j_prot ob) (s_ "zip") = true -> C17Zip.decompress zdec msg = Ok m)) /\
      (* C17 *)
      (dmem (j_prot ob) (s_ "zip") = true -> C17Zip.blen m <= 256000) /\
      (* C05 *)
      (exists n e, hitem (j_prot ob) "enc" = Ok (PStr n) /\
                   C05Model.find_row ee_name jwe_enc_table_drafts n = Some e /\ ComposeJwePipe.listed g n) /\
      Forall (fun r => exists hs, headers (j_ser ob) (j_prot ob) (j_unprot ob) (r_header r) = Ok hs /\
                                  ComposeJwePipe.alg_listed g hs /\
                                  (* C15 *)
                                  C15Spec.header_ok_jwe tbl recommended allowed reg strict hs true = true)
             (j_recips ob) /\
      (dmem (j_prot ob) (s_ "zip") = true ->
       exists n z, hget (j_prot ob) "zip" = PStr n /\
                   C05Model.find_row ez_name jwe_zip_table_drafts n = Some z /\ ComposeJwePipe.listed g n) /\
      (* C06: the CEK came from a recipient whose key passed the key-type gate *)
      (exists r hs a cek, In r (j_recips ob) /\ ComposeJwePipe.hs_of ob r = Ok hs /\
         decrypt_recipient O a (match get_enc g (hget (j_prot ob) "enc") with Ok e => e | Err _ =>
                                  {| ee_name := ""; ee_family := ""; ee_iv_size := 0; ee_cek_size := 0;
                                     ee_key_len := 0; ee_hash := ""; ee_recommended := false |} end)
                           hs r (j_tag ob) = Ok cek /\
         JweCrypto.check_key_type a (r_key r) = Ok tt).

  Theorem jwe_tdec_accepted k sender tok h m :
    jwe_tdec O g k sender tok = Ok (h, m) -> jwe_accepted k sender tok h m.
  Proof.
    unfold jwe_tdec, decrypt_compact. intro H. bst H mo D. bst D ob EX. bst D m' PD.
    inversion D; subst mo. cbn [fst snd] in H. inversion H; subst h m'. clear H D.
    exists ob. split; [exact EX|]. split; [reflexivity|]. split; [exact PD|].
    destruct (ComposeJwePipe.perform_decrypt_inv O _ _ _ PD)
      as (encv & e & cek & aad & msg & HE & GE & _ & RL & LN & ED & UZ & F).
    destruct (ComposeJwePipe.c05_decrypt O _ _ _ PD) as (C5E & C5A & C5Z).
    split.
    { exists e, cek, aad, msg. split; [exact LN|]. split; [exact ED|]. split; [exact UZ|].
      unfold unzip in UZ. split; intro Z; rewrite Z in UZ.
      - inversion UZ. reflexivity.
      - bst UZ z GZ. rewrite inflate_is_c17 in UZ. exact UZ. }
    split; [exact (ComposeJwePipe.c17_decrypt_bound O zdec inflate_is_c17 _ _ _ PD)|].
    split; [exact C5E|]. split.
    { pose proof (ComposeJwePipe.c15_decrypt O tbl recommended allowed reg strict check_header_is_c15 _ _ _ PD) as C15.
      clear - C5A C15. induction C5A as [|r rs (hs & HS & AL) _ IH]; [constructor|].
      inversion C15 as [|? ? (hs' & HS' & OK) C15']; subst. constructor; [|exact (IH C15')].
      rewrite HS in HS'. inversion HS'; subst hs'. exists hs. auto. }
    split; [exact C5Z|].
    destruct (ComposeJwePipe.recip_loop_some O _ _ _ _ _ _ RL eq_refl ltac:(discriminate))
      as (r & hs & a & cek' & I & HS & DR & _).
    exists r, hs, a, cek'. split; [exact I|]. split; [exact HS|].
    assert (EQ : hget (j_prot ob) "enc" = encv).
    { unfold hitem in HE. unfold hget. destruct (dget (j_prot ob) (asc "enc")); inversion HE. reflexivity. }
    rewrite EQ, GE. split; [exact DR|]. exact (ComposeJwePipe.decrypt_recipient_key_type O _ _ _ _ _ _ DR).
  Qed.

  Variable json_loads : bytes -> res pv.

  Theorem jwt_decode_jwe_sound k sender tok h v :
    C09Jwt.decode json_loads (jwe_tdec O g k sender) tok = Ok (h, v) ->
    is_dict v = true /\ exists m, jwe_accepted k sender tok h m /\ json_loads m = Ok v.
  Proof.
    intro H. apply C09Proofs.decode_ok_iff in H. destruct H as (p & T & J & D).
    split; [exact D|]. exists p. split; [exact (jwe_tdec_accepted _ _ _ _ _ T)|exact J].
  Qed.

  (* what the pipeline refuses (AEAD failure, refused alg / header / key ...), jwt.decode refuses
     with the pipeline's error *)
  Theorem jwt_decode_jwe_forged k sender tok e :
    decrypt_compact O g tok k sender = Err e ->
    C09Jwt.decode json_loads (jwe_tdec O g k sender) tok = Err e.
  Proof. intro H. apply C09Proofs.decode_transport_error. unfold jwe_tdec. rewrite H. reflexivity. Qed.
End Sound.
