(* IntCodecProofs.v — proofs about model/IntCodec.v (C19 statements). *)
From Model Require Import Base B64 IntCodec.
From Coq Require Import ZArith NArith List Bool Lia ZifyBool ZifyN ZifyNat.
From Proofs Require Import B64Proofs.
Import ListNotations.
Open Scope N_scope.

Ltac Zify.zify_post_hook ::= Z.to_euclidean_division_equations.

(* ------------------------------------------------------------------ *)
(* positional value of a digit list, generic in the base               *)
(* ------------------------------------------------------------------ *)

Definition val (b : N) (l : list N) (v : N) : N :=
  fold_left (fun acc d => acc * b + d) l v.

Lemma be_to_N_val l : be_to_N l = val 256 l 0.
Proof. reflexivity. Qed.

Lemma val_cons b d l v : val b (d :: l) v = val b l (v * b + d).
Proof. reflexivity. Qed.

Lemma val_app b l1 l2 v : val b (l1 ++ l2) v = val b l2 (val b l1 v).
Proof. apply fold_left_app. Qed.

Lemma val_acc b l : forall v, val b l v = v * b ^ N.of_nat (length l) + val b l 0.
Proof.
  induction l as [|d l IH]; intros v.
  - change (N.of_nat (length (@nil N))) with 0. rewrite N.pow_0_r.
    change (val b [] v) with v. change (val b [] 0) with 0. lia.
  - rewrite !val_cons. rewrite (IH (v * b + d)), (IH (0 * b + d)).
    cbn [length]. rewrite Nat2N.inj_succ, N.pow_succ_r'. ring.
Qed.

Lemma val_lt b l :
  Forall (fun d => d < b) l -> val b l 0 < b ^ N.of_nat (length l).
Proof.
  induction 1 as [|d l Hd Hl IH].
  - change (N.of_nat (length (@nil N))) with 0. rewrite N.pow_0_r.
    change (val b [] 0) with 0. lia.
  - rewrite val_cons, val_acc. cbn [length].
    rewrite Nat2N.inj_succ, N.pow_succ_r'. nia.
Qed.

Lemma val_ge b d l : d <> 0 -> b ^ N.of_nat (length l) <= val b (d :: l) 0.
Proof. intros Hd. rewrite val_cons, val_acc. nia. Qed.

Lemma val_repeat0 b k : val b (repeat 0 k) 0 = 0.
Proof.
  induction k as [|k IH]; [reflexivity|].
  cbn [repeat]. rewrite val_cons. replace (0 * b + 0) with 0 by lia. exact IH.
Qed.

Lemma Forall_repeat0 b k : 0 < b -> Forall (fun d => d < b) (repeat 0 k).
Proof. intros Hb. induction k; cbn [repeat]; constructor; assumption. Qed.

Lemma bytes_ok_Forall l : bytes_ok l = true <-> Forall (fun d => d < 256) l.
Proof.
  unfold bytes_ok. rewrite forallb_forall, Forall_forall.
  split; intros H x Hx; specialize (H x Hx); lia.
Qed.

(* ------------------------------------------------------------------ *)
(* digits_fuel                                                         *)
(* ------------------------------------------------------------------ *)

Lemma size_nat_gt n : n < 2 ^ N.of_nat (N.size_nat n).
Proof.
  destruct n as [|p]; [cbn; lia|]. cbn [N.size_nat].
  induction p as [p IH|p IH|]; cbn [Pos.size_nat].
  - rewrite Nat2N.inj_succ, N.pow_succ_r'. lia.
  - rewrite Nat2N.inj_succ, N.pow_succ_r'. lia.
  - cbn. lia.
Qed.

Lemma digits_fuel_zero b f acc : digits_fuel b f 0 acc = acc.
Proof. destruct f; reflexivity. Qed.

Lemma digits_fuel_app b f :
  forall n acc, digits_fuel b f n acc = digits_fuel b f n [] ++ acc.
Proof.
  induction f as [|f IH]; intros n acc; cbn [digits_fuel]; [reflexivity|].
  destruct (n =? 0); [reflexivity|].
  rewrite IH. rewrite (IH _ [n mod b]). rewrite <- app_assoc. reflexivity.
Qed.

Lemma div_fuel b f n :
  2 <= b -> n < 2 ^ N.of_nat (S f) -> n / b < 2 ^ N.of_nat f.
Proof.
  intros Hb Hn. rewrite Nat2N.inj_succ, N.pow_succ_r' in Hn.
  apply N.div_lt_upper_bound; [lia|]. nia.
Qed.

Lemma digits_fuel_val b f :
  2 <= b -> forall n, n < 2 ^ N.of_nat f -> val b (digits_fuel b f n []) 0 = n.
Proof.
  intros Hb. induction f as [|f IH]; intros n Hn.
  - change (N.of_nat 0) with 0 in Hn. rewrite N.pow_0_r in Hn.
    assert (n = 0) by lia. subst n. reflexivity.
  - cbn [digits_fuel]. destruct (n =? 0) eqn:E.
    + apply N.eqb_eq in E. subst n. reflexivity.
    + rewrite digits_fuel_app, val_app, IH by (apply div_fuel; assumption).
      change (val b [n mod b] (n / b)) with (n / b * b + n mod b).
      rewrite N.mul_comm. symmetry. apply N.div_mod. lia.
Qed.

Lemma digits_val b n : 2 <= b -> val b (digits b n) 0 = n.
Proof. intros Hb. unfold digits. apply digits_fuel_val; [exact Hb|apply size_nat_gt]. Qed.

Lemma digits_fuel_Forall b f :
  0 < b -> forall n acc,
  Forall (fun d => d < b) acc -> Forall (fun d => d < b) (digits_fuel b f n acc).
Proof.
  intros Hb. induction f as [|f IH]; intros n acc Ha; cbn [digits_fuel]; [exact Ha|].
  destruct (n =? 0); [exact Ha|].
  apply IH. constructor; [apply N.mod_lt; lia|exact Ha].
Qed.

Lemma digits_Forall b n : 0 < b -> Forall (fun d => d < b) (digits b n).
Proof. intros Hb. unfold digits. apply digits_fuel_Forall; [exact Hb|constructor]. Qed.

Lemma digits_fuel_head b f :
  2 <= b -> forall n acc, n < 2 ^ N.of_nat f -> n <> 0 ->
  exists d r, digits_fuel b f n acc = d :: r /\ d <> 0.
Proof.
  intros Hb. induction f as [|f IH]; intros n acc Hn H0.
  - change (N.of_nat 0) with 0 in Hn. rewrite N.pow_0_r in Hn. lia.
  - cbn [digits_fuel]. destruct (n =? 0) eqn:E; [lia|].
    destruct (N.eq_dec (n / b) 0) as [Z|NZ].
    + rewrite Z, digits_fuel_zero. exists (n mod b), acc. split; [reflexivity|].
      apply N.div_small_iff in Z; [|lia]. rewrite N.mod_small; assumption.
    + apply IH; [apply div_fuel; assumption|exact NZ].
Qed.

Lemma digits_head b n :
  2 <= b -> n <> 0 -> exists d r, digits b n = d :: r /\ d <> 0.
Proof.
  intros Hb Hn. unfold digits. apply digits_fuel_head; [exact Hb|apply size_nat_gt|exact Hn].
Qed.

(* ------------------------------------------------------------------ *)
(* minimal big-endian octets                                           *)
(* ------------------------------------------------------------------ *)

Theorem be_min_value n : be_to_N (N_to_be_min n) = n.
Proof. rewrite be_to_N_val. unfold N_to_be_min. apply digits_val. lia. Qed.

Theorem be_min_bytes_ok n : bytes_ok (N_to_be_min n) = true.
Proof. apply bytes_ok_Forall. unfold N_to_be_min. apply digits_Forall. lia. Qed.

Theorem be_min_no_leading_zero n : 0 < n -> exists b r, N_to_be_min n = b :: r /\ b <> 0.
Proof. intros Hn. unfold N_to_be_min. apply digits_head; lia. Qed.

Theorem be_min_zero : N_to_be_min 0 = [].
Proof. reflexivity. Qed.

(* minimal length: 256^(len-1) <= n < 256^len *)
Theorem be_min_length n : 0 < n ->
  256 ^ (N.of_nat (length (N_to_be_min n)) - 1) <= n < 256 ^ N.of_nat (length (N_to_be_min n)).
Proof.
  intros Hn.
  pose proof (be_min_value n) as V. rewrite be_to_N_val in V.
  pose proof (be_min_bytes_ok n) as B. apply bytes_ok_Forall in B.
  destruct (be_min_no_leading_zero n Hn) as (b & r & E & Hb).
  rewrite E in *. split.
  - cbn [length]. replace (N.of_nat (S (length r)) - 1) with (N.of_nat (length r)) by lia.
    rewrite <- V. apply val_ge, Hb.
  - rewrite <- V. apply val_lt, B.
Qed.

(* ------------------------------------------------------------------ *)
(* int_to_base64 / base64_to_int                                       *)
(* ------------------------------------------------------------------ *)

Theorem int_b64_roundtrip z : (0 < z)%Z ->
  exists s, int_to_base64 z = Ok s /\ base64_to_int s = Ok z.
Proof.
  intros Hz. unfold int_to_base64.
  destruct (z <? 0)%Z eqn:E; [lia|].
  eexists. split; [reflexivity|].
  unfold base64_to_int. rewrite b64_roundtrip by apply be_min_bytes_ok.
  cbn [bind].
  pose proof (be_min_value (Z.to_N z)) as V.
  destruct (N_to_be_min (Z.to_N z)) as [|b r] eqn:E'.
  - destruct (be_min_no_leading_zero (Z.to_N z)) as (? & ? & E2 & _); [lia|congruence].
  - rewrite V, Z2N.id by lia. reflexivity.
Qed.

Theorem int_b64_negative z : (z < 0)%Z -> int_to_base64 z = Err EValue.
Proof.
  intros Hz. unfold int_to_base64. destruct (z <? 0)%Z eqn:E; [reflexivity|lia].
Qed.

Example int_b64_zero_does_not_decode :
  exists s, int_to_base64 0 = Ok s /\ base64_to_int s = Err EValue.
Proof. exists []. split; vm_compute; reflexivity. Qed.

(* ------------------------------------------------------------------ *)
(* I2OSP                                                               *)
(* ------------------------------------------------------------------ *)

Theorem I2OSP_length n L : length (I2OSP n L) = L.
Proof. induction L as [|L IH]; cbn [I2OSP length]; congruence. Qed.

Lemma pow256_nz k : 256 ^ k <> 0.
Proof. apply N.pow_nonzero. lia. Qed.

Lemma I2OSP_val n L : val 256 (I2OSP n L) 0 = n mod 256 ^ N.of_nat L.
Proof.
  induction L as [|L IH].
  - change (N.of_nat 0) with 0. rewrite N.pow_0_r, N.mod_1_r. reflexivity.
  - cbn [I2OSP]. rewrite val_cons, val_acc, IH, I2OSP_length.
    rewrite Nat2N.inj_succ, N.pow_succ_r', (N.mul_comm 256).
    rewrite N.mod_mul_r by (try apply pow256_nz; lia).
    ring.
Qed.

Theorem I2OSP_value n L : n < 256 ^ N.of_nat L -> be_to_N (I2OSP n L) = n.
Proof. intros H. rewrite be_to_N_val, I2OSP_val. apply N.mod_small, H. Qed.

Theorem I2OSP_bytes_ok n L : bytes_ok (I2OSP n L) = true.
Proof.
  induction L as [|L IH]; [reflexivity|].
  cbn [I2OSP]. apply bytes_ok_cons. split; [apply N.mod_lt; lia|exact IH].
Qed.

Lemma I2OSP_shift L : forall n k, I2OSP (n + k * 256 ^ N.of_nat L) L = I2OSP n L.
Proof.
  induction L as [|L IH]; intros n k; [reflexivity|].
  cbn [I2OSP]. rewrite Nat2N.inj_succ, N.pow_succ_r'.
  replace (k * (256 * 256 ^ N.of_nat L)) with ((k * 256) * 256 ^ N.of_nat L) by ring.
  rewrite IH. f_equal.
  rewrite N.div_add by apply pow256_nz.
  rewrite N.mod_add by lia. reflexivity.
Qed.

Lemma I2OSP_unique l :
  Forall (fun d => d < 256) l -> I2OSP (val 256 l 0) (length l) = l.
Proof.
  induction 1 as [|d l Hd Hl IH]; [reflexivity|].
  pose proof (val_lt 256 l Hl) as B.
  cbn [length I2OSP]. rewrite val_cons, val_acc.
  replace (0 * 256 + d) with d by lia. f_equal.
  - rewrite N.div_add_l by apply pow256_nz.
    rewrite (N.div_small _ _ B). rewrite N.add_0_r. apply N.mod_small, Hd.
  - rewrite N.add_comm, I2OSP_shift. exact IH.
Qed.

(* ------------------------------------------------------------------ *)
(* encode_int / decode_int                                             *)
(* ------------------------------------------------------------------ *)

Lemma pair_nibbles_spec L :
  forall h, length h = (2 * L)%nat -> Forall (fun d => d < 16) h ->
  exists t, pair_nibbles h = Ok t /\ length t = L /\
            Forall (fun d => d < 256) t /\ forall v, val 256 t v = val 16 h v.
Proof.
  induction L as [|L IH]; intros h Hl Hf.
  - destruct h; [|discriminate]. exists []. repeat split; constructor.
  - destruct h as [|a [|b r]]; try (cbn [length] in Hl; lia).
    inversion Hf as [|? ? Ha Hf1]; subst. inversion Hf1 as [|? ? Hb Hf2]; subst.
    destruct (IH r) as (t & Et & Lt & Ft & Vt); [cbn [length] in Hl; lia|exact Hf2|].
    exists ((a * 16 + b) :: t). cbn [pair_nibbles]. rewrite Et. cbn [bind].
    repeat split.
    + cbn [length]; lia.
    + constructor; [lia|exact Ft].
    + intros v. rewrite !val_cons, Vt. f_equal. lia.
Qed.

Lemma hex_digits_spec n L :
  (0 < L)%nat -> n < 256 ^ N.of_nat L ->
  Forall (fun d => d < 16) (hex_digits n) /\ val 16 (hex_digits n) 0 = n /\
  (length (hex_digits n) <= 2 * L)%nat.
Proof.
  intros HL Hn. destruct (N.eq_dec n 0) as [Z|NZ].
  - subst n. change (hex_digits 0) with [0]. repeat split.
    + constructor; [lia|constructor].
    + cbn [length]. lia.
  - destruct (digits_head 16 n ltac:(lia) NZ) as (d & r & E & Hd).
    assert (HE : hex_digits n = digits 16 n) by (unfold hex_digits; rewrite E; reflexivity).
    rewrite HE. repeat split.
    + apply digits_Forall. lia.
    + apply digits_val. lia.
    + pose proof (digits_val 16 n ltac:(lia)) as V. rewrite E in *.
      pose proof (val_ge 16 d r Hd) as G. rewrite V in G.
      change 256 with (16 ^ 2) in Hn. rewrite <- N.pow_mul_r in Hn.
      assert (LT : 16 ^ N.of_nat (length r) < 16 ^ (2 * N.of_nat L)) by lia.
      apply N.pow_lt_mono_r_iff in LT; [|lia].
      cbn [length]. lia.
Qed.

(* The statement [encode_int_is_I2OSP] of C19_STATEMENTS.md is FALSE of the model
   when the width is zero (bits = 0):
     Eval vm_compute in (encode_int 0 0, I2OSP 0 0).   = (Err EValue, [])
   i.e. z = 0, bits = 0 satisfies all hypotheses (L = 0, 0 < 256^0) but
   "%0*x" % (0, 0) = "0" has odd length and a2b_hex refuses it, whereas
   I2OSP 0 0 = [].  The strongest true variant: the equation holds for every
   non-zero width, and for zero width the result is the ValueError. *)
Theorem encode_int_is_I2OSP_partial z bits :
  let L := N.to_nat ((bits + 7) / 8) in
  (0 <= z)%Z -> Z.to_N z < 256 ^ N.of_nat L ->
  encode_int z bits =
  match L with O => Err EValue | S _ => Ok (I2OSP (Z.to_N z) L) end.
Proof.
  intros L Hz Hn. unfold encode_int.
  destruct (z <? 0)%Z eqn:E; [lia|]. cbv zeta.
  replace (N.to_nat ((bits + 7) / 8 * 2)) with (2 * L)%nat by (subst L; lia).
  destruct L as [|L'] eqn:EL.
  - change (N.of_nat 0) with 0 in Hn. rewrite N.pow_0_r in Hn.
    replace (Z.to_N z) with 0 by lia. reflexivity.
  - rewrite <- EL in *. assert (HL : (0 < L)%nat) by lia. clear EL L'.
    destruct (hex_digits_spec (Z.to_N z) L HL Hn) as (Fd & Vd & Ld).
    set (d := hex_digits (Z.to_N z)) in *.
    destruct (pair_nibbles_spec L (repeat 0 (2 * L - length d) ++ d))
      as (t & Et & Lt & Ft & Vt).
    + rewrite app_length, repeat_length. lia.
    + apply Forall_app. split; [apply Forall_repeat0; lia|exact Fd].
    + rewrite Et. f_equal.
      rewrite <- (I2OSP_unique t Ft) at 1. rewrite Lt. f_equal.
      rewrite Vt, val_app, val_repeat0. exact Vd.
Qed.

(* machine-checked refutation of the statement as originally given *)
Lemma encode_int_is_I2OSP_as_stated_is_false :
  ~ (forall z bits, let L := N.to_nat ((bits + 7) / 8) in
       (0 <= z)%Z -> Z.to_N z < 256 ^ N.of_nat L ->
       encode_int z bits = Ok (I2OSP (Z.to_N z) L)).
Proof.
  intros H.
  specialize (H 0%Z 0 ltac:(cbv; discriminate) ltac:(reflexivity)).
  vm_compute in H. discriminate H.
Qed.

(* the hex-based encode_int equals I2OSP whenever the number fits (non-zero width) *)
Corollary encode_int_is_I2OSP_pos z bits :
  let L := N.to_nat ((bits + 7) / 8) in
  (0 < L)%nat -> (0 <= z)%Z -> Z.to_N z < 256 ^ N.of_nat L ->
  encode_int z bits = Ok (I2OSP (Z.to_N z) L).
Proof.
  intros L HL Hz Hn.
  pose proof (encode_int_is_I2OSP_partial z bits Hz Hn) as P. cbv zeta in P.
  fold L in P. destruct L; [lia|exact P].
Qed.

Lemma decode_I2OSP z L :
  (0 < L)%nat -> (0 <= z)%Z -> Z.to_N z < 256 ^ N.of_nat L ->
  decode_int (I2OSP (Z.to_N z) L) = Ok z.
Proof.
  intros HL Hz Hn. unfold decode_int.
  destruct (I2OSP (Z.to_N z) L) as [|b r] eqn:E.
  - apply (f_equal (@length N)) in E. rewrite I2OSP_length in E. cbn [length] in E. lia.
  - rewrite <- E, I2OSP_value by exact Hn. rewrite Z2N.id by exact Hz. reflexivity.
Qed.

Theorem fixed_roundtrip z bits :
  let L := N.to_nat ((bits + 7) / 8) in
  (0 < L)%nat -> (0 <= z)%Z -> Z.to_N z < 256 ^ N.of_nat L ->
  exists s, encode_int z bits = Ok s /\ length s = L /\ decode_int s = Ok z.
Proof.
  intros L HL Hz Hn. exists (I2OSP (Z.to_N z) L). split; [|split].
  - apply encode_int_is_I2OSP_pos; assumption.
  - apply I2OSP_length.
  - apply decode_I2OSP; assumption.
Qed.

Theorem encode_int_negative z bits : (z < 0)%Z -> encode_int z bits = Err EValue.
Proof.
  intros Hz. unfold encode_int. destruct (z <? 0)%Z eqn:E; [reflexivity|lia].
Qed.

Lemma split_at_length {A} (a b : list A) L :
  length a = L -> firstn L (a ++ b) = a /\ skipn L (a ++ b) = b.
Proof.
  intros <-. split.
  - rewrite firstn_app, firstn_all, Nat.sub_diag, firstn_O, app_nil_r. reflexivity.
  - rewrite skipn_app, skipn_all, Nat.sub_diag. reflexivity.
Qed.

(* R||S: concatenation of two fixed-width encodings splits back *)
Theorem rs_roundtrip r s bits :
  let L := N.to_nat ((bits + 7) / 8) in
  (0 < L)%nat -> (0 <= r)%Z -> (0 <= s)%Z ->
  Z.to_N r < 256 ^ N.of_nat L -> Z.to_N s < 256 ^ N.of_nat L ->
  exists a b, encode_int r bits = Ok a /\ encode_int s bits = Ok b /\
    length (a ++ b) = (2 * L)%nat /\
    decode_int (firstn L (a ++ b)) = Ok r /\ decode_int (skipn L (a ++ b)) = Ok s.
Proof.
  intros L HL Hr Hs Hrn Hsn.
  exists (I2OSP (Z.to_N r) L), (I2OSP (Z.to_N s) L).
  destruct (split_at_length (I2OSP (Z.to_N r) L) (I2OSP (Z.to_N s) L) L (I2OSP_length _ _))
    as [F S].
  rewrite F, S. repeat split.
  - apply encode_int_is_I2OSP_pos; assumption.
  - apply encode_int_is_I2OSP_pos; assumption.
  - rewrite app_length, !I2OSP_length. lia.
  - apply decode_I2OSP; assumption.
  - apply decode_I2OSP; assumption.
Qed.

Print Assumptions int_b64_roundtrip.
Print Assumptions encode_int_is_I2OSP_partial.
Print Assumptions encode_int_is_I2OSP_pos.
Print Assumptions fixed_roundtrip.
Print Assumptions rs_roundtrip.
Print Assumptions be_min_length.
Print Assumptions I2OSP_value.
