(* C02Keys.v — the key used for each recipient is the one resolved from the merged header
   (model/JweKeys.v), and c02_sound restated on top of the resolution. *)
From Coq Require Import Lia.
From Model Require Import JweBase JweCrypto JweMsg JweKeys.
From Gen Require Import Tables.
From Proofs Require Import C02Proofs.
Open Scope N_scope.

Lemma find_kid_spec ks kid k : find_kid ks kid = Ok k -> In k ks /\ py_eq (kk_kid k) kid = true.
Proof.
  induction ks as [|x ks IH]; simpl; intro H; [discriminate |].
  destruct (py_eq (kk_kid x) kid) eqn:E.
  - inversion H; subst. auto.
  - destruct (IH H). auto.
Qed.

(* KeySet.get_by_kid returns a member of the set that carries the requested kid
   (or the only member when no kid was requested) *)
Lemma get_by_kid_spec ks kid k :
  get_by_kid ks kid = Ok k ->
  In k ks /\ (py_eq (kk_kid k) kid = true \/ (kid = PNone /\ ks = [k])).
Proof.
  unfold get_by_kid. intro H.
  destruct kid; try (apply find_kid_spec in H; tauto).
  destruct ks as [|a [|b r]]; try (apply find_kid_spec in H; tauto).
  inversion H; subst. simpl. auto.
Qed.

Lemma find_kid_none ks kid :
  (forall k, In k ks -> py_eq (kk_kid k) kid = false) -> find_kid ks kid = Err (EJose InvalidKeyIdError).
Proof.
  induction ks as [|x ks IH]; simpl; intro A; [reflexivity |].
  rewrite (A x (or_introl eq_refl)). apply IH. intros k I. apply A. auto.
Qed.

Lemma get_by_kid_unknown ks kid :
  (forall k, In k ks -> py_eq (kk_kid k) kid = false) -> (kid <> PNone \/ length ks <> 1%nat) ->
  get_by_kid ks kid = Err (EJose InvalidKeyIdError).
Proof.
  intros A B. pose proof (find_kid_none ks kid A) as F.
  unfold get_by_kid. destruct kid; try exact F.
  destruct ks as [|a [|b r]]; try exact F. destruct B as [B | B]; [contradiction | simpl in B; lia].
Qed.

Lemma check_use_enc_ok k : check_use_enc k = Ok tt ->
  py_truth (kk_use k) = false \/ py_eq (kk_use k) (PStr (s_ "enc")) = true.
Proof.
  unfold check_use_enc. destruct (py_truth (kk_use k)); [| auto].
  destruct (py_eq (kk_use k) (PStr (s_ "enc"))); simpl; [auto | discriminate].
Qed.

Lemma check_use_enc_other k : py_truth (kk_use k) = true -> py_eq (kk_use k) (PStr (s_ "enc")) = false ->
  check_use_enc k = Err (EJose UnsupportedKeyUseError).
Proof. intros A B. unfold check_use_enc. rewrite A, B. reflexivity. Qed.

(* recipient r (the idx-th) carries the keys resolved from ITS merged header *)
Definition resolved (o : jobj) (src : ksrc) (ssrc : option ksrc0) (idx : nat) (r : recip) : Prop :=
  let hs := headers (j_ser o) (j_prot o) (j_unprot o) (r_header r) in
  exists kk, guess_key src idx hs = Ok kk /\ check_use_enc kk = Ok tt /\ r_key r = kk_key kk /\
    match sender_given ssrc with
    | Some s => exists sk, guess_sender s hs = Ok sk /\ check_use_enc sk = Ok tt /\ r_sender r = Some (kk_key sk)
    | None => r_sender r = None
    end.

Lemma guess_sender_use s hs sk : guess_sender s hs = Ok sk -> check_use_enc sk = Ok tt.
Proof.
  unfold guess_sender. intro H. inv_bind H. inv_bind H. inversion H; subst. destruct x0. exact E0.
Qed.

Lemma attach_keys_spec o src ssrc : forall rs idx rs',
  attach_keys o rs idx src ssrc = Ok rs' ->
  length rs' = length rs /\
  forall n r', nth_error rs' n = Some r' ->
    exists r, nth_error rs n = Some r /\ r_header r' = r_header r /\ r_ek r' = r_ek r /\
              resolved o src ssrc (idx + n) r'.
Proof.
  induction rs as [|r rs IH]; intros idx rs' H; simpl in H.
  - inversion H; subst. split; [reflexivity |]. intros n r' X. destruct n; discriminate.
  - inv_bind H. rename x into kk. inv_bind H. destruct x.
    inv_bind H. rename x into sko. inv_bind H. rename x into rest'. inversion H; subst. clear H.
    destruct (IH (S idx) rest' E2) as [L SP].
    split; [simpl; f_equal; exact L |].
    intros n r' X. destruct n as [|n]; simpl in X.
    + inversion X; subst. exists r. split; [reflexivity |]. split; [reflexivity |]. split; [reflexivity |].
      unfold resolved. simpl. rewrite Nat.add_0_r.
      exists kk. split; [exact E |]. split; [exact E0 |]. split; [reflexivity |].
      destruct (sender_given ssrc) as [s|].
      * inv_bind E1. inversion E1; subst. exists x. split; [assumption |].
        split; [eapply guess_sender_use; eassumption | reflexivity].
      * inversion E1; subst. reflexivity.
    + destruct (SP n r' X) as [r0 [N1 [N2 [N3 N4]]]].
      exists r0. split; [exact N1 |]. split; [exact N2 |]. split; [exact N3 |].
      replace (idx + S n)%nat with (S idx + n)%nat by lia. exact N4.
Qed.

Lemma resolved_set_recips o rs src ssrc n r :
  resolved o src ssrc n r <-> resolved (set_recips o rs) src ssrc n r.
Proof. unfold resolved, set_recips; simpl. tauto. Qed.

Section SoundKeys.
Variable O : oracles.
Variable g : registry.

Theorem decrypt_compact_k_sound value src ssrc m o :
  decrypt_compact_k O g value src ssrc = Ok (m, o) ->
  authentic O g o m /\
  (forall n r, nth_error (j_recips o) n = Some r -> resolved o src ssrc n r) /\
  exists hseg rest, split_dot value = hseg :: rest /\ dec_aad O o = Ok hseg.
Proof.
  unfold decrypt_compact_k. intro H. inv_bind H. rename x into o0. inv_bind H. rename x into rs.
  inv_bind H. inversion H; subst. clear H.
  split; [apply perform_decrypt_sound; assumption |].
  split.
  - intros n r X. simpl in X.
    destruct (attach_keys_spec o0 src ssrc _ _ _ E0) as [_ SP].
    destruct (SP n r X) as [r0 [_ [_ [_ R]]]]. simpl in R.
    apply resolved_set_recips. exact R.
  - destruct (compact_aad_is_received O _ _ _ _ E) as [hseg [rest [S D]]].
    exists hseg, rest. split; [exact S |]. unfold dec_aad in *. simpl. exact D.
Qed.

Theorem decrypt_json_k_sound data src ssrc m o :
  decrypt_json_k O g data src ssrc = Ok (m, o) ->
  authentic O g o m /\
  (forall n r, nth_error (j_recips o) n = Some r -> resolved o src ssrc n r) /\
  exists b64p, seg_bytes data "protected" = Ok b64p /\
               dec_aad O o = Ok (aad_of (j_ser o) b64p (j_aad o)).
Proof.
  unfold decrypt_json_k. intro H. inv_bind H. rename x into o0. inv_bind H. rename x into rs.
  inv_bind H. inversion H; subst. clear H.
  split; [apply perform_decrypt_sound; assumption |].
  split.
  - intros n r X. simpl in X.
    destruct (attach_keys_spec o0 src ssrc _ _ _ E0) as [_ SP].
    destruct (SP n r X) as [r0 [_ [_ [_ R]]]]. simpl in R.
    apply resolved_set_recips. exact R.
  - destruct (json_aad_is_received O _ _ _ _ _ E) as [b64p [S [_ [D _]]]].
    exists b64p. split; [exact S |]. unfold dec_aad in *. simpl. exact D.
Qed.

End SoundKeys.

(* the kid is looked up in the MERGED header: per-recipient header over unprotected over protected *)
Lemma guess_key_keyset_kid ks idx hs h k :
  hs = Ok h -> guess_key (KPlain (KSet ks)) idx hs = Ok k ->
  In k ks /\ (py_eq (kk_kid k) (hget h "kid") = true \/ (hget h "kid" = PNone /\ ks = [k])).
Proof.
  intros -> H. unfold guess_key in H. simpl in H. apply get_by_kid_spec. exact H.
Qed.

Lemma use_checked k :
  (check_use_enc k = Ok tt -> py_truth (kk_use k) = false \/ py_eq (kk_use k) (PStr (s_ "enc")) = true) /\
  (py_truth (kk_use k) = true -> py_eq (kk_use k) (PStr (s_ "enc")) = false ->
   check_use_enc k = Err (EJose UnsupportedKeyUseError)).
Proof. split; [apply check_use_enc_ok | apply check_use_enc_other]. Qed.

(* ---------- the registry the entry points select ---------- *)
From Gen Require Import Tables.

(* with no registry argument the effective verify_all_recipients is True, whatever algorithms= is;
   with algorithms= given it is True whatever registry= is; only a caller's own registry can say False *)
Lemma verify_all_default algorithms : g_verify_all (jwe_sel algorithms None) = true.
Proof. unfold jwe_sel. destruct algorithms as [[|a l]|]; reflexivity. Qed.

Lemma verify_all_algorithms a l reg : g_verify_all (jwe_sel (Some (a :: l)) reg) = true.
Proof. reflexivity. Qed.

Lemma verify_all_false_only_by_caller algorithms reg :
  g_verify_all (jwe_sel algorithms reg) = false -> exists r, reg = Some r /\ g_verify_all r = false.
Proof.
  unfold jwe_sel. destruct algorithms as [[|a l]|]; destruct reg as [r|]; simpl; intro H;
    try discriminate; eauto.
Qed.

(* hence: under the selected registry, without a caller's registry, EVERY recipient must yield the CEK *)
Lemma sel_all_recipients_yield O algorithms o m :
  perform_decrypt O (jwe_sel algorithms None) o = Ok m ->
  exists e cek, forall r, In r (j_recips o) -> yields O (jwe_sel algorithms None) e o r cek.
Proof.
  intro H. apply perform_decrypt_sound in H.
  destruct H as [encv [e [cek [aad [msg [_ [_ [_ [_ [_ [ALL _]]]]]]]]]]].
  exists e, cek. apply ALL. apply verify_all_default.
Qed.
