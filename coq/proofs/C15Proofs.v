(* C15Proofs.v — lemmas behind props/C15.v *)
From Coq Require Import Lia ZifyBool.
From Model Require Import Base PyVal TableTypes C15Registry C15Spec.
Open Scope N_scope.

(* ------------------------------------------------------------------ *)
(* small facts                                                          *)
(* ------------------------------------------------------------------ *)
Lemma str_eqb_sym a b : str_eqb a b = str_eqb b a.
Proof.
  destruct (str_eqb a b) eqn:E.
  - apply str_eqb_eq in E. subst. symmetry. apply str_eqb_refl.
  - destruct (str_eqb b a) eqn:F; [|reflexivity].
    apply str_eqb_eq in F. subst. rewrite str_eqb_refl in E. discriminate.
Qed.

Lemma dmem_dget {A} (d : list (str * A)) k : dmem d k = true <-> exists v, dget d k = Some v.
Proof.
  unfold dmem. destruct (dget d k).
  - split; [eauto | reflexivity].
  - split; [discriminate | intros [v H]; discriminate].
Qed.

Lemma forallb_ext' {A} (f g : A -> bool) l : (forall x, f x = g x) -> forallb f l = forallb g l.
Proof. intro H. induction l; simpl; [reflexivity | rewrite H, IHl; reflexivity]. Qed.

Lemma existsb_ext' {A} (f g : A -> bool) l : (forall x, f x = g x) -> existsb f l = existsb g l.
Proof. intro H. induction l; simpl; [reflexivity | rewrite H, IHl; reflexivity]. Qed.

Lemma py_eq_PStr_l s v : py_eq (PStr s) v = match v with PStr t => str_eqb s t | _ => false end.
Proof. destruct v; reflexivity. Qed.

Lemma py_eq_PStr_r v s : py_eq v (PStr s) = match v with PStr t => str_eqb t s | _ => false end.
Proof. destruct v; reflexivity. Qed.

(* ------------------------------------------------------------------ *)
(* validators = JSON types                                              *)
(* ------------------------------------------------------------------ *)
Lemma v_in_choices_spec c v : v_in_choices c v = str_is_one_of c v.
Proof.
  unfold v_in_choices, list_contains, str_is_one_of.
  induction c as [|x c IH].
  - destruct v; reflexivity.
  - cbn [map existsb]. rewrite IH, py_eq_PStr_l. destruct v; try reflexivity.
    cbn [existsb]. rewrite (str_eqb_sym s (asc x)). reflexivity.
Qed.

Lemma is_str_tag x : PyVal.is_str x = jtag_eqb (jtag_of x) JString.
Proof. destruct x; reflexivity. Qed.

Lemma validate_ok_iff k v : validate k v = Ok tt <-> json_type_ok k v = true.
Proof.
  destruct k.
  - destruct v; simpl; split; congruence.
  - destruct v; simpl; try (split; congruence).
    match goal with |- context [if ?c then _ else _] => destruct c end; split; congruence.
  - destruct v; simpl; split; congruence.
  - destruct v; simpl; split; congruence.
  - destruct v; simpl; try (split; congruence).
    rewrite (forallb_ext' _ _ l is_str_tag).
    destruct (forallb _ l); split; congruence.
  - destruct v; simpl; split; congruence.
  - simpl. split; congruence.
  - unfold validate, json_type_ok.
    destruct v;
      try (rewrite v_in_choices_spec;
           match goal with |- context [if ?c then _ else _] => destruct c end; split; congruence).
    match goal with |- context [forallb (v_in_choices ?c) ?m] =>
      rewrite (forallb_ext' _ _ m (v_in_choices_spec c)) end.
    match goal with |- context [if ?c then _ else _] => destruct c end; split; congruence.
  - unfold validate, json_type_ok.
    destruct v;
      try (rewrite v_in_choices_spec;
           match goal with |- context [if ?c then _ else _] => destruct c end; split; congruence).
    simpl. split; congruence.
  - unfold validate, json_type_ok.
    destruct v; try (split; congruence).
    match goal with |- context [forallb (v_in_choices ?c) ?m] =>
      rewrite (forallb_ext' _ _ m (v_in_choices_spec c)) end.
    match goal with |- context [if ?c then _ else _] => destruct c end; split; congruence.
  - simpl. split; congruence.
Qed.

Lemma validate_err k v e : validate k v = Err e ->
  e = EValue \/ (e = EOracleMiss /\ kind_known k = false).
Proof.
  destruct k; simpl; try (destruct v; simpl); intro H;
    repeat match type of H with
           | context [if ?c then _ else _] => destruct c
           end; inversion H; auto.
Qed.

(* ------------------------------------------------------------------ *)
(* validate_registry_header                                             *)
(* ------------------------------------------------------------------ *)
Lemma vrh_ok reg h cr :
  validate_registry_header reg h cr = Ok tt <->
  ((cr = true -> required_present reg h = true) /\ types_ok reg h = true).
Proof.
  induction reg as [|p r IH]; simpl.
  - split; [intros _; split; auto | reflexivity].
  - unfold dmem. destruct (dget h (pname p)) as [v|] eqn:G.
    + rewrite andb_false_r, implb_true_r. simpl.
      destruct (validate (hp_kind p) v) as [[]|e] eqn:V.
      * apply validate_ok_iff in V. rewrite V. simpl. exact IH.
      * assert (J : json_type_ok (hp_kind p) v = false).
        { destruct (json_type_ok (hp_kind p) v) eqn:J; [|reflexivity].
          apply validate_ok_iff in J. congruence. }
        rewrite J. simpl. split; [destruct e; discriminate | intros [_ X]; discriminate].
    + simpl negb. rewrite andb_true_r.
      destruct cr, (hp_required p); simpl.
      * split; [discriminate | intros [X _]; specialize (X eq_refl); discriminate].
      * exact IH.
      * rewrite IH. split; intros [A B]; split; auto; intro; discriminate.
      * rewrite IH. split; intros [A B]; split; auto.
Qed.

Lemma vrh_err reg h cr e :
  reg_known reg = true -> validate_registry_header reg h cr = Err e -> e = EValue.
Proof.
  induction reg as [|p r IH]; simpl; intros K H; [discriminate|].
  apply andb_true_iff in K. destruct K as [Kp Kr].
  destruct (cr && hp_required p && negb (dmem h (pname p))); [inversion H; reflexivity|].
  destruct (dget h (pname p)) as [v|]; [|exact (IH Kr H)].
  destruct (validate (hp_kind p) v) as [[]|e'] eqn:V; [exact (IH Kr H)|].
  apply validate_err in V. destruct V as [V|[V1 V2]].
  - subst e'. inversion H. reflexivity.
  - rewrite V2 in Kp. discriminate.
Qed.

Lemma vrh_not_ok reg h cr :
  (exists e, validate_registry_header reg h cr = Err e) ->
  (if cr then required_present reg h else true) && types_ok reg h = false.
Proof.
  intros [e H].
  destruct ((if cr then required_present reg h else true) && types_ok reg h) eqn:E; [|reflexivity].
  apply andb_true_iff in E. destruct E as [E1 E2].
  assert (X : validate_registry_header reg h cr = Ok tt).
  { apply vrh_ok. split; [|exact E2]. intro C. subst cr. exact E1. }
  congruence.
Qed.

(* ------------------------------------------------------------------ *)
(* check_supported_header                                               *)
(* ------------------------------------------------------------------ *)
Lemma str_mem_names reg k : str_mem k (reg_names reg) = existsb (fun p => str_eqb (pname p) k) reg.
Proof. induction reg as [|p r IH]; simpl; [reflexivity | rewrite IH; reflexivity]. Qed.

Lemma supported_ok reg h : check_supported_header reg h = Ok tt <-> no_unregistered reg h = true.
Proof.
  unfold check_supported_header, no_unregistered.
  rewrite (forallb_ext' _ _ (dkeys h) (str_mem_names reg)).
  destruct (forallb _ (dkeys h)); split; congruence.
Qed.

Lemma supported_err reg h e : check_supported_header reg h = Err e -> e = EValue.
Proof. unfold check_supported_header. destruct (forallb _ _); intro H; inversion H; reflexivity. Qed.

Lemma no_unregistered_In reg h :
  no_unregistered reg h = true <-> forall k, In k (dkeys h) -> In k (reg_names reg).
Proof.
  unfold no_unregistered. rewrite forallb_forall. split; intros H k Hk.
  - specialize (H k Hk). rewrite <- str_mem_names in H. apply str_mem_In. exact H.
  - rewrite <- str_mem_names. apply str_mem_In. exact (H k Hk).
Qed.

(* ------------------------------------------------------------------ *)
(* check_crit_header                                                    *)
(* ------------------------------------------------------------------ *)
Lemma crit_loop_strs (h : hdr) l :
  forallb PyVal.is_str l = true ->
  crit_loop h l = if forallb (fun x => match x with PStr s => dmem h s | _ => false end) l
                  then Ok tt else Err EValue.
Proof.
  induction l as [|x l IH]; simpl; [reflexivity|].
  intro H. apply andb_true_iff in H. destruct H as [Hx Hl].
  destruct x; try discriminate. simpl.
  destruct (dmem h s); simpl; [exact (IH Hl) | reflexivity].
Qed.

Lemma present_strs (h : hdr) l :
  forallb (fun x => match x with PStr s => dmem h s | _ => false end) l = true ->
  forallb PyVal.is_str l = true.
Proof.
  induction l as [|x l IH]; simpl; [reflexivity|]. intro H.
  apply andb_true_iff in H. destruct H as [Hx Hl]. destruct x; try discriminate.
  simpl. exact (IH Hl).
Qed.

Lemma check_crit_spec h :
  check_crit_header h = if crit_ok h then Ok tt else Err EValue.
Proof.
  unfold crit_ok, check_crit_header. destruct (dget h crit_name) as [c|]; [|reflexivity].
  destruct c; try reflexivity. simpl.
  destruct (forallb PyVal.is_str l) eqn:S.
  - simpl. apply crit_loop_strs. exact S.
  - destruct (forallb (fun x => match x with PStr s => dmem h s | _ => false end) l) eqn:F; [|reflexivity].
    apply present_strs in F. congruence.
Qed.

(* ------------------------------------------------------------------ *)
(* JWS (rfc7515)                                                        *)
(* ------------------------------------------------------------------ *)
Lemma header_ok_parts reg strict h :
  header_ok reg strict h = true <->
  required_present reg h = true /\ types_ok reg h = true /\ crit_ok h = true /\
  (strict = true -> no_unregistered reg h = true).
Proof.
  unfold header_ok. rewrite !andb_true_iff. destruct strict; simpl; intuition congruence.
Qed.

Lemma jws_iff reg strict h :
  jws_check_header reg strict h = Ok tt <-> header_ok reg strict h = true.
Proof.
  rewrite header_ok_parts. unfold jws_check_header. rewrite check_crit_spec.
  destruct (crit_ok h); simpl.
  - destruct (validate_registry_header reg h true) as [[]|e] eqn:V; simpl.
    + apply vrh_ok in V. destruct V as [Rq T]. specialize (Rq eq_refl).
      destruct strict.
      * rewrite supported_ok. intuition.
      * intuition; discriminate.
    + pose proof (vrh_not_ok reg h true (ex_intro _ e V)) as N.
      split; [discriminate|]. intros [A [B _]]. rewrite A, B in N. discriminate.
  - split; [discriminate|]. intros [_ [_ [K _]]]. discriminate.
Qed.

Lemma jws_err reg strict h e :
  reg_known reg = true -> jws_check_header reg strict h = Err e -> e = EValue.
Proof.
  intros K. unfold jws_check_header. rewrite check_crit_spec.
  destruct (crit_ok h); simpl.
  - destruct (validate_registry_header reg h true) as [[]|e'] eqn:V; simpl.
    + destruct strict; [|discriminate]. intro H. exact (supported_err _ _ _ H).
    + intro H. inversion H. subst. exact (vrh_err _ _ _ _ K V).
  - intro H. inversion H. reflexivity.
Qed.

(* ------------------------------------------------------------------ *)
(* rfc7797                                                              *)
(* ------------------------------------------------------------------ *)
Lemma safe_b64_spec h :
  (if dmem h b64_name then safe_b64_header h else Ok tt) =
  if b64_ok h then Ok tt else Err EValue.
Proof.
  unfold b64_ok, safe_b64_header. destruct (dmem h b64_name); [|reflexivity].
  destruct (dget h crit_name) as [c|]; [|reflexivity].
  destruct c; try reflexivity.
  unfold list_contains.
  rewrite (existsb_ext' (fun y => py_eq y (PStr b64_name))
             (fun x => match x with PStr s => str_eqb s b64_name | _ => false end) l
             (fun y => py_eq_PStr_r y b64_name)).
  destruct (existsb _ l); reflexivity.
Qed.

Lemma jws7797_iff reg strict h :
  jws7797_check_header reg strict h = Ok tt <-> header_ok7797 reg strict h = true.
Proof.
  unfold jws7797_check_header, header_ok7797. rewrite safe_b64_spec.
  destruct (b64_ok h); simpl.
  - rewrite andb_true_r. apply jws_iff.
  - rewrite andb_false_r. split; discriminate.
Qed.

Lemma jws7797_err reg strict h e :
  reg_known reg = true -> jws7797_check_header reg strict h = Err e -> e = EValue.
Proof.
  intro K. unfold jws7797_check_header. rewrite safe_b64_spec.
  destruct (b64_ok h); simpl.
  - intro H. exact (jws_err _ _ _ _ K H).
  - intro H. inversion H. reflexivity.
Qed.

(* ------------------------------------------------------------------ *)
(* registry.update                                                      *)
(* ------------------------------------------------------------------ *)
Lemma reg_set_names r p k :
  In k (reg_names (reg_set r p)) <-> In k (reg_names r) \/ k = pname p.
Proof.
  induction r as [|q r IH]; simpl.
  - intuition.
  - destruct (str_eqb (pname q) (pname p)) eqn:E; simpl.
    + apply str_eqb_eq in E. rewrite E. intuition.
    + rewrite IH. intuition.
Qed.

Lemma reg_update_names e : forall r k,
  In k (reg_names (reg_update r e)) <-> In k (reg_names r) \/ In k (reg_names e).
Proof.
  unfold reg_update. induction e as [|p e IH]; simpl; intros r k.
  - intuition.
  - rewrite IH, reg_set_names. intuition.
Qed.

Lemma no_unregistered_update reg more h :
  no_unregistered (reg_update reg more) h = no_unregistered (reg ++ more) h.
Proof.
  destruct (no_unregistered (reg ++ more) h) eqn:E.
  - apply no_unregistered_In. intros k Hk.
    apply (proj1 (no_unregistered_In _ _) E) in Hk.
    apply reg_update_names. unfold reg_names in *. rewrite map_app in Hk.
    apply in_app_or in Hk. exact Hk.
  - destruct (no_unregistered (reg_update reg more) h) eqn:F; [|reflexivity].
    assert (X : no_unregistered (reg ++ more) h = true).
    { apply no_unregistered_In. intros k Hk.
      apply (proj1 (no_unregistered_In _ _) F) in Hk.
      apply reg_update_names in Hk. unfold reg_names in *. rewrite map_app.
      apply in_or_app. exact Hk. }
    congruence.
Qed.

(* an entry of the registry survives update by entries with other names *)
Lemma reg_set_keeps r p q :
  In q r -> pname q <> pname p -> In q (reg_set r p).
Proof.
  induction r as [|x r IH]; simpl; [tauto|].
  intros [H|H] N.
  - subst x. destruct (str_eqb (pname q) (pname p)) eqn:E.
    + apply str_eqb_eq in E. contradiction.
    + left. reflexivity.
  - destruct (str_eqb (pname x) (pname p)); simpl; auto.
Qed.

Lemma reg_update_keeps e : forall r q,
  In q r -> ~ In (pname q) (reg_names e) -> In q (reg_update r e).
Proof.
  unfold reg_update. induction e as [|p e IH]; simpl; intros r q H N; [exact H|].
  apply IH.
  - apply reg_set_keeps; [exact H|]. intro E. apply N. left. symmetry. exact E.
  - intro X. apply N. right. exact X.
Qed.

Lemma reg_set_in r p : In p (reg_set r p).
Proof.
  induction r as [|x r IH]; simpl; [auto|].
  destruct (str_eqb (pname x) (pname p)); simpl; auto.
Qed.

(* a caller-registered entry is in the merged registry *)
Lemma reg_update_extra e : forall r p,
  NoDup (reg_names e) -> In p e -> In p (reg_update r e).
Proof.
  induction e as [|q e IH]; simpl; intros r p ND H; [contradiction|].
  inversion ND as [|x l Hn Hd]; subst.
  destruct H as [H|H].
  - subst q. apply reg_update_keeps; [apply reg_set_in | exact Hn].
  - exact (IH _ _ Hd H).
Qed.

Lemma reg_has_In reg n k rq :
  reg_has reg n k rq = true <->
  exists p, In p reg /\ pname p = n /\ k (hp_kind p) = true /\ (rq = true -> hp_required p = true).
Proof.
  unfold reg_has. rewrite existsb_exists. split.
  - intros [p [Hp H]]. apply andb_true_iff in H. destruct H as [H Hr].
    apply andb_true_iff in H. destruct H as [Hn Hk]. apply str_eqb_eq in Hn.
    exists p. repeat split; auto. intro; subst rq. exact Hr.
  - intros [p [Hp [Hn [Hk Hr]]]]. exists p. split; [exact Hp|].
    rewrite Hn, str_eqb_refl, Hk. simpl. destruct rq; simpl; auto.
Qed.

Lemma reg_has_update reg extra n k rq :
  reg_has reg n k rq = true -> ~ In n (reg_names extra) ->
  reg_has (reg_update reg extra) n k rq = true.
Proof.
  intros H N. apply reg_has_In in H. destruct H as [p [Hp [Hn [Hk Hr]]]].
  apply reg_has_In. exists p. repeat split; auto.
  apply reg_update_keeps; [exact Hp | rewrite Hn; exact N].
Qed.

Lemma mk_registry_has default extra n k rq :
  reg_has (reg_update [] default) n k rq = true -> ~ In n (reg_names extra) ->
  reg_has (mk_registry default extra) n k rq = true.
Proof. unfold mk_registry. apply reg_has_update. Qed.

Lemma reg_known_set r p : reg_known r = true -> kind_known (hp_kind p) = true -> reg_known (reg_set r p) = true.
Proof.
  induction r as [|q r IH]; simpl; intros K Kp.
  - rewrite Kp. reflexivity.
  - apply andb_true_iff in K. destruct K as [Kq Kr].
    destruct (str_eqb (pname q) (pname p)); simpl.
    + rewrite Kp, Kr. reflexivity.
    + rewrite Kq, (IH Kr Kp). reflexivity.
Qed.

Lemma reg_known_update e : forall r, reg_known r = true -> reg_known e = true -> reg_known (reg_update r e) = true.
Proof.
  unfold reg_update. induction e as [|p e IH]; simpl; intros r K Ke; [exact K|].
  apply andb_true_iff in Ke. destruct Ke as [Kp Ke].
  apply IH; [apply reg_known_set; assumption | exact Ke].
Qed.

(* ------------------------------------------------------------------ *)
(* JWE (rfc7516)                                                        *)
(* ------------------------------------------------------------------ *)
Lemma find_alg_sym tbl s : find_alg tbl s = find (fun r => str_eqb s (asc (ea_name r))) tbl.
Proof.
  unfold find_alg. induction tbl as [|r t IH]; simpl; [reflexivity|].
  rewrite (str_eqb_sym (asc (ea_name r)) s), IH. reflexivity.
Qed.

Lemma name_in_sym l s : name_in l s = existsb (fun x => str_eqb s (asc x)) l.
Proof. unfold name_in. apply existsb_ext'. intro x. apply str_eqb_sym. Qed.

Lemma pool_permitted rec allowed s :
  name_in (match allowed with Some (a :: l) => a :: l | _ => rec end) s = alg_permitted rec allowed s.
Proof. unfold alg_permitted. destruct allowed as [[|a l]|]; apply name_in_sym. Qed.

Lemma no_unregistered_app_nil reg h : no_unregistered (reg ++ []) h = no_unregistered reg h.
Proof. rewrite app_nil_r. reflexivity. Qed.

Lemma jwe_iff tbl rec allowed reg strict h cm :
  jwe_check_header tbl rec allowed reg strict h cm = Ok tt <->
  header_ok_jwe tbl rec allowed reg strict h cm = true.
Proof.
  unfold jwe_check_header, header_ok_jwe.
  assert (B : (do _ <- check_crit_header h; validate_registry_header reg h true) = Ok tt
              <-> header_ok reg false h = true).
  { pose proof (jws_iff reg false h) as J. unfold jws_check_header in J.
    destruct (check_crit_header h) as [[]|e]; simpl in *.
    - destruct (validate_registry_header reg h true) as [[]|e]; simpl in *; exact J.
    - exact J. }
  destruct (check_crit_header h) as [[]|e]; simpl in *.
  2:{ destruct (header_ok reg false h); [|split; discriminate].
      destruct B as [_ B]. specialize (B eq_refl). discriminate. }
  destruct (validate_registry_header reg h true) as [[]|e]; simpl in *.
  2:{ destruct (header_ok reg false h); [|split; discriminate].
      destruct B as [_ B]. specialize (B eq_refl). discriminate. }
  rewrite (proj1 B eq_refl). simpl.
  destruct (dget h alg_name) as [a|]; simpl; [|split; discriminate].
  destruct a; simpl; try (split; discriminate).
  rewrite find_alg_sym.
  destruct (find _ tbl) as [row|]; simpl; [|split; discriminate].
  rewrite pool_permitted.
  destruct (alg_permitted rec allowed s); simpl; [|split; discriminate].
  destruct (ea_more row) as [|m more] eqn:M.
  - simpl. rewrite no_unregistered_app_nil.
    destruct strict; simpl.
    + rewrite supported_ok. destruct cm; simpl; tauto.
    + destruct cm; simpl; tauto.
  - destruct (validate_registry_header (m :: more) h cm) as [[]|e] eqn:V; cbn [bind].
    + apply vrh_ok in V. destruct V as [Rq T]. rewrite T.
      assert (Rq' : implb cm (required_present (m :: more) h) = true).
      { destruct cm; cbn [implb]; auto. }
      rewrite Rq'. cbn [andb].
      destruct strict; cbn [implb].
      * rewrite supported_ok, no_unregistered_update. tauto.
      * tauto.
    + pose proof (vrh_not_ok (m :: more) h cm (ex_intro _ e V)) as N.
      split; [discriminate|]. intro H.
      apply andb_true_iff in H. destruct H as [H _].
      apply andb_true_iff in H. destruct H as [H1 H2].
      destruct cm; simpl in *; rewrite ?H1, H2 in N; discriminate.
Qed.

Lemma tbl_known_row tbl s row :
  tbl_known tbl = true -> find_alg tbl s = Some row -> reg_known (ea_more row) = true.
Proof.
  intros K F. unfold find_alg in F. apply find_some in F. destruct F as [Hin _].
  unfold tbl_known in K. rewrite forallb_forall in K. exact (K row Hin).
Qed.

(* without any assumption on how the caller registered alg: the only other
   escape is KeyError from header["alg"] when alg is absent (and not required) *)
Lemma jwe_err_any tbl rec allowed reg strict h cm e :
  reg_known reg = true -> tbl_known tbl = true ->
  jwe_check_header tbl rec allowed reg strict h cm = Err e ->
  e = EValue \/ e = EJose UnsupportedAlgorithmError \/ (e = EKey /\ dget h alg_name = None).
Proof.
  intros K KT. unfold jwe_check_header. rewrite check_crit_spec.
  destruct (crit_ok h); simpl; [|intro H; inversion H; auto].
  destruct (validate_registry_header reg h true) as [[]|e'] eqn:V; simpl.
  2:{ intro H. inversion H. subst. left. exact (vrh_err _ _ _ _ K V). }
  destruct (dget h alg_name) as [a|] eqn:G; simpl; [|intro H; inversion H; auto].
  destruct a; simpl; try (intro H; inversion H; auto; fail).
  destruct (find_alg tbl s) as [row|] eqn:F; simpl; [|intro H; inversion H; auto].
  destruct (name_in _ s); simpl; [|intro H; inversion H; auto].
  pose proof (tbl_known_row tbl s row KT F) as KR.
  destruct (ea_more row) as [|m more] eqn:M.
  - destruct strict; [|discriminate]. intro H. left. exact (supported_err _ _ _ H).
  - destruct (validate_registry_header (m :: more) h cm) as [[]|e'] eqn:V2; simpl.
    + destruct strict; [|discriminate]. intro H. left. exact (supported_err _ _ _ H).
    + intro H. inversion H. subst. left. exact (vrh_err _ _ _ _ KR V2).
Qed.

Lemma reg_requires_present reg h n k :
  reg_has reg n k true = true -> validate_registry_header reg h true = Ok tt ->
  exists v, dget h n = Some v.
Proof.
  intros A V. apply vrh_ok in V. destruct V as [Rq _]. specialize (Rq eq_refl).
  apply reg_has_In in A. destruct A as [p [Hp [Hn [_ Hr]]]]. specialize (Hr eq_refl).
  unfold required_present in Rq. rewrite forallb_forall in Rq. specialize (Rq p Hp).
  rewrite Hr, Hn in Rq. simpl in Rq. apply dmem_dget in Rq. exact Rq.
Qed.

Lemma jwe_err tbl rec allowed reg strict h cm e :
  reg_known reg = true -> tbl_known tbl = true -> reg_has_alg reg = true ->
  jwe_check_header tbl rec allowed reg strict h cm = Err e ->
  e = EValue \/ e = EJose UnsupportedAlgorithmError.
Proof.
  intros K KT A H.
  destruct (jwe_err_any _ _ _ _ _ _ _ _ K KT H) as [E|[E|[E G]]]; auto.
  exfalso. subst e. unfold jwe_check_header in H. rewrite check_crit_spec in H.
  destruct (crit_ok h); simpl in H; [|discriminate].
  destruct (validate_registry_header reg h true) as [[]|e'] eqn:V; simpl in H.
  - destruct (reg_requires_present reg h alg_name is_VStr A V) as [v G']. congruence.
  - inversion H. subst e'. pose proof (vrh_err _ _ _ _ K V). discriminate.
Qed.

(* ------------------------------------------------------------------ *)
(* executable spec = declarative spec                                   *)
(* ------------------------------------------------------------------ *)
Lemma required_present_iff reg h : required_present reg h = true <-> required_present_P reg h.
Proof.
  unfold required_present, required_present_P. rewrite forallb_forall. split.
  - intros H p Hp Hr. specialize (H p Hp). rewrite Hr in H. simpl in H. apply dmem_dget. exact H.
  - intros H p Hp. destruct (hp_required p) eqn:Hr; [|reflexivity]. simpl.
    apply dmem_dget. exact (H p Hp Hr).
Qed.

Lemma types_ok_iff reg h : types_ok reg h = true <-> types_ok_P reg h.
Proof.
  unfold types_ok, types_ok_P. rewrite forallb_forall. split.
  - intros H p v Hp G. specialize (H p Hp). rewrite G in H. exact H.
  - intros H p Hp. destruct (dget h (pname p)) as [v|] eqn:G; [|reflexivity]. exact (H p v Hp G).
Qed.

Lemma crit_ok_iff h : crit_ok h = true <-> crit_ok_P h.
Proof.
  unfold crit_ok, crit_ok_P. destruct (dget h crit_name) as [c|].
  - split.
    + intros H c' E. inversion E; subst c'. destruct c; try discriminate.
      exists l. split; [reflexivity|]. rewrite forallb_forall in H.
      intros x Hx. specialize (H x Hx). destruct x; try discriminate.
      exists s. split; [reflexivity|]. apply dmem_dget. exact H.
    + intro H. destruct (H c eq_refl) as [l [E Hl]]. subst c.
      rewrite forallb_forall. intros x Hx. destruct (Hl x Hx) as [s [E V]]. subst x.
      apply dmem_dget. exact V.
  - split; [intros _ c E; discriminate | reflexivity].
Qed.

Lemma no_unregistered_iff reg h : no_unregistered reg h = true <-> no_unregistered_P reg h.
Proof.
  rewrite no_unregistered_In. unfold no_unregistered_P, reg_names. split; intros H k Hk.
  - specialize (H k Hk). apply in_map_iff in H. destruct H as [p [E Hp]]. eauto.
  - destruct (H k Hk) as [p [Hp E]]. apply in_map_iff. eauto.
Qed.

Lemma b64_ok_iff h : b64_ok h = true <-> b64_ok_P h.
Proof.
  unfold b64_ok, b64_ok_P. destruct (dmem h b64_name) eqn:M.
  - apply dmem_dget in M. split.
    + intros H _. destruct (dget h crit_name) as [c|]; [|discriminate].
      destruct c; try discriminate. exists l. split; [reflexivity|].
      apply existsb_exists in H. destruct H as [x [Hx E]]. destruct x; try discriminate.
      apply str_eqb_eq in E. subst s. exact Hx.
    + intro H. destruct (H M) as [l [G I]]. rewrite G.
      apply existsb_exists. exists (PStr b64_name). split; [exact I | apply str_eqb_refl].
  - split; [|reflexivity]. intros _ [v G]. unfold dmem in M. rewrite G in M. discriminate.
Qed.

Lemma header_ok_iff_P reg strict h : header_ok reg strict h = true <-> header_ok_P reg strict h.
Proof.
  rewrite header_ok_parts. unfold header_ok_P.
  rewrite required_present_iff, types_ok_iff, crit_ok_iff, no_unregistered_iff. tauto.
Qed.

(* ------------------------------------------------------------------ *)
(* merged headers                                                       *)
(* ------------------------------------------------------------------ *)
Lemma dupdate_lookup {A} (e : list (str * A)) : forall d k,
  dget (dupdate d e) k = match dget_last e k with Some v => Some v | None => dget d k end.
Proof.
  unfold dupdate. induction e as [|[k' v] e IH]; intros d k; simpl; [reflexivity|].
  rewrite IH. destruct (dget_last e k); [reflexivity|].
  destruct (str_eqb k' k) eqn:E.
  - apply str_eqb_eq in E. subst. apply dget_dset_same.
  - apply dget_dset_other. apply str_eqb_neq. exact E.
Qed.

Lemma merge_parts_lookup_acc (parts : list hdr) : forall (acc : hdr) k,
  dget (fold_left (fun a p => dupdate a p) parts acc) k =
  match last_some (map (fun p => dget_last p k) parts) with Some v => Some v | None => dget acc k end.
Proof.
  induction parts as [|p ps IH]; intros acc k; simpl; [reflexivity|].
  rewrite IH. destruct (last_some _); [reflexivity|].
  apply dupdate_lookup.
Qed.

Lemma merge_parts_lookup parts k :
  dget (merge_parts parts) k = last_some (map (fun p => dget_last p k) parts).
Proof.
  unfold merge_parts. rewrite merge_parts_lookup_acc. simpl.
  destruct (last_some _); reflexivity.
Qed.

(* ------------------------------------------------------------------ *)
(* readable consequences                                                *)
(* ------------------------------------------------------------------ *)
Lemma reg_has_str_present reg strict h n :
  reg_has reg n is_VStr true = true -> header_ok reg strict h = true ->
  exists s, dget h n = Some (PStr s).
Proof.
  intros A H. apply header_ok_parts in H. destruct H as [Rq [T _]].
  apply reg_has_In in A. destruct A as [p [Hp [Hn [Hk Hr]]]]. specialize (Hr eq_refl).
  unfold required_present in Rq. rewrite forallb_forall in Rq. specialize (Rq p Hp).
  rewrite Hr, Hn in Rq. simpl in Rq. apply dmem_dget in Rq. destruct Rq as [v G].
  unfold types_ok in T. rewrite forallb_forall in T. specialize (T p Hp).
  rewrite Hn, G in T. destruct (hp_kind p); try discriminate.
  destruct v; try discriminate. eauto.
Qed.

Lemma reg_has_bool_typed reg strict h n v :
  reg_has reg n is_VBool false = true -> header_ok reg strict h = true ->
  dget h n = Some v -> exists b, v = PBool b.
Proof.
  intros A H G. apply header_ok_parts in H. destruct H as [_ [T _]].
  apply reg_has_In in A. destruct A as [p [Hp [Hn [Hk _]]]].
  unfold types_ok in T. rewrite forallb_forall in T. specialize (T p Hp).
  rewrite Hn, G in T. destruct (hp_kind p); try discriminate.
  destruct v; try discriminate. eauto.
Qed.

(* what an accepted JWE header guarantees about the algorithm-specific parameters *)
Lemma jwe_accept_more tbl rec allowed reg strict h cm :
  jwe_check_header tbl rec allowed reg strict h cm = Ok tt ->
  exists s row,
    dget h alg_name = Some (PStr s) /\ find_alg tbl s = Some row /\
    alg_permitted rec allowed s = true /\
    (cm = true -> required_present_P (ea_more row) h) /\
    types_ok_P (ea_more row) h /\
    (strict = true -> forall k, In k (dkeys h) -> In k (reg_names reg) \/ In k (reg_names (ea_more row))).
Proof.
  intro H. apply jwe_iff in H. unfold header_ok_jwe in H.
  apply andb_true_iff in H. destruct H as [_ H].
  destruct (dget h alg_name) as [a|]; [|discriminate].
  destruct a; try discriminate.
  rewrite <- find_alg_sym in H.
  destruct (find_alg tbl s) as [row|] eqn:F; [|discriminate].
  apply andb_true_iff in H. destruct H as [H H4].
  apply andb_true_iff in H. destruct H as [H H3].
  apply andb_true_iff in H. destruct H as [H1 H2].
  exists s, row. repeat split; auto.
  - intro C. subst cm. simpl in H2. apply required_present_iff. exact H2.
  - apply types_ok_iff. exact H3.
  - intros C k Hk. subst strict. simpl in H4.
    apply (proj1 (no_unregistered_In _ _) H4) in Hk.
    unfold reg_names in *. rewrite map_app in Hk. apply in_app_or in Hk. exact Hk.
Qed.

(* a caller-registered parameter is accepted: adding it, well-typed, to an
   accepted header keeps the header accepted (strict mode included) *)
Lemma dget_app_new {A} (h : list (str * A)) n v k :
  dget (h ++ [(n, v)]) k =
  match dget h k with Some x => Some x | None => if str_eqb n k then Some v else None end.
Proof.
  induction h as [|[k' v'] h IH]; simpl; [reflexivity|].
  destruct (str_eqb k' k); [reflexivity | exact IH].
Qed.

Lemma header_ok_add reg strict h n v :
  header_ok reg strict h = true ->
  dmem h n = false -> n <> crit_name ->
  (forall p, In p reg -> pname p = n -> json_type_ok (hp_kind p) v = true) ->
  (exists p, In p reg /\ pname p = n) ->
  header_ok reg strict (h ++ [(n, v)]) = true.
Proof.
  intros H M NC T [p0 [Hp0 Hn0]].
  apply header_ok_parts in H. destruct H as [Rq [Ty [C S]]].
  apply header_ok_parts.
  assert (MEM : forall k, dmem h k = true -> dmem (h ++ [(n, v)]) k = true).
  { intros k Hk. unfold dmem in *. rewrite dget_app_new. destruct (dget h k); [reflexivity | discriminate]. }
  repeat split.
  - unfold required_present in *. rewrite forallb_forall in *. intros p Hp.
    specialize (Rq p Hp). destruct (hp_required p); [|reflexivity]. simpl in *. apply MEM. exact Rq.
  - unfold types_ok in *. rewrite forallb_forall in *. intros p Hp.
    specialize (Ty p Hp). rewrite dget_app_new.
    destruct (dget h (pname p)) eqn:G; [exact Ty|].
    destruct (str_eqb n (pname p)) eqn:E; [|reflexivity].
    apply str_eqb_eq in E. apply (T p Hp). symmetry. exact E.
  - unfold crit_ok in *. rewrite dget_app_new.
    destruct (dget h crit_name) as [c|] eqn:G.
    + destruct c; try discriminate. rewrite forallb_forall in *. intros x Hx.
      specialize (C x Hx). destruct x; try discriminate. apply MEM. exact C.
    + destruct (str_eqb n crit_name) eqn:E; [|reflexivity].
      apply str_eqb_eq in E. contradiction.
  - intro St. specialize (S St).
    apply no_unregistered_In. intros k Hk.
    unfold dkeys in Hk. rewrite map_app in Hk. apply in_app_or in Hk. destruct Hk as [Hk|Hk].
    + exact (proj1 (no_unregistered_In _ _) S k Hk).
    + simpl in Hk. destruct Hk as [Hk|[]]. subst k. unfold reg_names.
      apply in_map_iff. exists p0. split; [exact Hn0 | exact Hp0].
Qed.
