(* ComposeJwsSound.v — ONE end-to-end soundness statement for jwt.decode over the
   JWS pipeline model, collecting the transfers of ComposeJwsPipe / ComposeJwsEntry:
   claims are returned only for a token h.p.s whose signature verified over the
   received segments, whose header is the JSON object of the protected segment
   (the wire header) and satisfies C15's spec, whose alg passed C05's gate and whose
   key passed C06's gates; a token the JWS transport refuses never decodes. *)
From Coq Require Import String List NArith ZArith Bool Lia.
From Model Require Import Base PyVal TableTypes ComposeDefs.
From Model Require Import Jws.
From Model Require Json JwsJson C05Model C06Model C06Spec C15Spec C09Jwt C09Spec.
From Gen Require Import Tables.
From Proofs Require Import JwsProofs.
From Proofs Require C01Proofs JwsJsonProofs C09Proofs ComposeJwsEq ComposeJwsC06 ComposeJwsPipe ComposeJwsJwt.
Import ListNotations.
Open Scope N_scope.

(* the JSON object of the protected segment of a compact JWS (Gallina JSON parser) *)
Definition jws_wire_header (tok : bytes) : option (list (str * pv)) :=
  match split_dot tok with
  | [hseg; _; _] =>
      match b64d hseg with
      | Ok raw => match Json.json_loads raw with
                  | Json.POk (PDict d) => Some d
                  | _ => None
                  end
      | Err _ => None
      end
  | _ => None
  end.

Section Sound.
  Variable mac : string -> N -> bytes -> res bytes.
  Variable pk_verify : jws_alg_row -> N -> bytes -> bytes -> res bool.
  Variable ec_verify : jws_alg_row -> N -> bytes -> Z -> Z -> res bool.
  Notation tdec := (ComposeJwsJwt.jws_tdec mac pk_verify ec_verify).

  (* what an accepting JWS transport call established *)
  Definition jws_accepted (src : keysrc) (algs : option (list str)) (tok : bytes)
             (h : list (str * pv)) (payload : bytes) : Prop :=
    exists hseg pseg sseg raw r k sig,
      tok = hseg ++ 46 :: pseg ++ 46 :: sseg /\
      no_dot hseg = true /\ no_dot pseg = true /\ no_dot sseg = true /\
      (* the header returned is the wire header *)
      b64d hseg = Ok raw /\ Json.json_loads raw = Json.POk (PDict h) /\
      b64d pseg = Ok payload /\
      (* C15 *)
      C15Spec.header_ok jws_default_header_registry true h = true /\
      (* C05 *)
      (exists s, dget h s_alg = Some (PStr s) /\
         C05Model.find_row ja_name jws_alg_table s = Some r /\
         In (PStr s) (C05Model.effective (allowed_list algs) jws_recommended) /\
         ja_family r <> "none"%string /\ s <> asc "none") /\
      (* the signature verified, over the received segments, with the resolved key *)
      guess_key src (PDict h) = Ok k /\ b64d sseg = Ok sig /\
      alg_verify mac pk_verify ec_verify r k (hseg ++ 46 :: pseg) sig = Ok true /\
      (* C06 *)
      (exists k6, to06 k = Some k6 /\ (C06Spec.key_wf k6 -> C06Spec.jws_suitable (ja_name r) false k6)).

  Theorem jws_tdec_accepted src algs tok h p :
    tdec src algs tok = Ok (h, p) -> jws_accepted src algs tok h p.
  Proof.
    unfold ComposeJwsJwt.jws_tdec. intro H. bstep H as o D.
    destruct (co_protected o) as [| | | | | | |d] eqn:CP; try discriminate. inversion H; subst d p. clear H.
    unfold deserialize_compact in D.
    pose proof (C01Proofs.compact_sound_rg _ _ _ _ _ _ _ _ D) as (T & A & B & Cc & (raw & R1 & R2) & P & _ & _).
    destruct (ComposeJwsPipe.compact_ran _ _ _ _ _ _ _ _ D) as (h' & r & k & E & R).
    rewrite CP in E. inversion E; subst h'.
    pose proof (ComposeJwsPipe.ran_c15 _ _ _ false algs _ _ _ _ _ _ R) as C15.
    pose proof (ComposeJwsPipe.ran_c05 _ _ _ _ _ _ _ _ _ _ R) as C05.
    pose proof (ComposeJwsPipe.ran_c06 _ _ _ _ _ _ _ _ _ _ R) as C06.
    destruct R as (algv & sig & _ & _ & _ & GK & _ & _ & BD & AV).
    exists (co_hseg o), (co_pseg o), (co_sseg o), raw, r, k, sig.
    rewrite CP in R2. apply JwsJsonProofs.g_loads_ok in R2.
    repeat (split; [assumption|]). exact C06.
  Qed.

  Lemma jws_accepted_wire src algs tok h p : jws_accepted src algs tok h p -> jws_wire_header tok = Some h.
  Proof.
    intros (hseg & pseg & sseg & raw & r & k & sig & T & A & B & Cc & R1 & R2 & _).
    unfold jws_wire_header. rewrite T, (split3 hseg pseg sseg A B Cc), R1, R2. reflexivity.
  Qed.

  (* C09's wire-header contract, discharged for the JWS transport *)
  Theorem jws_tdec_wire_header src algs tok h p :
    tdec src algs tok = Ok (h, p) -> jws_wire_header tok = Some h.
  Proof. intro H. exact (jws_accepted_wire _ _ _ _ _ (jws_tdec_accepted _ _ _ _ _ H)). Qed.

  (* jws.validate_compact: any verdict (True or False) is returned only for a header that
     satisfies C15's spec (the pipeline form of c15_validate_compact_checks_header) *)
  Theorem validate_compact_checks_header o src b algs verdict :
    validate_compact mac pk_verify ec_verify o src (ComposeJwsPipe.rgof b algs) = Ok verdict ->
    exists h, co_protected o = PDict h /\ ComposeJwsPipe.hdr_spec b h = true.
  Proof.
    unfold validate_compact. intro H. bstep H as u CH. destruct u.
    destruct (ComposeJwsEq.check_header_ok_dict _ _ CH) as [h E]. exists h. split; [exact E|].
    rewrite E in CH. exact (proj1 (ComposeJwsPipe.check_header_spec b algs h) CH).
  Qed.

  Variable json_loads : bytes -> res pv.

  (* jwt.decode over the JWS pipeline *)
  Theorem jwt_decode_jws_sound src algs tok h v :
    C09Jwt.decode json_loads (tdec src algs) tok = Ok (h, v) ->
    is_dict v = true /\ jws_wire_header tok = Some h /\
    exists payload, jws_accepted src algs tok h payload /\ json_loads payload = Ok v.
  Proof.
    intro H. apply C09Proofs.decode_ok_iff in H. destruct H as (p & T & J & D).
    split; [exact D|]. split; [exact (jws_tdec_wire_header _ _ _ _ _ T)|].
    exists p. split; [exact (jws_tdec_accepted _ _ _ _ _ T)|exact J].
  Qed.

  (* a token the pipeline refuses (bad signature, refused alg / key / header ...) never decodes:
     jwt.decode raises the pipeline's error, whatever the payload parser *)
  Theorem jwt_decode_jws_forged src algs tok e :
    deserialize_compact JwsJson.g_loads mac pk_verify ec_verify tok src algs = Err e ->
    C09Jwt.decode json_loads (tdec src algs) tok = Err e.
  Proof.
    intro H. apply C09Proofs.decode_transport_error. unfold ComposeJwsJwt.jws_tdec. rewrite H. reflexivity.
  Qed.
End Sound.
