(* ComposeJweC18.v — C18 (draw discipline of the encrypt side) against the JWE
   pipeline model.  The JWE model takes the random values as INPUTS
   (edraw: d_civ, d_cek, per recipient d_kwiv, d_p2s); C18 says which draws are
   made, of which size, and where they end up.  Here: the JWE model consumes an
   input exactly at the sites where C18 makes a draw (same conditions on the
   algorithm row, read from the same tables), puts it where C18 says it ends up,
   and the sizes C18 gives are the ones C04's round trip asks of the inputs. *)
From Coq Require Import String List NArith ZArith Bool Lia.
From Model Require Import Base PyVal TableTypes.
From Model Require Import JweKeys ComposeJweDefs.
From Model Require C18Model.
From Gen Require Import Tables.
From Proofs Require JwsProofs C04Proofs C04Multi ComposeJwsEq ComposeJwsC06 ComposeJweJwt.
Import ListNotations.
Open Scope N_scope.

Ltac bst H x E := apply JwsProofs.bind_ok in H; destruct H as (x & E & H).

(* ---------- the row predicates are the same ---------- *)
Lemma fam_eq a f : C18Model.fam a f = fam_is (ea_family a) f.
Proof. unfold C18Model.fam, fam_is. symmetry. apply ComposeJwsC06.str_eqb_asc. Qed.

Lemma is_agreement_eq a : C18Model.is_agreement a = JweCrypto.is_agreement a.
Proof. unfold C18Model.is_agreement, JweCrypto.is_agreement. rewrite !fam_eq. reflexivity. Qed.

Lemma find_alg_eq n : C18Model.find_alg jwe_alg_table_drafts n = JweMsg.find_alg (asc n).
Proof.
  unfold C18Model.find_alg, JweMsg.find_alg. apply ComposeJwsEq.find_ext'.
  intro r. symmetry. apply ComposeJwsC06.str_eqb_asc.
Qed.

Lemma find_enc_eq n : C18Model.find_enc jwe_enc_table_drafts n = JweMsg.find_enc (asc n).
Proof.
  unfold C18Model.find_enc, JweMsg.find_enc. apply ComposeJwsEq.find_ext'.
  intro r. symmetry. apply ComposeJwsC06.str_eqb_asc.
Qed.

(* ---------- sizes: what C18 draws is what C04 / C09 ask of the inputs ---------- *)
Lemma enc_sizes_whole :
  forallb (fun e => (ee_iv_size e mod 8 =? 0) && (ee_cek_size e mod 8 =? 0)) jwe_enc_table_drafts = true.
Proof. vm_compute. reflexivity. Qed.

Theorem c18_sizes_fit e (iv cek : bytes) :
  In e jwe_enc_table_drafts ->
  lenN iv = ee_iv_size e / 8 -> lenN cek = ee_cek_size e / 8 ->
  lenN iv * 8 = ee_iv_size e /\ lenN cek * 8 = ee_cek_size e.
Proof.
  intros I LI LC. pose proof enc_sizes_whole as F. rewrite forallb_forall in F. specialize (F e I).
  apply andb_true_iff in F. destruct F as [A B]. apply N.eqb_eq in A, B.
  rewrite LI, LC. split.
  - rewrite N.mul_comm. symmetry. apply N.div_exact; [lia|exact A].
  - rewrite N.mul_comm. symmetry. apply N.div_exact; [lia|exact B].
Qed.

Lemma get_enc_in g v e : get_enc g v = Ok e -> In e jwe_enc_table_drafts.
Proof.
  unfold get_enc. destruct v; try discriminate. cbn [name_of bind].
  unfold JweMsg.find_enc. destruct (find _ jwe_enc_table_drafts) as [r|] eqn:F; [|discriminate].
  intro H. bst H u CA. inversion H; subst. exact (proj1 (find_some _ _ F)).
Qed.

(* ---------- sites ---------- *)
Section Sites.
  Variable O : oracles.
  Variable g : registry.

  Definition rdraw_of (d : edraw) : rdraw := match d_rec d with d0 :: _ => d0 | [] => no_rdraw end.

  (* where encrypt_cek puts the per-recipient inputs (compact serialization) *)
  Lemma encrypt_cek_sites a prot unprot r d cek prot2 r2 ek :
    r_header r = PNone ->
    encrypt_cek O a Compact prot unprot r d cek = Ok (prot2, r2, ek) ->
    (C18Model.fam a "AESGCMKW" = true -> dget prot2 (s_ "iv") = Some (PStr (b64e (d_kwiv d)))) /\
    (C18Model.fam a "PBES2" = true -> dget prot (s_ "p2s") = None ->
       dget prot2 (s_ "p2s") = Some (PStr (b64e (d_p2s d)))) /\
    (C18Model.fam a "PBES2" = true -> forall v, dget prot (s_ "p2s") = Some v -> dget prot2 (s_ "p2s") = Some v) /\
    (C18Model.fam a "AESGCMKW" = false -> C18Model.fam a "PBES2" = false -> prot2 = prot).
  Proof.
    intros RH H. rewrite !fam_eq. unfold encrypt_cek in H.
    destruct (fam_is (ea_family a) "RSA") eqn:F1.
    { assert (G : fam_is (ea_family a) "AESGCMKW" = false /\ fam_is (ea_family a) "PBES2" = false).
      { unfold fam_is in *. apply str_eqb_eq in F1.
        split; apply str_eqb_neq; rewrite F1; vm_compute; discriminate. }
      destruct G as [G1 G2]. rewrite G1, G2.
      bst H u CK. bst H bits RB. destruct (bits <? key_size_of a); [discriminate|]. bst H ek' RE.
      inversion H; subst. repeat split; intros; try discriminate; reflexivity. }
    destruct (fam_is (ea_family a) "AESKW") eqn:F2.
    { assert (G : fam_is (ea_family a) "AESGCMKW" = false /\ fam_is (ea_family a) "PBES2" = false).
      { unfold fam_is in *. apply str_eqb_eq in F2.
        split; apply str_eqb_neq; rewrite F2; vm_compute; discriminate. }
      destruct G as [G1 G2]. rewrite G1, G2.
      bst H u CK. bst H ek' KW. inversion H; subst. repeat split; intros; try discriminate; reflexivity. }
    destruct (fam_is (ea_family a) "AESGCMKW") eqn:F3.
    { assert (G2 : fam_is (ea_family a) "PBES2" = false).
      { unfold fam_is in *. apply str_eqb_eq in F3. apply str_eqb_neq. rewrite F3. vm_compute. discriminate. }
      rewrite G2.
      bst H u CK. bst H u2 CO. bst H et GE. bst H pr AH1. bst H pr2 AH2.
      inversion H; subst prot2 r2 ek. clear H.
      cbn [add_header] in AH1. inversion AH1; subst pr. cbn [fst snd add_header] in AH2. inversion AH2; subst pr2.
      cbn [fst]. repeat split; intros; try discriminate.
      rewrite dget_dset_other by (vm_compute; discriminate). apply dget_dset_same. }
    destruct (fam_is (ea_family a) "PBES2") eqn:F4; [|discriminate].
    bst H hs HS. rewrite RH in HS.
    bst H st1 S1. destruct st1 as [[prot1 r1] p2s]. bst H st2 S2. destruct st2 as [[prot3 r3] p2c].
    bst H u CK. bst H kek PK. bst H ek' KW. inversion H; subst prot2 r2 ek. clear H.
    assert (P1 : (dget prot (s_ "p2s") = None -> dget prot1 (s_ "p2s") = Some (PStr (b64e (d_p2s d)))) /\
                 (forall v, dget prot (s_ "p2s") = Some v -> dget prot1 (s_ "p2s") = Some v)).
    { destruct (negb (dmem hs (s_ "p2s"))) eqn:M.
      - bst S1 pr AH. cbn [add_header] in AH. inversion AH; subst pr. inversion S1; subst prot1 r1 p2s.
        apply negb_true_iff in M. rewrite (ComposeJweJwt.compact_headers_dmem _ _ _ _ HS) in M.
        split; [intros _; apply dget_dset_same|]. intros v G. unfold dmem in M. rewrite G in M. discriminate.
      - bst S1 sb TB. bst S1 pp BD. inversion S1; subst prot1 r1 p2s.
        apply negb_false_iff in M. rewrite (ComposeJweJwt.compact_headers_dmem _ _ _ _ HS) in M.
        split; [intro G; unfold dmem in M; rewrite G in M; discriminate|auto]. }
    assert (P2 : dget prot3 (s_ "p2s") = dget prot1 (s_ "p2s")).
    { destruct (negb (dmem hs (s_ "p2c"))).
      - bst S2 pr AH.
        assert (AH' : add_header Compact prot1 r1 (s_ "p2c") (PInt (Z.of_N (ea_p2c a))) = Ok pr) by exact AH.
        cbn [add_header] in AH'. inversion AH'; subst pr. inversion S2; subst prot3 r3 p2c.
        apply dget_dset_other. vm_compute. discriminate.
      - inversion S2; subst. reflexivity. }
    destruct P1 as [P1a P1b].
    repeat split; intros; try discriminate; rewrite P2; auto.
  Qed.

  (* one compact recipient: every input is consumed at C18's site, and ends up where
     C18 says the draw ends up *)
  Theorem jwe_draw_sites w p r d x :
    r_header r = PNone -> perform_encrypt O g (jwe_eobj w p r) d = Ok x ->
    exists e hs n a,
      (exists encn, hitem w "enc" = Ok (PStr encn) /\ JweMsg.find_enc encn = Some e) /\
      headers Compact w PNone PNone = Ok hs /\ hitem hs "alg" = Ok (PStr n) /\ JweMsg.find_alg n = Some a /\
      (* SIv: always, the content IV of the token *)
      x_iv x = d_civ d /\
      (* SCek: exactly when the algorithm is not a direct mode; then it IS the CEK *)
      (ea_direct a = false -> x_cek x = d_cek d) /\
      (* SGcmIv: the "iv" header member of A*GCMKW *)
      (C18Model.is_agreement a = false -> ea_direct a = false -> C18Model.fam a "AESGCMKW" = true ->
         dget (x_prot x) (s_ "iv") = Some (PStr (b64e (d_kwiv (rdraw_of d))))) /\
      (* SP2s: the "p2s" header member of PBES2 when the caller gave none *)
      (C18Model.is_agreement a = false -> ea_direct a = false -> C18Model.fam a "PBES2" = true ->
         (dget w (s_ "p2s") = None -> dget (x_prot x) (s_ "p2s") = Some (PStr (b64e (d_p2s (rdraw_of d))))) /\
         (forall v, dget w (s_ "p2s") = Some v -> dget (x_prot x) (s_ "p2s") = Some v)) /\
      (* no other per-recipient input is consumed *)
      (C18Model.is_agreement a = false -> ea_direct a = false ->
         C18Model.fam a "AESGCMKW" = false -> C18Model.fam a "PBES2" = false -> x_prot x = w).
  Proof.
    intros RH PE.
    destruct (C04Proofs.perform_encrypt_inv O g (jwe_eobj w p r) d x PE) as (encv0 & e0 & m0 & _ & _ & _ & _ & _ & XIV & _).
    destruct (C04Proofs.perform_encrypt_single_inv O g (jwe_eobj w p r) d x r eq_refl PE)
      as (encv & e & hs & algv & a & HE & GE & HS & _ & HA & GA & K1).
    cbn [jwe_eobj e_ser e_prot e_unprot] in HE, HS. rewrite RH in HS.
    assert (SE : exists encn, encv = PStr encn /\ JweMsg.find_enc encn = Some e).
    { unfold get_enc in GE. destruct encv; try discriminate. cbn [name_of bind] in GE.
      destruct (JweMsg.find_enc s) eqn:F; [|discriminate]. bst GE u CA. inversion GE; subst. eauto. }
    assert (SA : exists n, algv = PStr n /\ JweMsg.find_alg n = Some a).
    { unfold get_alg in GA. destruct algv; try discriminate. cbn [name_of bind] in GA.
      destruct (JweMsg.find_alg s) eqn:F; [|discriminate]. bst GA u CA. inversion GA; subst. eauto. }
    destruct SE as (encn & -> & FE). destruct SA as (n & -> & FA).
    exists e, hs, n, a. split; [eauto|]. split; [exact HS|]. split; [exact HA|]. split; [exact FA|].
    split; [exact XIV|].
    split.
    { intro D. destruct (JweCrypto.is_agreement a) eqn:AG.
      - destruct (C04Proofs.perform_encrypt_ecdh_kw_inv O g (jwe_eobj w p r) d x r eq_refl PE)
          as (encv' & e' & hs' & algv' & a' & _ & _ & HS' & _ & HA' & GA' & K).
        cbn [jwe_eobj e_ser e_prot e_unprot] in HS'. rewrite RH, HS in HS'. inversion HS'; subst hs'.
        rewrite HA in HA'. inversion HA'; subst algv'. rewrite GA in GA'. inversion GA'; subst a'.
        destruct (K AG D) as (eph & epkd & prot1 & r1 & hs1 & auk & ek & _ & _ & _ & _ & _ & _ & XC & _). exact XC.
      - destruct (K1 eq_refl D) as (prot2 & r2 & ek & _ & _ & _ & XC). exact XC. }
    rewrite is_agreement_eq.
    split; [|split].
    - intros AG D F. destruct (K1 AG D) as (prot2 & r2 & ek & EC & XP & _). rewrite XP.
      cbn [jwe_eobj e_ser e_prot e_unprot] in EC.
      exact (proj1 (encrypt_cek_sites _ _ _ _ _ _ _ _ _ RH EC) F).
    - intros AG D F. destruct (K1 AG D) as (prot2 & r2 & ek & EC & XP & _). rewrite XP.
      cbn [jwe_eobj e_ser e_prot e_unprot] in EC.
      destruct (encrypt_cek_sites _ _ _ _ _ _ _ _ _ RH EC) as (_ & A & B & _). split; [exact (A F)|exact (B F)].
    - intros AG D F1 F2. destruct (K1 AG D) as (prot2 & r2 & ek & EC & XP & _). rewrite XP.
      cbn [jwe_eobj e_ser e_prot e_unprot] in EC.
      exact (proj2 (proj2 (proj2 (encrypt_cek_sites _ _ _ _ _ _ _ _ _ RH EC))) F1 F2).
  Qed.
End Sites.
