(* ComposeJwsEq.v — the functions of joserfc that are modelled twice (once in
   the pipeline model model/Jws.v, once in a per-property model) are EQUAL on
   all inputs, up to the explicit translations of model/ComposeDefs.v:
     registry.check_header & co     Jws.v  vs  C15Registry.v
     JWSRegistry.get_alg            Jws.v  vs  C05Model.v
     KeySet.get_by_kid, guess_key   Jws.v  vs  C14KeySet.v
     check_use / check_alg / check_key_op / check_key_type / EC curve gate
                                    Jws.v  vs  C06Model.v
   Where an equality needs a side condition, the condition is in the statement
   and the excluded inputs are exhibited by a [*_differs] lemma. *)
From Coq Require Import String List NArith ZArith Bool Lia.
From Model Require Import Base PyVal TableTypes ComposeDefs.
From Model Require Jws C05Model C14KeySet C14Spec C06Model C06Spec C15Registry C15Spec C15Cases.
From Gen Require Import Tables.
From Proofs Require C15Proofs C15Tables C05Proofs C14Proofs C06Proofs JsonProofs.
Import ListNotations.
Open Scope N_scope.

(* ================================================================== *)
(* C15 : header checks                                                  *)
(* ================================================================== *)
Lemma crit_loop_eq h l : Jws.crit_loop h l = C15Registry.crit_loop h l.
Proof.
  induction l as [|k r IH]; [reflexivity|].
  cbn [Jws.crit_loop C15Registry.crit_loop]. rewrite IH. reflexivity.
Qed.

Lemma check_crit_eq h : Jws.check_crit_header h = C15Registry.check_crit_header h.
Proof.
  unfold Jws.check_crit_header, C15Registry.check_crit_header.
  change C15Registry.crit_name with Jws.s_crit.
  destruct (dget h Jws.s_crit) as [c|]; [|reflexivity].
  destruct c; try reflexivity.
  simpl. destruct (forallb is_str l); simpl; [apply crit_loop_eq | reflexivity].
Qed.

Lemma validate_plain kd v : plain_kind kd = true ->
  C15Registry.validate kd v = if Jws.vkind_ok kd v then Ok tt else Err EValue.
Proof. destruct kd; try discriminate; intros _; destruct v; reflexivity. Qed.

Lemma vrh_eq reg h : plain_reg reg = true ->
  C15Registry.validate_registry_header reg h true = Jws.validate_registry_header reg h.
Proof.
  unfold Jws.validate_registry_header. induction reg as [|p r IH]; intro P; [reflexivity|].
  unfold plain_reg in P. cbn [forallb] in P. apply andb_true_iff in P. destruct P as [Pk Pr].
  cbn [C15Registry.validate_registry_header forallb]. unfold C15Registry.pname, dmem.
  destruct (dget h (asc (hp_name p))) as [v|].
  - cbn [negb andb]. rewrite andb_false_r. rewrite (validate_plain _ v Pk).
    destruct (Jws.vkind_ok (hp_kind p) v); cbn [andb]; [apply IH; exact Pr | reflexivity].
  - cbn [negb andb]. rewrite andb_true_r.
    destruct (hp_required p); cbn [negb andb]; [reflexivity | apply IH; exact Pr].
Qed.

Lemma supported_eq reg h : Jws.check_supported_header reg h = C15Registry.check_supported_header reg h.
Proof.
  unfold Jws.check_supported_header, C15Registry.check_supported_header.
  assert (E : forallb (fun k => str_mem k (C15Registry.reg_names reg)) (dkeys h) =
              forallb (fun k => existsb (fun p => str_eqb (asc (hp_name p)) k) reg) (dkeys h)).
  { apply C15Proofs.forallb_ext'. intro k. apply C15Proofs.str_mem_names. }
  rewrite E. reflexivity.
Qed.

(* any registry with plain validators; strictness is the class default of /repo *)
Theorem check_header_eq_gen rg h : plain_reg (Jws.header_registry rg) = true ->
  Jws.check_header rg (PDict h) =
  if Jws.rg_7797 rg
  then C15Registry.jws7797_check_header (Jws.header_registry rg) jws_default_instance_strict h
  else C15Registry.jws_check_header (Jws.header_registry rg) jws_default_instance_strict h.
Proof.
  intro P. unfold Jws.check_header, C15Registry.jws7797_check_header, C15Registry.jws_check_header.
  rewrite check_crit_eq, <- (vrh_eq _ h P), supported_eq.
  destruct (Jws.rg_7797 rg); reflexivity.
Qed.

Lemma mk_registry_nil d : C15Registry.mk_registry d [] = C15Registry.reg_update [] d.
Proof. reflexivity. Qed.

Theorem check_header_eq15 algs h :
  Jws.check_header (Jws.reg15 algs) (PDict h) =
  C15Registry.jws_check_header (C15Registry.mk_registry jws_default_header_registry [])
                               jws_default_instance_strict h.
Proof.
  rewrite mk_registry_nil, (proj1 C15Tables.defaults_unique).
  rewrite check_header_eq_gen by (vm_compute; reflexivity). reflexivity.
Qed.

Theorem check_header_eq97 algs h :
  Jws.check_header (Jws.reg97 algs) (PDict h) =
  C15Registry.jws7797_check_header (C15Registry.mk_registry jws7797_default_header_registry [])
                                   jws_default_instance_strict h.
Proof.
  rewrite mk_registry_nil, (proj1 (proj2 C15Tables.defaults_unique)).
  rewrite check_header_eq_gen by (vm_compute; reflexivity). reflexivity.
Qed.

(* both are run_check of C15Cases (the function the C15 harness compares with /repo) *)
Theorem check_header_eq_run b algs h :
  Jws.check_header {| Jws.rg_7797 := b; Jws.rg_allowed := algs |} (PDict h) =
  C15Cases.run_check (if b then C15Cases.RJws7797 else C15Cases.RJws)
                     (C15Cases.default_cfg (if b then C15Cases.RJws7797 else C15Cases.RJws)) false h.
Proof.
  destruct b.
  - exact (check_header_eq97 algs h).
  - exact (check_header_eq15 algs h).
Qed.

(* a header that is not a dict never passes (C15 only speaks about dicts) *)
Lemma check_header_nondict rg v : is_dict v = false -> Jws.check_header rg v = Err EType.
Proof. destruct v; try reflexivity; discriminate. Qed.

(* the C15 characterisation, on the pipeline's function *)
Theorem check_header_iff15 algs h :
  Jws.check_header (Jws.reg15 algs) (PDict h) = Ok tt <->
  C15Spec.header_ok jws_default_header_registry true h = true.
Proof.
  rewrite check_header_eq15, mk_registry_nil, (proj1 C15Tables.defaults_unique).
  rewrite (proj1 C15Tables.defaults_strict). apply C15Proofs.jws_iff.
Qed.

Theorem check_header_iff97 algs h :
  Jws.check_header (Jws.reg97 algs) (PDict h) = Ok tt <->
  C15Spec.header_ok7797 jws7797_default_header_registry true h = true.
Proof.
  rewrite check_header_eq97, mk_registry_nil, (proj1 (proj2 C15Tables.defaults_unique)).
  rewrite (proj1 C15Tables.defaults_strict). apply C15Proofs.jws7797_iff.
Qed.

Lemma check_header_ok_dict rg v : Jws.check_header rg v = Ok tt -> exists h, v = PDict h.
Proof. destruct v; try discriminate. eauto. Qed.

(* where the two validator models differ: the in_choices kinds, which no header
   registry of /repo uses (C15 models them for caller-registered parameters;
   Jws.v has no caller registry) *)
Lemma validate_differs :
  C15Registry.validate (VChoices ["a"%string]) (PStr (asc "a")) = Ok tt /\
  Jws.vkind_ok (VChoices ["a"%string]) (PStr (asc "a")) = false.
Proof. split; reflexivity. Qed.

(* ================================================================== *)
(* C05 : get_alg                                                        *)
(* ================================================================== *)
Lemma find_row_find {R} (f : R -> string) tbl s :
  C05Model.find_row f tbl s = find (fun r => str_eqb (asc (f r)) s) tbl.
Proof. induction tbl as [|r t IH]; simpl; [reflexivity|]. unfold C05Model.nm. rewrite IH. reflexivity. Qed.

Lemma str_mem_row_names {R} (f : R -> string) tbl s :
  str_mem s (C05Model.row_names f tbl) =
  match C05Model.find_row f tbl s with Some _ => true | None => false end.
Proof.
  induction tbl as [|r t IH]; simpl; [reflexivity|].
  destruct (str_eqb (C05Model.nm (f r)) s); simpl; [reflexivity | exact IH].
Qed.

Lemma contains_strs al s : list_contains (map PStr al) (PStr s) = str_mem s al.
Proof. induction al as [|a al IH]; simpl; [reflexivity|]. rewrite <- IH. reflexivity. Qed.

Lemma contains_pnames rec s :
  list_contains (map C05Model.pname rec) (PStr s) = existsb (fun n => str_eqb (asc n) s) rec.
Proof. induction rec as [|a l IH]; simpl; [reflexivity|]. rewrite <- IH. reflexivity. Qed.

Theorem get_alg_eq rg name :
  Jws.get_alg rg name = C05Model.jws_get_alg C05Model.w0 (allowed_pv (Jws.rg_allowed rg)) name.
Proof.
  unfold C05Model.jws_get_alg, C05Model.get_row, C05Model.check_algorithm, Jws.get_alg.
  destruct name; try reflexivity.
  cbn [is_str negb]. rewrite C05Proofs.py_in_keys_str. cbn [bind].
  rewrite str_mem_row_names. unfold Jws.find_alg.
  change (C05Model.w_jws C05Model.w0) with jws_alg_table.
  change (C05Model.w_jws_rec C05Model.w0) with jws_recommended.
  rewrite find_row_find.
  destruct (find (fun r => str_eqb (asc (ja_name r)) s) jws_alg_table) as [r|]; [|reflexivity].
  cbn [negb].
  destruct (Jws.rg_allowed rg) as [[|a al]|]; cbn [allowed_pv py_truth map].
  - cbn [py_in bind]. rewrite contains_pnames.
    destruct (existsb (fun n => str_eqb (asc n) s) jws_recommended); reflexivity.
  - cbn [py_in bind]. change (PStr a :: map PStr al) with (map PStr (a :: al)).
    rewrite contains_strs. destruct (str_mem s (a :: al)); reflexivity.
  - cbn [py_in bind]. rewrite contains_pnames.
    destruct (existsb (fun n => str_eqb (asc n) s) jws_recommended); reflexivity.
Qed.

Lemma pv_of_allowed_list a : C05Model.pv_of_allowed (allowed_list a) = allowed_pv a.
Proof. destruct a; reflexivity. Qed.

(* registry selection: jws.py hands construct_registry(algorithms) / the rfc7797
   JWSRegistry(algorithms=algorithms); both have the [allowed] of reg15 / reg97 as far
   as the gate can tell *)
Theorem select_eq k algs name :
  C05Model.jws_get_alg C05Model.w0
    (C05Model.jws_entry_select C05Model.w0 k (allowed_pv algs) None) name =
  C05Model.jws_get_alg C05Model.w0 (allowed_pv algs) name.
Proof.
  assert (D : C05Model.jws_get_alg C05Model.w0
                (C05Model.jws_select C05Model.w0 (allowed_pv algs) None) name =
              C05Model.jws_get_alg C05Model.w0 (allowed_pv algs) name).
  { unfold C05Model.jws_select, C05Model.construct_registry.
    destruct algs as [[|a l]|]; cbn [allowed_pv py_truth map]; reflexivity. }
  destruct k as [|[|]]; cbn [C05Model.jws_entry_select]; try exact D. reflexivity.
Qed.

(* the C05 gate characterisation, on the pipeline's function *)
Theorem get_alg_iff rg s m :
  Jws.get_alg rg (PStr s) = Ok m <->
  (C05Model.find_row ja_name jws_alg_table s = Some m /\
   In (PStr s) (C05Model.effective (allowed_list (Jws.rg_allowed rg)) jws_recommended)).
Proof.
  rewrite get_alg_eq, <- pv_of_allowed_list.
  exact (proj1 (C05Proofs.gate_all_four C05Model.w0 (allowed_list (Jws.rg_allowed rg)) s) m).
Qed.

Theorem get_alg_ok_str rg name m : Jws.get_alg rg name = Ok m -> exists s, name = PStr s.
Proof. destruct name; try discriminate. eauto. Qed.

(* ================================================================== *)
(* C14 : key sets                                                       *)
(* ================================================================== *)
Section C14.
  Variable th : Jws.key -> str.
  Notation t14 := (to14 th).

  Lemma find_map {A B} (f : A -> B) (p : B -> bool) l :
    find p (map f l) = option_map f (find (fun x => p (f x)) l).
  Proof. induction l as [|x l IH]; simpl; [reflexivity|]. destruct (p (f x)); [reflexivity|exact IH]. Qed.

  Lemma filter_map {A B} (f : A -> B) (p : B -> bool) l :
    filter p (map f l) = map f (filter (fun x => p (f x)) l).
  Proof. induction l as [|x l IH]; simpl; [reflexivity|]. destruct (p (f x)); simpl; rewrite IH; reflexivity. Qed.

  Lemma find_ext' {A} (p q : A -> bool) l : (forall x, p x = q x) -> find p l = find q l.
  Proof. intro E. induction l as [|x l IH]; simpl; [reflexivity|]. rewrite E, IH. reflexivity. Qed.

  Lemma kid_matches_eq k kid : Jws.kid_matches k kid = py_eq (C14KeySet.kid_pv (t14 k)) kid.
  Proof.
    unfold Jws.kid_matches, C14KeySet.kid_pv, to14. cbn [C14KeySet.k_kid].
    destruct (Jws.k_kid k) as [t|]; destruct kid; try reflexivity.
    cbn [py_eq]. apply C15Proofs.str_eqb_sym.
  Qed.

  Theorem get_by_kid_eq ks kid :
    C14KeySet.get_by_kid (map t14 ks) kid = rmap t14 (Jws.get_by_kid ks kid).
  Proof.
    assert (F : match find (fun k => py_eq (C14KeySet.kid_pv k) kid) (map t14 ks) with
                | Some k => Ok k | None => Err (EJose InvalidKeyIdError) end =
                rmap t14 (match find (fun k => Jws.kid_matches k kid) ks with
                          | Some k => Ok k | None => Jws.jerr InvalidKeyIdError end)).
    { rewrite find_map.
      rewrite (find_ext' _ (fun k => Jws.kid_matches k kid))
        by (intro k; symmetry; apply kid_matches_eq).
      destruct (find (fun k => Jws.kid_matches k kid) ks); reflexivity. }
    unfold C14KeySet.get_by_kid, Jws.get_by_kid.
    destruct kid; try exact F.
    destruct ks as [|k [|k2 ks]]; try exact F. reflexivity.
  Qed.

  (* consuming side: guess_key(key, obj) with use_random = False *)
  Theorem guess_key_eq_compact tbl ch src h :
    C14KeySet.guess_key tbl ch (C14KeySet.KFDirect (src14 th src)) (g_compact h) false =
    rmap (fun k => (t14 k, g_compact h)) (Jws.guess_key src (PDict h)).
  Proof.
    destruct src as [k|ks|]; cbn [src14 C14KeySet.guess_key C14KeySet.resolve Jws.guess_key rmap];
      try reflexivity.
    rewrite andb_false_r.
    unfold Jws.hdr_get, py_get_str, C14KeySet.hget, g_compact, C14KeySet.headers.
    cbn [C14KeySet.g_kind C14KeySet.g_prot C14KeySet.tr].
    change C14KeySet.s_kid with Jws.s_kid.
    destruct (dget h Jws.s_kid) as [v|]; cbn [bind]; rewrite get_by_kid_eq;
      match goal with |- context [Jws.get_by_kid ?a ?b] => destruct (Jws.get_by_kid a b) end; reflexivity.
  Qed.

  (* dict.update on an empty dict copies a dict with unique keys *)
  Lemma dupdate_app {A} (d : list (str * A)) : forall acc,
    keys_unique (dkeys acc ++ dkeys d) = true -> dupdate acc d = acc ++ d.
  Proof.
    unfold dupdate. induction d as [|[k v] d IH]; intros acc U; cbn [fold_left fst snd].
    - rewrite app_nil_r. reflexivity.
    - cbn [dkeys map fst] in U.
      destruct (JsonProofs.keys_unique_app_cons _ _ _ U) as [NM U'].
      rewrite (JsonProofs.dset_fresh acc k v NM).
      rewrite IH.
      + rewrite <- app_assoc. reflexivity.
      + unfold dkeys in *. rewrite map_app. exact U'.
  Qed.

  Lemma dupdate_nil_unique {A} (d : list (str * A)) : keys_unique (dkeys d) = true -> dupdate [] d = d.
  Proof. intro U. apply (dupdate_app d []). exact U. Qed.

  (* the merged header of a JSON member: HeaderMember.headers() in both models.
     C14 merges (rv = {}; rv.update(protected); rv.update(header)) literally, Jws.v
     starts from the protected dict: equal for dicts with unique member names
     (every Python dict) *)
  Theorem member_headers_eq prot hdr :
    keys_unique (dkeys (C14KeySet.tr prot)) = true ->
    Jws.member_headers {| Jws.m_protected := option_map PDict prot; Jws.m_header := hdr |} =
    Ok (C14KeySet.headers (g_member prot hdr)).
  Proof.
    intro U. unfold Jws.member_headers, g_member, C14KeySet.headers.
    cbn [Jws.m_protected Jws.m_header C14KeySet.g_kind C14KeySet.g_prot C14KeySet.g_hdr].
    rewrite (dupdate_nil_unique _ U).
    destruct prot as [[|kv d]|]; cbn [option_map py_truth bind C14KeySet.tr];
      destruct hdr as [[|kv2 h2]|]; reflexivity.
  Qed.

  Theorem guess_key_eq_member tbl ch src prot hdr headers :
    keys_unique (dkeys (C14KeySet.tr prot)) = true ->
    Jws.member_headers {| Jws.m_protected := option_map PDict prot; Jws.m_header := hdr |} = Ok headers ->
    C14KeySet.guess_key tbl ch (C14KeySet.KFDirect (src14 th src)) (g_member prot hdr) false =
    rmap (fun k => (t14 k, g_member prot hdr)) (Jws.guess_key src (PDict headers)).
  Proof.
    intros U M. rewrite (member_headers_eq prot hdr U) in M. inversion M as [M']. clear M.
    destruct src as [k|ks|]; cbn [src14 C14KeySet.guess_key C14KeySet.resolve Jws.guess_key rmap];
      try reflexivity.
    rewrite andb_false_r.
    unfold Jws.hdr_get, py_get_str, C14KeySet.hget.
    change C14KeySet.s_kid with Jws.s_kid.
    destruct (dget (C14KeySet.headers (g_member prot hdr)) Jws.s_kid) as [v|]; cbn [bind];
      rewrite get_by_kid_eq;
      match goal with |- context [Jws.get_by_kid ?a ?b] => destruct (Jws.get_by_kid a b) end; reflexivity.
  Qed.

  (* ---- producing side: guess_key(key, obj, use_random=True) ---- *)
  Lemma pick_candidates_eq ks s :
    C14KeySet.pick_candidates keyset_algorithm_keys (map t14 ks) (PStr s) =
    Ok (map t14 (Jws.pick_candidates ks (PStr s))).
  Proof.
    unfold C14KeySet.pick_candidates, C14KeySet.algkeys_get, Jws.pick_candidates. cbn [bind].
    destruct (find (fun e => str_eqb (asc (fst e)) s) keyset_algorithm_keys) as [[n [|t ts]]|];
      cbn [snd]; try reflexivity.
    rewrite filter_map. reflexivity.
  Qed.

  (* Jws.v has no TypeError for an unhashable alg: it is unreachable in the
     pipeline (get_alg has refused a non-str alg before), but the functions differ *)
  Lemma pick_candidates_differs ks :
    C14KeySet.pick_candidates keyset_algorithm_keys (map t14 ks) (PList []) = Err EType /\
    Jws.pick_candidates ks (PList []) = ks.
  Proof. split; reflexivity. Qed.

  Variable ch : C14KeySet.chooser.
  Variable chj : Jws.key -> list Jws.key -> Jws.key.
  Variable choose : list Jws.key -> option Jws.key.
  Hypothesis choose_chj : forall l, choose l = match l with [] => None | x :: r => Some (chj x r) end.
  Hypothesis ch_chj : forall x r, ch (t14 x) (map t14 r) = t14 (chj x r).
  Hypothesis chj_in : forall x r, In (chj x r) (x :: r).

  Lemma pick_candidates_incl ks alg k : In k (Jws.pick_candidates ks alg) -> In k ks.
  Proof.
    unfold Jws.pick_candidates. destruct alg; auto.
    destruct (find _ keyset_algorithm_keys) as [[n [|t ts]]|]; auto.
    intro H. apply filter_In in H. tauto.
  Qed.

  Theorem guess_key_sign_eq ks h :
    (forall k, In k ks -> Jws.k_kid k <> None) ->
    (forall a, dget h Jws.s_alg = Some a -> is_str a = true) ->
    C14KeySet.guess_key keyset_algorithm_keys ch (C14KeySet.KFDirect (C14KeySet.KSSet (map t14 ks)))
                        (g_compact h) true =
    rmap (fun ko => (t14 (fst ko), g_compact (Jws.set_kid h (snd ko))))
         (Jws.guess_key_sign choose (Jws.KSet ks) h).
  Proof.
    intros HK HA.
    cbn [C14KeySet.guess_key C14KeySet.resolve Jws.guess_key_sign].
    rewrite andb_true_r.
    change (C14KeySet.headers (g_compact h)) with h.
    unfold C14KeySet.hget.
    change C14KeySet.s_kid with Jws.s_kid. change C14KeySet.s_alg with Jws.s_alg.
    destruct (negb (py_truth match dget h Jws.s_kid with Some v => v | None => PNone end)) eqn:T.
    - cbn [py_getitem_str]. specialize (HA).
      destruct (dget h Jws.s_alg) as [a|] eqn:GA; cbn [bind rmap]; [|reflexivity].
      pose proof (HA a eq_refl) as SA. destruct a; try discriminate.
      unfold C14KeySet.pick_random_key. rewrite pick_candidates_eq. cbn [bind].
      rewrite choose_chj.
      pose proof (pick_candidates_incl ks (PStr s)) as INC.
      destruct (Jws.pick_candidates ks (PStr s)) as [|x r]; cbn [map rmap]; [reflexivity|].
      rewrite ch_chj.
      assert (I : In (chj x r) ks) by (apply INC, chj_in).
      pose proof (HK _ I) as NK.
      unfold C14KeySet.ensure_kid, to14 at 1. cbn [C14KeySet.k_kid].
      destruct (Jws.k_kid (chj x r)) as [id|] eqn:KID; [|congruence].
      cbn [rmap fst snd Jws.set_kid].
      unfold C14KeySet.set_kid, C14KeySet.add_header, C14KeySet.kid_pv, g_compact, to14.
      cbn [C14KeySet.g_kind C14KeySet.g_prot C14KeySet.g_unprot C14KeySet.g_hdr C14KeySet.tr C14KeySet.k_kid].
      rewrite KID. reflexivity.
    - rewrite get_by_kid_eq.
      match goal with |- context [Jws.get_by_kid ?a ?b] => destruct (Jws.get_by_kid a b) end; reflexivity.
  Qed.

  (* without the KeySet invariant "every key has a kid" the two differ: C14 (like
     guess_key, which calls ensure_kid again) falls back on the thumbprint, Jws.v
     records the violated invariant as AssertionError *)
  Lemma guess_key_sign_differs :
    let k := {| Jws.k_id := 1; Jws.k_kid := None; Jws.k_kty := "oct"; Jws.k_crv := ""; Jws.k_bits := 0;
                Jws.k_use := None; Jws.k_ops := None; Jws.k_alg := None; Jws.k_private := true |} in
    let h := [(Jws.s_alg, PStr (asc "HS256"))] in
    Jws.guess_key_sign (fun l => hd_error l) (Jws.KSet [k]) h = Err EAssert /\
    exists g, C14KeySet.guess_key keyset_algorithm_keys (fun x _ => x)
                (C14KeySet.KFDirect (C14KeySet.KSSet [t14 k])) (g_compact h) true = Ok (C14KeySet.ensure_kid (t14 k), g).
  Proof. cbv zeta. split; [reflexivity|]. eexists. reflexivity. Qed.
End C14.

(* ================================================================== *)
(* C06 : key gates                                                      *)
(* ================================================================== *)
Lemma kty_of_str s t : kty_of s = Some t -> C06Model.kty_str t = s.
Proof.
  unfold kty_of.
  destruct (String.eqb s "oct") eqn:E1; [intro H; inversion H; symmetry; apply String.eqb_eq; exact E1|].
  destruct (String.eqb s "RSA") eqn:E2; [intro H; inversion H; symmetry; apply String.eqb_eq; exact E2|].
  destruct (String.eqb s "EC") eqn:E3; [intro H; inversion H; symmetry; apply String.eqb_eq; exact E3|].
  destruct (String.eqb s "OKP") eqn:E4; [intro H; inversion H; symmetry; apply String.eqb_eq; exact E4|].
  discriminate.
Qed.

Lemma kty_of_kty_str t : kty_of (C06Model.kty_str t) = Some t.
Proof. destruct t; reflexivity. Qed.

Lemma to06_fields k k6 : to06 k = Some k6 ->
  C06Model.kty_str (C06Model.k_kty k6) = Jws.k_kty k /\ C06Model.k_crv k6 = Jws.k_crv k /\
  C06Model.k_bits k6 = Jws.k_bits k /\ C06Model.k_priv k6 = Jws.k_private k /\
  C06Model.k_use k6 = option_map PStr (Jws.k_use k) /\
  C06Model.k_ops k6 = option_map (fun l => PList (map PStr l)) (Jws.k_ops k) /\
  C06Model.k_alg k6 = option_map PStr (Jws.k_alg k).
Proof.
  unfold to06. destruct (kty_of (Jws.k_kty k)) as [t|] eqn:E; [|discriminate].
  intro H. inversion H. subst k6. cbn. repeat split. apply kty_of_str. exact E.
Qed.

Lemma to06_some k : (exists k6, to06 k = Some k6) <-> In (Jws.k_kty k) ["oct"; "RSA"; "EC"; "OKP"]%string.
Proof.
  unfold to06. split.
  - intros [k6 H]. destruct (kty_of (Jws.k_kty k)) as [t|] eqn:E; [|discriminate].
    apply kty_of_str in E. rewrite <- E. destruct t; cbn; auto.
  - intro I. cbn in I.
    destruct I as [I|[I|[I|[I|[]]]]]; rewrite <- I; cbn; eauto.
Qed.

Theorem check_use_eq k k6 : to06 k = Some k6 -> Jws.check_use k = C06Model.check_use "sig" k6.
Proof.
  intro T. destruct (to06_fields _ _ T) as (_ & _ & _ & _ & U & _).
  unfold Jws.check_use, C06Model.check_use. rewrite U.
  destruct (Jws.k_use k) as [u|]; cbn [option_map]; [|reflexivity].
  cbn [py_truth py_eq]. unfold Jws.nonempty. destruct u; reflexivity.
Qed.

Theorem check_alg_eq k k6 a : to06 k = Some k6 ->
  Jws.check_alg k (PStr (asc a)) = C06Model.check_alg a k6.
Proof.
  intro T. destruct (to06_fields _ _ T) as (_ & _ & _ & _ & _ & _ & A).
  unfold Jws.check_alg, C06Model.check_alg. rewrite A.
  destruct (Jws.k_alg k) as [u|]; cbn [option_map]; [|reflexivity].
  cbn [py_truth py_eq]. unfold Jws.nonempty. destruct u; reflexivity.
Qed.

Lemma op_private_eq op : Jws.op_private op =
  match C06Model.find_op op with Some r => C06Model.op_needs_private r | None => false end.
Proof. reflexivity. Qed.

(* for every operation of the registry of /repo (sign, verify, ... : the only
   ones the code ever asks for; an unknown one is an AssertionError in C06, and
   treated as "public is enough" by Jws.v) *)
Theorem check_key_op_eq k k6 op : to06 k = Some k6 -> C06Model.find_op op <> None ->
  Jws.check_key_op k op = C06Model.check_key_op op k6.
Proof.
  intros T F. destruct (to06_fields _ _ T) as (_ & _ & _ & P & _ & O & _).
  unfold Jws.check_key_op, C06Model.check_key_op. rewrite O, P, op_private_eq.
  destruct (C06Model.find_op op) as [r|]; [|congruence].
  destruct (Jws.k_ops k) as [ops|]; cbn [option_map bind]; [|reflexivity].
  cbn [py_in]. unfold C06Model.sasc. rewrite contains_strs. cbn [bind].
  destruct (str_mem (asc op) ops); reflexivity.
Qed.

Lemma find_op_sign_verify : C06Model.find_op "sign" <> None /\ C06Model.find_op "verify" <> None.
Proof. split; vm_compute; discriminate. Qed.

Theorem check_key_type_eq r k k6 : to06 k = Some k6 ->
  Jws.check_key_type r k = C06Model.jws_check_key_type r k6.
Proof.
  intro T. destruct (to06_fields _ _ T) as (K & _).
  unfold Jws.check_key_type, C06Model.jws_check_key_type. rewrite K. reflexivity.
Qed.

(* a key type outside the four: Jws.check_key_type refuses it against every table row *)
Lemma check_key_type_none r k : In r jws_alg_table -> to06 k = None ->
  Jws.check_key_type r k = Err (EJose InvalidKeyTypeError).
Proof.
  intros I T. unfold Jws.check_key_type.
  destruct (String.eqb (Jws.k_kty k) (ja_key_type r)) eqn:E; [|reflexivity].
  apply String.eqb_eq in E. exfalso.
  assert (S : exists k6, to06 k = Some k6).
  { apply to06_some. rewrite E. clear -I.
    assert (F : forallb (fun r => existsb (String.eqb (ja_key_type r)) ["oct"; "RSA"; "EC"; "OKP"]%string) jws_alg_table = true)
      by (vm_compute; reflexivity).
    rewrite forallb_forall in F. specialize (F r I). apply existsb_exists in F.
    destruct F as [x [Ix Ex]]. apply String.eqb_eq in Ex. rewrite Ex. exact Ix. }
  destruct S as [k6 S]. congruence.
Qed.

(* EC curve gate: ECAlgModel._check_key.  C06 reads key.curve_name of an OKP key and
   compares it; Jws.v answers ValueError for every OKP key.  Equal whenever an OKP
   key does not carry the algorithm's (EC) curve name, in particular for every
   importable key (key_wf) against every row of /repo *)
Theorem ec_gate_eq r k k6 : to06 k = Some k6 ->
  (C06Model.k_kty k6 = C06Model.KOkp -> Jws.k_crv k <> ja_curve r) ->
  jws_ec_gate r k = C06Model.ec_check_key r k6.
Proof.
  intros T N. destruct (to06_fields _ _ T) as (K & C & _).
  unfold jws_ec_gate, C06Model.ec_check_key, C06Model.curve_name, Jws.mistyped.
  rewrite <- K, C.
  destruct (C06Model.k_kty k6) eqn:KT; cbn [C06Model.kty_str String.eqb Ascii.eqb Bool.eqb bind]; try reflexivity.
  - destruct (String.eqb (Jws.k_crv k) (ja_curve r)); reflexivity.
  - destruct (String.eqb (Jws.k_crv k) (ja_curve r)) eqn:E; [|reflexivity].
    apply String.eqb_eq in E. exfalso. exact (N eq_refl E).
Qed.

Lemma ec_gate_differs :
  let r := {| ja_name := "ES256"; ja_family := "EC"; ja_key_type := "EC"; ja_recommended := true;
              ja_hash := "SHA256"; ja_curve := "P-256"; ja_pad := "" |} in
  let k := {| Jws.k_id := 1; Jws.k_kid := None; Jws.k_kty := "OKP"; Jws.k_crv := "P-256"; Jws.k_bits := 0;
              Jws.k_use := None; Jws.k_ops := None; Jws.k_alg := None; Jws.k_private := true |} in
  exists k6, to06 k = Some k6 /\ jws_ec_gate r k = Err EValue /\ C06Model.ec_check_key r k6 = Ok tt.
Proof. cbv zeta. eexists. split; [reflexivity|]. split; reflexivity. Qed.

Lemma ec_gate_wf r k k6 : to06 k = Some k6 -> C06Spec.key_wf k6 -> In r jws_alg_table ->
  C06Model.k_kty k6 = C06Model.KOkp -> Jws.k_crv k <> ja_curve r.
Proof.
  intros T (_ & _ & _ & _ & W) I KT. specialize (W KT).
  destruct (to06_fields _ _ T) as (_ & C & _). rewrite C in W. intro E. rewrite E in W.
  assert (F : forallb (fun r => negb (existsb (String.eqb (ja_curve r)) C06Spec.okp_curve_names)) jws_alg_table = true)
    by (vm_compute; reflexivity).
  rewrite forallb_forall in F. specialize (F r I). apply negb_true_iff in F.
  assert (X : existsb (String.eqb (ja_curve r)) C06Spec.okp_curve_names = true).
  { apply existsb_exists. exists (ja_curve r). split; [exact W | apply String.eqb_refl]. }
  congruence.
Qed.
