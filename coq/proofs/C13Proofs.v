(* C13Proofs.v — lemmas about the thumbprint model (model/C13Json.v, C13Thumb.v). *)
From Coq Require Import Lia ZifyBool Permutation.
From Model Require Import Base PyVal B64 IntCodec TableTypes C13Json C13Thumb.
From Gen Require Import Tables.
From Proofs Require Import B64Proofs IntCodecProofs.
Open Scope N_scope.

(* ---------------------------------------------------------------- *)
(* JSON strings                                                       *)
(* ---------------------------------------------------------------- *)
Lemma esc_plain c : plain_char c = true -> esc_char c = [c].
Proof.
  unfold plain_char, esc_char. intro H.
  destruct (c =? 34) eqn:E1; [lia|].
  destruct (c =? 92) eqn:E2; [lia|].
  destruct (c =? 10) eqn:E3; [lia|].
  destruct (c =? 13) eqn:E4; [lia|].
  destruct (c =? 9) eqn:E5; [lia|].
  destruct (c =? 8) eqn:E6; [lia|].
  destruct (c =? 12) eqn:E7; [lia|].
  destruct ((32 <=? c) && (c <=? 126)) eqn:E8; [reflexivity | lia].
Qed.

Lemma flat_map_esc_plain s : plain s = true -> flat_map esc_char s = s.
Proof.
  induction s as [|c s IH]; simpl; intro H; [reflexivity|].
  apply andb_true_iff in H. destruct H as [Hc Hs].
  rewrite (esc_plain c Hc), (IH Hs). reflexivity.
Qed.

(* dumps prints plain strings verbatim between quotation marks *)
Lemma jstr_plain s : plain s = true -> jstr s = 34 :: s ++ [34].
Proof. intro H. unfold jstr. rewrite (flat_map_esc_plain s H). reflexivity. Qed.

Lemma jdumps_dict d :
  jdumps (PDict d) = do body <- jdict_body d true; Ok (123 :: body ++ [125]).
Proof.
  cbn [jdumps].
  match goal with |- bind ?a _ = bind ?b _ => assert (a = b) as E end.
  { generalize true. induction d as [|[k x] d IH]; intro f; simpl; [reflexivity|].
    rewrite IH. reflexivity. }
  rewrite E. reflexivity.
Qed.

Definition plain_member (kv : str * str) : bool := plain (fst kv) && plain (snd kv).
Definition as_pv_member (kv : str * str) : str * pv := (fst kv, PStr (snd kv)).

Ltac lnorm := cbn [app]; repeat (rewrite <- app_assoc; cbn [app]); try reflexivity.

Lemma jdict_body_flat_false ms :
  forallb plain_member ms = true ->
  jdict_body (map as_pv_member ms) false =
  Ok (flat_map (fun kv => 44 :: member_text kv) ms).
Proof.
  induction ms as [|[k v] ms IH]; intro H; [reflexivity|].
  cbn [forallb] in H. apply andb_true_iff in H. destruct H as [Hkv Hs].
  unfold plain_member in Hkv. cbn [fst snd] in Hkv.
  apply andb_true_iff in Hkv. destruct Hkv as [Hk Hv].
  cbn [map jdict_body as_pv_member fst snd flat_map].
  change (jdumps (PStr v)) with (Ok (A:=list N) (jstr v)). cbn [bind].
  rewrite (IH Hs). cbn [bind]. rewrite (jstr_plain k Hk), (jstr_plain v Hv).
  unfold member_text. cbn [fst snd]. f_equal. lnorm.
Qed.

Lemma join_comma_cons a r :
  join_comma (a :: r) = a ++ flat_map (fun m => 44 :: m) r.
Proof.
  revert a. induction r as [|b r IH]; intro a.
  - simpl. rewrite app_nil_r. reflexivity.
  - change (join_comma (a :: b :: r)) with (a ++ 44 :: join_comma (b :: r)).
    rewrite IH. reflexivity.
Qed.

Lemma flat_map_map {A B C} (f : A -> B) (g : B -> list C) l :
  flat_map g (map f l) = flat_map (fun x => g (f x)) l.
Proof. induction l; simpl; [reflexivity | rewrite IHl; reflexivity]. Qed.

(* the Impl printer agrees with the Spec printer on plain members *)
Lemma jdumps_flat ms :
  forallb plain_member ms = true ->
  jdumps (PDict (map as_pv_member ms)) = Ok (rfc7638_canonical ms).
Proof.
  intro H. rewrite jdumps_dict. unfold rfc7638_canonical.
  destruct ms as [|[k v] ms]; [reflexivity|].
  cbn [forallb] in H. apply andb_true_iff in H. destruct H as [Hkv Hs].
  unfold plain_member in Hkv. cbn [fst snd] in Hkv.
  apply andb_true_iff in Hkv. destruct Hkv as [Hk Hv].
  cbn [map jdict_body as_pv_member fst snd].
  change (jdumps (PStr v)) with (Ok (A:=list N) (jstr v)).
  cbn [bind]. rewrite (jdict_body_flat_false ms Hs). cbn [bind].
  rewrite (jstr_plain k Hk), (jstr_plain v Hv).
  rewrite join_comma_cons, flat_map_map.
  unfold member_text. cbn [fst snd]. f_equal. lnorm.
Qed.

(* ---------------------------------------------------------------- *)
(* UTF-8 of ASCII text                                                *)
(* ---------------------------------------------------------------- *)
Definition ascii_str (s : list N) : bool := forallb (fun c => c <? 128) s.

Lemma utf8_ascii s : ascii_str s = true -> utf8 s = Ok s.
Proof.
  induction s as [|c s IH]; simpl; intro H; [reflexivity|].
  apply andb_true_iff in H. destruct H as [Hc Hs].
  unfold utf8_char. rewrite Hc. cbn [bind]. rewrite (IH Hs). reflexivity.
Qed.

Lemma plain_ascii s : plain s = true -> ascii_str s = true.
Proof.
  induction s as [|c s IH]; simpl; intro H; [reflexivity|].
  apply andb_true_iff in H. destruct H as [Hc Hs]. rewrite (IH Hs).
  unfold plain_char in Hc. lia.
Qed.

Lemma ascii_app a b : ascii_str (a ++ b) = ascii_str a && ascii_str b.
Proof. apply forallb_app. Qed.

Lemma member_text_ascii kv : plain_member kv = true -> ascii_str (member_text kv) = true.
Proof.
  destruct kv as [k v]. unfold plain_member, member_text. simpl. intro H.
  apply andb_true_iff in H. destruct H as [Hk Hv].
  rewrite ascii_app, (plain_ascii k Hk). simpl.
  rewrite ascii_app, (plain_ascii v Hv). reflexivity.
Qed.

Lemma canonical_ascii ms :
  forallb plain_member ms = true -> ascii_str (rfc7638_canonical ms) = true.
Proof.
  intro H. unfold rfc7638_canonical.
  change ([123] ++ join_comma (map member_text ms) ++ [125])
    with (123 :: (join_comma (map member_text ms) ++ [125])).
  cbn [ascii_str forallb]. fold (ascii_str (join_comma (map member_text ms) ++ [125])).
  rewrite ascii_app. cbn. rewrite andb_true_r.
  induction ms as [|kv ms IH]; [reflexivity|].
  simpl in H. apply andb_true_iff in H. destruct H as [Hkv Hs].
  change (map member_text (kv :: ms)) with (member_text kv :: map member_text ms).
  rewrite join_comma_cons, ascii_app, (member_text_ascii kv Hkv). cbn [andb].
  clear IH. induction ms as [|kv2 ms IH2]; [reflexivity|].
  simpl in Hs. apply andb_true_iff in Hs. destruct Hs as [H2 Hs].
  cbn [map flat_map]. change (ascii_str ((44 :: member_text kv2) ++ flat_map (fun m => 44 :: m) (map member_text ms)) = true).
  rewrite ascii_app. cbn [ascii_str forallb]. fold (ascii_str (member_text kv2)).
  rewrite (member_text_ascii kv2 H2). cbn. exact (IH2 Hs).
Qed.

(* ---------------------------------------------------------------- *)
(* dictionaries                                                       *)
(* ---------------------------------------------------------------- *)
Lemma keys_unique_NoDup l : keys_unique l = true <-> NoDup l.
Proof.
  induction l as [|k l IH]; simpl.
  - split; [constructor | reflexivity].
  - rewrite andb_true_iff, negb_true_iff, IH. split.
    + intros [Hn Hd]. constructor; [|exact Hd].
      intro HI. apply str_mem_In in HI. congruence.
    + intro H. inversion H; subst. split; [|assumption].
      destruct (str_mem k l) eqn:E; [apply str_mem_In in E; contradiction | reflexivity].
Qed.

Lemma dget_Some_In {A} (d : list (str * A)) k v : dget d k = Some v -> In (k, v) d.
Proof.
  induction d as [|[k' v'] d IH]; simpl; [discriminate|].
  destruct (str_eqb k' k) eqn:E.
  - apply str_eqb_eq in E. intro H. inversion H; subst. left. reflexivity.
  - intro H. right. exact (IH H).
Qed.

Lemma dget_None_iff {A} (d : list (str * A)) k : dget d k = None <-> ~ In k (dkeys d).
Proof.
  induction d as [|[k' v'] d IH]; simpl; [tauto|].
  destruct (str_eqb k' k) eqn:E.
  - apply str_eqb_eq in E. subst. split; [discriminate | intro H; exfalso; apply H; left; reflexivity].
  - apply str_eqb_neq in E. rewrite IH. tauto.
Qed.

Lemma dget_In_NoDup {A} (d : list (str * A)) k v :
  NoDup (dkeys d) -> In (k, v) d -> dget d k = Some v.
Proof.
  induction d as [|[k' v'] d IH]; simpl; [tauto|].
  intros ND [HI|HI].
  - inversion HI; subst. rewrite str_eqb_refl. reflexivity.
  - inversion ND; subst. destruct (str_eqb k' k) eqn:E.
    + apply str_eqb_eq in E. subst. exfalso. apply H1.
      change k with (fst (k, v)). apply in_map. exact HI.
    + exact (IH H2 HI).
Qed.

(* lookup does not depend on the order of the members *)
Lemma dget_perm {A} (d d' : list (str * A)) k :
  Permutation d d' -> NoDup (dkeys d) -> dget d k = dget d' k.
Proof.
  intros P ND.
  assert (ND' : NoDup (dkeys d')).
  { eapply Permutation_NoDup; [apply Permutation_map; exact P | exact ND]. }
  destruct (dget d k) as [v|] eqn:E.
  - symmetry. apply dget_In_NoDup; [exact ND'|].
    eapply Permutation_in; [exact P | apply dget_Some_In; exact E].
  - symmetry. apply dget_None_iff. intro HI. apply dget_None_iff in E. apply E.
    eapply Permutation_in; [apply Permutation_sym, Permutation_map; exact P | exact HI].
Qed.

Lemma dget_ddel_other {A} (d : list (str * A)) k k2 : k <> k2 -> dget (ddel d k) k2 = dget d k2.
Proof.
  intro N. induction d as [|[k' v'] d IH]; simpl; [reflexivity|].
  destruct (str_eqb k' k) eqn:E.
  - apply str_eqb_eq in E. subst k'.
    destruct (str_eqb k k2) eqn:E2; [apply str_eqb_eq in E2; contradiction | exact IH].
  - simpl. destruct (str_eqb k' k2); [reflexivity | exact IH].
Qed.

Lemma dget_dupdate_other {A} (e d : list (str * A)) k :
  ~ In k (dkeys e) -> dget (dupdate d e) k = dget d k.
Proof.
  unfold dupdate. revert d. induction e as [|[k' v'] e IH]; intros d H; simpl; [reflexivity|].
  rewrite IH.
  - apply dget_dset_other. intro E. apply H. left. exact E.
  - intro HI. apply H. right. exact HI.
Qed.

Lemma dget_filter_key {A} (g : str -> bool) (d : list (str * A)) k :
  g k = true -> dget (filter (fun kv => g (fst kv)) d) k = dget d k.
Proof.
  intro G. induction d as [|[k' v'] d IH]; simpl; [reflexivity|].
  destruct (g k') eqn:Gk; simpl.
  - destruct (str_eqb k' k); [reflexivity | exact IH].
  - destruct (str_eqb k' k) eqn:E; [apply str_eqb_eq in E; congruence | exact IH].
Qed.

Lemma dmem_true_iff {A} (d : list (str * A)) k : dmem d k = true <-> exists v, dget d k = Some v.
Proof.
  unfold dmem. destruct (dget d k); split; intro H; try reflexivity; try discriminate.
  - eexists; reflexivity.
  - destruct H; discriminate.
Qed.

Lemma dset_fresh {A} (acc : list (str * A)) k v :
  ~ In k (dkeys acc) -> dset acc k v = acc ++ [(k, v)].
Proof.
  induction acc as [|[k' v'] acc IH]; simpl; intro H; [reflexivity|].
  destruct (str_eqb k' k) eqn:E.
  - apply str_eqb_eq in E. exfalso. apply H. left. exact E.
  - rewrite IH; [reflexivity | tauto].
Qed.

(* ---------------------------------------------------------------- *)
(* sorting and the data dictionary                                    *)
(* ---------------------------------------------------------------- *)
Lemma In_insert_sorted k x l : In x (insert_sorted k l) <-> x = k \/ In x l.
Proof.
  induction l as [|y l IH]; simpl.
  - intuition.
  - destruct (str_leb k y); simpl; [intuition | rewrite IH; intuition].
Qed.

Lemma In_sort_fields x l : In x (sort_fields l) <-> In x l.
Proof.
  induction l as [|y l IH]; simpl; [tauto|].
  rewrite In_insert_sorted, IH. intuition.
Qed.

Lemma build_data_ext d d' fs :
  (forall k, In k fs -> dget d k = dget d' k) ->
  forall acc, build_data d fs acc = build_data d' fs acc.
Proof.
  induction fs as [|k fs IH]; intros H acc; simpl; [reflexivity|].
  rewrite <- (H k (or_introl eq_refl)).
  destruct (dget d k); [|reflexivity].
  apply IH. intros k2 Hk2. apply H. right. exact Hk2.
Qed.

Lemma build_data_map d (f : str -> pv) fs :
  forall acc, NoDup (dkeys acc ++ fs) ->
  (forall k, In k fs -> dget d k = Some (f k)) ->
  build_data d fs acc = Ok (acc ++ map (fun k => (k, f k)) fs).
Proof.
  induction fs as [|k fs IH]; intros acc ND H; simpl.
  - rewrite app_nil_r. reflexivity.
  - rewrite (H k (or_introl eq_refl)).
    assert (Hk : ~ In k (dkeys acc)).
    { apply NoDup_remove_2 in ND. intro HI. apply ND. apply in_or_app. left. exact HI. }
    rewrite (dset_fresh acc k (f k) Hk).
    rewrite IH.
    + rewrite <- app_assoc. reflexivity.
    + unfold dkeys. rewrite map_app. simpl. rewrite <- app_assoc. exact ND.
    + intros k2 Hk2. apply H. right. exact Hk2.
Qed.

Section WithHash.
  Variable hashnew : str -> bytes -> res bytes.
  Hypothesis hashnew_octets : forall n x h, hashnew n x = Ok h -> bytes_ok h = true.

  (* the thumbprint reads the dictionary only at the named fields *)
  Theorem thumbprint_ext d d' fields dg :
    (forall k, In k fields -> dget d k = dget d' k) ->
    thumbprint hashnew d fields dg = thumbprint hashnew d' fields dg.
  Proof.
    intro H. unfold thumbprint.
    rewrite (build_data_ext d d' (sort_fields fields)); [reflexivity|].
    intros k Hk. apply H. apply In_sort_fields. exact Hk.
  Qed.

  (* the general form of the RFC 7638 characterisation: any field list whose
     sorted form [names] is duplicate-free, any digest name *)
  Theorem thumbprint_rfc d fields dg names :
    sort_fields fields = names -> keys_unique names = true -> forallb plain names = true ->
    (forall k, In k names -> exists s, dget d k = Some (PStr s) /\ plain s = true) ->
    thumbprint hashnew d fields dg =
    do h <- hashnew dg (rfc7638_canonical (restrict d names)); Ok (b64e h).
  Proof.
    intros Hs Hu Hp Hm. unfold thumbprint. rewrite Hs.
    rewrite (build_data_map d (fun k => PStr (member_str d k)) names []).
    - cbn [bind app].
      assert (E : map (fun k => (k, PStr (member_str d k))) names = map as_pv_member (restrict d names)).
      { unfold restrict. rewrite map_map. reflexivity. }
      rewrite E.
      assert (Hpl : forallb plain_member (restrict d names) = true).
      { unfold restrict. apply forallb_forall. intros kv HI.
        apply in_map_iff in HI. destruct HI as [k [Ek HI]]. subst kv.
        unfold plain_member. simpl.
        rewrite forallb_forall in Hp. rewrite (Hp k HI). simpl.
        destruct (Hm k HI) as [s [Eg Ps]]. unfold member_str. rewrite Eg. exact Ps. }
      rewrite (jdumps_flat _ Hpl). cbn [bind].
      rewrite (utf8_ascii _ (canonical_ascii _ Hpl)). reflexivity.
    - simpl. apply keys_unique_NoDup. exact Hu.
    - intros k HI. destruct (Hm k HI) as [s [Eg _]]. unfold member_str. rewrite Eg. reflexivity.
  Qed.

  (* unpadded base64url *)
  Theorem thumbprint_alphabet d fields dg t :
    thumbprint hashnew d fields dg = Ok t -> forallb in_alphabet t = true.
  Proof.
    unfold thumbprint. intro H.
    destruct (build_data d (sort_fields fields) []) as [data|]; [|discriminate].
    cbn [bind] in H. destruct (jdumps (PDict data)) as [js|]; [|discriminate].
    cbn [bind] in H. destruct (utf8 js) as [bs|]; [|discriminate].
    cbn [bind] in H. destruct (hashnew dg bs) as [h|] eqn:E; [|discriminate].
    cbn [bind] in H. inversion H; subst.
    apply b64e_alphabet. exact (hashnew_octets _ _ _ E).
  Qed.

  (* ---------- table facts about the four key classes ---------- *)
  Lemma sorted_fields_table :
    map (fun c => (kc_kty c, sort_fields (key_fields c))) key_classes =
    [("oct"%string, [asc "k"; asc "kty"]);
     ("RSA"%string, [asc "e"; asc "kty"; asc "n"]);
     ("EC"%string, [asc "crv"; asc "kty"; asc "x"; asc "y"]);
     ("OKP"%string, [asc "crv"; asc "kty"; asc "x"])].
  Proof. vm_compute. reflexivity. Qed.

  Lemma required_is_rfc c :
    In c key_classes -> rfc7638_required (kc_kty c) = Some (sort_fields (key_fields c)).
  Proof.
    intros [E|[E|[E|[E|[]]]]]; subst c; vm_compute; reflexivity.
  Qed.

  Lemma digest_is_sha256 c : In c key_classes -> asc (kc_digest c) = s_sha256.
  Proof. intros [E|[E|[E|[E|[]]]]]; subst c; vm_compute; reflexivity. Qed.

  Lemma names_wellformed c :
    In c key_classes ->
    keys_unique (sort_fields (key_fields c)) = true /\
    forallb plain (sort_fields (key_fields c)) = true /\
    strictly_sorted (sort_fields (key_fields c)) = true.
  Proof. intros [E|[E|[E|[E|[]]]]]; subst c; vm_compute; repeat split. Qed.

  Lemma kid_not_field c : In c key_classes -> ~ In s_kid (key_fields c).
  Proof.
    intros HI H. apply str_mem_In in H. revert H.
    destruct HI as [E|[E|[E|[E|[]]]]]; subst c; vm_compute; discriminate.
  Qed.

  Lemma kid_not_private c : In c key_classes -> private_member c s_kid = false.
  Proof. intros [E|[E|[E|[E|[]]]]]; subst c; vm_compute; reflexivity. Qed.

  Lemma asym_in_classes c : In c asym_classes -> In c key_classes.
  Proof. intros [E|[E|[E|[]]]]; subst c; simpl; tauto. Qed.

  (* no required member of an asymmetric class is private *)
  Lemma asym_fields_public c k :
    In c asym_classes -> In k (key_fields c) -> private_member c k = false.
  Proof.
    intros HI Hk.
    assert (forallb (fun k => negb (private_member c k)) (key_fields c) = true) as F.
    { destruct HI as [E|[E|[E|[]]]]; subst c; vm_compute; reflexivity. }
    rewrite forallb_forall in F. apply F in Hk. apply negb_true_iff in Hk. exact Hk.
  Qed.

  (* ---------- the RFC 7638 value ---------- *)
  Theorem is_rfc7638 c names K :
    In c key_classes -> rfc7638_required (kc_kty c) = Some names ->
    (forall k, In k names -> exists s, dget K k = Some (PStr s) /\ plain s = true) ->
    key_thumbprint hashnew c K =
    do h <- hashnew s_sha256 (rfc7638_canonical (restrict K names)); Ok (b64e h).
  Proof.
    intros HI Hr Hm. rewrite (required_is_rfc c HI) in Hr. inversion Hr as [E].
    destruct (names_wellformed c HI) as [Hu [Hp _]].
    unfold key_thumbprint. rewrite (digest_is_sha256 c HI).
    apply thumbprint_rfc; try assumption; try reflexivity.
    rewrite E. exact Hm.
  Qed.

  (* ---------- members outside the required set are irrelevant ---------- *)
  Theorem optional_set c K k v :
    ~ In k (key_fields c) ->
    key_thumbprint hashnew c (dset K k v) = key_thumbprint hashnew c K.
  Proof.
    intro H. apply thumbprint_ext. intros k2 Hk2. apply dget_dset_other.
    intro E. subst. contradiction.
  Qed.

  Theorem optional_del c K k :
    ~ In k (key_fields c) ->
    key_thumbprint hashnew c (ddel K k) = key_thumbprint hashnew c K.
  Proof.
    intro H. apply thumbprint_ext. intros k2 Hk2. apply dget_ddel_other.
    intro E. subst. contradiction.
  Qed.

  Theorem optional_update c K params :
    (forall k, In k (dkeys params) -> ~ In k (key_fields c)) ->
    key_thumbprint hashnew c (dupdate K params) = key_thumbprint hashnew c K.
  Proof.
    intro H. apply thumbprint_ext. intros k2 Hk2. apply dget_dupdate_other.
    intro HI. exact (H k2 HI Hk2).
  Qed.

  Theorem order_irrelevant K K' fields dg :
    Permutation K K' -> keys_unique (dkeys K) = true ->
    thumbprint hashnew K' fields dg = thumbprint hashnew K fields dg.
  Proof.
    intros P U. apply thumbprint_ext. intros k _. symmetry.
    apply dget_perm; [exact P | apply keys_unique_NoDup; exact U].
  Qed.

  (* ---------- private and public views ---------- *)
  Lemma mk_dict_kty c orig params : dget (mk_dict c orig params) s_kty = Some (PStr (asc (kc_kty c))).
  Proof. unfold mk_dict. apply dget_dset_same. Qed.

  Lemma dget_mk_dict_other c orig k :
    k <> s_kty -> dget (mk_dict c orig None) k = dget orig k.
  Proof. intro H. unfold mk_dict. apply dget_dset_other. congruence. Qed.

  Lemma private_member_as_key c :
    forall d : dict,
      filter (fun kv => negb (private_member c (fst kv))) d =
      filter (fun kv => (fun k => negb (private_member c k)) (fst kv)) d.
  Proof. reflexivity. Qed.

  (* the public export of a key, imported again, has the thumbprint of the key *)
  Theorem priv_pub_export c orig params priv pub :
    In c asym_classes ->
    as_dict {| ko_cls := c; ko_priv := priv; ko_dict := mk_dict c orig params |} (Some false) [] = Ok pub ->
    key_thumbprint hashnew c (mk_dict c pub None) =
    key_thumbprint hashnew c (mk_dict c orig params).
  Proof.
    intros HI H. simpl in H. inversion H as [E]. clear H.
    apply thumbprint_ext. intros k Hk.
    destruct (list_eq_dec N.eq_dec k s_kty) as [Ek|Ek].
    - subst k. rewrite !mk_dict_kty. reflexivity.
    - rewrite dget_mk_dict_other by exact Ek.
      unfold dupdate. simpl.
      apply (dget_filter_key (fun k => negb (private_member c k))).
      rewrite (asym_fields_public c k HI Hk). reflexivity.
  Qed.

  (* native keys: the exported members named by the thumbprint are those of the public key *)
  Lemma export_public_agrees nk e :
    export_native nk = Ok e ->
    exists e', export_native (native_public nk) = Ok e' /\
      forall k, private_member (native_cls nk) k = false ->
                In (native_cls nk) asym_classes -> dget e' k = dget e k.
  Proof.
    destruct nk as [k0 | n e0 priv | crv bits x y d | crv x d]; simpl; intro H.
    - eexists. split; [reflexivity|]. intros k _ [E|[E|[E|[]]]]; discriminate.
    - destruct (int_to_base64 n) as [bn|]; [|discriminate]. cbn [bind] in *.
      destruct (int_to_base64 e0) as [be|]; [|discriminate]. cbn [bind] in *.
      destruct priv as [[[[[[d p] q] dp] dq] qi]|].
      + destruct (int_to_base64 d) as [bd|]; [|discriminate]. cbn [bind] in *.
        destruct (int_to_base64 p) as [bp|]; [|discriminate]. cbn [bind] in *.
        destruct (int_to_base64 q) as [bq|]; [|discriminate]. cbn [bind] in *.
        destruct (int_to_base64 dp) as [bdp|]; [|discriminate]. cbn [bind] in *.
        destruct (int_to_base64 dq) as [bdq|]; [|discriminate]. cbn [bind] in *.
        destruct (int_to_base64 qi) as [bqi|]; [|discriminate]. cbn [bind] in *.
        inversion H; subst. eexists. split; [reflexivity|].
        intros k Hp _. cbn [dget].
        destruct (str_eqb s_n k) eqn:E1; [reflexivity|].
        destruct (str_eqb s_e k) eqn:E2; [reflexivity|].
        destruct (str_eqb s_d k) eqn:E3; [apply str_eqb_eq in E3; subst k; vm_compute in Hp; discriminate|].
        destruct (str_eqb s_p k) eqn:E4; [apply str_eqb_eq in E4; subst k; vm_compute in Hp; discriminate|].
        destruct (str_eqb s_q k) eqn:E5; [apply str_eqb_eq in E5; subst k; vm_compute in Hp; discriminate|].
        destruct (str_eqb s_dp k) eqn:E6; [apply str_eqb_eq in E6; subst k; vm_compute in Hp; discriminate|].
        destruct (str_eqb s_dq k) eqn:E7; [apply str_eqb_eq in E7; subst k; vm_compute in Hp; discriminate|].
        destruct (str_eqb s_qi k) eqn:E8; [apply str_eqb_eq in E8; subst k; vm_compute in Hp; discriminate|].
        reflexivity.
      + inversion H; subst. eexists. split; reflexivity.
    - destruct (fixed_b64 x bits) as [bx|]; [|discriminate]. cbn [bind] in *.
      destruct (fixed_b64 y bits) as [by_|]; [|discriminate]. cbn [bind] in *.
      destruct d as [dv|].
      + destruct (fixed_b64 dv bits) as [bd|]; [|discriminate]. cbn [bind] in *.
        inversion H; subst. eexists. split; [reflexivity|].
        intros k Hp _. cbn [dget].
        destruct (str_eqb s_crv k) eqn:E1; [reflexivity|].
        destruct (str_eqb s_x k) eqn:E2; [reflexivity|].
        destruct (str_eqb s_y k) eqn:E3; [reflexivity|].
        destruct (str_eqb s_d k) eqn:E4; [apply str_eqb_eq in E4; subst k; vm_compute in Hp; discriminate|].
        reflexivity.
      + inversion H; subst. eexists. split; reflexivity.
    - destruct d as [dv|]; inversion H; subst; (eexists; split; [reflexivity|]); [|reflexivity].
      intros k Hp _. cbn [dget].
      destruct (str_eqb s_crv k) eqn:E1; [reflexivity|].
      destruct (str_eqb s_x k) eqn:E2; [reflexivity|].
      destruct (str_eqb s_d k) eqn:E4; [apply str_eqb_eq in E4; subst k; vm_compute in Hp; discriminate|].
      reflexivity.
  Qed.

  Lemma native_public_cls nk : native_cls (native_public nk) = native_cls nk.
  Proof. destruct nk; reflexivity. Qed.

  Lemma dget_mk_dict c orig params k :
    k <> s_kty ->
    (forall p, params = Some p -> ~ In k (dkeys p)) ->
    dget (mk_dict c orig params) k = dget orig k.
  Proof.
    intros Hk Hp. unfold mk_dict. rewrite dget_dset_other by congruence.
    destruct params as [p|]; [|reflexivity].
    apply dget_dupdate_other. apply Hp. reflexivity.
  Qed.

  Definition params_optional (c : kcls) (params : option dict) : Prop :=
    forall p, params = Some p -> forall k, In k (dkeys p) -> ~ In k (key_fields c).

  (* a private native key and its public key, each with arbitrary optional
     parameters, have the same thumbprint *)
  Theorem native_priv_pub nk params params' k :
    In (native_cls nk) asym_classes ->
    params_optional (native_cls nk) params -> params_optional (native_cls nk) params' ->
    key_of_native nk params = Ok k ->
    exists k', key_of_native (native_public nk) params' = Ok k' /\
               ko_cls k' = ko_cls k /\
               key_thumbprint hashnew (ko_cls k') (ko_dict k') =
               key_thumbprint hashnew (ko_cls k) (ko_dict k).
  Proof.
    intros HI Hp Hp' H. unfold key_of_native in *.
    destruct (export_native nk) as [e|] eqn:Ee; [|discriminate]. cbn [bind] in H.
    inversion H; subst k. clear H.
    destruct (export_public_agrees nk e Ee) as [e' [Ee' Hag]].
    rewrite Ee'. cbn [bind]. eexists. split; [reflexivity|].
    cbn [ko_cls ko_dict]. rewrite native_public_cls. split; [reflexivity|].
    apply thumbprint_ext. intros f Hf.
    destruct (list_eq_dec N.eq_dec f s_kty) as [Ek|Ek].
    - subst f. rewrite !mk_dict_kty. reflexivity.
    - rewrite !dget_mk_dict; try exact Ek.
      + apply Hag; [|exact HI]. apply asym_fields_public; assumption.
      + intros p Epp HIn. exact (Hp p Epp f HIn Hf).
      + intros p Epp HIn. exact (Hp' p Epp f HIn Hf).
  Qed.

  Lemma mk_dict_params_irrelevant c e params :
    params_optional c params ->
    key_thumbprint hashnew c (mk_dict c e params) = key_thumbprint hashnew c (mk_dict c e None).
  Proof.
    intro Hp. apply thumbprint_ext. intros f Hf.
    destruct (list_eq_dec N.eq_dec f s_kty) as [Ek|Ek].
    - subst f. rewrite !mk_dict_kty. reflexivity.
    - rewrite !dget_mk_dict; try exact Ek; try reflexivity.
      + intros p E. discriminate.
      + intros p E HIn. exact (Hp p E f HIn Hf).
  Qed.

  Lemma native_not_oct_asym nk : (forall a, nk <> NOct a) -> In (native_cls nk) asym_classes.
  Proof.
    destruct nk; intro H; simpl; try tauto. exfalso. exact (H k eq_refl).
  Qed.

  (* two native keys with the same public key (the generated private key, the
     key loaded from its private or public PEM/DER, ...) and arbitrary
     optional parameters have the same thumbprint *)
  Theorem repr_independent nk nk' params params' k k' :
    native_public nk = native_public nk' ->
    params_optional (native_cls nk) params -> params_optional (native_cls nk') params' ->
    key_of_native nk params = Ok k -> key_of_native nk' params' = Ok k' ->
    ko_cls k = ko_cls k' /\
    key_thumbprint hashnew (ko_cls k) (ko_dict k) = key_thumbprint hashnew (ko_cls k') (ko_dict k').
  Proof.
    intros Ep Hp Hp' H H'.
    assert (Ec : native_cls nk = native_cls nk').
    { rewrite <- (native_public_cls nk), <- (native_public_cls nk'), Ep. reflexivity. }
    destruct nk as [a | | | ].
    - (* oct: the same octets *)
      destruct nk' as [a' | | | ]; try discriminate. simpl in Ep. inversion Ep; subst a'.
      unfold key_of_native in *. simpl in H, H'. inversion H; inversion H'; subst. cbn [ko_cls ko_dict].
      split; [reflexivity|].
      rewrite (mk_dict_params_irrelevant OctCls _ params Hp).
      rewrite (mk_dict_params_irrelevant OctCls _ params' Hp'). reflexivity.
    - assert (HA : In (native_cls (NRSA n e priv)) asym_classes) by (apply native_not_oct_asym; intros a E; discriminate).
      assert (HA' : In (native_cls nk') asym_classes) by (rewrite <- Ec; exact HA).
      destruct (native_priv_pub _ params None k HA Hp (fun p E => match E with end) H) as [k1 [E1 [C1 T1]]].
      destruct (native_priv_pub _ params' None k' HA' Hp' (fun p E => match E with end) H') as [k2 [E2 [C2 T2]]].
      rewrite Ep in E1. rewrite E1 in E2. inversion E2; subst k2.
      split; [congruence|]. rewrite <- T1, <- T2. reflexivity.
    - assert (HA : In (native_cls (NEC crv bits x y d)) asym_classes) by (apply native_not_oct_asym; intros a E; discriminate).
      assert (HA' : In (native_cls nk') asym_classes) by (rewrite <- Ec; exact HA).
      destruct (native_priv_pub _ params None k HA Hp (fun p E => match E with end) H) as [k1 [E1 [C1 T1]]].
      destruct (native_priv_pub _ params' None k' HA' Hp' (fun p E => match E with end) H') as [k2 [E2 [C2 T2]]].
      rewrite Ep in E1. rewrite E1 in E2. inversion E2; subst k2.
      split; [congruence|]. rewrite <- T1, <- T2. reflexivity.
    - assert (HA : In (native_cls (NOKP crv x d)) asym_classes) by (apply native_not_oct_asym; intros a E; discriminate).
      assert (HA' : In (native_cls nk') asym_classes) by (rewrite <- Ec; exact HA).
      destruct (native_priv_pub _ params None k HA Hp (fun p E => match E with end) H) as [k1 [E1 [C1 T1]]].
      destruct (native_priv_pub _ params' None k' HA' Hp' (fun p E => match E with end) H') as [k2 [E2 [C2 T2]]].
      rewrite Ep in E1. rewrite E1 in E2. inversion E2; subst k2.
      split; [congruence|]. rewrite <- T1, <- T2. reflexivity.
  Qed.

  (* EC members carry the full coordinate length *)
  Theorem fixed_b64_full z bits s :
    fixed_b64 z bits = Ok s ->
    exists octs, s = b64e octs /\ bytes_ok octs = true /\
                 length octs = N.to_nat ((bits + 7) / 8) /\
                 Z.of_N (be_to_N octs) = z.
  Proof.
    unfold fixed_b64. intro H.
    destruct (z <? 0)%Z eqn:Ez; [discriminate|].
    destruct (256 ^ N.of_nat (N.to_nat ((bits + 7) / 8)) <=? Z.to_N z) eqn:El; [discriminate|].
    inversion H; subst. eexists. split; [reflexivity|].
    split; [apply I2OSP_bytes_ok|]. split; [apply I2OSP_length|].
    rewrite I2OSP_value by lia. lia.
  Qed.

  (* ---------- kid ---------- *)
  Theorem kid_never_overwritten k v : kid_of k = Some v -> ensure_kid hashnew k = Ok k.
  Proof.
    unfold kid_of, ensure_kid, dmem. intro H. rewrite H. reflexivity.
  Qed.

  Theorem kid_characterised k k' :
    ensure_kid hashnew k = Ok k' <->
    (dmem (ko_dict k) s_kid = true /\ k' = k) \/
    (dmem (ko_dict k) s_kid = false /\
     exists t, key_thumbprint hashnew (ko_cls k) (ko_dict k) = Ok t /\
               k' = {| ko_cls := ko_cls k; ko_priv := ko_priv k;
                       ko_dict := dset (ko_dict k) s_kid (PStr t) |}).
  Proof.
    unfold ensure_kid. destruct (dmem (ko_dict k) s_kid) eqn:E.
    - split.
      + intro H. inversion H. left. split; reflexivity.
      + intros [[_ H]|[H _]]; [subst; reflexivity | discriminate].
    - split.
      + intro H. right. split; [reflexivity|].
        destruct (key_thumbprint hashnew (ko_cls k) (ko_dict k)) as [t|]; [|discriminate].
        cbn [bind] in H. inversion H. exists t. split; reflexivity.
      + intros [[H _]|[_ [t [Ht Hk]]]]; [discriminate|].
        rewrite Ht. cbn [bind]. subst. reflexivity.
  Qed.

  Theorem kid_idempotent k k' : ensure_kid hashnew k = Ok k' -> ensure_kid hashnew k' = Ok k'.
  Proof.
    intro H. apply kid_characterised in H.
    destruct H as [[E Hk]|[E [t [Ht Hk]]]]; subst k'.
    - unfold ensure_kid. rewrite E. reflexivity.
    - unfold ensure_kid. cbn [ko_dict]. unfold dmem. rewrite dget_dset_same. reflexivity.
  Qed.

  (* after ensure_kid on a key without kid: kid is the thumbprint, and it is
     still the thumbprint of the key that now carries the kid *)
  Theorem kid_is_thumbprint k k' :
    In (ko_cls k) key_classes -> dmem (ko_dict k) s_kid = false ->
    ensure_kid hashnew k = Ok k' ->
    exists t, key_thumbprint hashnew (ko_cls k) (ko_dict k) = Ok t /\
              kid_of k' = Some (PStr t) /\ ko_cls k' = ko_cls k /\
              key_thumbprint hashnew (ko_cls k') (ko_dict k') = Ok t /\
              (forall m, m <> s_kid -> dget (ko_dict k') m = dget (ko_dict k) m).
  Proof.
    intros HI E H. apply kid_characterised in H.
    destruct H as [[E2 _]|[_ [t [Ht Hk]]]]; [congruence|].
    exists t. subst k'. cbn [ko_cls ko_dict]. unfold kid_of. cbn [ko_dict].
    split; [exact Ht|]. split; [apply dget_dset_same|]. split; [reflexivity|].
    split.
    - rewrite optional_set; [exact Ht | apply kid_not_field; exact HI].
    - intros m Hm. apply dget_dset_other. congruence.
  Qed.

  (* every export of the key carries the same kid *)
  Theorem kid_exported k private params e :
    In (ko_cls k) key_classes -> ~ In s_kid (dkeys params) ->
    as_dict k private params = Ok e -> dget e s_kid = kid_of k.
  Proof.
    intros HI Hp H. unfold as_dict, kid_of in *.
    destruct private as [[|]|].
    - destruct (ko_priv k); [|discriminate]. inversion H.
      apply dget_dupdate_other. exact Hp.
    - inversion H. rewrite dget_dupdate_other by exact Hp.
      apply (dget_filter_key (fun m => negb (private_member (ko_cls k) m))).
      rewrite (kid_not_private _ HI). reflexivity.
    - inversion H. apply dget_dupdate_other. exact Hp.
  Qed.

  (* as_dict never changes the key itself: the model's as_dict is a function of
     the key; repeated ensure_kid / as_dict leave kid fixed *)
  Fixpoint iter_ensure (n : nat) (k : kobj) : res kobj :=
    match n with O => Ok k | S m => do k' <- ensure_kid hashnew k; iter_ensure m k' end.

  Theorem kid_stable n k k' : ensure_kid hashnew k = Ok k' -> iter_ensure n k' = Ok k'.
  Proof.
    intro H. apply kid_idempotent in H. induction n as [|n IH]; simpl; [reflexivity|].
    rewrite H. cbn [bind]. exact IH.
  Qed.

  (* key sets *)
  Theorem keyset_init_spec ks ks' :
    keyset_init hashnew ks = Ok ks' <-> Forall2 (fun k k' => ensure_kid hashnew k = Ok k') ks ks'.
  Proof.
    revert ks'. induction ks as [|k ks IH]; intro ks'; simpl.
    - split; intro H; [inversion H; constructor | inversion H; reflexivity].
    - split; intro H.
      + destruct (ensure_kid hashnew k) as [k1|] eqn:E; [|discriminate]. cbn [bind] in H.
        destruct (keyset_init hashnew ks) as [r|] eqn:Er; [|discriminate]. cbn [bind] in H.
        inversion H; subst. constructor; [exact E | apply IH; reflexivity].
      + inversion H; subst. rewrite H2. cbn [bind].
        apply IH in H4. rewrite H4. reflexivity.
  Qed.

  Theorem keyset_init_stable ks ks' :
    keyset_init hashnew ks = Ok ks' -> keyset_init hashnew ks' = Ok ks'.
  Proof.
    intro H. apply keyset_init_spec in H. apply keyset_init_spec.
    induction H; constructor; [eapply kid_idempotent; eassumption | assumption].
  Qed.

  (* exporting a constructed key set leaves its keys (hence their kids)
     unchanged and every exported member dict carries the key's kid *)
  Theorem keyset_export_stable ks ks' private params es ks2 :
    keyset_init hashnew ks = Ok ks' ->
    keyset_as_dict hashnew ks' private params = Ok (es, ks2) -> ks2 = ks'.
  Proof.
    intro H. apply keyset_init_spec in H. revert es ks2.
    induction H as [|k k' r r' Hk Hr IH]; intros es ks2 H2; simpl in H2.
    - inversion H2. reflexivity.
    - rewrite (kid_idempotent _ _ Hk) in H2. cbn [bind] in H2.
      destruct (as_dict k' private params) as [e|]; [|discriminate]. cbn [bind] in H2.
      destruct (keyset_as_dict hashnew r' private params) as [[es1 r1]|] eqn:E; [|discriminate].
      cbn [bind] in H2. inversion H2; subst. f_equal. eapply IH. reflexivity.
  Qed.

  Theorem keyset_export_kids ks private params es ks2 :
    Forall (fun k => In (ko_cls k) key_classes) ks -> ~ In s_kid (dkeys params) ->
    keyset_as_dict hashnew ks private params = Ok (es, ks2) ->
    Forall2 (fun e k => dget e s_kid = kid_of k /\ exists v, kid_of k = Some v) es ks2 /\
    Forall2 (fun k k2 => ensure_kid hashnew k = Ok k2) ks ks2.
  Proof.
    intros HF Hp. revert es ks2. induction HF as [|k r Hk HF IH]; intros es ks2 H; simpl in H.
    - inversion H. split; constructor.
    - destruct (ensure_kid hashnew k) as [k'|] eqn:Ek; [|discriminate]. cbn [bind] in H.
      destruct (as_dict k' private params) as [e|] eqn:Ee; [|discriminate]. cbn [bind] in H.
      destruct (keyset_as_dict hashnew r private params) as [[es1 r1]|] eqn:E; [|discriminate].
      cbn [bind] in H. inversion H; subst. destruct (IH _ _ eq_refl) as [IH1 IH2].
      split; constructor; try assumption.
      assert (Hc : ko_cls k' = ko_cls k).
      { apply kid_characterised in Ek. destruct Ek as [[_ E1]|[_ [t [_ E1]]]]; subst; reflexivity. }
      split.
      + eapply kid_exported; [rewrite Hc; exact Hk | exact Hp | exact Ee].
      + apply kid_characterised in Ek. destruct Ek as [[E1 E2]|[_ [t [_ E1]]]]; subst.
        * apply dmem_true_iff in E1. exact E1.
        * exists (PStr t). unfold kid_of. cbn [ko_dict]. apply dget_dset_same.
  Qed.

  (* validated key dictionaries have a thumbprint whenever the digest exists *)
  Lemma validate_reg_required reg d :
    validate_reg reg d = Ok tt ->
    forall p, In p reg -> kp_required p = true ->
      exists s, dget d (asc (kp_name p)) = Some (PStr s).
  Proof.
    induction reg as [|q reg IH]; simpl; intros H p HI Hr; [contradiction|].
    destruct (dget d (asc (kp_name q))) as [v|] eqn:E.
    - destruct (kp_kind q); try discriminate.
      destruct v; simpl in H; try discriminate.
      destruct HI as [HI|HI]; [subst q; eexists; exact E | exact (IH H p HI Hr)].
    - destruct (kp_required q) eqn:Rq; [discriminate|].
      destruct HI as [HI|HI]; [subst q; congruence | exact (IH H p HI Hr)].
  Qed.
End WithHash.
